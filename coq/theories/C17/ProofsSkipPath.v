(* C17, skip lists: the per-path form of the lane bound, for ANY assignment of heights: the calls of a search are at
   most  sum over the levels i of (1 + number of nodes the walk passes on lane i), and when no node is taller than
   the number of levels searched every node passed on lane i has height EXACTLY i+1 (they lie between two
   consecutive nodes of lane i+1 on the search path). *)
From VF Require Import C17.SkipCost C17.ProofsSkip.
Local Open Scope nat_scope.

Section Path.
  Variable N : Type.
  Variable height : N -> nat.
  Variable adv : N -> bool.
  Variable cadv : N -> nat.
  Hypothesis cadv1 : forall y, cadv y <= 1.
  Notation lscan := (lscan N height adv cadv).

  (* the nodes the walk on lane i passes, scanning l *)
  Fixpoint lpassed (i : nat) (l : list N) : list N :=
    match l with
    | [] => []
    | y :: r => if i <? height y then (if adv y then y :: lpassed i r else []) else lpassed i r
    end.
  (* sum over the levels of (1 + nodes passed), along the positions the search goes through *)
  Fixpoint path_len (levels : nat) (x : option N) (suf : list N) : nat :=
    match levels with
    | O => O
    | S i => let '(x', suf', _, _) := lscan i suf x suf 0 in S (length (lpassed i suf)) + path_len i x' suf'
    end.
  Fixpoint path_exact (levels : nat) (x : option N) (suf : list N) : Prop :=
    match levels with
    | O => True
    | S i => let '(x', suf', _, _) := lscan i suf x suf 0 in
             Forall (fun y => height y = S i) (lpassed i suf) /\ path_exact i x' suf'
    end.

  Lemma lscan_passed i : forall l x suf c,
    let '(_, _, _, c') := lscan i l x suf c in c' <= c + length (lpassed i l) + 1.
  Proof.
    induction l as [|y r IH]; intros x suf c; cbn [SkipCost.lscan lpassed]; [lia|].
    destruct (i <? height y).
    - destruct (adv y); pose proof (cadv1 y).
      + specialize (IH (Some y) r (c + cadv y)). destruct (lscan i r (Some y) r (c + cadv y)) as [[[x' suf'] nx] c'].
        cbn [length]. lia.
      + cbn [length]. lia.
    - apply IH.
  Qed.

  Lemma lpassed_exact i : forall l, Q N height adv (S i) l -> Forall (fun y => height y = S i) (lpassed i l).
  Proof.
    induction l as [|y r IH]; intros HQ; cbn [lpassed]; [constructor|]. cbn [Q] in HQ.
    destruct (Nat.ltb_spec i (height y)) as [Ht|Ht].
    - destruct (adv y) eqn:Ea; [|constructor].
      destruct (Nat.ltb_spec (S i) (height y)) as [Hv|Hv]; [congruence|]. constructor; [lia|now apply IH].
    - destruct (Nat.ltb_spec (S i) (height y)) as [Hv|Hv]; [lia|now apply IH].
  Qed.

  Lemma full_cost_path : forall levels x suf, full_cost N height adv cadv levels x suf <= path_len levels x suf.
  Proof.
    induction levels as [|i IH]; intros x suf; cbn [full_cost path_len]; [lia|].
    pose proof (lscan_passed i suf x suf 0) as H. destruct (lscan i suf x suf 0) as [[[x' suf'] nx] c].
    specialize (IH x' suf'). lia.
  Qed.

  Lemma path_exact_Q : forall levels x suf, Q N height adv levels suf -> path_exact levels x suf.
  Proof.
    induction levels as [|i IH]; intros x suf HQ; cbn [path_exact]; [exact I|].
    pose proof (lscan_post N height adv cadv i suf x suf 0 [] eq_refl (Forall_nil _)) as H.
    pose proof (lpassed_exact i suf HQ) as HE.
    destruct (lscan i suf x suf 0) as [[[x' suf'] nx] c]. destruct H as [HQ' _]. split; [exact HE|now apply IH].
  Qed.
End Path.
