(* C17: B-tree Put / Remove cost bounds under the C02 shape invariant [wf]:
     Put     at most 2*(d+1) - 1 in-node searches,  Remove  at most 3*(d+1) - 2,
   each of at most log2(m-1)+1 comparisons, d = depth of the tree. *)
From VF Require Import C17.Cost C17.BTCost C17.Proofs C01.Order C01.BTree C02.Inv C02.BTProofs C02.Props.
Local Open Scope nat_scope.

Lemma set_nth_len {A} i (x : A) l : length (set_nth i x l) = length l.
Proof.
  unfold set_nth. rewrite app_length, firstn_length.
  pose proof (skipn_length i l) as Hs. destruct (skipn i l) as [|y t]; cbn [length] in *; lia.
Qed.

Section BT.
  Variables K V : Type.
  Variable cmp : K -> K -> Z.
  Variable m : nat.
  Notation node := (BTree.node K V).
  Notation X := (Nat.log2 (maxE m) + 1).

  Lemma scost_le k es : length es <= maxE m -> search_cost K V cmp k es <= X.
  Proof.
    intros H. eapply Nat.le_trans; [apply search_cost_bound|].
    apply Nat.add_le_mono_r. now apply Nat.log2_le_mono.
  Qed.

  Lemma wf_es lo d (t : node) : wf K V m lo d t -> let '(Node es _) := t in length es <= maxE m.
  Proof. destruct t as [es cs]. destruct d; cbn [wf]; tauto. Qed.

  Lemma wf_child lo d es cs i (c : node) : wf K V m lo d (Node es cs) -> nth_error cs i = Some c ->
    exists d', d = S d' /\ wf K V m (minE m) d' c.
  Proof.
    intros H E. destruct d as [|d']; cbn [wf] in H; destruct H as (_ & _ & H).
    - subst cs. destruct i; discriminate.
    - exists d'. split; [reflexivity|]. destruct H as [_ Hall]. rewrite Forall_forall in Hall.
      apply Hall. eapply nth_error_In; eauto.
  Qed.

  (* ---- Put ---- *)
  Lemma ins_cost_levels k v : forall fuel lo d (t : node),
    wf K V m lo d t -> ins_cost K V cmp m fuel k v t + X <= 2 * S d * X.
  Proof.
    induction fuel as [|f IH]; intros lo d t Hwf; cbn [ins_cost]; [lia|].
    destruct t as [es cs]. pose proof (wf_es _ _ _ Hwf) as Hes. cbn beta iota in Hes.
    pose proof (scost_le k es Hes) as Hs.
    destruct (BTree.search K V cmp k es) as [i found].
    destruct found; [lia|].
    destruct cs as [|c0 cs0]; [lia|].
    destruct (nth_error (c0 :: cs0) i) as [c|] eqn:Ec; [|lia].
    destruct (wf_child _ _ _ _ _ _ Hwf Ec) as (d' & -> & Hc).
    specialize (IH _ _ _ Hc).
    assert (Hsp : match BTree.ins K V cmp m f k v c with
                  | Some (RS _ _ _ e _, _) => search_cost K V cmp (fst e) es
                  | _ => 0 end <= X).
    { destruct (BTree.ins K V cmp m f k v c) as [[[n|l e r] b]|]; try lia. now apply scost_le. }
    lia.
  Qed.

  (* ---- Remove ---- *)
  Lemma fix_cost_le es cs i dk : length es <= maxE m -> fst (fix_cost K V cmp m es cs i dk) <= 2 * X.
  Proof.
    intros Hes. pose proof (scost_le dk es Hes) as Hs. unfold fix_cost.
    destruct (nth_error cs i) as [[ne nc]|]; [|cbn; lia].
    destruct (minE m <=? length ne); [cbn; lia|].
    destruct (match i with 0 => None | S j => nth_error cs j end) as [[le lc]|].
    - destruct (minE m <? length le); [cbn [fst]; lia|].
      destruct (nth_error cs (S i)) as [[re rc]|]; [destruct (minE m <? length re)|]; cbn [fst]; lia.
    - destruct (nth_error cs (S i)) as [[re rc]|]; [destruct (minE m <? length re)|]; cbn [fst]; lia.
  Qed.

  Lemma del_max_cost_levels d0 : forall fuel lo d (t : node),
    wf K V m lo d t -> fst (del_max_cost K V cmp m fuel d0 t) <= 2 * d * X.
  Proof.
    induction fuel as [|f IH]; intros lo d t Hwf; cbn [del_max_cost]; [cbn; lia|].
    destruct t as [es cs]. pose proof (wf_es _ _ _ Hwf) as Hes. cbn beta iota in Hes.
    destruct cs as [|c0 cs0]; [cbn; lia|].
    set (i := length (c0 :: cs0) - 1).
    destruct (nth_error (c0 :: cs0) i) as [c|] eqn:Ec; [|cbn; lia].
    destruct (wf_child _ _ _ _ _ _ Hwf Ec) as (d' & -> & Hc).
    specialize (IH _ _ _ Hc).
    destruct (del_max_cost K V cmp m f d0 c) as [cc dkc]. cbn [fst] in IH.
    destruct (BTree.del_max K V m f c) as [[e c']|]; [|cbn [fst]; lia].
    pose proof (fix_cost_le es (set_nth i c' (c0 :: cs0)) i dkc Hes) as Hf.
    destruct (fix_cost K V cmp m es (set_nth i c' (c0 :: cs0)) i dkc) as [cf dk']. cbn [fst] in *. lia.
  Qed.

  Lemma del_cost_levels k : forall fuel lo d (t : node),
    wf K V m lo d t -> fst (del_cost K V cmp m fuel k t) + 2 * X <= 3 * S d * X.
  Proof.
    induction fuel as [|f IH]; intros lo d t Hwf; cbn [del_cost]; [cbn; lia|].
    destruct t as [es cs]. pose proof (wf_es _ _ _ Hwf) as Hes. cbn beta iota in Hes.
    pose proof (scost_le k es Hes) as Hs.
    destruct (BTree.search K V cmp k es) as [i found].
    destruct cs as [|c0 cs0]; [cbn [fst]; lia|].
    destruct (nth_error (c0 :: cs0) i) as [c|] eqn:Ec; [|cbn [fst]; lia].
    destruct (wf_child _ _ _ _ _ _ Hwf Ec) as (d' & -> & Hc).
    destruct found.
    - destruct (BTree.del_max K V m f c) as [[e c']|]; [|cbn [fst]; lia].
      pose proof (del_max_cost_levels k f _ _ _ Hc) as Hm.
      destruct (del_max_cost K V cmp m f k c) as [cm dkm]. cbn [fst] in Hm.
      assert (Hes' : length (set_nth i e es) <= maxE m) by (rewrite set_nth_len; exact Hes).
      pose proof (fix_cost_le (set_nth i e es) (set_nth i c' (c0 :: cs0)) i dkm Hes') as Hf.
      destruct (fix_cost K V cmp m (set_nth i e es) (set_nth i c' (c0 :: cs0)) i dkm) as [cf dk']. cbn [fst] in *. lia.
    - specialize (IH _ _ _ Hc).
      destruct (del_cost K V cmp m f k c) as [cc dkc]. cbn [fst] in IH.
      destruct (BTree.del K V cmp m f k c) as [[c' [|]]|]; try (cbn [fst]; lia).
      pose proof (fix_cost_le es (set_nth i c' (c0 :: cs0)) i dkc Hes) as Hf.
      destruct (fix_cost K V cmp m es (set_nth i c' (c0 :: cs0)) i dkc) as [cf dk']. cbn [fst] in *. lia.
  Qed.

  (* in terms of the number of entries *)
  Lemma bt_put_cost fuel k v d (t : node) : 3 <= m -> wf K V m 1 d t ->
    ins_cost K V cmp m fuel k v t <= 2 * (Nat.log2 (S (entries_count K V t)) * (Nat.log2 (m - 1) + 1)).
  Proof.
    intros Hm Hwf. pose proof (ins_cost_levels k v fuel _ _ _ Hwf) as H.
    pose proof (C02_bt_height_log K V m Hm d t Hwf) as Hh. change (m - 1) with (maxE m).
    assert (S d * X <= Nat.log2 (S (entries_count K V t)) * X) by (apply Nat.mul_le_mono_r; exact Hh). lia.
  Qed.

  Lemma bt_remove_cost fuel k d (t : node) : 3 <= m -> wf K V m 1 d t ->
    fst (del_cost K V cmp m fuel k t) <= 3 * (Nat.log2 (S (entries_count K V t)) * (Nat.log2 (m - 1) + 1)).
  Proof.
    intros Hm Hwf. pose proof (del_cost_levels k fuel _ _ _ Hwf) as H.
    pose proof (C02_bt_height_log K V m Hm d t Hwf) as Hh. change (m - 1) with (maxE m).
    assert (S d * X <= Nat.log2 (S (entries_count K V t)) * X) by (apply Nat.mul_le_mono_r; exact Hh). lia.
  Qed.
End BT.
