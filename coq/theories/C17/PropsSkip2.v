(* C17, skip-list half, second part: statements only.
   (1) every zset entry point that searches has a bound (UpdateScore's two searches included);
   (2) the skipmap / skipset searches priced by the cost model return what the C04 functional model returns;
   (3) the deterministic core of the O(log n) argument: per-path lane bound for any heights, and the perfect
       (ruler) assignment costs at most 2*log2(n)+2. *)
From VF Require Import Common.Base C17.SkipCost C17.SkipRes C17.SkipInst C17.ProofsSkip C17.ProofsSkipRes
  C17.ZsetOps C17.ProofsZsetOps C17.ProofsSkipM2 C17.ProofsSkipPath C17.Perfect C17.PerfectIndex.
From VF Require C03.Spec C03.Model C03.Lanes C04.Spec C04.Model C04.Proofs.
Local Open Scope nat_scope.

(* ---- (1) zset ---- *)
Section ZSet.
Import C03.Spec C03.Model C03.Lanes.

(* ZsetOps.update_cost prices the model's UpdateScore: when the node cannot be re-scored in place the model's result
   is Insert(new, member) applied to update_mid = the list deleteNode leaves, which is what the second search runs on *)
Theorem C17_zset_update_model : forall old m new hs l, update_moves old m new l = true ->
  exists x, In x (sl_nodes l) /\
    sl_update_score old m new hs l = Some (sl_insert new (n_member x) hs (update_mid old m new l)).
Proof. exact update_moves_model. Qed.

(* list.UpdateScore(old, m, new) in every reachable state, for every old, m, new: comparator calls at most the lane
   bound of the list (the search by the old score) plus, when the node moves, the lane bound of the intermediate list
   (Insert's search), which still satisfies the lane invariant, holds a subset of the nodes and has no more levels:
   "sum over the levels of (longest run + 1), twice"; equal() is Go's ==, no further call *)
Theorem C17_zset_update_cost_after_any_history : forall ops, heights_pos ops -> forall old m new,
  let l := z_list (fst (run zset_step zset_empty ops)) in
  let l' := update_mid old m new l in
  update_cost old m new l <= ZS.lane_bound l + (if update_moves old m new l then ZS.lane_bound l' else 0) /\
  Lanes l' /\ incl (sl_nodes l') (sl_nodes l) /\ sl_highest l' <= sl_highest l <= 32.
Proof. exact update_reachable. Qed.

(* every single-element entry point of zset (ZsetOps.op_cost: AddB on a new member, with the same score, with a new
   score; IncrBy on a new and on an existing member; RemoveB; Rank; RevRank; Score, ContainsB, Len, Size, Empty = 0),
   in every reachable state: at most op_bound (one lane bound, two for a moving score update) and at most
   2 * (levels + n) in the worst case.  The remaining operations are batches / range walks (op_cost = None). *)
Theorem C17_zset_op_cost_after_any_history : forall ops, heights_pos ops -> forall o c,
  let z := fst (run zset_step zset_empty ops) in
  op_cost o z = Some c ->
  c <= op_bound o z /\ c <= 2 * (sl_highest (z_list z) + length (sl_nodes (z_list z))).
Proof. exact op_cost_reachable. Qed.

Example C17_zset_ops_nonvacuous :
  let z := fst (run zset_step zset_empty
    [OAddB 0 10 [1]; OAddB 0 20 [3]; OAddB 0 30 [1]; OAddB 0 40 [2]; OAddB 0 50 [1]; OAddB 0 60 [1]; OAddB 0 25 [2]]) in
  op_cost (OAddB 5 30 [2]) z = Some 4 /\ update_moves 0 30 5 (z_list z) = true /\ op_bound (OAddB 5 30 [2]) z = 16 /\
  op_cost (OIncrBy 0 60 []) z = Some 9 /\ op_cost (ORank 50) z = Some 5 /\ op_cost (ORemoveB 40) z = Some 5 /\
  op_cost (OAddB 7 45 []) z = Some 0 /\ op_cost (OAdd [1%Z] []) z = None.
Proof. vm_compute. repeat split. Qed.
End ZSet.

(* ---- (2) skipmap / skipset: the cost model computes the result of the functional model it prices ---- *)
(* the position a level ends at and its successor do not depend on how the calls are counted: find_res / finddel_res
   (SkipRes) walk exactly the positions find_cost / finddel_cost charge for *)
Theorem C17_skip_position_independent_of_counting : forall N (height : N -> nat) (adv : N -> bool) (c1 c2 : N -> nat)
    i l x suf n1 n2,
  fst (lscan N height adv c1 i l x suf n1) = fst (lscan N height adv c2 i l x suf n2).
Proof. exact lscan_cadv_irrel. Qed.

(* generic: on a sequence a ++ b with the loop condition true on a and false on b (a sorted list cut at the key), for
   ANY heights, findNode's answer is read off b alone (first node of b taller than the level), and findNodeDelete
   ends exactly in front of b *)
Theorem C17_skip_result_generic : forall N (height : N -> nat) (adv eq : N -> bool) levels x a b,
  Forall (fun y => adv y = true) a -> Forall (fun y => adv y = false) b ->
  find_res N height adv eq levels x (a ++ b) = res_b N height eq levels b /\
  ((forall y, In y a -> 1 <= height y) -> 1 <= levels -> forall lf,
   exists x', finddel_res N height adv eq levels x (a ++ b) lf =
     (match lf with Some _ => lf | None => option_map fst (res_b N height eq levels b) end, x', b)).
Proof.
  exact (fun N height adv eq levels x a b HT HF =>
    conj (find_res_b N height adv eq levels x a b HT HF)
         (fun Hh Hl lf => finddel_res_b N height adv eq levels x a b lf HT HF Hh Hl)).
Qed.

Section SkipMapSet.
Import C04.Spec C04.Model C04.Proofs.

(* in every reachable state, for every key: findNode / Load / findNodeAdd / ContainsB (SM.find_result) return the node
   C04's level-0 find_node returns, found at layer lfound (nh n) highestLevel -- the layer C04's del_node compares
   with the node's top layer; findNodeDelete / findNodeRemove (SM.del_result) return that lFound and leave succs[0]
   at the level-0 walk's position; the same for the search Store / AddB make after raising highestLevel *)
Theorem C17_skipmap_results_after_any_history : forall ops, mheights_pos ops -> forall k,
  let s := fst (run skipmap_step sm0 ops) in
  SM.find_result k s = option_map (fun n => (lfound (nh n) (hl s), n)) (find_node k (nodes s)) /\
  SM.del_result k s = (option_map (fun n => lfound (nh n) (hl s)) (find_node k (nodes s)), SM.skip_lt k (nodes s)) /\
  (forall h, SM.find_result k (randomlevel h s) =
             option_map (fun n => (lfound (nh n) (Nat.max (hl s) h), n)) (find_node k (nodes s))).
Proof. exact skipmap_results_reachable. Qed.

Theorem C17_skipset_results_after_any_history : forall ops, sheights_pos ops -> forall k,
  let s := fst (run skipset_step sm0 ops) in
  SM.find_result k s = option_map (fun n => (lfound (nh n) (hl s), n)) (find_node k (nodes s)) /\
  SM.del_result k s = (option_map (fun n => lfound (nh n) (hl s)) (find_node k (nodes s)), SM.skip_lt k (nodes s)) /\
  (forall h, SM.find_result k (randomlevel h s) =
             option_map (fun n => (lfound (nh n) (Nat.max (hl s) h), n)) (find_node k (nodes s))).
Proof. exact skipset_results_reachable. Qed.

Example C17_skipmap_results_nonvacuous :
  let s := fst (run skipmap_step sm0 [Store 10 1 1; Store 20 1 4; Store 30 1 1; Store 40 1 2; Store 50 1 1; Delete 30]) in
  option_map (fun r => (fst r, nk (snd r))) (SM.find_result 40 s) = Some (1, 40%Z) /\ SM.find_result 45 s = None /\
  fst (SM.del_result 20 s) = Some 3 /\ map nk (snd (SM.del_result 40 s)) = [40%Z; 50%Z].
Proof. vm_compute. repeat split. Qed.
End SkipMapSet.

(* ---- (3) the deterministic core of the expected-cost argument ---- *)
(* for ANY heights: calls <= sum over the levels of (1 + nodes passed on that lane); and when no node is taller than
   the number of levels searched, every node passed on lane i has height exactly i+1 *)
Theorem C17_skip_path_bound : forall N (height : N -> nat) (adv : N -> bool) (cadv : N -> nat),
  (forall y, cadv y <= 1) -> forall levels x l,
  full_cost N height adv cadv levels x l <= path_len N height adv cadv levels x l /\
  (Forall (fun y => height y <= levels) l -> path_exact N height adv cadv levels x l).
Proof.
  exact (fun N height adv cadv Hc levels x l =>
    conj (full_cost_path N height adv cadv Hc levels x l)
         (fun Hh => path_exact_Q N height adv cadv levels x l (Q_none N height adv levels l Hh))).
Qed.

(* the perfect assignment: n heights, the j-th is taller than i exactly when 2^i divides j (= 1 + trailing zeros) *)
Theorem C17_perfect_heights : forall n,
  length (perfect n) = n /\
  forall j, 1 <= j <= n -> forall i, i < nth (j - 1) (perfect n) 0 <-> Nat.divide (2 ^ i) j.
Proof. exact (fun n => conj (perfect_length n) (perfect_index n)). Qed.

(* any n nodes carrying the perfect heights, searched with log2(n)+1 levels, any loop condition: at most
   2*log2(n)+2 comparator calls per search (3*log2(n)+3 with skipmap's equal test) *)
Theorem C17_perfect_cost : forall N (height : N -> nat) (adv : N -> bool) (cadv : N -> nat),
  (forall y, cadv y <= 1) -> forall (xeq eq : N -> bool) (ceq : N -> nat), (forall y, ceq y <= 1) ->
  forall (l : list N) x found, map height l = perfect (length l) ->
  let levels := S (Nat.log2 (length l)) in
  full_cost N height adv cadv levels x l <= 2 * Nat.log2 (length l) + 2 /\
  rank_cost N height adv cadv xeq levels x l <= 2 * Nat.log2 (length l) + 2 /\
  find_cost N height adv cadv eq ceq levels x l <= 3 * Nat.log2 (length l) + 3 /\
  finddel_cost N height adv cadv eq ceq levels x l found <= 3 * Nat.log2 (length l) + 3.
Proof. exact perfect_cost. Qed.

Example C17_perfect_nonvacuous :
  perfect 10 = [1; 2; 1; 3; 1; 2; 1; 4; 1; 2] /\
  let l := combine (map Z.of_nat (seq 1 10)) (perfect 10) in
  map (fun k => full_cost (Z * nat) snd (fun y => (fst y <? k)%Z) (fun _ => 1) 4 None l) [1; 4; 8; 11]%Z = [4; 6; 7; 2] /\
  path_len (Z * nat) snd (fun y => (fst y <? 8)%Z) (fun _ => 1) 4 None l = 7.
Proof. vm_compute. repeat split. Qed.

Print Assumptions C17_zset_update_model.
Print Assumptions C17_zset_update_cost_after_any_history.
Print Assumptions C17_zset_op_cost_after_any_history.
Print Assumptions C17_skip_position_independent_of_counting.
Print Assumptions C17_skip_result_generic.
Print Assumptions C17_skipmap_results_after_any_history.
Print Assumptions C17_skipset_results_after_any_history.
Print Assumptions C17_skip_path_bound.
Print Assumptions C17_perfect_heights.
Print Assumptions C17_perfect_cost.
