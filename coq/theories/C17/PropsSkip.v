(* C17, skip-list half: statements only. *)
From VF Require Import Common.Base C17.SkipCost C17.SkipInst C17.ProofsSkip C17.ProofsSkipZ C17.ProofsSkipM.
From VF Require C03.Spec C03.Model C03.Lanes C03.Props C04.Spec C04.Model C04.Proofs.
Local Open Scope nat_scope.

(* The search loops of the three skip lists, transcribed with their comparator calls (SkipCost: lscan = one level,
   full_cost = zset Insert/Delete/UpdateScore, rank_cost = zset Rank, find_cost = skipmap findNode/Load and skipset
   findNodeAdd/ContainsB, finddel_cost = findNodeDelete/findNodeRemove), on ANY node sequence with ANY heights,
   loop condition [adv] and per-evaluation call counts [cadv], [ceq] of at most one:
   (a) worst case  cost <= levels + length  (2*levels with the equal test);
   (b) lane bound: if no node is taller than the number of levels searched, the walk on lane i passes only nodes of
       height exactly i+1, all inside one gap of lane i+1, hence
       cost <= sum_{i < levels} (1 + maxrun i)  =  runs_bound levels,
       maxrun i = the longest run of height-(i+1) nodes between consecutive taller nodes: a bound that depends on
       the structure only and holds for EVERY searched key. (For independent geometric(1/4) heights the run a given
       search meets on a lane has expected length 3 and levels ~ log4 n, the textbook expected O(log n) per search;
       the longest run is O(log n) with high probability, so runs_bound is O(log^2 n) w.h.p. These probabilistic
       steps are NOT formalised.) *)
Theorem C17_skip_search_cost : forall (N : Type) (height : N -> nat) (adv : N -> bool) (cadv : N -> nat)
    (xeq eq : N -> bool) (ceq : N -> nat),
  (forall y, cadv y <= 1) -> (forall y, ceq y <= 1) -> forall levels x l found,
  (full_cost N height adv cadv levels x l <= levels + length l /\
   rank_cost N height adv cadv xeq levels x l <= levels + length l /\
   find_cost N height adv cadv eq ceq levels x l <= 2 * levels + length l /\
   finddel_cost N height adv cadv eq ceq levels x l found <= 2 * levels + length l) /\
  (Forall (fun y => height y <= levels) l ->
   full_cost N height adv cadv levels x l <= runs_bound N height levels l /\
   rank_cost N height adv cadv xeq levels x l <= runs_bound N height levels l /\
   find_cost N height adv cadv eq ceq levels x l <= levels + runs_bound N height levels l /\
   finddel_cost N height adv cadv eq ceq levels x l found <= levels + runs_bound N height levels l).
Proof.
  exact (fun N height adv cadv xeq eq ceq Hc He levels x l found =>
    conj (conj (full_cost_len N height adv cadv Hc levels x l)
         (conj (rank_cost_len N height adv cadv Hc xeq levels x l)
         (conj (find_cost_len N height adv cadv Hc eq ceq He levels x l)
               (finddel_cost_len N height adv cadv Hc eq ceq He levels x l found))))
         (fun Hh => let HQ := Q_none N height adv levels l Hh in
            conj (full_cost_runs N height adv cadv Hc levels x l HQ)
            (conj (rank_cost_runs N height adv cadv Hc xeq levels x l HQ)
            (conj (find_cost_runs N height adv cadv Hc eq ceq He levels x l HQ)
                  (finddel_cost_runs N height adv cadv Hc eq ceq He levels x l found HQ))))).
Qed.

(* ---- zset (C03 model) ---- *)
Section ZSet.
Import C03.Spec C03.Model C03.Lanes.

(* after every operation list and every height oracle the express lanes are intact: every node of height > i is on
   the level-i chain from the header and highestLevel is exact (D7 broke exactly this) *)
Theorem C17_zset_lanes : forall ops, heights_pos ops -> Lanes (z_list (fst (run zset_step zset_empty ops))).
Proof. exact C03.Props.C03_lanes. Qed.

(* the cost function follows the very search the C03 model of Insert / Delete / UpdateScore performs *)
Theorem C17_zset_search_model : forall s m l,
  ZS.search_end s m l = w_suf (search (fun _ y => less_than y s m) l).
Proof. exact zs_search_end_model. Qed.

(* in every reachable state, for every (score, member): the comparator calls of the Insert/Delete search and of Rank
   obey the worst-case and the lane bound, and there are at most 32 levels *)
Theorem C17_zset_cost_after_any_history : forall ops, heights_pos ops -> forall s m,
  let l := z_list (fst (run zset_step zset_empty ops)) in
  ZS.search_cost s m l <= sl_highest l + length (sl_nodes l) /\
  ZS.search_cost s m l <= ZS.lane_bound l /\
  ZS.rank_cost s m l <= sl_highest l + length (sl_nodes l) /\
  ZS.rank_cost s m l <= ZS.lane_bound l /\
  sl_highest l <= 32.
Proof. exact zs_cost_reachable. Qed.

Example C17_zset_nonvacuous :
  let l := z_list (fst (run zset_step zset_empty
    [OAddB 0 10 [1]; OAddB 0 20 [3]; OAddB 0 30 [1]; OAddB 0 40 [2]; OAddB 0 50 [1]; OAddB 0 60 [1]; OAddB 0 25 [2]])) in
  map n_height (sl_nodes l) = [1; 3; 2; 1; 2; 1; 1] /\ sl_highest l = 3 /\
  ZS.search_cost 0 55 l = 5 /\ ZS.rank_cost 0 50 l = 5 /\ ZS.lane_bound l = 8 /\ map n_member (ZS.search_end 0 55 l) = [60%Z].
Proof. vm_compute. repeat split. Qed.
End ZSet.

(* ---- skipmap / skipset (C04 sequential model) ---- *)
Section SkipMapSet.
Import C04.Spec C04.Model C04.Proofs.

(* lanes: in every state reachable through the API every node's height lies between 1 and highestLevel (in the C04
   model a node of height h is on lanes 0..h-1 by construction; the check compares that with the dump's lane
   counts); and for every key the comparator calls of Load/ContainsB (find_cost), Delete/RemoveB (del_cost) and
   Store/AddB with any drawn level h (store_cost: the level is drawn, and raises highestLevel, BEFORE the search)
   obey the worst-case and the lane bound *)
Theorem C17_skipmap_cost_after_any_history : forall ops, mheights_pos ops ->
  let s := fst (run skipmap_step sm0 ops) in
  hts_ok (hl s) (nodes s) /\
  forall k,
    SM.find_cost k s <= 2 * hl s + length (nodes s) /\ SM.find_cost k s <= SM.lane_bound s /\
    SM.del_cost k s <= 2 * hl s + length (nodes s) /\ SM.del_cost k s <= SM.lane_bound s /\
    forall h, SM.store_cost k h s <= 2 * Nat.max (hl s) h + length (nodes s) /\
              SM.store_cost k h s <= SM.lane_bound (randomlevel h s).
Proof. exact skipmap_reachable. Qed.

Theorem C17_skipset_cost_after_any_history : forall ops, sheights_pos ops ->
  let s := fst (run skipset_step sm0 ops) in
  hts_ok (hl s) (nodes s) /\
  forall k,
    SM.find_cost k s <= 2 * hl s + length (nodes s) /\ SM.find_cost k s <= SM.lane_bound s /\
    SM.del_cost k s <= 2 * hl s + length (nodes s) /\ SM.del_cost k s <= SM.lane_bound s /\
    forall h, SM.store_cost k h s <= 2 * Nat.max (hl s) h + length (nodes s) /\
              SM.store_cost k h s <= SM.lane_bound (randomlevel h s).
Proof. exact skipset_reachable. Qed.

(* LoadOrStore / LoadOrStoreLazy of an absent key with drawn level h (SM.los_cost): one search with highestLevel as read
   at entry, and a second one with the raised highestLevel when h exceeds it *)
Theorem C17_skipmap_los_cost_after_any_history : forall ops, mheights_pos ops -> forall k h,
  let s := fst (run skipmap_step sm0 ops) in
  SM.los_cost k h s <= SM.lane_bound s + SM.lane_bound (randomlevel h s).
Proof. exact skipmap_los_reachable. Qed.

Example C17_skipmap_nonvacuous :
  let s := fst (run skipmap_step sm0 [Store 10 1 1; Store 20 1 4; Store 30 1 1; Store 40 1 2; Store 50 1 1; Delete 30]) in
  map nh (nodes s) = [1; 4; 2; 1] /\ hl s = 4 /\
  SM.find_cost 50 s = 4 /\ SM.del_cost 40 s = 4 /\ SM.store_cost 45 6 s = 4 /\ SM.los_cost 45 6 s = 8 /\ SM.lane_bound s = 11.
Proof. vm_compute. repeat split. Qed.
End SkipMapSet.

Print Assumptions C17_skip_search_cost.
Print Assumptions C17_zset_lanes.
Print Assumptions C17_zset_search_model.
Print Assumptions C17_zset_cost_after_any_history.
Print Assumptions C17_skipmap_cost_after_any_history.
Print Assumptions C17_skipset_cost_after_any_history.
Print Assumptions C17_skipmap_los_cost_after_any_history.
