(* C17, skip-list half: statements only. *)
From VF Require Import Common.Base C03.Spec C03.Model C03.ProofsSpec C03.ProofsWalk C03.ProofsSL C03.ProofsSL2
  C03.ProofsSL3 C03.ProofsZ C03.ProofsZ2 C03.ProofsZ3 C03.Proofs C03.ProofsAlg C03.ProofsExtra C03.Spans C03.Lanes C03.Props.
From Coq Require Import Sorting.Sorted.
Local Open Scope Z_scope.

(* skip lists (zset): after every operation list and every height oracle the express lanes are intact: every node
   of height > i is on the level-i chain from the header and highestLevel is exact — the structural precondition of
   logarithmic expected search cost (D7 broke exactly this). The expected O(log n) itself is the textbook
   argument over independent geometric heights and is NOT proved; the check judges batch averages. *)
Theorem C17_zset_lanes : forall ops, heights_pos ops -> Lanes (z_list (fst (run zset_step zset_empty ops))).
Proof. exact C03_lanes. Qed.


Print Assumptions C17_zset_lanes.
