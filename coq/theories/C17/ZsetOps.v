(* C17 cost model, zset: the comparator calls of every entry point of structure/sets/zset that searches the skip
   list, on the C03 model (dict + list), as compositions of the SkipInst.ZS search costs:
     list.UpdateScore(old, m, new)  = the search by (old, m)  [same loop as Insert/Delete]
                                      + nothing when the node can be re-scored in place (the neighbours still bracket
                                        the new score), else deleteNode and then Insert(new, m)'s search on the
                                        list deleteNode leaves ([update_mid]);
     AddB(s, m)     dict miss: Insert's search; dict hit with another score: UpdateScore; same score: nothing;
     IncrBy(d, m)   dict miss: Insert's search; dict hit: ALWAYS UpdateScore(old, m, old + d);
     RemoveB(m)     dict hit: Delete's search by (score, m); miss: nothing;
     Rank / RevRank dict hit: list.Rank(score, m); miss: nothing;
     Score / ContainsB / Len / Size / Empty: dict or counter only.
   The other operations of C03.Spec.op are batches or range walks (Add, Remove, Contains, Count, Range*, RemRange*,
   Values, Clear): not single point operations, [op_cost] = None.  No proofs in this file. *)
From VF Require Import Common.Base C17.SkipCost C17.SkipInst.
From VF Require Import C03.Spec C03.Model.
Local Open Scope Z_scope.

(* the test of UpdateScore's fast path, on the zipper where the search by (old, m) ended: x :: r = w_suf *)
Definition update_fast (new : Z) (pre r : list node) : bool :=
  (match pre with [] => true | p :: _ => n_score p <? new end)
  && (match r with [] => true | nx :: _ => new <? n_score nx end).

(* the list Insert searches when UpdateScore moves the node (after deleteNode); the list itself otherwise *)
Definition update_mid (old m new : Z) (l : slist) : slist :=
  let st := search (fun _ y => less_than y old m) l in
  match w_suf st with
  | [] => l
  | x :: r => if update_fast new (w_pre st) r then l else sl_delete_node (w_pre st) r l
  end.
Definition update_moves (old m new : Z) (l : slist) : bool :=
  let st := search (fun _ y => less_than y old m) l in
  match w_suf st with
  | [] => false
  | x :: r => negb (update_fast new (w_pre st) r)
  end.

Definition update_cost (old m new : Z) (l : slist) : nat :=
  let st := search (fun _ y => less_than y old m) l in
  (ZS.search_cost old m l +
   match w_suf st with
   | [] => O                                                     (* nil dereference in the code: the model's None *)
   | x :: r => if update_fast new (w_pre st) r then O
               else ZS.search_cost new (n_member x) (sl_delete_node (w_pre st) r l)
   end)%nat.
(* the lane bound for it: one search on l, and one on the intermediate list when the node moves *)
Definition update_bound (old m new : Z) (l : slist) : nat :=
  (ZS.lane_bound l + if update_moves old m new l then ZS.lane_bound (update_mid old m new l) else O)%nat.

Definition op_cost (o : op) (z : zset) : option nat :=
  let l := z_list z in
  match o with
  | OAddB s m _ =>
      Some (match dget m (z_dict z) with
            | Some old => if negb (s =? old) then update_cost old m s l else O
            | None => ZS.search_cost s m l
            end)
  | OIncrBy d m _ =>
      Some (match dget m (z_dict z) with
            | Some old => update_cost old m (old + d) l
            | None => ZS.search_cost d m l
            end)
  | ORemoveB m => Some (match dget m (z_dict z) with Some s => ZS.search_cost s m l | None => O end)
  | ORank m | ORevRank m => Some (match dget m (z_dict z) with Some s => ZS.rank_cost s m l | None => O end)
  | OScore _ | OContainsB _ | OLen | OSize | OEmpty => Some O
  | _ => None
  end.
Definition op_bound (o : op) (z : zset) : nat :=
  let l := z_list z in
  match o with
  | OAddB s m _ => match dget m (z_dict z) with Some old => update_bound old m s l | None => ZS.lane_bound l end
  | OIncrBy d m _ => match dget m (z_dict z) with Some old => update_bound old m (old + d) l | None => ZS.lane_bound l end
  | _ => ZS.lane_bound l
  end.
