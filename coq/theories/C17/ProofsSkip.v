(* C17, skip lists: bounds on the search cost functions of SkipCost.
   (1) worst case: every comparison either fails (at most one per level, two with the equal test) or moves the
       position forward on level 0, so  cost <= levels + length  (2*levels + length for skipmap/skipset);
   (2) lane bound: when no node is taller than the number of levels searched (the lane invariant), the walk on
       lane i passes only nodes of height EXACTLY i+1 that lie before the next node of lane i+1, so
       cost <= sum over lanes i of (1 + longest run of height-(i+1) nodes between two taller ones).
       No sortedness is needed: lane i+1 is a sub-chain of lane i, the walk on lane i stops at the node where
       lane i+1 stopped at the latest. *)
From VF Require Import C17.SkipCost.
Local Open Scope nat_scope.

Section Skip.
  Variable N : Type.
  Variable height : N -> nat.
  Variable adv : N -> bool.
  Variable cadv : N -> nat.
  Hypothesis cadv1 : forall y, cadv y <= 1.
  Notation lscan := (lscan N height adv cadv).

  (* ---- (1) ---- *)
  Lemma lscan_len i : forall l x suf c, length l <= length suf ->
    let '(_, suf', _, c') := lscan i l x suf c in c' + length suf' <= c + length suf + 1 /\ length suf' <= length suf.
  Proof.
    induction l as [|y r IH]; intros x suf c Hl; cbn [SkipCost.lscan]; [lia|].
    cbn [length] in Hl. destruct (i <? height y).
    - destruct (adv y).
      + specialize (IH (Some y) r (c + cadv y) (Nat.le_refl _)). pose proof (cadv1 y).
        destruct (lscan i r (Some y) r (c + cadv y)) as [[[x' suf'] nx] c']. lia.
      + pose proof (cadv1 y). lia.
    - specialize (IH x suf c ltac:(lia)). destruct (lscan i r x suf c) as [[[x' suf'] nx] c']. exact IH.
  Qed.

  Lemma full_cost_len : forall levels x suf, full_cost N height adv cadv levels x suf <= levels + length suf.
  Proof.
    induction levels as [|i IH]; intros x suf; cbn [full_cost]; [lia|].
    pose proof (lscan_len i suf x suf 0 (Nat.le_refl _)) as H.
    destruct (lscan i suf x suf 0) as [[[x' suf'] nx] c]. specialize (IH x' suf'). lia.
  Qed.

  Variable xeq : N -> bool.
  Lemma rank_cost_len : forall levels x suf, rank_cost N height adv cadv xeq levels x suf <= levels + length suf.
  Proof.
    induction levels as [|i IH]; intros x suf; cbn [rank_cost]; [lia|].
    pose proof (lscan_len i suf x suf 0 (Nat.le_refl _)) as H.
    destruct (lscan i suf x suf 0) as [[[x' suf'] nx] c]. specialize (IH x' suf').
    destruct (match x' with Some y => xeq y | None => false end); lia.
  Qed.

  Variable eq : N -> bool.
  Variable ceq : N -> nat.
  Hypothesis ceq1 : forall y, ceq y <= 1.
  Lemma find_cost_len : forall levels x suf,
    find_cost N height adv cadv eq ceq levels x suf <= 2 * levels + length suf.
  Proof.
    induction levels as [|i IH]; intros x suf; cbn [find_cost]; [lia|].
    pose proof (lscan_len i suf x suf 0 (Nat.le_refl _)) as H.
    destruct (lscan i suf x suf 0) as [[[x' suf'] nx] c]. specialize (IH x' suf').
    destruct nx as [y|]; [|lia]. pose proof (ceq1 y). destruct (eq y); lia.
  Qed.
  Lemma finddel_cost_len : forall levels x suf found,
    finddel_cost N height adv cadv eq ceq levels x suf found <= 2 * levels + length suf.
  Proof.
    induction levels as [|i IH]; intros x suf found; cbn [finddel_cost]; [lia|].
    pose proof (lscan_len i suf x suf 0 (Nat.le_refl _)) as H.
    destruct (lscan i suf x suf 0) as [[[x' suf'] nx] c].
    destruct nx as [y|]; [|specialize (IH x' suf' found); lia]. pose proof (ceq1 y).
    destruct found; [specialize (IH x' suf' true)|specialize (IH x' suf' (eq y))]; lia.
  Qed.

  (* ---- (2) ---- *)
  Notation maxrun_aux := (maxrun_aux N height).
  Notation maxrun := (maxrun N height).
  Notation runs_bound := (runs_bound N height).

  (* the first node of height > j, if any, stops the walk *)
  Fixpoint Q (j : nat) (l : list N) : Prop :=
    match l with
    | [] => True
    | y :: r => if j <? height y then adv y = false else Q j r
    end.

  Lemma Q_low j p l : Forall (fun y => height y <= j) p -> Q j (p ++ l) <-> Q j l.
  Proof.
    induction p as [|y p IH]; intros H; [reflexivity|]. inversion H; subst. cbn [app Q].
    destruct (Nat.ltb_spec j (height y)); [lia|]. now apply IH.
  Qed.

  Lemma Q_none j l : Forall (fun y => height y <= j) l -> Q j l.
  Proof. intros H. rewrite <- (app_nil_r l). apply Q_low; [exact H|exact I]. Qed.

  Lemma maxrun_aux_ge i : forall l cur best, Nat.max cur best <= maxrun_aux i l cur best.
  Proof.
    induction l as [|y r IH]; intros cur best; cbn [SkipCost.maxrun_aux]; [lia|].
    destruct (S i <? height y); [specialize (IH 0 (Nat.max cur best)); lia|].
    destruct (i <? height y); [specialize (IH (S cur) best)|specialize (IH cur best)]; lia.
  Qed.

  Lemma maxrun_aux_mono i : forall l cur best cur' best', cur <= cur' -> best <= best' ->
    maxrun_aux i l cur best <= maxrun_aux i l cur' best'.
  Proof.
    induction l as [|y r IH]; intros cur best cur' best' H1 H2; cbn [SkipCost.maxrun_aux]; [lia|].
    destruct (S i <? height y); [apply IH; lia|]. destruct (i <? height y); apply IH; lia.
  Qed.

  Lemma maxrun_suffix i p : forall l, maxrun i l <= maxrun i (p ++ l).
  Proof.
    induction p as [|y p IH]; intros l; [apply Nat.le_refl|]. eapply Nat.le_trans; [apply (IH l)|].
    unfold SkipCost.maxrun. cbn [app SkipCost.maxrun_aux].
    destruct (S i <? height y); [apply maxrun_aux_mono; lia|]. destruct (i <? height y); apply maxrun_aux_mono; lia.
  Qed.

  Lemma runs_bound_suffix p l : forall levels, runs_bound levels l <= runs_bound levels (p ++ l).
  Proof.
    induction levels as [|i IH]; cbn [SkipCost.runs_bound]; [lia|]. pose proof (maxrun_suffix i p l). lia.
  Qed.

  (* where one level ends: behind a suffix, and the level-i successor there (if any) stops the walk *)
  Lemma lscan_post i : forall l x suf c p, suf = p ++ l -> Forall (fun y => height y <= i) p ->
    let '(_, suf', _, _) := lscan i l x suf c in Q i suf' /\ exists q, suf = q ++ suf'.
  Proof.
    induction l as [|y r IH]; intros x suf c p E Hp; cbn [SkipCost.lscan].
    - split; [|exists []; reflexivity]. subst suf. rewrite app_nil_r. now apply Q_none.
    - destruct (Nat.ltb_spec i (height y)) as [Ht|Ht].
      + destruct (adv y) eqn:Ea.
        * specialize (IH (Some y) r (c + cadv y) [] eq_refl (Forall_nil _)).
          destruct (lscan i r (Some y) r (c + cadv y)) as [[[x' suf'] nx] c']. destruct IH as [HQ [q Hq]].
          split; [exact HQ|]. exists (p ++ y :: q). subst suf. rewrite Hq at 1. now rewrite <- app_assoc.
        * split; [|exists []; reflexivity]. subst suf. apply Q_low; [exact Hp|]. cbn [Q].
          destruct (Nat.ltb_spec i (height y)); [exact Ea|lia].
      + specialize (IH x suf c (p ++ [y])). destruct (lscan i r x suf c) as [[[x' suf'] nx] c'].
        apply IH; [subst suf; now rewrite <- app_assoc|]. apply Forall_app. split; [exact Hp|]. constructor; [exact Ht|constructor].
  Qed.

  (* the calls of one level: the walk passes only nodes of height exactly i+1, one run of them *)
  Lemma lscan_run i : forall l x suf c cur best, Q (S i) l ->
    let '(_, _, _, c') := lscan i l x suf c in c' + cur <= c + 1 + maxrun_aux i l cur best.
  Proof.
    induction l as [|y r IH]; intros x suf c cur best HQ; [cbn; lia|].
    pose proof (maxrun_aux_ge i (y :: r) cur best) as Hg.
    cbn [SkipCost.lscan SkipCost.maxrun_aux] in *. cbn [Q] in HQ.
    destruct (S i <? height y) eqn:Ev; destruct (i <? height y) eqn:Et.
    - rewrite HQ. pose proof (cadv1 y). lia.
    - apply Nat.ltb_lt in Ev. apply Nat.ltb_ge in Et. lia.
    - destruct (adv y) eqn:Ea.
      + specialize (IH (Some y) r (c + cadv y) (S cur) best HQ). pose proof (cadv1 y).
        destruct (lscan i r (Some y) r (c + cadv y)) as [[[x' suf'] nx] c']. lia.
      + pose proof (cadv1 y). lia.
    - specialize (IH x suf c cur best HQ). destruct (lscan i r x suf c) as [[[x' suf'] nx] c']. exact IH.
  Qed.

  Lemma level_step i x suf : Q (S i) suf ->
    let '(_, suf', _, c) := lscan i suf x suf 0 in
    c <= S (maxrun i suf) /\ Q i suf' /\ exists q, suf = q ++ suf'.
  Proof.
    intros HQ. pose proof (lscan_run i suf x suf 0 0 0 HQ) as H1.
    pose proof (lscan_post i suf x suf 0 [] eq_refl (Forall_nil _)) as H2.
    destruct (lscan i suf x suf 0) as [[[x' suf'] nx] c]. unfold SkipCost.maxrun. split; [lia|exact H2].
  Qed.

  Lemma full_cost_runs : forall levels x suf, Q levels suf ->
    full_cost N height adv cadv levels x suf <= runs_bound levels suf.
  Proof.
    induction levels as [|i IH]; intros x suf HQ; cbn [full_cost SkipCost.runs_bound]; [lia|].
    pose proof (level_step i x suf HQ) as H. destruct (lscan i suf x suf 0) as [[[x' suf'] nx] c].
    destruct H as (Hc & HQ' & q & Hq). specialize (IH x' suf' HQ').
    pose proof (runs_bound_suffix q suf' i) as Hs. rewrite <- Hq in Hs. lia.
  Qed.

  Lemma rank_cost_runs : forall levels x suf, Q levels suf ->
    rank_cost N height adv cadv xeq levels x suf <= runs_bound levels suf.
  Proof.
    induction levels as [|i IH]; intros x suf HQ; cbn [rank_cost SkipCost.runs_bound]; [lia|].
    pose proof (level_step i x suf HQ) as H. destruct (lscan i suf x suf 0) as [[[x' suf'] nx] c].
    destruct H as (Hc & HQ' & q & Hq). specialize (IH x' suf' HQ').
    pose proof (runs_bound_suffix q suf' i) as Hs. rewrite <- Hq in Hs.
    destruct (match x' with Some y => xeq y | None => false end); lia.
  Qed.

  Lemma find_cost_runs : forall levels x suf, Q levels suf ->
    find_cost N height adv cadv eq ceq levels x suf <= levels + runs_bound levels suf.
  Proof.
    induction levels as [|i IH]; intros x suf HQ; cbn [find_cost SkipCost.runs_bound]; [lia|].
    pose proof (level_step i x suf HQ) as H. destruct (lscan i suf x suf 0) as [[[x' suf'] nx] c].
    destruct H as (Hc & HQ' & q & Hq). specialize (IH x' suf' HQ').
    pose proof (runs_bound_suffix q suf' i) as Hs. rewrite <- Hq in Hs.
    destruct nx as [y|]; [|lia]. pose proof (ceq1 y). destruct (eq y); lia.
  Qed.

  Lemma finddel_cost_runs : forall levels x suf found, Q levels suf ->
    finddel_cost N height adv cadv eq ceq levels x suf found <= levels + runs_bound levels suf.
  Proof.
    induction levels as [|i IH]; intros x suf found HQ; cbn [finddel_cost SkipCost.runs_bound]; [lia|].
    pose proof (level_step i x suf HQ) as H. destruct (lscan i suf x suf 0) as [[[x' suf'] nx] c].
    destruct H as (Hc & HQ' & q & Hq).
    pose proof (runs_bound_suffix q suf' i) as Hs. rewrite <- Hq in Hs.
    destruct nx as [y|]; [|specialize (IH x' suf' found HQ'); lia]. pose proof (ceq1 y).
    destruct found; [specialize (IH x' suf' true HQ')|specialize (IH x' suf' (eq y) HQ')]; lia.
  Qed.
End Skip.
