(* C17, zset: the cost function walks the path of the C03 model's search, and its bounds hold in every state
   reachable through the API (lane invariant C03_lanes). *)
From VF Require Import Common.Base C17.SkipCost C17.SkipInst C17.ProofsSkip.
From VF Require Import C03.Spec C03.Model C03.Lanes C03.Props.
Local Open Scope nat_scope.

Section Tie.
  Variable adv : node -> bool.
  Variable cadv : node -> nat.

  Lemma lscan_lwalk i : forall l pend d st x suf c, w_suf st = suf ->
    w_suf (lwalk (fun _ y => adv y) i l pend d st) = snd (fst (fst (lscan node n_height adv cadv i l x suf c))).
  Proof.
    induction l as [|y r IH]; intros pend d st x suf c E; cbn [lwalk lscan]; [exact E|].
    destruct (i <? n_height y).
    - destruct (adv y); [|exact E]. apply IH. reflexivity.
    - apply IH. exact E.
  Qed.

  Lemma full_end_walk : forall levels st x,
    w_suf (fst (walk (fun _ y => adv y) no_exit levels st)) = full_end node n_height adv cadv levels x (w_suf st).
  Proof.
    induction levels as [|i IH]; intros st x; cbn [walk full_end]; [reflexivity|]. unfold no_exit at 1.
    pose proof (lscan_lwalk i (w_suf st) [] 0%Z st x (w_suf st) 0 eq_refl) as H.
    destruct (lscan node n_height adv cadv i (w_suf st) x (w_suf st) 0) as [[[x' suf'] nx] c]. cbn [fst snd] in H.
    rewrite (IH _ x'), H. reflexivity.
  Qed.
End Tie.

(* the cost function follows the very search the C03 model of Insert / Delete / UpdateScore performs *)
Lemma zs_search_end_model s m l :
  ZS.search_end s m l = w_suf (search (fun _ y => less_than y s m) l).
Proof. unfold ZS.search_end, search. rewrite (full_end_walk _ (ZS.cadv s) _ _ None). reflexivity. Qed.

Lemma zs_cadv1 s y : ZS.cadv s y <= 1.
Proof. unfold ZS.cadv. destruct (n_score y =? s)%Z; lia. Qed.

Lemma lanes_Q adv l : Lanes l -> Q node n_height adv (sl_highest l) (sl_nodes l).
Proof.
  intros L. apply Q_none. apply Forall_forall. intros y Hy. exact (ln_le _ L y Hy).
Qed.

Lemma zs_cost_lanes s m l : Lanes l ->
  ZS.search_cost s m l <= sl_highest l + length (sl_nodes l) /\
  ZS.search_cost s m l <= ZS.lane_bound l /\
  ZS.rank_cost s m l <= sl_highest l + length (sl_nodes l) /\
  ZS.rank_cost s m l <= ZS.lane_bound l /\
  sl_highest l <= 32.
Proof.
  intros L. unfold ZS.search_cost, ZS.rank_cost, ZS.lane_bound. repeat split.
  - apply full_cost_len. apply zs_cadv1.
  - apply full_cost_runs; [apply zs_cadv1|now apply lanes_Q].
  - apply rank_cost_len. apply zs_cadv1.
  - apply rank_cost_runs; [apply zs_cadv1|now apply lanes_Q].
  - pose proof (ln_pos _ L) as P. unfold maxLevel in P. lia.
Qed.

Lemma zs_cost_reachable ops : heights_pos ops -> forall s m,
  let l := z_list (fst (run zset_step zset_empty ops)) in
  ZS.search_cost s m l <= sl_highest l + length (sl_nodes l) /\
  ZS.search_cost s m l <= ZS.lane_bound l /\
  ZS.rank_cost s m l <= sl_highest l + length (sl_nodes l) /\
  ZS.rank_cost s m l <= ZS.lane_bound l /\
  sl_highest l <= 32.
Proof. intros H s m l. apply zs_cost_lanes. now apply C03_lanes. Qed.
