(* C17, skip lists: the deterministic core of the O(log n) argument on the "perfect" height assignment
   (height of the j-th node = 1 + number of trailing zero bits of j: the ruler sequence 1 2 1 3 1 2 1 4 ...):
   every lane i holds exactly one node of height i+1 between two taller nodes, so by the lane bound of ProofsSkip
   a search costs at most 2 comparisons per level, 2*log2(n)+2 in all (3*log2(n)+3 with the equal test of
   skipmap/skipset).  What a real skip list adds is only that its heights are random: see PropsSkip2. *)
From VF Require Import C17.SkipCost C17.ProofsSkip.
Local Open Scope nat_scope.

(* ruler d = the heights of 2^d - 1 consecutive nodes; perfect n = its first n entries, d = log2 n + 1 levels *)
Fixpoint ruler (d : nat) : list nat :=
  match d with O => [] | S d' => ruler d' ++ S d' :: ruler d' end.
Definition perfect (n : nat) : list nat := firstn n (ruler (S (Nat.log2 n))).
Definition hid (h : nat) : nat := h.

Lemma ruler_length d : S (length (ruler d)) = 2 ^ d.
Proof. induction d as [|d IH]; [reflexivity|]. cbn [ruler]. rewrite app_length. cbn [length]. rewrite Nat.pow_succ_r'. lia. Qed.

Lemma perfect_length n : length (perfect n) = n.
Proof.
  unfold perfect. apply firstn_length_le. destruct n as [|n]; [lia|].
  pose proof (ruler_length (S (Nat.log2 (S n)))) as H. pose proof (Nat.log2_spec (S n) ltac:(lia)) as [_ H2]. lia.
Qed.

Lemma ruler_le d : Forall (fun h => 1 <= h <= d) (ruler d).
Proof.
  induction d as [|d IH]; [constructor|]. cbn [ruler].
  assert (IH' : Forall (fun h => 1 <= h <= S d) (ruler d)) by (eapply Forall_impl; [|exact IH]; cbn; lia).
  apply Forall_app. split; [exact IH'|]. constructor; [lia|exact IH'].
Qed.

Lemma perfect_le n : Forall (fun h => 1 <= h <= S (Nat.log2 n)) (perfect n).
Proof.
  unfold perfect. pose proof (ruler_le (S (Nat.log2 n))) as H. rewrite Forall_forall in *.
  intros h Hh. apply H. rewrite <- (firstn_skipn n). apply in_or_app. now left.
Qed.

(* ---- the run state of maxrun_aux, to reason over concatenations ---- *)
Section RS.
  Variable N : Type.
  Variable height : N -> nat.
  Fixpoint rs (i : nat) (l : list N) (cur best : nat) : nat * nat :=
    match l with
    | [] => (cur, best)
    | y :: r => if S i <? height y then rs i r 0 (Nat.max cur best)
                else if i <? height y then rs i r (S cur) best else rs i r cur best
    end.
  Lemma maxrun_aux_rs i : forall l cur best,
    maxrun_aux N height i l cur best = Nat.max (fst (rs i l cur best)) (snd (rs i l cur best)).
  Proof.
    induction l as [|y r IH]; intros cur best; cbn [maxrun_aux rs]; [reflexivity|].
    destruct (S i <? height y); [apply IH|]. destruct (i <? height y); apply IH.
  Qed.
  Lemma rs_app i : forall a b cur best,
    rs i (a ++ b) cur best = rs i b (fst (rs i a cur best)) (snd (rs i a cur best)).
  Proof.
    induction a as [|y r IH]; intros b cur best; cbn [app rs]; [reflexivity|].
    destruct (S i <? height y); [apply IH|]. destruct (i <? height y); apply IH.
  Qed.
  (* a prefix has no longer runs *)
  Lemma maxrun_prefix i : forall p l cur best,
    maxrun_aux N height i p cur best <= maxrun_aux N height i (p ++ l) cur best.
  Proof.
    induction p as [|y p IH]; intros l cur best; cbn [app maxrun_aux].
    - apply (maxrun_aux_ge N height i l cur best).
    - destruct (S i <? height y); [apply IH|]. destruct (i <? height y); apply IH.
  Qed.
  Lemma maxrun_map i : forall l cur best,
    maxrun_aux nat hid i (map height l) cur best = maxrun_aux N height i l cur best.
  Proof.
    induction l as [|y r IH]; intros cur best; cbn [map maxrun_aux]; [reflexivity|]. unfold hid.
    destruct (S i <? height y); [apply IH|]. destruct (i <? height y); apply IH.
  Qed.
  Lemma runs_bound_map l : forall levels, runs_bound nat hid levels (map height l) = runs_bound N height levels l.
  Proof.
    induction levels as [|i IH]; [reflexivity|]. cbn [runs_bound]. unfold maxrun. now rewrite maxrun_map, IH.
  Qed.
End RS.

Lemma rs_ruler_low i : forall d cur best, d <= i -> rs nat hid i (ruler d) cur best = (cur, best).
Proof.
  induction d as [|d IH]; intros cur best Hd; [reflexivity|]. cbn [ruler]. rewrite rs_app, IH by lia. cbn [fst snd rs].
  change (hid (S d)) with (S d). destruct (Nat.ltb_spec (S i) (S d)); [lia|]. destruct (Nat.ltb_spec i (S d)); [lia|]. apply IH. lia.
Qed.

Lemma rs_ruler_eq i cur best : rs nat hid i (ruler (S i)) cur best = (S cur, best).
Proof.
  cbn [ruler]. rewrite rs_app, rs_ruler_low by lia. cbn [fst snd rs]. change (hid (S i)) with (S i).
  destruct (Nat.ltb_spec (S i) (S i)); [lia|]. destruct (Nat.ltb_spec i (S i)); [|lia]. apply rs_ruler_low. lia.
Qed.

Lemma rs_ruler_hi i : forall e cur best,
  rs nat hid i (ruler (S (S i) + e)) cur best = (1, Nat.max (S cur) best).
Proof.
  induction e as [|e IH]; intros cur best.
  - rewrite Nat.add_0_r. cbn [ruler]. rewrite rs_app. change (ruler i ++ S i :: ruler i) with (ruler (S i)).
    rewrite rs_ruler_eq. cbn [fst snd rs]. change (hid (S (S i))) with (S (S i)). destruct (Nat.ltb_spec (S i) (S (S i))); [|lia].
    rewrite rs_ruler_eq. reflexivity.
  - replace (S (S i) + S e) with (S (S (S i) + e)) by lia. cbn [ruler]. rewrite rs_app, IH. cbn [fst snd rs].
    change (hid (S (S (S i) + e))) with (S (S (S i) + e)). destruct (Nat.ltb_spec (S i) (S (S (S i) + e))); [|lia]. rewrite IH. f_equal. lia.
Qed.

Lemma maxrun_ruler i d : maxrun nat hid i (ruler d) <= 1.
Proof.
  unfold maxrun. rewrite maxrun_aux_rs.
  destruct (Nat.le_gt_cases d i) as [H|H]; [rewrite rs_ruler_low by exact H; cbn; lia|].
  destruct (Nat.eq_dec d (S i)) as [->|Hn]; [rewrite rs_ruler_eq; cbn; lia|].
  replace d with (S (S i) + (d - S (S i))) by lia. rewrite rs_ruler_hi. cbn. lia.
Qed.

Lemma maxrun_perfect i n : maxrun nat hid i (perfect n) <= 1.
Proof.
  unfold perfect. eapply Nat.le_trans; [|apply (maxrun_ruler i (S (Nat.log2 n)))]. unfold maxrun.
  rewrite <- (firstn_skipn n (ruler (S (Nat.log2 n)))) at 2. apply maxrun_prefix.
Qed.

Lemma runs_bound_perfect n : forall levels, runs_bound nat hid levels (perfect n) <= 2 * levels.
Proof.
  induction levels as [|i IH]; [cbn; lia|]. cbn [runs_bound]. pose proof (maxrun_perfect i n). lia.
Qed.

(* ---- any node sequence whose heights are the perfect assignment ---- *)
Section PerfectCost.
  Variable N : Type.
  Variable height : N -> nat.
  Variable adv : N -> bool.
  Variable cadv : N -> nat.
  Hypothesis cadv1 : forall y, cadv y <= 1.
  Variable xeq eq : N -> bool.
  Variable ceq : N -> nat.
  Hypothesis ceq1 : forall y, ceq y <= 1.

  Lemma perfect_cost (l : list N) x found : map height l = perfect (length l) ->
    let levels := S (Nat.log2 (length l)) in
    full_cost N height adv cadv levels x l <= 2 * Nat.log2 (length l) + 2 /\
    rank_cost N height adv cadv xeq levels x l <= 2 * Nat.log2 (length l) + 2 /\
    find_cost N height adv cadv eq ceq levels x l <= 3 * Nat.log2 (length l) + 3 /\
    finddel_cost N height adv cadv eq ceq levels x l found <= 3 * Nat.log2 (length l) + 3.
  Proof.
    intros Hp levels.
    assert (HQ : Q N height adv levels l).
    { apply Q_none. pose proof (perfect_le (length l)) as H. rewrite <- Hp in H. rewrite Forall_map in H.
      eapply Forall_impl; [|exact H]. cbn beta. intros y Hy. unfold levels. lia. }
    assert (HB : runs_bound N height levels l <= 2 * levels).
    { rewrite <- runs_bound_map, Hp. apply runs_bound_perfect. }
    pose proof (full_cost_runs N height adv cadv cadv1 levels x l HQ).
    pose proof (rank_cost_runs N height adv cadv cadv1 xeq levels x l HQ).
    pose proof (find_cost_runs N height adv cadv cadv1 eq ceq ceq1 levels x l HQ).
    pose proof (finddel_cost_runs N height adv cadv cadv1 eq ceq ceq1 levels x l found HQ).
    unfold levels in *. lia.
  Qed.
End PerfectCost.
