(* C17, skip lists: the searches priced by SkipCost return what a plain level-0 walk returns, on every node sequence
   l = a ++ b on which the loop condition holds on a and fails on b (a sorted list cut at the searched key), for
   ANY heights: the position after every level is  a' ++ b  with a' a piece of a whose nodes are not taller than
   the level just finished, and the level-i successor there is the first node of b that is taller than i. *)
From VF Require Import C17.SkipCost C17.SkipRes.
Local Open Scope nat_scope.

Section Res.
  Variable N : Type.
  Variable height : N -> nat.
  Variable adv : N -> bool.
  Variable eq : N -> bool.
  Notation first_tall := (first_tall N height).

  (* the position a level ends at, and its successor, do not depend on how calls are counted *)
  Lemma lscan_cadv_irrel (c1 c2 : N -> nat) i : forall l x suf n1 n2,
    fst (lscan N height adv c1 i l x suf n1) = fst (lscan N height adv c2 i l x suf n2).
  Proof.
    induction l as [|y r IH]; intros x suf n1 n2; cbn [lscan]; [reflexivity|].
    destruct (i <? height y); [destruct (adv y); [apply IH|reflexivity]|apply IH].
  Qed.

  Variable cadv : N -> nat.
  Notation lscan := (lscan N height adv cadv).
  Notation T := (fun y => adv y = true).
  Notation F := (fun y => adv y = false).
  Notation low i := (fun y => height y <= i).

  Lemma first_tall_low i p l : Forall (low i) p -> first_tall i (p ++ l) = first_tall i l.
  Proof.
    induction p as [|y p IH]; intros H; [reflexivity|]. inversion H; subst. cbn [app SkipRes.first_tall].
    destruct (Nat.ltb_spec i (height y)); [lia|]. now apply IH.
  Qed.

  (* scanning inside b: nothing moves *)
  Lemma lscan_B i b : Forall F b -> forall b0 b1 x suf c, b = b0 ++ b1 -> Forall (low i) b0 ->
    exists c', lscan i b1 x suf c = (x, suf, first_tall i b, c').
  Proof.
    intros HF b0 b1. revert b0. induction b1 as [|y r IH]; intros b0 x suf c E Hl; cbn [SkipCost.lscan].
    - exists c. subst b. rewrite app_nil_r. rewrite <- (app_nil_r b0) at 1. rewrite first_tall_low by exact Hl. reflexivity.
    - assert (Fy : adv y = false).
      { subst b. rewrite Forall_forall in HF. apply HF. apply in_or_app. right. now left. }
      destruct (Nat.ltb_spec i (height y)) as [Ht|Ht].
      + rewrite Fy. exists (c + cadv y). subst b. rewrite first_tall_low by exact Hl. cbn [SkipRes.first_tall].
        destruct (Nat.ltb_spec i (height y)); [reflexivity|lia].
      + apply (IH (b0 ++ [y])); [subst b; now rewrite <- app_assoc|].
        apply Forall_app. split; [exact Hl|]. constructor; [exact Ht|constructor].
  Qed.

  (* scanning from inside a: the walk ends at a piece of a made of low nodes, in front of b *)
  Lemma lscan_A i b : Forall F b -> forall a2 a1 x c, Forall T a2 -> Forall (low i) a1 ->
    exists x' a' c', lscan i (a2 ++ b) x (a1 ++ a2 ++ b) c = (x', a' ++ b, first_tall i b, c')
                     /\ Forall (low i) a' /\ exists q, a1 ++ a2 = q ++ a'.
  Proof.
    intros HF. induction a2 as [|y r IH]; intros a1 x c HT Hl.
    - cbn [app]. destruct (lscan_B i b HF [] b x (a1 ++ b) c eq_refl (Forall_nil _)) as [c' E].
      exists x, a1, c'. split; [exact E|]. split; [exact Hl|]. exists []. now rewrite app_nil_r.
    - inversion HT as [|? ? Ty HT']; subst. cbn [app SkipCost.lscan].
      destruct (Nat.ltb_spec i (height y)) as [Ht|Ht].
      + rewrite Ty. destruct (IH [] (Some y) (c + cadv y) HT' (Forall_nil _)) as (x' & a' & c' & E & L & q & Hq).
        exists x', a', c'. cbn [app] in E. split; [exact E|]. split; [exact L|].
        exists (a1 ++ y :: q). cbn [app] in Hq. rewrite Hq, <- app_assoc. reflexivity.
      + destruct (IH (a1 ++ [y]) x c HT') as (x' & a' & c' & E & L & q & Hq).
        { apply Forall_app. split; [exact Hl|]. constructor; [exact Ht|constructor]. }
        exists x', a', c'. rewrite <- !app_assoc in E. cbn [app] in E. split; [exact E|]. split; [exact L|].
        exists q. rewrite <- Hq, <- app_assoc. reflexivity.
  Qed.

  Lemma level_AB i a b x : Forall T a -> Forall F b ->
    exists x' a' c', lscan i (a ++ b) x (a ++ b) 0 = (x', a' ++ b, first_tall i b, c')
                     /\ Forall T a' /\ Forall (low i) a'.
  Proof.
    intros HT HF. destruct (lscan_A i b HF a [] x 0 HT (Forall_nil _)) as (x' & a' & c' & E & L & q & Hq).
    exists x', a', c'. split; [exact E|]. split; [|exact L].
    cbn [app] in Hq. rewrite Hq in HT. apply Forall_app in HT. apply HT.
  Qed.
End Res.

Section Res2.
  Variable N : Type.
  Variable height : N -> nat.
  Variable adv : N -> bool.
  Variable eq : N -> bool.
  Notation T := (fun y => adv y = true).
  Notation F := (fun y => adv y = false).

  (* findNode / Load: the answer depends on b only *)
  Lemma find_res_b : forall levels x a b, Forall T a -> Forall F b ->
    find_res N height adv eq levels x (a ++ b) = res_b N height eq levels b.
  Proof.
    induction levels as [|i IH]; intros x a b HT HF; cbn [find_res res_b]; [reflexivity|].
    destruct (level_AB N height adv (fun _ => 0) i a b x HT HF) as (x' & a' & c' & E & HT' & _). rewrite E.
    rewrite (IH x' a' b HT' HF). reflexivity.
  Qed.

  (* b begins with the node looked for (and holds no other): found at the highest level searched that the node has *)
  Lemma res_b_hit n b' : eq n = true -> Forall (fun y => eq y = false) b' -> 1 <= height n ->
    forall levels, 1 <= levels -> res_b N height eq levels (n :: b') = Some (Nat.min levels (height n) - 1, n).
  Proof.
    intros En Hb Hn. induction levels as [|i IH]; intros Hl; [lia|]. cbn [res_b SkipRes.first_tall].
    destruct (Nat.ltb_spec i (height n)) as [Ht|Ht].
    - rewrite En. f_equal. f_equal. lia.
    - assert (Hi : 1 <= i) by lia.
      replace (Nat.min (S i) (height n) - 1) with (Nat.min i (height n) - 1) by lia.
      destruct (SkipRes.first_tall N height i b') as [y|] eqn:Ef; [|now apply IH].
      assert (Ey : eq y = false).
      { rewrite Forall_forall in Hb. apply Hb. clear -Ef. induction b' as [|z r IHr]; [discriminate|].
        cbn [SkipRes.first_tall] in Ef. destruct (i <? height z); [inversion Ef; now left|right; auto]. }
      rewrite Ey. now apply IH.
  Qed.

  Lemma res_b_miss b : Forall (fun y => eq y = false) b -> forall levels, res_b N height eq levels b = None.
  Proof.
    intros Hb. induction levels as [|i IH]; [reflexivity|]. cbn [res_b].
    destruct (SkipRes.first_tall N height i b) as [y|] eqn:Ef; [|exact IH].
    assert (Ey : eq y = false).
    { rewrite Forall_forall in Hb. apply Hb. clear -Ef. induction b as [|z r IHr]; [discriminate|].
      cbn [SkipRes.first_tall] in Ef. destruct (i <? height z); [inversion Ef; now left|right; auto]. }
    rewrite Ey. exact IH.
  Qed.

  (* findNodeDelete / findNodeRemove: lFound is the level find_res reports, and with every height >= 1 the walk
     ends exactly in front of b *)
  Lemma finddel_res_b : forall levels x a b lf, Forall T a -> Forall F b ->
    (forall y, In y a -> 1 <= height y) -> 1 <= levels ->
    exists x', finddel_res N height adv eq levels x (a ++ b) lf =
      (match lf with Some _ => lf | None => option_map fst (res_b N height eq levels b) end, x', b).
  Proof.
    induction levels as [|i IH]; intros x a b lf HT HF Hh Hl; [lia|]. cbn [finddel_res res_b].
    destruct (level_AB N height adv (fun _ => 0) i a b x HT HF) as (x' & a' & c' & E & HT' & HL'). rewrite E.
    assert (Sub : forall y, In y a' -> 1 <= height y).
    { intros y Hy. (* a' is a piece of a *)
      destruct (lscan_A N height adv (fun _ => 0) i b HF a [] x 0 HT (Forall_nil _)) as (x2 & a2 & c2 & E2 & _ & q & Hq).
      cbn [app] in E2, Hq. rewrite E in E2. inversion E2 as [[Hx Ha]]. apply app_inv_tail in Ha. subst a2.
      apply Hh. rewrite Hq. apply in_or_app. now right. }
    destruct i as [|i'].
    - (* level 0 was the last: a' holds only nodes of height 0, i.e. none *)
      assert (a' = []).
      { destruct a' as [|y r]; [reflexivity|]. inversion HL'; subst. specialize (Sub y (or_introl eq_refl)). lia. }
      subst a'. cbn [app finddel_res res_b]. exists x'.
      destruct lf as [v|]; [reflexivity|]. destruct (SkipRes.first_tall N height 0 b) as [y|]; [destruct (eq y)|]; reflexivity.
    - destruct (IH x' a' b (match lf, SkipRes.first_tall N height (S i') b with
                            | None, Some y => if eq y then Some (S i') else None
                            | _, _ => lf end) HT' HF Sub ltac:(lia)) as [x'' E''].
      exists x''. rewrite E''. f_equal. f_equal.
      destruct lf as [v|]; [reflexivity|].
      destruct (SkipRes.first_tall N height (S i') b) as [y|]; [destruct (eq y)|]; reflexivity.
  Qed.
End Res2.
