(* C17 cost model: the number of comparator calls the point operations make, as functions of the tree the
   operation starts from. The trees are the C01 models (the same types the C02 shape correspondence compares
   with the implementation's dumps). No proofs in this file. *)
From VF Require Export Common.Base C01.BinTree C01.BTree.
Local Open Scope Z_scope.

Section BinCost.
  Variables K V A : Type.
  Variable cmp : K -> K -> Z.
  Notation tree := (BinTree.tree K V A).

  (* red-black lookup / Floor / Ceiling / Remove(=lookup) and the insertion loop of Put, AVL Get / Floor / Ceiling /
     put / remove: one comparator call per node on the search path, stopping at an equal key *)
  Fixpoint path_cost (x : K) (t : tree) : nat :=
    match t with
    | E => O
    | T _ l k _ r => let d := cmp x k in
                     S (if d =? 0 then O else if d <? 0 then path_cost x l else path_cost x r)
    end.
  (* redblacktree.Put on an empty tree calls Comparator(key, key) once (type assertion); avltree.put does not *)
  Definition rb_put_cost (x : K) (t : tree) : nat := match t with E => 1%nat | _ => path_cost x t end.
End BinCost.

Section BTCost.
  Variables K V : Type.
  Variable cmp : K -> K -> Z.
  Notation node := (BTree.node K V).

  (* comparator calls of Tree.search inside one node: same recursion as BTree.bsearch *)
  Fixpoint bsearch_cost (fuel : nat) (k : K) (es : list (K * V)) (lo hi : nat) : nat :=
    match fuel with
    | O => O
    | S f =>
      if (hi <=? lo)%nat then O
      else let mid := ((lo + hi - 1) / 2)%nat in
           match nth_error es mid with
           | None => O
           | Some (k', _) =>
             let d := cmp k k' in
             S (if d >? 0 then bsearch_cost f k es (S mid) hi
                else if d <? 0 then bsearch_cost f k es lo mid
                else O)
           end
    end.
  Definition search_cost (k : K) (es : list (K * V)) : nat := bsearch_cost (length es) k es 0 (length es).

  (* searchRecursively: one in-node search per level until found or a leaf is reached *)
  Fixpoint get_cost (fuel : nat) (k : K) (t : node) : nat :=
    match fuel with
    | O => O
    | S f =>
      let '(Node es cs) := t in
      let '(i, found) := BTree.search K V cmp k es in
      (search_cost k es +
       if found then O
       else match nth_error cs i with Some c => get_cost f k c | None => O end)%nat
    end.
End BTCost.
