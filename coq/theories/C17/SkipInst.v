(* C17 cost model, skip lists: the SkipCost search-cost functions instantiated on the C03 zset model (nodes with
   score, member, height; highestLevel) and on the C04 sequential skipmap/skipset model. No proofs in this file. *)
From VF Require Import Common.Base C17.SkipCost C17.SkipRes.
From VF Require C03.Model C04.Model.
Local Open Scope Z_scope.

Module ZS.
  Import C03.Model.
  (* listNode.lessThan / lessEqual call the comparator exactly when the scores tie *)
  Definition cadv (s : Z) (y : node) : nat := if n_score y =? s then 1%nat else 0%nat.
  (* the search loop of Insert / Delete / UpdateScore for (s, m) *)
  Definition search_cost (s m : Z) (l : slist) : nat :=
    full_cost node n_height (fun y => less_than y s m) (cadv s) (sl_highest l) None (sl_nodes l).
  Definition search_end (s m : Z) (l : slist) : list node :=
    full_end node n_height (fun y => less_than y s m) (cadv s) (sl_highest l) None (sl_nodes l).
  (* Rank *)
  Definition rank_cost (s m : Z) (l : slist) : nat :=
    SkipCost.rank_cost node n_height (fun y => less_equal y s m) (cadv s) (fun y => node_equal y s m)
                       (sl_highest l) None (sl_nodes l).
  Definition lane_bound (l : slist) : nat := runs_bound node n_height (sl_highest l) (sl_nodes l).
End ZS.

Module SM.
  Import C04.Model.
  Definition c1 (n : node) : nat := 1%nat.
  (* findNode / Load, findNodeAdd / ContainsB *)
  Definition find_cost (k : Z) (s : skm) : nat :=
    SkipCost.find_cost node nh (fun n => nk n <? k) c1 (fun n => nk n =? k) c1 (hl s) None (nodes s).
  (* findNodeDelete / findNodeRemove *)
  Definition del_cost (k : Z) (s : skm) : nat :=
    finddel_cost node nh (fun n => nk n <? k) c1 (fun n => nk n =? k) c1 (hl s) None (nodes s) false.
  (* Store / AddB draw the level (raising highestLevel) before they search *)
  Definition store_cost (k : Z) (h : nat) (s : skm) : nat := find_cost k (randomlevel h s).
  Definition lane_bound (s : skm) : nat := (hl s + runs_bound node nh (hl s) (nodes s))%nat.
  (* LoadOrStore / LoadOrStoreLazy of an absent key: the search runs with highestLevel as read at entry; then the level
     h is drawn (raising highestLevel) and, when it exceeds the value read at entry, the search is repeated *)
  Definition los_cost (k : Z) (h : nat) (s : skm) : nat :=
    (find_cost k s + if (hl s <? h)%nat then store_cost k h s else 0)%nat.
  (* what those searches return (SkipRes): findNode's (level, node); findNodeDelete's lFound and succs[0]-chain *)
  Definition find_result (k : Z) (s : skm) : option (nat * node) :=
    find_res node nh (fun n => nk n <? k) (fun n => nk n =? k) (hl s) None (nodes s).
  Definition del_result (k : Z) (s : skm) : option nat * list node :=
    let '(lf, _, suf) := finddel_res node nh (fun n => nk n <? k) (fun n => nk n =? k) (hl s) None (nodes s) None in
    (lf, suf).
  (* the level-0 walk of the C04 model: skip the nodes whose key is smaller *)
  Fixpoint skip_lt (k : Z) (l : list node) : list node :=
    match l with [] => [] | n :: t => if nk n <? k then skip_lt k t else l end.
End SM.
