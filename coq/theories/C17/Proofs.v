From VF Require Import C17.Cost C01.Order C01.RB C01.AVL C02.Inv C02.Props.
From Coq Require Import ZifyBool.
Local Open Scope nat_scope.

Section Bin.
  Variables K V A : Type.
  Variable cmp : K -> K -> Z.

  Lemma path_cost_height x (t : BinTree.tree K V A) : path_cost K V A cmp x t <= height t.
  Proof.
    induction t as [|a l IHl k v r IHr]; cbn [path_cost height]; [lia|].
    destruct (cmp x k =? 0)%Z; [lia|]. destruct (cmp x k <? 0)%Z; lia.
  Qed.
End Bin.

(* red-black: at most 2*log2(n+1) comparisons for Get/Floor/Ceiling/Remove and the Put descent *)
Lemma rb_cost K V (cmp : K -> K -> Z) (t : RB.tree K V) x :
  RBShape K V t -> path_cost K V color cmp x t <= 2 * Nat.log2 (count t + 1).
Proof.
  intros H. eapply Nat.le_trans; [apply path_cost_height|]. now apply C02_rb_height_log.
Qed.

Lemma rb_put_cost_bound K V (cmp : K -> K -> Z) (t : RB.tree K V) x :
  RBShape K V t -> rb_put_cost K V color cmp x t <= 2 * Nat.log2 (count t + 1) + 1.
Proof.
  intros H. destruct t as [|c l k v r]; [cbn; lia|]. unfold rb_put_cost.
  pose proof (rb_cost K V cmp (T c l k v r) x H). lia.
Qed.

Lemma zheight_height K V (t : AVL.tree K V) : zheight K V t = Z.of_nat (height t).
Proof. induction t as [|a l IHl k v r IHr]; cbn [zheight height]; lia. Qed.

(* AVL: 2^(h/2) <= n+1, hence h <= 2*log2(n+1) + 1 *)
Lemma avl_cost K V (cmp : K -> K -> Z) (t : AVL.tree K V) x :
  avl_ok K V t -> (Z.of_nat (path_cost K V Z cmp x t) <= 2 * Z.log2 (Z.of_nat (count t) + 1) + 1)%Z.
Proof.
  intros H. pose proof (path_cost_height K V Z cmp x t) as Hc.
  pose proof (C02_avl_height_log K V t H) as Hh. rewrite zheight_height in Hh.
  set (h := Z.of_nat (height t)) in *. set (n1 := (Z.of_nat (count t) + 1)%Z) in *.
  assert (Hn : (0 < n1)%Z) by (unfold n1; lia).
  assert (Hl : (h / 2 <= Z.log2 n1)%Z).
  { apply Z.log2_le_pow2; [exact Hn|exact Hh]. }
  assert (Hd : (h <= 2 * (h / 2) + 1)%Z) by (pose proof (Z.div_mod h 2 ltac:(lia)); pose proof (Z.mod_pos_bound h 2 ltac:(lia)); lia).
  lia.
Qed.

(* B-tree *)
Section BT.
  Variables K V : Type.
  Variable cmp : K -> K -> Z.

  Lemma log2_half s w : 0 < s -> 2 * s <= w -> Nat.log2 s + 1 <= Nat.log2 w.
  Proof.
    intros Hs Hw. rewrite Nat.add_1_r, <- Nat.log2_double by exact Hs. apply Nat.log2_le_mono. exact Hw.
  Qed.

  (* a binary search over a window of w entries makes at most log2(w)+1 comparisons *)
  Lemma bsearch_cost_bound k es : forall fuel lo hi,
    bsearch_cost K V cmp fuel k es lo hi <= (if hi <=? lo then 0 else Nat.log2 (hi - lo) + 1).
  Proof.
    induction fuel as [|f IH]; intros lo hi; cbn [bsearch_cost]; [destruct (hi <=? lo); lia|].
    destruct (Nat.leb_spec hi lo) as [Hle|Hlt]; [lia|].
    set (mid := (lo + hi - 1) / 2).
    assert (Hmid : lo <= mid < hi).
    { unfold mid. split; [apply Nat.div_le_lower_bound; lia|apply Nat.div_lt_upper_bound; lia]. }
    assert (Hm2 : 2 * mid <= lo + hi - 1 < 2 * mid + 2).
    { unfold mid. pose proof (Nat.div_mod (lo + hi - 1) 2 ltac:(lia)). pose proof (Nat.mod_upper_bound (lo + hi - 1) 2 ltac:(lia)). lia. }
    destruct (nth_error es mid) as [[k' v']|]; [|lia].
    destruct (cmp k k' >? 0)%Z.
    - specialize (IH (S mid) hi). destruct (Nat.leb_spec hi (S mid)) as [H1|H1]; [lia|].
      pose proof (log2_half (hi - S mid) (hi - lo) ltac:(lia) ltac:(lia)). lia.
    - destruct (cmp k k' <? 0)%Z; [|lia].
      specialize (IH lo mid). destruct (Nat.leb_spec mid lo) as [H1|H1]; [lia|].
      pose proof (log2_half (mid - lo) (hi - lo) ltac:(lia) ltac:(lia)). lia.
  Qed.

  Lemma search_cost_bound k es : search_cost K V cmp k es <= Nat.log2 (length es) + 1.
  Proof.
    unfold search_cost. pose proof (bsearch_cost_bound k es (length es) 0 (length es)) as H.
    destruct (Nat.leb_spec (length es) 0) as [H0|H0]; rewrite ?Nat.sub_0_r in H; lia.
  Qed.

  Variable m : nat.

  (* Get: at most (depth+1) in-node searches of at most log2(m-1)+1 comparisons each *)
  Lemma get_cost_levels k : forall fuel lo d (t : BTree.node K V),
    wf K V m lo d t -> get_cost K V cmp fuel k t <= S d * (Nat.log2 (maxE m) + 1).
  Proof.
    induction fuel as [|f IH]; intros lo d t Hwf; cbn [get_cost]; [lia|].
    destruct t as [es cs].
    assert (Hhi : length es <= maxE m) by (destruct d; cbn [wf] in Hwf; tauto).
    destruct (BTree.search K V cmp k es) as [i found].
    pose proof (search_cost_bound k es) as Hs.
    assert (Hl : Nat.log2 (length es) <= Nat.log2 (maxE m)) by (apply Nat.log2_le_mono; exact Hhi).
    set (X := Nat.log2 (maxE m) + 1) in *.
    assert (Hx : search_cost K V cmp k es <= X) by (unfold X; eapply Nat.le_trans; [exact Hs|]; apply Nat.add_le_mono_r; exact Hl).
    assert (H1 : X <= S d * X) by (rewrite Nat.mul_succ_l; apply Nat.le_add_l).
    destruct found; [lia|].
    destruct (nth_error cs i) as [c|] eqn:Ec; [|lia].
    destruct d as [|d']; cbn [wf] in Hwf; destruct Hwf as (_ & _ & Hd).
    - subst cs. destruct i; discriminate.
    - destruct Hd as [_ Hall]. rewrite Forall_forall in Hall.
      pose proof (IH (minE m) d' c (Hall c (nth_error_In _ _ Ec))) as Hc. fold X in Hc.
      rewrite (Nat.mul_succ_l (S d')). lia.
  Qed.

  Lemma bt_cost k fuel d (t : BTree.node K V) : 3 <= m ->
    wf K V m 1 d t ->
    get_cost K V cmp fuel k t <= Nat.log2 (S (entries_count K V t)) * (Nat.log2 (m - 1) + 1).
  Proof.
    intros Hm Hwf. eapply Nat.le_trans; [eapply get_cost_levels; exact Hwf|].
    apply Nat.mul_le_mono_r. now apply (C02_bt_height_log K V m Hm d t).
  Qed.
End BT.
