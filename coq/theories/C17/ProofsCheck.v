(* C17: the bounds the correspondence check applies (Check.bound_get) are the proved ones, and they hold in every
   state reachable through the API (the C02 invariants are preserved by every operation). *)
From VF Require Import C17.Cost C17.Proofs C17.Check C01.Order C01.SortedMap C01.RB C01.AVL C01.BTree C02.Inv C02.Props.
From Coq Require Import ZifyBool.
Local Open Scope Z_scope.

Lemma log2_nat_Z n : Z.of_nat (Nat.log2 n) = Z.log2 (Z.of_nat n).
Proof.
  destruct n as [|n]; [reflexivity|]. symmetry. apply Z.log2_unique; [lia|].
  pose proof (Nat.log2_spec (S n) ltac:(lia)) as [H1 H2].
  apply Nat2Z.inj_le in H1. apply Nat2Z.inj_lt in H2. rewrite Nat2Z.inj_pow in H1, H2.
  replace (Z.of_nat (Nat.log2 (S n)) + 1) with (Z.of_nat (S (Nat.log2 (S n)))) by lia.
  change (Z.of_nat 2) with 2 in *. lia.
Qed.

Lemma rb_bound_check K V (cmp : K -> K -> Z) (t : RB.tree K V) x : RBShape K V t ->
  Z.of_nat (rb_put_cost K V color cmp x t) <= bound_get KRB (Z.of_nat (count t)) /\
  Z.of_nat (path_cost K V color cmp x t) <= bound_get KRB (Z.of_nat (count t)).
Proof.
  intros H. pose proof (rb_put_cost_bound K V cmp t x H) as H1. pose proof (rb_cost K V cmp t x H) as H2.
  unfold bound_get, zlog2n. replace (Z.of_nat (count t) + 1) with (Z.of_nat (count t + 1)) by lia.
  rewrite <- log2_nat_Z. lia.
Qed.

Lemma avl_bound_check K V (cmp : K -> K -> Z) (t : AVL.tree K V) x : avl_ok K V t ->
  Z.of_nat (path_cost K V Z cmp x t) <= bound_get KAVL (Z.of_nat (count t)).
Proof. intros H. unfold bound_get, zlog2n. now apply avl_cost. Qed.

Lemma bt_bound_check K V (cmp : K -> K -> Z) m fuel d (t : BTree.node K V) x : (3 <= m)%nat -> wf K V m 1 d t ->
  Z.of_nat (get_cost K V cmp fuel x t) <= bound_get (KBT m) (Z.of_nat (entries_count K V t)).
Proof.
  intros Hm H. pose proof (bt_cost K V cmp m x fuel d t Hm H) as Hc. unfold bound_get, zlog2n.
  replace (Z.of_nat (entries_count K V t) + 1) with (Z.of_nat (S (entries_count K V t))) by lia.
  rewrite <- log2_nat_Z. replace (Z.of_nat m - 1) with (Z.of_nat (m - 1)) by lia. rewrite <- log2_nat_Z. nia.
Qed.

(* after ANY history of operations *)
Lemma rb_reachable_cost K V (cmp : K -> K -> Z) (zeroV : V) : CmpLaws cmp -> forall ops x,
  let t := RB.root (fst (run (RB.step K V cmp zeroV) (RB.empty K V) ops)) in
  Z.of_nat (path_cost K V color cmp x t) <= bound_get KRB (Z.of_nat (count t)).
Proof. intros O ops x t. apply rb_bound_check. apply (C02_rb K V cmp zeroV O ops). Qed.

Lemma avl_reachable_cost K V (cmp : K -> K -> Z) (zeroV : V) : CmpLaws cmp -> forall ops x,
  let t := AVL.root (fst (run (AVL.step K V cmp zeroV) (AVL.empty K V) ops)) in
  Z.of_nat (path_cost K V Z cmp x t) <= bound_get KAVL (Z.of_nat (count t)).
Proof. intros O ops x t. apply avl_bound_check. apply (C02_avl K V cmp zeroV O ops). Qed.

Lemma bt_reachable_cost K V (cmp : K -> K -> Z) (zeroV : V) m : CmpLaws cmp -> (3 <= m)%nat -> forall ops x fuel t,
  BTree.root (fst (run (BTree.step K V cmp zeroV m) (BTree.empty K V) ops)) = Some t ->
  Z.of_nat (get_cost K V cmp fuel x t) <= bound_get (KBT m) (Z.of_nat (entries_count K V t)).
Proof.
  intros O Hm ops x fuel t E. destruct (C02_bt K V cmp zeroV O m Hm ops) as (_ & Hs & _).
  rewrite E in Hs. destruct Hs as [d Hwf]. now apply bt_bound_check with (d := d).
Qed.

(* ---- B-tree Put / Remove: the bounds Check.bound_op applies are the proved ones ---- *)
From VF Require Import C17.BTCost C17.ProofsBT.

Definition root_entries {K V} (r : option (BTree.node K V)) : nat :=
  match r with Some t => entries_count K V t | None => O end.

Lemma bt_put_bound_check K V (cmp : K -> K -> Z) m (r : option (BTree.node K V)) k v : (3 <= m)%nat -> BTShape K V m r ->
  Z.of_nat (put_cost K V cmp m r k v) <= bound_op (KBT m) Check.BPut (Z.of_nat (root_entries r)).
Proof.
  intros Hm H. destruct r as [t|]; [|reflexivity]. destruct H as [d Hwf]. cbn [put_cost root_entries].
  pose proof (bt_put_cost K V cmp m (S (BTree.depth K V t)) k v d t Hm Hwf) as Hc. unfold bound_op, bound_get, zlog2n.
  replace (Z.of_nat (entries_count K V t) + 1) with (Z.of_nat (S (entries_count K V t))) by lia.
  rewrite <- log2_nat_Z. replace (Z.of_nat m - 1) with (Z.of_nat (m - 1)) by lia. rewrite <- log2_nat_Z. nia.
Qed.

Lemma bt_remove_bound_check K V (cmp : K -> K -> Z) m (r : option (BTree.node K V)) k : (3 <= m)%nat -> BTShape K V m r ->
  Z.of_nat (remove_cost K V cmp m r k) <= bound_op (KBT m) Check.BRemove (Z.of_nat (root_entries r)).
Proof.
  intros Hm H. destruct r as [t|]; [|reflexivity]. destruct H as [d Hwf]. cbn [remove_cost root_entries].
  pose proof (bt_remove_cost K V cmp m (S (BTree.depth K V t)) k d t Hm Hwf) as Hc. unfold bound_op, bound_get, zlog2n.
  replace (Z.of_nat (entries_count K V t) + 1) with (Z.of_nat (S (entries_count K V t))) by lia.
  rewrite <- log2_nat_Z. replace (Z.of_nat m - 1) with (Z.of_nat (m - 1)) by lia. rewrite <- log2_nat_Z. nia.
Qed.

Lemma bt_reachable_mut_cost K V (cmp : K -> K -> Z) (zeroV : V) m : CmpLaws cmp -> (3 <= m)%nat -> forall ops k v,
  let r := BTree.root (fst (run (BTree.step K V cmp zeroV m) (BTree.empty K V) ops)) in
  Z.of_nat (put_cost K V cmp m r k v) <= bound_op (KBT m) Check.BPut (Z.of_nat (root_entries r)) /\
  Z.of_nat (remove_cost K V cmp m r k) <= bound_op (KBT m) Check.BRemove (Z.of_nat (root_entries r)).
Proof.
  intros O Hm ops k v r. destruct (C02_bt K V cmp zeroV O m Hm ops) as (_ & Hs & _). fold r in Hs.
  split; [now apply bt_put_bound_check|now apply bt_remove_bound_check].
Qed.
