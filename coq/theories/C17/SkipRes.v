(* C17, skip lists: what the searches priced by SkipCost RETURN. Same loops (SkipCost.lscan is the level loop), the
   results instead of the calls:
     find_res     skipmap findNode / Load, skipset findNodeAdd / ContainsB: the level at which succ.equal(key) held
                  and that node (None = not found);
     finddel_res  findNodeDelete / findNodeRemove: lFound, and the level-0 position at the end (preds[0] = x,
                  succs[0] = head of the suffix).
   No proofs in this file. *)
From VF Require Export Common.Base C17.SkipCost.

Section SkipRes.
  Variable N : Type.
  Variable height : N -> nat.
  Variable adv : N -> bool.
  Variable eq : N -> bool.
  Notation lscan := (lscan N height adv (fun _ => O)).

  Fixpoint find_res (levels : nat) (x : option N) (suf : list N) : option (nat * N) :=
    match levels with
    | O => None
    | S i => let '(x', suf', nx, _) := lscan i suf x suf O in
             match nx with
             | Some y => if eq y then Some (i, y) else find_res i x' suf'
             | None => find_res i x' suf'
             end
    end.

  Fixpoint finddel_res (levels : nat) (x : option N) (suf : list N) (lfound : option nat)
    : option nat * option N * list N :=
    match levels with
    | O => (lfound, x, suf)
    | S i => let '(x', suf', nx, _) := lscan i suf x suf O in
             let lf := match lfound, nx with
                       | None, Some y => if eq y then Some i else None
                       | _, _ => lfound
                       end in
             finddel_res i x' suf' lf
    end.

  (* the same answers read off the part [b] of the level-0 list where the loop condition fails *)
  Fixpoint first_tall (i : nat) (l : list N) : option N :=
    match l with [] => None | y :: r => if (i <? height y)%nat then Some y else first_tall i r end.
  Fixpoint res_b (levels : nat) (b : list N) : option (nat * N) :=
    match levels with
    | O => None
    | S i => match first_tall i b with
             | Some y => if eq y then Some (i, y) else res_b i b
             | None => res_b i b
             end
    end.
End SkipRes.
