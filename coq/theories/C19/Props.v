(* C19 property theorems. Only statements closed by [exact]/[apply] of lemmas from Proofs.v, one
   non-vacuity Example, and Print Assumptions. Strings are rune lists (Model.v), all integer
   arguments range over Z (a superset of int64). [valid_string s]: every rune is a Unicode scalar
   value, i.e. s is the rune list of a valid UTF-8 string. *)
From VF Require Import C19.Model C19.Spec C19.Proofs C19.Check.
From VF Require C20.Proofs.
Local Open Scope Z_scope.

(* Pad*: the input extended on the stated side to exactly max(size, rune length) runes *)
Theorem C19_pad_left : forall s size ch,
  pad_left_char s size ch = repeat (pad_rune ch) (Z.to_nat (Z.max size (len s) - len s)) ++ s.
Proof. exact pad_left_ok. Qed.
Theorem C19_pad_right : forall s size ch,
  pad_right_char s size ch = s ++ repeat (pad_rune ch) (Z.to_nat (Z.max size (len s) - len s)).
Proof. exact pad_right_ok. Qed.
Theorem C19_pad_center : forall s size ch,
  let d := Z.max size (len s) - len s in
  pad_center_char s size ch = repeat (pad_rune ch) (Z.to_nat (d / 2)) ++ s ++ repeat (pad_rune ch) (Z.to_nat (d - d / 2))
  /\ 0 <= (d - d / 2) - d / 2 <= 1 /\ 0 <= d / 2.          (* the extra rune is on the right *)
Proof. intros s size ch. split; [apply pad_center_ok|apply spec_pad_center_sides]. Qed.
Theorem C19_pad_space : forall s size,
  pad_left_space s size = spec_pad_left s size 32 /\ pad_right_space s size = spec_pad_right s size 32
  /\ pad_center_space s size = spec_pad_center s size 32.
Proof. intros. repeat split; [apply pad_left_ok|apply pad_right_ok|apply pad_center_ok]. Qed.
Theorem C19_pad_lengths : forall s size ch,
  len (pad_left_char s size ch) = Z.max size (len s) /\ len (pad_right_char s size ch) = Z.max size (len s)
  /\ len (pad_center_char s size ch) = Z.max size (len s).
Proof. intros. rewrite pad_left_ok, pad_right_ok, pad_center_ok. apply spec_pad_lengths. Qed.
Theorem C19_repeat_char : forall ch n, repeat_char ch n = repeat (pad_rune ch) (Z.to_nat n).
Proof. exact repeat_char_ok. Qed.

(* Sub / SubStart: the rune range, negative indexes from the end, bounds clamped into [0, n] *)
Theorem C19_sub : forall s a b, valid_string s ->
  Sub s a b = slice (clamp (len s) a) (clamp (len s) b) s.
Proof. exact sub_ok. Qed.
Theorem C19_substart : forall s a, valid_string s -> len s <= MaxInt64 ->
  SubStart s a = slice (clamp (len s) a) (len s) s.
Proof. exact substart_ok. Qed.

(* Rotate: cyclic shift by shift modulo the RUNE length (the code after repair D25) *)
Theorem C19_rotate : forall s k, valid_string s -> len s <= MaxInt64 -> s <> [] ->
  rotate s k = rotr (k mod len s) s.
Proof. intros s k Hv Hl Hs. rewrite rotate_ok by assumption. destruct s; [congruence|reflexivity]. Qed.
Theorem C19_rotate_empty : forall k, rotate [] k = [].
Proof. intros k. unfold rotate. now destruct (k =? 0). Qed.
(* ... which is false of the code as it was (shift modulo the byte length): Rotate("日本語", 4) *)
Theorem C19_rotate_prerepair_refuted : exists s k, valid_string s /\ s <> [] /\
  rotate_prerepair s k <> rotr (k mod len s) s.
Proof.
  exists [0x65E5; 0x672C; 0x8A9E], 4. split; [repeat constructor|]. split; [discriminate|].
  vm_compute. discriminate.
Qed.

(* Reverse: reverses the rune sequence, no error on valid input, its own inverse (code after repair D26) *)
Theorem C19_reverse : forall s, valid_string s ->
  reverse s = RR (rev s) false /\ reverse (rev s) = RR s false /\ must_reverse s = RR (rev s) false.
Proof. intros s Hv. split; [now apply reverse_ok|split; [now apply reverse_involutive|now apply must_reverse_ok]]. Qed.
Theorem C19_reverse_prerepair_refuted : exists s, valid_string s /\ reverse_prerepair s <> RR (rev s) false.
Proof. exists [97; 0xFFFD; 98]. split; [repeat constructor|]. vm_compute. discriminate. Qed.

(* Remove*: exactly the matches are deleted *)
Theorem C19_remove_char : forall s ch, valid_string s -> remove_char s ch = filter (fun v => negb (v =? ch)) s.
Proof. exact remove_char_ok. Qed.
Theorem C19_remove_string : forall s m,
  (m <> [] -> RemAll m s (remove_string s m) /\ (forall r, RemAll m s r -> r = remove_string s m))
  /\ remove_string s [] = s.
Proof.
  intros s m. split; [|apply remove_string_empty]. intros Hm. split; [now apply remove_string_ok|].
  intros r H. now apply RemAll_decide.
Qed.

(* Shuffle: a permutation of the runes for every draw stream; no index panic *)
Theorem C19_shuffle_perm : forall fuel s sr r sr',
  valid_string s -> C20.Proofs.src_ok sr -> sx_shuffle fuel s sr = Ok r sr' -> Permutation s r.
Proof. exact sx_shuffle_perm. Qed.

(* Is*: non-empty and every rune in the class, for any classification functions *)
Theorem C19_is_classes : forall (isLetter isDigit : rune -> bool) s,
  (is_alpha isLetter s = true <-> s <> [] /\ Forall (fun v => isLetter v = true) s) /\
  (is_numeric isDigit s = true <-> s <> [] /\ Forall (fun v => isDigit v = true) s) /\
  (is_alphanumeric isLetter isDigit s = true <-> s <> [] /\ Forall (fun v => isDigit v || isLetter v = true) s).
Proof. intros. split; [apply is_alpha_ok|split; [apply is_numeric_ok|apply is_alphanumeric_ok]]. Qed.

(* no panic: the only functions with index expressions are Reverse (src[:srcIndex], EncodeRune into
   dst[dstIndex:]), MustReverse (panics on error) and Shuffle (runes[i], runes[index]); the others are
   total functions without a panic outcome (range loops and builder writes only, `%` guarded by sLen != 0) *)
Theorem C19_no_panic : forall s, valid_string s ->
  reverse s <> RPanic /\ reverse s <> RFuel /\ must_reverse s <> RPanic /\
  forall fuel sr, C20.Proofs.src_ok sr -> sx_shuffle fuel s sr <> Panic.
Proof.
  intros s Hv. rewrite must_reverse_ok, reverse_ok by assumption.
  repeat split; try discriminate. intros fuel sr Hs. now apply sx_shuffle_no_panic.
Qed.

(* the decision procedures the case checker uses *)
Theorem C19_perm_checker : forall a b, perm_b a b = true <-> Permutation a b.
Proof. intros a b. split; [apply perm_b_sound|apply perm_b_complete]. Qed.
Theorem C19_class_checker : forall p s, spec_isb p s = true <-> s <> [] /\ Forall (fun v => p v = true) s.
Proof. exact spec_isb_ok. Qed.

(* non-vacuity: concrete multi-byte text meets the hypotheses and the functions compute the expected values *)
Example C19_nonvacuous :
  let s := [0x65E5; 0x672C; 0x8A9E] in          (* "日本語" *)
  valid_string s /\ len s <= MaxInt64 /\ s <> [] /\
  rotate s 4 = [0x8A9E; 0x65E5; 0x672C] /\ rotate s (-1) = [0x672C; 0x8A9E; 0x65E5] /\
  reverse [97; 0xFFFD; 98] = RR [98; 0xFFFD; 97] false /\
  Sub s (-2) 5 = [0x672C; 0x8A9E] /\ pad_center_char s 6 42 = [42; 0x65E5; 0x672C; 0x8A9E; 42; 42] /\
  (exists r sr', C20.Proofs.src_ok {| vs := [4000000000; 17]; rs := [] |} /\
                 sx_shuffle 3 s {| vs := [4000000000; 17]; rs := [] |} = Ok r sr').
Proof.
  cbv zeta. split; [repeat constructor|]. split; [vm_compute; discriminate|]. split; [discriminate|].
  repeat (split; [vm_compute; reflexivity|]).
  eexists; eexists. split; [split; repeat constructor; cbv; intuition discriminate|vm_compute; reflexivity].
Qed.

Print Assumptions C19_pad_left.
Print Assumptions C19_pad_right.
Print Assumptions C19_pad_center.
Print Assumptions C19_pad_space.
Print Assumptions C19_pad_lengths.
Print Assumptions C19_repeat_char.
Print Assumptions C19_sub.
Print Assumptions C19_substart.
Print Assumptions C19_rotate.
Print Assumptions C19_rotate_empty.
Print Assumptions C19_rotate_prerepair_refuted.
Print Assumptions C19_reverse.
Print Assumptions C19_reverse_prerepair_refuted.
Print Assumptions C19_remove_char.
Print Assumptions C19_remove_string.
Print Assumptions C19_shuffle_perm.
Print Assumptions C19_is_classes.
Print Assumptions C19_no_panic.
Print Assumptions C19_perm_checker.
Print Assumptions C19_class_checker.
