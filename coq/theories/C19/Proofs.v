(* C19 lemmas: the transcribed stringx functions equal their rune-level definitions. *)
From VF Require Import C19.Model C19.Spec.
From VF Require C20.Proofs.
From Coq Require Import ZifyBool ZifyNat.
Ltac Zify.zify_post_hook ::= Z.to_euclidean_division_equations.
Local Open Scope Z_scope.

Lemma MaxInt64_pos : 0 < MaxInt64. Proof. reflexivity. Qed.
Global Opaque MaxInt64.

(* ---------- runes ---------- *)
Lemma write_rune_valid r : valid_rune r -> write_rune r = r.
Proof. unfold valid_rune, write_rune. now intros ->. Qed.

Lemma map_write_rune_valid s : valid_string s -> map write_rune s = s.
Proof.
  induction 1 as [|r s Hr Hs IH]; cbn [map]; [reflexivity|]. now rewrite IH, write_rune_valid.
Qed.

Lemma bytelen_bound r : 1 <= bytelen r <= 4.
Proof. unfold bytelen. destruct (r <? 128), (r <? 2048), (r <? 65536); lia. Qed.

Lemma blen_nonneg s : 0 <= blen s.
Proof. induction s as [|r s IH]; cbn [blen fold_right]; [lia|]. fold (blen s). pose proof (bytelen_bound r). lia. Qed.

Lemma blen_app a b : blen (a ++ b) = blen a + blen b.
Proof. induction a as [|r a IH]; cbn [blen fold_right app]; [reflexivity|]. fold (blen (a ++ b)) (blen a). lia. Qed.

Lemma blen_single r : blen [r] = bytelen r.
Proof. cbn [blen fold_right]. lia. Qed.

Lemma len_nonneg s : 0 <= len s. Proof. unfold len. lia. Qed.
Lemma len_cons a s : len (a :: s) = len s + 1. Proof. unfold len. cbn [length]. lia. Qed.
Lemma to_nat_len s : Z.to_nat (len s) = length s. Proof. unfold len. apply Nat2Z.id. Qed.

(* ---------- RepeatChar and pads ---------- *)
Lemma repeat_loop_ok k ch : forall sb, repeat_loop k ch sb = sb ++ repeat (write_rune ch) k.
Proof.
  induction k as [|k IH]; intros sb; cbn [repeat_loop repeat].
  - now rewrite app_nil_r.
  - rewrite IH, <- app_assoc. reflexivity.
Qed.

Lemma repeat_char_ok ch n : repeat_char ch n = spec_repeat ch n.
Proof.
  unfold repeat_char, spec_repeat. change (pad_rune ch) with (write_rune ch).
  destruct (n <=? 0) eqn:E.
  - replace (Z.to_nat n) with 0%nat by lia. reflexivity.
  - now rewrite repeat_loop_ok.
Qed.

Lemma pad_left_ok s size ch : pad_left_char s size ch = spec_pad_left s size ch.
Proof.
  unfold pad_left_char, pad_char_left_or_right, spec_pad_left, deficit, pad_raw_left.
  pose proof (len_nonneg s) as Hl.
  destruct (size <=? 0) eqn:E1.
  { replace (Z.to_nat (Z.max size (len s) - len s)) with 0%nat by lia. reflexivity. }
  destruct (size - len s <=? 0) eqn:E2.
  { replace (Z.to_nat (Z.max size (len s) - len s)) with 0%nat by lia. reflexivity. }
  rewrite repeat_char_ok. unfold spec_repeat. do 2 f_equal. lia.
Qed.

Lemma pad_right_ok s size ch : pad_right_char s size ch = spec_pad_right s size ch.
Proof.
  unfold pad_right_char, pad_char_left_or_right, spec_pad_right, deficit, pad_raw_right.
  pose proof (len_nonneg s) as Hl.
  destruct (size <=? 0) eqn:E1.
  { replace (Z.to_nat (Z.max size (len s) - len s)) with 0%nat by lia. cbn [repeat]. now rewrite app_nil_r. }
  destruct (size - len s <=? 0) eqn:E2.
  { replace (Z.to_nat (Z.max size (len s) - len s)) with 0%nat by lia. cbn [repeat]. now rewrite app_nil_r. }
  rewrite repeat_char_ok. unfold spec_repeat. do 2 f_equal. lia.
Qed.

Lemma pad_center_ok s size ch : pad_center_char s size ch = spec_pad_center s size ch.
Proof.
  unfold pad_center_char, spec_pad_center, deficit, pad_raw_left, pad_raw_right. cbv zeta.
  pose proof (len_nonneg s) as Hl.
  destruct (size <=? 0) eqn:E1.
  { replace (Z.max size (len s) - len s) with 0 by lia. cbn. now rewrite app_nil_r. }
  destruct (size - len s <=? 0) eqn:E2.
  { replace (Z.max size (len s) - len s) with 0 by lia. cbn. now rewrite app_nil_r. }
  replace (Z.max size (len s) - len s) with (size - len s) by lia.
  set (p := size - len s) in *.
  assert (Hq : Z.quot p 2 = p / 2) by (apply Z.quot_div_nonneg; lia).
  rewrite Hq.
  assert (Hs1 : (if p / 2 >? 0 then repeat_char ch (p / 2) ++ s else s) = repeat (pad_rune ch) (Z.to_nat (p / 2)) ++ s).
  { destruct (p / 2 >? 0) eqn:E3.
    - now rewrite repeat_char_ok.
    - replace (Z.to_nat (p / 2)) with 0%nat by lia. reflexivity. }
  rewrite Hs1.
  replace (size - p / 2 - len s) with (p - p / 2) by lia.
  destruct (p - p / 2 >? 0) eqn:E4.
  - rewrite repeat_char_ok. unfold spec_repeat. now rewrite <- app_assoc.
  - replace (Z.to_nat (p - p / 2)) with 0%nat by lia. cbn [repeat]. now rewrite app_nil_r.
Qed.

(* what the definitions say about lengths: exactly max(size, rune length) runes, centre extra on the right *)
Lemma spec_pad_lengths s size ch :
  len (spec_pad_left s size ch) = Z.max size (len s) /\
  len (spec_pad_right s size ch) = Z.max size (len s) /\
  len (spec_pad_center s size ch) = Z.max size (len s).
Proof.
  unfold spec_pad_left, spec_pad_right, spec_pad_center, len.
  rewrite !app_length, !repeat_length. pose proof (len_nonneg s). unfold deficit, len in *.
  repeat split; lia.
Qed.

Lemma spec_pad_center_sides s size :
  let d := deficit s size in 0 <= (d - d / 2) - d / 2 <= 1 /\ 0 <= d / 2.
Proof. cbv zeta. unfold deficit. pose proof (len_nonneg s). lia. Qed.

(* ---------- sub ---------- *)
Lemma slice_empty lo hi s : hi <= lo -> slice lo hi s = [].
Proof. intros H. unfold slice. replace (Z.to_nat (hi - lo)) with 0%nat by lia. reflexivity. Qed.

Lemma sub_loop_ok s start end_ : valid_string s -> forall idx,
  sub_loop s start end_ idx = firstn (Z.to_nat (end_ - Z.max start idx)) (skipn (Z.to_nat (start - idx)) s).
Proof.
  induction 1 as [|a t Ha Ht IH]; intros idx.
  - cbn [sub_loop]. now rewrite skipn_nil, firstn_nil.
  - cbn [sub_loop]. destruct (idx >=? end_) eqn:E1.
    { replace (Z.to_nat (end_ - Z.max start idx)) with 0%nat by lia. reflexivity. }
    destruct (idx >=? start) eqn:E2.
    + replace (Z.to_nat (start - idx)) with 0%nat by lia. cbn [skipn].
      replace (Z.to_nat (end_ - Z.max start idx)) with (S (Z.to_nat (end_ - idx - 1))) by lia.
      cbn [firstn]. rewrite (write_rune_valid a Ha). f_equal. rewrite IH.
      replace (Z.to_nat (start - (idx + 1))) with 0%nat by lia. cbn [skipn]. f_equal. lia.
    + replace (Z.to_nat (start - idx)) with (S (Z.to_nat (start - (idx + 1)))) by lia.
      cbn [skipn]. rewrite IH. f_equal. lia.
Qed.

Lemma sub_core s n lo hi : valid_string s -> n = len s -> 0 <= lo -> lo <= hi <= n ->
  (if (lo =? 0) && (hi =? n) then s else sub_loop s lo hi 0) = slice lo hi s.
Proof.
  intros Hv -> Hlo Hhi. unfold slice.
  destruct ((lo =? 0) && (hi =? len s)) eqn:E.
  - assert (lo = 0 /\ hi = len s) as [-> ->] by lia.
    rewrite Z.sub_0_r, to_nat_len. cbn [Z.to_nat skipn]. now rewrite firstn_all.
  - rewrite sub_loop_ok by assumption. rewrite Z.sub_0_r. f_equal. lia.
Qed.

Lemma sub_ok s a b : valid_string s -> sub s a b = spec_sub s a b.
Proof.
  intros Hv. unfold sub, spec_sub.
  destruct s as [|r s'] eqn:Es.
  { cbn [is_empty]. unfold slice. now rewrite skipn_nil, firstn_nil. }
  rewrite <- Es in *. cbn [is_empty].
  assert (Hn : 1 <= len s) by (subst s; rewrite len_cons; pose proof (len_nonneg s'); lia).
  replace (is_empty s) with false by (subst s; reflexivity).
  set (n := len s) in *. unfold clamp, from_end.
  destruct (a <? 0) eqn:Ea; destruct (b <? 0) eqn:Eb;
  match goal with |- context [if ?e1 >? n then n else ?e1] => destruct (e1 >? n) eqn:E1 end;
  match goal with |- context [if ?s1 >? ?e2 then [] else _] => destruct (s1 >? e2) eqn:E2 end;
  try (symmetry; apply slice_empty; lia);
  match goal with |- context [if ?s1 <? 0 then 0 else ?s1] => destruct (s1 <? 0) eqn:E3 end;
  match goal with |- context [if ?e2 <? 0 then 0 else ?e2] => destruct (e2 <? 0) eqn:E4 end;
  try lia;
  (rewrite sub_core by (try assumption; try reflexivity; lia)); f_equal; lia.
Qed.

Lemma substart_ok s a : valid_string s -> len s <= MaxInt64 -> SubStart s a = spec_substart s a.
Proof.
  intros Hv Hl. unfold SubStart. rewrite sub_ok by assumption.
  unfold spec_sub, spec_substart, clamp, from_end.
  pose proof MaxInt64_pos. pose proof (len_nonneg s).
  replace (MaxInt64 <? 0) with false by lia. f_equal. lia.
Qed.

(* ---------- Rotate ---------- *)
Lemma rem_mod_cases k n : 0 < n ->
  (Z.rem k n = 0 /\ k mod n = 0) \/ (0 < Z.rem k n < n /\ k mod n = Z.rem k n)
  \/ (- n < Z.rem k n < 0 /\ k mod n = n + Z.rem k n).
Proof.
  intros Hn. destruct (Z_le_gt_dec 0 k) as [Hk|Hk].
  - rewrite Z.rem_mod_nonneg by lia. pose proof (Z.mod_pos_bound k n Hn). lia.
  - replace k with (- (- k)) by lia. set (j := - k) in *. assert (Hj : 0 < j) by lia.
    rewrite Z.rem_opp_l by lia. rewrite (Z.rem_mod_nonneg j n) by lia.
    pose proof (Z.mod_pos_bound j n Hn) as Hb.
    destruct (Z.eq_dec (j mod n) 0) as [E|E].
    + rewrite (Z.mod_opp_l_z j n) by lia. lia.
    + rewrite (Z.mod_opp_l_nz j n) by lia. lia.
Qed.

Lemma slice_to_end s lo : 0 <= lo <= len s -> slice lo (len s) s = skipn (Z.to_nat lo) s.
Proof.
  intros H. unfold slice. apply firstn_all2. rewrite skipn_length. unfold len in *. lia.
Qed.

Lemma slice_from_0 s hi : slice 0 hi s = firstn (Z.to_nat hi) s.
Proof. unfold slice. rewrite Z.sub_0_r. reflexivity. Qed.

Lemma rotr_0 s : rotr 0 s = s.
Proof. unfold rotr. rewrite Z.sub_0_r, to_nat_len, skipn_all, firstn_all. reflexivity. Qed.

Lemma rotate_ok s k : valid_string s -> len s <= MaxInt64 -> rotate s k = spec_rotate s k.
Proof.
  intros Hv Hl. unfold rotate, spec_rotate.
  destruct s as [|r s'] eqn:Es.
  { now destruct (k =? 0). }
  rewrite <- Es in *.
  assert (Hn : 0 < len s) by (subst s; rewrite len_cons; pose proof (len_nonneg s'); lia).
  destruct (k =? 0) eqn:E0.
  { assert (k = 0) as -> by lia. rewrite Z.mod_0_l by lia. now rewrite rotr_0. }
  replace (len s =? 0) with false by lia.
  destruct (rem_mod_cases k (len s) Hn) as [[Hr Hm]|[[Hr Hm]|[Hr Hm]]]; rewrite Hm.
  - rewrite Hr. cbn [Z.eqb]. now rewrite rotr_0.
  - replace (Z.rem k (len s) =? 0) with false by lia.
    rewrite substart_ok, sub_ok by assumption.
    unfold spec_substart, spec_sub, clamp, from_end, rotr.
    set (q := Z.rem k (len s)) in *. set (n := len s) in *.
    replace (- q <? 0) with true by lia. cbn [Z.ltb Z.compare].
    replace (Z.max 0 (Z.min n (- q + n))) with (n - q) by lia.
    replace (Z.max 0 (Z.min n 0)) with 0 by lia.
    unfold n at 2. rewrite slice_to_end by (fold n; lia). now rewrite slice_from_0.
  - replace (Z.rem k (len s) =? 0) with false by lia.
    rewrite substart_ok, sub_ok by assumption.
    unfold spec_substart, spec_sub, clamp, from_end, rotr.
    set (q := Z.rem k (len s)) in *. set (n := len s) in *.
    replace (- q <? 0) with false by lia. cbn [Z.ltb Z.compare].
    replace (Z.max 0 (Z.min n (- q))) with (- q) by lia.
    replace (Z.max 0 (Z.min n 0)) with 0 by lia.
    replace (n - (n + q)) with (- q) by lia.
    unfold n at 1. rewrite slice_to_end by (fold n; lia). now rewrite slice_from_0.
Qed.

(* ---------- Reverse ---------- *)
Lemma decode_last_snoc l x : decode_last_rune (l ++ [x]) = (x, bytelen x).
Proof.
  unfold decode_last_rune. rewrite last_last.
  destruct (l ++ [x]) eqn:E; [|reflexivity]. symmetry in E. now apply app_cons_not_nil in E.
Qed.

Lemma runeerror_check x : (x =? RuneError) && (bytelen x <=? 1) = false.
Proof. destruct (Z.eqb_spec x RuneError) as [->|]; reflexivity. Qed.

Lemma reverse_loop_ok : forall src dst fuel, valid_string src -> (length src < fuel)%nat ->
  reverse_loop fuel src (blen src) (blen dst) (blen src + blen dst) dst = RR (dst ++ rev src) false.
Proof.
  induction src as [|x l IH] using rev_ind; intros dst fuel Hv Hf.
  - destruct fuel as [|f]; [cbn in Hf; lia|]. cbn. now rewrite app_nil_r.
  - destruct fuel as [|f]; [lia|]. rewrite app_length in Hf. cbn [length] in Hf.
    apply Forall_app in Hv as [Hvl Hvx]. inversion Hvx as [|? ? Hx _]; subst.
    cbn [reverse_loop]. rewrite blen_app, blen_single.
    pose proof (bytelen_bound x) as Hb. pose proof (blen_nonneg l) as Hl. pose proof (blen_nonneg dst) as Hd.
    replace (blen l + bytelen x >? 0) with true by lia.
    rewrite decode_last_snoc, runeerror_check, (write_rune_valid x Hx), removelast_last.
    replace ((blen dst >? blen l + bytelen x + blen dst) || (blen l + bytelen x + blen dst - blen dst <? bytelen x))
      with false by lia.
    replace (blen l + bytelen x - bytelen x) with (blen l) by lia.
    replace (blen dst + bytelen x) with (blen (dst ++ [x])) by (rewrite blen_app, blen_single; lia).
    replace (blen l + bytelen x + blen dst) with (blen l + blen (dst ++ [x])) by (rewrite blen_app, blen_single; lia).
    rewrite IH by (try assumption; lia). rewrite rev_unit, <- app_assoc. reflexivity.
Qed.

Lemma reverse_ok s : valid_string s -> reverse s = RR (rev s) false.
Proof.
  intros Hv. unfold reverse. destruct s as [|r s'] eqn:Es; [reflexivity|]. rewrite <- Es in *.
  replace (is_empty s) with false by (subst; reflexivity).
  pose proof (reverse_loop_ok s [] (S (length s)) Hv) as H.
  cbn [blen fold_right app] in H. rewrite Z.add_0_r in H. apply H. lia.
Qed.

Lemma valid_rev s : valid_string s -> valid_string (rev s).
Proof. unfold valid_string. apply Forall_rev. Qed.

Lemma reverse_involutive s : valid_string s -> reverse (rev s) = RR s false.
Proof. intros Hv. rewrite reverse_ok by now apply valid_rev. now rewrite rev_involutive. Qed.

Lemma must_reverse_ok s : valid_string s -> must_reverse s = RR (rev s) false.
Proof. intros Hv. unfold must_reverse. now rewrite reverse_ok. Qed.

(* ---------- Remove ---------- *)
Lemma remove_char_ok s ch : valid_string s -> remove_char s ch = spec_remove_char s ch.
Proof.
  intros Hv. unfold remove_char, spec_remove_char. destruct (is_empty s) eqn:E.
  { destruct s; [reflexivity|discriminate]. }
  clear E. induction Hv as [|a t Ha Ht IH]; cbn [remove_loop filter]; [reflexivity|].
  destruct (negb (a =? ch)); [rewrite (write_rune_valid a Ha); f_equal|]; exact IH.
Qed.

Lemma prefixb_spec m : forall s, prefixb m s = true <-> exists u, s = m ++ u.
Proof.
  induction m as [|a m IH]; intros s; cbn [prefixb].
  - split; [intros _; now exists s|reflexivity].
  - destruct s as [|b s].
    + split; [discriminate|]. intros [u Hu]. discriminate.
    + rewrite andb_true_iff, IH, Z.eqb_eq. split.
      * intros [-> [u ->]]. now exists u.
      * intros [u Hu]. cbn [app] in Hu. inversion Hu; subst. split; [reflexivity|now exists u].
Qed.

Lemma replace_all_skip m : forall s k, replace_all m s k = replace_all m (skipn k s) 0.
Proof.
  induction s as [|a t IH]; intros k.
  - now rewrite skipn_nil.
  - destruct k as [|k]; [reflexivity|]. cbn [replace_all skipn]. apply IH.
Qed.

Lemma replace_all_rem m : m <> [] -> forall n s, (length s <= n)%nat -> RemAll m s (replace_all m s 0).
Proof.
  intros Hm. induction n as [|n IH]; intros s Hl.
  - destruct s; [constructor|cbn in Hl; lia].
  - destruct s as [|a t]; [constructor|]. cbn [replace_all].
    destruct (prefixb m (a :: t)) eqn:E.
    + apply prefixb_spec in E as [u Hu]. rewrite replace_all_skip.
      destruct m as [|b m']; [congruence|]. cbn [app] in Hu. inversion Hu; subst.
      cbn [length]. rewrite Nat.sub_succ, Nat.sub_0_r.
      rewrite skipn_app, skipn_all, Nat.sub_diag. cbn [skipn app].
      change (b :: m' ++ u) with ((b :: m') ++ u). constructor. apply IH.
      cbn [length] in Hl. rewrite app_length in Hl. lia.
    + constructor.
      * intros u Hu. assert (prefixb m (a :: t) = true) by (apply prefixb_spec; now exists u). congruence.
      * apply IH. cbn [length] in Hl. lia.
Qed.

Lemma remove_string_ok s m : m <> [] -> RemAll m s (remove_string s m).
Proof.
  intros Hm. unfold remove_string. destruct s as [|a t]; [constructor|].
  destruct m as [|b m']; [congruence|]. cbn [is_empty orb].
  eapply replace_all_rem; [assumption|apply le_n].
Qed.

Lemma remove_string_empty s : remove_string s [] = s.
Proof. unfold remove_string. destruct s; reflexivity. Qed.

(* the relation determines its result: "exactly the matches" *)
Lemma RemAll_functional m : m <> [] -> forall s r1, RemAll m s r1 -> forall r2, RemAll m s r2 -> r1 = r2.
Proof.
  intros Hm s r1 H1. induction H1 as [|t r H1 IH|a t r Hno H1 IH]; intros r2 H2.
  - inversion H2 as [|t2 r2' H2' E|]; subst; [reflexivity|].
    destruct m; [congruence|discriminate].
  - remember (m ++ t) as s eqn:Es. destruct H2 as [|t2 r2 H2|a t2 r2 Hno H2].
    + destruct m; [congruence|discriminate].
    + apply app_inv_head in Es. subst. now apply IH.
    + exfalso. eapply Hno. exact Es.
  - remember (a :: t) as s eqn:Es. destruct H2 as [|t2 r2 H2|a2 t2 r2 Hno2 H2].
    + discriminate.
    + exfalso. exact (Hno t2 eq_refl).
    + inversion Es; subst. f_equal. now apply IH.
Qed.

(* hence comparing with the transcribed function decides the relation (used by the checker) *)
Lemma RemAll_decide m s r : m <> [] -> (RemAll m s r <-> r = remove_string s m).
Proof.
  intros Hm. split.
  - intros H. eapply RemAll_functional; [exact Hm|exact H|now apply remove_string_ok].
  - intros ->. now apply remove_string_ok.
Qed.

(* the input is the result plus a whole number of copies of m *)
Lemma RemAll_length m s r : RemAll m s r -> exists c : nat, length s = (length r + c * length m)%nat.
Proof.
  induction 1 as [|t r H [c IH]|a t r Hno H [c IH]].
  - now exists 0%nat.
  - exists (S c). rewrite app_length. lia.
  - exists c. cbn [length]. lia.
Qed.

(* ---------- Shuffle ---------- *)
Lemma bind_ok' {A B} (r : res A) (f : A -> src -> res B) v s :
  bind r f = Ok v s -> exists a s0, r = Ok a s0 /\ f a s0 = Ok v s.
Proof. destruct r; cbn [bind]; try discriminate. eauto. Qed.

Lemma sx_shuffle_loop_perm fuel : forall k i runes sr r sr',
  C20.Proofs.src_ok sr -> sx_shuffle_loop fuel k i runes sr = Ok r sr' -> Permutation runes r.
Proof.
  induction k as [|k IH]; intros i runes sr r sr' Hs H; cbn [sx_shuffle_loop] in H.
  - inversion H; subst. reflexivity.
  - destruct (i >? 0) eqn:Ei; [|inversion H; subst; reflexivity].
    apply bind_ok' in H as (index & s0 & E & H).
    apply C20.Proofs.intn_range in E as (_ & Hidx & Hs0); [|assumption].
    destruct (i =? index) eqn:Eq; [now apply IH in H|].
    destruct ((index <? 0) || (index >=? len runes) || (i >=? len runes)) eqn:Eo; [discriminate|].
    apply IH in H; [|assumption]. eapply perm_trans; [|exact H].
    apply Permutation_sym, swap_perm; unfold len in *; lia.
Qed.

Lemma sx_shuffle_loop_no_panic fuel : forall k i runes sr,
  C20.Proofs.src_ok sr -> i < len runes -> sx_shuffle_loop fuel k i runes sr <> Panic.
Proof.
  induction k as [|k IH]; intros i runes sr Hs Hi; cbn [sx_shuffle_loop]; [discriminate|].
  destruct (i >? 0) eqn:Ei; [|discriminate].
  destruct (intn fuel (i + 1) sr) as [index s0| |] eqn:E; cbn [bind]; try discriminate.
  - apply C20.Proofs.intn_range in E as (_ & Hidx & Hs0); [|assumption].
    destruct (i =? index) eqn:Eq; [apply IH; [assumption|lia]|].
    replace ((index <? 0) || (index >=? len runes) || (i >=? len runes)) with false by lia.
    apply IH; [assumption|]. unfold len. rewrite swap_length. unfold len in Hi. lia.
  - apply C20.Proofs.intn_panic in E. lia.
Qed.

Lemma sx_shuffle_perm fuel s sr r sr' :
  valid_string s -> C20.Proofs.src_ok sr -> sx_shuffle fuel s sr = Ok r sr' -> Permutation s r.
Proof.
  intros Hv Hs H. unfold sx_shuffle in H. destruct (is_empty s).
  - inversion H; subst. reflexivity.
  - apply bind_ok' in H as (runes & s0 & E & H). inversion H; subst.
    apply sx_shuffle_loop_perm in E; [|assumption].
    rewrite map_write_rune_valid; [assumption|].
    unfold valid_string. eapply Permutation_Forall; eassumption.
Qed.

Lemma sx_shuffle_no_panic fuel s sr : C20.Proofs.src_ok sr -> sx_shuffle fuel s sr <> Panic.
Proof.
  intros Hs. unfold sx_shuffle. destruct (is_empty s); [discriminate|].
  pose proof (sx_shuffle_loop_no_panic fuel (length s) (len s - 1) s sr Hs ltac:(lia)) as H.
  destruct (sx_shuffle_loop fuel (length s) (len s - 1) s sr); cbn [bind]; congruence.
Qed.

(* ---------- Is* ---------- *)
Lemma all_loop_forallb p s : all_loop p s = forallb p s.
Proof. induction s as [|v t IH]; cbn [all_loop forallb]; [reflexivity|]. destruct (p v); cbn; auto. Qed.

Lemma spec_isb_ok p s : spec_isb p s = true <-> spec_is p s.
Proof.
  unfold spec_isb, spec_is. rewrite andb_true_iff, forallb_forall, Forall_forall.
  destruct s; cbn [is_empty negb]; split; intros [H1 H2]; split; auto; congruence.
Qed.

Lemma is_alpha_ok isLetter s : is_alpha isLetter s = true <-> spec_is isLetter s.
Proof. rewrite <- spec_isb_ok. unfold is_alpha, spec_isb. rewrite all_loop_forallb. now destruct (is_empty s). Qed.
Lemma is_numeric_ok isDigit s : is_numeric isDigit s = true <-> spec_is isDigit s.
Proof. rewrite <- spec_isb_ok. unfold is_numeric, spec_isb. rewrite all_loop_forallb. now destruct (is_empty s). Qed.
Lemma is_alphanumeric_ok isLetter isDigit s :
  is_alphanumeric isLetter isDigit s = true <-> spec_is (fun v => isDigit v || isLetter v) s.
Proof.
  rewrite <- spec_isb_ok. unfold is_alphanumeric, spec_isb. rewrite all_loop_forallb.
  unfold is_alphanumeric_rune. now destruct (is_empty s).
Qed.

(* ---------- checker support ---------- *)
Lemma remove_one_perm x : forall l l', remove_one x l = Some l' -> Permutation l (x :: l').
Proof.
  induction l as [|y t IH]; intros l' H; cbn [remove_one] in H; [discriminate|].
  destruct (Z.eqb_spec x y) as [->|Hne].
  - inversion H; subst. reflexivity.
  - destruct (remove_one x t) as [t'|] eqn:E; [|discriminate]. inversion H; subst.
    eapply perm_trans; [apply perm_skip, IH; reflexivity|]. apply perm_swap.
Qed.

Lemma perm_b_sound : forall a b, perm_b a b = true -> Permutation a b.
Proof.
  induction a as [|x a IH]; intros b H; cbn [perm_b] in H.
  - destruct b; [reflexivity|discriminate].
  - destruct (remove_one x b) as [b'|] eqn:E; [|discriminate].
    apply remove_one_perm in E. apply IH in H. eapply perm_trans; [apply perm_skip, H|]. now apply Permutation_sym.
Qed.

Lemma remove_one_complete x : forall l, In x l -> exists l', remove_one x l = Some l'.
Proof.
  induction l as [|y t IH]; intros H; [destruct H|]. cbn [remove_one].
  destruct (Z.eqb_spec x y) as [->|Hne]; [eauto|].
  destruct H as [H|H]; [congruence|]. destruct (IH H) as [t' ->]. eauto.
Qed.

Lemma perm_b_complete : forall a b, Permutation a b -> perm_b a b = true.
Proof.
  induction a as [|x a IH]; intros b H; cbn [perm_b].
  - apply Permutation_nil in H. now subst.
  - assert (Hin : In x b) by (eapply Permutation_in; [exact H|now left]).
    destruct (remove_one_complete x b Hin) as [b' E]. rewrite E. apply IH.
    apply remove_one_perm in E. eapply Permutation_cons_inv. eapply perm_trans; [exact H|exact E].
Qed.
