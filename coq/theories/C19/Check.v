(* C19 correspondence checker. One case = one call of a stringx function on a valid UTF-8 string,
   sent by the harness as its rune list (code points) plus, for the Is* functions, the class bits
   unicode.IsLetter (bit 0) / unicode.IsDigit (bit 1) of every rune that occurs.
   prop_ok  : the observation against the rune-level Spec (kind 2 when false)
   model_ok : the observation against the transcribed Model (kind 1 when false) *)
From VF Require Import C19.Model C19.Spec C19.Proofs.
Local Open Scope Z_scope.

Inductive call :=
| CPadLeftChar (size ch : Z) | CPadRightChar (size ch : Z) | CPadCenterChar (size ch : Z)
| CPadLeftSpace (size : Z) | CPadRightSpace (size : Z) | CPadCenterSpace (size : Z)
| CRepeatChar (ch n : Z)                 (* the string argument is ignored *)
| CRemoveChar (ch : Z) | CRemoveString (m : list Z)
| CRotate (k : Z) | CSub (a b : Z) | CSubStart (a : Z)
| CReverse | CMustReverse | CShuffle
| CIsAlpha | CIsNumeric | CIsAlphanumeric.

Inductive obs :=
| OStr (l : list Z)                                        (* returned string, as runes *)
| ORev (r1 : list Z) (e1 : bool) (r2 : list Z) (e2 : bool) (* Reverse(s) and Reverse of that result; e = err != nil *)
| OBool (b : bool)
| OPanic                                                   (* the call panicked *)
| OInvalid.                                                (* the returned string is not valid UTF-8 *)

Record case := { c_s : list Z; c_cls : list (Z * Z); c_call : call;
                 c_draws : list Z; c_used : nat; c_obs : obs }.

Definition str_eqb := list_eqb Z.eqb.

Fixpoint cls_bit (tbl : list (Z * Z)) (bit : Z) (r : Z) : bool :=
  match tbl with
  | [] => false
  | (k, b) :: t => if k =? r then Z.testbit b bit else cls_bit t bit r
  end.

Definition spec_remove_string (s m : list Z) : list Z := remove_string s m.   (* = the relation RemAll, by RemAll_decide *)

Definition prop_ok (c : case) : bool :=
  let s := c_s c in
  let isL := cls_bit (c_cls c) 0 in
  let isD := cls_bit (c_cls c) 1 in
  match c_call c, c_obs c with
  | CPadLeftChar n ch, OStr l => str_eqb l (spec_pad_left s n ch)
  | CPadRightChar n ch, OStr l => str_eqb l (spec_pad_right s n ch)
  | CPadCenterChar n ch, OStr l => str_eqb l (spec_pad_center s n ch)
  | CPadLeftSpace n, OStr l => str_eqb l (spec_pad_left s n 32)
  | CPadRightSpace n, OStr l => str_eqb l (spec_pad_right s n 32)
  | CPadCenterSpace n, OStr l => str_eqb l (spec_pad_center s n 32)
  | CRepeatChar ch n, OStr l => str_eqb l (spec_repeat ch n)
  | CRemoveChar ch, OStr l => str_eqb l (spec_remove_char s ch)
  | CRemoveString m, OStr l => str_eqb l (if is_empty m then s else spec_remove_string s m)
  | CRotate k, OStr l => str_eqb l (spec_rotate s k)
  | CSub a b, OStr l => str_eqb l (spec_sub s a b)
  | CSubStart a, OStr l => str_eqb l (spec_substart s a)
  | CReverse, ORev r1 e1 r2 e2 => str_eqb r1 (rev s) && negb e1 && str_eqb r2 s && negb e2
  | CMustReverse, OStr l => str_eqb l (rev s)
  | CShuffle, OStr l => perm_b s l
  | CIsAlpha, OBool b => Bool.eqb b (spec_isb isL s)
  | CIsNumeric, OBool b => Bool.eqb b (spec_isb isD s)
  | CIsAlphanumeric, OBool b => Bool.eqb b (spec_isb (fun v => isD v || isL v) s)
  | _, _ => false
  end.

Definition rres_is (r : rres) (out : list Z) (err : bool) : bool :=
  match r with RR o e => str_eqb o out && Bool.eqb e err | _ => false end.

Definition model_ok (c : case) : bool :=
  let s := c_s c in
  let isL := cls_bit (c_cls c) 0 in
  let isD := cls_bit (c_cls c) 1 in
  match c_call c, c_obs c with
  | CPadLeftChar n ch, OStr l => str_eqb l (pad_left_char s n ch)
  | CPadRightChar n ch, OStr l => str_eqb l (pad_right_char s n ch)
  | CPadCenterChar n ch, OStr l => str_eqb l (pad_center_char s n ch)
  | CPadLeftSpace n, OStr l => str_eqb l (pad_left_space s n)
  | CPadRightSpace n, OStr l => str_eqb l (pad_right_space s n)
  | CPadCenterSpace n, OStr l => str_eqb l (pad_center_space s n)
  | CRepeatChar ch n, OStr l => str_eqb l (repeat_char ch n)
  | CRemoveChar ch, OStr l => str_eqb l (remove_char s ch)
  | CRemoveString m, OStr l => str_eqb l (remove_string s m)
  | CRotate k, OStr l => str_eqb l (rotate s k)
  | CSub a b, OStr l => str_eqb l (Sub s a b)
  | CSubStart a, OStr l => str_eqb l (SubStart s a)
  | CReverse, ORev r1 e1 r2 e2 => rres_is (reverse s) r1 e1 && rres_is (reverse r1) r2 e2
  | CMustReverse, OStr l => rres_is (must_reverse s) l false
  | CMustReverse, OPanic => match must_reverse s with RPanic => true | _ => false end
  | CShuffle, OStr l =>
      let ds := c_draws c in
      match sx_shuffle (S (length ds)) s {| vs := ds; rs := [] |} with
      | Ok r sr => str_eqb l r && Nat.eqb (length ds - length (vs sr)) (c_used c)
      | _ => false
      end
  | CIsAlpha, OBool b => Bool.eqb b (is_alpha isL s)
  | CIsNumeric, OBool b => Bool.eqb b (is_numeric isD s)
  | CIsAlphanumeric, OBool b => Bool.eqb b (is_alphanumeric isL isD s)
  | _, _ => false
  end.

(* the harness must send valid strings; a case that is not is reported as kind 1 (harness/model problem) *)
Definition input_ok (c : case) : bool :=
  forallb valid_runeb (c_s c) &&
  match c_call c with CRemoveString m => forallb valid_runeb m | _ => true end.

Definition check_case (c : case) : nat :=
  if negb (input_ok c) then 1 else kind_of (model_ok c) (prop_ok c).

Definition mismatches (cs : list case) : list (nat * nat) := find_bad check_case cs.
