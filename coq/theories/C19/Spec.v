(* C19 specification: the rune-level definitions the property statement refers to.
   Strings are rune lists; nothing here mentions bytes, builders or loops. *)
From VF Require Import C19.Model.
Local Open Scope Z_scope.

Definition valid_rune (r : rune) : Prop := valid_runeb r = true.
Definition valid_string (s : list rune) : Prop := Forall valid_rune s.

(* the rune a pad character is written as (an invalid code point is written as U+FFFD by Go) *)
Definition pad_rune (ch : rune) : rune := if valid_runeb ch then ch else RuneError.

(* number of runes to add: max(size, rune length) - rune length *)
Definition deficit (s : list rune) (size : Z) : Z := Z.max size (len s) - len s.

Definition spec_pad_left (s : list rune) (size : Z) (ch : rune) : list rune :=
  repeat (pad_rune ch) (Z.to_nat (deficit s size)) ++ s.
Definition spec_pad_right (s : list rune) (size : Z) (ch : rune) : list rune :=
  s ++ repeat (pad_rune ch) (Z.to_nat (deficit s size)).
(* centre: floor(d/2) on the left, the rest (the extra one if d is odd) on the right *)
Definition spec_pad_center (s : list rune) (size : Z) (ch : rune) : list rune :=
  let d := deficit s size in
  repeat (pad_rune ch) (Z.to_nat (d / 2)) ++ s ++ repeat (pad_rune ch) (Z.to_nat (d - d / 2)).
Definition spec_repeat (ch : rune) (n : Z) : list rune := repeat (pad_rune ch) (Z.to_nat n).

(* rune range [lo, hi) of s *)
Definition slice (lo hi : Z) (s : list rune) : list rune :=
  firstn (Z.to_nat (hi - lo)) (skipn (Z.to_nat lo) s).

(* an index argument: negative counts from the end; then clamped into [0, n] *)
Definition from_end (n i : Z) : Z := if i <? 0 then i + n else i.
Definition clamp (n i : Z) : Z := Z.max 0 (Z.min n (from_end n i)).

Definition spec_sub (s : list rune) (a b : Z) : list rune :=
  let n := len s in slice (clamp n a) (clamp n b) s.
Definition spec_substart (s : list rune) (a : Z) : list rune :=
  let n := len s in slice (clamp n a) n s.

(* cyclic shift to the right by k places (0 <= k <= n): the last k runes come first *)
Definition rotr (k : Z) (s : list rune) : list rune :=
  let n := len s in skipn (Z.to_nat (n - k)) s ++ firstn (Z.to_nat (n - k)) s.
Definition spec_rotate (s : list rune) (shift : Z) : list rune :=
  match s with [] => [] | _ => rotr (shift mod len s) s end.

Definition spec_remove_char (s : list rune) (ch : rune) : list rune :=
  filter (fun v => negb (v =? ch)) s.

(* s with the leftmost non-overlapping occurrences of m (m <> []) deleted, as a relation:
   scanning from the left, an occurrence at the cursor is dropped, otherwise one rune is kept *)
Inductive RemAll (m : list rune) : list rune -> list rune -> Prop :=
| RemNil : RemAll m [] []
| RemMatch t r : RemAll m t r -> RemAll m (m ++ t) r
| RemKeep a t r : (forall u, a :: t <> m ++ u) -> RemAll m t r -> RemAll m (a :: t) (a :: r).

Section Classes.
  Variable isLetter isDigit : rune -> bool.
  Definition spec_is (p : rune -> bool) (s : list rune) : Prop := s <> [] /\ Forall (fun v => p v = true) s.
  Definition spec_isb (p : rune -> bool) (s : list rune) : bool := negb (is_empty s) && forallb p s.
End Classes.

(* multiset equality of rune lists, decidable form used by the checker *)
Fixpoint remove_one (x : rune) (l : list rune) : option (list rune) :=
  match l with
  | [] => None
  | y :: t => if x =? y then Some t else match remove_one x t with Some t' => Some (y :: t') | None => None end
  end.
Fixpoint perm_b (a b : list rune) : bool :=
  match a with
  | [] => is_empty b
  | x :: a' => match remove_one x b with Some b' => perm_b a' b' | None => false end
  end.
