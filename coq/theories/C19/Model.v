(* C19 model: sys/stringx/{stringx.go,is.go} (+ internal/hack) on valid UTF-8 text.
   A valid UTF-8 string is the list of its runes (code points as Z); [bytelen] gives the encoded
   width of a rune so that byte quantities (len(s), the indexes of Reverse) are expressible.
   Primitives of the Go runtime / standard library are list functions:
     range s                  -> the runes in order            (structural recursion)
     utf8.RuneCountInString   -> len
     len(s)                   -> blen
     Builder.WriteRune / utf8.EncodeRune / string([]rune) -> write_rune (invalid code points become U+FFFD)
     utf8.DecodeLastRune      -> decode_last_rune (RuneError, 3) for an encoded U+FFFD; on a valid
                                 string never (RuneError, 1), which is what malformed input gives
     strings.ReplaceAll(s, old, "") -> replace_all (leftmost non-overlapping occurrences; on valid UTF-8
                                 byte matches are rune matches because the encoding is self-synchronising)
     unicode.IsLetter/IsDigit -> Section variables
     fastrand.Intn            -> C20.Model.intn on an explicit draw stream
   Go's int is 64 bit; every arithmetic expression below stays inside int64 for arguments in int64
   (size - count with size > 0, index + count with index < 0, shift % n, -(shift % n)), so plain Z
   arithmetic is exact; `%` is Z.rem, `/` is Z.quot (truncated).
   The model is the model of the code AFTER the repairs D25 (fixes/0028) and D26 (fixes/0029); the two
   pre-repair functions are kept at the end, only for the refutation witnesses in Props.v. *)
From VF Require Export Common.Base.
From VF Require Export C20.Model.
Local Open Scope Z_scope.

Definition rune := Z.
Definition RuneError : rune := 0xFFFD.
Definition MaxRune : rune := 0x10FFFF.
Definition MaxInt64 : Z := 2 ^ 63 - 1.

Definition valid_runeb (r : rune) : bool :=
  (0 <=? r) && (r <=? MaxRune) && negb ((0xD800 <=? r) && (r <=? 0xDFFF)).

Definition bytelen (r : rune) : Z :=
  if r <? 0x80 then 1 else if r <? 0x800 then 2 else if r <? 0x10000 then 3 else 4.

Definition len (s : list rune) : Z := Z.of_nat (length s).            (* utf8.RuneCountInString(s) *)
Definition blen (s : list rune) : Z := fold_right (fun r a => bytelen r + a) 0 s.   (* len(s) *)
Definition write_rune (r : rune) : rune := if valid_runeb r then r else RuneError.
Definition is_empty (s : list rune) : bool := match s with [] => true | _ => false end.   (* s == "" *)

(* ---------- RepeatChar and the pads ---------- *)

(* for i := 0; i < repeat; i++ { sb.WriteRune(ch) } *)
Fixpoint repeat_loop (k : nat) (ch : rune) (sb : list rune) : list rune :=
  match k with O => sb | S k' => repeat_loop k' ch (sb ++ [write_rune ch]) end.

Definition repeat_char (ch : rune) (n : Z) : list rune :=
  if n <=? 0 then [] else repeat_loop (Z.to_nat n) ch [].

Definition pad_raw_left (s : list rune) (ch : rune) (padSize : Z) := repeat_char ch padSize ++ s.
Definition pad_raw_right (s : list rune) (ch : rune) (padSize : Z) := s ++ repeat_char ch padSize.

Definition pad_char_left_or_right (s : list rune) (size : Z) (ch : rune) (isLeft : bool) : list rune :=
  if size <=? 0 then s else
  let pads := size - len s in
  if pads <=? 0 then s else
  if isLeft then pad_raw_left s ch pads else pad_raw_right s ch pads.

Definition pad_left_char s size ch := pad_char_left_or_right s size ch true.
Definition pad_right_char s size ch := pad_char_left_or_right s size ch false.
Definition pad_left_space s size := pad_left_char s size 32.
Definition pad_right_space s size := pad_right_char s size 32.

Definition pad_center_char (s : list rune) (size : Z) (ch : rune) : list rune :=
  if size <=? 0 then s else
  let length := len s in
  let pads := size - length in
  if pads <=? 0 then s else
  let leftPads := Z.quot pads 2 in
  let s1 := if leftPads >? 0 then pad_raw_left s ch leftPads else s in
  let rightPads := size - leftPads - length in
  if rightPads >? 0 then pad_raw_right s1 ch rightPads else s1.
Definition pad_center_space s size := pad_center_char s size 32.

(* ---------- RemoveChar / RemoveString ---------- *)

(* for _, v := range s { if v != rmVal { sb.WriteRune(v) } } *)
Fixpoint remove_loop (s : list rune) (rmVal : rune) : list rune :=
  match s with
  | [] => []
  | v :: t => if negb (v =? rmVal) then write_rune v :: remove_loop t rmVal else remove_loop t rmVal
  end.
Definition remove_char (s : list rune) (rmVal : rune) : list rune :=
  if is_empty s then s else remove_loop s rmVal.

Fixpoint prefixb (m s : list rune) : bool :=
  match m, s with
  | [], _ => true
  | a :: m', b :: s' => (a =? b) && prefixb m' s'
  | _ :: _, [] => false
  end.

(* strings.ReplaceAll(s, old, "") for old <> "": [skip] = runes of the current match still to be dropped *)
Fixpoint replace_all (old : list rune) (s : list rune) (skip : nat) : list rune :=
  match s with
  | [] => []
  | a :: t =>
    match skip with
    | S k => replace_all old t k
    | O => if prefixb old s then replace_all old t (length old - 1) else a :: replace_all old t 0
    end
  end.

Definition remove_string (s rmStr : list rune) : list rune :=
  if is_empty s || is_empty rmStr then s else replace_all rmStr s 0.

(* ---------- sub / Sub / SubStart / Rotate ---------- *)

(* runeIndex := 0; for _, v := range s { if runeIndex >= end {break}; if runeIndex >= start {WriteRune(v)}; runeIndex++ } *)
Fixpoint sub_loop (s : list rune) (start end_ runeIndex : Z) : list rune :=
  match s with
  | [] => []
  | v :: t =>
    if runeIndex >=? end_ then [] else
    if runeIndex >=? start then write_rune v :: sub_loop t start end_ (runeIndex + 1)
    else sub_loop t start end_ (runeIndex + 1)
  end.

Definition sub (s : list rune) (start end_ : Z) : list rune :=
  if is_empty s then [] else
  let unicodeLen := len s in
  let end1 := if end_ <? 0 then end_ + unicodeLen else end_ in
  let end2 := if end1 >? unicodeLen then unicodeLen else end1 in
  let start1 := if start <? 0 then start + unicodeLen else start in
  if start1 >? end2 then [] else
  let start2 := if start1 <? 0 then 0 else start1 in
  let end3 := if end2 <? 0 then 0 else end2 in
  if (start2 =? 0) && (end3 =? unicodeLen) then s else
  sub_loop s start2 end3 0.

Definition Sub := sub.
Definition SubStart (s : list rune) (start : Z) := sub s start MaxInt64.

(* repaired (D25): sLen := utf8.RuneCountInString(s) *)
Definition rotate (s : list rune) (shift : Z) : list rune :=
  if shift =? 0 then s else
  let sLen := len s in
  if sLen =? 0 then s else
  let shiftMod := Z.rem shift sLen in
  if shiftMod =? 0 then s else
  let offset := - shiftMod in
  SubStart s offset ++ Sub s 0 offset.

(* ---------- Reverse / MustReverse ---------- *)

Inductive rres := RR (out : list rune) (err : bool) | RPanic | RFuel.

(* utf8.DecodeLastRune(src[:srcIndex]) where [src] is the rune list of that prefix *)
Definition decode_last_rune (src : list rune) : rune * Z :=
  match src with [] => (RuneError, 0) | _ => let r := last src RuneError in (r, bytelen r) end.

(* src = runes of s[:srcIndex]; dst = runes already written to dst[:dstIndex]; total = len(s).
   On the error return the rest of dst is still zero bytes (NUL runes).
   Index expressions that can panic in Go are explicit: src[:srcIndex] (srcIndex < 0 cannot arise
   because the loop tests srcIndex > 0 and DecodeLastRune returns n <= srcIndex) and
   utf8.EncodeRune(dst[dstIndex:], r), which needs bytelen r bytes of room. *)
Fixpoint reverse_loop (fuel : nat) (src : list rune) (srcIndex dstIndex total : Z) (dst : list rune) : rres :=
  match fuel with
  | O => RFuel
  | S f =>
    if srcIndex >? 0 then
      let '(r, n) := decode_last_rune src in
      if (r =? RuneError) && (n <=? 1) then RR (dst ++ repeat 0 (Z.to_nat (total - dstIndex))) true
      else if (dstIndex >? total) || (total - dstIndex <? bytelen (write_rune r)) then RPanic
      else reverse_loop f (removelast src) (srcIndex - n) (dstIndex + n) total (dst ++ [write_rune r])
    else RR dst false
  end.

Definition reverse (s : list rune) : rres :=
  if is_empty s then RR s false else
  reverse_loop (S (length s)) s (blen s) 0 (blen s) [].

Definition must_reverse (s : list rune) : rres :=
  match reverse s with RR out true => RPanic | r => r end.

(* ---------- Shuffle ---------- *)

(* for i := len(runes)-1; i > 0; i-- { index = fastrand.Intn(i+1); if i != index { swap } } *)
Fixpoint sx_shuffle_loop (fuel : nat) (k : nat) (i : Z) (runes : list rune) (sr : src) : res (list rune) :=
  match k with
  | O => Ok runes sr
  | S k' =>
    if i >? 0 then
      bind (intn fuel (i + 1) sr) (fun index sr' =>
        if i =? index then sx_shuffle_loop fuel k' (i - 1) runes sr'
        else if (index <? 0) || (index >=? len runes) || (i >=? len runes) then Panic
        else sx_shuffle_loop fuel k' (i - 1) (swap 0 runes (Z.to_nat i) (Z.to_nat index)) sr')
    else Ok runes sr
  end.

Definition sx_shuffle (fuel : nat) (s : list rune) (sr : src) : res (list rune) :=
  if is_empty s then Ok s sr else
  bind (sx_shuffle_loop fuel (length s) (len s - 1) s sr) (fun runes sr' => Ok (map write_rune runes) sr').

(* ---------- is.go ---------- *)
Section Classes.
  Variable isLetter isDigit : rune -> bool.       (* unicode.IsLetter, unicode.IsDigit *)

  (* for _, v := range s { if !p(v) { return false } }; return true *)
  Fixpoint all_loop (p : rune -> bool) (s : list rune) : bool :=
    match s with [] => true | v :: t => if negb (p v) then false else all_loop p t end.

  Definition is_alpha (s : list rune) : bool := if is_empty s then false else all_loop isLetter s.
  Definition is_alphanumeric_rune (v : rune) : bool := isDigit v || isLetter v.
  Definition is_alphanumeric (s : list rune) : bool := if is_empty s then false else all_loop is_alphanumeric_rune s.
  Definition is_numeric (s : list rune) : bool := if is_empty s then false else all_loop isDigit s.
End Classes.

(* ---------- the two functions as they were before the repairs (refutation witnesses only) ---------- *)

(* D25: sLen := len(s), the BYTE length *)
Definition rotate_prerepair (s : list rune) (shift : Z) : list rune :=
  if shift =? 0 then s else
  let sLen := blen s in
  if sLen =? 0 then s else
  let shiftMod := Z.rem shift sLen in
  if shiftMod =? 0 then s else
  let offset := - shiftMod in
  SubStart s offset ++ Sub s 0 offset.

(* D26: if r == utf8.RuneError { return ..., ErrDecodeRune } *)
Fixpoint reverse_loop_prerepair (fuel : nat) (src : list rune) (srcIndex dstIndex total : Z) (dst : list rune) : rres :=
  match fuel with
  | O => RFuel
  | S f =>
    if srcIndex >? 0 then
      let '(r, n) := decode_last_rune src in
      if r =? RuneError then RR (dst ++ repeat 0 (Z.to_nat (total - dstIndex))) true
      else if (dstIndex >? total) || (total - dstIndex <? bytelen (write_rune r)) then RPanic
      else reverse_loop_prerepair f (removelast src) (srcIndex - n) (dstIndex + n) total (dst ++ [write_rune r])
    else RR dst false
  end.
Definition reverse_prerepair (s : list rune) : rres :=
  if is_empty s then RR s false else
  reverse_loop_prerepair (S (length s)) s (blen s) 0 (blen s) [].
