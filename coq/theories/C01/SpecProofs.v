(* Lemmas about the reference sorted map (C01/SortedMap.v) under the comparator laws, and the generic
   "run refines" lemma used by every container. *)
From VF Require Import Common.Base C01.Order C01.SortedMap.
Local Open Scope Z_scope.

Ltac inv H := inversion H; subst; clear H.

(* a relation preserved by each step and implying equal outputs gives equal output lists *)
Lemma run_refines {S1 S2 O X} (step1 : S1 -> O -> S1 * X) (step2 : S2 -> O -> S2 * X)
      (R : S1 -> S2 -> Prop) (P : O -> Prop) :
  (forall s1 s2 o, P o -> R s1 s2 ->
     R (fst (step1 s1 o)) (fst (step2 s2 o)) /\ snd (step1 s1 o) = snd (step2 s2 o)) ->
  forall ops s1 s2, Forall P ops -> R s1 s2 ->
    R (fst (run step1 s1 ops)) (fst (run step2 s2 ops)) /\
    snd (run step1 s1 ops) = snd (run step2 s2 ops).
Proof.
  intros Hstep. induction ops as [|o ops IH]; intros s1 s2 HP HR; simpl; [auto|].
  inv HP. destruct (Hstep s1 s2 o H1 HR) as [HR' Ho].
  destruct (step1 s1 o) as [s1' x1]. destruct (step2 s2 o) as [s2' x2]. simpl in *.
  destruct (IH s1' s2' H2 HR') as [HR'' Hos].
  destruct (run step1 s1' ops) as [s1'' xs1]. destruct (run step2 s2' ops) as [s2'' xs2]. simpl in *.
  split; auto. congruence.
Qed.

(* an invariant preserved by each step holds after every operation list *)
Lemma run_invariant {S O X} (step : S -> O -> S * X) (I : S -> Prop) :
  (forall s o, I s -> I (fst (step s o))) -> forall ops s, I s -> I (fst (run step s ops)).
Proof.
  intros Hstep. induction ops as [|o ops IH]; intros s HI; simpl; [auto|].
  specialize (Hstep s o HI). destruct (step s o) as [s' x]. simpl in *.
  specialize (IH s' Hstep). destruct (run step s' ops) as [s'' xs]. auto.
Qed.

Lemma run_app {S O X} (step : S -> O -> S * X) s ops1 ops2 :
  run step s (ops1 ++ ops2) =
  let '(s1, x1) := run step s ops1 in let '(s2, x2) := run step s1 ops2 in (s2, x1 ++ x2).
Proof.
  revert s. induction ops1 as [|o ops1 IH]; intros s; simpl.
  - destruct (run step s ops2); reflexivity.
  - destruct (step s o) as [s' x]. rewrite IH.
    destruct (run step s' ops1) as [s1 x1]. destruct (run step s1 ops2) as [s2 x2]. reflexivity.
Qed.

Section SpecProofs.
Context {K V : Type} {cmp : K -> K -> Z} (O : CmpLaws cmp).

Notation ltk := (ltk K V cmp).
Notation sorted := (sorted K V cmp).
Notation sm_put := (sm_put K V cmp).
Notation sm_remove := (sm_remove K V cmp).
Notation sm_get := (sm_get K V cmp).
Notation sm_floor := (sm_floor K V cmp).
Notation sm_ceiling := (sm_ceiling K V cmp).

Lemma sorted_app_inv l1 x l2 :
  sorted (l1 ++ x :: l2) ->
  sorted l1 /\ sorted l2 /\ Forall (fun a => ltk a x) l1 /\ Forall (ltk x) l2.
Proof.
  induction l1 as [|a l1 IH]; simpl; intros H.
  - inv H. repeat split; auto. constructor.
  - inv H. destruct (IH H2) as (S1 & S2 & F1 & F2). repeat split; auto.
    + constructor; auto. rewrite Forall_app in H3. tauto.
    + constructor; auto. rewrite Forall_app in H3. destruct H3 as [_ H3]. inv H3. auto.
Qed.

Lemma Forall_ltk_trans a b l : ltk a b -> Forall (ltk b) l -> Forall (ltk a) l.
Proof.
  intros Hab HF. rewrite Forall_forall in *. intros x Hx. unfold SortedMap.ltk in *.
  apply (lt_trans O) with (fst b); auto.
Qed.

Lemma Forall_ltk_trans_l a b l : ltk a b -> Forall (fun x => ltk x a) l -> Forall (fun x => ltk x b) l.
Proof.
  intros Hab HF. rewrite Forall_forall in *. intros x Hx. unfold SortedMap.ltk in *.
  apply (lt_trans O) with (fst a); auto.
Qed.

Lemma sorted_app l1 x l2 :
  sorted l1 -> sorted l2 -> Forall (fun a => ltk a x) l1 -> Forall (ltk x) l2 -> sorted (l1 ++ x :: l2).
Proof.
  induction l1 as [|a l1 IH]; simpl; intros S1 S2 F1 F2.
  - constructor; auto.
  - inv S1. inv F1. constructor; [apply IH; auto|].
    apply Forall_app. split; auto. constructor; auto. eapply Forall_ltk_trans; eauto.
Qed.

Lemma sorted_app2 l1 l2 :
  sorted l1 -> sorted l2 -> (forall a b, In a l1 -> In b l2 -> ltk a b) -> sorted (l1 ++ l2).
Proof.
  induction l1 as [|a l1 IH]; simpl; intros S1 S2 H; auto.
  inv S1. constructor; [apply IH; auto|]. apply Forall_app. split; auto.
  apply Forall_forall. intros b Hb. apply H; auto.
Qed.

Lemma sorted_app2_inv l1 l2 :
  sorted (l1 ++ l2) -> sorted l1 /\ sorted l2 /\ (forall a b, In a l1 -> In b l2 -> ltk a b).
Proof.
  induction l1 as [|a l1 IH]; simpl; intros H.
  - repeat split; auto. constructor. intros ? ? [].
  - inv H. destruct (IH H2) as (S1 & S2 & H12). rewrite Forall_app in H3. destruct H3 as [F1 F2].
    repeat split; auto. constructor; auto.
    intros x b [->|Hx] Hb; auto. rewrite Forall_forall in F2. auto.
Qed.

(* ---------- put ---------- *)
Lemma sm_put_left k v l1 k' v' l2 :
  cmp k k' < 0 -> sm_put k v (l1 ++ (k', v') :: l2) = sm_put k v l1 ++ (k', v') :: l2.
Proof.
  intros Hlt. induction l1 as [|[a b] l1 IH]; simpl.
  - destruct (cmp k k' =? 0) eqn:E1; [lia|]. destruct (cmp k k' <? 0) eqn:E2; [reflexivity|lia].
  - destruct (cmp k a =? 0); [reflexivity|]. destruct (cmp k a <? 0); [reflexivity|]. now rewrite IH.
Qed.

Lemma sm_put_right k v l1 k' v' l2 :
  cmp k k' > 0 -> Forall (fun a => ltk a (k', v')) l1 ->
  sm_put k v (l1 ++ (k', v') :: l2) = l1 ++ (k', v') :: sm_put k v l2.
Proof.
  intros Hgt HF. induction l1 as [|[a b] l1 IH]; simpl.
  - destruct (cmp k k' =? 0) eqn:E1; [lia|]. destruct (cmp k k' <? 0) eqn:E2; [lia|reflexivity].
  - inv HF. unfold SortedMap.ltk in H1; simpl in H1.
    assert (cmp a k < 0) by (apply (lt_trans O) with k'; auto; apply (cmp_antisym_lt cmp O); lia).
    apply (cmp_antisym_lt cmp O) in H.
    destruct (cmp k a =? 0) eqn:E1; [lia|]. destruct (cmp k a <? 0) eqn:E2; [lia|]. now rewrite IH.
Qed.

Lemma sm_put_here k v l1 k' v' l2 :
  cmp k k' = 0 -> Forall (fun a => ltk a (k', v')) l1 ->
  sm_put k v (l1 ++ (k', v') :: l2) = l1 ++ (k, v) :: l2.
Proof.
  intros Heq HF. induction l1 as [|[a b] l1 IH]; simpl.
  - destruct (cmp k k' =? 0) eqn:E1; [reflexivity|lia].
  - inv HF. unfold SortedMap.ltk in H1; simpl in H1.
    assert (cmp a k < 0) by (apply (lt_le_trans O) with k'; auto; apply (cmp_antisym_eq cmp O) in Heq; lia).
    apply (cmp_antisym_lt cmp O) in H.
    destruct (cmp k a =? 0) eqn:E1; [lia|]. destruct (cmp k a <? 0) eqn:E2; [lia|]. now rewrite IH.
Qed.

(* put beyond the last element *)
Lemma sm_put_last k v l : Forall (fun a => ltk a (k, v)) l -> sm_put k v l = l ++ [(k, v)].
Proof.
  induction l as [|[a b] l IH]; simpl; intros HF; [reflexivity|].
  inv HF. unfold SortedMap.ltk in H1; simpl in H1. apply (cmp_antisym_lt cmp O) in H1.
  destruct (cmp k a =? 0) eqn:E1; [lia|]. destruct (cmp k a <? 0) eqn:E2; [lia|]. now rewrite IH.
Qed.

Lemma sm_put_Forall (P : K * V -> Prop) k v m : Forall P m -> P (k, v) -> Forall P (sm_put k v m).
Proof.
  induction m as [|[k' v'] m IH]; simpl; intros HF HP; [constructor; auto|].
  inv HF. destruct (cmp k k' =? 0); [constructor; auto|].
  destruct (cmp k k' <? 0); constructor; auto.
Qed.

Lemma sm_put_sorted k v m : sorted m -> sorted (sm_put k v m).
Proof.
  induction m as [|[k' v'] m IH]; simpl; intros HS.
  - repeat constructor.
  - inv HS. destruct (cmp k k' =? 0) eqn:E1.
    + constructor; auto. rewrite Forall_forall in *. intros x Hx. specialize (H2 x Hx).
      unfold SortedMap.ltk in *. simpl in *. apply (le_lt_trans O) with k'; auto. lia.
    + destruct (cmp k k' <? 0) eqn:E2.
      * constructor; [constructor; auto|]. constructor; [unfold SortedMap.ltk; simpl; lia|].
        apply Forall_ltk_trans with (k', v'); auto. unfold SortedMap.ltk; simpl; lia.
      * constructor; [apply IH; auto|]. apply sm_put_Forall; auto.
        unfold SortedMap.ltk; simpl. apply (cmp_antisym_lt cmp O). lia.
Qed.

(* ---------- remove ---------- *)
Lemma sm_remove_left x l1 k' v' l2 :
  cmp x k' < 0 -> sm_remove x (l1 ++ (k', v') :: l2) = sm_remove x l1 ++ (k', v') :: l2.
Proof.
  intros Hlt. induction l1 as [|[a b] l1 IH]; simpl.
  - destruct (cmp x k' <? 0) eqn:E1; [reflexivity|lia].
  - destruct (cmp x a <? 0); [reflexivity|]. destruct (cmp x a >? 0); [now rewrite IH|reflexivity].
Qed.

Lemma sm_remove_right x l1 k' v' l2 :
  cmp x k' > 0 -> Forall (fun a => ltk a (k', v')) l1 ->
  sm_remove x (l1 ++ (k', v') :: l2) = l1 ++ (k', v') :: sm_remove x l2.
Proof.
  intros Hgt HF. induction l1 as [|[a b] l1 IH]; simpl.
  - destruct (cmp x k' <? 0) eqn:E1; [lia|]. destruct (cmp x k' >? 0) eqn:E2; [reflexivity|lia].
  - inv HF. unfold SortedMap.ltk in H1; simpl in H1.
    assert (cmp a x < 0) by (apply (lt_trans O) with k'; auto; apply (cmp_antisym_lt cmp O); lia).
    apply (cmp_antisym_lt cmp O) in H.
    destruct (cmp x a <? 0) eqn:E1; [lia|]. destruct (cmp x a >? 0) eqn:E2; [|lia]. now rewrite IH.
Qed.

Lemma sm_remove_here x l1 k' v' l2 :
  cmp x k' = 0 -> Forall (fun a => ltk a (k', v')) l1 ->
  sm_remove x (l1 ++ (k', v') :: l2) = l1 ++ l2.
Proof.
  intros Heq HF. induction l1 as [|[a b] l1 IH]; simpl.
  - destruct (cmp x k' <? 0) eqn:E1; [lia|]. destruct (cmp x k' >? 0) eqn:E2; [lia|reflexivity].
  - inv HF. unfold SortedMap.ltk in H1; simpl in H1.
    assert (cmp a x < 0) by (apply (lt_le_trans O) with k'; auto; apply (cmp_antisym_eq cmp O) in Heq; lia).
    apply (cmp_antisym_lt cmp O) in H.
    destruct (cmp x a <? 0) eqn:E1; [lia|]. destruct (cmp x a >? 0) eqn:E2; [|lia]. now rewrite IH.
Qed.

Lemma sm_remove_Forall (P : K * V -> Prop) k m : Forall P m -> Forall P (sm_remove k m).
Proof.
  induction m as [|[k' v'] m IH]; simpl; intros HF; [constructor|].
  inv HF. destruct (cmp k k' <? 0); [constructor; auto|].
  destruct (cmp k k' >? 0); [constructor; auto|auto].
Qed.

Lemma sm_remove_sorted k m : sorted m -> sorted (sm_remove k m).
Proof.
  induction m as [|[k' v'] m IH]; simpl; intros HS; [constructor|].
  inv HS. destruct (cmp k k' <? 0); [constructor; auto|].
  destruct (cmp k k' >? 0); [|auto].
  constructor; [apply IH; auto|]. now apply sm_remove_Forall.
Qed.

(* ---------- get ---------- *)
Lemma sm_get_left x l1 k' v' l2 : cmp x k' < 0 -> sm_get x (l1 ++ (k', v') :: l2) = sm_get x l1.
Proof.
  intros Hlt. induction l1 as [|[a b] l1 IH]; simpl.
  - destruct (cmp x k' =? 0) eqn:E1; [lia|]. destruct (cmp x k' <? 0) eqn:E2; [reflexivity|lia].
  - destruct (cmp x a =? 0); [reflexivity|]. destruct (cmp x a <? 0); [reflexivity|]. exact IH.
Qed.

Lemma sm_get_right x l1 k' v' l2 :
  cmp x k' >= 0 -> Forall (fun a => ltk a (k', v')) l1 ->
  sm_get x (l1 ++ (k', v') :: l2) = sm_get x ((k', v') :: l2).
Proof.
  intros Hge HF. induction l1 as [|[a b] l1 IH]; [reflexivity|].
  inv HF. unfold SortedMap.ltk in H1; simpl in H1.
  assert (cmp a x < 0).
  { apply (lt_le_trans O) with k'; auto. apply (ge_le O). exact Hge. }
  apply (cmp_antisym_lt cmp O) in H. cbn [app SortedMap.sm_get].
  destruct (cmp x a =? 0) eqn:E1; [lia|]. destruct (cmp x a <? 0) eqn:E2; [lia|]. now apply IH.
Qed.

(* nothing below/above the whole list is found *)
Lemma sm_get_all_gt x l : Forall (fun a => cmp x (fst a) < 0) l -> sm_get x l = None.
Proof.
  destruct l as [|[a b] l]; simpl; intros HF; [reflexivity|]. inv HF. simpl in *.
  destruct (cmp x a =? 0) eqn:E1; [lia|]. destruct (cmp x a <? 0) eqn:E2; [reflexivity|lia].
Qed.
Lemma sm_get_all_lt x l : Forall (fun a => cmp x (fst a) > 0) l -> sm_get x l = None.
Proof.
  induction l as [|[a b] l IH]; simpl; intros HF; [reflexivity|]. inv HF. simpl in *.
  destruct (cmp x a =? 0) eqn:E1; [lia|]. destruct (cmp x a <? 0) eqn:E2; [lia|auto].
Qed.

(* ---------- sizes ---------- *)
Lemma sm_put_length k v m :
  length (sm_put k v m) = match sm_get k m with Some _ => length m | None => S (length m) end.
Proof.
  induction m as [|[k' v'] m IH]; simpl; [reflexivity|].
  destruct (cmp k k' =? 0); [reflexivity|]. destruct (cmp k k' <? 0); [reflexivity|].
  simpl. rewrite IH. destruct (sm_get k m); reflexivity.
Qed.

Lemma sm_remove_length k m :
  length (sm_remove k m) = match sm_get k m with Some _ => pred (length m) | None => length m end.
Proof.
  induction m as [|[k' v'] m IH]; simpl; [reflexivity|].
  destruct (cmp k k' =? 0) eqn:E0.
  - destruct (cmp k k' <? 0) eqn:E1; [lia|]. destruct (cmp k k' >? 0) eqn:E2; [lia|reflexivity].
  - destruct (cmp k k' <? 0) eqn:E1; [reflexivity|]. destruct (cmp k k' >? 0) eqn:E2; [|lia].
    simpl. rewrite IH. destruct (sm_get k m) eqn:G; [|reflexivity].
    destruct m; [discriminate|reflexivity].
Qed.

(* removing an absent key changes nothing; re-putting a present key changes only that binding *)
Lemma sm_remove_absent k m : sm_get k m = None -> sm_remove k m = m.
Proof.
  induction m as [|[k' v'] m IH]; simpl; intros H; [reflexivity|].
  destruct (cmp k k' =? 0) eqn:E0; [discriminate|].
  destruct (cmp k k' <? 0) eqn:E1; [reflexivity|]. destruct (cmp k k' >? 0) eqn:E2; [|lia].
  now rewrite IH.
Qed.


(* ---------- floor / ceiling / min / max over a split list ---------- *)
Lemma sm_floor_left x l1 k' v' l2 :
  cmp x k' < 0 -> sm_floor x (l1 ++ (k', v') :: l2) = sm_floor x l1.
Proof.
  intros Hlt. induction l1 as [|[a b] l1 IH]; simpl.
  - destruct (cmp x k' <? 0) eqn:E; [reflexivity|lia].
  - destruct (cmp x a <? 0); [reflexivity|]. now rewrite IH.
Qed.

Lemma sm_floor_right x l1 k' v' l2 :
  cmp x k' >= 0 -> Forall (fun a => ltk a (k', v')) l1 ->
  sm_floor x (l1 ++ (k', v') :: l2) = sm_floor x ((k', v') :: l2).
Proof.
  intros Hge HF. induction l1 as [|[a b] l1 IH]; [reflexivity|].
  inv HF. unfold SortedMap.ltk in H1; simpl in H1.
  assert (cmp a x < 0) by (apply (lt_le_trans O) with k'; auto; apply (ge_le O); exact Hge).
  apply (cmp_antisym_lt cmp O) in H. cbn [app SortedMap.sm_floor].
  destruct (cmp x a <? 0) eqn:E; [lia|]. rewrite (IH H2).
  cbn [SortedMap.sm_floor]. destruct (cmp x k' <? 0) eqn:E2; [lia|].
  destruct (sm_floor x l2); reflexivity.
Qed.

Lemma sm_floor_here x k' v' l2 :
  cmp x k' = 0 -> Forall (ltk (k', v')) l2 -> sm_floor x ((k', v') :: l2) = Some (k', v').
Proof.
  intros Heq HF. cbn [SortedMap.sm_floor]. destruct (cmp x k' <? 0) eqn:E; [lia|].
  destruct l2 as [|[a b] l2]; [reflexivity|]. inv HF. unfold SortedMap.ltk in H1; simpl in H1.
  cbn [SortedMap.sm_floor].
  assert (cmp x a < 0) by (apply (le_lt_trans O) with k'; auto; lia).
  destruct (cmp x a <? 0) eqn:E2; [reflexivity|lia].
Qed.

Lemma sm_ceiling_left x l1 k' v' l2 :
  cmp x k' <= 0 -> sm_ceiling x (l1 ++ (k', v') :: l2) =
  match sm_ceiling x l1 with Some e => Some e | None => Some (k', v') end.
Proof.
  intros Hle. induction l1 as [|[a b] l1 IH]; simpl.
  - destruct (cmp x k' >? 0) eqn:E; [lia|reflexivity].
  - destruct (cmp x a >? 0); [exact IH|reflexivity].
Qed.

Lemma sm_ceiling_right x l1 k' v' l2 :
  cmp x k' > 0 -> Forall (fun a => ltk a (k', v')) l1 ->
  sm_ceiling x (l1 ++ (k', v') :: l2) = sm_ceiling x l2.
Proof.
  intros Hgt HF. induction l1 as [|[a b] l1 IH]; simpl.
  - destruct (cmp x k' >? 0) eqn:E; [reflexivity|lia].
  - inv HF. unfold SortedMap.ltk in H1; simpl in H1.
    assert (cmp a x < 0) by (apply (lt_trans O) with k'; auto; apply (cmp_antisym_lt cmp O); lia).
    apply (cmp_antisym_lt cmp O) in H.
    destruct (cmp x a >? 0) eqn:E; [auto|lia].
Qed.

Lemma sm_ceiling_all_lt x l : Forall (fun a => ltk a (x, snd a)) l -> sm_ceiling x l = None.
Proof.
  induction l as [|[a b] l IH]; simpl; intros HF; [reflexivity|]. inv HF.
  unfold SortedMap.ltk in H1; simpl in H1. apply (cmp_antisym_lt cmp O) in H1.
  destruct (cmp x a >? 0) eqn:E; [auto|lia].
Qed.

Lemma sm_min_app l1 e l2 :
  sm_min K V (l1 ++ e :: l2) = match sm_min K V l1 with Some e' => Some e' | None => Some e end.
Proof. destruct l1; reflexivity. Qed.

Lemma sm_max_app l1 e l2 :
  sm_max K V (l1 ++ e :: l2) = match sm_max K V l2 with Some e' => Some e' | None => Some e end.
Proof.
  unfold sm_max. rewrite rev_app_distr. simpl. rewrite <- app_assoc. simpl.
  destruct (rev l2); reflexivity.
Qed.

(* ---------- boolean twin of sortedness ---------- *)
Lemma sorted_b_ok m : sorted_b K V cmp m = true <-> sorted m.
Proof.
  induction m as [|[k v] m IH]; simpl.
  - split; [constructor|reflexivity].
  - destruct m as [|[k' v'] m'].
    + split; [repeat constructor|reflexivity].
    + rewrite andb_true_iff, IH. split.
      * intros [H1 H2]. apply Z.ltb_lt in H1. constructor; auto. inv H2.
        constructor; [exact H1|]. eapply Forall_ltk_trans; eauto. exact H1.
      * intros H. inv H. split; auto. inv H3. apply Z.ltb_lt. exact H1.
Qed.

(* ---------- each key is bound to the last value put; other bindings are untouched ---------- *)
Lemma cmp_sign_eq_r x a b : cmp a b = 0 ->
  (cmp x a < 0 <-> cmp x b < 0) /\ (cmp x a = 0 <-> cmp x b = 0) /\ (cmp x a > 0 <-> cmp x b > 0).
Proof.
  intros E. assert (E' : cmp b a = 0) by (apply (cmp_antisym_eq cmp O); exact E).
  assert (L1 : cmp x a < 0 -> cmp x b < 0) by (intros; eapply (eq_lt_r O); eauto).
  assert (L2 : cmp x b < 0 -> cmp x a < 0) by (intros; eapply (eq_lt_r O); eauto).
  assert (G1 : cmp x a > 0 -> cmp x b > 0).
  { intros H. apply (gt_lt O) in H. apply (gt_lt O). eapply (eq_lt_l O); eauto. }
  assert (G2 : cmp x b > 0 -> cmp x a > 0).
  { intros H. apply (gt_lt O) in H. apply (gt_lt O). eapply (eq_lt_l O); eauto. }
  lia.
Qed.

Theorem sm_get_put x k v m :
  sm_get x (sm_put k v m) = if cmp x k =? 0 then Some v else sm_get x m.
Proof.
  induction m as [|[k' v'] m IH]; simpl.
  - destruct (cmp x k =? 0); [reflexivity|]. destruct (cmp x k <? 0); reflexivity.
  - destruct (cmp k k' =? 0) eqn:E0.
    + apply Z.eqb_eq in E0. destruct (cmp_sign_eq_r x k k' E0) as (A1 & A2 & A3). simpl.
      destruct (cmp x k =? 0) eqn:X0; [reflexivity|].
      destruct (cmp x k' =? 0) eqn:Y0; [lia|].
      destruct (cmp x k <? 0) eqn:X1; destruct (cmp x k' <? 0) eqn:Y1; try reflexivity; lia.
    + destruct (cmp k k' <? 0) eqn:E1.
      * simpl. destruct (cmp x k =? 0) eqn:X0; [reflexivity|].
        destruct (cmp x k <? 0) eqn:X1; [|reflexivity].
        assert (cmp x k' < 0) by (apply (lt_trans O) with k; lia).
        destruct (cmp x k' =? 0) eqn:Y0; [lia|]. destruct (cmp x k' <? 0) eqn:Y1; [reflexivity|lia].
      * assert (Hk : cmp k' k < 0) by (apply (gt_lt O); lia). simpl.
        destruct (cmp x k' =? 0) eqn:Y0.
        { apply Z.eqb_eq in Y0. assert (cmp x k < 0) by (apply (le_lt_trans O) with k'; lia).
          destruct (cmp x k =? 0) eqn:X0; [lia|reflexivity]. }
        destruct (cmp x k' <? 0) eqn:Y1.
        { assert (cmp x k < 0) by (apply (lt_trans O) with k'; lia).
          destruct (cmp x k =? 0) eqn:X0; [lia|reflexivity]. }
        exact IH.
Qed.

Theorem sm_get_remove x k m : sorted m ->
  sm_get x (sm_remove k m) = if cmp x k =? 0 then None else sm_get x m.
Proof.
  induction m as [|[k' v'] m IH]; simpl; intros HS.
  - destruct (cmp x k =? 0); reflexivity.
  - inv HS. destruct (cmp k k' <? 0) eqn:E1.
    + simpl. destruct (cmp x k =? 0) eqn:X0; [|reflexivity].
      apply Z.eqb_eq in X0. assert (cmp x k' < 0) by (apply (le_lt_trans O) with k; lia).
      destruct (cmp x k' =? 0) eqn:Y0; [lia|]. destruct (cmp x k' <? 0) eqn:Y1; [reflexivity|lia].
    + destruct (cmp k k' >? 0) eqn:E2.
      * assert (Hk : cmp k' k < 0) by (apply (gt_lt O); lia). simpl.
        destruct (cmp x k' =? 0) eqn:Y0.
        { apply Z.eqb_eq in Y0. assert (cmp x k < 0) by (apply (le_lt_trans O) with k'; lia).
          destruct (cmp x k =? 0) eqn:X0; [lia|reflexivity]. }
        destruct (cmp x k' <? 0) eqn:Y1.
        { assert (cmp x k < 0) by (apply (lt_trans O) with k'; lia).
          destruct (cmp x k =? 0) eqn:X0; [lia|reflexivity]. }
        apply IH; auto.
      * assert (E0 : cmp k k' = 0) by lia.
        destruct (cmp_sign_eq_r x k k' E0) as (A1 & A2 & A3).
        destruct (cmp x k =? 0) eqn:X0.
        { (* everything left is above k' ~ k ~ x *)
          apply sm_get_all_gt. rewrite Forall_forall in *. intros a Ha. specialize (H2 a Ha).
          unfold SortedMap.ltk in H2; simpl in H2. apply (le_lt_trans O) with k'; auto. lia. }
        destruct (cmp x k' =? 0) eqn:Y0; [lia|].
        destruct (cmp x k' <? 0) eqn:Y1; [|reflexivity].
        apply sm_get_all_gt. rewrite Forall_forall in *. intros a Ha. specialize (H2 a Ha).
        unfold SortedMap.ltk in H2; simpl in H2. apply (lt_trans O) with k'; auto. lia.
Qed.

(* re-putting a present key changes neither the number of keys nor any other binding *)
Theorem sm_reput_present k v w m : sm_get k m = Some w ->
  length (sm_put k v m) = length m /\ forall x, cmp x k <> 0 -> sm_get x (sm_put k v m) = sm_get x m.
Proof.
  intros H. split; [rewrite sm_put_length, H; reflexivity|].
  intros x Hx. rewrite sm_get_put. destruct (cmp x k =? 0) eqn:E; [lia|reflexivity].
Qed.

(* the reference map stays strictly ascending (hence keys unique) under every operation list *)
Lemma sm_step_sorted zeroV m o : sorted m -> sorted (fst (sm_step K V cmp zeroV m o)).
Proof.
  intros HS. destruct o; simpl; auto.
  - now apply sm_put_sorted.
  - now apply sm_remove_sorted.
  - constructor.
Qed.

Theorem sm_run_sorted zeroV ops : sorted (fst (run (sm_step K V cmp zeroV) [] ops)).
Proof. apply run_invariant; [intros; now apply sm_step_sorted|constructor]. Qed.

Lemma sorted_nil : sorted [].
Proof. constructor. Qed.
End SpecProofs.
