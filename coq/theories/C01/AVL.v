(* Model of structure/trees/avltree/avltree.go: the same recursion as the Go code ([bool] = "height
   changed, fix the parent"), stored balance factor b, direction c in {-1, +1} with child index
   a = (c+1)/2 (validated against the real code: notes/prototypes/avl_functional_mirror.py, and on
   every run by C02). Model file: no proofs. *)
From VF Require Import Common.Base C01.SortedMap C01.BinTree.
Local Open Scope Z_scope.

Inductive dir := Lft | Rgt.          (* c = -1 / +1 ; child index a = 0 / 1 *)

Section AVL.
Variables K V : Type.
Variable cmp : K -> K -> Z.
Variable zeroV : V.

Definition tree := BinTree.tree K V Z.      (* annotation = Node.b *)

Definition sg (d : dir) : Z := match d with Lft => -1 | Rgt => 1 end.
Definition opp (d : dir) := match d with Lft => Rgt | Rgt => Lft end.

Definition ch (d : dir) (t : tree) : tree :=
  match t with E => E | T _ l _ _ r => match d with Lft => l | Rgt => r end end.
Definition setch (d : dir) (t x : tree) : tree :=
  match t with E => E | T b l k v r => match d with Lft => T b x k v r | Rgt => T b l k v x end end.
Definition bal (t : tree) : Z := match t with E => 0 | T b _ _ _ _ => b end.
Definition setb (t : tree) (b : Z) : tree := match t with E => E | T _ l k v r => T b l k v r end.

Definition rotate (c : dir) (s : tree) : tree :=
  let r := ch c s in
  let s2 := setch c s (ch (opp c) r) in
  setch (opp c) r s2.

Definition singlerot (c : dir) (s : tree) : tree := setb (rotate c (setb s 0)) 0.

Definition doublerot (c : dir) (s : tree) : tree :=
  let r := ch c s in
  let s1 := setch c s (rotate (opp c) r) in
  let p := rotate c s1 in
  let pb := bal p in
  let '(sb, rb) := if pb =? sg c then (- sg c, 0) else if pb =? - sg c then (0, sg c) else (0, 0) in
  let olds := setb (ch (opp c) p) sb in
  let oldr := setb (ch c p) rb in
  setb (setch c (setch (opp c) p olds) oldr) 0.

Definition putFix (c : dir) (s : tree) : tree * bool :=
  if bal s =? 0 then (setb s (sg c), true)
  else if bal s =? - sg c then (setb s 0, false)
  else if bal (ch c s) =? sg c then (singlerot c s, false)
  else (doublerot c s, false).

Definition removeFix (c : dir) (s : tree) : tree * bool :=
  if bal s =? 0 then (setb s (sg c), false)
  else if bal s =? - sg c then (setb s 0, true)
  else if bal (ch c s) =? 0 then (setb (rotate c s) (- sg c), false)
  else if bal (ch c s) =? sg c then (singlerot c s, true)
  else (doublerot c s, true).

Fixpoint put (k : K) (v : V) (q : tree) : tree * bool :=
  match q with
  | E => (T 0 E k v E, true)
  | T b l k' v' r =>
    let d := cmp k k' in
    if d =? 0 then (T b l k v r, false)
    else if d <? 0 then
      let '(l', fix_) := put k v l in
      if fix_ then putFix Lft (T b l' k' v' r) else (T b l' k' v' r, false)
    else
      let '(r', fix_) := put k v r in
      if fix_ then putFix Rgt (T b l k' v' r') else (T b l k' v' r', false)
  end.

Fixpoint removeMin (q : tree) : tree * option (K * V) * bool :=
  match q with
  | E => (E, None, false)
  | T b l k v r =>
    match l with
    | E => (r, Some (k, v), true)
    | _ => let '(l', mk, fix_) := removeMin l in
           if fix_ then let '(q', f) := removeFix Rgt (T b l' k v r) in (q', mk, f)
           else (T b l' k v r, mk, false)
    end
  end.

(* on a hit with a right subtree the in-order successor's key and value replace the node's *)
Fixpoint remove (x : K) (q : tree) : tree * bool :=
  match q with
  | E => (E, false)
  | T b l k v r =>
    let d := cmp x k in
    if d =? 0 then
      match r with
      | E => (l, true)
      | _ => let '(r', mk, fix_) := removeMin r in
             match mk with
             | Some (mk', mv') =>
               if fix_ then removeFix Lft (T b l mk' mv' r') else (T b l mk' mv' r', false)
             | None => (q, false)
             end
      end
    else if d <? 0 then
      let '(l', fix_) := remove x l in
      if fix_ then removeFix Rgt (T b l' k v r) else (T b l' k v r, false)
    else
      let '(r', fix_) := remove x r in
      if fix_ then removeFix Lft (T b l k v r') else (T b l k v r', false)
  end.

(* ---------- the container: root + cached size (size++ where the descent reaches nil,
   size-- where it hits the key) ---------- *)
Record state := mkState { root : tree; size : Z }.
Definition empty : state := {| root := E; size := 0 |}.

Definition is_some {X} (o : option X) : bool := match o with Some _ => true | None => false end.

Definition step (s : state) (o : op K V) : state * out K V :=
  match o with
  | Put k v => ({| root := fst (put k v (root s));
                   size := if is_some (lookup cmp k (root s)) then size s else size s + 1 |}, ONone)
  | Remove k => ({| root := fst (remove k (root s));
                    size := if is_some (lookup cmp k (root s)) then size s - 1 else size s |}, ONone)
  | Clear => (empty, ONone)
  | Get k => (s, match lookup cmp k (root s) with Some v => OGet v true | None => OGet zeroV false end)
  | Size => (s, OSize (size s))
  | Empty => (s, OBool (size s =? 0))
  | Keys => (s, OKeys (map fst (elements (root s))))
  | Values => (s, OVals (map snd (elements (root s))))
  | Left => (s, OEntry (leftmost (root s) None))
  | Right => (s, OEntry (rightmost (root s) None))
  | Floor k => (s, OEntry (floor_go cmp k (root s) None))
  | Ceiling k => (s, OEntry (ceiling_go cmp k (root s) None))
  end.
End AVL.

Arguments root {K V}. Arguments size {K V}. Arguments mkState {K V}.
