(* C01: treemap, treeset and treebidimap (all backed by the red-black tree) refine their reference
   specifications call by call. *)
From VF Require Import Common.Base C01.Order C01.SortedMap C01.SpecProofs C01.BinTree C01.BinTreeProofs
  C01.RB C01.RBProofs C01.Containers.
Local Open Scope Z_scope.

(* ---------------- treemap ---------------- *)
Section TreeMapRefine.
Context {K V : Type} {cmp : K -> K -> Z} (O : CmpLaws cmp).
Variables (zeroK : K) (zeroV : V).

Theorem tmap_step_refines s l o : Rrb (cmp := cmp) s l ->
  Rrb (cmp := cmp) (fst (treemap_step K V cmp zeroK zeroV s o)) (fst (smx_step K V cmp zeroV zeroK l o)) /\
  snd (treemap_step K V cmp zeroK zeroV s o) = snd (smx_step K V cmp zeroV zeroK l o).
Proof.
  intros HR. destruct (rb_step_refines O zeroV s l o HR) as [HR' Ho].
  unfold treemap_step, smx_step.
  destruct (RB.step K V cmp zeroV s o) as [s' r]. destruct (sm_step K V cmp zeroV l o) as [l' r'].
  simpl in *. split; auto. congruence.
Qed.

Theorem tmap_run_refines ops :
  snd (run (treemap_step K V cmp zeroK zeroV) (RB.empty K V) ops) =
  snd (run (smx_step K V cmp zeroV zeroK) [] ops).
Proof.
  refine (proj2 (run_refines _ _ (Rrb (cmp := cmp)) (fun _ => True) _ ops (RB.empty K V) [] _ (Rrb_empty (cmp := cmp)))).
  - intros s1 s2 o _ HR. now apply tmap_step_refines.
  - apply Forall_forall. auto.
Qed.
End TreeMapRefine.

(* ---------------- treeset ---------------- *)
Section TreeSetRefine.
Context {K : Type} {cmp : K -> K -> Z} (O : CmpLaws cmp).
Notation R := (Rrb (K := K) (V := unit) (cmp := cmp)).

Lemma ts_put_refines s l k : R s l -> R (ts_put K cmp s k) (sm_put K unit cmp k tt l).
Proof. intros HR. exact (proj1 (rb_step_refines O tt s l (Put k tt) HR)). Qed.
Lemma ts_remove_refines s l k : R s l -> R (ts_remove K cmp s k) (sm_remove K unit cmp k l).
Proof. intros HR. exact (proj1 (rb_step_refines O tt s l (Remove k) HR)). Qed.

Lemma fold_put_refines ks : forall s l, R s l ->
  R (fold_left (ts_put K cmp) ks s) (fold_left (fun m k => sm_put K unit cmp k tt m) ks l).
Proof. induction ks as [|k ks IH]; intros s l HR; simpl; auto. apply IH. now apply ts_put_refines. Qed.
Lemma fold_remove_refines ks : forall s l, R s l ->
  R (fold_left (ts_remove K cmp) ks s) (fold_left (fun m k => sm_remove K unit cmp k m) ks l).
Proof. induction ks as [|k ks IH]; intros s l HR; simpl; auto. apply IH. now apply ts_remove_refines. Qed.

Theorem tset_step_refines s l o : R s l ->
  R (fst (treeset_step K cmp s o)) (fst (sset_step K cmp l o)) /\
  snd (treeset_step K cmp s o) = snd (sset_step K cmp l o).
Proof.
  intros HR. destruct o; cbn [treeset_step sset_step fst snd].
  - split; [now apply fold_put_refines|reflexivity].
  - split; [now apply fold_remove_refines|reflexivity].
  - split; auto. destruct HR as (HS & He & Hsz). subst l. f_equal.
    induction ks as [|k ks IH]; simpl; [reflexivity|]. rewrite IH.
    unfold RB.is_some. now rewrite (lookup_elements O _ _ HS).
  - split; auto. destruct HR as (HS & He & Hsz). now rewrite Hsz.
  - split; auto. destruct HR as (HS & He & Hsz). rewrite Hsz. destruct l; reflexivity.
  - split; [apply (Rrb_empty (cmp := cmp))|reflexivity].
  - split; auto. destruct HR as (HS & He & Hsz). now rewrite He.
Qed.

Theorem tset_run_refines ops :
  snd (run (treeset_step K cmp) (RB.empty K unit) ops) = snd (run (sset_step K cmp) [] ops).
Proof.
  refine (proj2 (run_refines _ _ R (fun _ => True) _ ops (RB.empty K unit) [] _ (Rrb_empty (cmp := cmp)))).
  - intros s1 s2 o _ HR. now apply tset_step_refines.
  - apply Forall_forall. auto.
Qed.
End TreeSetRefine.

(* ---------------- treebidimap ---------------- *)
Section BidiRefine.
Context {K V : Type} {cmpK : K -> K -> Z} {cmpV : V -> V -> Z} (OK : CmpLaws cmpK) (OV : CmpLaws cmpV).
Variables (zeroK : K) (zeroV : V).

Definition Rbd (s : tb_state K V) (b : bimap K V) : Prop :=
  Rrb (cmp := cmpK) (fwd s) (fst b) /\ Rrb (cmp := cmpV) (inv s) (snd b).

Lemma fstep_refines s l o : Rrb (cmp := cmpK) s l ->
  Rrb (cmp := cmpK) (fstep K V cmpK zeroV s o) (fst (sm_step K V cmpK zeroV l o)).
Proof. intros HR. exact (proj1 (rb_step_refines OK zeroV s l o HR)). Qed.
Lemma istep_refines s l o : Rrb (cmp := cmpV) s l ->
  Rrb (cmp := cmpV) (istep K V cmpV zeroK s o) (fst (sm_step V K cmpV zeroK l o)).
Proof. intros HR. exact (proj1 (rb_step_refines OV zeroK s l o HR)). Qed.

Lemma lookup_fwd s l x : Rrb (cmp := cmpK) s l -> lookup cmpK x (RB.root s) = sm_get K V cmpK x l.
Proof. intros (HS & He & _). subst l. now apply (lookup_elements OK). Qed.
Lemma lookup_inv s l x : Rrb (cmp := cmpV) s l -> lookup cmpV x (RB.root s) = sm_get V K cmpV x l.
Proof. intros (HS & He & _). subst l. now apply (lookup_elements OV). Qed.

Lemma tb_put_refines s b k v : Rbd s b -> Rbd (tb_put K V cmpK cmpV zeroK zeroV k v s) (bij_put K V cmpK cmpV k v b).
Proof.
  destruct b as [fw bw]. intros [HF HI]. cbn [fst snd] in *. unfold tb_put, bij_put.
  rewrite (lookup_fwd _ _ _ HF).
  set (inv1 := match sm_get K V cmpK k fw with Some d => istep K V cmpV zeroK (inv s) (Remove d) | None => inv s end).
  set (bw1 := match sm_get K V cmpK k fw with Some d => sm_remove V K cmpV d bw | None => bw end).
  assert (H1 : Rrb (cmp := cmpV) inv1 bw1).
  { subst inv1 bw1. destruct (sm_get K V cmpK k fw); auto. apply (istep_refines _ _ (Remove v0) HI). }
  rewrite (lookup_inv _ _ _ H1).
  set (fwd1 := match sm_get V K cmpV v bw1 with Some d => fstep K V cmpK zeroV (fwd s) (Remove d) | None => fwd s end).
  set (fw1 := match sm_get V K cmpV v bw1 with Some d => sm_remove K V cmpK d fw | None => fw end).
  assert (H2 : Rrb (cmp := cmpK) fwd1 fw1).
  { subst fwd1 fw1. destruct (sm_get V K cmpV v bw1); auto. apply (fstep_refines _ _ (Remove k0) HF). }
  split; cbn [fwd inv fst snd].
  - apply (fstep_refines _ _ (Put k v) H2).
  - apply (istep_refines _ _ (Put v k) H1).
Qed.

Lemma tb_remove_refines s b k : Rbd s b -> Rbd (tb_remove K V cmpK cmpV zeroK zeroV k s) (bij_remove K V cmpK cmpV k b).
Proof.
  destruct b as [fw bw]. intros [HF HI]. cbn [fst snd] in *. unfold tb_remove, bij_remove.
  rewrite (lookup_fwd _ _ _ HF). destruct (sm_get K V cmpK k fw) as [d|]; [|split; auto].
  split; cbn [fwd inv fst snd].
  - apply (fstep_refines _ _ (Remove k) HF).
  - apply (istep_refines _ _ (Remove d) HI).
Qed.

Theorem bidi_step_refines s b o : Rbd s b ->
  Rbd (fst (tbidi_step K V cmpK cmpV zeroK zeroV s o)) (fst (bij_step K V cmpK cmpV zeroK zeroV b o)) /\
  snd (tbidi_step K V cmpK cmpV zeroK zeroV s o) = snd (bij_step K V cmpK cmpV zeroK zeroV b o).
Proof.
  intros HR. destruct o; cbn [tbidi_step bij_step fst snd].
  - split; [now apply tb_put_refines|reflexivity].
  - split; [now apply tb_remove_refines|reflexivity].
  - split; [|reflexivity]. split; apply Rrb_empty.
  - split; auto. destruct HR as [HF HI]. now rewrite (lookup_fwd _ _ _ HF).
  - split; auto. destruct HR as [HF HI]. now rewrite (lookup_inv _ _ _ HI).
  - split; auto. destruct HR as [(_ & _ & Hsz) _]. now rewrite Hsz.
  - split; auto. destruct HR as [(_ & _ & Hsz) _]. rewrite Hsz. destruct (fst b); reflexivity.
  - split; auto. destruct HR as [(_ & He & _) _]. now rewrite He.
  - split; auto. destruct HR as [_ (_ & He & _)]. now rewrite He.
Qed.

Lemma Rbd_empty : Rbd (tb_empty K V) ([], []).
Proof. split; apply Rrb_empty. Qed.

Theorem bidi_run_refines ops :
  snd (run (tbidi_step K V cmpK cmpV zeroK zeroV) (tb_empty K V) ops) =
  snd (run (bij_step K V cmpK cmpV zeroK zeroV) ([], []) ops).
Proof.
  refine (proj2 (run_refines _ _ Rbd (fun _ => True) _ ops (tb_empty K V) ([], []) _ Rbd_empty)).
  - intros s1 s2 o _ HR. now apply bidi_step_refines.
  - apply Forall_forall. auto.
Qed.

Theorem bidi_run_related ops :
  Rbd (fst (run (tbidi_step K V cmpK cmpV zeroK zeroV) (tb_empty K V) ops))
      (fst (run (bij_step K V cmpK cmpV zeroK zeroV) ([], []) ops)).
Proof.
  refine (proj1 (run_refines _ _ Rbd (fun _ => True) _ ops (tb_empty K V) ([], []) _ Rbd_empty)).
  - intros s1 s2 o _ HR. now apply bidi_step_refines.
  - apply Forall_forall. auto.
Qed.
End BidiRefine.
