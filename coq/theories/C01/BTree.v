(* Model of structure/trees/btree/btree.go for any order m >= 3: insert returns either a node or a
   split (middle = (m-1)/2); delete returns the node and whether an entry was removed; the parent
   repairs a deficient child in the code's preference order (borrow from the left sibling, borrow from
   the right sibling, merge with the right sibling, merge with the left sibling); deleting from an
   internal node takes the largest entry of the left subtree; root collapse. Validated against the
   real code: notes/prototypes/btree_functional_mirror.py, and on every run by C02.
   Recursion over children goes through [nth_error], hence fuel (= depth + 1); [None] = fuel exhausted
   or an index out of range (where the Go code would panic). Model file: no proofs. *)
From VF Require Import Common.Base C01.SortedMap.
Local Open Scope Z_scope.

Arguments firstn : simpl never.
Arguments skipn : simpl never.

Section BT.
Variables K V : Type.
Variable cmp : K -> K -> Z.
Variable zeroV : V.
Variable m : nat.                         (* order: maximum number of children *)

Definition entry := (K * V)%type.
Inductive node := Node (es : list entry) (cs : list node).

Definition maxE : nat := (m - 1)%nat.
Definition minE : nat := ((m + 1) / 2 - 1)%nat.
Definition middle : nat := ((m - 1) / 2)%nat.

(* Tree.search: binary search inside a node, on the half-open window [lo, hi) (Go: low = lo, high = hi-1) *)
Fixpoint bsearch (fuel : nat) (k : K) (es : list entry) (lo hi : nat) : nat * bool :=
  match fuel with
  | O => (lo, false)
  | S f =>
    if (hi <=? lo)%nat then (lo, false)
    else let mid := ((lo + hi - 1) / 2)%nat in
         match nth_error es mid with
         | None => (lo, false)
         | Some (k', _) =>
           let d := cmp k k' in
           if d >? 0 then bsearch f k es (S mid) hi
           else if d <? 0 then bsearch f k es lo mid
           else (mid, true)
         end
  end.
Definition search (k : K) (es : list entry) : nat * bool := bsearch (length es) k es 0 (length es).

Definition insert_at {A} (i : nat) (x : A) (l : list A) : list A := firstn i l ++ x :: skipn i l.
Definition set_nth {A} (i : nat) (x : A) (l : list A) : list A :=
  firstn i l ++ match skipn i l with [] => [] | _ :: t => x :: t end.
Definition remove_nth {A} (i : nat) (l : list A) : list A := firstn i l ++ skipn (S i) l.
Definition replace2 {A} (i : nat) (a b : A) (l : list A) : list A := firstn i l ++ a :: b :: skipn (S (S i)) l.
Definition merge2 {A} (i : nat) (a : A) (l : list A) : list A := firstn i l ++ a :: skipn (S (S i)) l.

Inductive res := RN (n : node) | RS (l : node) (e : entry) (r : node).

(* Tree.split: a node with more than maxE entries is cut at [middle] *)
Definition split_if (es : list entry) (cs : list node) : option res :=
  if (maxE <? length es)%nat then
    match nth_error es middle with
    | Some e => Some (RS (Node (firstn middle es) (firstn (S middle) cs)) e
                         (Node (skipn (S middle) es) (skipn (S middle) cs)))
    | None => None
    end
  else Some (RN (Node es cs)).

(* Tree.insert; bool = inserted (false: key present, entry overwritten) *)
Fixpoint ins (fuel : nat) (k : K) (v : V) (t : node) : option (res * bool) :=
  match fuel with
  | O => None
  | S f =>
    let '(Node es cs) := t in
    let '(i, found) := search k es in
    if found then Some (RN (Node (set_nth i (k, v) es) cs), false)
    else match cs with
         | [] => match split_if (insert_at i (k, v) es) [] with Some r => Some (r, true) | None => None end
         | _ => match nth_error cs i with
                | None => None
                | Some c =>
                  match ins f k v c with
                  | None => None
                  | Some (RN c', b) => Some (RN (Node es (set_nth i c' cs)), b)
                  | Some (RS l e r, b) =>
                    match split_if (insert_at i e es) (firstn i cs ++ l :: r :: skipn (S i) cs) with
                    | Some r' => Some (r', b) | None => None end
                  end
                end
         end
  end.

(* Tree.rebalance seen from the parent (es, cs): child i may have one entry too few *)
Definition fix_child (es : list entry) (cs : list node) (i : nat) : option (list entry * list node) :=
  match nth_error cs i with
  | None => None
  | Some (Node ne nc) =>
    if (minE <=? length ne)%nat then Some (es, cs)
    else
      let left := match i with O => None | S j => nth_error cs j end in
      let right := nth_error cs (S i) in
      match left with
      | Some (Node le lc) =>
        if (minE <? length le)%nat then
          (* borrow from the left sibling *)
          match i, nth_error es (i - 1), rev le with
          | S j, Some sep, lastE :: _ =>
            let nc' := match rev lc with [] => nc | lastC :: _ => lastC :: nc end in
            Some (set_nth j lastE es,
                  replace2 j (Node (removelast le) (removelast lc)) (Node (sep :: ne) nc') cs)
          | _, _, _ => None
          end
        else
          match right with
          | Some (Node re rc) =>
            if (minE <? length re)%nat then
              (* borrow from the right sibling *)
              match nth_error es i, re with
              | Some sep, firstE :: re' =>
                let nc' := match rc with [] => nc | firstC :: _ => nc ++ [firstC] end in
                Some (set_nth i firstE es, replace2 i (Node (ne ++ [sep]) nc') (Node re' (tl rc)) cs)
              | _, _ => None
              end
            else
              (* merge with the right sibling *)
              match nth_error es i with
              | Some sep => Some (remove_nth i es, merge2 i (Node (ne ++ sep :: re) (nc ++ rc)) cs)
              | None => None
              end
          | None =>
            (* merge with the left sibling *)
            match i, nth_error es (i - 1) with
            | S j, Some sep => Some (remove_nth j es, merge2 j (Node (le ++ sep :: ne) (lc ++ nc)) cs)
            | _, _ => None
            end
          end
      | None =>
        match right with
        | Some (Node re rc) =>
          if (minE <? length re)%nat then
            match nth_error es i, re with
            | Some sep, firstE :: re' =>
              let nc' := match rc with [] => nc | firstC :: _ => nc ++ [firstC] end in
              Some (set_nth i firstE es, replace2 i (Node (ne ++ [sep]) nc') (Node re' (tl rc)) cs)
            | _, _ => None
            end
          else
            match nth_error es i with
            | Some sep => Some (remove_nth i es, merge2 i (Node (ne ++ sep :: re) (nc ++ rc)) cs)
            | None => None
            end
        | None => Some (es, cs)
        end
      end
  end.

(* remove and return the largest entry of the subtree (Tree.right + deleteEntry + rebalance) *)
Fixpoint del_max (fuel : nat) (t : node) : option (entry * node) :=
  match fuel with
  | O => None
  | S f =>
    let '(Node es cs) := t in
    match cs with
    | [] => match rev es with
            | [] => None
            | e :: _ => Some (e, Node (removelast es) [])
            end
    | _ =>
      let i := (length cs - 1)%nat in
      match nth_error cs i with
      | None => None
      | Some c =>
        match del_max f c with
        | None => None
        | Some (e, c') =>
          match fix_child es (set_nth i c' cs) i with
          | Some (es', cs') => Some (e, Node es' cs')
          | None => None
          end
        end
      end
    end
  end.

(* Tree.delete after searchRecursively; bool = an entry was removed *)
Fixpoint del (fuel : nat) (k : K) (t : node) : option (node * bool) :=
  match fuel with
  | O => None
  | S f =>
    let '(Node es cs) := t in
    let '(i, found) := search k es in
    match cs with
    | [] => if found then Some (Node (remove_nth i es) [], true) else Some (t, false)
    | _ =>
      match nth_error cs i with
      | None => None
      | Some c =>
        if found then
          match del_max f c with
          | None => None
          | Some (e, c') =>
            match fix_child (set_nth i e es) (set_nth i c' cs) i with
            | Some (es', cs') => Some (Node es' cs', true)
            | None => None
            end
          end
        else
          match del f k c with
          | None => None
          | Some (c', false) => Some (t, false)
          | Some (c', true) =>
            match fix_child es (set_nth i c' cs) i with
            | Some (es', cs') => Some (Node es' cs', true)
            | None => None
            end
          end
      end
    end
  end.

(* ---------- read-only walks ---------- *)
(* Node.height(): follow Children[0] *)
Fixpoint depth (t : node) : nat :=
  match t with Node _ cs => match cs with [] => O | c :: _ => S (depth c) end end.

(* in-order walk = what the iterator behind Keys()/Values() enumerates *)
Fixpoint elements (t : node) : list entry :=
  match t with
  | Node es cs =>
    (fix go (cs : list node) (es : list entry) : list entry :=
       match cs with
       | [] => es
       | c :: cs' => match es with
                     | [] => elements c
                     | e :: es' => elements c ++ e :: go cs' es'
                     end
       end) cs es
  end.

(* searchRecursively *)
Fixpoint get (fuel : nat) (k : K) (t : node) : option (option V) :=
  match fuel with
  | O => None
  | S f =>
    let '(Node es cs) := t in
    let '(i, found) := search k es in
    if found then match nth_error es i with Some (_, v) => Some (Some v) | None => None end
    else match cs with
         | [] => Some None
         | _ => match nth_error cs i with Some c => get f k c | None => None end
         end
  end.

(* Tree.left / Tree.right + Entries[0] / Entries[len-1] *)
Fixpoint leftmost (t : node) : option entry :=
  match t with Node es cs => match cs with [] => hd_error es | c :: _ => leftmost c end end.
Fixpoint rightmost (fuel : nat) (t : node) : option (option entry) :=
  match fuel with
  | O => None
  | S f => let '(Node es cs) := t in
           match cs with
           | [] => Some (hd_error (rev es))
           | _ => match nth_error cs (length cs - 1) with Some c => rightmost f c | None => None end
           end
  end.

(* ---------- the container: root + cached size; [stuck] = the model ran out of fuel or indexed out of
   range (excluded for every reachable state by theorem) ---------- *)
Record state := mkState { root : option node; size : Z; stuck : bool }.
Definition empty : state := {| root := None; size := 0; stuck := false |}.
Definition stuck_state : state := {| root := None; size := 0; stuck := true |}.

Definition put (k : K) (v : V) (s : state) : state :=
  match root s with
  | None => {| root := Some (Node [(k, v)] []); size := size s + 1; stuck := stuck s |}
  | Some r =>
    match ins (S (depth r)) k v r with
    | Some (RN r', b) => {| root := Some r'; size := if b then size s + 1 else size s; stuck := stuck s |}
    | Some (RS l e r', b) =>
      {| root := Some (Node [e] [l; r']); size := if b then size s + 1 else size s; stuck := stuck s |}
    | None => stuck_state
    end
  end.

Definition remove (k : K) (s : state) : state :=
  match root s with
  | None => s
  | Some r =>
    match del (S (depth r)) k r with
    | Some (r', true) =>
      {| root := match r' with
                 | Node [] [] => None
                 | Node [] (c :: _) => Some c          (* root lost its last entry: its child becomes the root *)
                 | _ => Some r'
                 end;
         size := size s - 1; stuck := stuck s |}
    | Some (_, false) => s
    | None => stuck_state
    end
  end.

Definition step (s : state) (o : op K V) : state * out K V :=
  if stuck s then (s, OUnsupported) else
  match o with
  | Put k v => (put k v s, ONone)
  | Remove k => (remove k s, ONone)
  | Clear => (empty, ONone)
  | Get k => match root s with
             | None => (s, OGet zeroV false)
             | Some r => match get (S (depth r)) k r with
                         | Some (Some v) => (s, OGet v true)
                         | Some None => (s, OGet zeroV false)
                         | None => (stuck_state, OUnsupported)
                         end
             end
  | Size => (s, OSize (size s))
  | Empty => (s, OBool (size s =? 0))
  | Keys => (s, OKeys (map fst (match root s with Some r => elements r | None => [] end)))
  | Values => (s, OVals (map snd (match root s with Some r => elements r | None => [] end)))
  | Left => (s, OEntry (match root s with Some r => leftmost r | None => None end))
  | Right => match root s with
             | None => (s, OEntry None)
             | Some r => match rightmost (S (depth r)) r with
                         | Some e => (s, OEntry e)
                         | None => (stuck_state, OUnsupported)
                         end
             end
  | Floor _ | Ceiling _ => (s, OUnsupported)
  end.
End BT.

Arguments Node {K V}.
Arguments root {K V}. Arguments size {K V}. Arguments stuck {K V}. Arguments mkState {K V}.
