(* C01, AVL part: put/remove of the AVL model (C01/AVL.v) refine the reference sorted map on the in-order
   sequence.

   NOTE on the premise [avl_ok]: without it the statements are false of the model. With a stored balance
   factor that lies about the heights the fix-up rotates around an empty child and [setch _ E _ = E]
   drops the tree (in Go: a nil dereference), e.g.
     AVL.put Z Z zc 1 10 (T (-1) E 2 20 E) = (E, false)
     AVL.remove Z Z zc 1 (T 1 (T 0 E 1 10 E) 2 20 E) = (E, false)
   ([avl_refine_needs_ok_put], [avl_refine_needs_ok_remove] below). Such trees are not reachable through
   the API (C02: avl_put_ok / avl_remove_ok). This is why C02.Inv / C02.AVLProofs are imported here.
   The rotation lemmas of the first part are purely structural (non-emptiness premises only). *)
From VF Require Import Common.Base C01.Order C01.SortedMap C01.SpecProofs C01.BinTree C01.AVL.
From VF Require Import C02.Inv C02.AVLProofs.
Local Open Scope Z_scope.

Section AVLRefine.
Context {K V : Type} {cmp : K -> K -> Z} (O : CmpLaws cmp).

Notation tree := (AVL.tree K V).
Notation sorted := (sorted K V cmp).
Notation ltk := (ltk K V cmp).
Notation sm_put := (sm_put K V cmp).
Notation sm_remove := (sm_remove K V cmp).
Notation zheight := (zheight K V).
Notation avl_ok := (avl_ok K V).
Notation ch := (AVL.ch K V).
Notation bal := (AVL.bal K V).
Notation setb := (AVL.setb K V).
Notation rotate := (AVL.rotate K V).
Notation singlerot := (AVL.singlerot K V).
Notation doublerot := (AVL.doublerot K V).
Notation putFix := (AVL.putFix K V).
Notation removeFix := (AVL.removeFix K V).
Notation put := (AVL.put K V cmp).
Notation removeMin := (AVL.removeMin K V).
Notation remove := (AVL.remove K V cmp).

Local Ltac norm_app := simpl; repeat (rewrite <- app_assoc; simpl); try reflexivity.
Local Ltac split_ifs :=
  repeat match goal with |- context [if ?x then _ else _] => destruct x end.

(* ---------------- the restructuring steps keep the in-order sequence ---------------- *)

Lemma setb_elements (t : tree) b : elements (setb t b) = elements t.
Proof. destruct t; reflexivity. Qed.

Lemma setb_nonE (t : tree) b : t <> E -> setb t b <> E.
Proof. destruct t; simpl; congruence. Qed.

Lemma rotate_elements c (s : tree) : ch c s <> E -> elements (rotate c s) = elements s.
Proof.
  destruct s as [|b l k v r]; [simpl; congruence|].
  destruct c; cbn [AVL.ch]; intros Hne.
  - destruct l as [|lb ll lk lv lr]; [congruence|]. unfold AVL.rotate. norm_app.
  - destruct r as [|rb rl rk rv rr]; [congruence|]. unfold AVL.rotate. norm_app.
Qed.

Lemma singlerot_elements c (s : tree) : ch c s <> E -> elements (singlerot c s) = elements s.
Proof.
  destruct s as [|b l k v r]; [simpl; congruence|].
  destruct c; cbn [AVL.ch]; intros Hne.
  - destruct l as [|lb ll lk lv lr]; [congruence|]. unfold AVL.singlerot, AVL.rotate. norm_app.
  - destruct r as [|rb rl rk rv rr]; [congruence|]. unfold AVL.singlerot, AVL.rotate. norm_app.
Qed.

Lemma doublerot_elements c (s : tree) :
  ch c s <> E -> ch (opp c) (ch c s) <> E -> elements (doublerot c s) = elements s.
Proof.
  destruct s as [|b l k v r]; [simpl; congruence|].
  destruct c; cbn [AVL.ch AVL.opp]; intros Hne Hin.
  - destruct l as [|lb ll lk lv lr]; [congruence|]. cbn [AVL.ch] in Hin.
    destruct lr as [|ab al ak av ar]; [congruence|].
    unfold AVL.doublerot, AVL.rotate. cbn [AVL.ch AVL.opp AVL.setch AVL.setb AVL.bal AVL.sg].
    split_ifs; norm_app.
  - destruct r as [|rb rl rk rv rr]; [congruence|]. cbn [AVL.ch] in Hin.
    destruct rl as [|ab al ak av ar]; [congruence|].
    unfold AVL.doublerot, AVL.rotate. cbn [AVL.ch AVL.opp AVL.setch AVL.setb AVL.bal AVL.sg].
    split_ifs; norm_app.
Qed.

(* the fix-up only dereferences children that exist *)
Definition put_safe (c : dir) (s : tree) : Prop :=
  bal s = 0 \/ bal s = - sg c \/
  (ch c s <> E /\ (bal (ch c s) = sg c \/ ch (opp c) (ch c s) <> E)).

Definition remove_safe (c : dir) (s : tree) : Prop :=
  bal s = 0 \/ bal s = - sg c \/
  (ch c s <> E /\ (bal (ch c s) = 0 \/ bal (ch c s) = sg c \/ ch (opp c) (ch c s) <> E)).

Lemma putFix_elements c (s : tree) : put_safe c s -> elements (fst (putFix c s)) = elements s.
Proof.
  intros Hs. unfold AVL.putFix.
  destruct (bal s =? 0) eqn:E0; [apply setb_elements|apply Z.eqb_neq in E0].
  destruct (bal s =? - sg c) eqn:E1; [apply setb_elements|apply Z.eqb_neq in E1].
  destruct Hs as [Hs|[Hs|[Hne Hs]]]; [congruence|congruence|].
  destruct (bal (ch c s) =? sg c) eqn:E2; [apply singlerot_elements; exact Hne|apply Z.eqb_neq in E2].
  destruct Hs as [Hs|Hs]; [congruence|]. cbn [fst]. apply doublerot_elements; assumption.
Qed.

Lemma removeFix_elements c (s : tree) : remove_safe c s -> elements (fst (removeFix c s)) = elements s.
Proof.
  intros Hs. unfold AVL.removeFix.
  destruct (bal s =? 0) eqn:E0; [apply setb_elements|apply Z.eqb_neq in E0].
  destruct (bal s =? - sg c) eqn:E1; [apply setb_elements|apply Z.eqb_neq in E1].
  destruct Hs as [Hs|[Hs|[Hne Hs]]]; [congruence|congruence|].
  destruct (bal (ch c s) =? 0) eqn:E2; [|apply Z.eqb_neq in E2].
  { cbn [fst]. rewrite setb_elements. apply rotate_elements; exact Hne. }
  destruct (bal (ch c s) =? sg c) eqn:E3; [apply singlerot_elements; exact Hne|apply Z.eqb_neq in E3].
  destruct Hs as [Hs|[Hs|Hs]]; [congruence|congruence|]. cbn [fst]. apply doublerot_elements; assumption.
Qed.

(* ---------------- the balance invariant makes the fix-up safe ---------------- *)

Local Ltac red_all :=
  cbn [Inv.zheight Inv.avl_ok AVL.bal AVL.ch AVL.setch AVL.setb AVL.opp AVL.sg Z.opp] in *.

Lemma zheight_E_iff (t : tree) : zheight t = 0 <-> t = E.
Proof.
  destruct t as [|b l k v r]; cbn [Inv.zheight]; [tauto|].
  pose proof (zheight_nonneg K V l). pose proof (zheight_nonneg K V r). split; [lia|discriminate].
Qed.

Lemma zheight_pos_nonE (t : tree) : 1 <= zheight t -> t <> E.
Proof. intros H Heq. apply zheight_E_iff in Heq. lia. Qed.

(* same premises as C02.AVLProofs.putFix_spec *)
Lemma putFix_safe c (l : tree) k v b (r : tree) :
  avl_ok l -> avl_ok r -> -1 <= b <= 1 ->
  b = (match c with Lft => zheight r - (zheight l - 1) | Rgt => (zheight r - 1) - zheight l end) ->
  (match c with
   | Lft => 1 <= zheight l /\ (2 <= zheight l -> bal l <> 0)
   | Rgt => 1 <= zheight r /\ (2 <= zheight r -> bal r <> 0) end) ->
  put_safe c (T b l k v r).
Proof.
  intros Hl Hr Hb Hbe Hside. unfold put_safe. cbn [AVL.bal].
  destruct (Z.eq_dec b 0) as [E0|E0]; [left; exact E0|].
  destruct (Z.eq_dec b (- sg c)) as [E1|E1]; [right; left; exact E1|].
  right; right. pose proof (zheight_nonneg K V l) as Hhl. pose proof (zheight_nonneg K V r) as Hhr.
  destruct c; cbn [AVL.ch AVL.opp AVL.sg Z.opp] in *; destruct Hside as [Hs1 Hs2].
  - split; [apply zheight_pos_nonE; exact Hs1|].
    destruct l as [|lb ll lk lv lr]; [cbn [Inv.zheight] in Hs1; lia|].
    red_all. destruct Hl as (Hll & Hlr & Hlb & Hlbr).
    pose proof (zheight_nonneg K V ll). pose proof (zheight_nonneg K V lr).
    destruct (Z.eq_dec lb (-1)) as [E2|E2]; [left; exact E2|right].
    apply zheight_pos_nonE. assert (lb <> 0) by (apply Hs2; lia). lia.
  - split; [apply zheight_pos_nonE; exact Hs1|].
    destruct r as [|rb rl rk rv rr]; [cbn [Inv.zheight] in Hs1; lia|].
    red_all. destruct Hr as (Hrl & Hrr & Hrb & Hrbr).
    pose proof (zheight_nonneg K V rl). pose proof (zheight_nonneg K V rr).
    destruct (Z.eq_dec rb 1) as [E2|E2]; [left; exact E2|right].
    apply zheight_pos_nonE. assert (rb <> 0) by (apply Hs2; lia). lia.
Qed.

(* same premises as C02.AVLProofs.removeFix_spec *)
Lemma removeFix_safe c (l : tree) k v b (r : tree) :
  avl_ok l -> avl_ok r -> -1 <= b <= 1 ->
  b = (match c with Rgt => zheight r - (zheight l + 1) | Lft => (zheight r + 1) - zheight l end) ->
  remove_safe c (T b l k v r).
Proof.
  intros Hl Hr Hb Hbe. unfold remove_safe. cbn [AVL.bal].
  destruct (Z.eq_dec b 0) as [E0|E0]; [left; exact E0|].
  destruct (Z.eq_dec b (- sg c)) as [E1|E1]; [right; left; exact E1|].
  right; right. pose proof (zheight_nonneg K V l) as Hhl. pose proof (zheight_nonneg K V r) as Hhr.
  destruct c; cbn [AVL.ch AVL.opp AVL.sg Z.opp] in *.
  - assert (Hs1 : 2 <= zheight l) by lia.
    split; [apply zheight_pos_nonE; lia|].
    destruct l as [|lb ll lk lv lr]; [cbn [Inv.zheight] in Hs1; lia|].
    red_all. destruct Hl as (Hll & Hlr & Hlb & Hlbr).
    pose proof (zheight_nonneg K V ll). pose proof (zheight_nonneg K V lr).
    destruct (Z.eq_dec lb 0) as [E2|E2]; [left; exact E2|right].
    destruct (Z.eq_dec lb (-1)) as [E3|E3]; [left; exact E3|right].
    apply zheight_pos_nonE. lia.
  - assert (Hs1 : 2 <= zheight r) by lia.
    split; [apply zheight_pos_nonE; lia|].
    destruct r as [|rb rl rk rv rr]; [cbn [Inv.zheight] in Hs1; lia|].
    red_all. destruct Hr as (Hrl & Hrr & Hrb & Hrbr).
    pose proof (zheight_nonneg K V rl). pose proof (zheight_nonneg K V rr).
    destruct (Z.eq_dec rb 0) as [E2|E2]; [left; exact E2|right].
    destruct (Z.eq_dec rb 1) as [E3|E3]; [left; exact E3|right].
    apply zheight_pos_nonE. lia.
Qed.

(* ---------------- put ---------------- *)

Theorem avl_put_elements k v (t : tree) :
  avl_ok t -> sorted (elements t) -> elements (fst (put k v t)) = sm_put k v (elements t).
Proof.
  induction t as [|b l IHl k' v' r IHr]; intros Hok HS; cbn [AVL.put]; [reflexivity|].
  cbn [Inv.avl_ok] in Hok. destruct Hok as (Hl & Hr & Hb & Hbr).
  cbn [elements] in HS |- *. destruct (sorted_app_inv _ _ _ HS) as (S1 & S2 & F1 & F2).
  pose proof (zheight_nonneg K V l) as Hhl. pose proof (zheight_nonneg K V r) as Hhr.
  destruct (cmp k k' =? 0) eqn:E1.
  { cbn [fst elements]. symmetry. apply (sm_put_here O); [lia|exact F1]. }
  destruct (cmp k k' <? 0) eqn:E2.
  - specialize (IHl Hl S1). destruct (put k v l) as [l' fl] eqn:El. cbn [fst] in IHl.
    destruct (put_spec K V cmp k v l l' fl Hl El) as (Hl' & Hh & Hbal).
    rewrite sm_put_left by lia. rewrite <- IHl. destruct fl.
    + rewrite putFix_elements; [reflexivity|].
      apply putFix_safe; auto; [lia|split; [lia|intros; apply Hbal; auto; lia]].
    + reflexivity.
  - specialize (IHr Hr S2). destruct (put k v r) as [r' fr] eqn:Er. cbn [fst] in IHr.
    destruct (put_spec K V cmp k v r r' fr Hr Er) as (Hr' & Hh & Hbal).
    rewrite (sm_put_right O) by (auto; lia). rewrite <- IHr. destruct fr.
    + rewrite putFix_elements; [reflexivity|].
      apply putFix_safe; auto; [lia|split; [lia|intros; apply Hbal; auto; lia]].
    + reflexivity.
Qed.

(* ---------------- removeMin / remove ---------------- *)

Lemma removeMin_elements (t : tree) : forall t' mk f,
  avl_ok t -> t <> E -> removeMin t = (t', mk, f) ->
  exists p, mk = Some p /\ elements t = p :: elements t'.
Proof.
  induction t as [|b l IHl k v r IHr]; intros t' mk f Hok Hne Hrm; [congruence|].
  rewrite removeMin_eq in Hrm. cbn [Inv.avl_ok] in Hok. destruct Hok as (Hl & Hr & Hb & Hbr).
  destruct (isE l) eqn:HE.
  - destruct l; [|discriminate]. inv Hrm. exists (k, v). split; reflexivity.
  - assert (Hlne : l <> E) by (destruct l; [discriminate|congruence]).
    destruct (removeMin l) as [[l' mk'] fl] eqn:El.
    destruct (removeMin_spec K V l l' mk' fl Hl Hlne El) as (_ & Hl' & Hh).
    destruct (IHl _ _ _ Hl Hlne eq_refl) as (p & Hp & Hel).
    exists p. cbn [elements]. rewrite Hel. destruct fl.
    + pose proof (removeFix_elements Rgt (T b l' k v r)) as Hfe.
      destruct (removeFix Rgt (T b l' k v r)) as [q' f'] eqn:Ef. inv Hrm. split; [reflexivity|].
      cbn [fst] in Hfe. rewrite Hfe; [reflexivity|]. apply removeFix_safe; auto. lia.
    + inv Hrm. split; reflexivity.
Qed.

Theorem avl_remove_elements x (t : tree) :
  avl_ok t -> sorted (elements t) -> elements (fst (remove x t)) = sm_remove x (elements t).
Proof.
  induction t as [|b l IHl k v r IHr]; intros Hok HS; [reflexivity|].
  rewrite remove_eq. cbv zeta.
  cbn [Inv.avl_ok] in Hok. destruct Hok as (Hl & Hr & Hb & Hbr).
  cbn [elements] in HS |- *. destruct (sorted_app_inv _ _ _ HS) as (S1 & S2 & F1 & F2).
  destruct (cmp x k =? 0) eqn:E1.
  { rewrite (sm_remove_here O) by (auto; lia).
    destruct (isE r) eqn:HE.
    - destruct r; [|discriminate]. cbn [fst elements]. now rewrite app_nil_r.
    - assert (Hrne : r <> E) by (destruct r; [discriminate|congruence]).
      destruct (removeMin r) as [[r' mk] fr] eqn:Er.
      destruct (removeMin_spec K V r r' mk fr Hr Hrne Er) as (_ & Hr' & Hh).
      destruct (removeMin_elements r r' mk fr Hr Hrne Er) as ([pk pv] & -> & Hel).
      rewrite Hel. destruct fr.
      + rewrite removeFix_elements; [reflexivity|]. apply removeFix_safe; auto. lia.
      + reflexivity. }
  destruct (cmp x k <? 0) eqn:E2.
  - specialize (IHl Hl S1). destruct (remove x l) as [l' fl] eqn:El. cbn [fst] in IHl.
    destruct (remove_spec K V cmp x l l' fl Hl El) as (Hl' & Hh).
    rewrite sm_remove_left by lia. rewrite <- IHl. destruct fl.
    + rewrite removeFix_elements; [reflexivity|]. apply removeFix_safe; auto. lia.
    + reflexivity.
  - specialize (IHr Hr S2). destruct (remove x r) as [r' fr] eqn:Er. cbn [fst] in IHr.
    destruct (remove_spec K V cmp x r r' fr Hr Er) as (Hr' & Hh).
    rewrite (sm_remove_right O) by (auto; lia). rewrite <- IHr. destruct fr.
    + rewrite removeFix_elements; [reflexivity|]. apply removeFix_safe; auto. lia.
    + reflexivity.
Qed.

End AVLRefine.

(* the premise [avl_ok] cannot be dropped: on an ill-balanced (unreachable) tree the model loses entries *)
Definition zc_demo (a b : Z) : Z := a - b.
Lemma avl_refine_needs_ok_put :
  exists t : AVL.tree Z Z,
    sorted Z Z zc_demo (elements t) /\
    elements (fst (AVL.put Z Z zc_demo 1 10 t)) <> sm_put Z Z zc_demo 1 10 (elements t).
Proof.
  exists (T (-1) E 2 20 E). split; [repeat constructor|]. vm_compute. discriminate.
Qed.
Lemma avl_refine_needs_ok_remove :
  exists t : AVL.tree Z Z,
    sorted Z Z zc_demo (elements t) /\
    elements (fst (AVL.remove Z Z zc_demo 1 t)) <> sm_remove Z Z zc_demo 1 (elements t).
Proof.
  exists (T 1 (T 0 E 1 10 E) 2 20 E). split; [|vm_compute; discriminate].
  repeat constructor.
Qed.

Print Assumptions avl_put_elements.
Print Assumptions avl_remove_elements.
