(* C01, red-black tree: Put/Remove act on the in-order sequence exactly as the reference sorted map does, and
   every query returns what the reference returns; hence equal outputs for every operation list.
   First half ported from notes/spikes/RB_invariants_spike.v. *)
From VF Require Import Common.Base C01.Order C01.SortedMap C01.SpecProofs C01.BinTree C01.BinTreeProofs C01.RB.
Local Open Scope Z_scope.

Section RBRefine.
Context {K V : Type} {cmp : K -> K -> Z} (O : CmpLaws cmp).
Variable zeroV : V.

Notation tree := (RB.tree K V).
Notation is_red := (RB.is_red K V).
Notation is_black := (RB.is_black K V).
Notation blacken := (RB.blacken K V).
Notation fixL := (RB.fixL K V).
Notation fixR := (RB.fixR K V).
Notation ins := (RB.ins K V cmp).
Notation put := (RB.put K V cmp).
Notation mk := (RB.mk K V).
Notation cases3to6 := (RB.cases3to6 K V).
Notation fix_deficit := (RB.fix_deficit K V).
Notation unlink := (RB.unlink K V).
Notation del_max := (RB.del_max K V).
Notation del := (RB.del K V cmp).
Notation sorted := (sorted K V cmp).
Notation sm_put := (sm_put K V cmp).
Notation sm_remove := (sm_remove K V cmp).
Notation sm_get := (sm_get K V cmp).

Lemma app_assoc' {A} (a b c : list A) x : (a ++ x :: b) ++ c = a ++ x :: b ++ c.
Proof. now rewrite <- app_assoc. Qed.

Ltac norm_app := repeat (rewrite <- ?app_assoc; simpl).

Lemma elements_blacken t : elements (blacken t) = elements t.
Proof. destruct t; reflexivity. Qed.

Lemma elements_fixL c l k v r : elements (fixL c l k v r) = elements l ++ (k, v) :: elements r.
Proof.
  unfold fixL.
  repeat match goal with |- context [match ?x with _ => _ end] => destruct x end;
    simpl; rewrite ?elements_blacken; simpl; norm_app; reflexivity.
Qed.

Lemma elements_fixR c l k v r : elements (fixR c l k v r) = elements l ++ (k, v) :: elements r.
Proof.
  unfold fixR.
  repeat match goal with |- context [match ?x with _ => _ end] => destruct x end;
    simpl; rewrite ?elements_blacken; simpl; norm_app; reflexivity.
Qed.





Theorem ins_elements k v t :
  sorted (elements t) -> elements (ins k v t) = sm_put k v (elements t).
Proof.
  induction t as [|c l IHl k' v' r IHr]; simpl; intros HS; [reflexivity|].
  destruct (sorted_app_inv _ _ _ HS) as (S1 & S2 & F1 & F2).
  destruct (cmp k k' =? 0) eqn:E1.
  - simpl. symmetry. apply (sm_put_here O); auto. lia.
  - destruct (cmp k k' <? 0) eqn:E2.
    + rewrite elements_fixL, IHl by auto. symmetry. apply sm_put_left. lia.
    + rewrite elements_fixR, IHr by auto. symmetry. apply (sm_put_right O); auto. lia.
Qed.

Corollary put_elements k v t :
  sorted (elements t) -> elements (put k v t) = sm_put k v (elements t).
Proof. intros. unfold put. rewrite elements_blacken. now apply ins_elements. Qed.

(* ---------------- delete refines sm_remove ---------------- *)

Lemma elements_mk sd c k v n s :
  elements (mk sd c k v n s) =
  match sd with SL => elements n ++ (k, v) :: elements s | SR => elements s ++ (k, v) :: elements n end.
Proof. destruct sd; reflexivity. Qed.

Ltac split_colours :=
  repeat (simpl;
    match goal with
    | |- context [is_red ?t] => is_var t; destruct t as [|[] ? ? ? ?]
    | |- context [is_black ?t] => is_var t; destruct t as [|[] ? ? ? ?]
    end); unfold RB.is_black; simpl.

Lemma elements_cases3to6 c k v n s sd :
  elements (fst (cases3to6 c k v n s sd)) =
  match sd with SL => elements n ++ (k, v) :: elements s | SR => elements s ++ (k, v) :: elements n end.
Proof.
  unfold cases3to6. destruct s as [|sc sl sk sv sr]; [destruct sd; reflexivity|].
  destruct sc, c, sd; split_colours; rewrite ?elements_blacken; simpl; norm_app; reflexivity.
Qed.

Lemma elements_fix_deficit c k v n s sd :
  elements (fst (fix_deficit c k v n s sd)) =
  match sd with SL => elements n ++ (k, v) :: elements s | SR => elements s ++ (k, v) :: elements n end.
Proof.
  unfold fix_deficit. destruct s as [|[] sl sk sv sr]; try apply elements_cases3to6.
  destruct sd.
  - pose proof (elements_cases3to6 R k v n sl SL) as H. destruct (cases3to6 R k v n sl SL). simpl in *.
    rewrite H. norm_app. reflexivity.
  - pose proof (elements_cases3to6 R k v n sr SR) as H. destruct (cases3to6 R k v n sr SR). simpl in *.
    rewrite H. norm_app. reflexivity.
Qed.

Lemma elements_unlink c t : elements (fst (unlink c t)) = elements t.
Proof. destruct c; reflexivity. Qed.

Lemma del_max_elements t : t <> E ->
  let '(mx, t', _) := del_max t in
  exists p, mx = Some p /\ elements t = elements t' ++ [p].
Proof.
  induction t as [|c l IHl k v r IHr]; intros Hne; [congruence|]. simpl.
  destruct r as [|rc rl rk rv rr].
  - destruct c; simpl; exists (k, v); split; auto.
  - assert (Hr : T rc rl rk rv rr <> E) by discriminate. specialize (IHr Hr).
    destruct (del_max (T rc rl rk rv rr)) as [[mx r'] d]. destruct IHr as (p & -> & He).
    destruct d.
    + pose proof (elements_fix_deficit c k v r' l SR) as Hf.
      destruct (fix_deficit c k v r' l SR) as [t' d']. simpl in Hf. exists p. split; auto.
      rewrite Hf. simpl in He |- *. rewrite He. norm_app. reflexivity.
    + exists p. split; auto. simpl in He |- *. rewrite He. norm_app. reflexivity.
Qed.




Theorem del_elements x t :
  sorted (elements t) -> elements (fst (del x t)) = sm_remove x (elements t).
Proof.
  induction t as [|c l IHl k v r IHr]; simpl; intros HS; [reflexivity|].
  destruct (sorted_app_inv _ _ _ HS) as (S1 & S2 & F1 & F2).
  destruct (cmp x k <? 0) eqn:E1.
  - specialize (IHl S1). destruct (del x l) as [l' df]. simpl in IHl.
    rewrite sm_remove_left by lia. rewrite <- IHl. destruct df.
    + apply (elements_fix_deficit c k v l' r SL).
    + reflexivity.
  - destruct (cmp x k >? 0) eqn:E2.
    + specialize (IHr S2). destruct (del x r) as [r' df]. simpl in IHr.
      rewrite (sm_remove_right O) by (auto; lia). rewrite <- IHr. destruct df.
      * apply (elements_fix_deficit c k v r' l SR).
      * reflexivity.
    + rewrite (sm_remove_here O) by (auto; lia).
      destruct l as [|lc ll lk lv lr].
      { destruct r as [|rc rl rk rv rr]; rewrite elements_unlink; simpl; auto. }
      destruct r as [|rc rl rk rv rr].
      { rewrite elements_unlink. simpl. now rewrite app_nil_r. }
      pose proof (del_max_elements (T lc ll lk lv lr)) as DM.
      destruct (del_max (T lc ll lk lv lr)) as [[mx l'] df].
      destruct DM as (p & -> & He); [discriminate|]. destruct p as [pk pv].
      rewrite He. destruct df.
      * rewrite (elements_fix_deficit c pk pv l' (T rc rl rk rv rr) SL). norm_app. reflexivity.
      * simpl. norm_app. reflexivity.
Qed.



Lemma remove_del_elements x t : elements (RB.remove K V cmp x t) = elements (fst (del x t)).
Proof.
  destruct t as [|c l k v r]; [reflexivity|]. unfold RB.remove.
  destruct ((cmp x k =? 0) && (isE l || isE r)) eqn:Etop; [|reflexivity].
  apply andb_true_iff in Etop. destruct Etop as [E0 Ech]. apply Z.eqb_eq in E0.
  cbn [RB.del]. destruct (cmp x k <? 0) eqn:E1; [lia|]. destruct (cmp x k >? 0) eqn:E2; [lia|].
  rewrite elements_blacken.
  destruct l as [|lc ll lk lv lr], r as [|rc rl rk rv rr]; try discriminate;
    rewrite elements_unlink; reflexivity.
Qed.

Theorem remove_elements x t :
  sorted (elements t) -> elements (RB.remove K V cmp x t) = sm_remove x (elements t).
Proof. intros. rewrite remove_del_elements. now apply del_elements. Qed.

(* ---------- the container refines the reference map, call by call ---------- *)
Definition Rrb (s : RB.state K V) (l : list (K * V)) : Prop :=
  sorted l /\ elements (RB.root s) = l /\ RB.size s = Z.of_nat (length l).

Lemma step_query s o : is_query o = true ->
  RB.step K V cmp zeroV s o = (s, bin_query (cmp := cmp) zeroV (RB.root s) (RB.size s) o).
Proof. destruct o; intros H; try discriminate; reflexivity. Qed.

Theorem rb_step_refines s l o : Rrb s l ->
  Rrb (fst (RB.step K V cmp zeroV s o)) (fst (sm_step K V cmp zeroV l o)) /\
  snd (RB.step K V cmp zeroV s o) = snd (sm_step K V cmp zeroV l o).
Proof.
  intros (HS & He & Hsz). destruct (is_query o) eqn:Hq.
  - rewrite step_query by exact Hq. cbn [fst snd]. subst l. split.
    + destruct o; try discriminate; simpl; repeat split; auto.
    + apply (bin_query_spec O); auto.
  - subst l. destruct o; try discriminate; cbn [RB.step sm_step fst snd].
    + (* Put *)
      split; [|reflexivity]. unfold Rrb. cbn [RB.root RB.size].
      rewrite put_elements by exact HS. repeat split; [now apply (sm_put_sorted O)|].
      rewrite sm_put_length. unfold RB.is_some. rewrite (lookup_elements O _ _ HS).
      destruct (SortedMap.sm_get K V cmp k (elements (RB.root s))); lia.
    + (* Remove *)
      split; [|reflexivity]. unfold RB.is_some. rewrite (lookup_elements O _ _ HS).
      destruct (SortedMap.sm_get K V cmp k (elements (RB.root s))) eqn:G.
      * unfold Rrb. cbn [RB.root RB.size]. rewrite remove_elements by exact HS.
        repeat split; [now apply sm_remove_sorted|].
        rewrite sm_remove_length, G.
        assert (length (elements (RB.root s)) <> 0%nat).
        { destruct (elements (RB.root s)); [discriminate|discriminate]. }
        lia.
      * unfold Rrb. rewrite (sm_remove_absent _ _ G). repeat split; auto.
    + (* Clear *)
      split; [|reflexivity]. unfold Rrb, RB.empty. simpl. repeat split; auto. constructor.
Qed.

Lemma Rrb_empty : Rrb (RB.empty K V) [].
Proof. unfold Rrb, RB.empty. simpl. repeat split; auto. constructor. Qed.

Theorem rb_run_refines ops :
  snd (run (RB.step K V cmp zeroV) (RB.empty K V) ops) = snd (run (sm_step K V cmp zeroV) [] ops).
Proof.
  refine (proj2 (run_refines (RB.step K V cmp zeroV) (sm_step K V cmp zeroV) Rrb (fun _ => True) _
                   ops (RB.empty K V) [] _ Rrb_empty)).
  - intros s1 s2 o _ HR. now apply rb_step_refines.
  - apply Forall_forall. auto.
Qed.

Theorem rb_run_related ops :
  Rrb (fst (run (RB.step K V cmp zeroV) (RB.empty K V) ops)) (fst (run (sm_step K V cmp zeroV) [] ops)).
Proof.
  refine (proj1 (run_refines (RB.step K V cmp zeroV) (sm_step K V cmp zeroV) Rrb (fun _ => True) _
                   ops (RB.empty K V) [] _ Rrb_empty)).
  - intros s1 s2 o _ HR. now apply rb_step_refines.
  - apply Forall_forall. auto.
Qed.
End RBRefine.
