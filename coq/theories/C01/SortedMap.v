(* C01 specification: a reference sorted map = association list kept strictly ascending w.r.t. the
   comparator. Short enough to read in minutes; no proofs here. Everything the tree-backed containers
   return is specified against these functions. *)
From VF Require Import Common.Base.
From Coq Require Export Sorted.
Local Open Scope Z_scope.

(* generic fold of a step function, collecting outputs *)
Fixpoint run {S O X : Type} (step : S -> O -> S * X) (s : S) (ops : list O) : S * list X :=
  match ops with
  | [] => (s, [])
  | o :: ops' => let '(s1, x) := step s o in
                 let '(s2, xs) := run step s1 ops' in (s2, x :: xs)
  end.

Section Spec.
Variables K V : Type.
Variable cmp : K -> K -> Z.
Variable zeroV : V.                     (* Go zero value returned by Get on a missing key *)

Definition smap := list (K * V).

(* insert or overwrite: the stored key is replaced too, as the Go code does on [compare == 0] *)
Fixpoint sm_put (k : K) (v : V) (m : smap) : smap :=
  match m with
  | [] => [(k, v)]
  | (k', v') :: m' =>
    let d := cmp k k' in
    if d =? 0 then (k, v) :: m'
    else if d <? 0 then (k, v) :: (k', v') :: m'
    else (k', v') :: sm_put k v m'
  end.

Fixpoint sm_remove (k : K) (m : smap) : smap :=
  match m with
  | [] => []
  | (k', v') :: m' =>
    let d := cmp k k' in
    if d <? 0 then m
    else if d >? 0 then (k', v') :: sm_remove k m'
    else m'
  end.

Fixpoint sm_get (x : K) (m : smap) : option V :=
  match m with
  | [] => None
  | (k, v) :: m' => let d := cmp x k in if d =? 0 then Some v else if d <? 0 then None else sm_get x m'
  end.

(* largest entry whose key is <= x *)
Fixpoint sm_floor (x : K) (m : smap) : option (K * V) :=
  match m with
  | [] => None
  | (k, v) :: m' =>
    if cmp x k <? 0 then None
    else match sm_floor x m' with Some e => Some e | None => Some (k, v) end
  end.

(* smallest entry whose key is >= x *)
Fixpoint sm_ceiling (x : K) (m : smap) : option (K * V) :=
  match m with
  | [] => None
  | (k, v) :: m' => if cmp x k >? 0 then sm_ceiling x m' else Some (k, v)
  end.

Definition sm_min (m : smap) : option (K * V) := hd_error m.
Definition sm_max (m : smap) : option (K * V) := hd_error (rev m).

(* the operations and observable results of the ordered-map API *)
Inductive op :=
| Put (k : K) (v : V) | Remove (k : K) | Clear
| Get (k : K) | Size | Empty | Keys | Values | Left | Right | Floor (k : K) | Ceiling (k : K).

Inductive out :=
| ONone                                   (* mutators return nothing *)
| OGet (v : V) (found : bool)
| OSize (n : Z)
| OBool (b : bool)
| OKeys (ks : list K)
| OVals (vs : list V)
| OEntry (e : option (K * V))             (* Left/Right/Floor/Ceiling: node or nil *)
| OUnsupported.                           (* the container has no such method *)

Definition sm_step (m : smap) (o : op) : smap * out :=
  match o with
  | Put k v => (sm_put k v m, ONone)
  | Remove k => (sm_remove k m, ONone)
  | Clear => ([], ONone)
  | Get k => (m, match sm_get k m with Some v => OGet v true | None => OGet zeroV false end)
  | Size => (m, OSize (Z.of_nat (length m)))
  | Empty => (m, OBool (match m with [] => true | _ => false end))
  | Keys => (m, OKeys (map fst m))
  | Values => (m, OVals (map snd m))
  | Left => (m, OEntry (sm_min m))
  | Right => (m, OEntry (sm_max m))
  | Floor k => (m, OEntry (sm_floor k m))
  | Ceiling k => (m, OEntry (sm_ceiling k m))
  end.

(* the B-tree has no Floor/Ceiling *)
Definition bt_op (o : op) : Prop := match o with Floor _ | Ceiling _ => False | _ => True end.

(* strict ascending order *)
Definition ltk (a b : K * V) : Prop := cmp (fst a) (fst b) < 0.
Definition sorted (m : smap) : Prop := StronglySorted ltk m.

(* boolean twin of [sorted] on adjacent pairs (equivalent under the comparator laws, see SpecProofs) *)
Fixpoint sorted_b (m : smap) : bool :=
  match m with
  | [] => true
  | (k, _) :: m' => match m' with [] => true | (k', _) :: _ => (cmp k k' <? 0) && sorted_b m' end
  end.

(* ---------- treemap: Min/Max/Floor/Ceiling return zero key and value instead of nil ---------- *)
Variable zeroK : K.
Inductive xout := XO (o : out) | XPair (k : K) (v : V).
Definition zero_wrap (o : op) (r : out) : xout :=
  match o, r with
  | (Left | Right | Floor _ | Ceiling _), OEntry (Some (k, v)) => XPair k v
  | (Left | Right | Floor _ | Ceiling _), OEntry None => XPair zeroK zeroV
  | _, _ => XO r
  end.
Definition smx_step (m : smap) (o : op) : smap * xout :=
  let '(m', r) := sm_step m o in (m', zero_wrap o r).
End Spec.

Arguments Put {K V}. Arguments Remove {K V}. Arguments Clear {K V}. Arguments Get {K V}.
Arguments Size {K V}. Arguments Empty {K V}. Arguments Keys {K V}. Arguments Values {K V}.
Arguments Left {K V}. Arguments Right {K V}. Arguments Floor {K V}. Arguments Ceiling {K V}.
Arguments ONone {K V}. Arguments OGet {K V}. Arguments OSize {K V}. Arguments OBool {K V}.
Arguments OKeys {K V}. Arguments OVals {K V}. Arguments OEntry {K V}. Arguments OUnsupported {K V}.
Arguments XO {K V}. Arguments XPair {K V}.
Arguments bt_op {K V}.

(* ---------- tree set: a sorted map with unit values; Add/Remove/Contains take argument lists ---------- *)
Section SetSpec.
Variable K : Type.
Variable cmp : K -> K -> Z.

Inductive sop := SAdd (ks : list K) | SRemove (ks : list K) | SContains (ks : list K)
               | SSize | SEmpty | SClear | SValues.
Inductive sout := SONone | SOBool (b : bool) | SOSize (n : Z) | SOVals (ks : list K).

Definition sset := list (K * unit).
Definition sset_step (m : sset) (o : sop) : sset * sout :=
  match o with
  | SAdd ks => (fold_left (fun m k => sm_put K unit cmp k tt m) ks m, SONone)
  | SRemove ks => (fold_left (fun m k => sm_remove K unit cmp k m) ks m, SONone)
  | SContains ks => (m, SOBool (forallb (fun k => match sm_get K unit cmp k m with Some _ => true | None => false end) ks))
  | SSize => (m, SOSize (Z.of_nat (length m)))
  | SEmpty => (m, SOBool (match m with [] => true | _ => false end))
  | SClear => ([], SONone)
  | SValues => (m, SOVals (map fst m))
  end.
End SetSpec.
Arguments SAdd {K}. Arguments SRemove {K}. Arguments SContains {K}. Arguments SSize {K}.
Arguments SEmpty {K}. Arguments SClear {K}. Arguments SValues {K}.
Arguments SONone {K}. Arguments SOBool {K}. Arguments SOSize {K}. Arguments SOVals {K}.

(* ---------- bidirectional map: two sorted maps that are each other's inverse ---------- *)
Section BidiSpec.
Variables K V : Type.
Variable cmpK : K -> K -> Z.
Variable cmpV : V -> V -> Z.
Variable zeroK : K.
Variable zeroV : V.

Inductive bop := BPut (k : K) (v : V) | BRemove (k : K) | BClear | BGet (k : K) | BGetKey (v : V)
               | BSize | BEmpty | BKeys | BValues.
Inductive bout := BONone | BOGet (v : V) (found : bool) | BOGetKey (k : K) (found : bool)
                | BOSize (n : Z) | BOBool (b : bool) | BOKeys (ks : list K) | BOVals (vs : list V).

Definition bimap := (list (K * V) * list (V * K))%type.

Definition bij_put (k : K) (v : V) (b : bimap) : bimap :=
  let '(fw, bw) := b in
  let bw1 := match sm_get K V cmpK k fw with Some d => sm_remove V K cmpV d bw | None => bw end in
  let fw1 := match sm_get V K cmpV v bw1 with Some d => sm_remove K V cmpK d fw | None => fw end in
  (sm_put K V cmpK k v fw1, sm_put V K cmpV v k bw1).

Definition bij_remove (k : K) (b : bimap) : bimap :=
  let '(fw, bw) := b in
  match sm_get K V cmpK k fw with
  | Some d => (sm_remove K V cmpK k fw, sm_remove V K cmpV d bw)
  | None => b
  end.

Definition bij_step (b : bimap) (o : bop) : bimap * bout :=
  match o with
  | BPut k v => (bij_put k v b, BONone)
  | BRemove k => (bij_remove k b, BONone)
  | BClear => (([], []), BONone)
  | BGet k => (b, match sm_get K V cmpK k (fst b) with Some v => BOGet v true | None => BOGet zeroV false end)
  | BGetKey v => (b, match sm_get V K cmpV v (snd b) with Some k => BOGetKey k true | None => BOGetKey zeroK false end)
  | BSize => (b, BOSize (Z.of_nat (length (fst b))))
  | BEmpty => (b, BOBool (match fst b with [] => true | _ => false end))
  | BKeys => (b, BOKeys (map fst (fst b)))
  | BValues => (b, BOVals (map fst (snd b)))      (* values come out in value order *)
  end.

(* the inverse list holds exactly the swapped pairs of the forward list *)
Definition Bijection (b : bimap) : Prop :=
  Permutation (map (fun kv => (snd kv, fst kv)) (fst b)) (snd b).
End BidiSpec.
Arguments BPut {K V}. Arguments BRemove {K V}. Arguments BClear {K V}. Arguments BGet {K V}.
Arguments BGetKey {K V}. Arguments BSize {K V}. Arguments BEmpty {K V}. Arguments BKeys {K V}. Arguments BValues {K V}.
Arguments BONone {K V}. Arguments BOGet {K V}. Arguments BOGetKey {K V}. Arguments BOSize {K V}.
Arguments BOBool {K V}. Arguments BOKeys {K V}. Arguments BOVals {K V}.
