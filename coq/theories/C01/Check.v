(* C01 correspondence checker. A case = one container kind + the sequence of calls the harness made on
   the REAL container together with what each call returned. Every call is replayed through the model
   (kind 1 on disagreement) and through the sorted-map specification (kind 2 if the observed result is not
   what the reference sorted map returns). Keys and values are Go ints (Z), comparator = IntComparator. *)
From VF Require Import Common.Base C01.Order C01.CmpSel C01.SortedMap C01.BinTree C01.RB C01.AVL C01.BTree C01.Containers.
Local Open Scope Z_scope.

Inductive kind := KRB | KAVL | KBT (m : nat) | KTMap | KTSet | KBidi.

Inductive gop := GO (o : op Z Z) | GS (o : sop Z) | GB (o : bop Z Z).
Inductive gout := RO (r : out Z Z) | RX (r : xout Z Z) | RS (r : sout Z) | RB (r : bout Z Z)
                | RPanic      (* the real call panicked *)
                | RBad.       (* call not applicable to this kind of container *)

Inductive mstate :=
| MRB (s : RB.state Z Z) | MAVL (s : AVL.state Z Z) | MBT (m : nat) (s : BTree.state Z Z)
| MTM (s : RB.state Z Z) | MTS (s : RB.state Z unit) | MBD (s : tb_state Z Z).
Inductive sstate := SM (m : smap Z Z) | SX (m : smap Z Z) | SS (m : sset Z) | SB (b : bimap Z Z).

Definition init_m (k : kind) : mstate :=
  match k with
  | KRB => MRB (RB.empty Z Z) | KAVL => MAVL (AVL.empty Z Z) | KBT m => MBT m (BTree.empty Z Z)
  | KTMap => MTM (RB.empty Z Z) | KTSet => MTS (RB.empty Z unit) | KBidi => MBD (tb_empty Z Z)
  end.
Definition init_s (k : kind) : sstate :=
  match k with
  | KRB | KAVL | KBT _ => SM [] | KTMap => SX [] | KTSet => SS [] | KBidi => SB ([], [])
  end.

(* treemap results that are not (key, value) pairs are reported like those of the other ordered maps *)
Definition norm_x (r : xout Z Z) : gout := match r with XO o => RO o | XPair _ _ => RX r end.

Definition model_step (zc : Z -> Z -> Z) (st : mstate) (o : gop) : mstate * gout :=
  match st, o with
  | MRB s, GO o => let '(s', r) := RB.step Z Z zc 0 s o in (MRB s', RO r)
  | MAVL s, GO o => let '(s', r) := AVL.step Z Z zc 0 s o in (MAVL s', RO r)
  | MBT m s, GO o => let '(s', r) := BTree.step Z Z zc 0 m s o in (MBT m s', RO r)
  | MTM s, GO o => let '(s', r) := treemap_step Z Z zc 0 0 s o in (MTM s', norm_x r)
  | MTS s, GS o => let '(s', r) := treeset_step Z zc s o in (MTS s', RS r)
  | MBD s, GB o => let '(s', r) := tbidi_step Z Z zc zc 0 0 s o in (MBD s', RB r)
  | _, _ => (st, RBad)
  end.

Definition spec_step (zc : Z -> Z -> Z) (st : sstate) (o : gop) : sstate * gout :=
  match st, o with
  | SM m, GO o => let '(m', r) := sm_step Z Z zc 0 m o in (SM m', RO r)
  | SX m, GO o => let '(m', r) := smx_step Z Z zc 0 0 m o in (SX m', norm_x r)
  | SS m, GS o => let '(m', r) := sset_step Z zc m o in (SS m', RS r)
  | SB b, GB o => let '(b', r) := bij_step Z Z zc zc 0 0 b o in (SB b', RB r)
  | _, _ => (st, RBad)
  end.

(* ---------- decidable equality of results ---------- *)
Definition zl_eqb := list_eqb Z.eqb.
Definition pair_eqb (a b : Z * Z) := (fst a =? fst b) && (snd a =? snd b).
Definition out_eqb (a b : out Z Z) : bool :=
  match a, b with
  | ONone, ONone => true
  | OGet v f, OGet v' f' => (v =? v') && Bool.eqb f f'
  | OSize n, OSize n' => n =? n'
  | OBool x, OBool y => Bool.eqb x y
  | OKeys x, OKeys y => zl_eqb x y
  | OVals x, OVals y => zl_eqb x y
  | OEntry x, OEntry y => option_eqb pair_eqb x y
  | _, _ => false
  end.
Definition xout_eqb (a b : xout Z Z) : bool :=
  match a, b with
  | XO x, XO y => out_eqb x y
  | XPair k v, XPair k' v' => (k =? k') && (v =? v')
  | _, _ => false
  end.
Definition sout_eqb (a b : sout Z) : bool :=
  match a, b with
  | SONone, SONone => true
  | SOBool x, SOBool y => Bool.eqb x y
  | SOSize x, SOSize y => x =? y
  | SOVals x, SOVals y => zl_eqb x y
  | _, _ => false
  end.
Definition bout_eqb (a b : bout Z Z) : bool :=
  match a, b with
  | BONone, BONone => true
  | BOGet v f, BOGet v' f' => (v =? v') && Bool.eqb f f'
  | BOGetKey v f, BOGetKey v' f' => (v =? v') && Bool.eqb f f'
  | BOSize x, BOSize y => x =? y
  | BOBool x, BOBool y => Bool.eqb x y
  | BOKeys x, BOKeys y => zl_eqb x y
  | BOVals x, BOVals y => zl_eqb x y
  | _, _ => false
  end.
Definition gout_eqb (a b : gout) : bool :=
  match a, b with
  | RO x, RO y => out_eqb x y
  | RX x, RX y => xout_eqb x y
  | RS x, RS y => sout_eqb x y
  | RB x, RB y => bout_eqb x y
  | _, _ => false          (* RPanic / RBad never match anything *)
  end.

(* ---------- recorded steps: single calls and batches of the same query over a probe list ---------- *)
Inductive cstep :=
| C1 (o : gop) (r : gout)
| CPut (k v : Z) | CRemove (k : Z) | CClear                     (* ordered-map mutators (return nothing) *)
| CAdd (ks : list Z) | CSRemove (ks : list Z) | CSClear          (* tree set *)
| CBPut (k v : Z) | CBRemove (k : Z) | CBClear                   (* bidi map *)
| CGets (ps vs : list Z) (fs : list bool)                        (* Get p = (v, found) for every probe p *)
| CFloors (ps ks vs : list Z) (fs : list bool)                   (* Floor p = node (k, v) or nil *)
| CCeils (ps ks vs : list Z) (fs : list bool)
| CXFloors (ps ks vs : list Z)                                   (* treemap: (k, v), zeros when absent *)
| CXCeils (ps ks vs : list Z)
| CContains (ps : list Z) (bs : list bool)                       (* treeset: Contains(p) for every probe p *)
| CBGets (ps vs : list Z) (fs : list bool)
| CBGetKeys (ps ks : list Z) (fs : list bool)
| CKeysLen (n : Z).                                              (* len(Keys()) (treeset: len(Values())) *)

Fixpoint zip3 {A B C D} (f : A -> B -> C -> D) (a : list A) (b : list B) (c : list C) : list D :=
  match a, b, c with
  | x :: a', y :: b', z :: c' => f x y z :: zip3 f a' b' c'
  | _, _, _ => []
  end.
Fixpoint zip4 {A B C D E} (f : A -> B -> C -> D -> E) (a : list A) (b : list B) (c : list C) (d : list D) : list E :=
  match a, b, c, d with
  | x :: a', y :: b', z :: c', w :: d' => f x y z w :: zip4 f a' b' c' d'
  | _, _, _, _ => []
  end.

Definition entry_of (k v : Z) (f : bool) : option (Z * Z) := if f then Some (k, v) else None.

(* a batch whose lists have different lengths expands to a call that can never match *)
Definition same_len {A B} (a : list A) (b : list B) := Nat.eqb (length a) (length b).
Definition guard (ok : bool) (l : list (gop * gout)) : list (gop * gout) :=
  if ok then l else [(GO Size, RBad)].

Definition expand (c : cstep) : list (gop * gout) :=
  match c with
  | C1 o r => [(o, r)]
  | CPut k v => [(GO (Put k v), RO ONone)]
  | CRemove k => [(GO (Remove k), RO ONone)]
  | CClear => [(GO Clear, RO ONone)]
  | CAdd ks => [(GS (SAdd ks), RS SONone)]
  | CSRemove ks => [(GS (SRemove ks), RS SONone)]
  | CSClear => [(GS SClear, RS SONone)]
  | CBPut k v => [(GB (BPut k v), RB BONone)]
  | CBRemove k => [(GB (BRemove k), RB BONone)]
  | CBClear => [(GB BClear, RB BONone)]
  | CGets ps vs fs => guard (same_len ps vs && same_len ps fs)
                        (zip3 (fun p v f => (GO (Get p), RO (OGet v f))) ps vs fs)
  | CFloors ps ks vs fs => guard (same_len ps ks && same_len ps vs && same_len ps fs)
                        (zip4 (fun p k v f => (GO (Floor p), RO (OEntry (entry_of k v f)))) ps ks vs fs)
  | CCeils ps ks vs fs => guard (same_len ps ks && same_len ps vs && same_len ps fs)
                        (zip4 (fun p k v f => (GO (Ceiling p), RO (OEntry (entry_of k v f)))) ps ks vs fs)
  | CXFloors ps ks vs => guard (same_len ps ks && same_len ps vs)
                        (zip3 (fun p k v => (GO (Floor p), RX (XPair k v))) ps ks vs)
  | CXCeils ps ks vs => guard (same_len ps ks && same_len ps vs)
                        (zip3 (fun p k v => (GO (Ceiling p), RX (XPair k v))) ps ks vs)
  | CContains ps bs => guard (same_len ps bs)
                        (map (fun pb => (GS (SContains [fst pb]), RS (SOBool (snd pb)))) (combine ps bs))
  | CBGets ps vs fs => guard (same_len ps vs && same_len ps fs)
                        (zip3 (fun p v f => (GB (BGet p), RB (BOGet v f))) ps vs fs)
  | CBGetKeys ps ks fs => guard (same_len ps ks && same_len ps fs)
                        (zip3 (fun p k f => (GB (BGetKey p), RB (BOGetKey k f))) ps ks fs)
  | CKeysLen _ => []          (* handled by [keys_len_step] *)
  end.

(* the call that lists the keys of each kind of container, and the length of what it returned *)
Definition keys_op (k : kind) : gop :=
  match k with KTSet => GS SValues | KBidi => GB BKeys | _ => GO Keys end.
Definition keys_len (r : gout) : option Z :=
  match r with
  | RO (OKeys l) | RS (SOVals l) | RB (BOKeys l) => Some (Z.of_nat (length l))
  | _ => None
  end.
Definition len_is (r : gout) (n : Z) : bool :=
  match keys_len r with Some m => m =? n | None => false end.

(* c_cmp: the comparator the real container was built with (same shape for keys and, in the bidi-map, values) *)
Record case := { c_kind : kind; c_cmp : cmpsel; c_steps : list cstep }.

Definition kind_of_m (m : mstate) : kind :=
  match m with MRB _ => KRB | MAVL _ => KAVL | MBT o _ => KBT o | MTM _ => KTMap | MTS _ => KTSet | MBD _ => KBidi end.

Definition do_step (zc : Z -> Z -> Z) (st : mstate * sstate) (c : cstep) : (mstate * sstate) * nat :=
  match c with
  | CKeysLen n =>
    let o := keys_op (kind_of_m (fst st)) in
    (st, kind_of (len_is (snd (model_step zc (fst st) o)) n) (len_is (snd (spec_step zc (snd st) o)) n))
  | _ =>
  let calls := expand c in
  let ops := map fst calls in
  let exp := map snd calls in
  let '(ms', mouts) := run (model_step zc) (fst st) ops in
  let '(ss', souts) := run (spec_step zc) (snd st) ops in
  ((ms', ss'), kind_of (list_eqb gout_eqb mouts exp) (list_eqb gout_eqb souts exp))
  end.

Definition check_case (c : case) : nat :=
  scan (do_step (zcmp_of (c_cmp c))) (init_m (c_kind c), init_s (c_kind c)) (c_steps c) 0.

Definition mismatches (cs : list case) : list (nat * nat) := find_bad check_case cs.
