(* C01 property theorems: tree-backed ordered maps and sets behave exactly like a reference sorted map.
   Nothing but statements closed by [exact] and Print Assumptions. [K], [V], the comparator and the zero values
   are arbitrary; the comparator laws are a premise. [run step s ops] folds a container's step function over
   an operation list and collects the result of every call. *)
From VF Require Import Common.Base C01.Order C01.CmpSel C01.SortedMap C01.SpecProofs C01.BinTree C01.RB C01.AVL C01.BTree
  C01.Containers C01.RBProofs C01.AVLRefine C01.ContainersProofs C01.BidiProofs C01.BTProofs.
Local Open Scope Z_scope.

(* ---- every call on the container returns what the same call on the reference sorted map returns ---- *)
Theorem C01_rb : forall (K V : Type) (cmp : K -> K -> Z) (zeroV : V), CmpLaws cmp -> forall ops,
  snd (run (RB.step K V cmp zeroV) (RB.empty K V) ops) = snd (run (sm_step K V cmp zeroV) [] ops).
Proof. intros K V cmp zeroV O. exact (rb_run_refines O zeroV). Qed.

Theorem C01_avl : forall (K V : Type) (cmp : K -> K -> Z) (zeroV : V), CmpLaws cmp -> forall ops,
  snd (run (AVL.step K V cmp zeroV) (AVL.empty K V) ops) = snd (run (sm_step K V cmp zeroV) [] ops).
Proof. intros K V cmp zeroV O. exact (avl_run_refines O zeroV). Qed.

(* B-tree of every order m >= 3 ([bt_op] excludes Floor/Ceiling, which the B-tree does not have) *)
Theorem C01_bt : forall (K V : Type) (cmp : K -> K -> Z) (zeroV : V), CmpLaws cmp -> forall m, (3 <= m)%nat ->
  forall ops, Forall bt_op ops ->
  snd (run (BTree.step K V cmp zeroV m) (BTree.empty K V) ops) = snd (run (sm_step K V cmp zeroV) [] ops).
Proof. intros K V cmp zeroV O m Hm. exact (bt_run_refines O zeroV m Hm). Qed.

Theorem C01_tmap : forall (K V : Type) (cmp : K -> K -> Z) (zeroK : K) (zeroV : V), CmpLaws cmp -> forall ops,
  snd (run (treemap_step K V cmp zeroK zeroV) (RB.empty K V) ops) =
  snd (run (smx_step K V cmp zeroV zeroK) [] ops).
Proof. intros K V cmp zeroK zeroV O. exact (tmap_run_refines O zeroK zeroV). Qed.

Theorem C01_tset : forall (K : Type) (cmp : K -> K -> Z), CmpLaws cmp -> forall ops,
  snd (run (treeset_step K cmp) (RB.empty K unit) ops) = snd (run (sset_step K cmp) [] ops).
Proof. intros K cmp O. exact (tset_run_refines O). Qed.

Theorem C01_bidi_refines : forall (K V : Type) (cmpK : K -> K -> Z) (cmpV : V -> V -> Z) (zeroK : K) (zeroV : V),
  CmpLaws cmpK -> CmpLaws cmpV -> forall ops,
  snd (run (tbidi_step K V cmpK cmpV zeroK zeroV) (tb_empty K V) ops) =
  snd (run (bij_step K V cmpK cmpV zeroK zeroV) ([], []) ops).
Proof. intros K V cmpK cmpV zeroK zeroV OK OV. exact (bidi_run_refines OK OV zeroK zeroV). Qed.

(* forward and inverse trees of the bidi-map are mutually inverse after every operation list (comparators that
   separate keys, as the built-in int/string comparators do): Get k = v exactly when GetKey v = k *)
Theorem C01_bidi_bijection : forall (K V : Type) (cmpK : K -> K -> Z) (cmpV : V -> V -> Z) (zeroK : K) (zeroV : V),
  CmpLaws cmpK -> CmpLaws cmpV -> (forall a b, cmpK a b = 0 -> a = b) -> (forall a b, cmpV a b = 0 -> a = b) ->
  forall ops, let s := fst (run (tbidi_step K V cmpK cmpV zeroK zeroV) (tb_empty K V) ops) in
  forall k v, lookup cmpK k (RB.root (fwd s)) = Some v <-> lookup cmpV v (RB.root (inv s)) = Some k.
Proof. intros K V cmpK cmpV zeroK zeroV OK OV sK sV. exact (tbidi_bijection OK OV sK sV zeroK zeroV). Qed.

(* ---- the reference map: keys unique and strictly ascending, each bound to the last value put ---- *)
Theorem C01_spec_sorted : forall (K V : Type) (cmp : K -> K -> Z) (zeroV : V), CmpLaws cmp -> forall ops,
  sorted K V cmp (fst (run (sm_step K V cmp zeroV) [] ops)).
Proof. intros K V cmp zeroV O. exact (sm_run_sorted O zeroV). Qed.

Theorem C01_spec_last_value_put : forall (K V : Type) (cmp : K -> K -> Z), CmpLaws cmp -> forall x k v m,
  sm_get K V cmp x (sm_put K V cmp k v m) = if cmp x k =? 0 then Some v else sm_get K V cmp x m.
Proof. intros K V cmp O. exact (sm_get_put O). Qed.

Theorem C01_spec_get_after_remove : forall (K V : Type) (cmp : K -> K -> Z), CmpLaws cmp -> forall x k m,
  sorted K V cmp m ->
  sm_get K V cmp x (sm_remove K V cmp k m) = if cmp x k =? 0 then None else sm_get K V cmp x m.
Proof. intros K V cmp O. exact (sm_get_remove O). Qed.

(* removing an absent key changes nothing; re-putting a present key changes nothing but the bound value *)
Theorem C01_spec_remove_absent : forall (K V : Type) (cmp : K -> K -> Z) k m,
  sm_get K V cmp k m = None -> sm_remove K V cmp k m = m.
Proof. intros K V cmp. exact (@sm_remove_absent K V cmp). Qed.

Theorem C01_spec_reput_present : forall (K V : Type) (cmp : K -> K -> Z), CmpLaws cmp -> forall k v w m,
  sm_get K V cmp k m = Some w ->
  length (sm_put K V cmp k v m) = length m /\
  forall x, cmp x k <> 0 -> sm_get K V cmp x (sm_put K V cmp k v m) = sm_get K V cmp x m.
Proof. intros K V cmp O. exact (sm_reput_present O). Qed.

(* the built-in int comparator satisfies the premise *)
Theorem C01_int_comparator_laws : CmpLaws zcmp.
Proof. exact zcmp_laws. Qed.

(* every comparator shape the correspondence run builds real containers with (a-b, b-a, scaled, clamped, ...)
   satisfies the premise, so each evaluated case is an instance of the theorems above; all of them separate keys *)
Theorem C01_comparator_shapes_laws : forall c, CmpLaws (zcmp_of c).
Proof. exact zcmp_of_laws. Qed.
Theorem C01_comparator_shapes_separate : forall c a b, zcmp_of c a b = 0 -> a = b.
Proof. exact zcmp_of_separates. Qed.

(* non-vacuity: a concrete history on the red-black tree, the AVL tree and a bidi-map with an overwrite *)
Example C01_nonvacuous :
  snd (run (RB.step Z Z zcmp 0) (RB.empty Z Z)
         [Put 2 20; Put 1 10; Put 3 30; Put 2 21; Remove 3; Get 2; Get 3; Size; Keys; Values; Floor 5; Ceiling 0; Left; Right])
  = [ONone; ONone; ONone; ONone; ONone; OGet 21 true; OGet 0 false; OSize 2; OKeys [1; 2]; OVals [10; 21];
     OEntry (Some (2, 21)); OEntry (Some (1, 10)); OEntry (Some (1, 10)); OEntry (Some (2, 21))]
  /\ snd (run (AVL.step Z Z zcmp 0) (AVL.empty Z Z) [Put 1 1; Put 2 2; Put 3 3; Put 4 4; Put 5 5; Remove 2; Keys])
     = [ONone; ONone; ONone; ONone; ONone; ONone; OKeys [1; 3; 4; 5]]
  /\ snd (run (BTree.step Z Z zcmp 0 3) (BTree.empty Z Z)
            [Put 1 1; Put 2 2; Put 3 3; Put 4 4; Put 5 5; Put 6 6; Put 7 7; Remove 4; Remove 1; Get 5; Keys; Left; Right])
     = [ONone; ONone; ONone; ONone; ONone; ONone; ONone; ONone; ONone; OGet 5 true; OKeys [2; 3; 5; 6; 7];
        OEntry (Some (2, 2)); OEntry (Some (7, 7))]
  /\ snd (run (tbidi_step Z Z zcmp zcmp 0 0) (tb_empty Z Z) [BPut 1 7; BPut 2 7; BGetKey 7; BGet 1; BSize])
     = [BONone; BONone; BOGetKey 2 true; BOGet 0 false; BOSize 1].
Proof. repeat split; vm_compute; reflexivity. Qed.

Print Assumptions C01_rb.
Print Assumptions C01_avl.
Print Assumptions C01_bt.
Print Assumptions C01_tmap.
Print Assumptions C01_tset.
Print Assumptions C01_bidi_refines.
Print Assumptions C01_bidi_bijection.
Print Assumptions C01_spec_sorted.
Print Assumptions C01_spec_last_value_put.
Print Assumptions C01_spec_get_after_remove.
Print Assumptions C01_spec_remove_absent.
Print Assumptions C01_spec_reput_present.
Print Assumptions C01_int_comparator_laws.
Print Assumptions C01_comparator_shapes_laws.
Print Assumptions C01_comparator_shapes_separate.
