(* The read-only descents of a binary search tree (shared by red-black and AVL) agree with the reference
   sorted map on the in-order sequence. Generic in the node annotation. *)
From VF Require Import Common.Base C01.Order C01.SortedMap C01.SpecProofs C01.BinTree.
Local Open Scope Z_scope.

Section BinTreeProofs.
Context {K V A : Type} {cmp : K -> K -> Z} (O : CmpLaws cmp).
Variable zeroV : V.
Notation tree := (BinTree.tree K V A).
Notation sorted := (sorted K V cmp).

Theorem lookup_elements x (t : tree) :
  sorted (elements t) -> lookup cmp x t = sm_get K V cmp x (elements t).
Proof.
  induction t as [|c l IHl k v r IHr]; simpl; intros HS; [reflexivity|].
  destruct (sorted_app_inv _ _ _ HS) as (S1 & S2 & F1 & F2).
  destruct (cmp x k =? 0) eqn:E1.
  - rewrite (sm_get_right O) by (auto; lia). simpl. now rewrite E1.
  - destruct (cmp x k <? 0) eqn:E2.
    + rewrite sm_get_left by lia. auto.
    + rewrite (sm_get_right O) by (auto; lia). simpl. rewrite E1, E2. auto.
Qed.

Definition or_else {X} (a b : option X) : option X := match a with Some _ => a | None => b end.

Lemma leftmost_elements (t : tree) acc : leftmost t acc = or_else (sm_min K V (elements t)) acc.
Proof.
  revert acc. induction t as [|c l IHl k v r IHr]; intros acc; simpl; [reflexivity|].
  rewrite IHl, sm_min_app. destruct (sm_min K V (elements l)); reflexivity.
Qed.

Lemma rightmost_elements (t : tree) acc : rightmost t acc = or_else (sm_max K V (elements t)) acc.
Proof.
  revert acc. induction t as [|c l IHl k v r IHr]; intros acc; simpl; [reflexivity|].
  rewrite IHr, sm_max_app. destruct (sm_max K V (elements r)); reflexivity.
Qed.

Lemma floor_elements x (t : tree) acc :
  sorted (elements t) -> floor_go cmp x t acc = or_else (sm_floor K V cmp x (elements t)) acc.
Proof.
  revert acc. induction t as [|c l IHl k v r IHr]; intros acc HS; simpl; [reflexivity|].
  destruct (sorted_app_inv _ _ _ HS) as (S1 & S2 & F1 & F2).
  destruct (cmp x k =? 0) eqn:E1.
  - rewrite (sm_floor_right O) by (auto; lia). rewrite (sm_floor_here O) by (auto; lia). reflexivity.
  - destruct (cmp x k <? 0) eqn:E2.
    + rewrite sm_floor_left by lia. auto.
    + rewrite (sm_floor_right O) by (auto; lia). rewrite IHr by auto.
      cbn [SortedMap.sm_floor]. rewrite E2. destruct (sm_floor K V cmp x (elements r)); reflexivity.
Qed.

Lemma ceiling_elements x (t : tree) acc :
  sorted (elements t) -> ceiling_go cmp x t acc = or_else (sm_ceiling K V cmp x (elements t)) acc.
Proof.
  revert acc. induction t as [|c l IHl k v r IHr]; intros acc HS; simpl; [reflexivity|].
  destruct (sorted_app_inv _ _ _ HS) as (S1 & S2 & F1 & F2).
  destruct (cmp x k =? 0) eqn:E1.
  - rewrite sm_ceiling_left by lia.
    assert (Hn : sm_ceiling K V cmp x (elements l) = None).
    { apply (sm_ceiling_all_lt O). rewrite Forall_forall in *. intros a Ha. specialize (F1 a Ha).
      unfold SortedMap.ltk in *; simpl in *. apply (lt_le_trans O) with k; auto.
      apply Z.eqb_eq in E1. apply (cmp_antisym_eq cmp O) in E1. lia. }
    rewrite Hn. reflexivity.
  - destruct (cmp x k <? 0) eqn:E2.
    + rewrite sm_ceiling_left by lia. rewrite IHl by auto.
      destruct (sm_ceiling K V cmp x (elements l)); reflexivity.
    + rewrite (sm_ceiling_right O) by (auto; lia). auto.
Qed.

(* the non-mutating calls of an ordered binary tree container, as a function of root and cached size
   (RB.step and AVL.step are this function on query operations, by computation) *)
Definition bin_query (t : tree) (sz : Z) (o : op K V) : out K V :=
  match o with
  | Get k => match lookup cmp k t with Some v => OGet v true | None => OGet zeroV false end
  | Size => OSize sz
  | Empty => OBool (sz =? 0)
  | Keys => OKeys (map fst (elements t))
  | Values => OVals (map snd (elements t))
  | Left => OEntry (leftmost t None)
  | Right => OEntry (rightmost t None)
  | Floor k => OEntry (floor_go cmp k t None)
  | Ceiling k => OEntry (ceiling_go cmp k t None)
  | _ => ONone
  end.

Definition is_query (o : op K V) : bool :=
  match o with Put _ _ | Remove _ | Clear => false | _ => true end.

Lemma bin_query_spec (t : tree) sz o :
  sorted (elements t) -> sz = Z.of_nat (length (elements t)) -> is_query o = true ->
  bin_query t sz o = snd (sm_step K V cmp zeroV (elements t) o).
Proof.
  intros HS Hsz Hq. destruct o; try discriminate; simpl.
  - rewrite (lookup_elements _ _ HS). reflexivity.
  - now subst.
  - subst. destruct (elements t); reflexivity.
  - reflexivity.
  - reflexivity.
  - rewrite leftmost_elements. destruct (sm_min K V (elements t)); reflexivity.
  - rewrite rightmost_elements. destruct (sm_max K V (elements t)); reflexivity.
  - rewrite (floor_elements _ _ _ HS). destruct (sm_floor K V cmp k (elements t)); reflexivity.
  - rewrite (ceiling_elements _ _ _ HS). destruct (sm_ceiling K V cmp k (elements t)); reflexivity.
Qed.

Lemma is_some_lookup x (t : tree) :
  sorted (elements t) ->
  (match lookup cmp x t with Some _ => true | None => false end) =
  (match sm_get K V cmp x (elements t) with Some _ => true | None => false end).
Proof. intros HS. now rewrite (lookup_elements _ _ HS). Qed.

Lemma count_elements (t : tree) : count t = length (elements t).
Proof.
  induction t as [|c l IHl k v r IHr]; simpl; [reflexivity|].
  rewrite app_length. simpl. lia.
Qed.
End BinTreeProofs.
