(* Model of structure/trees/redblacktree/redblacktree.go (the gods variant): recursive functional
   formulation that makes the same decisions, hence the same shapes and colours, as the pointer code
   (validated against the real code: notes/prototypes/rb_functional_mirror.py, and on every run by C02).
   Model file: no proofs. *)
From VF Require Import Common.Base C01.SortedMap C01.BinTree.
Local Open Scope Z_scope.

Inductive color := R | B.
Inductive side := SL | SR.

Section RB.
Variables K V : Type.
Variable cmp : K -> K -> Z.
Variable zeroV : V.

Definition tree := BinTree.tree K V color.

Definition is_red (t : tree) := match t with T R _ _ _ _ => true | _ => false end.
Definition is_black (t : tree) := negb (is_red t).                (* nodeColor(nil) = black *)
Definition has_red_child (p : tree) := match p with E => false | T _ l _ _ r => is_red l || is_red r end.
Definition blacken (t : tree) : tree := match t with E => E | T _ l k v r => T B l k v r end.

(* insertCase2..5 seen from the grandparent [T c l k v r]; [l] is the subtree that was just rebuilt.
   Fires exactly when the rebuilt child is red with a red child (the node insertCase1 is running on):
   case 3 = red uncle: recolour, the red-red question moves up; case 4 = inner grandchild: rotate the
   parent first; case 5 = recolour and rotate the grandparent. *)
Definition fixL (c : color) (l : tree) (k : K) (v : V) (r : tree) : tree :=
  if is_red l && has_red_child l then
    if is_red r then T R (blacken l) k v (blacken r)
    else match l with
         | T _ ll lk lv lr =>
           if is_red lr && is_black ll then
             match lr with
             | T _ nl nk nv nr => T B (T R ll lk lv nl) nk nv (T R nr k v r)
             | E => T c l k v r
             end
           else T B ll lk lv (T R lr k v r)
         | E => T c l k v r
         end
  else T c l k v r.

Definition fixR (c : color) (l : tree) (k : K) (v : V) (r : tree) : tree :=
  if is_red r && has_red_child r then
    if is_red l then T R (blacken l) k v (blacken r)
    else match r with
         | T _ rl rk rv rr =>
           if is_red rl && is_black rr then
             match rl with
             | T _ nl nk nv nr => T B (T R l k v nl) nk nv (T R nr rk rv rr)
             | E => T c l k v r
             end
           else T B (T R l k v rl) rk rv rr
         | E => T c l k v r
         end
  else T c l k v r.

(* Put's descent; on compare == 0 key and value are overwritten, no fix-up *)
Fixpoint ins (k : K) (v : V) (t : tree) : tree :=
  match t with
  | E => T R E k v E
  | T c l k' v' r =>
    let d := cmp k k' in
    if d =? 0 then T c l k v r
    else if d <? 0 then fixL c (ins k v l) k' v' r
    else fixR c l k' v' (ins k v r)
  end.

(* insertCase1 at the root *)
Definition put (k : K) (v : V) (t : tree) : tree := blacken (ins k v t).

(* deleteCase3..6: parent colour c, deficient child n on side sd, sibling s *)
Definition mk (sd : side) (c : color) (k : K) (v : V) (n s : tree) : tree :=
  match sd with SL => T c n k v s | SR => T c s k v n end.

Definition cases3to6 (c : color) (k : K) (v : V) (n s : tree) (sd : side) : tree * bool :=
  match s with
  | E => (mk sd c k v n s, false)      (* no sibling: impossible below a black deficit; the Go code would dereference nil *)
  | T sc sl sk sv sr =>
    if is_black s && is_black sl && is_black sr then
      match c with
      | B => (mk sd B k v n (T R sl sk sv sr), true)            (* case 3: recolour, deficit moves up *)
      | R => (mk sd B k v n (T R sl sk sv sr), false)           (* case 4 *)
      end
    else
      (* case 5: inner nephew red, outer black: rotate the sibling *)
      let s5 :=
        match sd with
        | SL => if is_black s && is_red sl && is_black sr then
                  match sl with T _ ll lk lv lr => T B ll lk lv (T R lr sk sv sr) | E => s end
                else s
        | SR => if is_black s && is_red sr && is_black sl then
                  match sr with T _ rl rk rv rr => T B (T R sl sk sv rl) rk rv rr | E => s end
                else s
        end in
      (* case 6: sibling takes the parent's colour, parent black, outer nephew black, rotate the parent *)
      match s5 with
      | E => (mk sd c k v n s5, false)
      | T _ l6 k6 v6 r6 =>
        match sd with
        | SL => if is_red r6 then (T c (T B n k v l6) k6 v6 (blacken r6), false)
                else (T B n k v (T c l6 k6 v6 r6), false)
        | SR => if is_red l6 then (T c (blacken l6) k6 v6 (T B r6 k v n), false)
                else (T B (T c l6 k6 v6 r6) k v n, false)
        end
      end
  end.

(* deleteCase2 (red sibling: rotate, then cases 3..6 under the now red parent) or cases 3..6 *)
Definition fix_deficit (c : color) (k : K) (v : V) (n s : tree) (sd : side) : tree * bool :=
  match s with
  | T R sl sk sv sr =>
    match sd with
    | SL => let '(sub, _) := cases3to6 R k v n sl SL in (T B sub sk sv sr, false)
    | SR => let '(sub, _) := cases3to6 R k v n sr SR in (T B sl sk sv sub, false)
    end
  | _ => cases3to6 c k v n s sd
  end.

(* physical removal of a node with at most one child: a black node leaves a deficit; its (red) child,
   if any, takes its place unchanged - the gods variant *)
Definition unlink (c : color) (child : tree) : tree * bool :=
  match c with B => (child, true) | R => (child, false) end.

(* remove the in-order predecessor (maximumNode of the left subtree) *)
Fixpoint del_max (t : tree) : option (K * V) * tree * bool :=
  match t with
  | E => (None, E, false)
  | T c l k v r =>
    match r with
    | E => let '(t', d) := unlink c l in (Some (k, v), t', d)
    | _ => let '(m, r', d) := del_max r in
           if d then let '(t', d') := fix_deficit c k v r' l SR in (m, t', d')
           else (m, T c l k v r', false)
    end
  end.

Fixpoint del (x : K) (t : tree) : tree * bool :=
  match t with
  | E => (E, false)
  | T c l k v r =>
    let d := cmp x k in
    if d <? 0 then
      let '(l', df) := del x l in
      if df then fix_deficit c k v l' r SL else (T c l' k v r, false)
    else if d >? 0 then
      let '(r', df) := del x r in
      if df then fix_deficit c k v r' l SR else (T c l k v r', false)
    else
      match l, r with
      | T _ _ _ _ _, T _ _ _ _ _ =>
        let '(m, l', df) := del_max l in
        match m with
        | Some (pk, pv) =>
          if df then fix_deficit c pk pv l' r SL else (T c l' pk pv r, false)
        | None => (t, false)
        end
      | _, E => unlink c l
      | E, _ => unlink c r
      end
  end.

(* Remove: when the root itself is unlinked its child becomes the black root (node.Parent == nil);
   otherwise the fix-up decides every colour *)
Definition remove (x : K) (t : tree) : tree :=
  match t with
  | E => E
  | T _ l k _ r =>
    if (cmp x k =? 0) && (isE l || isE r) then blacken (if isE r then l else r)
    else fst (del x t)
  end.

(* ---------- the container: root + cached size ---------- *)
Record state := mkState { root : tree; size : Z }.
Definition empty : state := {| root := E; size := 0 |}.

Definition is_some {X} (o : option X) : bool := match o with Some _ => true | None => false end.

Definition step (s : state) (o : op K V) : state * out K V :=
  match o with
  | Put k v => ({| root := put k v (root s);
                   size := if is_some (lookup cmp k (root s)) then size s else size s + 1 |}, ONone)
  | Remove k => (if is_some (lookup cmp k (root s))
                 then {| root := remove k (root s); size := size s - 1 |} else s, ONone)
  | Clear => (empty, ONone)
  | Get k => (s, match lookup cmp k (root s) with Some v => OGet v true | None => OGet zeroV false end)
  | Size => (s, OSize (size s))
  | Empty => (s, OBool (size s =? 0))
  | Keys => (s, OKeys (map fst (elements (root s))))
  | Values => (s, OVals (map snd (elements (root s))))
  | Left => (s, OEntry (leftmost (root s) None))
  | Right => (s, OEntry (rightmost (root s) None))
  | Floor k => (s, OEntry (floor_go cmp k (root s) None))
  | Ceiling k => (s, OEntry (ceiling_go cmp k (root s) None))
  end.
End RB.

Arguments root {K V}. Arguments size {K V}. Arguments mkState {K V}.
