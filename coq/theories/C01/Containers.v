(* Models of the red-black-tree backed containers: maps/treemap (thin wrapper, zero key/value instead of
   nil for Min/Max/Floor/Ceiling), sets/treeset (unit values, argument lists), maps/treebidimap (two
   trees updated in the order of Put/Remove). Model file: no proofs. *)
From VF Require Import Common.Base C01.SortedMap C01.BinTree C01.RB.
Local Open Scope Z_scope.

Section TreeMap.
Variables K V : Type.
Variable cmp : K -> K -> Z.
Variable zeroK : K.
Variable zeroV : V.
(* Left = Min, Right = Max *)
Definition treemap_step (s : RB.state K V) (o : op K V) : RB.state K V * xout K V :=
  let '(s', r) := RB.step K V cmp zeroV s o in (s', zero_wrap K V zeroV zeroK o r).
End TreeMap.

Section TreeSet.
Variable K : Type.
Variable cmp : K -> K -> Z.
Definition ts_state := RB.state K unit.
Definition ts_put (s : ts_state) (k : K) : ts_state := fst (RB.step K unit cmp tt s (Put k tt)).
Definition ts_remove (s : ts_state) (k : K) : ts_state := fst (RB.step K unit cmp tt s (Remove k)).
Definition treeset_step (s : ts_state) (o : sop K) : ts_state * sout K :=
  match o with
  | SAdd ks => (fold_left ts_put ks s, SONone)
  | SRemove ks => (fold_left ts_remove ks s, SONone)
  | SContains ks => (s, SOBool (forallb (fun k => RB.is_some (lookup cmp k (root s))) ks))
  | SSize => (s, SOSize (size s))
  | SEmpty => (s, SOBool (size s =? 0))
  | SClear => (RB.empty K unit, SONone)
  | SValues => (s, SOVals (map fst (elements (root s))))
  end.
End TreeSet.

Section TreeBidiMap.
Variables K V : Type.
Variable cmpK : K -> K -> Z.
Variable cmpV : V -> V -> Z.
Variable zeroK : K.
Variable zeroV : V.

Record tb_state := mkTB { fwd : RB.state K V; inv : RB.state V K }.
Definition tb_empty : tb_state := {| fwd := RB.empty K V; inv := RB.empty V K |}.

Definition fstep (s : RB.state K V) (o : op K V) := fst (RB.step K V cmpK zeroV s o).
Definition istep (s : RB.state V K) (o : op V K) := fst (RB.step V K cmpV zeroK s o).

Definition tb_put (k : K) (v : V) (s : tb_state) : tb_state :=
  let inv1 := match lookup cmpK k (root (fwd s)) with Some d => istep (inv s) (Remove d) | None => inv s end in
  let fwd1 := match lookup cmpV v (root inv1) with Some d => fstep (fwd s) (Remove d) | None => fwd s end in
  {| fwd := fstep fwd1 (Put k v); inv := istep inv1 (Put v k) |}.

Definition tb_remove (k : K) (s : tb_state) : tb_state :=
  match lookup cmpK k (root (fwd s)) with
  | Some d => {| fwd := fstep (fwd s) (Remove k); inv := istep (inv s) (Remove d) |}
  | None => s
  end.

Definition tbidi_step (s : tb_state) (o : bop K V) : tb_state * bout K V :=
  match o with
  | BPut k v => (tb_put k v s, BONone)
  | BRemove k => (tb_remove k s, BONone)
  | BClear => (tb_empty, BONone)
  | BGet k => (s, match lookup cmpK k (root (fwd s)) with Some v => BOGet v true | None => BOGet zeroV false end)
  | BGetKey v => (s, match lookup cmpV v (root (inv s)) with Some k => BOGetKey k true | None => BOGetKey zeroK false end)
  | BSize => (s, BOSize (size (fwd s)))
  | BEmpty => (s, BOBool (size (fwd s) =? 0))
  | BKeys => (s, BOKeys (map fst (elements (root (fwd s)))))
  | BValues => (s, BOVals (map fst (elements (root (inv s)))))
  end.
End TreeBidiMap.
Arguments fwd {K V}. Arguments inv {K V}. Arguments mkTB {K V}.
