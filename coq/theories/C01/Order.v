(* Comparator laws: a Go comparator is [cmp : K -> K -> Z], used by the tree code only through the
   sign tests [= 0], [< 0], [> 0]. All ordered-container theorems are proved in Sections over an
   arbitrary [K], [cmp] and a proof of [CmpLaws cmp] (a premise, never an axiom). *)
From Coq Require Import ZArith Lia.
Local Open Scope Z_scope.

Record CmpLaws {K : Type} (cmp : K -> K -> Z) : Prop := {
  cmp_antisym_lt : forall a b, cmp a b < 0 <-> cmp b a > 0;
  cmp_antisym_eq : forall a b, cmp a b = 0 <-> cmp b a = 0;
  cmp_trans : forall a b c, cmp a b <= 0 -> cmp b c <= 0 -> cmp a c <= 0
}.

Section Derived.
Context {K : Type} {cmp : K -> K -> Z} (O : CmpLaws cmp).

Lemma cmp_refl a : cmp a a = 0.
Proof.
  pose proof (cmp_antisym_lt cmp O a a) as H. lia.
Qed.

Lemma lt_le_trans a b c : cmp a b < 0 -> cmp b c <= 0 -> cmp a c < 0.
Proof.
  intros H1 H2. assert (H3 : cmp a c <= 0) by (apply (cmp_trans cmp O) with b; lia).
  destruct (Z.eq_dec (cmp a c) 0) as [E0|]; [|lia].
  assert (cmp c a <= 0) by (apply (cmp_antisym_eq cmp O) in E0; lia).
  assert (cmp b a <= 0) by (apply (cmp_trans cmp O) with c; lia).
  apply (cmp_antisym_lt cmp O) in H1. lia.
Qed.

Lemma le_lt_trans a b c : cmp a b <= 0 -> cmp b c < 0 -> cmp a c < 0.
Proof.
  intros H1 H2. assert (H3 : cmp a c <= 0) by (apply (cmp_trans cmp O) with b; lia).
  destruct (Z.eq_dec (cmp a c) 0) as [E0|]; [|lia].
  assert (cmp c a <= 0) by (apply (cmp_antisym_eq cmp O) in E0; lia).
  assert (cmp c b <= 0) by (apply (cmp_trans cmp O) with a; lia).
  apply (cmp_antisym_lt cmp O) in H2. lia.
Qed.

Lemma lt_trans a b c : cmp a b < 0 -> cmp b c < 0 -> cmp a c < 0.
Proof. intros; apply lt_le_trans with b; lia. Qed.

Lemma gt_lt a b : cmp a b > 0 <-> cmp b a < 0.
Proof. symmetry. apply (cmp_antisym_lt cmp O). Qed.

Lemma ge_le a b : cmp a b >= 0 <-> cmp b a <= 0.
Proof.
  pose proof (cmp_antisym_lt cmp O a b). pose proof (cmp_antisym_lt cmp O b a).
  pose proof (cmp_antisym_eq cmp O a b). lia.
Qed.

(* keys equivalent under the comparator compare alike against everything *)
Lemma eq_lt_l a b c : cmp a b = 0 -> cmp a c < 0 -> cmp b c < 0.
Proof. intros E H. apply le_lt_trans with a; auto. apply (cmp_antisym_eq cmp O) in E. lia. Qed.
Lemma eq_lt_r a b c : cmp a b = 0 -> cmp c a < 0 -> cmp c b < 0.
Proof. intros E H. apply lt_le_trans with a; auto. lia. Qed.
Lemma eq_gt_l a b c : cmp a b = 0 -> cmp a c > 0 -> cmp b c > 0.
Proof. intros E H. apply gt_lt. apply gt_lt in H. eapply eq_lt_r; eauto. Qed.
Lemma eq_eq_l a b c : cmp a b = 0 -> cmp a c = 0 -> cmp b c = 0.
Proof.
  intros E H.
  destruct (Z.lt_trichotomy (cmp b c) 0) as [L|[L|L]]; auto.
  - assert (cmp a c < 0) by (apply le_lt_trans with b; lia). lia.
  - assert (cmp c b < 0) by (apply gt_lt; lia).
    assert (cmp c a < 0) by (apply lt_le_trans with b; auto; apply (cmp_antisym_eq cmp O) in E; lia).
    apply gt_lt in H1. lia.
Qed.
End Derived.

(* the built-in ordered comparator on Go [int] (bcomparator.OrderedComparator) *)
Definition zcmp (a b : Z) : Z := if a =? b then 0 else if a >? b then 1 else -1.

Lemma zcmp_laws : CmpLaws zcmp.
Proof.
  unfold zcmp. constructor.
  - intros a b. destruct (Z.eqb_spec a b), (Z.eqb_spec b a), (Z.gtb_spec a b), (Z.gtb_spec b a); lia.
  - intros a b. destruct (Z.eqb_spec a b), (Z.eqb_spec b a), (Z.gtb_spec a b), (Z.gtb_spec b a); lia.
  - intros a b c. destruct (Z.eqb_spec a b), (Z.eqb_spec b c), (Z.eqb_spec a c),
      (Z.gtb_spec a b), (Z.gtb_spec b c), (Z.gtb_spec a c); lia.
Qed.
