(* Binary search trees with a per-node annotation [A] (colour for red-black, balance factor for AVL).
   The read-only descents (lookup, Left/Right, Floor/Ceiling, in-order walk) are textually the same
   in redblacktree.go and avltree.go; they are modelled once. Model file: no proofs. *)
From VF Require Import Common.Base.
Local Open Scope Z_scope.

Section BinTree.
Variables K V A : Type.
Variable cmp : K -> K -> Z.

Inductive tree := E | T (a : A) (l : tree) (k : K) (v : V) (r : tree).

(* in-order walk = what the iterator behind Keys()/Values() enumerates *)
Fixpoint elements (t : tree) : list (K * V) :=
  match t with E => [] | T _ l k v r => elements l ++ (k, v) :: elements r end.

(* Tree.lookup / GetNode *)
Fixpoint lookup (x : K) (t : tree) : option V :=
  match t with
  | E => None
  | T _ l k v r => let d := cmp x k in if d =? 0 then Some v else if d <? 0 then lookup x l else lookup x r
  end.

(* Left()/Right(): for current != nil { parent = current; current = current.Left } *)
Fixpoint leftmost (t : tree) (acc : option (K * V)) : option (K * V) :=
  match t with E => acc | T _ l k v _ => leftmost l (Some (k, v)) end.
Fixpoint rightmost (t : tree) (acc : option (K * V)) : option (K * V) :=
  match t with E => acc | T _ _ k v r => rightmost r (Some (k, v)) end.

(* Floor: on compare > 0 remember the node and go right *)
Fixpoint floor_go (x : K) (t : tree) (acc : option (K * V)) : option (K * V) :=
  match t with
  | E => acc
  | T _ l k v r =>
    let d := cmp x k in
    if d =? 0 then Some (k, v) else if d <? 0 then floor_go x l acc else floor_go x r (Some (k, v))
  end.
(* Ceiling: on compare < 0 remember the node and go left *)
Fixpoint ceiling_go (x : K) (t : tree) (acc : option (K * V)) : option (K * V) :=
  match t with
  | E => acc
  | T _ l k v r =>
    let d := cmp x k in
    if d =? 0 then Some (k, v) else if d <? 0 then ceiling_go x l (Some (k, v)) else ceiling_go x r acc
  end.

Definition isE (t : tree) : bool := match t with E => true | _ => false end.
Fixpoint count (t : tree) : nat := match t with E => O | T _ l _ _ r => S (count l + count r) end.
Fixpoint height (t : tree) : nat := match t with E => O | T _ l _ _ r => S (Nat.max (height l) (height r)) end.
End BinTree.

Arguments E {K V A}.
Arguments T {K V A}.
Arguments elements {K V A}.
Arguments lookup {K V A}.
Arguments leftmost {K V A}.
Arguments rightmost {K V A}.
Arguments floor_go {K V A}.
Arguments ceiling_go {K V A}.
Arguments isE {K V A}.
Arguments count {K V A}.
Arguments height {K V A}.
