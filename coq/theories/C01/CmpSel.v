(* Comparator shapes exercised by the correspondence runs of C01/C02. A Go comparator may return any int, only
   its sign matters to a correct tree; the harness builds the real containers with each of these (NewWith...)
   and the case files name the shape, which is interpreted here as the Z-valued function handed to the model and
   to the reference map. Each shape satisfies the comparator laws, so the parametric theorems cover every case
   that is evaluated (keys in the runs stay below 2^40 in absolute value, so the Go ints do not overflow). *)
From Coq Require Import ZArith Lia.
From VF Require Import C01.Order.
Local Open Scope Z_scope.

Inductive cmpsel :=
| CInt        (* bcomparator.IntComparator: -1 / 0 / +1 *)
| CSub        (* a - b *)
| CDesc       (* b - a : descending order *)
| CScale7     (* (a - b) * 7 *)
| CDescBig    (* (b - a) * 1000003 *)
| CClamp.     (* a - b clamped to [-3, 3] *)

Definition zcmp_of (c : cmpsel) : Z -> Z -> Z :=
  match c with
  | CInt => zcmp
  | CSub => fun a b => a - b
  | CDesc => fun a b => b - a
  | CScale7 => fun a b => (a - b) * 7
  | CDescBig => fun a b => (b - a) * 1000003
  | CClamp => fun a b => Z.max (-3) (Z.min 3 (a - b))
  end.

Theorem zcmp_of_laws c : CmpLaws (zcmp_of c).
Proof.
  destruct c; cbn [zcmp_of]; [exact zcmp_laws| | | | |]; constructor; intros; lia.
Qed.

(* all shapes separate keys (needed by the bidi-map bijection theorem) *)
Theorem zcmp_of_separates c a b : zcmp_of c a b = 0 -> a = b.
Proof.
  destruct c; cbn [zcmp_of]; try lia.
  unfold zcmp. destruct (Z.eqb_spec a b); [auto|]. destruct (a >? b); lia.
Qed.
