(* C01, treebidimap: forward and inverse maps stay mutually inverse after every operation (including every
   overwrite pattern of Put). Stated for comparators that separate keys (cmp a b = 0 -> a = b), which holds for
   the built-in int and string comparators; then "the inverse map sends v to k" is an equality of keys. *)
From VF Require Import Common.Base C01.Order C01.SortedMap C01.SpecProofs C01.BinTree C01.RB C01.RBProofs
  C01.Containers C01.ContainersProofs.
Local Open Scope Z_scope.

Section Bidi.
Context {K V : Type} {cmpK : K -> K -> Z} {cmpV : V -> V -> Z} (OK : CmpLaws cmpK) (OV : CmpLaws cmpV).
Hypothesis sepK : forall a b, cmpK a b = 0 -> a = b.
Hypothesis sepV : forall a b, cmpV a b = 0 -> a = b.
Variables (zeroK : K) (zeroV : V).

Notation getK := (sm_get K V cmpK).
Notation getV := (sm_get V K cmpV).

(* forward and inverse lists are mutually inverse finite maps *)
Definition BijF (b : bimap K V) : Prop :=
  forall k v, getK k (fst b) = Some v <-> getV v (snd b) = Some k.
Definition BI (b : bimap K V) : Prop :=
  sorted K V cmpK (fst b) /\ sorted V K cmpV (snd b) /\ BijF b.

Lemma eqK x k : (cmpK x k =? 0) = true <-> x = k.
Proof. rewrite Z.eqb_eq. split; [apply sepK|intros ->; apply (cmp_refl OK)]. Qed.
Lemma eqV x k : (cmpV x k =? 0) = true <-> x = k.
Proof. rewrite Z.eqb_eq. split; [apply sepV|intros ->; apply (cmp_refl OV)]. Qed.

Lemma getK_put x k v m : getK x (sm_put K V cmpK k v m) = if cmpK x k =? 0 then Some v else getK x m.
Proof. apply (sm_get_put OK). Qed.
Lemma getV_put x k v m : getV x (sm_put V K cmpV k v m) = if cmpV x k =? 0 then Some v else getV x m.
Proof. apply (sm_get_put OV). Qed.
Lemma getK_remove x k m : sorted K V cmpK m ->
  getK x (sm_remove K V cmpK k m) = if cmpK x k =? 0 then None else getK x m.
Proof. apply (sm_get_remove OK). Qed.
Lemma getV_remove x k m : sorted V K cmpV m ->
  getV x (sm_remove V K cmpV k m) = if cmpV x k =? 0 then None else getV x m.
Proof. apply (sm_get_remove OV). Qed.

Section Put.
Variables (fw : list (K * V)) (bw : list (V * K)).
Hypothesis HB : BI (fw, bw).
Variables (k : K) (v : V).
Let bw1 := match getK k fw with Some d => sm_remove V K cmpV d bw | None => bw end.
Let fw1 := match getV v bw1 with Some d => sm_remove K V cmpK d fw | None => fw end.

Lemma HBij x y : getK x fw = Some y <-> getV y bw = Some x.
Proof. destruct HB as (_ & _ & H). apply (H x y). Qed.
Lemma Sfw : sorted K V cmpK fw. Proof. destruct HB as (H & _ & _). exact H. Qed.
Lemma Sbw : sorted V K cmpV bw. Proof. destruct HB as (_ & H & _). exact H. Qed.

Lemma bw1_sorted : sorted V K cmpV bw1.
Proof. unfold bw1. destruct (getK k fw); [apply sm_remove_sorted|]; apply Sbw. Qed.
Lemma fw1_sorted : sorted K V cmpK fw1.
Proof. unfold fw1. destruct (getV v bw1); [apply sm_remove_sorted|]; apply Sfw. Qed.

Lemma bw1_some x y : getV x bw1 = Some y -> getV x bw = Some y /\ getK k fw <> Some x.
Proof.
  unfold bw1. destruct (getK k fw) as [ov|] eqn:E.
  - rewrite getV_remove by apply Sbw. destruct (cmpV x ov =? 0) eqn:Ex; [discriminate|].
    intros H. split; auto. intros Hc. assert (Hx : x = ov) by congruence. apply eqV in Hx. congruence.
  - intros H. split; auto. discriminate.
Qed.
Lemma bw1_keep x y : getV x bw = Some y -> getK k fw <> Some x -> getV x bw1 = Some y.
Proof.
  unfold bw1. intros H Hn. destruct (getK k fw) as [ov|] eqn:E; auto.
  rewrite getV_remove by apply Sbw. destruct (cmpV x ov =? 0) eqn:Ex; auto.
  apply eqV in Ex. subst. congruence.
Qed.
Lemma fw1_some x y : getK x fw1 = Some y -> getK x fw = Some y /\ getV v bw1 <> Some x.
Proof.
  unfold fw1. destruct (getV v bw1) as [ok|] eqn:E.
  - rewrite getK_remove by apply Sfw. destruct (cmpK x ok =? 0) eqn:Ex; [discriminate|].
    intros H. split; auto. intros Hc. assert (Hx : x = ok) by congruence. apply eqK in Hx. congruence.
  - intros H. split; auto. discriminate.
Qed.
Lemma fw1_keep x y : getK x fw = Some y -> getV v bw1 <> Some x -> getK x fw1 = Some y.
Proof.
  unfold fw1. intros H Hn. destruct (getV v bw1) as [ok|] eqn:E; auto.
  rewrite getK_remove by apply Sfw. destruct (cmpK x ok =? 0) eqn:Ex; auto.
  apply eqK in Ex. subst. congruence.
Qed.

Theorem put_bij : BI (bij_put K V cmpK cmpV k v (fw, bw)).
Proof.
  unfold bij_put. fold bw1. fold fw1. unfold BI. cbn [fst snd].
  split; [apply (sm_put_sorted OK), fw1_sorted|]. split; [apply (sm_put_sorted OV), bw1_sorted|].
  intros k' v'. cbn [fst snd]. rewrite getK_put, getV_put.
  destruct (cmpK k' k =? 0) eqn:Ek; destruct (cmpV v' v =? 0) eqn:Ev.
  - apply eqK in Ek. apply eqV in Ev. rewrite Ek, Ev. tauto.
  - (* k' = k, v' <> v *)
    apply eqK in Ek. split.
    + intros H. assert (Hv : v' = v) by congruence. apply eqV in Hv. congruence.
    + intros H. apply bw1_some in H. destruct H as [H1 H2]. exfalso. apply H2. apply HBij. congruence.
  - (* k' <> k, v' = v *)
    apply eqV in Ev. split.
    + intros H. exfalso. apply fw1_some in H. destruct H as [H1 H2]. apply H2.
      rewrite <- Ev. apply bw1_keep; [apply HBij; exact H1|].
      intros Hc. assert (Hk : k' = k) by (apply HBij in Hc; apply HBij in H1; congruence).
      apply eqK in Hk. congruence.
    + intros H. assert (Hk : k' = k) by congruence. apply eqK in Hk. congruence.
  - split; intros H.
    + apply fw1_some in H. destruct H as [H1 _]. apply bw1_keep; [apply HBij; exact H1|].
      intros Hc. assert (Hk : k' = k) by (apply HBij in Hc; apply HBij in H1; congruence).
      apply eqK in Hk. congruence.
    + apply bw1_some in H. destruct H as [H1 _]. apply fw1_keep; [apply HBij; exact H1|].
      intros Hc. apply bw1_some in Hc. destruct Hc as [Hc _].
      assert (Hv : v' = v) by (apply HBij in Hc; apply HBij in H1; congruence). apply eqV in Hv. congruence.
Qed.

Theorem remove_bij : BI (bij_remove K V cmpK cmpV k (fw, bw)).
Proof.
  unfold bij_remove. destruct (getK k fw) as [d|] eqn:E; [|exact HB].
  unfold BI. cbn [fst snd].
  split; [apply sm_remove_sorted, Sfw|]. split; [apply sm_remove_sorted, Sbw|].
  intros k' v'. cbn [fst snd]. rewrite getK_remove by apply Sfw. rewrite getV_remove by apply Sbw.
  destruct (cmpK k' k =? 0) eqn:Ek; destruct (cmpV v' d =? 0) eqn:Ev.
  - split; discriminate.
  - apply eqK in Ek. split; [discriminate|]. intros H. apply HBij in H.
    assert (Hv : v' = d) by congruence. apply eqV in Hv. congruence.
  - apply eqV in Ev. split; [|discriminate]. intros H. apply HBij in H. apply HBij in E.
    assert (Hk : k' = k) by congruence. apply eqK in Hk. congruence.
  - apply HBij.
Qed.
End Put.

Lemma BI_empty : BI ([], []).
Proof. unfold BI, BijF. simpl. repeat split; try constructor; discriminate. Qed.

Theorem bij_step_BI b o : BI b -> BI (fst (bij_step K V cmpK cmpV zeroK zeroV b o)).
Proof.
  intros HB. destruct b as [fw bw]. destruct o; cbn [bij_step fst]; auto.
  - now apply put_bij.
  - now apply remove_bij.
  - apply BI_empty.
Qed.

Theorem bij_run_BI ops : BI (fst (run (bij_step K V cmpK cmpV zeroK zeroV) ([], []) ops)).
Proof. apply run_invariant; [intros; now apply bij_step_BI|apply BI_empty]. Qed.

(* the same for the two red-black trees of the container: Get k = v exactly when GetKey v = k *)
Theorem tbidi_bijection ops :
  let s := fst (run (tbidi_step K V cmpK cmpV zeroK zeroV) (tb_empty K V) ops) in
  forall k v, lookup cmpK k (RB.root (fwd s)) = Some v <-> lookup cmpV v (RB.root (inv s)) = Some k.
Proof.
  intros s k v. subst s.
  pose proof (bidi_run_related OK OV zeroK zeroV ops) as [HF HI].
  pose proof (bij_run_BI ops) as (_ & _ & HB).
  rewrite (lookup_fwd OK _ _ _ HF), (lookup_inv OV _ _ _ HI). apply HB.
Qed.
End Bidi.
