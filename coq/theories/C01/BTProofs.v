(* C01: the B-tree model (C01/BTree.v, any order m >= 3) refines the reference sorted map: the in-order
   walk of the tree after every operation is the sorted list the specification computes, and every
   observable result agrees. Builds on the shape preservation / never-stuck theorems of C02/BTProofs.v. *)
From VF Require Import Common.Base C01.Order C01.SortedMap C01.SpecProofs C01.BTree C02.Inv C02.BTProofs.
From Coq Require Import ZifyNat ZifyBool.
Ltac Zify.zify_post_hook ::= Z.div_mod_to_equations.

(* ---------------- generic list facts ---------------- *)
Section Lists.
Context {A : Type}.

(* children's walks interleaved with the node's entries: l0 e0 l1 e1 ... l(n-1) e(n-1) ln, written exactly
   as the nested fix inside [BTree.elements] *)
Fixpoint interleave (ls : list (list A)) (es : list A) : list A :=
  match ls with
  | [] => es
  | l :: ls' => match es with
                | [] => l
                | e :: es' => l ++ e :: interleave ls' es'
                end
  end.
(* l0 e0 l1 e1 ... *)
Fixpoint pre_il (ls : list (list A)) (es : list A) : list A :=
  match ls, es with
  | l :: ls', e :: es' => l ++ e :: pre_il ls' es'
  | _, _ => []
  end.
(* e0 l0 e1 l1 ... *)
Fixpoint post_il (es : list A) (ls : list (list A)) : list A :=
  match es, ls with
  | e :: es', l :: ls' => e :: l ++ post_il es' ls'
  | _, _ => []
  end.

Lemma interleave_cons_post : forall es l ls,
  length ls = length es -> interleave (l :: ls) es = l ++ post_il es ls.
Proof.
  induction es as [|e es IH]; intros l ls Hlen; destruct ls as [|l' ls]; try discriminate; cbn [interleave post_il].
  - now rewrite app_nil_r.
  - f_equal. f_equal. apply IH. simpl in Hlen. lia.
Qed.

Lemma interleave_split : forall p l q a b,
  length a = length p -> length b = length q ->
  interleave (p ++ l :: q) (a ++ b) = pre_il p a ++ l ++ post_il b q.
Proof.
  induction p as [|x p IH]; intros l q a b Ha Hb; destruct a as [|e a]; try discriminate.
  - cbn [app pre_il]. apply interleave_cons_post. lia.
  - cbn [app interleave pre_il]. rewrite IH by (simpl in Ha; lia). now rewrite <- app_assoc.
Qed.

Lemma pre_il_snoc : forall ls es e,
  length ls = S (length es) -> pre_il ls (es ++ [e]) = interleave ls es ++ [e].
Proof.
  induction ls as [|l ls IH]; intros es e Hlen; [discriminate|].
  destruct es as [|e0 es].
  - destruct ls; [|discriminate]. reflexivity.
  - cbn [app pre_il interleave]. rewrite IH by (simpl in Hlen; lia). now rewrite <- app_assoc.
Qed.

Lemma interleave_app : forall l1 l2 e1 sep e2,
  length l1 = S (length e1) ->
  interleave (l1 ++ l2) (e1 ++ sep :: e2) = interleave l1 e1 ++ sep :: interleave l2 e2.
Proof.
  induction l1 as [|l l1 IH]; intros l2 e1 sep e2 Hlen; [discriminate|].
  destruct e1 as [|e e1].
  - destruct l1; [|discriminate]. reflexivity.
  - cbn [app interleave]. rewrite IH by (simpl in Hlen; lia). now rewrite <- app_assoc.
Qed.

Lemma interleave_Forall (P : A -> Prop) : forall ls es,
  length ls = S (length es) -> Forall P (interleave ls es) -> Forall P es.
Proof.
  induction ls as [|l ls IH]; intros es Hlen HF; [discriminate|].
  destruct es as [|e es]; [constructor|]. cbn [interleave] in HF.
  apply Forall_app in HF. destruct HF as [_ HF]. inversion HF as [|? ? He HF']; subst. constructor; [exact He|].
  apply IH; [simpl in Hlen; lia|exact HF'].
Qed.

Lemma ne_firstn_lt : forall i (l : list A) j x, nth_error (firstn i l) j = Some x -> j < i /\ nth_error l j = Some x.
Proof.
  induction i as [|i IH]; intros l j x H.
  - rewrite firstn_O in H. destruct j; discriminate.
  - destruct l as [|a l]; [rewrite firstn_nil in H; destruct j; discriminate|].
    rewrite firstn_cons in H. destruct j as [|j]; [split; [lia|exact H]|].
    cbn [nth_error] in *. apply IH in H. split; [lia|tauto].
Qed.

Lemma ne_skipn : forall i (l : list A) j, nth_error (skipn i l) j = nth_error l (i + j).
Proof.
  induction i as [|i IH]; intros l j; [reflexivity|].
  destruct l as [|a l]; [rewrite skipn_nil; destruct j; reflexivity|]. rewrite skipn_cons. simpl. apply IH.
Qed.

Lemma ne_Some_lt (l : list A) i x : nth_error l i = Some x -> i < length l.
Proof. intros H. apply nth_error_Some. congruence. Qed.

Lemma ne_lt_Some (l : list A) i : i < length l -> exists x, nth_error l i = Some x.
Proof. intros H. destruct (nth_error l i) eqn:E; [eauto|]. apply nth_error_None in E. lia. Qed.

Lemma Forall_firstn_idx (P : A -> Prop) i l :
  (forall j x, j < i -> nth_error l j = Some x -> P x) -> Forall P (firstn i l).
Proof.
  intros H. apply Forall_forall. intros x Hx. apply In_nth_error in Hx. destruct Hx as [j Hj].
  apply ne_firstn_lt in Hj. destruct Hj as [Hlt Hj]. eauto.
Qed.

Lemma Forall_skipn_idx (P : A -> Prop) i l :
  (forall j x, i <= j -> nth_error l j = Some x -> P x) -> Forall P (skipn i l).
Proof.
  intros H. apply Forall_forall. intros x Hx. apply In_nth_error in Hx. destruct Hx as [j Hj].
  rewrite ne_skipn in Hj. apply (H (i + j)); auto. lia.
Qed.

Lemma fs_mid (pre : list A) rest : firstn (length pre) (pre ++ rest) = pre /\ skipn (length pre) (pre ++ rest) = rest.
Proof.
  split.
  - rewrite firstn_app, Nat.sub_diag, firstn_all, firstn_O. now rewrite app_nil_r.
  - rewrite skipn_app, Nat.sub_diag, skipn_all. reflexivity.
Qed.

Lemma set_nth_mid (pre : list A) x y post : set_nth (length pre) y (pre ++ x :: post) = pre ++ y :: post.
Proof. unfold set_nth. destruct (fs_mid pre (x :: post)) as [-> ->]. reflexivity. Qed.

Lemma remove_nth_mid (pre : list A) x post : remove_nth (length pre) (pre ++ x :: post) = pre ++ post.
Proof.
  unfold remove_nth. destruct (fs_mid pre (x :: post)) as [-> _]. f_equal.
  replace (S (length pre)) with (length (pre ++ [x])) by (rewrite app_length; simpl; lia).
  replace (pre ++ x :: post) with ((pre ++ [x]) ++ post) by (rewrite <- app_assoc; reflexivity).
  apply fs_mid.
Qed.

Lemma insert_at_mid (pre : list A) x post : insert_at (length pre) x (pre ++ post) = pre ++ x :: post.
Proof. unfold insert_at. destruct (fs_mid pre post) as [-> ->]. reflexivity. Qed.

Lemma split_at (l : list A) i : i <= length l -> exists a b, l = a ++ b /\ length a = i.
Proof.
  intros H. exists (firstn i l), (skipn i l). split; [now rewrite firstn_skipn|]. rewrite firstn_length. lia.
Qed.

Lemma rev_cons_last (l : list A) x r : rev l = x :: r -> l = removelast l ++ [x].
Proof.
  intros H. assert (Hl : l = rev r ++ [x]) by (rewrite <- (rev_involutive l), H; reflexivity).
  rewrite Hl at 2. rewrite removelast_last. exact Hl.
Qed.
Lemma app_mid_assoc (x : list A) e y z : x ++ e :: y ++ z = (x ++ e :: y) ++ z.
Proof. now rewrite <- app_assoc. Qed.

Lemma interleave_last p l a : length a = length p -> interleave (p ++ [l]) a = pre_il p a ++ l.
Proof.
  intros H. pose proof (interleave_split p l [] a [] H eq_refl) as E.
  rewrite !app_nil_r in E. exact E.
Qed.

Lemma skipn_S_mid (pre : list A) x post : skipn (S (length pre)) (pre ++ x :: post) = post.
Proof.
  replace (S (length pre)) with (length (pre ++ [x])) by (rewrite app_length; simpl; lia).
  replace (pre ++ x :: post) with ((pre ++ [x]) ++ post) by (rewrite <- app_assoc; reflexivity).
  apply fs_mid.
Qed.

Lemma skipn_SS_mid (pre : list A) x y post : skipn (S (S (length pre))) (pre ++ x :: y :: post) = post.
Proof.
  replace (S (S (length pre))) with (length (pre ++ [x; y])) by (rewrite app_length; simpl; lia).
  replace (pre ++ x :: y :: post) with ((pre ++ [x; y]) ++ post) by (rewrite <- app_assoc; reflexivity).
  apply fs_mid.
Qed.

Lemma replace2_at (pre : list A) x y a b post :
  replace2 (length pre) a b (pre ++ x :: y :: post) = pre ++ a :: b :: post.
Proof. unfold replace2. rewrite skipn_SS_mid. destruct (fs_mid pre (x :: y :: post)) as [-> _]. reflexivity. Qed.

Lemma merge2_at (pre : list A) x y a post :
  merge2 (length pre) a (pre ++ x :: y :: post) = pre ++ a :: post.
Proof. unfold merge2. rewrite skipn_SS_mid. destruct (fs_mid pre (x :: y :: post)) as [-> _]. reflexivity. Qed.

Lemma two_split (l : list A) i x y :
  nth_error l i = Some x -> nth_error l (S i) = Some y -> exists p q, l = p ++ x :: y :: q /\ length p = i.
Proof.
  intros Hx Hy. destruct (nth_error_split l i Hx) as (p & q & -> & Hlen).
  exists p. rewrite nth_error_app2 in Hy by lia. replace (S i - length p) with 1 in Hy by lia.
  destruct q as [|y' q]; [discriminate|]. cbn [nth_error] in Hy. inversion Hy; subst. eauto.
Qed.
End Lists.

Section BTRefine.
Context {K V : Type} {cmp : K -> K -> Z} (O : CmpLaws cmp).
Variable zeroV : V.
Variable m : nat.
Hypothesis m_ge_3 : (3 <= m)%nat.

Notation node := (BTree.node K V).
Notation entry := (K * V)%type.
Notation wf := (Inv.wf K V m).
Notation minE := (BTree.minE m).
Notation maxE := (BTree.maxE m).
Notation middle := (BTree.middle m).
Notation search := (BTree.search K V cmp).
Notation bsearch := (BTree.bsearch K V cmp).
Notation split_if := (BTree.split_if K V m).
Notation ins := (BTree.ins K V cmp m).
Notation fix_child := (BTree.fix_child K V m).
Notation del_max := (BTree.del_max K V m).
Notation del := (BTree.del K V cmp m).
Notation depth := (BTree.depth K V).
Notation elements := (BTree.elements K V).
Notation get := (BTree.get K V cmp).
Notation leftmost := (BTree.leftmost K V).
Notation rightmost := (BTree.rightmost K V).
Notation ltk := (SortedMap.ltk K V cmp).
Notation sorted := (SortedMap.sorted K V cmp).
Notation sm_put := (SortedMap.sm_put K V cmp).
Notation sm_remove := (SortedMap.sm_remove K V cmp).
Notation sm_get := (SortedMap.sm_get K V cmp).
Notation kids_ok := (BTProofs.kids_ok K V m).

(* the key k lies above / below the entry a *)
Definition above (k : K) (a : entry) : Prop := (cmp k (fst a) > 0)%Z.
Definition below (k : K) (a : entry) : Prop := (cmp k (fst a) < 0)%Z.

(* ---------------- the sorted-map operations over a list cut in pieces ---------------- *)
Lemma sm_put_app_above k v l1 l2 : Forall (above k) l1 -> sm_put k v (l1 ++ l2) = l1 ++ sm_put k v l2.
Proof.
  induction l1 as [|[a b] l1 IH]; intros HF; [reflexivity|]. inversion HF as [|? ? Ha HF']; subst.
  unfold above in Ha. cbn [fst] in Ha. cbn [app SortedMap.sm_put].
  destruct (cmp k a =? 0)%Z eqn:E1; [lia|]. destruct (cmp k a <? 0)%Z eqn:E2; [lia|]. now rewrite IH.
Qed.

Lemma sm_put_app_below k v l1 l2 : Forall (below k) l2 -> sm_put k v (l1 ++ l2) = sm_put k v l1 ++ l2.
Proof.
  intros HF. destruct l2 as [|[a b] l2]; [now rewrite !app_nil_r|].
  inversion HF as [|? ? Ha _]; subst. apply sm_put_left. exact Ha.
Qed.

Lemma sm_put_all_below k v l : Forall (below k) l -> sm_put k v l = (k, v) :: l.
Proof.
  intros HF. destruct l as [|[a b] l]; [reflexivity|]. inversion HF as [|? ? Ha _]; subst.
  unfold below in Ha. cbn [fst] in Ha. cbn [SortedMap.sm_put].
  destruct (cmp k a =? 0)%Z eqn:E1; [lia|]. destruct (cmp k a <? 0)%Z eqn:E2; [reflexivity|lia].
Qed.

Lemma sm_remove_app_above k l1 l2 : Forall (above k) l1 -> sm_remove k (l1 ++ l2) = l1 ++ sm_remove k l2.
Proof.
  induction l1 as [|[a b] l1 IH]; intros HF; [reflexivity|]. inversion HF as [|? ? Ha HF']; subst.
  unfold above in Ha. cbn [fst] in Ha. cbn [app SortedMap.sm_remove].
  destruct (cmp k a <? 0)%Z eqn:E1; [lia|]. destruct (cmp k a >? 0)%Z eqn:E2; [|lia]. now rewrite IH.
Qed.

Lemma sm_remove_app_below k l1 l2 : Forall (below k) l2 -> sm_remove k (l1 ++ l2) = sm_remove k l1 ++ l2.
Proof.
  intros HF. destruct l2 as [|[a b] l2]; [now rewrite !app_nil_r|].
  inversion HF as [|? ? Ha _]; subst. apply sm_remove_left. exact Ha.
Qed.

Lemma sm_get_app_above k l1 l2 : Forall (above k) l1 -> sm_get k (l1 ++ l2) = sm_get k l2.
Proof.
  induction l1 as [|[a b] l1 IH]; intros HF; [reflexivity|]. inversion HF as [|? ? Ha HF']; subst.
  unfold above in Ha. cbn [fst] in Ha. cbn [app SortedMap.sm_get].
  destruct (cmp k a =? 0)%Z eqn:E1; [lia|]. destruct (cmp k a <? 0)%Z eqn:E2; [lia|]. now apply IH.
Qed.

Lemma sm_get_app_below k l1 l2 : Forall (below k) l2 -> sm_get k (l1 ++ l2) = sm_get k l1.
Proof.
  intros HF. destruct l2 as [|[a b] l2]; [now rewrite !app_nil_r|].
  inversion HF as [|? ? Ha _]; subst. apply sm_get_left. exact Ha.
Qed.

Lemma sm_get_all_below k l : Forall (below k) l -> sm_get k l = None.
Proof. apply sm_get_all_gt. Qed.

Lemma sm_get_here k k' v' l : cmp k k' = 0%Z -> sm_get k ((k', v') :: l) = Some v'.
Proof. intros H. cbn [SortedMap.sm_get]. destruct (cmp k k' =? 0)%Z eqn:E; [reflexivity|lia]. Qed.

(* entries left of an entry equivalent to k lie below k, and so on *)
Lemma ltk_above k x e : ltk x e -> (cmp k (fst e) >= 0)%Z -> above k x.
Proof.
  unfold SortedMap.ltk, above. intros H1 H2. apply (gt_lt O).
  apply (lt_le_trans O) with (fst e); auto. apply (ge_le O). exact H2.
Qed.
Lemma ltk_below k x e : ltk e x -> (cmp k (fst e) <= 0)%Z -> below k x.
Proof. unfold SortedMap.ltk, below. intros H1 H2. apply (le_lt_trans O) with (fst e); auto. Qed.

Lemma Forall_ltk_above k l e : Forall (fun x => ltk x e) l -> (cmp k (fst e) >= 0)%Z -> Forall (above k) l.
Proof. intros HF Hc. eapply Forall_impl; [|exact HF]. intros x Hx. exact (ltk_above k x e Hx Hc). Qed.
Lemma Forall_ltk_below k l e : Forall (ltk e) l -> (cmp k (fst e) <= 0)%Z -> Forall (below k) l.
Proof. intros HF Hc. eapply Forall_impl; [|exact HF]. intros x Hx. exact (ltk_below k x e Hx Hc). Qed.

(* ---------------- binary search = position in a sorted list ---------------- *)
Lemma sorted_idx : forall (l : list entry) i j a b,
  sorted l -> i < j -> nth_error l i = Some a -> nth_error l j = Some b -> ltk a b.
Proof.
  induction l as [|x l IH]; intros i j a b HS Hij Ha Hb; [destruct i; discriminate|].
  inversion HS as [|? ? HS' HF]; subst. destruct j as [|j]; [lia|]. cbn [nth_error] in Hb.
  destruct i as [|i].
  - cbn [nth_error] in Ha. inversion Ha; subst. rewrite Forall_forall in HF. apply HF. eapply nth_error_In; eauto.
  - cbn [nth_error] in Ha. apply (IH i j a b HS'); [lia|exact Ha|exact Hb].
Qed.

Lemma bsearch_spec es k : sorted es -> forall fuel lo hi,
  lo <= hi -> hi <= length es -> hi - lo <= fuel ->
  (forall j e, j < lo -> nth_error es j = Some e -> above k e) ->
  (forall j e, hi <= j -> nth_error es j = Some e -> below k e) ->
  match bsearch fuel k es lo hi with
  | (i, true) => exists k' v', nth_error es i = Some (k', v') /\ cmp k k' = 0%Z
  | (i, false) => i <= length es /\
                  (forall j e, j < i -> nth_error es j = Some e -> above k e) /\
                  (forall j e, i <= j -> nth_error es j = Some e -> below k e)
  end.
Proof.
  intros HS. induction fuel as [|f IH]; intros lo hi Hle Hhi Hf Hlo Hup; cbn [BTree.bsearch]; unfold BTree.entry in *.
  - assert (lo = hi) by lia. subst hi. repeat split; auto; lia.
  - destruct (hi <=? lo) eqn:E.
    { apply Nat.leb_le in E. assert (lo = hi) by lia. subst hi. repeat split; auto; lia. }
    apply Nat.leb_gt in E.
    assert (Hmid : lo <= (lo + hi - 1) / 2 /\ (lo + hi - 1) / 2 < hi) by lia.
    remember ((lo + hi - 1) / 2) as mid eqn:Emid. clear Emid.
    destruct (nth_error es mid) as [[k' v']|] eqn:En; [|apply nth_error_None in En; lia].
    destruct (cmp k k' >? 0)%Z eqn:E1.
    + apply IH; auto; try lia. intros j e Hj He.
      destruct (Nat.eq_dec j mid) as [->|Hne].
      * rewrite En in He. inversion He; subst. unfold above. cbn [fst]. lia.
      * apply ltk_above with (e := (k', v')); [|cbn [fst]; lia].
        apply (sorted_idx es j mid); auto. lia.
    + destruct (cmp k k' <? 0)%Z eqn:E2.
      * apply IH; auto; try lia. intros j e Hj He.
        destruct (Nat.eq_dec j mid) as [->|Hne].
        -- rewrite En in He. inversion He; subst. unfold below. cbn [fst]. lia.
        -- apply ltk_below with (e := (k', v')); [|cbn [fst]; lia].
           apply (sorted_idx es mid j); auto. lia.
      * exists k', v'. split; auto. lia.
Qed.

Lemma search_found k es i : sorted es -> search k es = (i, true) ->
  exists k' v', nth_error es i = Some (k', v') /\ cmp k k' = 0%Z.
Proof.
  intros HS H. unfold BTree.search, BTree.entry in H.
  pose proof (bsearch_spec es k HS (length es) 0 (length es)) as Hs. rewrite H in Hs.
  apply Hs; try lia.
  intros j e Hj He. apply ne_Some_lt in He. lia.
Qed.

Lemma search_notfound k es i : sorted es -> search k es = (i, false) ->
  i <= length es /\ Forall (above k) (firstn i es) /\ Forall (below k) (skipn i es).
Proof.
  intros HS H. unfold BTree.search, BTree.entry in H.
  pose proof (bsearch_spec es k HS (length es) 0 (length es)) as Hs. rewrite H in Hs.
  destruct Hs as (H1 & H2 & H3); try lia.
  { intros j e Hj He. apply ne_Some_lt in He. lia. }
  split; [exact H1|]. split; [now apply Forall_firstn_idx|now apply Forall_skipn_idx].
Qed.

(* ---------------- the in-order walk ---------------- *)
Lemma elements_node es cs : elements (Node es cs) = interleave (map elements cs) es.
Proof.
  cbn [BTree.elements]. revert es. induction cs as [|c cs IH]; intros es; [reflexivity|].
  destruct es as [|e es]; cbn [map interleave]; [reflexivity|]. f_equal. f_equal. apply IH.
Qed.

Lemma elements_leaf es : elements (Node es []) = es.
Proof. reflexivity. Qed.

Lemma elements_one p X q (a b : list entry) :
  length a = length p -> length b = length q ->
  elements (Node (a ++ b) (p ++ X :: q)) =
  pre_il (map elements p) a ++ elements X ++ post_il b (map elements q).
Proof.
  intros Ha Hb. rewrite elements_node, map_app. cbn [map].
  apply interleave_split; now rewrite map_length.
Qed.

Lemma elements_two p X Y q (a : list entry) sep b :
  length a = length p -> length b = length q ->
  elements (Node (a ++ sep :: b) (p ++ X :: Y :: q)) =
  pre_il (map elements p) a ++ elements X ++ sep :: elements Y ++ post_il b (map elements q).
Proof.
  intros Ha Hb. rewrite (elements_one p X (Y :: q) a (sep :: b)) by (simpl; lia). reflexivity.
Qed.

Lemma elements_new_root e l r : elements (Node [e] [l; r]) = elements l ++ e :: elements r.
Proof. reflexivity. Qed.

Definition res_elements (r : BTree.res K V) : list entry :=
  match r with
  | BTree.RN _ _ t => elements t
  | BTree.RS _ _ l e r' => elements l ++ e :: elements r'
  end.

Lemma split_if_elements es cs r :
  cs = [] \/ length cs = S (length es) -> split_if es cs = Some r -> res_elements r = elements (Node es cs).
Proof.
  intros Hshape. unfold BTree.split_if. destruct (maxE <? length es)%nat eqn:E.
  - destruct (nth_error es middle) as [e|] eqn:En; [|discriminate]. intros H; inversion H; subst r; clear H.
    destruct (nth_error_split es middle En) as (a & b & -> & Hlen). cbn [res_elements].
    rewrite <- Hlen. rewrite skipn_S_mid. destruct (fs_mid a (e :: b)) as [-> _].
    destruct Hshape as [->|Hc].
    + rewrite firstn_nil, skipn_nil. reflexivity.
    + rewrite !elements_node. rewrite <- (firstn_skipn (S (length a)) cs) at 3.
      rewrite map_app. rewrite interleave_app; [reflexivity|].
      rewrite map_length, firstn_length. rewrite app_length in Hc. simpl in Hc. lia.
  - intros H; inversion H; subst r. reflexivity.
Qed.

(* ---- the repairs of fix_child leave the walk unchanged ---- *)
Lemma kids_leaf_or_internal d (es : list entry) cs : kids_ok d es cs -> cs = [] \/ length cs = S (length es).
Proof. destruct d; cbn [BTProofs.kids_ok]; [auto|intros [H _]; auto]. Qed.

Lemma borrow_left_elements d le lc ne nc sep lastE restE :
  kids_ok d le lc -> kids_ok d ne nc -> rev le = lastE :: restE ->
  elements (Node le lc) ++ sep :: elements (Node ne nc) =
  elements (Node (removelast le) (removelast lc)) ++
  lastE :: elements (Node (sep :: ne) (match rev lc with [] => nc | lastC :: _ => lastC :: nc end)).
Proof.
  intros HL HN Hrev. pose proof (rev_cons_last _ _ _ Hrev) as Hle.
  remember (removelast le) as le' eqn:E1. clear E1 Hrev. subst le.
  destruct d; cbn [BTProofs.kids_ok] in HL, HN.
  - subst lc nc. cbn [rev removelast]. rewrite !elements_leaf. now rewrite <- app_assoc.
  - destruct HL as [HLc _]. destruct HN as [HNc _].
    destruct (rev lc) as [|lastC restC] eqn:Hrc.
    { apply (f_equal (@length _)) in Hrc. rewrite rev_length in Hrc. simpl in Hrc. lia. }
    pose proof (rev_cons_last _ _ _ Hrc) as Hlc.
    remember (removelast lc) as lc' eqn:E2. clear E2 Hrc. subst lc.
    rewrite !app_length in HLc. simpl in HLc.
    rewrite !elements_node. rewrite map_app. cbn [map].
    rewrite interleave_last by (rewrite app_length, map_length; simpl; lia).
    rewrite pre_il_snoc by (rewrite map_length; lia).
    cbn [interleave]. rewrite <- !app_assoc. reflexivity.
Qed.

Lemma borrow_right_elements d firstE re' rc ne nc sep :
  kids_ok d (firstE :: re') rc -> kids_ok d ne nc ->
  elements (Node ne nc) ++ sep :: elements (Node (firstE :: re') rc) =
  elements (Node (ne ++ [sep]) (match rc with [] => nc | firstC :: _ => nc ++ [firstC] end)) ++
  firstE :: elements (Node re' (tl rc)).
Proof.
  intros HR HN. destruct d; cbn [BTProofs.kids_ok] in HR, HN.
  - subst rc nc. cbn [tl]. rewrite !elements_leaf. now rewrite <- app_assoc.
  - destruct HR as [HRc _]. destruct HN as [HNc _].
    destruct rc as [|firstC rc']; [simpl in HRc; lia|]. cbn [tl].
    rewrite !elements_node. rewrite map_app. cbn [map interleave].
    rewrite interleave_last by (rewrite app_length, map_length; simpl; lia).
    rewrite pre_il_snoc by (rewrite map_length; lia).
    rewrite <- !app_assoc. reflexivity.
Qed.

Lemma merge_elements d (e1 : list entry) c1 sep e2 c2 :
  kids_ok d e1 c1 -> kids_ok d e2 c2 ->
  elements (Node (e1 ++ sep :: e2) (c1 ++ c2)) = elements (Node e1 c1) ++ sep :: elements (Node e2 c2).
Proof.
  intros H1 H2. destruct d; cbn [BTProofs.kids_ok] in H1, H2.
  - subst c1 c2. reflexivity.
  - destruct H1 as [H1 _]. rewrite !elements_node, map_app. apply interleave_app. now rewrite map_length.
Qed.

(* what fix_child can do, with the lists cut around the two siblings involved *)
Inductive fix_shape (es : list entry) (cs : list node) (es' : list entry) (cs' : list node) : Prop :=
| FS_same : es' = es -> cs' = cs -> fix_shape es cs es' cs'
| FS_bl p le lc ne nc q a sep b lastE restE :
    cs = p ++ Node le lc :: Node ne nc :: q -> es = a ++ sep :: b -> length a = length p ->
    rev le = lastE :: restE -> es' = a ++ lastE :: b ->
    cs' = p ++ Node (removelast le) (removelast lc)
            :: Node (sep :: ne) (match rev lc with [] => nc | lastC :: _ => lastC :: nc end) :: q ->
    fix_shape es cs es' cs'
| FS_br p ne nc firstE re' rc q a sep b :
    cs = p ++ Node ne nc :: Node (firstE :: re') rc :: q -> es = a ++ sep :: b -> length a = length p ->
    es' = a ++ firstE :: b ->
    cs' = p ++ Node (ne ++ [sep]) (match rc with [] => nc | firstC :: _ => nc ++ [firstC] end)
            :: Node re' (tl rc) :: q ->
    fix_shape es cs es' cs'
| FS_merge p xe xc ye yc q a sep b :
    cs = p ++ Node xe xc :: Node ye yc :: q -> es = a ++ sep :: b -> length a = length p ->
    es' = a ++ b -> cs' = p ++ Node (xe ++ sep :: ye) (xc ++ yc) :: q ->
    fix_shape es cs es' cs'.

Lemma fix_child_shape es cs i es' cs' : fix_child es cs i = Some (es', cs') -> fix_shape es cs es' cs'.
Proof.
  unfold BTree.fix_child. destruct (nth_error cs i) as [[ne nc]|] eqn:En; [|discriminate].
  destruct (minE <=? length ne)%nat.
  { intros H; inversion H; subst. now apply FS_same. }
  assert (Right : forall re rc, nth_error cs (S i) = Some (Node re rc) ->
    (if (minE <? length re)%nat
     then match nth_error es i, re with
          | Some sep, firstE :: re' =>
              Some (set_nth i firstE es,
                    replace2 i (Node (ne ++ [sep]) match rc with [] => nc | firstC :: _ => nc ++ [firstC] end)
                      (Node re' (tl rc)) cs)
          | _, _ => None
          end
     else match nth_error es i with
          | Some sep => Some (remove_nth i es, merge2 i (Node (ne ++ sep :: re) (nc ++ rc)) cs)
          | None => None
          end) = Some (es', cs') -> fix_shape es cs es' cs').
  { intros re rc Er. destruct (two_split cs i _ _ En Er) as (p & q & Hcs & Hp).
    destruct (nth_error es i) as [sep|] eqn:Esep.
    2:{ destruct (minE <? length re)%nat; discriminate. }
    destruct (nth_error_split es i Esep) as (a & b & Hes & Ha).
    destruct (minE <? length re)%nat.
    - destruct re as [|firstE re']; [discriminate|]. intros H; inversion H; subst es' cs'; clear H.
      eapply FS_br with (p := p) (a := a); eauto; try (unfold BTree.entry in *; lia).
      + subst es. rewrite <- Ha. apply set_nth_mid.
      + subst cs. rewrite <- Hp. apply replace2_at.
    - intros H; inversion H; subst es' cs'; clear H.
      eapply FS_merge with (p := p) (a := a); eauto; try (unfold BTree.entry in *; lia).
      + subst es. rewrite <- Ha. apply remove_nth_mid.
      + subst cs. rewrite <- Hp. apply merge2_at. }
  destruct i as [|j].
  - destruct (nth_error cs 1) as [[re rc]|] eqn:Er.
    + apply (Right re rc eq_refl).
    + intros H; inversion H; subst. now apply FS_same.
  - destruct (nth_error cs j) as [[le lc]|] eqn:El.
    + replace (S j - 1) with j by lia.
      destruct (two_split cs j _ _ El En) as (p & q & Hcs & Hp).
      destruct (minE <? length le)%nat.
      * destruct (nth_error es j) as [sep|] eqn:Esep; [|discriminate].
        destruct (nth_error_split es j Esep) as (a & b & Hes & Ha).
        destruct (rev le) as [|lastE restE] eqn:Erev; [discriminate|].
        intros H; inversion H; subst es' cs'; clear H.
        eapply FS_bl with (p := p) (a := a); eauto; try (unfold BTree.entry in *; lia).
        -- subst es. rewrite <- Ha. apply set_nth_mid.
        -- subst cs. rewrite <- Hp. apply replace2_at.
      * destruct (nth_error cs (S (S j))) as [[re rc]|] eqn:Er.
        -- apply (Right re rc eq_refl).
        -- destruct (nth_error es j) as [sep|] eqn:Esep; [|discriminate].
           destruct (nth_error_split es j Esep) as (a & b & Hes & Ha).
           intros H; inversion H; subst es' cs'; clear H.
           eapply FS_merge with (p := p) (a := a); eauto; try (unfold BTree.entry in *; lia).
           ++ subst es. rewrite <- Ha. apply remove_nth_mid.
           ++ subst cs. rewrite <- Hp. apply merge2_at.
    + destruct (nth_error cs (S (S j))) as [[re rc]|] eqn:Er.
      * apply (Right re rc eq_refl).
      * intros H; inversion H; subst. now apply FS_same.
Qed.

Definition has_depth (d : nat) (c : node) : Prop := exists lo, wf lo d c.

Lemma has_depth_kids d es cs : has_depth d (Node es cs) -> kids_ok d es cs.
Proof. intros [lo H]. apply wf_unfold in H. tauto. Qed.

Lemma fix_shape_elements d es cs es' cs' :
  fix_shape es cs es' cs' -> length cs = S (length es) -> Forall (has_depth d) cs ->
  elements (Node es' cs') = elements (Node es cs).
Proof.
  intros HS Hlen HF. destruct HS as [-> ->|p le lc ne nc q a sep b lastE restE -> -> Ha Hrev -> ->
                                    |p ne nc firstE re' rc q a sep b -> -> Ha -> ->
                                    |p xe xc ye yc q a sep b -> -> Ha -> ->]; [reflexivity| | |];
    rewrite !app_length in Hlen; cbn [length] in Hlen;
    apply Forall_app in HF; destruct HF as [_ HF];
    inversion HF as [|? ? HX HF']; subst; inversion HF' as [|? ? HY _]; subst;
    apply has_depth_kids in HX; apply has_depth_kids in HY.
  - rewrite !elements_two by lia. f_equal.
    rewrite !app_mid_assoc. f_equal. symmetry. eapply borrow_left_elements; eauto.
  - rewrite !elements_two by lia. f_equal.
    rewrite !app_mid_assoc. f_equal. symmetry. eapply borrow_right_elements; eauto.
  - rewrite elements_two by lia. rewrite elements_one by lia. f_equal.
    rewrite (merge_elements d) by assumption. rewrite <- !app_assoc. reflexivity.
Qed.

Lemma fix_child_elements d es cs i es' cs' :
  fix_child es cs i = Some (es', cs') -> length cs = S (length es) -> Forall (has_depth d) cs ->
  elements (Node es' cs') = elements (Node es cs).
Proof. intros H. apply fix_shape_elements. eapply fix_child_shape; eauto. Qed.

(* ---------------- sortedness of the pieces; the three list situations ---------------- *)
Lemma interleave_sorted_es : forall ls (es : list entry),
  length ls = S (length es) -> sorted (interleave ls es) -> sorted es.
Proof.
  induction ls as [|l ls IH]; intros es Hlen HS; [discriminate|].
  destruct es as [|e es]; [constructor|]. cbn [interleave] in HS.
  apply sorted_app_inv in HS. destruct HS as (_ & S2 & _ & F2). constructor.
  - apply IH; [simpl in Hlen; lia|exact S2].
  - eapply interleave_Forall; [|exact F2]. simpl in Hlen. lia.
Qed.

Lemma wf_sorted_es lo d es cs : wf lo d (Node es cs) -> sorted (elements (Node es cs)) -> sorted es.
Proof.
  intros Hwf HS. apply wf_unfold in Hwf. destruct Hwf as (_ & _ & Hk).
  apply kids_leaf_or_internal in Hk. destruct Hk as [->|Hc]; [exact HS|].
  rewrite elements_node in HS. eapply interleave_sorted_es; [|exact HS]. now rewrite map_length.
Qed.

Lemma pre_il_above k : forall ls (a : list entry),
  sorted (pre_il ls a) -> Forall (above k) a -> Forall (above k) (pre_il ls a).
Proof.
  induction ls as [|l ls IH]; intros a HS Ha; [constructor|].
  destruct a as [|e a]; [constructor|]. cbn [pre_il] in *.
  apply sorted_app_inv in HS. destruct HS as (_ & S2 & F1 & _).
  inversion Ha as [|? ? He Ha']; subst. apply Forall_app. split.
  - apply Forall_ltk_above with (e := e); auto. unfold above in He. lia.
  - constructor; auto.
Qed.

Lemma post_il_below k : forall (b : list entry) ls,
  sorted (post_il b ls) -> Forall (below k) b -> Forall (below k) (post_il b ls).
Proof.
  induction b as [|e b IH]; intros ls HS Hb; [constructor|].
  destruct ls as [|l ls]; [constructor|]. cbn [post_il] in *.
  inversion HS as [|? ? S2 F2]; subst. inversion Hb as [|? ? He Hb']; subst.
  apply Forall_app in F2. destruct F2 as [F2 _].
  apply sorted_app2_inv in S2. destruct S2 as (_ & S3 & _).
  constructor; [exact He|]. apply Forall_app. split; [|auto].
  apply Forall_ltk_below with (e := e); auto. unfold below in He. lia.
Qed.

Lemma here_list k v L k' v' R : sorted (L ++ (k', v') :: R) -> cmp k k' = 0%Z ->
  sm_put k v (L ++ (k', v') :: R) = L ++ (k, v) :: R /\
  sm_get k (L ++ (k', v') :: R) = Some v' /\
  sm_remove k (L ++ (k', v') :: R) = L ++ R.
Proof.
  intros HS Hc. apply sorted_app_inv in HS. destruct HS as (_ & _ & HF & _).
  split; [apply (sm_put_here O); auto|]. split; [|apply (sm_remove_here O); auto].
  rewrite (sm_get_right O k L k' v' R); [now apply sm_get_here|lia|exact HF].
Qed.

Lemma notfound_list k v a b : Forall (above k) a -> Forall (below k) b ->
  sm_put k v (a ++ b) = a ++ (k, v) :: b /\ sm_get k (a ++ b) = None /\ sm_remove k (a ++ b) = a ++ b.
Proof.
  intros Ha Hb.
  assert (Hg : sm_get k (a ++ b) = None) by (rewrite sm_get_app_above by exact Ha; now apply sm_get_all_below).
  split; [|split; [exact Hg|now apply sm_remove_absent]].
  rewrite sm_put_app_above by exact Ha. now rewrite sm_put_all_below.
Qed.

Lemma descend_list k v X Y Z : Forall (above k) X -> Forall (below k) Z ->
  sm_put k v (X ++ Y ++ Z) = X ++ sm_put k v Y ++ Z /\
  sm_get k (X ++ Y ++ Z) = sm_get k Y /\
  sm_remove k (X ++ Y ++ Z) = X ++ sm_remove k Y ++ Z.
Proof.
  intros HX HZ. repeat split.
  - rewrite sm_put_app_above by exact HX. now rewrite sm_put_app_below.
  - rewrite sm_get_app_above by exact HX. now rewrite sm_get_app_below.
  - rewrite sm_remove_app_above by exact HX. now rewrite sm_remove_app_below.
Qed.

(* ---------------- views of a node around the search position ---------------- *)
Lemma found_split k es i : sorted es -> search k es = (i, true) ->
  exists a k' v' b, es = a ++ (k', v') :: b /\ length a = i /\ cmp k k' = 0%Z.
Proof.
  intros HS H. destruct (search_found k es i HS H) as (k' & v' & En & Hc).
  destruct (nth_error_split es i En) as (a & b & -> & Ha). eauto 8.
Qed.

Lemma entry_child_view d lo (a : list entry) e b cs c :
  wf lo (S d) (Node (a ++ e :: b) cs) -> nth_error cs (length a) = Some c ->
  exists p q' X Z', cs = p ++ c :: q' /\ length p = length a /\
    forall e' c', elements (Node (a ++ e' :: b) (p ++ c' :: q')) = X ++ elements c' ++ e' :: Z'.
Proof.
  intros Hwf En. apply wf_unfold in Hwf. destruct Hwf as (_ & _ & Hk).
  cbn [BTProofs.kids_ok] in Hk. destruct Hk as [Hc _].
  rewrite app_length in Hc. cbn [length] in Hc.
  destruct (ne_lt_Some cs (S (length a))) as [c2 En2]; [lia|].
  destruct (two_split cs _ _ _ En En2) as (p & q & Hcs & Hp).
  exists p, (c2 :: q), (pre_il (map elements p) a), (elements c2 ++ post_il b (map elements q)).
  split; [exact Hcs|]. split; [exact Hp|]. intros e' c'.
  apply elements_two; [lia|]. subst cs. rewrite app_length in Hc. cbn [length] in Hc. lia.
Qed.

Lemma entry_view d lo (a : list entry) e b cs : wf lo d (Node (a ++ e :: b) cs) ->
  exists L R, forall e', elements (Node (a ++ e' :: b) cs) = L ++ e' :: R.
Proof.
  destruct d; intros Hwf.
  - apply wf_unfold in Hwf. destruct Hwf as (_ & _ & Hk). cbn [BTProofs.kids_ok] in Hk. subst cs.
    exists a, b. reflexivity.
  - assert (Hwf0 := Hwf). apply wf_unfold in Hwf. destruct Hwf as (_ & _ & Hk).
    cbn [BTProofs.kids_ok] in Hk. destruct Hk as [Hc _].
    rewrite app_length in Hc. cbn [length] in Hc.
    destruct (ne_lt_Some cs (length a)) as [c En]; [lia|].
    destruct (entry_child_view d lo a e b cs c Hwf0 En) as (p & q' & X & Z' & Hcs & Hp & Hel).
    exists (X ++ elements c), Z'. intros e'. subst cs. rewrite Hel. now rewrite <- app_assoc.
Qed.

(* going down into child i after an unsuccessful search in the node *)
Lemma descend_view d lo es cs k i c :
  wf lo (S d) (Node es cs) -> sorted (elements (Node es cs)) ->
  search k es = (i, false) -> nth_error cs i = Some c ->
  exists p q a b X Z,
    cs = p ++ c :: q /\ es = a ++ b /\ length p = i /\ length a = i /\ length b = length q /\
    (forall c', elements (Node es (p ++ c' :: q)) = X ++ elements c' ++ Z) /\
    (forall e' l r, elements (Node (a ++ e' :: b) (p ++ l :: r :: q)) = X ++ (elements l ++ e' :: elements r) ++ Z) /\
    Forall (above k) X /\ Forall (below k) Z /\ sorted (elements c) /\ wf minE d c /\
    Forall (wf minE d) cs /\ length cs = S (length es).
Proof.
  intros Hwf HS Es En. pose proof (wf_sorted_es _ _ _ _ Hwf HS) as HSes.
  apply wf_unfold in Hwf. destruct Hwf as (_ & _ & Hk). cbn [BTProofs.kids_ok] in Hk. destruct Hk as [Hc HF].
  destruct (search_notfound k es i HSes Es) as (Hi & Hab & Hbe).
  destruct (nth_error_split cs i En) as (p & q & Hcs & Hp). unfold BTree.entry in *.
  pose proof (firstn_skipn i es) as Hsplit.
  assert (Hla : length (firstn i es) = i) by (rewrite firstn_length; lia).
  assert (Hlb : length (skipn i es) = length q).
  { rewrite skipn_length. subst cs. rewrite app_length in Hc. cbn [length] in Hc. lia. }
  remember (firstn i es) as a eqn:Ea. remember (skipn i es) as b eqn:Eb. clear Ea Eb.
  assert (Hel : forall c', elements (Node es (p ++ c' :: q)) =
                           pre_il (map elements p) a ++ elements c' ++ post_il b (map elements q)).
  { intros c'. rewrite <- Hsplit. apply elements_one; lia. }
  exists p, q, a, b, (pre_il (map elements p) a), (post_il b (map elements q)).
  rewrite Hcs, Hel in HS.
  apply sorted_app2_inv in HS. destruct HS as (S1 & S2 & _).
  apply sorted_app2_inv in S2. destruct S2 as (S2 & S3 & _).
  repeat split; auto.
  - intros e' l r. rewrite elements_two by lia. now rewrite <- !app_assoc.
  - now apply pre_il_above.
  - now apply post_il_below.
  - eapply nth_error_Forall; eauto.
Qed.

(* ---------------- insert refines sm_put ---------------- *)
Lemma ins_found_refines d lo es cs k v i :
  wf lo d (Node es cs) -> sorted (elements (Node es cs)) -> search k es = (i, true) ->
  elements (Node (set_nth i (k, v) es) cs) = sm_put k v (elements (Node es cs)) /\
  (false = true <-> sm_get k (elements (Node es cs)) = None).
Proof.
  intros Hwf HS Es. pose proof (wf_sorted_es _ _ _ _ Hwf HS) as HSes.
  destruct (found_split k es i HSes Es) as (a & k' & v' & b0 & -> & Ha & Hc0).
  destruct (entry_view d lo a (k', v') b0 cs Hwf) as (L & R & Hel).
  rewrite <- Ha, set_nth_mid. rewrite !Hel. rewrite Hel in HS.
  destruct (here_list k v L k' v' R HS Hc0) as (H1 & H2 & H3).
  split; [now rewrite H1|]. rewrite H2. split; discriminate.
Qed.

Lemma ins_refines d : forall fuel lo t k v r b,
  wf lo d t -> sorted (elements t) -> ins fuel k v t = Some (r, b) ->
  res_elements r = sm_put k v (elements t) /\ (b = true <-> sm_get k (elements t) = None).
Proof.
  induction d as [|d IH]; intros fuel lo [es cs] k v r b Hwf HS Hins;
    (destruct fuel as [|f]; [discriminate|]); cbn [BTree.ins] in Hins;
    pose proof (wf_sorted_es _ _ _ _ Hwf HS) as HSes;
    destruct (search k es) as [i found] eqn:Es;
    (destruct found;
      [inversion Hins; subst r b; cbn [res_elements]; eapply ins_found_refines; eauto|]).
  - (* leaf *)
    assert (Hwf0 := Hwf). apply wf_unfold in Hwf0. destruct Hwf0 as (_ & _ & Hk).
    cbn [BTProofs.kids_ok] in Hk. subst cs.
    destruct (split_if (insert_at i (k, v) es) []) as [r'|] eqn:Esp; [|discriminate].
    inversion Hins; subst r' b; clear Hins.
    apply split_if_elements in Esp; [|left; reflexivity]. rewrite Esp. rewrite !elements_leaf.
    destruct (search_notfound k es i HSes Es) as (Hi & Hab & Hbe).
    unfold insert_at. unfold BTree.entry in *. pose proof (firstn_skipn i es) as Hsplit.
    remember (firstn i es) as a eqn:Ea. remember (skipn i es) as b0 eqn:Eb. clear Ea Eb. rewrite <- Hsplit.
    destruct (notfound_list k v _ _ Hab Hbe) as (H1 & H2 & H3).
    rewrite H1, H2. split; [reflexivity|tauto].
  - (* internal *)
    destruct cs as [|c0 cs']; [apply wf_unfold in Hwf; cbn in Hwf; destruct Hwf as (_ & _ & Hc & _); discriminate|].
    remember (c0 :: cs') as cs eqn:Hcs0.
    destruct (nth_error cs i) as [c|] eqn:En; [|discriminate].
    destruct (descend_view d lo es cs k i c Hwf HS Es En)
      as (p & q & a & b0 & X & Z & Hcs & Hes & Hp & Ha & Hb & Hel1 & Hel2 & HX & HZ & HSc & Hcwf & HF & Hlen).
    destruct (descend_list k v X (elements c) Z HX HZ) as (D1 & D2 & D3).
    destruct (ins f k v c) as [[[c'|l e r'] b']|] eqn:Ei; [| |discriminate].
    + inversion Hins; subst r b; clear Hins.
      destruct (IH _ _ _ _ _ _ _ Hcwf HSc Ei) as [I1 I2]. cbn [res_elements] in *.
      rewrite Hcs at 1. rewrite <- Hp, set_nth_mid. rewrite Hel1.
      rewrite Hcs at 1 2. rewrite !Hel1. unfold BTree.entry in *. rewrite D1, D2, I1. tauto.
    + destruct (IH _ _ _ _ _ _ _ Hcwf HSc Ei) as [I1 I2]. cbn [res_elements] in I1.
      match type of Hins with context [split_if ?x ?y] => destruct (split_if x y) as [r2|] eqn:Esp; [|discriminate] end.
      inversion Hins; subst r2 b; clear Hins.
      rewrite Hcs in Esp at 1 2. rewrite <- Hp in Esp.
      destruct (fs_mid p (c :: q)) as [F1 _]. rewrite F1 in Esp. rewrite skipn_S_mid in Esp.
      rewrite Hes in Esp. rewrite Hp, <- Ha in Esp. rewrite insert_at_mid in Esp.
      apply split_if_elements in Esp.
      2:{ right. rewrite !app_length. cbn [length]. lia. }
      rewrite Esp, Hel2. rewrite Hcs at 1 2. rewrite !Hel1. unfold BTree.entry in *. rewrite D1, D2, I1. tauto.
Qed.

(* ---------------- delete refines sm_remove ---------------- *)
Lemma elements_last p X (a : list entry) :
  length a = length p -> elements (Node a (p ++ [X])) = pre_il (map elements p) a ++ elements X.
Proof. intros H. rewrite elements_node, map_app. cbn [map]. apply interleave_last. now rewrite map_length. Qed.

Lemma set_nth_has_depth d lo cs i c1 :
  Forall (wf minE d) cs -> wf lo d c1 -> Forall (has_depth d) (set_nth i c1 cs).
Proof.
  intros HF Hc1. apply Forall_set_nth; [|eexists; exact Hc1].
  eapply Forall_impl; [|exact HF]. intros x Hx. eexists; exact Hx.
Qed.

Lemma last_child_view (cs : list node) i c :
  i = length cs - 1 -> nth_error cs i = Some c -> exists p, cs = p ++ [c] /\ length p = i.
Proof.
  intros Hi En. destruct (nth_error_split cs i En) as (p & q & Hcs & Hp). exists p. split; [|exact Hp].
  destruct q; [exact Hcs|]. subst cs. rewrite app_length in Hi. cbn [length] in Hi. lia.
Qed.

Lemma del_max_refines d : forall fuel lo t e t',
  1 <= lo -> wf lo d t -> del_max fuel t = Some (e, t') -> elements t = elements t' ++ [e].
Proof.
  induction d as [|d IH]; intros fuel lo [es cs] e t' Hlo1 Hwf Hdm;
    (destruct fuel as [|f]; [discriminate|]); cbn [BTree.del_max] in Hdm;
    assert (Hwf0 := Hwf); apply wf_unfold in Hwf0; destruct Hwf0 as (Hlo & Hhi & Hk);
    cbn [BTProofs.kids_ok] in Hk.
  - subst cs. destruct (rev es) as [|e0 r] eqn:Er; [discriminate|]. inversion Hdm; subst e0 t'.
    rewrite !elements_leaf. eapply rev_cons_last; eauto.
  - destruct Hk as [Hc HF]. destruct cs as [|c0 cs']; [simpl in Hc; discriminate|].
    remember (c0 :: cs') as cs eqn:Hcs0. remember (length cs - 1) as i eqn:Ei.
    destruct (nth_error cs i) as [c|] eqn:En; [|discriminate].
    destruct (del_max f c) as [[e1 c1]|] eqn:Ed; [|discriminate].
    destruct (fix_child es (set_nth i c1 cs) i) as [[es' cs'']|] eqn:Ef; [|discriminate].
    inversion Hdm; subst e1 t'; clear Hdm.
    pose proof (nth_error_Forall _ _ _ _ HF En) as Hcwf.
    pose proof (del_max_wf K V m m_ge_3 d f _ c e c1 (minE_pos m m_ge_3) Hcwf Ed) as Hc1.
    pose proof (IH _ _ _ _ _ (minE_pos m m_ge_3) Hcwf Ed) as Hrec.
    apply (fix_child_elements d) in Ef;
      [|rewrite (length_set_nth m m_ge_3); exact Hc|eapply set_nth_has_depth; eauto].
    rewrite Ef. clear Hcs0. destruct (last_child_view cs i c Ei En) as (p & Hcs & Hp). subst cs.
    rewrite <- Hp, set_nth_mid. unfold BTree.entry in *.
    rewrite app_length in Hc. cbn [length] in Hc.
    rewrite !elements_last by lia. rewrite Hrec. now rewrite app_assoc.
Qed.

Lemma del_found_list k (X Y : list entry) e1 k' v' Z' :
  sorted (X ++ (Y ++ [e1]) ++ (k', v') :: Z') -> cmp k k' = 0%Z ->
  X ++ Y ++ e1 :: Z' = sm_remove k (X ++ (Y ++ [e1]) ++ (k', v') :: Z') /\
  sm_get k (X ++ (Y ++ [e1]) ++ (k', v') :: Z') <> None.
Proof.
  intros HS Hc0.
  assert (Hre : X ++ (Y ++ [e1]) ++ (k', v') :: Z' = (X ++ Y ++ [e1]) ++ (k', v') :: Z')
    by (rewrite <- !app_assoc; reflexivity).
  rewrite Hre in *.
  destruct (here_list k zeroV _ k' v' Z' HS Hc0) as (_ & H2 & H3).
  rewrite H2, H3. split; [rewrite <- !app_assoc; reflexivity|discriminate].
Qed.

Lemma del_refines d : forall fuel lo k t t' b,
  1 <= lo -> wf lo d t -> sorted (elements t) -> del fuel k t = Some (t', b) ->
  elements t' = sm_remove k (elements t) /\ (b = true <-> sm_get k (elements t) <> None).
Proof.
  induction d as [|d IH]; intros fuel lo k [es cs] t' b Hlo1 Hwf HS Hdel;
    (destruct fuel as [|f]; [discriminate|]); cbn [BTree.del] in Hdel;
    pose proof (wf_sorted_es _ _ _ _ Hwf HS) as HSes;
    assert (Hwf0 := Hwf); apply wf_unfold in Hwf0; destruct Hwf0 as (Hlo & Hhi & Hk);
    cbn [BTProofs.kids_ok] in Hk;
    destruct (search k es) as [i found] eqn:Es.
  - (* leaf *)
    subst cs. destruct found.
    + inversion Hdel; subst t' b; clear Hdel.
      destruct (found_split k es i HSes Es) as (a & k' & v' & b0 & -> & Ha & Hc0).
      rewrite <- Ha, remove_nth_mid. rewrite !elements_leaf in *.
      destruct (here_list k zeroV a k' v' b0 HS Hc0) as (_ & H2 & H3).
      rewrite H2, H3. split; [reflexivity|]. split; [intros _; discriminate|reflexivity].
    + inversion Hdel; subst t' b; clear Hdel. rewrite !elements_leaf.
      destruct (search_notfound k es i HSes Es) as (Hi & Hab & Hbe).
      destruct (notfound_list k zeroV _ _ Hab Hbe) as (_ & H2 & H3).
      rewrite firstn_skipn in H2, H3. rewrite H2, H3. split; [reflexivity|]. split; [discriminate|congruence].
  - (* internal *)
    destruct Hk as [Hc HF]. destruct cs as [|c0 cs']; [simpl in Hc; discriminate|].
    remember (c0 :: cs') as cs eqn:Hcs0.
    destruct (nth_error cs i) as [c|] eqn:En; [|discriminate].
    pose proof (nth_error_Forall _ _ _ _ HF En) as Hcwf.
    destruct found.
    + (* the key is in this node: replace it by its predecessor *)
      destruct (found_split k es i HSes Es) as (a & k' & v' & b0 & Hes & Ha & Hc0). subst es.
      rewrite <- Ha in En.
      destruct (entry_child_view d lo a (k', v') b0 cs c Hwf En) as (p & q' & X & Z' & Hcs & Hp & Hel).
      destruct (del_max f c) as [[e1 c1]|] eqn:Ed; [|discriminate].
      match type of Hdel with context [fix_child ?x ?y ?z] =>
        destruct (fix_child x y z) as [[es' cs'']|] eqn:Ef; [|discriminate] end.
      inversion Hdel; subst t' b; clear Hdel.
      pose proof (del_max_wf K V m m_ge_3 d f _ c e1 c1 (minE_pos m m_ge_3) Hcwf Ed) as Hc1.
      pose proof (del_max_refines d f _ c e1 c1 (minE_pos m m_ge_3) Hcwf Ed) as Hrec.
      apply (fix_child_elements d) in Ef;
        [|rewrite !(length_set_nth m m_ge_3); exact Hc|eapply set_nth_has_depth; eauto].
      rewrite Ef. clear Hcs0. subst cs.
      rewrite <- Ha. rewrite set_nth_mid. rewrite <- Hp. rewrite set_nth_mid.
      rewrite !Hel. rewrite Hel in HS. rewrite Hrec in *. unfold BTree.entry in *.
      destruct (del_found_list k X (elements c1) e1 k' v' Z' HS Hc0) as [H3 H2].
      split; [exact H3|]. split; [intros _; exact H2|reflexivity].
    + (* continue in child i *)
      destruct (descend_view d lo es cs k i c Hwf HS Es En)
        as (p & q & a & b0 & X & Z & Hcs & Hes & Hp & Ha & Hb & Hel1 & Hel2 & HX & HZ & HSc & _ & _ & _).
      destruct (descend_list k zeroV X (elements c) Z HX HZ) as (_ & D2 & D3).
      destruct (del f k c) as [[c1 [|]]|] eqn:Ed; [| |discriminate].
      * destruct (fix_child es (set_nth i c1 cs) i) as [[es' cs'']|] eqn:Ef; [|discriminate].
        inversion Hdel; subst t' b; clear Hdel.
        pose proof (del_wf K V cmp m m_ge_3 d f _ k c c1 true (minE_pos m m_ge_3) Hcwf Ed) as Hc1.
        destruct (IH _ _ _ _ _ _ (minE_pos m m_ge_3) Hcwf HSc Ed) as [I1 I2].
        apply (fix_child_elements d) in Ef;
          [|rewrite (length_set_nth m m_ge_3); exact Hc|eapply set_nth_has_depth; eauto].
        rewrite Ef. rewrite Hcs at 1. rewrite <- Hp, set_nth_mid. rewrite Hel1.
        rewrite Hcs at 1 2. rewrite !Hel1. unfold BTree.entry in *. rewrite D2, D3, I1. tauto.
      * inversion Hdel; subst t' b; clear Hdel.
        destruct (IH _ _ _ _ _ _ (minE_pos m m_ge_3) Hcwf HSc Ed) as [I1 I2].
        assert (Hg : sm_get k (elements (Node es cs)) = None).
        { rewrite Hcs at 1. rewrite Hel1. unfold BTree.entry in *. rewrite D2.
          destruct (sm_get k (elements c)); [|reflexivity]. destruct I2 as [_ I2]. discriminate I2. discriminate. }
        rewrite Hg. split; [symmetry; now apply sm_remove_absent|]. split; [discriminate|congruence].
Qed.

(* ---------------- lookups ---------------- *)
Lemma get_found_refines d lo es cs k i k' v' :
  wf lo d (Node es cs) -> sorted (elements (Node es cs)) -> nth_error es i = Some (k', v') ->
  cmp k k' = 0%Z -> sm_get k (elements (Node es cs)) = Some v'.
Proof.
  intros Hwf HS En Hc0. destruct (nth_error_split es i En) as (a & b0 & -> & Ha).
  destruct (entry_view d lo a (k', v') b0 cs Hwf) as (L & R & Hel). rewrite Hel in *.
  now destruct (here_list k zeroV L k' v' R HS Hc0) as (_ & H2 & _).
Qed.

Lemma get_refines d : forall fuel lo k t r,
  wf lo d t -> sorted (elements t) -> get fuel k t = Some r -> r = sm_get k (elements t).
Proof.
  induction d as [|d IH]; intros fuel lo k [es cs] r Hwf HS Hget;
    (destruct fuel as [|f]; [discriminate|]); cbn [BTree.get] in Hget;
    pose proof (wf_sorted_es _ _ _ _ Hwf HS) as HSes;
    destruct (search k es) as [i found] eqn:Es;
    (destruct found;
      [destruct (search_found k es i HSes Es) as (k' & v' & En & Hc0); unfold BTree.entry in *;
       rewrite En in Hget; inversion Hget; subst r; symmetry; eapply get_found_refines; eauto|]).
  - assert (Hwf0 := Hwf). apply wf_unfold in Hwf0. destruct Hwf0 as (_ & _ & Hk).
    cbn [BTProofs.kids_ok] in Hk. subst cs. inversion Hget; subst r. rewrite elements_leaf.
    destruct (search_notfound k es i HSes Es) as (Hi & Hab & Hbe).
    destruct (notfound_list k zeroV _ _ Hab Hbe) as (_ & H2 & _). rewrite firstn_skipn in H2. now rewrite H2.
  - destruct cs as [|c0 cs']; [apply wf_unfold in Hwf; cbn in Hwf; destruct Hwf as (_ & _ & Hc & _); discriminate|].
    remember (c0 :: cs') as cs eqn:Hcs0.
    destruct (nth_error cs i) as [c|] eqn:En; [|discriminate].
    destruct (descend_view d lo es cs k i c Hwf HS Es En)
      as (p & q & a & b0 & X & Z & Hcs & Hes & Hp & Ha & Hb & Hel1 & Hel2 & HX & HZ & HSc & Hcwf & _ & _).
    destruct (descend_list k zeroV X (elements c) Z HX HZ) as (_ & D2 & _).
    rewrite Hcs at 1. rewrite Hel1. unfold BTree.entry in *. rewrite D2. eapply IH; eauto.
Qed.

Lemma leftmost_refines d : forall lo t,
  1 <= lo -> wf lo d t -> exists e rest, leftmost t = Some e /\ elements t = e :: rest.
Proof.
  induction d as [|d IH]; intros lo [es cs] Hlo1 Hwf; apply wf_unfold in Hwf;
    destruct Hwf as (Hlo & Hhi & Hk); cbn [BTProofs.kids_ok] in Hk.
  - subst cs. destruct es as [|e es]; [simpl in Hlo; lia|]. exists e, es. split; reflexivity.
  - destruct Hk as [Hc HF]. destruct cs as [|c cs]; [discriminate|]. inversion HF as [|? ? Hcw HF']; subst.
    destruct (IH _ c (minE_pos m m_ge_3) Hcw) as (e & rest & H1 & H2).
    destruct es as [|e0 es]; [simpl in Hlo; lia|].
    exists e, (rest ++ e0 :: interleave (map elements cs) es). split; [exact H1|].
    rewrite elements_node. cbn [map interleave]. rewrite H2. reflexivity.
Qed.

Lemma rightmost_refines d : forall fuel lo t r,
  1 <= lo -> wf lo d t -> rightmost fuel t = Some r -> exists e rest, r = Some e /\ elements t = rest ++ [e].
Proof.
  induction d as [|d IH]; intros fuel lo [es cs] r Hlo1 Hwf Hr;
    (destruct fuel as [|f]; [discriminate|]); cbn [BTree.rightmost] in Hr;
    apply wf_unfold in Hwf; destruct Hwf as (Hlo & Hhi & Hk); cbn [BTProofs.kids_ok] in Hk.
  - subst cs. inversion Hr; subst r. destruct (rev es) as [|e r0] eqn:Er.
    + apply (proj1 (rev_nil_iff _)) in Er. subst es. simpl in Hlo. lia.
    + exists e, (removelast es). split; [reflexivity|]. rewrite elements_leaf. eapply rev_cons_last; eauto.
  - destruct Hk as [Hc HF]. destruct cs as [|c0 cs']; [simpl in Hc; discriminate|].
    remember (c0 :: cs') as cs eqn:Hcs0. remember (length cs - 1) as i eqn:Ei.
    destruct (nth_error cs i) as [c|] eqn:En; [|discriminate].
    pose proof (nth_error_Forall _ _ _ _ HF En) as Hcwf.
    destruct (IH _ _ _ _ (minE_pos m m_ge_3) Hcwf Hr) as (e & rest & H1 & H2).
    clear Hcs0. destruct (last_child_view cs i c Ei En) as (p & Hcs & Hp). subst cs.
    unfold BTree.entry in *. rewrite app_length in Hc. cbn [length] in Hc.
    exists e, (pre_il (map elements p) es ++ rest). split; [exact H1|].
    rewrite elements_last by lia. rewrite H2. now rewrite app_assoc.
Qed.

(* ---------------- the container refines the sorted map ---------------- *)
Definition Rbt (s : BTree.state K V) (l : list (K * V)) : Prop :=
  BTShapeOK K V m s /\ sorted l /\ bt_elements K V (BTree.root s) = l /\ BTree.size s = Z.of_nat (length l).

Lemma Rbt_empty : Rbt (BTree.empty K V) [].
Proof. split; [apply empty_shape|]. split; [constructor|]. split; reflexivity. Qed.

Lemma bt_put_refines k v s l : Rbt s l -> Rbt (BTree.put K V cmp m k v s) (sm_put k v l).
Proof.
  intros (Hsh & HS & Hel & Hsz).
  pose proof (bt_put_shape K V cmp m m_ge_3 k v s Hsh) as Hsh'.
  split; [exact Hsh'|]. split; [apply (sm_put_sorted O); exact HS|].
  destruct Hsh as [Hst Hshape]. destruct Hsh' as [Hst' _].
  unfold BTree.put in *. destruct (BTree.root s) as [r|] eqn:Er; cbn [Inv.bt_elements Inv.BTShape] in *.
  - destruct Hshape as [d Hwf]. subst l.
    destruct (ins (S (depth r)) k v r) as [[[r'|l0 e r'] b]|] eqn:Ei; [| |cbn in Hst'; discriminate];
      destruct (ins_refines d _ _ _ _ _ _ _ Hwf HS Ei) as [I1 I2]; cbn [res_elements] in I1;
      cbn [BTree.root BTree.size Inv.bt_elements]; rewrite ?elements_new_root;
      (split; [exact I1|]); rewrite sm_put_length; destruct b.
    + rewrite (proj1 I2 eq_refl). lia.
    + destruct (sm_get k (elements r)); [exact Hsz|]. destruct I2 as [_ I2]. discriminate (I2 eq_refl).
    + rewrite (proj1 I2 eq_refl). lia.
    + destruct (sm_get k (elements r)); [exact Hsz|]. destruct I2 as [_ I2]. discriminate (I2 eq_refl).
  - subst l. cbn [BTree.root BTree.size Inv.bt_elements SortedMap.sm_put length]. split; [reflexivity|].
    cbn [length] in Hsz. lia.
Qed.

Lemma bt_remove_refines k s l : Rbt s l -> Rbt (BTree.remove K V cmp m k s) (sm_remove k l).
Proof.
  intros (Hsh & HS & Hel & Hsz).
  pose proof (bt_remove_shape K V cmp m m_ge_3 k s Hsh) as Hsh'.
  split; [exact Hsh'|]. split; [apply sm_remove_sorted; exact HS|].
  destruct Hsh as [Hst Hshape]. destruct Hsh' as [Hst' _].
  unfold BTree.remove in *. destruct (BTree.root s) as [r|] eqn:Er; cbn [Inv.bt_elements Inv.BTShape] in *.
  - destruct Hshape as [d Hwf]. subst l.
    destruct (del (S (depth r)) k r) as [[r' b]|] eqn:Ed; [|cbn in Hst'; discriminate].
    destruct (del_refines d _ _ _ _ _ _ (le_n 1) Hwf HS Ed) as [I1 I2].
    destruct b.
    + cbn [BTree.root BTree.size]. split.
      * rewrite <- I1. destruct r' as [[|e es] [|c cs]]; reflexivity.
      * rewrite sm_remove_length. destruct (sm_get k (elements r)) eqn:G.
        -- destruct (elements r) as [|x xs]; [discriminate G|]. cbn [length pred] in *. lia.
        -- exfalso. apply (proj1 I2 eq_refl). reflexivity.
    + assert (G : sm_get k (elements r) = None).
      { destruct (sm_get k (elements r)); [|reflexivity]. destruct I2 as [_ I2]. discriminate I2. discriminate. }
      rewrite Er. cbn [Inv.bt_elements]. rewrite (sm_remove_absent k _ G). split; [reflexivity|exact Hsz].
  - rewrite Er. subst l. cbn [Inv.bt_elements SortedMap.sm_remove]. split; [reflexivity|exact Hsz].
Qed.

Theorem bt_step_refines s l o : bt_op o -> Rbt s l ->
  Rbt (fst (BTree.step K V cmp zeroV m s o)) (fst (sm_step K V cmp zeroV l o)) /\
  snd (BTree.step K V cmp zeroV m s o) = snd (sm_step K V cmp zeroV l o).
Proof.
  intros Hop HR. assert (HR0 := HR). destruct HR0 as ((Hst & Hshape) & HS & Hel & Hsz).
  unfold BTree.step. rewrite Hst. destruct o; cbn [SortedMap.sm_step fst snd].
  - split; [now apply bt_put_refines|reflexivity].
  - split; [now apply bt_remove_refines|reflexivity].
  - split; [apply Rbt_empty|reflexivity].
  - (* Get *)
    destruct (BTree.root s) as [r|] eqn:Er; cbn [Inv.bt_elements Inv.BTShape] in Hel, Hshape.
    + destruct Hshape as [d Hwf]. rewrite (wf_depth K V m _ _ _ Hwf). subst l.
      pose proof (get_total K V cmp m m_ge_3 d (S d) 1 k r Hwf ltac:(lia)) as Htot.
      destruct (get (S d) k r) as [g|] eqn:Eg; [|congruence].
      pose proof (get_refines d _ _ _ _ _ Hwf HS Eg) as Hg. rewrite <- Hg.
      destruct g; cbn [fst snd]; split; auto.
    + subst l. cbn [fst snd SortedMap.sm_get]. split; auto.
  - split; [exact HR|]. now rewrite Hsz.
  - split; [exact HR|]. rewrite Hsz. destruct l; reflexivity.
  - split; [exact HR|]. unfold Inv.bt_elements in Hel. now rewrite Hel.
  - split; [exact HR|]. unfold Inv.bt_elements in Hel. now rewrite Hel.
  - (* Left *)
    split; [exact HR|]. f_equal.
    destruct (BTree.root s) as [r|] eqn:Er; cbn [Inv.bt_elements Inv.BTShape] in Hel, Hshape.
    + destruct Hshape as [d Hwf]. destruct (leftmost_refines d 1 r (le_n 1) Hwf) as (e & rest & H1 & H2).
      rewrite H1. rewrite <- Hel, H2. reflexivity.
    + subst l. reflexivity.
  - (* Right *)
    destruct (BTree.root s) as [r|] eqn:Er; cbn [Inv.bt_elements Inv.BTShape] in Hel, Hshape.
    + destruct Hshape as [d Hwf]. rewrite (wf_depth K V m _ _ _ Hwf).
      pose proof (rightmost_total K V m m_ge_3 d (S d) 1 r Hwf ltac:(lia)) as Htot.
      destruct (rightmost (S d) r) as [g|] eqn:Eg; [|congruence].
      destruct (rightmost_refines d _ _ _ _ (le_n 1) Hwf Eg) as (e & rest & H1 & H2).
      cbn [fst snd]. split; [exact HR|]. f_equal. rewrite <- Hel, H2, H1.
      unfold sm_max. rewrite rev_app_distr. reflexivity.
    + subst l. cbn [fst snd]. split; [exact HR|reflexivity].
  - destruct Hop.
  - destruct Hop.
Qed.

Theorem bt_run_refines ops : Forall bt_op ops ->
  snd (run (BTree.step K V cmp zeroV m) (BTree.empty K V) ops) = snd (run (sm_step K V cmp zeroV) [] ops).
Proof.
  intros H.
  exact (proj2 (run_refines (BTree.step K V cmp zeroV m) (sm_step K V cmp zeroV) Rbt bt_op
                  bt_step_refines ops _ _ H Rbt_empty)).
Qed.

Theorem bt_reachable_inv ops : Forall bt_op ops ->
  BTInv K V cmp m (fst (run (BTree.step K V cmp zeroV m) (BTree.empty K V) ops)).
Proof.
  intros H.
  destruct (proj1 (run_refines (BTree.step K V cmp zeroV m) (sm_step K V cmp zeroV) Rbt bt_op
                     bt_step_refines ops _ _ H Rbt_empty)) as ((Hst & Hsh) & HS & Hel & Hsz).
  unfold BTInv. rewrite Hel. auto.
Qed.

End BTRefine.

Print Assumptions bt_step_refines.
Print Assumptions bt_run_refines.
Print Assumptions bt_reachable_inv.
Print Assumptions ins_refines.
Print Assumptions del_refines.
Print Assumptions get_refines.
