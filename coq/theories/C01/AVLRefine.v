(* C01/C02, AVL tree: the container refines the reference sorted map call by call; the relation carries the
   balance invariant (without it the fix-ups would dereference missing children, see AVLProofs). *)
From VF Require Import Common.Base C01.Order C01.SortedMap C01.SpecProofs C01.BinTree C01.BinTreeProofs
  C01.AVL C02.Inv C02.AVLProofs C01.AVLProofs.
Local Open Scope Z_scope.

Section AVLRefine.
Context {K V : Type} {cmp : K -> K -> Z} (O : CmpLaws cmp).
Variable zeroV : V.
Notation sorted := (sorted K V cmp).

Definition Ravl (s : AVL.state K V) (l : list (K * V)) : Prop :=
  avl_ok K V (AVL.root s) /\ sorted l /\ elements (AVL.root s) = l /\ AVL.size s = Z.of_nat (length l).

Lemma avl_step_query s o : is_query o = true ->
  AVL.step K V cmp zeroV s o = (s, bin_query (cmp := cmp) zeroV (AVL.root s) (AVL.size s) o).
Proof. destruct o; intros H; try discriminate; reflexivity. Qed.

Theorem avl_step_refines s l o : Ravl s l ->
  Ravl (fst (AVL.step K V cmp zeroV s o)) (fst (sm_step K V cmp zeroV l o)) /\
  snd (AVL.step K V cmp zeroV s o) = snd (sm_step K V cmp zeroV l o).
Proof.
  intros (Hok & HS & He & Hsz). destruct (is_query o) eqn:Hq.
  - rewrite avl_step_query by exact Hq. cbn [fst snd]. subst l. split.
    + destruct o; try discriminate; simpl; repeat split; auto.
    + apply (bin_query_spec O); auto.
  - subst l. destruct o; try discriminate; cbn [AVL.step sm_step fst snd].
    + (* Put *)
      split; [|reflexivity]. unfold Ravl. cbn [AVL.root AVL.size].
      rewrite (avl_put_elements O) by assumption.
      repeat split; [now apply avl_put_ok|now apply (sm_put_sorted O)|].
      rewrite sm_put_length. unfold AVL.is_some. rewrite (lookup_elements O _ _ HS).
      destruct (SortedMap.sm_get K V cmp k (elements (AVL.root s))); lia.
    + (* Remove *)
      split; [|reflexivity]. unfold Ravl. cbn [AVL.root AVL.size].
      rewrite (avl_remove_elements O) by assumption.
      repeat split; [now apply avl_remove_ok|now apply sm_remove_sorted|].
      rewrite sm_remove_length. unfold AVL.is_some. rewrite (lookup_elements O _ _ HS).
      destruct (SortedMap.sm_get K V cmp k (elements (AVL.root s))) eqn:G; [|simpl; lia].
      assert (length (elements (AVL.root s)) <> 0%nat) by (destruct (elements (AVL.root s)); discriminate).
      lia.
    + (* Clear *)
      split; [|reflexivity]. unfold Ravl, AVL.empty. simpl. repeat split; auto. constructor.
Qed.

Lemma Ravl_empty : Ravl (AVL.empty K V) [].
Proof. unfold Ravl, AVL.empty. simpl. repeat split; auto. constructor. Qed.

Theorem avl_run_refines ops :
  snd (run (AVL.step K V cmp zeroV) (AVL.empty K V) ops) = snd (run (sm_step K V cmp zeroV) [] ops).
Proof.
  refine (proj2 (run_refines _ _ Ravl (fun _ => True) _ ops (AVL.empty K V) [] _ Ravl_empty)).
  - intros s1 s2 o _ HR. now apply avl_step_refines.
  - apply Forall_forall. auto.
Qed.

Theorem avl_run_related ops :
  Ravl (fst (run (AVL.step K V cmp zeroV) (AVL.empty K V) ops)) (fst (run (sm_step K V cmp zeroV) [] ops)).
Proof.
  refine (proj1 (run_refines _ _ Ravl (fun _ => True) _ ops (AVL.empty K V) [] _ Ravl_empty)).
  - intros s1 s2 o _ HR. now apply avl_step_refines.
  - apply Forall_forall. auto.
Qed.

(* C02: the full AVL invariant in every reachable state, and its boolean twin *)
Theorem avl_reachable_inv ops :
  AVLInv K V cmp (fst (run (AVL.step K V cmp zeroV) (AVL.empty K V) ops)).
Proof.
  destruct (avl_run_related ops) as (Hok & HS & He & Hsz).
  unfold AVLInv. rewrite He. auto.
Qed.

Theorem avl_inv_b_ok s : avl_inv_b K V cmp s = true <-> AVLInv K V cmp s.
Proof.
  unfold avl_inv_b, AVLInv. rewrite !andb_true_iff, avl_ok_b_ok, (sorted_b_ok O), Z.eqb_eq. tauto.
Qed.

(* heights of the two subtrees of every node differ by at most one *)
Theorem avl_ok_balanced b l k v r :
  avl_ok K V (T b l k v r) -> -1 <= zheight K V r - zheight K V l <= 1 /\ b = zheight K V r - zheight K V l.
Proof. simpl. intros (_ & _ & Hb & Hr). lia. Qed.
End AVLRefine.
