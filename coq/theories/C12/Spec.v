(* C12 specification: a single finite map key -> (value, Expire), NO deadline index.
   Part 1: reference semantics (one map, same operations; a sweep is a filter).
   Part 2: the declarative reading of the property: [last_stored k h] = the entry most recently stored for k
   (Set / successful SetIfAbsent / successful Replace / Restore / Load of an entry not yet expired) and not deleted, cleared or replaced by a
   Restore since, computed from the operations and their outputs alone, ignoring time. *)
From VF Require Import Common.Base C12.Model.
Local Open Scope Z_scope.

Definition smap := list (Z * entry).

Section Spec.
Variable fl : Z -> Z.
Variable defttl : Z.

(* the sweeper collects what the zset range [0, fl now] holds: timed entries with 0 <= fl d <= fl now *)
Definition swept (now d : Z) : bool := negb (d =? 0) && (0 <=? fl d) && (fl d <=? fl now).

Definition s_load (m : smap) (data : list (Z * entry)) (now : Z) : smap :=
  fold_left (fun m ke => if expired now (snd (snd ke)) then m else m_put (fst ke) (snd ke) m) data m.

Definition sstep (m : smap) (now : Z) (o : op) : smap * out :=
  match o with
  | OSet k v ttl => (m_put k (v, new_expire defttl now ttl) m, OutUnit)
  | OSetIfAbsent k v ttl =>
      match m_get m k with
      | Some _ => (m, OutBool false)
      | None => (m_put k (v, new_expire defttl now ttl) m, OutBool true)
      end
  | OReplace k v ttl =>
      match m_get m k with
      | None => (m, OutBool false)
      | Some (_, d0) => if expired now d0 then (m_del k m, OutBool false)
                        else (m_put k (v, new_expire defttl now ttl) m, OutBool true)
      end
  | ODelete k => (m_del k m, OutUnit)
  | OGet k =>
      match m_get m k with
      | None => (m, OutGet None)
      | Some (v, d) => if expired now d then (m_del k m, OutGet None) else (m, OutGet (Some (v, shown d)))
      end
  | OCount => (m, OutCount (length m))
  | OClear => ([], OutUnit)
  | OSweep => (filter (fun p => negb (swept now (snd (snd p)))) m, OutUnit)
  | OExport => (m, OutExport m)
  | ORestore data => (s_load [] data now, OutUnit)
  | OLoad data => (s_load m data now, OutUnit)
  end.

Fixpoint srun (m : smap) (tops : list (Z * op)) : smap * list out :=
  match tops with
  | [] => (m, [])
  | (now, o) :: t => let '(m', r) := sstep m now o in let '(m'', rs) := srun m' t in (m'', r :: rs)
  end.

(* ---------- declarative layer ---------- *)
(* one event of a history: the instant the call read, the call, what it returned *)
Definition event := (Z * op * out)%type.

Definition data_map (data : list (Z * entry)) : smap := fold_left (fun m ke => m_put (fst ke) (snd ke) m) data [].

Definition ls_step (k : Z) (cur : option entry) (e : event) : option entry :=
  let '(now, o, r) := e in
  match o, r with
  | OSet k' v ttl, _ => if k' =? k then Some (v, new_expire defttl now ttl) else cur
  | OSetIfAbsent k' v ttl, OutBool true => if k' =? k then Some (v, new_expire defttl now ttl) else cur
  | OReplace k' v ttl, OutBool true => if k' =? k then Some (v, new_expire defttl now ttl) else cur
  | ODelete k', _ => if k' =? k then None else cur
  | OClear, _ => None
  | ORestore data, _ => m_get (data_map data) k
  | OLoad data, _ => match m_get (data_map data) k with    (* a decoded entry already expired is not loaded *)
                     | Some (v, d) => if expired now d then cur else Some (v, d)
                     | None => cur
                     end
  | _, _ => cur
  end.

Definition last_stored (k : Z) (h : list event) : option entry := fold_left (ls_step k) h None.

(* history of a run of the reference semantics *)
Definition history (tops : list (Z * op)) : list event :=
  combine tops (snd (srun [] tops)).
End Spec.

(* ---------- hypotheses on operation lists ---------- *)
Definition op_wf (o : op) : Prop :=
  match o with
  | ORestore data | OLoad data => NoDup (map fst data)
  | _ => True
  end.
Definition ops_wf (tops : list (Z * op)) : Prop := Forall (fun x => op_wf (snd x)) tops.

(* all instants positive *)
Definition times_pos (tops : list (Z * op)) : Prop := Forall (fun x => 0 < fst x) tops.
(* instants never decrease *)
Fixpoint times_mono_from (t0 : Z) (tops : list (Z * op)) : Prop :=
  match tops with
  | [] => True
  | (t, _) :: r => t0 <= t /\ times_mono_from t r
  end.
Definition times_ok (tops : list (Z * op)) : Prop := times_pos tops /\ times_mono_from 0 tops.
