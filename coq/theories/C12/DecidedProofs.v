(* C12 interval checker: soundness on decided traces.
   If the strict interpretation [decided_b] accepts a trace, then for EVERY choice of instants inside the
   recorded brackets the reference semantics returns the observed booleans, hits/misses, values, counts and
   exported keys/values (outputs compared up to the exact deadline values: [out_sim]). *)
From VF Require Import Common.Base C12.Model C12.Spec C12.Proofs C12.Proofs2 C12.F64 C12.Interval.
Local Open Scope Z_scope.

Definition Dp (p : Z * dent) (q : Z * entry) : Prop :=
  fst p = fst q /\ fst (snd p) = fst (snd q) /\ in_range_b (snd (snd q)) (snd (snd p)) = true.
Definition D (dm : dmap) (conc : smap) : Prop := Forall2 Dp dm conc.

Lemma D_get_none dm conc k : D dm conc -> m_get dm k = None -> m_get conc k = None.
Proof.
  induction 1 as [|[k1 [v1 r1]] [k2 [v2 d2]] dm conc Hp HD IH]; simpl; auto.
  destruct Hp as (Hk & _). simpl in Hk. subst k2. destruct (k1 =? k); [discriminate|auto].
Qed.

Lemma D_get_some dm conc k v r : D dm conc -> m_get dm k = Some (v, r) ->
  exists d, m_get conc k = Some (v, d) /\ in_range_b d r = true.
Proof.
  induction 1 as [|[k1 [v1 r1]] [k2 [v2 d2]] dm conc Hp HD IH]; simpl; [discriminate|].
  destruct Hp as (Hk & Hv & Hr). simpl in Hk, Hv, Hr. subst k2 v2. destruct (k1 =? k); [|auto].
  intros H; inversion H; subst. exists d2; auto.
Qed.

Lemma D_put dm conc k v r d : D dm conc -> in_range_b d r = true ->
  D (m_put k (v, r) dm) (m_put k (v, d) conc).
Proof.
  intros HD Hr. induction HD as [|[k1 [v1 r1]] [k2 [v2 d2]] dm conc Hp HD IH]; simpl.
  - constructor; [|constructor]. repeat split; auto.
  - pose proof Hp as (Hk & _). simpl in Hk. subst k2.
    destruct (k <? k1); [constructor; [repeat split; auto|constructor; auto]|].
    destruct (k =? k1); [constructor; [repeat split; auto|auto]|].
    constructor; auto.
Qed.

Lemma D_del dm conc k : D dm conc -> D (m_del k dm) (m_del k conc).
Proof.
  unfold m_del. induction 1 as [|[k1 e1] [k2 e2] dm conc Hp HD IH]; simpl; [constructor|].
  pose proof Hp as (Hk & _). simpl in Hk. subst k2. destruct (k1 =? k); simpl; auto. constructor; auto.
Qed.

Lemma D_kv dm conc : D dm conc -> map kv_abs dm = map kv_conc conc.
Proof.
  induction 1 as [|[k1 [v1 r1]] [k2 [v2 d2]] dm conc Hp HD IH]; simpl; auto.
  destruct Hp as (Hk & Hv & _). simpl in *. subst. f_equal. exact IH.
Qed.

Lemma D_length dm conc : D dm conc -> length dm = length conc.
Proof. induction 1; simpl; auto. Qed.

Lemma kv_eqb_eq a b : kv_eqb a b = true <-> a = b.
Proof.
  destruct a as [x y], b as [x' y']. unfold kv_eqb; simpl. rewrite andb_true_iff, !Z.eqb_eq.
  split; [intros [-> ->]; auto|intros H; inversion H; auto].
Qed.

Lemma sure_live_ok r d t b : sure_live r b = true -> in_range_b d r = true -> t <= b -> expired t d = false.
Proof.
  intros Hs Hr Ht. unfold expired. destruct r as [|L U]; simpl in *.
  - apply Z.eqb_eq in Hr. subst d. reflexivity.
  - apply andb_true_iff in Hr as [Hr Hu]. apply andb_true_iff in Hr as [_ Hr].
    apply Z.leb_le in Hr, Hu. apply andb_false_iff.
    apply orb_true_iff in Hs as [Hs|Hs]; [apply Z.leb_le in Hs; right|apply Z.ltb_lt in Hs; left]; apply Z.ltb_ge; lia.
Qed.

Lemma sure_expired_ok r d t a : sure_expired r a = true -> in_range_b d r = true -> a <= t -> expired t d = true.
Proof.
  intros Hs Hr Ht. unfold expired. destruct r as [|L U]; simpl in *; [discriminate|].
  apply andb_true_iff in Hs as [S1 S2]. apply Z.ltb_lt in S1, S2.
  apply andb_true_iff in Hr as [Hr R2]. apply andb_true_iff in Hr as [_ R1]. apply Z.leb_le in R1, R2.
  apply andb_true_iff. split; apply Z.ltb_lt; lia.
Qed.

Section Sound.
Variable fl : Z -> Z.
Variable g defttl : Z.
Hypothesis fl_mono : forall x y, x <= y -> fl x <= fl y.
Hypothesis fl_nonneg : forall x, 0 <= x -> 0 <= fl x.
Hypothesis fl_neg : forall x, x < 0 -> fl x < 0.
Hypothesis fl_near : forall x, - g <= 2 * (fl x - x) <= g.

Lemma in_range_new' a b t ttl r : 0 < a -> a <= t <= b -> new_range defttl a b ttl = Some r ->
  in_range_b (new_expire defttl t ttl) r = true.
Proof.
  intros Ha Ht. unfold new_range, new_expire.
  destruct (eff_ttl defttl ttl) as [x|] eqn:E; [|intros H; inversion H; reflexivity].
  apply eff_ttl_pos in E. pose proof M63_pos as Hm. pose proof M64_M63 as Hm2.
  destruct (Z.ltb_spec (b + x) M63) as [H1|H1].
  - intros H; inversion H; subst r. rewrite wrap64_id by lia. simpl.
    destruct (Z.eqb_spec (t + x) 0); [lia|]. simpl. apply andb_true_iff. split; apply Z.leb_le; lia.
  - destruct (Z.leb_spec M63 (a + x)) as [H2|H2]; [|discriminate].
    destruct (Z.ltb_spec (b + x) M64) as [H3|H3]; [|discriminate]. cbn [andb].
    intros H; inversion H; subst r. rewrite wrap64_once by lia. simpl.
    destruct (Z.eqb_spec (t + x - M64) 0); [lia|]. simpl. apply andb_true_iff. split; apply Z.leb_le; lia.
Qed.

Lemma dstore_sound dm conc k v a b t ttl dm' : D dm conc -> 0 < a -> a <= t <= b ->
  dstore defttl dm k v a b ttl = Some dm' -> D dm' (m_put k (v, new_expire defttl t ttl) conc).
Proof.
  intros HD Ha Ht. unfold dstore. destruct (new_range defttl a b ttl) as [r|] eqn:Er; [|discriminate].
  intros H; inversion H; subst dm'. apply D_put; auto. eapply in_range_new'; eauto.
Qed.

Lemma in_range_exact' d : in_range_b d (exact d) = true.
Proof.
  unfold exact. destruct (Z.eqb_spec d 0) as [H|H]; simpl.
  - now apply Z.eqb_eq.
  - rewrite !Z.leb_refl. destruct (Z.eqb_spec d 0); [contradiction|reflexivity].
Qed.

Lemma dmiss_sound dm conc k a t dm' : D dm conc -> dmiss dm k a = Some dm' -> a <= t ->
  (m_get conc k = None /\ D dm' conc) \/
  (exists v d, m_get conc k = Some (v, d) /\ expired t d = true /\ D dm' (m_del k conc)).
Proof.
  intros HD Hm Ht. unfold dmiss in Hm. destruct (m_get dm k) as [[v r]|] eqn:Eg.
  - destruct (sure_expired r a) eqn:Es; [|discriminate]. inversion Hm; subst dm'.
    destruct (D_get_some dm conc k v r HD Eg) as (d & Hc & Hr). right. exists v, d.
    split; [exact Hc|split; [eapply sure_expired_ok; eauto|now apply D_del]].
  - inversion Hm; subst dm'. left. split; [eapply D_get_none; eauto|exact HD].
Qed.

Lemma dsweep_sound a b t : a <= t <= b -> forall dm conc dm', D dm conc -> dsweep g a b dm = Some dm' ->
  D dm' (filter (fun p => negb (swept fl t (snd (snd p)))) conc).
Proof.
  intros Ht dm conc dm' HD. revert dm'.
  induction HD as [|[k1 [v1 r1]] [k2 [v2 d2]] dm conc Hp HD IH]; intros dm' Hs; simpl in Hs; simpl.
  - inversion Hs. constructor.
  - destruct (dsweep g a b dm) as [t'|]; [|discriminate]. specialize (IH t' eq_refl).
    pose proof Hp as (Hk & Hv & Hr). simpl in Hk, Hv, Hr.
    destruct r1 as [|L U].
    + inversion Hs; subst dm'. simpl in Hr. apply Z.eqb_eq in Hr. subst d2.
      unfold swept at 1. simpl. constructor; auto.
    + simpl in Hr. apply andb_true_iff in Hr as [Hr Q2]. apply andb_true_iff in Hr as [Q0 Q1].
      apply Z.leb_le in Q1, Q2. apply negb_true_iff in Q0.
      destruct ((0 <=? L) && (U <=? a)) eqn:Erm.
      * inversion Hs; subst dm'. apply andb_true_iff in Erm as [R1 R2]. apply Z.leb_le in R1, R2.
        assert (Esw : swept fl t d2 = true).
        { unfold swept. rewrite Q0. simpl. apply andb_true_iff. split; apply Z.leb_le.
          - apply fl_nonneg. lia.
          - apply fl_mono. lia. }
        rewrite Esw. simpl. exact IH.
      * destruct ((b + g <? L) || (U <? 0)) eqn:Hk'; [|discriminate]. inversion Hs; subst dm'.
        assert (Esw : swept fl t d2 = false).
        { unfold swept. apply orb_true_iff in Hk' as [Hk'|Hk']; apply Z.ltb_lt in Hk'.
          - destruct (fl d2 <=? fl t) eqn:E3; [|now rewrite andb_false_r].
            exfalso. apply Z.leb_le in E3. pose proof (fl_near d2). pose proof (fl_near t). lia.
          - pose proof (fl_neg d2 ltac:(lia)) as Hn. destruct (Z.leb_spec 0 (fl d2)); [lia|].
            now rewrite andb_false_r. }
        rewrite Esw. simpl. constructor; [exact Hp|exact IH].
Qed.

Lemma drestore_sound a b t : a <= t <= b -> forall data dm conc dm', D dm conc ->
  drestore a b data dm = Some dm' -> D dm' (s_load conc data t).
Proof.
  intros Ht. unfold s_load. induction data as [|[k [v d]] rest IH]; intros dm conc dm' HD Hr; simpl in Hr; simpl.
  - inversion Hr; subst. exact HD.
  - destruct ((0 <? d) && (d <? a)) eqn:E1.
    + assert (Ex : expired t d = true).
      { unfold expired. apply andb_true_iff in E1 as [A B]. apply Z.ltb_lt in A, B.
        apply andb_true_iff. split; apply Z.ltb_lt; lia. }
      rewrite Ex. eapply IH; eauto.
    + destruct ((d <=? 0) || (b <=? d)) eqn:E2; [|discriminate].
      assert (Ex : expired t d = false).
      { unfold expired. apply orb_true_iff in E2 as [A|A]; apply Z.leb_le in A; apply andb_false_iff;
          [left|right]; apply Z.ltb_ge; lia. }
      rewrite Ex. eapply IH; [|exact Hr]. apply D_put; auto. apply in_range_exact'.
Qed.

Lemma dstep_sound dm conc s t dm' :
  D dm conc -> dstep g defttl dm s = Some dm' -> 0 < t_a s -> t_a s <= t <= t_b s ->
  D dm' (fst (sstep fl defttl conc t (t_op s))) /\ out_sim (snd (sstep fl defttl conc t (t_op s))) (t_out s).
Proof.
  intros HD Hs Ha Ht. unfold dstep in Hs.
  destruct (t_op s) as [k v ttl|k v ttl|k v ttl|k|k| | | | |data|data];
    destruct (t_out s) as [|bo|[[gv gd]|]|n|l]; try discriminate; simpl.
  - (* Set *) split; [|exact I]. eapply dstore_sound; eauto.
  - (* SetIfAbsent *) destruct bo.
    + destruct (m_get dm k) as [e|] eqn:Eg; [discriminate|].
      rewrite (D_get_none dm conc k HD Eg). simpl. split; [|reflexivity]. eapply dstore_sound; eauto.
    + destruct (m_get dm k) as [[v0 r0]|] eqn:Eg; [|discriminate]. inversion Hs; subst dm'.
      destruct (D_get_some dm conc k v0 r0 HD Eg) as (d0 & Hc & _). rewrite Hc. simpl. split; [exact HD|reflexivity].
  - (* Replace *) destruct bo.
    + destruct (m_get dm k) as [[v0 r0]|] eqn:Eg; [|discriminate].
      destruct (sure_live r0 (t_b s)) eqn:El; [|discriminate].
      destruct (D_get_some dm conc k v0 r0 HD Eg) as (d0 & Hc & Hr). rewrite Hc.
      rewrite (sure_live_ok r0 d0 t (t_b s) El Hr (proj2 Ht)). simpl. split; [|reflexivity].
      eapply dstore_sound; eauto.
    + destruct (dmiss_sound dm conc k (t_a s) t dm' HD Hs (proj1 Ht)) as [[Hc HD']|(v0 & d0 & Hc & Hex & HD')].
      * rewrite Hc. simpl. split; [exact HD'|reflexivity].
      * rewrite Hc, Hex. simpl. split; [exact HD'|reflexivity].
  - (* Delete *) inversion Hs; subst dm'. split; [now apply D_del|exact I].
  - (* Get hit *) destruct (m_get dm k) as [[v0 r0]|] eqn:Eg; [|discriminate].
    destruct (Z.eqb_spec v0 gv) as [Hv|Hv]; [|discriminate]. simpl in Hs.
    destruct (sure_live r0 (t_b s)) eqn:El; [|discriminate]. inversion Hs; subst dm'.
    destruct (D_get_some dm conc k v0 r0 HD Eg) as (d0 & Hc & Hr). rewrite Hc.
    rewrite (sure_live_ok r0 d0 t (t_b s) El Hr (proj2 Ht)). simpl. split; [exact HD|exact Hv].
  - (* Get miss *)
    destruct (dmiss_sound dm conc k (t_a s) t dm' HD Hs (proj1 Ht)) as [[Hc HD']|(v0 & d0 & Hc & Hex & HD')].
    + rewrite Hc. simpl. split; [exact HD'|exact I].
    + rewrite Hc, Hex. simpl. split; [exact HD'|exact I].
  - (* Count *) destruct (Nat.eqb_spec n (length dm)) as [Hn|Hn]; [|discriminate]. inversion Hs; subst dm'.
    split; [exact HD|]. simpl. rewrite Hn. symmetry. now apply D_length.
  - (* Clear *) inversion Hs; subst dm'. split; [constructor|exact I].
  - (* Sweep *) split; [|exact I]. eapply dsweep_sound; eauto.
  - (* Export *) destruct (list_eqb kv_eqb (map kv_abs dm) (map kv_conc l)) eqn:El; [|discriminate].
    inversion Hs; subst dm'. split; [exact HD|]. simpl.
    apply (list_eqb_eq kv_eqb kv_eqb_eq) in El. rewrite <- El. symmetry. now apply D_kv.
  - (* Restore *) split; [|exact I]. eapply drestore_sound; eauto. constructor.
  - (* Load *) split; [|exact I]. eapply drestore_sound; eauto.
Qed.

Lemma drun_sound tr : forall ts dm conc, D dm conc -> drun g defttl dm tr = true -> within tr ts ->
  Forall2 out_sim (snd (srun fl defttl conc (combine ts (map t_op tr)))) (observed tr).
Proof.
  induction tr as [|s tr IH]; intros ts dm conc HD Hr Hw; simpl in Hr; simpl.
  - inversion Hw; subst. simpl. constructor.
  - inversion Hw as [|? t ? ts' [Ha Ht] Hw']; subst. simpl.
    destruct (dstep g defttl dm s) as [dm'|] eqn:Es; [|discriminate].
    destruct (dstep_sound dm conc s t dm' HD Es Ha Ht) as [HD' Ho].
    destruct (sstep fl defttl conc t (t_op s)) as [conc' r]. simpl in HD', Ho.
    specialize (IH ts' dm' conc' HD' Hr Hw').
    destruct (srun fl defttl conc' (combine ts' (map t_op tr))) as [conc'' rs]. simpl in *.
    constructor; auto.
Qed.

(* Full statement aimed at (DESIGN Appendix A):
     decided_b tr = true -> admissible_b tr = true -> forall ts, within tr ts -> spec_outputs tr ts = observed tr.
   With literal equality of outputs this is false: an observed deadline fixes the instant its store read, so
   other instants give other deadlines. Proved instead: outputs equal up to the exact deadline values
   ([out_sim]), with [decided_b] strict enough not to need [admissible_b] as a second premise. *)
Theorem decided_sound_partial tr : decided_b g defttl tr = true ->
  forall ts, within tr ts -> Forall2 out_sim (spec_outputs fl defttl tr ts) (observed tr).
Proof. intros Hd ts Hw. unfold spec_outputs. eapply drun_sound; eauto. constructor. Qed.
End Sound.

Theorem decided_sound_f64 defttl tr : decided_b 1024 defttl tr = true ->
  forall ts, within tr ts -> Forall2 out_sim (spec_outputs f64 defttl tr ts) (observed tr).
Proof.
  apply (decided_sound_partial f64 1024 defttl).
  - exact f64_mono.
  - exact f64_nonneg.
  - exact f64_negative.
  - exact f64_near.
Qed.
