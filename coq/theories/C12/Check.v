(* C12 correspondence checker, evaluated by vm_compute on the cases the harness writes.
   CTrace: one recorded trace of API calls on one cache instance.
     kind 2 (step*4+2): the observations are INADMISSIBLE: no choice of instants inside the recorded clock
                        brackets lets the reference semantics return what the implementation returned
                        (Interval.adm_first; IntervalProofs.admissible_complete = no false alarm).
     kind 1 (step*4+1): admissible, but the model run at the witness instants the harness proposes does not
                        reproduce the output or the internal state (member map, deadline index) exactly.
     A kind 2 anywhere in the trace wins over a kind 1 at an earlier step.
   CTicker: real sentinel run: Count after the allowance must equal the number of non-expired entries
     (expected) and no untimed / long-lived entry may be missing (lost).
   CRace: one race round on one key of a shared cache (Race.v): code 2 = the epilogue Get is not explained by
     any linearisation of the round (step 0), code 6 = a racing Get is not (step 1); both kind 2
     (RaceProofs.race_complete = no false alarm). Times relative to t0 as in CTrace. *)
From VF Require Import Common.Base C12.Model C12.Spec C12.Interval C12.Race.
Local Open Scope Z_scope.

Record step := {
  s_op : op; s_a : Z; s_b : Z; s_out : out;
  s_tw : Z;                          (* witness instant proposed by the harness, checked here *)
  s_mem : list (Z * entry);          (* member map after the call, sorted by key (verif accessor) *)
  s_vis : list (Z * Z)               (* deadline index after the call: (score, key) in list order *)
}.

(* Recorded times are written relative to the first clock reading t0 of the trace (19-digit numerals are
   slow to parse): s_a = a - t0, s_b = b - a, s_tw = tw - a; deadlines and scores = value - t0, the untimed
   Expire 0 stays 0. [reb_step] restores the absolute values before anything is checked. *)
(* g = slack of the interval checker = largest spacing of the score conversion f64 on int64 (1024); the model
   run itself uses f64 *)
Inductive case :=
| CTrace (defttl g t0 : Z) (steps : list step)
| CTicker (expected observed lost : nat)
| CRace (defttl t0 : Z) (stores : list rstore) (gets : list (option entry)) (final : option entry).

Definition entry_eqb (x y : entry) : bool := (fst x =? fst y) && (snd x =? snd y).
Definition kent_eqb (x y : Z * entry) : bool := (fst x =? fst y) && entry_eqb (snd x) (snd y).
Definition zz_eqb (x y : Z * Z) : bool := (fst x =? fst y) && (snd x =? snd y).

Definition out_eqb (x y : out) : bool :=
  match x, y with
  | OutUnit, OutUnit => true
  | OutBool a, OutBool b => Bool.eqb a b
  | OutGet a, OutGet b => option_eqb entry_eqb a b
  | OutCount a, OutCount b => Nat.eqb a b
  | OutExport a, OutExport b => list_eqb kent_eqb a b
  | _, _ => false
  end.

Definition to_tstep (s : step) : tstep := {| t_op := s_op s; t_a := s_a s; t_b := s_b s; t_out := s_out s |}.

Definition model_step (g defttl : Z) (st : state) (s : step) : state * nat :=
  let '(st', o) := mstep f64 defttl st (s_tw s) (s_op s) in
  let ok := (s_a s <=? s_tw s) && (s_tw s <=? s_b s) && out_eqb o (s_out s)
            && list_eqb kent_eqb (member st') (s_mem s) && list_eqb zz_eqb (visit st') (s_vis s) in
  (st', if ok then 0%nat else 1%nat).

Definition reb (t0 d : Z) : Z := if d =? 0 then 0 else t0 + d.
Definition reb_ent (t0 : Z) (p : Z * entry) : Z * entry := (fst p, (fst (snd p), reb t0 (snd (snd p)))).
Definition reb_op (t0 : Z) (o : op) : op :=
  match o with
  | ORestore data => ORestore (map (reb_ent t0) data)
  | OLoad data => OLoad (map (reb_ent t0) data)
  | _ => o
  end.
Definition reb_out (t0 : Z) (r : out) : out :=
  match r with
  | OutGet (Some (v, d)) => OutGet (Some (v, reb t0 d))
  | OutExport l => OutExport (map (reb_ent t0) l)
  | _ => r
  end.
Definition reb_step (t0 : Z) (s : step) : step :=
  {| s_op := reb_op t0 (s_op s); s_a := t0 + s_a s; s_b := t0 + s_a s + s_b s; s_out := reb_out t0 (s_out s);
     s_tw := t0 + s_a s + s_tw s; s_mem := map (reb_ent t0) (s_mem s);
     s_vis := map (fun p => (t0 + fst p, snd p)) (s_vis s) |}.

Definition reb_obs (t0 : Z) (o : option entry) : option entry :=
  match o with Some (v, d) => Some (v, reb t0 d) | None => None end.
Definition reb_store (t0 : Z) (s : rstore) : rstore :=
  {| r_op := r_op s; r_a := t0 + r_a s; r_b := t0 + r_a s + r_b s; r_ok := r_ok s |}.

Definition check_case (c : case) : nat :=
  match c with
  | CTrace defttl g t0 rsteps =>
      let steps := map (reb_step t0) rsteps in
      match adm_first g defttl [] (map to_tstep steps) 0 with
      | Some i => (i * 4 + 2)%nat
      | None => scan (model_step g defttl) st0 steps 0
      end
  | CTicker expected observed lost =>
      if Nat.eqb observed expected && Nat.eqb lost 0 then 0%nat else 2%nat
  | CRace defttl t0 rstores rgets rfinal =>
      let stores := map (reb_store t0) rstores in
      let gets := map (reb_obs t0) rgets in
      let final := reb_obs t0 rfinal in
      if negb (final_ok defttl stores final) then 2%nat
      else if negb (forallb (robs_ok defttl stores) gets) then 6%nat else 0%nat
  end.

Definition mismatches (cs : list case) : list (nat * nat) := find_bad check_case cs.
