(* C12 race rounds (definitions; theorems in RaceProofs.v).
   One round on ONE key k of a shared cache: the key holds an entry whose deadline has passed and that nobody
   has evicted yet (no sweeper); then, all released together, getters call Get(k) repeatedly while writers each
   store once (Set / SetNoExpire / SetDefault: unconditional; SetIfAbsent / Replace: conditional, reporting a
   bool) with a long or no TTL; nobody calls Delete or Clear and no sweep runs. After the join the epilogue reads
   the key once more. The calls overlap, so there is no single sequential trace; what every linearisation of
   the round has in common is judged:
     - a racing Get misses or returns the value (and shown deadline) of a store of this round that took effect;
     - the epilogue Get returns such a store too, and may miss ONLY when no store of the round took effect.
   A store "took effect" when it is unconditional or reported true. *)
From VF Require Import Common.Base C12.Model C12.Spec C12.Interval.
Local Open Scope Z_scope.

(* one store call of the round: the operation, its clock bracket, whether it took effect *)
Record rstore := { r_op : op; r_a : Z; r_b : Z; r_ok : bool }.

Definition store_val (o : op) : option (Z * Z) :=          (* value, ttl argument *)
  match o with
  | OSet _ v ttl | OSetIfAbsent _ v ttl | OReplace _ v ttl => Some (v, ttl)
  | _ => None
  end.

(* can an entry whose stored deadline lies in r be shown as sd *)
Definition shown_in (r : arange) (sd : Z) : bool :=
  match r with
  | Untimed => sd =? 0
  | Rng L U => if 0 <? sd then (L <=? sd) && (sd <=? U) else (sd =? 0) && (L <? 0)
  end.

Section Race.
Variable defttl : Z.

Definition rmatches (s : rstore) (v sd : Z) : bool :=
  r_ok s &&
  match store_val (r_op s) with
  | Some (v', ttl) => (v' =? v) && match new_range defttl (r_a s) (r_b s) ttl with
                                   | Some r => shown_in r sd
                                   | None => true
                                   end
  | None => false
  end.

Definition robs_ok (stores : list rstore) (o : option entry) : bool :=
  match o with
  | None => true
  | Some (v, sd) => existsb (fun s => rmatches s v sd) stores
  end.

Definition final_ok (stores : list rstore) (final : option entry) : bool :=
  match final with
  | None => negb (existsb r_ok stores)
  | Some _ => robs_ok stores final
  end.

Definition race_ok (stores : list rstore) (gets : list (option entry)) (final : option entry) : bool :=
  forallb (robs_ok stores) gets && final_ok stores final.
End Race.
