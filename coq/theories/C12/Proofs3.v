(* C12 proofs, part 3: the theorems of Props.v in their final form (model level, concrete rounding f64r),
   and the link between Check.check_case and the interval checker. *)
From VF Require Import Common.Base C12.Model C12.Spec C12.Proofs C12.Proofs2 C12.F64 C12.Interval C12.IntervalProofs C12.Check.
Local Open Scope Z_scope.

(* outputs of a model step in a reachable state = outputs of the reference step *)
Lemma reachable_step fl defttl tops now o : ops_wf tops -> op_wf o ->
  snd (mstep fl defttl (fst (mrun fl defttl st0 tops)) now o)
  = snd (sstep fl defttl (fst (srun fl defttl [] tops)) now o).
Proof.
  intros Hwf Ho.
  destruct (run_refines fl defttl tops st0 [] (conj eq_refl (Inv_st0 fl)) Hwf) as [HR _].
  apply (step_refines fl defttl _ _ now o HR Ho).
Qed.

Theorem get_live_generic fl defttl (fl_mono : forall x y, x <= y -> fl x <= fl y)
  (fl_neg : forall x, x < 0 -> fl x < 0) tops now k :
  times_ok (tops ++ [(now, OGet k)]) -> ops_wf tops ->
  let s := fst (mrun fl defttl st0 tops) in
  let h := combine tops (snd (mrun fl defttl st0 tops)) in
  (forall v sd, snd (mstep fl defttl s now (OGet k)) = OutGet (Some (v, sd)) ->
     exists d, last_stored defttl k h = Some (v, d) /\ sd = shown d /\ (d <= 0 \/ now <= d)) /\
  (forall v d, last_stored defttl k h = Some (v, d) -> (d <= 0 \/ fl now < fl d) ->
               snd (mstep fl defttl s now (OGet k)) = OutGet (Some (v, shown d))).
Proof.
  intros Ht Hwf. cbv zeta. rewrite (refines fl defttl tops Hwf).
  rewrite (reachable_step fl defttl tops now (OGet k) Hwf I).
  exact (get_live fl defttl fl_mono fl_neg tops now k Ht Hwf).
Qed.

Theorem get_live_f64 defttl tops now k :
  times_ok (tops ++ [(now, OGet k)]) -> ops_wf tops ->
  let s := fst (mrun f64 defttl st0 tops) in
  let h := combine tops (snd (mrun f64 defttl st0 tops)) in
  (forall v sd, snd (mstep f64 defttl s now (OGet k)) = OutGet (Some (v, sd)) ->
     exists d, last_stored defttl k h = Some (v, d) /\ sd = shown d /\ (d <= 0 \/ now <= d)) /\
  (forall v d, last_stored defttl k h = Some (v, d) -> (d <= 0 \/ now + 1024 < d) ->
               snd (mstep f64 defttl s now (OGet k)) = OutGet (Some (v, shown d))).
Proof.
  intros Ht Hwf. cbv zeta.
  destruct (get_live_generic f64 defttl f64_mono f64_negative tops now k Ht Hwf) as [H1 H2].
  split; [exact H1|]. intros v d Hl [Hd|Hd]; apply H2; auto. right. now apply f64_gap.
Qed.

(* a deadline that wrapped negative: the entry behaves as one without expiry *)
Theorem wrap_negative defttl now ttl x : eff_ttl defttl ttl = Some x -> M63 <= now + x < M64 ->
  new_expire defttl now ttl = now + x - M64 /\ new_expire defttl now ttl < 0.
Proof.
  intros E H. unfold new_expire. rewrite E. pose proof M64_M63. pose proof M63_pos.
  rewrite wrap64_once by lia. lia.
Qed.

Theorem wrapped_never_expires fl (fl_neg : forall x, x < 0 -> fl x < 0) defttl s k v d :
  Inv fl s -> m_get (member s) k = Some (v, d) -> d < 0 ->
  forall now, mstep fl defttl s now (OGet k) = (s, OutGet (Some (v, 0))) /\
              m_get (member (m_sweep fl s now)) k = Some (v, d).
Proof.
  intros HI Hg Hd now. split.
  - cbn [mstep]. unfold m_get_op. rewrite Hg. unfold expired, shown.
    destruct (Z.ltb_spec 0 d); [lia|]. reflexivity.
  - rewrite (sweep_exact fl s now k HI), Hg. unfold swept.
    pose proof (fl_neg d Hd). destruct (Z.leb_spec 0 (fl d)); [lia|]. now rewrite andb_false_r.
Qed.

Theorem untimed_survive_reachable fl defttl tops now k v : ops_wf tops ->
  let s := fst (mrun fl defttl st0 tops) in
  m_get (member s) k = Some (v, 0) -> m_get (member (m_sweep fl s now)) k = Some (v, 0).
Proof. intros Hwf. cbv zeta. apply untimed_survive. now apply index_inv. Qed.

Theorem sweep_exact_reachable fl defttl tops now k : ops_wf tops ->
  let s := fst (mrun fl defttl st0 tops) in
  m_get (member (m_sweep fl s now)) k =
  match m_get (member s) k with
  | Some (v, d) => if swept fl now d then None else Some (v, d)
  | None => None
  end.
Proof. intros Hwf. cbv zeta. apply sweep_exact. now apply index_inv. Qed.

Theorem setifabsent_cond fl defttl s now k v ttl :
  let r := mstep fl defttl s now (OSetIfAbsent k v ttl) in
  snd r = OutBool (match m_get (member s) k with None => true | Some _ => false end) /\
  (snd r = OutBool true -> m_get (member (fst r)) k = Some (v, new_expire defttl now ttl)) /\
  (snd r = OutBool false -> fst r = s).
Proof.
  cbv zeta. simpl. unfold m_setifabsent. destruct (m_get (member s) k) eqn:Eg; simpl.
  - split; [reflexivity|split; [discriminate|reflexivity]].
  - split; [reflexivity|split; [|discriminate]]. intros _. now rewrite m_get_put, Z.eqb_refl.
Qed.

Theorem replace_cond fl defttl s now k v ttl :
  let r := mstep fl defttl s now (OReplace k v ttl) in
  snd r = OutBool (match m_get (member s) k with Some (_, d0) => negb (expired now d0) | None => false end) /\
  (snd r = OutBool true -> m_get (member (fst r)) k = Some (v, new_expire defttl now ttl)).
Proof.
  cbv zeta. simpl. unfold m_replace. destruct (m_get (member s) k) as [[v0 d0]|] eqn:Eg; simpl.
  - destruct (expired now d0); simpl; (split; [reflexivity|]); [discriminate|].
    intros _. now rewrite m_get_put, Z.eqb_refl.
  - split; [reflexivity|discriminate].
Qed.

Theorem count_sweep_f64 defttl tops now : ops_wf tops ->
  let s := fst (mrun f64 defttl st0 tops) in
  let s' := m_sweep f64 s now in
  snd (mstep f64 defttl s now OCount) = OutCount (length (member s)) /\
  (forall k v d, m_get (member s') k = Some (v, d) -> m_get (member s) k = Some (v, d) /\ (d <= 0 \/ now < d)) /\
  (forall k v d, m_get (member s) k = Some (v, d) -> d <= 0 \/ now + 1024 < d -> m_get (member s') k = Some (v, d)).
Proof.
  intros Hwf. cbv zeta.
  destruct (count_sweep f64 defttl f64_negative f64_nonneg tops now Hwf) as (H1 & H2 & H3).
  split; [exact H1|split].
  - intros k v d H. destruct (H2 k v d H) as [Ha [Hb|Hb]]; split; auto. right. now apply f64_lt_inv.
  - intros k v d H [Hd|Hd]; apply H3; auto. right. now apply f64_gap.
Qed.

Theorem roundtrip_reachable fl defttl tops : ops_wf tops ->
  let s := fst (mrun fl defttl st0 tops) in
  forall now, snd (mstep fl defttl s now OExport) = OutExport (member s) /\
  forall s0 now',
    let s' := fst (mstep fl defttl s0 now' (ORestore (member s))) in
    member s' = filter (fun p => negb (expired now' (snd (snd p)))) (member s) /\ Inv fl s'.
Proof.
  intros Hwf. cbv zeta. intros now. split; [reflexivity|]. intros s0 now'. simpl.
  apply (roundtrip fl _ now'). now apply index_inv.
Qed.

(* Load onto an arbitrary cache state *)
Theorem load_any fl defttl s (data : list (Z * entry)) now : Inv fl s -> NoDup (map fst data) ->
  let s' := fst (mstep fl defttl s now (OLoad data)) in
  Inv fl s' /\
  forall k, m_get (member s') k = match m_get data k with
                                  | Some (v, d) => if expired now d then m_get (member s) k else Some (v, d)
                                  | None => m_get (member s) k
                                  end.
Proof.
  intros HI Hnd. cbv zeta. simpl. split; [now apply Inv_load|].
  intros k. rewrite member_load. now apply get_s_load_gen.
Qed.

Theorem f64_round :
  (forall x y, x <= y -> f64 x <= f64 y) /\
  (forall x, - 1024 <= 2 * (f64 x - x) <= 1024) /\
  (forall x, 0 <= x -> 0 <= f64 x) /\
  (forall x, x < 0 -> f64 x < 0).
Proof. split; [exact f64_mono|split; [exact f64_near|split; [exact f64_nonneg|exact f64_negative]]]. Qed.

Theorem admissible_complete_f64 defttl tr :
  (exists ts, within tr ts /\ spec_outputs f64 defttl tr ts = observed tr) ->
  admissible_b 1024 defttl tr = true.
Proof.
  apply (admissible_complete f64 1024 defttl).
  - exact f64_mono.
  - exact f64_nonneg.
  - exact f64_negative.
  - exact f64_near.
Qed.

(* ---------- Check.check_case reports kind 2 exactly for inadmissible traces ---------- *)
Lemma scan_from_kind01 {St X} (f : St -> X -> St * nat) :
  (forall s x, snd (f s x) = 0%nat \/ snd (f s x) = 1%nat) ->
  forall xs s i first1, (first1 mod 4 <> 2)%nat -> ((scan_from f s xs i first1) mod 4 <> 2)%nat.
Proof.
  intros Hf. induction xs as [|x t IH]; intros s i first1 H1; [exact H1|].
  cbn [scan_from]. pose proof (Hf s x) as Hk. destruct (f s x) as [s' k]. cbn [snd] in Hk.
  destruct Hk as [->| ->]; cbn [Nat.eqb Nat.leb].
  - apply IH. exact H1.
  - apply IH. destruct (Nat.eqb first1 0); [|exact H1].
    rewrite Nat.add_comm, Nat.mod_add by lia. cbv. discriminate.
Qed.
Lemma scan_kind01 {St X} (f : St -> X -> St * nat) :
  (forall s x, snd (f s x) = 0%nat \/ snd (f s x) = 1%nat) ->
  forall xs s i, ((scan f s xs i) mod 4 <> 2)%nat.
Proof. intros Hf xs s i. unfold scan. apply scan_from_kind01; [exact Hf|]. cbv. discriminate. Qed.

Theorem kind2_iff_inadmissible defttl g t0 steps :
  ((check_case (CTrace defttl g t0 steps)) mod 4 = 2)%nat
  <-> admissible_b g defttl (map to_tstep (map (reb_step t0) steps)) = false.
Proof.
  unfold check_case, admissible_b.
  destruct (adm_first g defttl [] (map to_tstep (map (reb_step t0) steps)) 0) as [i|].
  - split; [reflexivity|]. intros _. rewrite Nat.add_comm, Nat.mod_add by lia. reflexivity.
  - split; [|discriminate]. intros H. exfalso. revert H. apply scan_kind01.
    intros s x. unfold model_step. destruct (mstep f64 defttl s (s_tw x) (s_op x)) as [s' o]. simpl.
    match goal with |- context [if ?c then _ else _] => destruct c end; auto.
Qed.
