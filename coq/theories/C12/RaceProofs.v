(* C12 race rounds: race_ok (Race.v) never rejects a round that SOME linearisation explains.
   A linearisation is any sequence of the round's calls on the key (Get / Set / SetIfAbsent / Replace, in any
   order) with instants inside the stores' clock brackets, run through the reference semantics Spec.sstep from a
   state in which the key is absent or holds an entry expired at every instant of the round, where nothing
   stored in the round expires before the epilogue. If the reference semantics returns what the calls returned
   and the epilogue Get returns [final], then race_ok accepts. race_ok looks at the stores and racing gets only
   through membership tests, so the order in which the harness lists them is irrelevant (race_ok_perm). *)
From VF Require Import Common.Base C12.Model C12.Spec C12.Proofs C12.Proofs2 C12.F64 C12.Interval C12.DecidedProofs C12.Race.
Local Open Scope Z_scope.

Inductive rev := EGet (obs : option entry) | EStore (s : rstore) | ESweep.   (* ESweep: a sweep racing the round *)

Definition ev_op (k : Z) (e : rev) : op := match e with EGet _ => OGet k | EStore s => r_op s | ESweep => OSweep end.
Definition ev_out (e : rev) : out :=
  match e with
  | EGet o => OutGet o
  | EStore s => match r_op s with OSet _ _ _ => OutUnit | _ => OutBool (r_ok s) end
  | ESweep => OutUnit
  end.
Definition ev_stores (e : rev) : list rstore := match e with EStore s => [s] | _ => [] end.
Definition ev_gets (e : rev) : list (option entry) := match e with EGet o => [o] | _ => [] end.
Definition stores_of (lin : list (rev * Z)) : list rstore := flat_map (fun x => ev_stores (fst x)) lin.
Definition gets_of (lin : list (rev * Z)) : list (option entry) := flat_map (fun x => ev_gets (fst x)) lin.

Lemma shown_in_of_range d r : in_range_b d r = true -> shown_in r (shown d) = true.
Proof.
  unfold shown_in, shown. destruct r as [|L U]; simpl.
  - intros H. apply Z.eqb_eq in H. subst d. reflexivity.
  - intros H. apply andb_true_iff in H as [H H2]. apply andb_true_iff in H as [H0 H1].
    apply negb_true_iff, Z.eqb_neq in H0. apply Z.leb_le in H1, H2.
    destruct (Z.ltb_spec 0 d) as [Hp|Hn].
    + destruct (Z.ltb_spec 0 d); [|lia]. apply andb_true_iff. split; apply Z.leb_le; lia.
    + cbn. apply Z.ltb_lt. lia.
Qed.

Section RaceComplete.
Variable fl : Z -> Z.
Variable defttl k : Z.
Variable T : list Z.            (* every instant of the round and of the epilogue *)

(* store s put (v, d) *)
Definition smatch (s : rstore) (v d : Z) : Prop :=
  r_ok s = true /\ exists ttl, store_val (r_op s) = Some (v, ttl) /\
  match new_range defttl (r_a s) (r_b s) ttl with Some r => in_range_b d r = true | None => True end.

Lemma smatch_rmatches s v d : smatch s v d -> rmatches defttl s v (shown d) = true.
Proof.
  intros (Hok & ttl & Hv & Hr). unfold rmatches. rewrite Hok, Hv, Z.eqb_refl. simpl.
  destruct (new_range defttl (r_a s) (r_b s) ttl); auto. now apply shown_in_of_range.
Qed.

Definition wf_ev (x : rev * Z) : Prop :=
  match fst x with
  | EGet _ | ESweep => True
  | EStore s => 0 < r_a s /\ r_a s <= snd x <= r_b s /\
                match r_op s with
                | OSet k' _ _ => k' = k /\ r_ok s = true
                | OSetIfAbsent k' _ _ | OReplace k' _ _ => k' = k
                | _ => False
                end
  end.

(* nothing stored in the round expires, or is due for a sweep, at any instant of T *)
Definition keeps_ev (x : rev * Z) : Prop :=
  match fst x with
  | EGet _ | ESweep => True
  | EStore s => forall v ttl, store_val (r_op s) = Some (v, ttl) ->
                forall t', In t' T -> expired t' (new_expire defttl (snd x) ttl) = false /\
                                      swept fl t' (new_expire defttl (snd x) ttl) = false
  end.

Definition KInv0 (m : smap) (seen : list rstore) : Prop :=
  (existsb r_ok seen = false /\
   (m_get m k = None \/ exists v d, m_get m k = Some (v, d) /\ forall t, In t T -> expired t d = true))
  \/
  (exists v d s, m_get m k = Some (v, d) /\ In s seen /\ smatch s v d /\
                 forall t, In t T -> expired t d = false /\ swept fl t d = false).
Definition KInv (m : smap) (seen : list rstore) : Prop := ksorted m /\ KInv0 m seen.

Lemma KInv_new m seen s v t ttl :
  store_val (r_op s) = Some (v, ttl) -> r_ok s = true -> 0 < r_a s -> r_a s <= t <= r_b s ->
  (forall t', In t' T -> expired t' (new_expire defttl t ttl) = false /\ swept fl t' (new_expire defttl t ttl) = false) ->
  KInv0 (m_put k (v, new_expire defttl t ttl) m) (seen ++ [s]).
Proof.
  intros Hv Hok Ha Ht Hk. right. exists v, (new_expire defttl t ttl), s.
  split; [now rewrite m_get_put, Z.eqb_refl|]. split; [apply in_or_app; right; now left|]. split; [|exact Hk].
  split; [exact Hok|]. exists ttl. split; [exact Hv|].
  destruct (new_range defttl (r_a s) (r_b s) ttl) as [r|] eqn:Er; auto. eapply in_range_new'; eauto.
Qed.

Lemma KInv_more m seen s : r_ok s = false -> KInv0 m seen -> KInv0 m (seen ++ [s]).
Proof.
  intros Hf [[He Hm]|(v & d & s0 & Hg & Hin & Hs & Hk)].
  - left. split; auto. rewrite existsb_app, He. simpl. now rewrite Hf.
  - right. exists v, d, s0. repeat split; auto; try apply Hs; try apply Hk; auto. apply in_or_app. now left.
Qed.

Lemma race_step m seen e t : KInv m seen -> wf_ev (e, t) -> keeps_ev (e, t) -> In t T ->
  snd (sstep fl defttl m t (ev_op k e)) = ev_out e ->
  KInv (fst (sstep fl defttl m t (ev_op k e))) (seen ++ ev_stores e) /\
  (forall all, incl seen all -> forallb (robs_ok defttl all) (ev_gets e) = true).
Proof.
  intros [Hsort HK] Hwf Hkeep HtT Hout. destruct e as [obs|s|]; simpl in *.
  - rewrite app_nil_r.
    destruct HK as [[He [Hm|(v & d & Hm & Hex)]]|(v & d & s0 & Hm & Hin & Hs & Hk)]; rewrite Hm in *; simpl in *.
    + inversion Hout; subst obs. split; [split; [exact Hsort|left; split; auto]|]. intros; reflexivity.
    + rewrite (Hex t HtT) in *. simpl in *. inversion Hout; subst obs.
      split; [|intros; reflexivity]. split; [now apply ksorted_del|]. left. split; auto. left.
      now rewrite m_get_del, Z.eqb_refl.
    + rewrite (proj1 (Hk t HtT)) in *. simpl in *. inversion Hout; subst obs.
      split; [split; [exact Hsort|right; exists v, d, s0; auto]|]. intros all Hincl. simpl. rewrite andb_true_r.
      apply existsb_exists. exists s0. split; [now apply Hincl|now apply smatch_rmatches].
  - split; [|intros; reflexivity].
    unfold wf_ev in Hwf; simpl in Hwf. destruct Hwf as (Ha & Ht & Hop). unfold keeps_ev in Hkeep; simpl in Hkeep.
    destruct (r_op s) as [k' v ttl|k' v ttl|k' v ttl| | | | | | | | ] eqn:Eop; try contradiction.
    + (* Set *) destruct Hop as [-> Hok]. simpl. split; [now apply ksorted_put|].
      apply KInv_new; [rewrite Eop; reflexivity|exact Hok|exact Ha|exact Ht|apply (Hkeep v ttl eq_refl)].
    + (* SetIfAbsent *) subst k'. simpl in *.
      destruct HK as [[He [Hm|(v0 & d0 & Hm & Hex)]]|(v0 & d0 & s0 & Hm & Hin & Hs & Hk)]; rewrite Hm in *; simpl in *.
      * inversion Hout as [Hb]. split; [now apply ksorted_put|].
        apply KInv_new; [rewrite Eop; reflexivity|now symmetry|exact Ha|exact Ht|apply (Hkeep v ttl eq_refl)].
      * inversion Hout as [Hb]. split; [exact Hsort|]. apply KInv_more; auto. left. split; auto. right. exists v0, d0; auto.
      * inversion Hout as [Hb]. split; [exact Hsort|]. apply KInv_more; auto. right. exists v0, d0, s0; auto.
    + (* Replace *) subst k'. simpl in *.
      destruct HK as [[He [Hm|(v0 & d0 & Hm & Hex)]]|(v0 & d0 & s0 & Hm & Hin & Hs & Hk)]; rewrite Hm in *; simpl in *.
      * inversion Hout as [Hb]. split; [exact Hsort|]. apply KInv_more; auto. left. split; auto.
      * rewrite (Hex t HtT) in *. simpl in *. inversion Hout as [Hb]. split; [now apply ksorted_del|].
        apply KInv_more; auto. left. split; auto. left. now rewrite m_get_del, Z.eqb_refl.
      * rewrite (proj1 (Hk t HtT)) in *. simpl in *. inversion Hout as [Hb]. split; [now apply ksorted_put|].
        apply KInv_new; [rewrite Eop; reflexivity|now symmetry|exact Ha|exact Ht|apply (Hkeep v ttl eq_refl)].
  - (* a sweep: may collect the old expired entry, never one stored in the round *)
    rewrite app_nil_r. split; [|intros; reflexivity]. split; [now apply SSorted_filter|].
    destruct HK as [[He [Hm|(v & d & Hm & Hex)]]|(v & d & s0 & Hm & Hin & Hs & Hk)].
    + left. split; auto. left. rewrite m_get_filter by exact Hsort. now rewrite Hm.
    + left. split; auto. rewrite m_get_filter by exact Hsort. rewrite Hm. simpl.
      destruct (swept fl t d); simpl; [now left|right; exists v, d; auto].
    + right. exists v, d, s0. split; [|auto]. rewrite m_get_filter by exact Hsort. rewrite Hm. simpl.
      now rewrite (proj2 (Hk t HtT)).
Qed.

Lemma race_run lin : forall m seen, KInv m seen -> Forall wf_ev lin -> Forall keeps_ev lin ->
  Forall (fun x => In (snd x) T) lin ->
  snd (srun fl defttl m (map (fun x => (snd x, ev_op k (fst x))) lin)) = map (fun x => ev_out (fst x)) lin ->
  KInv (fst (srun fl defttl m (map (fun x => (snd x, ev_op k (fst x))) lin))) (seen ++ stores_of lin) /\
  (forall all, incl (seen ++ stores_of lin) all -> forallb (robs_ok defttl all) (gets_of lin) = true).
Proof.
  induction lin as [|[e t] lin IH]; intros m seen HK Hwf Hkeep HT Hout.
  - simpl. rewrite app_nil_r. split; [exact HK|reflexivity].
  - inversion Hwf as [|? ? Hwf1 Hwf2]; subst. inversion Hkeep as [|? ? Hk1 Hk2]; subst.
    inversion HT as [|? ? HT1 HT2]; subst. cbn [map fst snd srun] in *.
    destruct (sstep fl defttl m t (ev_op k e)) as [m' r] eqn:Est.
    destruct (srun fl defttl m' (map (fun x => (snd x, ev_op k (fst x))) lin)) as [m'' rs] eqn:Er.
    cbn [snd fst] in *. inversion Hout as [[Hr Hrs]].
    destruct (race_step m seen e t HK Hwf1 Hk1 HT1) as [HK' Hg]. { now rewrite Est. }
    rewrite Est in HK'. cbn [fst] in HK'.
    destruct (IH m' (seen ++ ev_stores e) HK' Hwf2 Hk2 HT2) as [HK'' Hgs]. { now rewrite Er. }
    rewrite Er in HK''. cbn [fst] in HK''.
    unfold stores_of, gets_of in *. cbn [flat_map fst]. rewrite app_assoc. split; [exact HK''|].
    intros all Hincl. rewrite forallb_app. apply andb_true_iff. split.
    + apply Hg. intros x Hx. apply Hincl. apply in_or_app. left. apply in_or_app. now left.
    + now apply Hgs.
Qed.

(* no false alarm for race rounds, sweeps included *)
Theorem race_complete lin m te final :
  ksorted m ->
  (m_get m k = None \/ exists v d, m_get m k = Some (v, d) /\ forall t, In t T -> expired t d = true) ->
  Forall wf_ev lin -> Forall keeps_ev lin -> Forall (fun x => In (snd x) T) lin -> In te T ->
  let run := srun fl defttl m (map (fun x => (snd x, ev_op k (fst x))) lin) in
  snd run = map (fun x => ev_out (fst x)) lin ->
  snd (sstep fl defttl (fst run) te (OGet k)) = OutGet final ->
  race_ok defttl (stores_of lin) (gets_of lin) final = true.
Proof.
  intros Hsort Hm0 Hwf Hkeep HT Hte. cbv zeta. intros Hout Hfin.
  destruct (race_run lin m [] (conj Hsort (or_introl (conj eq_refl Hm0))) Hwf Hkeep HT Hout) as [[_ HK] Hg].
  simpl in HK. unfold race_ok. pose proof (Hg (stores_of lin) (incl_refl _)) as Hg'. rewrite Hg'. simpl.
  set (m' := fst (srun fl defttl m (map (fun x => (snd x, ev_op k (fst x))) lin))) in *.
  destruct HK as [[He [Hm|(v & d & Hm & Hex)]]|(v & d & s0 & Hm & Hin & Hs & Hk)]; simpl in Hfin; rewrite Hm in Hfin.
  - inversion Hfin; subst final. simpl. now rewrite He.
  - rewrite (Hex te Hte) in Hfin. simpl in Hfin. inversion Hfin; subst final. simpl. now rewrite He.
  - rewrite (proj1 (Hk te Hte)) in Hfin. simpl in Hfin. inversion Hfin; subst final. simpl.
    apply existsb_exists. exists s0. split; [exact Hin|now apply smatch_rmatches].
Qed.
End RaceComplete.

(* the order in which stores and gets are listed does not matter *)
Lemma existsb_perm {A} (f : A -> bool) l l' : Permutation l l' -> existsb f l = existsb f l'.
Proof.
  intros HP. apply Bool.eq_iff_eq_true. rewrite !existsb_exists.
  split; intros (x & Hx & Hf); exists x; split; auto; [eapply Permutation_in; eauto|].
  eapply Permutation_in; [apply Permutation_sym|]; eauto.
Qed.

Lemma forallb_perm {A} (f : A -> bool) l l' : Permutation l l' -> forallb f l = forallb f l'.
Proof.
  intros HP. apply Bool.eq_iff_eq_true. rewrite !forallb_forall.
  split; intros H x Hx; apply H; [eapply Permutation_in; [apply Permutation_sym|]; eauto|eapply Permutation_in; eauto].
Qed.

Theorem race_ok_perm defttl stores stores' gets gets' final :
  Permutation stores stores' -> Permutation gets gets' ->
  race_ok defttl stores gets final = race_ok defttl stores' gets' final.
Proof.
  intros Hs Hg. unfold race_ok.
  assert (Hobs : forall o, robs_ok defttl stores o = robs_ok defttl stores' o).
  { intros [[v sd]|]; simpl; auto. now apply existsb_perm. }
  rewrite (forallb_perm _ _ _ Hg). f_equal.
  - clear -Hobs. induction gets' as [|o l IH]; simpl; [reflexivity|]. now rewrite Hobs, IH.
  - unfold final_ok. destruct final as [e|]; [apply Hobs|]. f_equal. now apply existsb_perm.
Qed.
