(* C12 interval checker: completeness (no false alarm).
   If SOME choice of instants inside the recorded brackets makes the reference semantics (Spec.sstep) return
   exactly what was observed, the checker accepts the trace. *)
From VF Require Import Common.Base C12.Model C12.Spec C12.Proofs C12.Proofs2 C12.F64 C12.Interval.
From Coq Require Import Sorting.Sorted.
Local Open Scope Z_scope.

(* ---------- more association-list facts ---------- *)
Lemma m_put_same {E} (l : list (Z * E)) k e : ksorted l -> m_get l k = Some e -> m_put k e l = l.
Proof.
  induction 1 as [|[k0 e0] t Hs IH Hf]; simpl; [discriminate|].
  destruct (Z.eqb_spec k0 k) as [He|He].
  - intros H; inversion H; subst. rewrite Z.ltb_irrefl, Z.eqb_refl. reflexivity.
  - intros H. pose proof (m_get_In _ _ _ H) as Hin. rewrite Forall_forall in Hf.
    pose proof (Hf _ Hin) as Hl. unfold klt in Hl; simpl in Hl.
    destruct (Z.ltb_spec k k0); [lia|]. destruct (Z.eqb_spec k k0); [lia|]. f_equal. auto.
Qed.

Lemma ksorted_NoDup {E} (l : list (Z * E)) : ksorted l -> NoDup (map fst l).
Proof.
  induction 1 as [|a l Hs IH Hf]; simpl; constructor; auto.
  rewrite Forall_forall in Hf. intros Hin. apply in_map_iff in Hin as (x & Hx1 & Hx2).
  pose proof (Hf x Hx2) as Hl. unfold klt in Hl. lia.
Qed.

Lemma ksorted_b_true {E} (l : list (Z * E)) : ksorted l -> ksorted_b l = true.
Proof.
  induction 1 as [|[k e] l Hs IH Hf]; simpl; auto.
  destruct l as [|[k' e'] t]; auto. inversion Hf as [|? ? H1 H2]; subst. unfold klt in H1; simpl in H1.
  apply andb_true_iff. split; [now apply Z.ltb_lt|exact IH].
Qed.

Lemma ksorted_b_sound {E} (l : list (Z * E)) : ksorted_b l = true -> ksorted l.
Proof.
  induction l as [|[k e] l IH]; intros H; [constructor|].
  simpl in H. destruct l as [|[k' e'] t]; [repeat constructor|].
  apply andb_true_iff in H as [H1 H2]. apply Z.ltb_lt in H1. specialize (IH H2).
  constructor; auto. constructor; [exact H1|].
  inversion IH as [|? ? H3 H4]; subst. rewrite Forall_forall in *. intros x Hx.
  pose proof (H4 x Hx) as Hl. unfold klt in *; simpl in *. lia.
Qed.

Lemma fold_put_get_gen {T} (P : Z * entry -> bool) (F : Z * entry -> T) : forall data acc,
  NoDup (map fst data) -> (forall ke, In ke data -> m_get acc (fst ke) = None) ->
  forall k x,
    m_get (fold_left (fun m ke => if P ke then m else m_put (fst ke) (F ke) m) data acc) k = Some x
    <-> (m_get acc k = Some x \/ (exists e, In (k, e) data /\ P (k, e) = false /\ x = F (k, e))).
Proof.
  induction data as [|[k0 e0] t IH]; intros acc Hnd Hfresh k x; simpl.
  - split; [auto|]. intros [H|(e & [] & _)]; auto.
  - inversion Hnd as [|? ? Hnotin Hnd']; subst.
    assert (Hnot : forall e', ~ In (k0, e') t).
    { intros e' Hin. apply Hnotin. change k0 with (fst (k0, e')). now apply in_map. }
    destruct (P (k0, e0)) eqn:EP.
    + rewrite IH; auto. 2:{ intros ke Hke. apply Hfresh. now right. }
      split; intros [H|(e & H1 & H2 & H3)]; auto.
      * right. exists e; auto.
      * destruct H1 as [H1|H1]; [inversion H1; subst; congruence|]. right; exists e; auto.
    + rewrite IH; auto.
      2:{ intros ke Hke. rewrite m_get_put. destruct (Z.eqb_spec k0 (fst ke)) as [He|He].
          - exfalso. apply Hnotin. rewrite He. now apply in_map.
          - apply Hfresh. now right. }
      rewrite m_get_put. destruct (Z.eqb_spec k0 k) as [He|He].
      * subst k0. split.
        -- intros [H|(e & H1 & H2 & H3)]; [inversion H; subst x; right; exists e0; auto|].
           exfalso. eapply Hnot; eauto.
        -- intros [H|(e & [H1|H1] & H2 & H3)].
           ++ pose proof (Hfresh (k, e0) (or_introl eq_refl)) as Hf. simpl in Hf. congruence.
           ++ inversion H1; subst. now left.
           ++ exfalso. eapply Hnot; eauto.
      * split.
        -- intros [H|(e & H1 & H2 & H3)]; auto. right; exists e; auto.
        -- intros [H|(e & [H1|H1] & H2 & H3)]; auto; [inversion H1; congruence|]. right; exists e; auto.
Qed.

Lemma ksorted_fold_put {T} (P : Z * entry -> bool) (F : Z * entry -> T) : forall data acc,
  ksorted acc -> ksorted (fold_left (fun m ke => if P ke then m else m_put (fst ke) (F ke) m) data acc).
Proof.
  induction data as [|ke t IH]; intros acc Hs; simpl; auto.
  destruct (P ke); apply IH; auto. now apply ksorted_put.
Qed.

Lemma m_get_map_val {A B} (f : A -> B) (l : list (Z * A)) k :
  m_get (map (fun p => (fst p, f (snd p))) l) k = option_map f (m_get l k).
Proof.
  induction l as [|[k0 e0] t IH]; simpl; auto. destruct (k0 =? k); auto.
Qed.

Lemma ksorted_map_val {A B} (f : A -> B) (l : list (Z * A)) :
  ksorted l -> ksorted (map (fun p => (fst p, f (snd p))) l).
Proof.
  induction 1 as [|a l Hs IH Hf]; simpl; constructor; auto.
  rewrite Forall_forall in *. intros x Hx. apply in_map_iff in Hx as (y & <- & Hy).
  pose proof (Hf y Hy) as Hl. unfold klt in *; simpl. exact Hl.
Qed.

Lemma length_le_keys {A B} (l1 : list (Z * A)) (l2 : list (Z * B)) :
  ksorted l1 -> (forall k e, In (k, e) l1 -> exists e', In (k, e') l2) -> (length l1 <= length l2)%nat.
Proof.
  intros Hs Hincl. rewrite <- (map_length fst l1), <- (map_length fst l2).
  apply NoDup_incl_length; [now apply ksorted_NoDup|].
  intros k Hk. apply in_map_iff in Hk as ([k' e] & <- & Hin).
  destruct (Hincl _ _ Hin) as (e' & He'). simpl. change k' with (fst (k', e')). now apply in_map.
Qed.

(* ---------- the sweep on abstract states ---------- *)
Section Complete.
Variable fl : Z -> Z.
Variable g defttl : Z.
Hypothesis fl_mono : forall x y, x <= y -> fl x <= fl y.
Hypothesis fl_nonneg : forall x, 0 <= x -> 0 <= fl x.
Hypothesis fl_neg : forall x, x < 0 -> fl x < 0.
Hypothesis fl_near : forall x, - g <= 2 * (fl x - x) <= g.

Lemma asweep_key a b p q : asweep_ent g a b p = Some q -> fst q = fst p.
Proof.
  unfold asweep_ent. destruct (wild (snd p)); [intros H; inversion H; auto|].
  destruct (ar (snd p)) as [|L U]; [intros H; inversion H; auto|].
  destruct ((0 <=? L) && (U <=? a)); [discriminate|].
  destruct ((b + g <? L) || (U <? 0)); intros H; inversion H; auto.
Qed.

Lemma In_filter_map_sweep a b abs q :
  In q (filter_map (asweep_ent g a b) abs) -> exists p, In p abs /\ asweep_ent g a b p = Some q.
Proof.
  induction abs as [|p t IH]; simpl; [tauto|].
  destruct (asweep_ent g a b p) as [q'|] eqn:E.
  - intros [H|H]; [subst; exists p; auto|]. destruct (IH H) as (p' & H1 & H2). exists p'; auto.
  - intros H. destruct (IH H) as (p' & H1 & H2). exists p'; auto.
Qed.

Lemma ksorted_sweep a b (abs : amap) : ksorted abs -> ksorted (filter_map (asweep_ent g a b) abs).
Proof.
  induction 1 as [|p t Hs IH Hf]; simpl; [constructor|].
  destruct (asweep_ent g a b p) as [q|] eqn:E; auto.
  constructor; auto. rewrite Forall_forall in *. intros x Hx.
  apply In_filter_map_sweep in Hx as (p' & H1 & H2).
  pose proof (Hf p' H1) as Hl. unfold klt in *. rewrite (asweep_key _ _ _ _ E), (asweep_key _ _ _ _ H2). exact Hl.
Qed.

Lemma m_get_sweep a b (abs : amap) k : ksorted abs ->
  m_get (filter_map (asweep_ent g a b) abs) k =
  match m_get abs k with
  | Some ae => option_map snd (asweep_ent g a b (k, ae))
  | None => None
  end.
Proof.
  induction 1 as [|[k0 e0] t Hs IH Hf]; simpl; auto.
  destruct (asweep_ent g a b (k0, e0)) as [[k1 e1]|] eqn:E.
  - pose proof (asweep_key _ _ _ _ E) as Hk. simpl in Hk. subst k1. simpl.
    destruct (Z.eqb_spec k0 k) as [He|He]; [subst; now rewrite E|exact IH].
  - destruct (Z.eqb_spec k0 k) as [He|He]; [|exact IH].
    subst k0. rewrite E. simpl. rewrite IH. now rewrite (m_get_none_sorted _ _ _ Hf).
Qed.

(* ---------- concretisation ---------- *)
Definition G (abs : amap) (conc : smap) : Prop :=
  ksorted abs /\ ksorted conc /\
  (forall k v d, m_get conc k = Some (v, d) -> exists ae, m_get abs k = Some ae /\ fits ae v d = true) /\
  (forall k ae, m_get abs k = Some ae -> ap ae = Sure -> exists e, m_get conc k = Some e).

Lemma G_nil : G [] [].
Proof. split; [constructor|split; [constructor|split]]; intros; discriminate. Qed.

Lemma fits_intro ae v d : av ae = v -> in_range_b d (ar ae) = true -> fits ae v d = true.
Proof. intros Hv Hr. unfold fits. rewrite Hv, Z.eqb_refl, Hr. apply orb_true_r. Qed.

Lemma fits_nonwild ae v d : wild ae = false -> fits ae v d = true -> av ae = v /\ in_range_b d (ar ae) = true.
Proof.
  unfold fits. intros Hw H. rewrite Hw in H. simpl in H. apply andb_true_iff in H as [H1 H2].
  apply Z.eqb_eq in H1. auto.
Qed.

Lemma G_put abs conc k ae v d : G abs conc -> fits ae v d = true -> G (m_put k ae abs) (m_put k (v, d) conc).
Proof.
  intros (H1 & H2 & H3 & H4) Hf. split; [now apply ksorted_put|split; [now apply ksorted_put|split]].
  - intros k' v' d'. rewrite !m_get_put. destruct (k =? k'); [|apply H3].
    intros H; inversion H; subst. exists ae; auto.
  - intros k' ae'. rewrite !m_get_put. destruct (k =? k'); [eauto|apply H4].
Qed.

Lemma G_del abs conc k : G abs conc -> G (m_del k abs) (m_del k conc).
Proof.
  intros (H1 & H2 & H3 & H4). split; [now apply ksorted_del|split; [now apply ksorted_del|split]].
  - intros k' v' d'. rewrite !m_get_del. destruct (k =? k'); [discriminate|apply H3].
  - intros k' ae'. rewrite !m_get_del. destruct (k =? k'); [discriminate|apply H4].
Qed.

(* update of the abstract entry of a key that is concretely present *)
Lemma G_refine abs conc k ae v d :
  G abs conc -> m_get conc k = Some (v, d) -> fits ae v d = true -> G (m_put k ae abs) conc.
Proof.
  intros HG Hc Hf. pose proof HG as (_ & H2 & _).
  rewrite <- (m_put_same conc k (v, d) H2 Hc). now apply G_put.
Qed.

(* replacement of the abstract entry of a key by one that is not Sure, concrete state unchanged *)
Lemma G_weaken abs conc k ae :
  G abs conc -> ap ae <> Sure -> (forall v d, m_get conc k = Some (v, d) -> fits ae v d = true) ->
  G (m_put k ae abs) conc.
Proof.
  intros (H1 & H2 & H3 & H4) Hns Hf. split; [now apply ksorted_put|split; [exact H2|split]].
  - intros k' v' d' Hc. rewrite m_get_put. destruct (Z.eqb_spec k k') as [He|He]; [|now apply H3].
    subst k'. exists ae. split; auto.
  - intros k' ae'. rewrite m_get_put. destruct (Z.eqb_spec k k') as [He|He]; [|apply H4].
    intros H Hp; inversion H; subst. contradiction.
Qed.

Lemma in_range_exact d : in_range_b d (exact d) = true.
Proof.
  unfold exact. destruct (Z.eqb_spec d 0) as [H|H]; simpl.
  - now apply Z.eqb_eq.
  - rewrite !Z.leb_refl. destruct (Z.eqb_spec d 0); [contradiction|reflexivity].
Qed.

Lemma fits_new v a b t ttl : 0 < a -> a <= t <= b ->
  fits (new_aent defttl v a b ttl) v (new_expire defttl t ttl) = true.
Proof.
  intros Ha Ht. unfold new_aent, new_range, new_expire.
  destruct (eff_ttl defttl ttl) as [x|] eqn:E; [|apply fits_intro; reflexivity].
  apply eff_ttl_pos in E. pose proof M63_pos as Hm. pose proof M64_M63 as Hm2.
  destruct (Z.ltb_spec (b + x) M63) as [H1|H1].
  - rewrite wrap64_id by lia. apply fits_intro; [reflexivity|]. simpl.
    destruct (Z.eqb_spec (t + x) 0); [lia|]. simpl. apply andb_true_iff. split; apply Z.leb_le; lia.
  - destruct (Z.leb_spec M63 (a + x)) as [H2|H2]; [|reflexivity].
    destruct (Z.ltb_spec (b + x) M64) as [H3|H3]; [|reflexivity]. cbn [andb].
    rewrite wrap64_once by lia. apply fits_intro; [reflexivity|]. simpl.
    destruct (Z.eqb_spec (t + x - M64) 0); [lia|]. simpl. apply andb_true_iff. split; apply Z.leb_le; lia.
Qed.

Lemma miss_ok_absent abs conc k b : G abs conc -> m_get conc k = None -> miss_ok abs k b = true.
Proof.
  intros (_ & _ & _ & H4) Hn. unfold miss_ok. destruct (m_get abs k) as [ae|] eqn:Ea; auto.
  destruct (ap ae) eqn:Ep; auto. destruct (H4 k ae Ea Ep) as (e & He). congruence.
Qed.

Lemma miss_ok_expired abs conc k v d t b : G abs conc -> m_get conc k = Some (v, d) -> expired t d = true ->
  t <= b -> miss_ok abs k b = true.
Proof.
  intros (_ & _ & H3 & _) Hc Hex Hb. destruct (H3 k v d Hc) as (ae & Ha & Hf).
  unfold miss_ok. rewrite Ha. destruct (ap ae) eqn:Ep; auto.
  assert (Hw : wild ae = false) by (unfold wild; now rewrite Ep).
  destruct (fits_nonwild ae v d Hw Hf) as [_ Hr].
  unfold expired in Hex. apply andb_true_iff in Hex as [E1 E2]. apply Z.ltb_lt in E1, E2.
  unfold may_expired. destruct (ar ae) as [|L U]; simpl in Hr.
  - apply Z.eqb_eq in Hr. lia.
  - apply andb_true_iff in Hr as [Hr Hu]. apply andb_true_iff in Hr as [_ Hr]. apply Z.leb_le in Hr, Hu.
    apply andb_true_iff. split; apply Z.ltb_lt; lia.
Qed.

Lemma absent_ok_absent abs conc k : G abs conc -> m_get conc k = None -> absent_ok abs k = true.
Proof.
  intros (_ & _ & _ & H4) Hn. unfold absent_ok. destruct (m_get abs k) as [ae|] eqn:Ea; auto.
  destruct (ap ae) eqn:Ep; auto. destruct (H4 k ae Ea Ep) as (e & He). congruence.
Qed.

Lemma may_live_ok r d t a : in_range_b d r = true -> expired t d = false -> a <= t -> may_live r a = true.
Proof.
  intros Hr Hex Ha. destruct r as [|L U]; simpl in *; auto.
  apply andb_true_iff in Hr as [Hr H2]. apply andb_true_iff in Hr as [_ H1].
  apply Z.leb_le in H1, H2. unfold expired in Hex. apply orb_true_iff.
  apply andb_false_iff in Hex as [E|E]; apply Z.ltb_ge in E; [left|right]; apply Z.leb_le; lia.
Qed.

Lemma wild_or_live ae v d t a : fits ae v d = true -> expired t d = false -> a <= t ->
  (wild ae || may_live (ar ae) a)%bool = true.
Proof.
  intros Hf Hex Ha. destruct (wild ae) eqn:Hw; [reflexivity|]. simpl.
  destruct (fits_nonwild ae v d Hw Hf) as [_ Hr]. eapply may_live_ok; eauto.
Qed.

Lemma G_sweep abs conc a b t : G abs conc -> a <= t <= b ->
  G (filter_map (asweep_ent g a b) abs) (filter (fun p => negb (swept fl t (snd (snd p)))) conc).
Proof.
  intros (H1 & H2 & H3 & H4) Ht.
  split; [now apply ksorted_sweep|split; [now apply SSorted_filter|split]].
  - intros k v d. rewrite m_get_filter by exact H2.
    destruct (m_get conc k) as [[v0 d0]|] eqn:Ec; [|discriminate]. simpl.
    destruct (swept fl t d0) eqn:Es; simpl; [discriminate|]. intros H; inversion H; subst v0 d0.
    destruct (H3 k v d Ec) as (ae & Ha & Hf). rewrite m_get_sweep by exact H1. rewrite Ha.
    unfold asweep_ent; simpl. destruct (wild ae) eqn:Hw; simpl; [exists ae; auto|].
    destruct (fits_nonwild ae v d Hw Hf) as [Hv Hr].
    destruct (ar ae) as [|L U] eqn:Er; simpl.
    + exists ae. auto.
    + destruct ((0 <=? L) && (U <=? a)) eqn:Erm.
      * exfalso. apply andb_true_iff in Erm as [R1 R2]. apply Z.leb_le in R1, R2.
        simpl in Hr. apply andb_true_iff in Hr as [Hr Q2]. apply andb_true_iff in Hr as [Q0 Q1].
        apply Z.leb_le in Q1, Q2. apply negb_true_iff in Q0.
        unfold swept in Es. rewrite Q0 in Es. simpl in Es.
        assert (F1 : 0 <= fl d) by (apply fl_nonneg; lia).
        assert (F2 : fl d <= fl t) by (apply fl_mono; lia).
        apply andb_false_iff in Es as [Es|Es]; [apply Z.leb_gt in Es|apply Z.leb_gt in Es]; lia.
      * destruct ((b + g <? L) || (U <? 0)); simpl.
        -- exists ae. auto.
        -- eexists. split; [reflexivity|]. apply fits_intro; simpl; auto.
  - intros k ae'. rewrite m_get_sweep by exact H1.
    destruct (m_get abs k) as [ae|] eqn:Ea; [|discriminate].
    unfold asweep_ent; simpl. destruct (wild ae) eqn:Hw; simpl.
    { intros H Hp; inversion H; subst ae'. unfold wild in Hw. rewrite Hp in Hw. discriminate. }
    destruct (ar ae) as [|L U] eqn:Er; simpl.
    + intros H Hp; inversion H; subst ae'. destruct (H4 k ae Ea Hp) as ([v d] & Hc).
      destruct (H3 k v d Hc) as (ae2 & Ha2 & Hf). rewrite Ea in Ha2. inversion Ha2; subst ae2.
      destruct (fits_nonwild ae v d Hw Hf) as [_ Hr].
      rewrite Er in Hr. simpl in Hr. apply Z.eqb_eq in Hr. subst d.
      exists (v, 0). rewrite m_get_filter by exact H2. rewrite Hc. reflexivity.
    + destruct ((0 <=? L) && (U <=? a)); [discriminate|].
      destruct ((b + g <? L) || (U <? 0)) eqn:Hk; simpl.
      * intros H Hp; inversion H; subst ae'. destruct (H4 k ae Ea Hp) as ([v d] & Hc).
        destruct (H3 k v d Hc) as (ae2 & Ha2 & Hf). rewrite Ea in Ha2. inversion Ha2; subst ae2.
        destruct (fits_nonwild ae v d Hw Hf) as [_ Hr].
        rewrite Er in Hr. simpl in Hr. apply andb_true_iff in Hr as [Hr Q2]. apply andb_true_iff in Hr as [Q0 Q1].
        apply Z.leb_le in Q1, Q2.
        exists (v, d). rewrite m_get_filter by exact H2. rewrite Hc. simpl.
        assert (Es : swept fl t d = false).
        { unfold swept. apply orb_true_iff in Hk as [Hk|Hk]; apply Z.ltb_lt in Hk.
          - destruct (fl d <=? fl t) eqn:E3; [|now rewrite andb_false_r].
            exfalso. apply Z.leb_le in E3. pose proof (fl_near d). pose proof (fl_near t). lia.
          - pose proof (fl_neg d ltac:(lia)) as Hn. destruct (Z.leb_spec 0 (fl d)); [lia|].
            now rewrite andb_false_r. }
        now rewrite Es.
      * intros H Hp; inversion H; subst ae'. simpl in Hp. discriminate.
Qed.

Definition exactify (e : entry) : aent := {| av := fst e; ar := exact (snd e); ap := Sure |}.

Lemma G_export_F conc : ksorted conc -> G (map (fun p => (fst p, exactify (snd p))) conc) conc.
Proof.
  intros Hs. split; [now apply ksorted_map_val|split; [exact Hs|split]].
  - intros k v d Hc. rewrite m_get_map_val, Hc. simpl.
    eexists; split; [reflexivity|]. apply fits_intro; [reflexivity|apply in_range_exact].
  - intros k ae. rewrite m_get_map_val. destruct (m_get conc k) as [e|]; [eauto|discriminate].
Qed.

Lemma G_export conc : ksorted conc ->
  G (map (fun p => (fst p, {| av := fst (snd p); ar := exact (snd (snd p)); ap := Sure |})) conc) conc.
Proof. exact (G_export_F conc). Qed.

Lemma export_ok_complete abs conc : G abs conc -> export_ok abs conc = true.
Proof.
  intros (H1 & H2 & H3 & H4). unfold export_ok. rewrite (ksorted_b_true conc H2). simpl.
  apply andb_true_iff. split; apply forallb_forall.
  - intros [k [v d]] Hin. simpl. destruct (H3 k v d (In_m_get _ _ _ H2 Hin)) as (ae & Ha & Hf).
    now rewrite Ha.
  - intros [k ae] Hin. simpl. destruct (ap ae) eqn:Ep; auto.
    destruct (H4 k ae (In_m_get _ _ _ H1 Hin) Ep) as (e & He). now rewrite He.
Qed.

(* Load: one clock reading per entry, each somewhere in [a,b] *)
Definition load_entry (t : Z) (m : smap) (ke : Z * entry) : smap :=
  if expired t (snd (snd ke)) then m else m_put (fst ke) (snd ke) m.

Lemma G_load_entry abs conc a b t k v d : G abs conc -> a <= t <= b ->
  G (aload a b [(k, (v, d))] abs) (load_entry t conc (k, (v, d))).
Proof.
  intros HG Ht. unfold aload, load_entry. cbn [fold_left fst snd].
  destruct ((0 <? d) && (d <? a)) eqn:E1.
  - apply andb_true_iff in E1 as [A B]. apply Z.ltb_lt in A, B.
    assert (Ex : expired t d = true) by (unfold expired; apply andb_true_iff; split; apply Z.ltb_lt; lia).
    rewrite Ex. exact HG.
  - destruct ((d <=? 0) || (b <=? d)) eqn:E2.
    + assert (Ex : expired t d = false).
      { unfold expired. apply orb_true_iff in E2 as [A|A]; apply Z.leb_le in A; apply andb_false_iff;
          [left|right]; apply Z.ltb_ge; lia. }
      rewrite Ex. apply G_put; auto. apply fits_intro; [reflexivity|apply in_range_exact].
    + destruct (expired t d) eqn:Ex.
      * (* not loaded *)
        apply G_weaken; auto.
        -- simpl. destruct (m_get abs k); discriminate.
        -- intros v' d' Hc. pose proof HG as (_ & _ & H3 & _). destruct (H3 k v' d' Hc) as (ae & Ha & _).
           unfold fits, wild. simpl. rewrite Ha. reflexivity.
      * (* loaded *)
        pose proof HG as (H1 & H2 & H3 & H4).
        split; [now apply ksorted_put|split; [now apply ksorted_put|split]].
        -- intros k' v' d'. rewrite !m_get_put. destruct (k =? k'); [|apply H3].
           intros H; inversion H; subst. eexists; split; [reflexivity|].
           unfold fits. simpl. rewrite Z.eqb_refl, in_range_exact. apply orb_true_r.
        -- intros k' ae'. rewrite !m_get_put. destruct (k =? k'); [eauto|apply H4].
Qed.

Lemma aload_cons a b ke data abs : aload a b (ke :: data) abs = aload a b data (aload a b [ke] abs).
Proof. reflexivity. Qed.

(* every entry of the data is judged at its own instant ts_i in [a,b] *)
Fixpoint load_multi (ts : list Z) (m : smap) (data : list (Z * entry)) : smap :=
  match data, ts with
  | ke :: data', t :: ts' => load_multi ts' (load_entry t m ke) data'
  | _, _ => m
  end.

Lemma G_load_multi a b : forall data ts abs conc, G abs conc -> length ts = length data ->
  Forall (fun t => a <= t <= b) ts -> G (aload a b data abs) (load_multi ts conc data).
Proof.
  induction data as [|[k [v d]] data IH]; intros ts abs conc HG Hl Hts; [destruct ts; exact HG|].
  destruct ts as [|t ts]; [discriminate|]. inversion Hts as [|? ? Ht Hts']; subst.
  rewrite aload_cons. cbn [load_multi]. apply IH; auto. now apply G_load_entry.
Qed.

Lemma load_multi_repeat t : forall data m, load_multi (repeat t (length data)) m data = s_load m data t.
Proof.
  unfold s_load. induction data as [|ke data IH]; intros m; [reflexivity|].
  cbn [length repeat load_multi fold_left]. rewrite IH. reflexivity.
Qed.

Lemma G_load abs conc data a b t : G abs conc -> a <= t <= b -> G (aload a b data abs) (s_load conc data t).
Proof.
  intros HG Ht. rewrite <- load_multi_repeat. apply G_load_multi; auto.
  - now rewrite repeat_length.
  - apply Forall_forall. intros x Hx. apply repeat_spec in Hx. now subst.
Qed.

Lemma count_ok abs conc : G abs conc ->
  (Nat.leb (nsure abs) (length conc) && Nat.leb (length conc) (length abs))%bool = true.
Proof.
  intros (H1 & H2 & H3 & H4). apply andb_true_iff. split; apply Nat.leb_le.
  - unfold nsure. apply length_le_keys; [now apply SSorted_filter|].
    intros k ae Hin. apply filter_In in Hin as [Hin Hs]. simpl in Hs.
    destruct (ap ae) eqn:Ep; try discriminate.
    destruct (H4 k ae (In_m_get _ _ _ H1 Hin) Ep) as (e & He). exists e. now apply m_get_In.
  - apply length_le_keys; auto. intros k [v d] Hin.
    destruct (H3 k v d (In_m_get _ _ _ H2 Hin)) as (ae & Ha & _). exists ae. now apply m_get_In.
Qed.

(* ---------- one step ---------- *)
Lemma astep_complete abs conc s t :
  G abs conc -> 0 < t_a s -> t_a s <= t <= t_b s ->
  snd (sstep fl defttl conc t (t_op s)) = t_out s ->
  exists abs', astep g defttl abs s = Some abs' /\ G abs' (fst (sstep fl defttl conc t (t_op s))).
Proof.
  intros HG Ha Ht Hout. unfold astep. rewrite <- Hout. clear Hout.
  destruct (t_op s) as [k v ttl|k v ttl|k v ttl|k|k| | | | |data|data]; simpl.
  - eexists; split; [reflexivity|]. apply G_put; auto. now apply fits_new.
  - destruct (m_get conc k) as [[v0 d0]|] eqn:Ec; simpl.
    + pose proof HG as (_ & _ & H3 & _). destruct (H3 k v0 d0 Ec) as (ae & Hae & Hf). rewrite Hae.
      destruct (wild ae) eqn:Hw; [eexists; split; [reflexivity|exact HG]|].
      eexists; split; [reflexivity|]. eapply G_refine; eauto.
      destruct (fits_nonwild ae v0 d0 Hw Hf) as [Hv Hr]. now apply fits_intro.
    + rewrite (absent_ok_absent abs conc k HG Ec). eexists; split; [reflexivity|].
      apply G_put; auto. now apply fits_new.
  - destruct (m_get conc k) as [[v0 d0]|] eqn:Ec; simpl.
    + destruct (expired t d0) eqn:Ex; simpl.
      * rewrite (miss_ok_expired abs conc k v0 d0 t (t_b s) HG Ec Ex (proj2 Ht)).
        eexists; split; [reflexivity|]. now apply G_del.
      * pose proof HG as (_ & _ & H3 & _). destruct (H3 k v0 d0 Ec) as (ae & Hae & Hf). rewrite Hae.
        rewrite (wild_or_live ae v0 d0 t (t_a s) Hf Ex (proj1 Ht)).
        eexists; split; [reflexivity|]. apply G_put; auto. now apply fits_new.
    + rewrite (miss_ok_absent abs conc k (t_b s) HG Ec). eexists; split; [reflexivity|].
      rewrite <- (m_del_absent k conc Ec). now apply G_del.
  - eexists; split; [reflexivity|]. now apply G_del.
  - destruct (m_get conc k) as [[v0 d0]|] eqn:Ec; simpl.
    + destruct (expired t d0) eqn:Ex; simpl.
      * rewrite (miss_ok_expired abs conc k v0 d0 t (t_b s) HG Ec Ex (proj2 Ht)).
        eexists; split; [reflexivity|]. now apply G_del.
      * pose proof HG as (_ & _ & H3 & _). destruct (H3 k v0 d0 Ec) as (ae & Hae & Hf). rewrite Hae.
        unfold shown. destruct (Z.ltb_spec 0 d0) as [Hpos|Hnp].
        -- assert (Hp0 : (0 <? d0) = true) by (apply Z.ltb_lt; lia). rewrite Hp0, Hf. assert (Hlive : (t_a s <=? d0) = true).
           { unfold expired in Ex. apply Z.leb_le.
             apply andb_false_iff in Ex as [E|E]; apply Z.ltb_ge in E; lia. }
           rewrite Hlive. simpl. eexists; split; [reflexivity|].
           eapply G_refine; eauto. apply fits_intro; [reflexivity|apply in_range_exact].
        -- cbn [Z.ltb Z.compare]. rewrite Z.eqb_refl.
           destruct (wild ae) eqn:Hw; [eexists; split; [reflexivity|exact HG]|].
           destruct (fits_nonwild ae v0 d0 Hw Hf) as [Hv Hr]. rewrite Hv, Z.eqb_refl.
           assert (Hnp' : nonpos_ok (ar ae) = true).
           { destruct (ar ae) as [|L U]; [reflexivity|]. simpl in Hr. simpl.
             apply andb_true_iff in Hr as [Hr _]. apply andb_true_iff in Hr as [Q0 Q1].
             apply negb_true_iff, Z.eqb_neq in Q0. apply Z.leb_le in Q1. apply Z.ltb_lt. lia. }
           rewrite Hnp'. simpl. eexists; split; [reflexivity|].
           eapply G_refine; eauto. apply fits_intro; [reflexivity|exact Hr].
    + rewrite (miss_ok_absent abs conc k (t_b s) HG Ec). eexists; split; [reflexivity|].
      rewrite <- (m_del_absent k conc Ec). now apply G_del.
  - rewrite (count_ok abs conc HG). eexists; split; [reflexivity|exact HG].
  - eexists; split; [reflexivity|apply G_nil].
  - eexists; split; [reflexivity|]. now apply G_sweep.
  - rewrite (export_ok_complete abs conc HG). eexists; split; [reflexivity|].
    apply G_export. now destruct HG as (_ & H2 & _).
  - eexists; split; [reflexivity|]. apply G_load; [apply G_nil|exact Ht].
  - eexists; split; [reflexivity|]. now apply G_load.
Qed.

Lemma adm_complete_gen tr : forall ts abs conc i,
  G abs conc -> within tr ts ->
  snd (srun fl defttl conc (combine ts (map t_op tr))) = observed tr ->
  adm_first g defttl abs tr i = None.
Proof.
  induction tr as [|s tr IH]; intros ts abs conc i HG Hw Hout; simpl; auto.
  inversion Hw as [|? t ? ts' Hs Hw']; subst.
  simpl in Hout. destruct (sstep fl defttl conc t (t_op s)) as [conc' r] eqn:Est.
  destruct (srun fl defttl conc' (combine ts' (map t_op tr))) as [conc'' rs] eqn:Er.
  simpl in Hout. inversion Hout as [[Hr Hrs]].
  destruct Hs as [Ha Ht].
  destruct (astep_complete abs conc s t HG Ha Ht) as (abs' & Hstep & HG').
  { rewrite Est. exact Hr. }
  rewrite Hstep. rewrite Est in HG'. simpl in HG'.
  apply (IH ts' abs' conc' (S i) HG' Hw'). rewrite Er. exact Hrs.
Qed.

(* THE no-false-alarm theorem (no well-formedness premise is needed any more: the abstract Load handles
   duplicate keys in the data as well) *)
Theorem admissible_complete tr :
  (exists ts, within tr ts /\ spec_outputs fl defttl tr ts = observed tr) ->
  admissible_b g defttl tr = true.
Proof.
  intros (ts & Hw & Hout). unfold admissible_b.
  rewrite (adm_complete_gen tr ts [] [] 0 G_nil Hw Hout). reflexivity.
Qed.

(* Load really reads the clock once per decoded entry. The abstract Load covers that too: whatever instants
   in [a,b] the entries are judged at, the result is concretised by the abstract state. *)
Theorem aload_covers_multi_instant a b data ts abs conc :
  G abs conc -> length ts = length data -> Forall (fun t => a <= t <= b) ts ->
  G (aload a b data abs) (load_multi ts conc data).
Proof. intros. now apply G_load_multi. Qed.
End Complete.
