(* C12: the int64 -> float64 score conversion f64 (Model.v) is monotone, sign preserving (strictly), and within
   512 of its argument (all spacings up to 2^63 are <= 1024); and int64 wrap-around facts for wrap64. *)
From VF Require Import Common.Base C12.Model C12.Spec C12.Proofs C12.Proofs2.
Local Open Scope Z_scope.

Lemma M53_pos : 1024 < M53. Proof. reflexivity. Qed.
Lemma M53_log2 : Z.log2 M53 = 53. Proof. reflexivity. Qed.
Lemma M53_pow : M53 = 2 ^ 53. Proof. reflexivity. Qed.
Lemma M64_M63 : M64 = 2 * M63. Proof. reflexivity. Qed.
Lemma M63_pos : 0 < M63. Proof. reflexivity. Qed.
Global Opaque M53 M63 M64.

Lemma f64r_fix g k : 0 < g -> f64r g (k * g) = k * g.
Proof.
  intros Hg. unfold f64r. rewrite Z.div_mul, Z.mod_mul by lia. simpl.
  destruct (Z.ltb_spec 0 g); [reflexivity|lia].
Qed.

Lemma f64r_le_mult g a k : 0 < g -> a <= k * g -> f64r g a <= k * g.
Proof. intros Hg H. rewrite <- (f64r_fix g k Hg). now apply f64r_mono. Qed.

Lemma f64r_ge_mult g a k : 0 < g -> k * g <= a -> k * g <= f64r g a.
Proof. intros Hg H. rewrite <- (f64r_fix g k Hg). now apply f64r_mono. Qed.

(* exponent and spacing of a magnitude a >= 2^53 *)
Definition fexp (a : Z) : Z := Z.min (Z.log2 a) 62.
Definition fgran (a : Z) : Z := 2 ^ (fexp a - 52).

Lemma fexp_range a : M53 <= a -> 53 <= fexp a <= 62.
Proof.
  intros H. unfold fexp. pose proof (Z.log2_le_mono _ _ H) as Hl. rewrite M53_log2 in Hl. lia.
Qed.

Lemma fgran_range a : M53 <= a -> 2 <= fgran a <= 1024.
Proof.
  intros H. pose proof (fexp_range a H) as He. unfold fgran. split.
  - change 2 with (2 ^ 1). apply Z.pow_le_mono_r; lia.
  - change 1024 with (2 ^ 10). apply Z.pow_le_mono_r; lia.
Qed.

(* 2^p is a multiple of the spacing whenever p >= fexp a - 52 *)
Lemma pow_mult_gran a p : M53 <= a -> fexp a - 52 <= p -> 2 ^ p = 2 ^ (p - (fexp a - 52)) * fgran a.
Proof.
  intros H Hp. pose proof (fexp_range a H). unfold fgran. rewrite <- Z.pow_add_r by lia. f_equal. lia.
Qed.

(* the magnitude part of f64 *)
Definition fmag (a : Z) : Z := if a <? M53 then a else f64r (fgran a) a.

Lemma fmag_ge_M53 b : M53 <= b -> M53 <= fmag b.
Proof.
  intros H. unfold fmag. destruct (Z.ltb_spec b M53); [lia|].
  pose proof (fgran_range b H) as Hg. pose proof (fexp_range b H) as He.
  rewrite M53_pow in *. rewrite (pow_mult_gran b 53) by (rewrite ?M53_pow; lia).
  apply f64r_ge_mult; [lia|]. rewrite <- (pow_mult_gran b 53) by (rewrite ?M53_pow; lia). lia.
Qed.

Lemma fmag_mono a b : 0 <= a -> a <= b -> fmag a <= fmag b.
Proof.
  intros Ha Hab. unfold fmag at 1. destruct (Z.ltb_spec a M53) as [Has|Hal].
  - unfold fmag. destruct (Z.ltb_spec b M53) as [Hbs|Hbl]; [lia|].
    pose proof (fmag_ge_M53 b Hbl) as H. unfold fmag in H. destruct (Z.ltb_spec b M53); lia.
  - assert (Hbl : M53 <= b) by lia. unfold fmag. destruct (Z.ltb_spec b M53); [lia|].
    pose proof (fgran_range a Hal) as Hga. pose proof (fgran_range b Hbl) as Hgb.
    pose proof (fexp_range a Hal) as Hea. pose proof (fexp_range b Hbl) as Heb.
    assert (Hle : fexp a <= fexp b).
    { unfold fexp. pose proof (Z.log2_le_mono _ _ Hab). lia. }
    destruct (Z.eq_dec (fexp a) (fexp b)) as [E|NE].
    + unfold fgran. rewrite E. apply f64r_mono; [|exact Hab]. fold (fgran b). lia.
    + (* different binades: 2^(fexp a + 1) separates them *)
      assert (Hlt : fexp a < fexp b) by lia.
      assert (Hla : fexp a = Z.log2 a) by (unfold fexp in *; lia).
      assert (Hapos : 0 < a) by (pose proof M53_pos; lia).
      pose proof (Z.log2_spec a Hapos) as [_ Hup]. rewrite <- Hla in Hup.
      replace (Z.succ (fexp a)) with (fexp a + 1) in Hup by lia.
      assert (Hbpos : 0 < b) by lia.
      assert (Hlb : fexp a + 1 <= Z.log2 b) by (unfold fexp in Hlt; lia).
      pose proof (Z.log2_spec b Hbpos) as [Hlow _].
      assert (Hpb : 2 ^ (fexp a + 1) <= b).
      { eapply Z.le_trans; [|exact Hlow]. apply Z.pow_le_mono_r; lia. }
      apply Z.le_trans with (2 ^ (fexp a + 1)).
      * rewrite (pow_mult_gran a (fexp a + 1)) by lia. apply f64r_le_mult; [lia|].
        rewrite <- (pow_mult_gran a (fexp a + 1)) by lia. lia.
      * rewrite (pow_mult_gran b (fexp a + 1)) by lia. apply f64r_ge_mult; [lia|].
        rewrite <- (pow_mult_gran b (fexp a + 1)) by lia. exact Hpb.
Qed.

Lemma f64_pos x : 0 <= x -> f64 x = fmag x.
Proof.
  intros H. unfold f64, fmag, fgran, fexp. rewrite Z.abs_eq by lia.
  destruct (x <? M53); [reflexivity|]. destruct (Z.eq_dec x 0) as [->|Hn].
  - reflexivity.
  - rewrite Z.sgn_pos by lia. lia.
Qed.

Lemma f64_neg x : x < 0 -> f64 x = - fmag (- x).
Proof.
  intros H. unfold f64, fmag, fgran, fexp. rewrite Z.abs_neq by lia.
  destruct (- x <? M53); [lia|]. rewrite Z.sgn_neg by lia. lia.
Qed.

Lemma fmag_pos a : 0 < a -> 0 < fmag a.
Proof.
  intros H. unfold fmag. destruct (Z.ltb_spec a M53) as [Hs|Hl]; [lia|].
  pose proof (fgran_range a Hl) as Hg. pose proof (f64r_near (fgran a) a ltac:(lia)). pose proof M53_pos. lia.
Qed.

Lemma fmag_near a : 0 <= a -> - 1024 <= 2 * (fmag a - a) <= 1024.
Proof.
  intros H. unfold fmag. destruct (Z.ltb_spec a M53) as [Hs|Hl]; [lia|].
  pose proof (fgran_range a Hl) as Hg. pose proof (f64r_near (fgran a) a ltac:(lia)). lia.
Qed.

Theorem f64_mono x y : x <= y -> f64 x <= f64 y.
Proof.
  intros H. destruct (Z.lt_ge_cases x 0) as [Hx|Hx]; destruct (Z.lt_ge_cases y 0) as [Hy|Hy].
  - rewrite !f64_neg by lia. pose proof (fmag_mono (- y) (- x) ltac:(lia) ltac:(lia)). lia.
  - rewrite f64_neg, f64_pos by lia. pose proof (fmag_pos (- x) ltac:(lia)) as Hpx.
    pose proof (fmag_mono 0 y ltac:(lia) Hy) as Hm0. unfold fmag at 1 in Hm0.
    pose proof M53_pos as Hm53. destruct (Z.ltb_spec 0 M53); lia.
  - lia.
  - rewrite !f64_pos by lia. apply fmag_mono; lia.
Qed.

Theorem f64_nonneg x : 0 <= x -> 0 <= f64 x.
Proof.
  intros H. rewrite f64_pos by lia. destruct (Z.eq_dec x 0) as [->|Hn].
  - unfold fmag. destruct (Z.ltb_spec 0 M53); [lia|]. pose proof M53_pos. lia.
  - pose proof (fmag_pos x ltac:(lia)). lia.
Qed.

Theorem f64_negative x : x < 0 -> f64 x < 0.
Proof. intros H. rewrite f64_neg by lia. pose proof (fmag_pos (- x) ltac:(lia)). lia. Qed.

Theorem f64_near x : - 1024 <= 2 * (f64 x - x) <= 1024.
Proof.
  destruct (Z.lt_ge_cases x 0) as [Hx|Hx].
  - rewrite f64_neg by lia. pose proof (fmag_near (- x) ltac:(lia)). lia.
  - rewrite f64_pos by lia. apply fmag_near. lia.
Qed.

Lemma f64_gap x y : x + 1024 < y -> f64 x < f64 y.
Proof. intros H. pose proof (f64_near x). pose proof (f64_near y). lia. Qed.

Lemma f64_lt_inv x y : f64 x < f64 y -> x < y.
Proof.
  intros H. destruct (Z.lt_ge_cases x y) as [|Hge]; auto. pose proof (f64_mono y x Hge). lia.
Qed.

(* ---------- wrap64 ---------- *)
Lemma wrap64_range z : - M63 <= wrap64 z < M63.
Proof.
  unfold wrap64. pose proof M63_pos. pose proof M64_M63.
  pose proof (Z.mod_pos_bound (z + M63) M64 ltac:(lia)). lia.
Qed.

Lemma wrap64_id z : - M63 <= z < M63 -> wrap64 z = z.
Proof.
  intros H. unfold wrap64. pose proof M64_M63. rewrite Z.mod_small by lia. lia.
Qed.

Lemma wrap64_once z : M63 <= z < M63 + M64 -> wrap64 z = z - M64.
Proof.
  intros H. unfold wrap64. pose proof M64_M63. pose proof M63_pos.
  replace (z + M63) with ((z + M63 - M64) + 1 * M64) by lia.
  rewrite Z.mod_add by lia. rewrite Z.mod_small by lia. lia.
Qed.
