(* C12 proofs, part 2: the concrete score rounding f64r; the declarative reading (last_stored) of the
   reference semantics; Count after a sweep. *)
From VF Require Import Common.Base C12.Model C12.Spec C12.Proofs.
From Coq Require Import Sorting.Sorted.
Local Open Scope Z_scope.

(* ---------- f64r: nearest multiple of g, ties to even ---------- *)
Lemma f64r_near g x : 0 < g -> - g <= 2 * (f64r g x - x) <= g.
Proof.
  intros Hg. unfold f64r.
  pose proof (Z.div_mod x g ltac:(lia)) as Hdm. pose proof (Z.mod_pos_bound x g Hg) as Hr.
  set (q := x / g) in *. set (r := x mod g) in *.
  replace ((q + 1) * g) with (q * g + g) by ring. rewrite (Z.mul_comm g q) in Hdm.
  destruct (Z.ltb_spec (2 * r) g); [lia|]. destruct (Z.ltb_spec g (2 * r)); [lia|].
  destruct (Z.even q); lia.
Qed.

Lemma f64r_nonneg g x : 0 < g -> 0 <= x -> 0 <= f64r g x.
Proof.
  intros Hg Hx. unfold f64r.
  assert (Hq : 0 <= x / g) by (apply Z.div_pos; lia).
  assert (Hm : 0 <= (x / g) * g) by (apply Z.mul_nonneg_nonneg; lia).
  set (q := x / g) in *. replace ((q + 1) * g) with (q * g + g) by ring.
  destruct (2 * (x mod g) <? g); [lia|]. destruct (g <? 2 * (x mod g)); [lia|]. destruct (Z.even q); lia.
Qed.

Lemma f64r_mono g x y : 0 < g -> x <= y -> f64r g x <= f64r g y.
Proof.
  intros Hg Hxy.
  pose proof (Z.div_mod x g ltac:(lia)) as Hx. pose proof (Z.mod_pos_bound x g Hg) as Hrx.
  pose proof (Z.div_mod y g ltac:(lia)) as Hy. pose proof (Z.mod_pos_bound y g Hg) as Hry.
  pose proof (Z.div_le_mono x y g Hg Hxy) as Hq.
  unfold f64r.
  destruct (Z.eq_dec (x / g) (y / g)) as [E|NE].
  - rewrite <- E in *. set (q := x / g) in *. set (rx := x mod g) in *. set (ry := y mod g) in *.
    replace ((q + 1) * g) with (q * g + g) by ring. rewrite (Z.mul_comm g q) in Hx, Hy.
    destruct (Z.ltb_spec (2 * rx) g); destruct (Z.ltb_spec g (2 * rx));
      destruct (Z.ltb_spec (2 * ry) g); destruct (Z.ltb_spec g (2 * ry)); destruct (Z.even q); lia.
  - assert (Hlt : x / g + 1 <= y / g) by lia.
    pose proof (Z.mul_le_mono_nonneg_r _ _ g ltac:(lia) Hlt) as Hm.
    set (qx := x / g) in *. set (qy := y / g) in *. set (rx := x mod g) in *. set (ry := y mod g) in *.
    replace ((qx + 1) * g) with (qx * g + g) in * by ring.
    replace ((qy + 1) * g) with (qy * g + g) by ring.
    destruct (2 * rx <? g); destruct (g <? 2 * rx); destruct (2 * ry <? g); destruct (g <? 2 * ry);
      destruct (Z.even qx); destruct (Z.even qy); lia.
Qed.

Lemma f64r_zero g : 0 < g -> f64r g 0 = 0.
Proof.
  intros Hg. unfold f64r. rewrite Z.div_0_l, Z.mod_0_l by lia. simpl.
  destruct (Z.ltb_spec 0 g); [reflexivity|lia].
Qed.

(* ---------- small facts about deadlines ---------- *)
Lemma eff_ttl_pos defttl ttl x : eff_ttl defttl ttl = Some x -> 0 < x.
Proof.
  unfold eff_ttl. destruct (ttl =? -1); [discriminate|].
  destruct (ttl =? 0).
  - destruct (Z.ltb_spec 0 defttl) as [Hp|Hp]; [|discriminate]. intros Hx; inversion Hx; lia.
  - destruct (Z.ltb_spec 0 ttl) as [Hp|Hp]; [|discriminate]. intros Hx; inversion Hx; lia.
Qed.

Lemma ksorted_s_load data now : forall acc, ksorted acc -> ksorted (s_load acc data now).
Proof.
  unfold s_load. induction data as [|[k e] t IH]; intros acc Hs; simpl; auto.
  destruct (expired now (snd e)); apply IH; auto. now apply ksorted_put.
Qed.

Lemma fold_put_get (P : Z * entry -> bool) : forall data acc,
  NoDup (map fst data) -> (forall ke, In ke data -> m_get acc (fst ke) = None) ->
  forall k e,
    m_get (fold_left (fun m ke => if P ke then m else m_put (fst ke) (snd ke) m) data acc) k = Some e
    <-> (m_get acc k = Some e \/ (In (k, e) data /\ P (k, e) = false)).
Proof.
  induction data as [|[k0 e0] t IH]; intros acc Hnd Hfresh k e; simpl.
  - split; [auto|]. intros [H|[[] _]]; auto.
  - inversion Hnd as [|? ? Hnotin Hnd']; subst.
    assert (Hnot : forall e', ~ In (k0, e') t).
    { intros e' Hin. apply Hnotin. change k0 with (fst (k0, e')). now apply in_map. }
    destruct (P (k0, e0)) eqn:EP.
    + rewrite IH; auto. 2:{ intros ke Hke. apply Hfresh. now right. }
      split; intros [H|[H1 H2]]; auto.
      destruct H1 as [H1|H1]; [inversion H1; subst; congruence|]. right; auto.
    + rewrite IH; auto.
      2:{ intros ke Hke. rewrite m_get_put. simpl. destruct (Z.eqb_spec k0 (fst ke)) as [He|He].
          - exfalso. apply Hnotin. rewrite He. now apply in_map.
          - apply Hfresh. now right. }
      rewrite m_get_put. simpl. destruct (Z.eqb_spec k0 k) as [He|He].
      * subst k0. split.
        -- intros [H|[H1 H2]]; [inversion H; subst e0; right; split; auto|].
           exfalso. eapply Hnot; eauto.
        -- intros [H|[[H1|H1] H2]].
           ++ pose proof (Hfresh (k, e0) (or_introl eq_refl)) as Hf. simpl in Hf. congruence.
           ++ inversion H1; subst. now left.
           ++ exfalso. eapply Hnot; eauto.
      * split.
        -- intros [H|[H1 H2]]; auto.
        -- intros [H|[[H1|H1] H2]]; auto. inversion H1; congruence.
Qed.

Lemma get_s_load data now k e : NoDup (map fst data) ->
  (m_get (s_load [] data now) k = Some e <-> In (k, e) data /\ expired now (snd e) = false).
Proof.
  intros Hnd. unfold s_load.
  rewrite (fold_put_get (fun ke => expired now (snd (snd ke))) data [] Hnd (fun _ _ => eq_refl) k e).
  simpl. split; [intros [H|H]; [discriminate|auto] | auto].
Qed.

Lemma get_data_map data k e : NoDup (map fst data) ->
  (m_get (data_map data) k = Some e <-> In (k, e) data).
Proof.
  intros Hnd. unfold data_map.
  change (fold_left (fun m ke => m_put (fst ke) (snd ke) m) data [])
    with (fold_left (fun m ke => if (fun _ : Z * entry => false) ke then m else m_put (fst ke) (snd ke) m) data []).
  rewrite (fold_put_get (fun _ => false) data [] Hnd (fun _ _ => eq_refl) k e).
  simpl. split; [intros [H|[H _]]; [discriminate|auto] | auto].
Qed.

(* lookup after a fold of puts over data with unique keys, onto ANY accumulator *)
Lemma nodup_get_tail {T} k0 (e0 : T) (t : list (Z * T)) : NoDup (map fst ((k0, e0) :: t)) -> m_get t k0 = None.
Proof.
  intros Hnd. inversion Hnd as [|? ? Hnotin _]; subst. destruct (m_get t k0) as [e|] eqn:Eg; auto.
  exfalso. apply Hnotin. apply m_get_In in Eg. change k0 with (fst (k0, e)). now apply in_map.
Qed.

Lemma fold_put_get2 {T} (P : Z * entry -> bool) (F : Z * entry -> T) : forall data acc,
  NoDup (map fst data) -> forall k,
    m_get (fold_left (fun m ke => if P ke then m else m_put (fst ke) (F ke) m) data acc) k
    = match m_get data k with
      | Some e => if P (k, e) then m_get acc k else Some (F (k, e))
      | None => m_get acc k
      end.
Proof.
  induction data as [|[k0 e0] t IH]; intros acc Hnd k; [reflexivity|].
  pose proof (nodup_get_tail k0 e0 t Hnd) as Htail.
  assert (Hnd' : NoDup (map fst t)) by (now inversion Hnd).
  cbn [fold_left fst snd m_get]. destruct (P (k0, e0)) eqn:EP.
  - rewrite (IH acc Hnd' k). destruct (Z.eqb_spec k0 k) as [He|He]; [|reflexivity].
    subst k0. rewrite Htail, EP. reflexivity.
  - rewrite (IH _ Hnd' k). rewrite m_get_put. destruct (Z.eqb_spec k0 k) as [He|He].
    + subst k0. rewrite Htail, EP. reflexivity.
    + reflexivity.
Qed.

Lemma get_s_load_gen m (data : list (Z * entry)) now k : NoDup (map fst data) ->
  m_get (s_load m data now) k
  = match m_get data k with
    | Some (v, d) => if expired now d then m_get m k else Some (v, d)
    | None => m_get m k
    end.
Proof.
  intros Hnd. unfold s_load.
  etransitivity;
    [exact (fold_put_get2 (fun ke => expired now (snd (snd ke))) (@snd Z entry) data m Hnd k)|].
  destruct (m_get data k) as [[v d]|]; reflexivity.
Qed.

Lemma get_data_map_eq (data : list (Z * entry)) k : NoDup (map fst data) -> m_get (data_map data) k = m_get data k.
Proof.
  intros Hnd. unfold data_map.
  etransitivity; [exact (fold_put_get2 (fun _ => false) (@snd Z entry) data [] Hnd k)|].
  destruct (m_get data k); reflexivity.
Qed.

(* ---------- declarative reading ---------- *)
Section Decl.
Variable fl : Z -> Z.
Variable defttl : Z.
Hypothesis fl_mono : forall x y, x <= y -> fl x <= fl y.
Hypothesis fl_neg : forall x, x < 0 -> fl x < 0.

Lemma fl_lt_inv x y : fl x < fl y -> x < y.
Proof. intros H. destruct (Z.lt_ge_cases x y) as [|Hge]; auto. apply fl_mono in Hge. lia. Qed.

Definition hmap := Z -> option entry.

(* a stored deadline d keeps its entry alive at instant t (as far as scores can tell): no deadline, a deadline
   that wrapped negative, or a deadline whose score is still above the score of t *)
Definition keeps (t d : Z) : Prop := d <= 0 \/ fl t < fl d.

(* m: the stored map; hc: per key, the entry last stored and not deleted since (time ignored); t0: latest instant *)
Definition J (m : smap) (hc : hmap) (t0 : Z) : Prop :=
  ksorted m /\
  (forall k e, m_get m k = Some e -> hc k = Some e) /\
  (forall k v d, hc k = Some (v, d) -> keeps t0 d -> m_get m k = Some (v, d)).

Lemma keeps_not_expired t d : keeps t d -> expired t d = false.
Proof.
  unfold keeps, expired. intros [H|H]; apply andb_false_iff; [left|right]; apply Z.ltb_ge; [lia|].
  apply fl_lt_inv in H. lia.
Qed.

Lemma keeps_not_swept t d : keeps t d -> swept fl t d = false.
Proof.
  unfold keeps, swept. intros H. destruct (Z.eqb_spec d 0) as [|Hn]; [reflexivity|]. simpl.
  destruct (Z.leb_spec 0 (fl d)) as [H0|H0]; [|reflexivity]. simpl. apply Z.leb_gt.
  destruct H as [H|H]; [|exact H]. assert (d < 0) by lia. pose proof (fl_neg d ltac:(lia)). lia.
Qed.

Lemma J_ext m hc hc' t : (forall k, hc k = hc' k) -> J m hc t -> J m hc' t.
Proof.
  intros He (H1 & H2 & H3). split; [auto|split].
  - intros k e H. rewrite <- He. auto.
  - intros k v d H. rewrite <- He in H. auto.
Qed.

Lemma J_mono m hc t0 t : J m hc t0 -> t0 <= t -> J m hc t.
Proof.
  intros (H1 & H2 & H3) Hle. split; [auto|split; [auto|]].
  intros k v d H [Hd|Hd]; apply (H3 k v d H); [left; auto|right]. pose proof (fl_mono _ _ Hle). lia.
Qed.

Lemma J_put m hc t k e : J m hc t -> J (m_put k e m) (fun k' => if k =? k' then Some e else hc k') t.
Proof.
  intros (H1 & H2 & H3). split; [now apply ksorted_put|split].
  - intros k' e'. rewrite m_get_put. destruct (k =? k'); auto.
  - intros k' v d. rewrite m_get_put. destruct (k =? k'); auto.
Qed.

Lemma J_del m hc t k : J m hc t -> J (m_del k m) (fun k' => if k =? k' then None else hc k') t.
Proof.
  intros (H1 & H2 & H3). split; [now apply ksorted_del|split].
  - intros k' e'. rewrite m_get_del. destruct (k =? k'); [discriminate|auto].
  - intros k' v d. rewrite m_get_del. destruct (k =? k'); [discriminate|auto].
Qed.

(* lazy expiry *)
Lemma J_expire m hc t k v d : J m hc t -> m_get m k = Some (v, d) -> expired t d = true -> J (m_del k m) hc t.
Proof.
  intros (H1 & H2 & H3) Hg Hex. split; [now apply ksorted_del|split].
  - intros k' e'. rewrite m_get_del. destruct (k =? k'); [discriminate|auto].
  - intros k' v' d' Hh Hlive. rewrite m_get_del. destruct (Z.eqb_spec k k') as [E|E]; [|auto].
    subst k'. exfalso. pose proof (H3 k v' d' Hh Hlive) as Hg'. rewrite Hg in Hg'. inversion Hg'; subst v' d'.
    rewrite (keeps_not_expired t d Hlive) in Hex. discriminate.
Qed.

Lemma J_sweep m hc t : J m hc t -> J (filter (fun p => negb (swept fl t (snd (snd p)))) m) hc t.
Proof.
  intros (H1 & H2 & H3). split; [now apply SSorted_filter|split].
  - intros k e. rewrite m_get_filter by exact H1. destruct (m_get m k) as [e'|] eqn:Eg; [|discriminate].
    destruct (negb _); [|discriminate]. intros H; inversion H; subst. auto.
  - intros k v d Hh Hlive. rewrite m_get_filter by exact H1. rewrite (H3 k v d Hh Hlive). simpl.
    now rewrite (keeps_not_swept t d Hlive).
Qed.

Lemma J_clear t : J [] (fun _ => None) t.
Proof. split; [constructor|split]; intros; discriminate. Qed.

Lemma J_restore data t : NoDup (map fst data) -> J (s_load [] data t) (fun k => m_get (data_map data) k) t.
Proof.
  intros Hnd. split; [apply ksorted_s_load; constructor|split].
  - intros k e H. apply get_s_load in H as [H _]; auto. now apply get_data_map.
  - intros k v d H Hlive. apply get_data_map in H; auto. apply get_s_load; auto. split; auto.
    simpl. now apply keeps_not_expired.
Qed.

Lemma J_load m hc (data : list (Z * entry)) t : J m hc t -> NoDup (map fst data) ->
  J (s_load m data t)
    (fun k => match m_get (data_map data) k with
              | Some (v, d) => if expired t d then hc k else Some (v, d)
              | None => hc k
              end) t.
Proof.
  intros (H1 & H2 & H3) Hnd. split; [now apply ksorted_s_load|split].
  - intros k e. rewrite get_s_load_gen, get_data_map_eq by exact Hnd.
    destruct (m_get data k) as [[v d]|]; [destruct (expired t d)|]; auto.
  - intros k v d. rewrite get_s_load_gen, get_data_map_eq by exact Hnd.
    destruct (m_get data k) as [[v0 d0]|]; [destruct (expired t d0)|]; auto.
Qed.

Lemma J_step m hc t0 now o : J m hc t0 -> t0 <= now -> op_wf o ->
  J (fst (sstep fl defttl m now o)) (fun k => ls_step defttl k (hc k) (now, o, snd (sstep fl defttl m now o))) now.
Proof.
  intros HJ0 Hle Hwf. pose proof (J_mono _ _ _ _ HJ0 Hle) as HJ. clear HJ0.
  destruct o as [k v ttl|k v ttl|k v ttl|k|k| | | | |data|data]; simpl.
  - eapply J_ext; [|apply (J_put _ _ _ k _ HJ)]. intros k'; reflexivity.
  - destruct (m_get m k) eqn:Eg; simpl.
    + eapply J_ext; [|exact HJ]. reflexivity.
    + eapply J_ext; [|apply (J_put _ _ _ k _ HJ)]. intros k'; reflexivity.
  - destruct (m_get m k) as [[v0 d0]|] eqn:Eg; simpl.
    + destruct (expired now d0) eqn:Ex; simpl.
      * eapply J_ext; [|eapply J_expire; eauto]. reflexivity.
      * eapply J_ext; [|apply (J_put _ _ _ k _ HJ)]. intros k'; reflexivity.
    + eapply J_ext; [|exact HJ]. reflexivity.
  - eapply J_ext; [|apply (J_del _ _ _ k HJ)]. intros k'; reflexivity.
  - destruct (m_get m k) as [[v0 d0]|] eqn:Eg; simpl.
    + destruct (expired now d0) eqn:Ex; simpl.
      * eapply J_ext; [|eapply J_expire; eauto]. reflexivity.
      * eapply J_ext; [|exact HJ]. reflexivity.
    + eapply J_ext; [|exact HJ]. reflexivity.
  - eapply J_ext; [|exact HJ]. reflexivity.
  - apply J_clear.
  - eapply J_ext; [|apply (J_sweep _ _ _ HJ)]. reflexivity.
  - eapply J_ext; [|exact HJ]. reflexivity.
  - now apply J_restore.
  - eapply J_ext; [|apply (J_load _ _ data _ HJ Hwf)]. intros k; reflexivity.
Qed.

Definition last_time (t0 : Z) (tops : list (Z * op)) : Z := fold_left (fun _ x => fst x) tops t0.

Lemma J_run tops : forall m hc t0, J m hc t0 -> times_mono_from t0 tops -> ops_wf tops ->
  J (fst (srun fl defttl m tops))
    (fun k => fold_left (ls_step defttl k) (combine tops (snd (srun fl defttl m tops))) (hc k))
    (last_time t0 tops).
Proof.
  induction tops as [|[now o] t IH]; intros m hc t0 HJ Hm Hwf; simpl.
  - eapply J_ext; [|exact HJ]. reflexivity.
  - destruct Hm as [Hle Hm]. inversion Hwf as [|? ? Hw1 Hw2]; subst.
    simpl in Hw1. pose proof (J_step m hc t0 now o HJ Hle Hw1) as HJ'.
    destruct (sstep fl defttl m now o) as [m' r]. simpl in HJ'.
    specialize (IH m' _ now HJ' Hm Hw2).
    destruct (srun fl defttl m' t) as [m'' rs]. simpl in *. exact IH.
Qed.

Lemma times_mono_app t0 l now o :
  times_mono_from t0 (l ++ [(now, o)]) <-> times_mono_from t0 l /\ last_time t0 l <= now.
Proof.
  revert t0. induction l as [|[t1 o1] l IH]; intros t0; simpl.
  - unfold last_time; simpl. tauto.
  - rewrite IH. unfold last_time; simpl. tauto.
Qed.

(* Get returns the entry last stored for the key (the expiry shown is its deadline, or the zero time 0 when the
   stored deadline is <= 0: none, or wrapped negative), never past its deadline; and always returns it when the
   stored deadline d is <= 0 or the score of d is still above the score of the current instant.
   For 0 < d with fl d <= fl now <= ... the result depends on whether a sweep has run: see Interval.v. *)
Theorem get_live tops now k : times_ok (tops ++ [(now, OGet k)]) -> ops_wf tops ->
  let m := fst (srun fl defttl [] tops) in
  let h := history fl defttl tops in
  (forall v sd, snd (sstep fl defttl m now (OGet k)) = OutGet (Some (v, sd)) ->
     exists d, last_stored defttl k h = Some (v, d) /\ sd = shown d /\ (d <= 0 \/ now <= d)) /\
  (forall v d, last_stored defttl k h = Some (v, d) -> (d <= 0 \/ fl now < fl d) ->
               snd (sstep fl defttl m now (OGet k)) = OutGet (Some (v, shown d))).
Proof.
  intros [Hp Hm] Hwf. cbv zeta.
  apply times_mono_app in Hm as [Hm Hlast].
  pose proof (J_run tops [] (fun _ => None) 0 (J_clear 0) Hm Hwf) as HJ.
  apply J_mono with (t := now) in HJ; [|exact Hlast].
  destruct HJ as (H1 & H2 & H3).
  unfold last_stored, history. simpl. split.
  - intros v sd. destruct (m_get (fst (srun fl defttl [] tops)) k) as [[v0 d0]|] eqn:Eg; [|discriminate].
    destruct (expired now d0) eqn:Ex; simpl; [discriminate|]. intros H; inversion H; subst v0 sd.
    exists d0. split; [exact (H2 _ _ Eg)|split; [reflexivity|]].
    unfold expired in Ex. apply andb_false_iff in Ex.
    destruct Ex as [E|E]; apply Z.ltb_ge in E; lia.
  - intros v d Hh Hlive. rewrite (H3 k v d Hh Hlive). rewrite (keeps_not_expired now d Hlive). reflexivity.
Qed.

Hypothesis fl_nonneg : forall x, 0 <= x -> 0 <= fl x.

(* Count = stored entries; after a sweep at [now] every remaining entry has d <= 0 (untimed or wrapped) or
   now < d, and nothing with d <= 0 or with a deadline scoring above [now] has been removed *)
Theorem count_sweep tops now : ops_wf tops ->
  let s := fst (mrun fl defttl st0 tops) in
  let s' := m_sweep fl s now in
  snd (mstep fl defttl s now OCount) = OutCount (length (member s)) /\
  (forall k v d, m_get (member s') k = Some (v, d) -> m_get (member s) k = Some (v, d) /\ (d <= 0 \/ fl now < fl d)) /\
  (forall k v d, m_get (member s) k = Some (v, d) -> d <= 0 \/ fl now < fl d -> m_get (member s') k = Some (v, d)).
Proof.
  intros Hwf. cbv zeta. pose proof (index_inv fl defttl tops Hwf) as HI.
  split; [reflexivity|split].
  - intros k v d. rewrite (sweep_exact fl _ now k HI).
    destruct (m_get (member (fst (mrun fl defttl st0 tops))) k) as [[v0 d0]|] eqn:Eg; [|discriminate].
    destruct (swept fl now d0) eqn:Es; [discriminate|]. intros H; inversion H; subst v0 d0. split; auto.
    destruct (Z.le_gt_cases d 0) as [Hd|Hd]; [now left|right].
    unfold swept in Es. destruct (Z.eqb_spec d 0) as [|Hne]; [lia|]. simpl in Es.
    pose proof (fl_nonneg d ltac:(lia)) as Hf. destruct (Z.leb_spec 0 (fl d)); [|lia]. simpl in Es.
    now apply Z.leb_gt in Es.
  - intros k v d Hg Hlive. rewrite (sweep_exact fl _ now k HI). rewrite Hg.
    now rewrite (keeps_not_swept now d Hlive).
Qed.
End Decl.
