(* C12 model of app/bcache (bcache.go, iterator.go) with the repairs D3 (zset.RemoveRangeByScore really
   removes), D24 (set/replace drop the old deadline when the new entry has none) and D32 (setDeadline, used
   by Load/Unmarshal, does the same).
   NO proofs in this file.

   Keys and values are Z. All times are ABSOLUTE UnixNano values (Z); every operation takes the instant
   [now] that the code reads with time.Now() as an explicit input (one instant per call: see the note at
   [m_replace]). [fl] is the int64 -> float64 conversion of a deadline into a zset score (scores are exactly
   representable integers, so they are modelled as Z again).

   State, exactly the two Go fields:
     member : key -> Iterator{Value, Expire}     (bmap over a Go map)      = association list sorted by key
     visit  : zset of keys scored by fl Expire   (skip list + dict)        = list (score, key) sorted by
                                                                             (score, key)
   The zset skip list and its dict are ABSTRACTED to that sorted list: the list is the level-0 chain of the
   skip list, the dict is the (unique) key -> score association read off the list. Express levels, spans and
   node heights do not exist here (they are C03/C17's subject). *)
From VF Require Import Common.Base.
Local Open Scope Z_scope.

(* ---------- association lists keyed by Z, kept sorted by key (used by model, spec and checker) ---------- *)
Section AMap.
Context {E : Type}.
Fixpoint m_get (l : list (Z * E)) (k : Z) : option E :=
  match l with
  | [] => None
  | (k', e) :: t => if k' =? k then Some e else m_get t k
  end.
Fixpoint m_put (k : Z) (e : E) (l : list (Z * E)) : list (Z * E) :=
  match l with
  | [] => [(k, e)]
  | (k', e') :: t => if k <? k' then (k, e) :: l
                     else if k =? k' then (k, e) :: t
                     else (k', e') :: m_put k e t
  end.
Definition m_del (k : Z) (l : list (Z * E)) : list (Z * E) := filter (fun p => negb (fst p =? k)) l.
End AMap.

Definition entry := (Z * Z)%type.          (* Iterator: (Value, Expire); Expire = 0 means no expiry *)

Inductive op :=
| OSet (k v ttl : Z)            (* Set(k,v,ttl); SetDefault = OSet k v defttl; SetNoExpire = OSet k v (-1) *)
| OSetIfAbsent (k v ttl : Z)
| OReplace (k v ttl : Z)
| ODelete (k : Z)
| OGet (k : Z)                  (* Get / GetWithExpire *)
| OCount
| OClear
| OSweep                        (* deleteExpire, what the sentinel ticker calls *)
| OExport
| ORestore (data : list (Z * entry))    (* Clear(); Load(data) issued as one step *)
| OLoad (data : list (Z * entry)).      (* Load(data) = Unmarshal onto whatever the cache holds *)

Inductive out :=
| OutUnit
| OutBool (b : bool)
| OutGet (r : option entry)     (* value and expiry as GetWithExpire shows them (0 = zero time: Expire <= 0) *)
| OutCount (n : nat)
| OutExport (l : list (Z * entry)).      (* decoded JSON object, sorted by key *)

(* ttl argument -> effective duration: NoExpire = -1, DefaultExpire = 0 (newIterator's switch) *)
Definition eff_ttl (defttl ttl : Z) : option Z :=
  if ttl =? -1 then None
  else if ttl =? 0 then (if 0 <? defttl then Some defttl else None)
  else if 0 <? ttl then Some ttl else None.

(* int64 arithmetic: time.Now().Add(d).UnixNano() is computed in int64 and WRAPS when now + d exceeds
   MaxInt64 (observed on Go 1.23: Time.Add does not saturate for such d, UnixNano multiplies and adds in int64):
   a TTL above about 235 years gives a NEGATIVE Expire. The code then treats the entry as never expiring
   (isVisit = Expire > 0 is false) although set() still puts the negative score into the index (Expire != 0),
   where the sweep range [0, now] never reaches it. *)
Definition M63 : Z := 2 ^ 63.
Definition M64 : Z := 2 ^ 64.
Definition wrap64 (z : Z) : Z := (z + M63) mod M64 - M63.

Definition new_expire (defttl now ttl : Z) : Z :=
  match eff_ttl defttl ttl with Some x => wrap64 (now + x) | None => 0 end.

(* what get shows as the expiry: time.Unix(0, Expire) when isVisit, else the zero time *)
Definition shown (d : Z) : Z := if 0 <? d then d else 0.

(* Iterator.expired: isVisit() && now > Expire *)
Definition expired (now d : Z) : bool := (0 <? d) && (d <? now).

(* ---------- the deadline index ---------- *)
Definition vlt (x y : Z * Z) : bool := (fst x <? fst y) || ((fst x =? fst y) && (snd x <? snd y)).
Definition veq (x y : Z * Z) : bool := (fst x =? fst y) && (snd x =? snd y).

(* list.Insert: position by (score, comparator(value)) *)
Fixpoint v_insert (x : Z * Z) (l : list (Z * Z)) : list (Z * Z) :=
  match l with
  | [] => [x]
  | y :: t => if vlt x y then x :: l else if veq x y then l else y :: v_insert x t
  end.
(* zset.Remove(k): dict lookup, then list.Delete(score, k) *)
Definition v_remove (k : Z) (l : list (Z * Z)) : list (Z * Z) := filter (fun e => negb (snd e =? k)) l.
(* zset.AddB(score, k): insert, or move the existing node of k to its new position
   (UpdateScore's in-place fast path gives the same sorted list) *)
Definition v_addb (sc k : Z) (l : list (Z * Z)) : list (Z * Z) := v_insert (sc, k) (v_remove k l).

Fixpoint take_while {A} (p : A -> bool) (l : list A) : list A :=
  match l with [] => [] | x :: t => if p x then x :: take_while p t else [] end.
Fixpoint drop_while {A} (p : A -> bool) (l : list A) : list A :=
  match l with [] => [] | x :: t => if p x then drop_while p t else l end.

Record state := { member : list (Z * entry); visit : list (Z * Z) }.
Definition st0 : state := {| member := []; visit := [] |}.

Section Model.
Variable fl : Z -> Z.
Variable defttl : Z.

(* set / replace (after 0027): Expire != 0 -> AddB, else Remove; then member.Put *)
Definition m_store (s : state) (k : Z) (e : entry) : state :=
  {| member := m_put k e (member s);
     visit := if snd e =? 0 then v_remove k (visit s) else v_addb (fl (snd e)) k (visit s) |}.

(* setDeadline (used by Unmarshal), after 0041: d != 0 -> AddB, else Remove; member.Put *)
Definition m_set_deadline (s : state) (k : Z) (e : entry) : state :=
  {| member := m_put k e (member s);
     visit := if snd e =? 0 then v_remove k (visit s) else v_addb (fl (snd e)) k (visit s) |}.

(* setDeadline BEFORE 0041 (D32): no Remove for an untimed entry. Kept only for Props.C12_load_old_refuted;
   the same expression is what setIfAbsent does on success (there the key is new, so nothing is stale). *)
Definition m_set_deadline_old (s : state) (k : Z) (e : entry) : state :=
  {| member := m_put k e (member s);
     visit := if snd e =? 0 then visit s else v_addb (fl (snd e)) k (visit s) |}.

(* bCache.delete: DeleteIfPresent on member; visit.Remove only when present *)
Definition m_delete (s : state) (k : Z) : state :=
  match m_get (member s) k with
  | None => s
  | Some _ => {| member := m_del k (member s); visit := v_remove k (visit s) |}
  end.

Definition m_setifabsent (s : state) (k : Z) (e : entry) : state * bool :=
  match m_get (member s) k with
  | Some _ => (s, false)                       (* PuTIfAbsent on the STORED map: an expired entry blocks *)
  | None => ({| member := m_put k e (member s);
                visit := if snd e =? 0 then visit s else v_addb (fl (snd e)) k (visit s) |}, true)
  end.

Definition m_get_op (s : state) (now k : Z) : state * option entry :=
  match m_get (member s) k with
  | None => (s, None)
  | Some (v, d) => if expired now d then (m_delete s k, None) else (s, Some (v, shown d))
  end.

(* replace reads the clock twice (newIterator before the lock, expired() under it); the calls of one
   goroutine are sequential, so both readings lie in the bracket of the call. One instant suffices: on
   success the later reading was <= the old deadline, hence so is the earlier one, which also fixes the
   new deadline; on failure nothing is stored. *)
Definition m_replace (s : state) (now k : Z) (e : entry) : state * bool :=
  match m_get (member s) k with
  | None => (s, false)
  | Some (_, d0) => if expired now d0 then (m_delete s k, false) else (m_store s k e, true)
  end.

(* deleteExpire: visit.RemoveRangeByScore(0, float64(now)) = list.DeleteRangeByScore: skip the nodes with
   score < 0, unlink nodes while score <= max; then member.Delete of every returned key *)
Definition m_sweep (s : state) (now : Z) : state :=
  let mx := fl now in
  let lo := take_while (fun e => fst e <? 0) (visit s) in
  let rest := drop_while (fun e => fst e <? 0) (visit s) in
  let rm := take_while (fun e => fst e <=? mx) rest in
  let keep := drop_while (fun e => fst e <=? mx) rest in
  {| member := fold_left (fun m e => m_del (snd e) m) rm (member s); visit := lo ++ keep |}.

(* Unmarshal over the existing content: every decoded entry that is not expired now goes through setDeadline *)
Definition load_into (s : state) (data : list (Z * entry)) (now : Z) : state :=
  fold_left (fun s ke => if expired now (snd (snd ke)) then s else m_set_deadline s (fst ke) (snd ke)) data s.

Definition load_into_old (s : state) (data : list (Z * entry)) (now : Z) : state :=
  fold_left (fun s ke => if expired now (snd (snd ke)) then s else m_set_deadline_old s (fst ke) (snd ke)) data s.

Definition mstep (s : state) (now : Z) (o : op) : state * out :=
  match o with
  | OSet k v ttl => (m_store s k (v, new_expire defttl now ttl), OutUnit)
  | OSetIfAbsent k v ttl => let '(s', b) := m_setifabsent s k (v, new_expire defttl now ttl) in (s', OutBool b)
  | OReplace k v ttl => let '(s', b) := m_replace s now k (v, new_expire defttl now ttl) in (s', OutBool b)
  | ODelete k => (m_delete s k, OutUnit)
  | OGet k => let '(s', r) := m_get_op s now k in (s', OutGet r)
  | OCount => (s, OutCount (length (member s)))           (* member.Size(): expired uncollected entries count *)
  | OClear => (st0, OutUnit)
  | OSweep => (m_sweep s now, OutUnit)
  | OExport => (s, OutExport (member s))                  (* json of the whole map, expired entries included *)
  | ORestore data => (load_into st0 data now, OutUnit)
  | OLoad data => (load_into s data now, OutUnit)
  end.

Fixpoint mrun (s : state) (tops : list (Z * op)) : state * list out :=
  match tops with
  | [] => (s, [])
  | (now, o) :: t => let '(s', r) := mstep s now o in let '(s'', rs) := mrun s' t in (s'', r :: rs)
  end.
End Model.

(* the concrete score conversion: x rounded to the nearest multiple of g, ties to the even multiple
   (float64(int64): g = 2^(e-52) for 2^e <= x < 2^(e+1); g = 256 for today's UnixNano, 2^60 <= x < 2^61) *)
Definition f64r (g x : Z) : Z :=
  let q := x / g in
  let r := x mod g in
  if 2 * r <? g then q * g
  else if g <? 2 * r then (q + 1) * g
  else if Z.even q then q * g else (q + 1) * g.

(* float64(int64) for every int64 value: exact below 2^53, else rounded to 53 significant bits (nearest, ties
   to even) = to the nearest multiple of 2^(e-52) for 2^e <= |x| < 2^(e+1). |x| = 2^63 is exact. Total on Z
   (beyond int64 the spacing stays 1024). Today's UnixNano values (2^60..2^61) have spacing 256; deadlines that
   wrapped negative and huge positive ones (2^62..2^63) have spacing 1024. *)
Definition M53 : Z := 2 ^ 53.
Definition f64 (x : Z) : Z :=
  let a := Z.abs x in
  if a <? M53 then x else Z.sgn x * f64r (2 ^ (Z.min (Z.log2 a) 62 - 52)) a.
