(* C12 interval checker (definitions; the theorems about it are in IntervalProofs.v).

   The harness cannot choose the instant [now] a call reads; it records two clock readings [a, b] around
   every call. A trace step is (operation, a, b, observed output). [adm_first] runs the reference semantics
   of Spec.v ABSTRACTLY over the intervals: every stored deadline is known only as a range, every entry is
   surely or maybe present. A step is inadmissible when NO choice of instants inside the intervals lets the
   reference semantics produce what was observed (IntervalProofs.admissible_complete). *)
From VF Require Import Common.Base C12.Model C12.Spec.
Local Open Scope Z_scope.

Inductive arange := Untimed | Rng (L U : Z).
(* Sure: stored at every explanation; Maybe: stored at some, with this value/range when stored;
   Wild: nothing is known about the key (an entry of a Load whose deadline fell inside the Load's own clock
   bracket, over a key that may already hold something else): every observation on it is accepted until the
   next definite store, hit or export. *)
Inductive pres := Sure | Maybe | Wild.
Record aent := { av : Z; ar : arange; ap : pres }.
Definition amap := list (Z * aent).

Record tstep := { t_op : op; t_a : Z; t_b : Z; t_out : out }.

Definition exact (d : Z) : arange := if d =? 0 then Untimed else Rng d d.

Definition in_range_b (d : Z) (r : arange) : bool :=
  match r with
  | Untimed => d =? 0
  | Rng L U => negb (d =? 0) && (L <=? d) && (d <=? U)
  end.

(* is there possibly an instant t >= a with the entry not expired:  not (0 < d < t) *)
Definition may_live (r : arange) (a : Z) : bool :=
  match r with Untimed => true | Rng L U => (L <=? 0) || (a <=? U) end.
(* is there possibly an instant t <= b with the entry expired:  0 < d < t *)
Definition may_expired (r : arange) (b : Z) : bool :=
  match r with Untimed => false | Rng L U => (0 <? U) && (L <? b) end.
(* could the stored deadline be <= 0 (none, or wrapped negative): then the API shows the zero time *)
Definition nonpos_ok (r : arange) : bool := match r with Untimed => true | Rng L U => L <? 0 end.

Definition wild (ae : aent) : bool := match ap ae with Wild => true | _ => false end.
(* does the abstract entry allow the concrete entry (v, d) *)
Definition fits (ae : aent) (v d : Z) : bool := wild ae || ((av ae =? v) && in_range_b d (ar ae)).

Definition miss_ok (abs : amap) (k b : Z) : bool :=
  match m_get abs k with
  | None => true
  | Some ae => match ap ae with Sure => may_expired (ar ae) b | _ => true end
  end.

Definition absent_ok (abs : amap) (k : Z) : bool :=
  match m_get abs k with
  | None => true
  | Some ae => match ap ae with Sure => false | _ => true end
  end.

Definition nsure (abs : amap) : nat :=
  length (filter (fun p => match ap (snd p) with Sure => true | _ => false end) abs).

Fixpoint ksorted_b {E} (l : list (Z * E)) : bool :=
  match l with
  | [] => true
  | (k, _) :: t => match t with [] => true | (k', _) :: _ => (k <? k') && ksorted_b t end
  end.

Fixpoint filter_map {A B} (f : A -> option B) (l : list A) : list B :=
  match l with
  | [] => []
  | x :: t => match f x with Some y => y :: filter_map f t | None => filter_map f t end
  end.

Section Checker.
Variable g : Z.          (* rounding granularity of the score conversion: |fl x - x| <= g/2 *)
Variable defttl : Z.

(* deadline of a store at some t in [a,b]: wrap64 (t + x). Without overflow [a+x, b+x]; when both ends
   overflow int64 once the (negative) range [a+x-2^64, b+x-2^64]; None when the bracket straddles a wrap point *)
Definition new_range (a b ttl : Z) : option arange :=
  match eff_ttl defttl ttl with
  | None => Some Untimed
  | Some x => let lo := a + x in
              let hi := b + x in
              if hi <? M63 then Some (Rng lo hi)
              else if (M63 <=? lo) && (hi <? M64) then Some (Rng (lo - M64) (hi - M64))
              else None
  end.
(* the abstract entry of a fresh store: Wild when nothing can be said about its deadline *)
Definition new_aent (v a b ttl : Z) : aent :=
  match new_range a b ttl with
  | Some r => {| av := v; ar := r; ap := Sure |}
  | None => {| av := v; ar := Untimed; ap := Wild |}
  end.

(* a sweep at some t in [a,b] collects d iff d <> 0 and 0 <= fl d <= fl t.
   d <= a (and 0 <= d)  ->  collected at every t (fl monotone);   d > b + g  or  d < 0  ->  kept at every t *)
Definition asweep_ent (a b : Z) (p : Z * aent) : option (Z * aent) :=
  if wild (snd p) then Some p else
  match ar (snd p) with
  | Untimed => Some p
  | Rng L U => if (0 <=? L) && (U <=? a) then None
               else if (b + g <? L) || (U <? 0) then Some p
               else Some (fst p, {| av := av (snd p); ar := ar (snd p); ap := Maybe |})
  end.

(* Load at some instants in [a,b] (one clock reading per entry) onto the abstract state [abs]:
   0 < d < a: expired at every instant, not loaded;  d <= 0 or b <= d: loaded at every instant;
   otherwise loaded or not: Maybe over an absent key, Wild over a key that already has an abstract entry *)
Definition aload (a b : Z) (data : list (Z * entry)) (abs : amap) : amap :=
  fold_left (fun m ke =>
               let d := snd (snd ke) in
               if (0 <? d) && (d <? a) then m
               else if (d <=? 0) || (b <=? d)
                    then m_put (fst ke) {| av := fst (snd ke); ar := exact d; ap := Sure |} m
                    else m_put (fst ke) {| av := fst (snd ke); ar := exact d;
                                           ap := match m_get m (fst ke) with None => Maybe | Some _ => Wild end |} m)
            data abs.
Definition arestore (a b : Z) (data : list (Z * entry)) : amap := aload a b data [].

Definition export_ok (abs : amap) (l : list (Z * entry)) : bool :=
  ksorted_b l
  && forallb (fun p => match m_get abs (fst p) with
                       | Some ae => fits ae (fst (snd p)) (snd (snd p))
                       | None => false
                       end) l
  && forallb (fun p => match ap (snd p) with
                       | Sure => match m_get l (fst p) with Some _ => true | None => false end
                       | _ => true
                       end) abs.

Definition astep (abs : amap) (s : tstep) : option amap :=
  let a := t_a s in
  let b := t_b s in
  match t_op s, t_out s with
  | OSet k v ttl, OutUnit =>
      Some (m_put k (new_aent v a b ttl) abs)
  | OSetIfAbsent k v ttl, OutBool true =>
      if absent_ok abs k then Some (m_put k (new_aent v a b ttl) abs) else None
  | OSetIfAbsent k v ttl, OutBool false =>
      match m_get abs k with
      | Some ae => if wild ae then Some abs else Some (m_put k {| av := av ae; ar := ar ae; ap := Sure |} abs)
      | None => None
      end
  | OReplace k v ttl, OutBool true =>
      match m_get abs k with
      | Some ae => if wild ae || may_live (ar ae) a
                   then Some (m_put k (new_aent v a b ttl) abs) else None
      | None => None
      end
  | OReplace k v ttl, OutBool false => if miss_ok abs k b then Some (m_del k abs) else None
  | ODelete k, OutUnit => Some (m_del k abs)
  | OGet k, OutGet (Some (v, d)) =>
      match m_get abs k with
      | Some ae =>
          if 0 <? d                                 (* a deadline is shown: it is the stored one *)
          then (if fits ae v d && (a <=? d)
                then Some (m_put k {| av := v; ar := exact d; ap := Sure |} abs) else None)
          else if d =? 0                            (* zero time shown: the stored deadline is <= 0 *)
          then (if wild ae then Some abs
                else if (av ae =? v) && nonpos_ok (ar ae)
                     then Some (m_put k {| av := v; ar := ar ae; ap := Sure |} abs) else None)
          else None
      | None => None
      end
  | OGet k, OutGet None => if miss_ok abs k b then Some (m_del k abs) else None
  | OCount, OutCount n => if (Nat.leb (nsure abs) n) && (Nat.leb n (length abs)) then Some abs else None
  | OClear, OutUnit => Some []
  | OSweep, OutUnit => Some (filter_map (asweep_ent a b) abs)
  | OExport, OutExport l =>
      if export_ok abs l
      then Some (map (fun p => (fst p, {| av := fst (snd p); ar := exact (snd (snd p)); ap := Sure |})) l)
      else None
  | ORestore data, OutUnit => Some (arestore a b data)
  | OLoad data, OutUnit => Some (aload a b data abs)
  | _, _ => None
  end.

(* index of the first inadmissible step *)
Fixpoint adm_first (abs : amap) (tr : list tstep) (i : nat) : option nat :=
  match tr with
  | [] => None
  | s :: t => match astep abs s with
              | None => Some i
              | Some abs' => adm_first abs' t (S i)
              end
  end.

Definition admissible_b (tr : list tstep) : bool :=
  match adm_first [] tr 0 with None => true | Some _ => false end.
End Checker.

(* ---------- decided traces ----------
   [decided_b] runs a STRICT abstract interpretation: every entry is surely present, deadlines are ranges that
   are never narrowed by observations, and every comparison the reference semantics makes (expired? swept?)
   must have the same answer for EVERY instant inside the bracket; the observed booleans / hits / misses /
   values / counts / exported keys must be the ones that answer gives. None = some comparison fell inside an
   uncertainty window (undecided) or an observation differs. *)
Definition dent := (Z * arange)%type.          (* value, deadline range *)
Definition dmap := list (Z * dent).

Definition sure_live (r : arange) (b : Z) : bool :=
  match r with Untimed => true | Rng L U => (b <=? L) || (U <? 0) end.
Definition sure_expired (r : arange) (a : Z) : bool :=
  match r with Untimed => false | Rng L U => (0 <? L) && (U <? a) end.

Definition kv_abs (p : Z * dent) : Z * Z := (fst p, fst (snd p)).
Definition kv_conc (p : Z * entry) : Z * Z := (fst p, fst (snd p)).
Definition kv_eqb (x y : Z * Z) : bool := (fst x =? fst y) && (snd x =? snd y).

Section Decided.
Variable g : Z.
Variable defttl : Z.

Fixpoint dsweep (a b : Z) (dm : dmap) : option dmap :=
  match dm with
  | [] => Some []
  | (k, (v, r)) :: t =>
      match dsweep a b t with
      | None => None
      | Some t' =>
          match r with
          | Untimed => Some ((k, (v, r)) :: t')
          | Rng L U => if (0 <=? L) && (U <=? a) then Some t'
                       else if (b + g <? L) || (U <? 0) then Some ((k, (v, r)) :: t') else None
          end
      end
  end.

Fixpoint drestore (a b : Z) (data : list (Z * entry)) (dm : dmap) : option dmap :=
  match data with
  | [] => Some dm
  | (k, (v, d)) :: t =>
      if (0 <? d) && (d <? a) then drestore a b t dm
      else if (d <=? 0) || (b <=? d) then drestore a b t (m_put k (v, exact d) dm)
      else None
  end.

Definition dmiss (dm : dmap) (k a : Z) : option dmap :=
  match m_get dm k with
  | None => Some dm
  | Some (_, r) => if sure_expired r a then Some (m_del k dm) else None
  end.

Definition dstore (dm : dmap) (k v a b ttl : Z) : option dmap :=
  match new_range defttl a b ttl with Some r => Some (m_put k (v, r) dm) | None => None end.

Definition dstep (dm : dmap) (s : tstep) : option dmap :=
  let a := t_a s in
  let b := t_b s in
  match t_op s, t_out s with
  | OSet k v ttl, OutUnit => dstore dm k v a b ttl
  | OSetIfAbsent k v ttl, OutBool true =>
      match m_get dm k with None => dstore dm k v a b ttl | Some _ => None end
  | OSetIfAbsent k v ttl, OutBool false =>
      match m_get dm k with None => None | Some _ => Some dm end
  | OReplace k v ttl, OutBool true =>
      match m_get dm k with
      | Some (_, r) => if sure_live r b then dstore dm k v a b ttl else None
      | None => None
      end
  | OReplace k v ttl, OutBool false => dmiss dm k a
  | ODelete k, OutUnit => Some (m_del k dm)
  | OGet k, OutGet (Some (v, d)) =>
      match m_get dm k with
      | Some (v0, r) => if (v0 =? v) && sure_live r b then Some dm else None
      | None => None
      end
  | OGet k, OutGet None => dmiss dm k a
  | OCount, OutCount n => if Nat.eqb n (length dm) then Some dm else None
  | OClear, OutUnit => Some []
  | OSweep, OutUnit => dsweep a b dm
  | OExport, OutExport l => if list_eqb kv_eqb (map kv_abs dm) (map kv_conc l) then Some dm else None
  | ORestore data, OutUnit => drestore a b data []
  | OLoad data, OutUnit => drestore a b data dm
  | _, _ => None
  end.

Fixpoint drun (dm : dmap) (tr : list tstep) : bool :=
  match tr with
  | [] => true
  | s :: t => match dstep dm s with None => false | Some dm' => drun dm' t end
  end.

Definition decided_b (tr : list tstep) : bool := drun [] tr.
End Decided.

(* outputs compared up to the exact deadline values (a stored deadline is only known as a range) *)
Definition out_sim (x y : out) : Prop :=
  match x, y with
  | OutGet (Some (v, _)), OutGet (Some (v', _)) => v = v'
  | OutGet None, OutGet None => True
  | OutExport l, OutExport l' => map kv_conc l = map kv_conc l'
  | OutUnit, OutUnit => True
  | OutBool b, OutBool b' => b = b'
  | OutCount n, OutCount n' => n = n'
  | _, _ => False
  end.

(* ---------- what the theorems talk about ---------- *)
Definition observed (tr : list tstep) : list out := map t_out tr.
Definition within (tr : list tstep) (ts : list Z) : Prop :=
  Forall2 (fun s t => 0 < t_a s /\ t_a s <= t <= t_b s) tr ts.
Definition spec_outputs (fl : Z -> Z) (defttl : Z) (tr : list tstep) (ts : list Z) : list out :=
  snd (srun fl defttl [] (combine ts (map t_op tr))).
Definition trace_wf (tr : list tstep) : Prop := Forall (fun s => op_wf (t_op s)) tr.
