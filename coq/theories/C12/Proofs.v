(* C12 proofs, part 1: association-list and index lemmas, the index invariant, model refines spec. *)
From VF Require Import Common.Base C12.Model C12.Spec.
From Coq Require Import Sorting.Sorted.
Local Open Scope Z_scope.

(* ---------- generic list facts ---------- *)
Lemma filter_true_id {A} (f : A -> bool) l : (forall x, In x l -> f x = true) -> filter f l = l.
Proof.
  induction l as [|a l IH]; intros H; simpl; auto.
  rewrite (H a (or_introl eq_refl)). f_equal. apply IH. intros x Hx. apply H. now right.
Qed.

Lemma filter_filter {A} (f g : A -> bool) l : filter f (filter g l) = filter (fun x => g x && f x) l.
Proof.
  induction l as [|a l IH]; simpl; auto.
  destruct (g a) eqn:Eg; simpl; [destruct (f a); simpl; now rewrite IH | apply IH].
Qed.

Lemma SSorted_filter {A} (R : A -> A -> Prop) (f : A -> bool) l :
  StronglySorted R l -> StronglySorted R (filter f l).
Proof.
  induction 1 as [|a l Hs IH Hf]; simpl; [constructor|].
  destruct (f a); auto. constructor; auto.
  rewrite Forall_forall in *. intros x Hx. apply filter_In in Hx as [Hx _]. auto.
Qed.

Lemma SSorted_app {A} (R : A -> A -> Prop) l1 l2 :
  StronglySorted R l1 -> StronglySorted R l2 -> (forall x y, In x l1 -> In y l2 -> R x y) ->
  StronglySorted R (l1 ++ l2).
Proof.
  induction 1 as [|a l Hs IH Hf]; intros H2 HR; simpl; auto.
  constructor.
  - apply IH; auto. intros x y Hx Hy. apply HR; auto. now right.
  - rewrite Forall_forall in *. intros x Hx. apply in_app_or in Hx as [Hx|Hx]; auto.
    apply HR; auto. now left.
Qed.

(* on a sorted list a downward-closed predicate holds exactly on a prefix *)
Lemma take_drop_filter {A} (R : A -> A -> Prop) (p : A -> bool) l :
  StronglySorted R l -> (forall x y, R x y -> p y = true -> p x = true) ->
  take_while p l = filter p l /\ drop_while p l = filter (fun x => negb (p x)) l.
Proof.
  intros Hs Hc. induction Hs as [|a l Hs IH Hf]; simpl; auto.
  destruct IH as [IH1 IH2]. destruct (p a) eqn:Ea; simpl.
  - now rewrite IH1, IH2.
  - assert (Hn : forall x, In x l -> p x = false).
    { intros x Hx. rewrite Forall_forall in Hf. destruct (p x) eqn:Ex; auto.
      rewrite (Hc a x (Hf x Hx) Ex) in Ea. discriminate. }
    split.
    + symmetry. clear -Hn. induction l as [|b l IH]; simpl; auto.
      rewrite (Hn b (or_introl eq_refl)). apply IH. intros x Hx. apply Hn. now right.
    + f_equal. symmetry. apply filter_true_id. intros x Hx. now rewrite (Hn x Hx).
Qed.

(* ---------- association lists ---------- *)
Section AMapFacts.
Context {E : Type}.
Definition klt (a b : Z * E) : Prop := fst a < fst b.
Definition ksorted (l : list (Z * E)) : Prop := StronglySorted klt l.

Lemma m_get_put k e (l : list (Z * E)) k' :
  m_get (m_put k e l) k' = if k =? k' then Some e else m_get l k'.
Proof.
  induction l as [|[k0 e0] t IH]; simpl; auto.
  destruct (Z.ltb_spec k k0) as [Hlt|Hge]; simpl; auto.
  destruct (Z.eqb_spec k k0) as [He|Hne]; simpl.
  - subst k0. destruct (Z.eqb_spec k k'); auto.
  - rewrite IH. destruct (Z.eqb_spec k0 k') as [H1|H1]; auto.
    destruct (Z.eqb_spec k k') as [H2|H2]; auto. congruence.
Qed.

Lemma m_get_del k (l : list (Z * E)) k' :
  m_get (m_del k l) k' = if k =? k' then None else m_get l k'.
Proof.
  unfold m_del. induction l as [|[k0 e0] t IH]; simpl.
  - now destruct (k =? k').
  - destruct (Z.eqb_spec k0 k) as [H1|H1]; simpl.
    + rewrite IH. subst k0. destruct (Z.eqb_spec k k'); auto.
    + rewrite IH. destruct (Z.eqb_spec k0 k') as [H2|H2]; auto.
      destruct (Z.eqb_spec k k'); auto. congruence.
Qed.

Lemma m_get_In (l : list (Z * E)) k e : m_get l k = Some e -> In (k, e) l.
Proof.
  induction l as [|[k0 e0] t IH]; simpl; [discriminate|].
  destruct (Z.eqb_spec k0 k) as [H|H]; intros H1; [inversion H1; subst; now left | right; auto].
Qed.

Lemma m_get_none_sorted k0 (e0 : E) t : Forall (klt (k0, e0)) t -> m_get t k0 = None.
Proof.
  induction t as [|[k1 e1] t IH]; intros Hf; simpl; auto.
  inversion Hf as [|? ? H1 H2]; subst. unfold klt in H1; simpl in H1.
  destruct (Z.eqb_spec k1 k0); [lia|auto].
Qed.

Lemma In_m_get (l : list (Z * E)) k e : ksorted l -> In (k, e) l -> m_get l k = Some e.
Proof.
  induction 1 as [|[k0 e0] t Hs IH Hf]; simpl; [intros []|].
  intros [H|H].
  - inversion H; subst. now rewrite Z.eqb_refl.
  - rewrite Forall_forall in Hf. pose proof (Hf _ H) as Hl. unfold klt in Hl; simpl in Hl.
    destruct (Z.eqb_spec k0 k); [lia|auto].
Qed.

Lemma In_m_put k e (l : list (Z * E)) x : In x (m_put k e l) -> x = (k, e) \/ In x l.
Proof.
  induction l as [|[k0 e0] t IH]; simpl; [intuition congruence|].
  destruct (k <? k0); simpl; [intuition congruence|]. destruct (k =? k0); simpl; [intuition congruence|].
  intros [H|H]; auto. apply IH in H. tauto.
Qed.

Lemma ksorted_put k e (l : list (Z * E)) : ksorted l -> ksorted (m_put k e l).
Proof.
  induction 1 as [|[k0 e0] t Hs IH Hf]; simpl.
  - repeat constructor.
  - destruct (Z.ltb_spec k k0) as [Hlt|Hge].
    + constructor; [constructor; auto|]. constructor; [exact Hlt|].
      rewrite Forall_forall in *. intros x Hx. pose proof (Hf x Hx) as H1. unfold klt in *; simpl in *. lia.
    + destruct (Z.eqb_spec k k0) as [He|Hne].
      * subst k0. constructor; auto.
      * constructor; auto. rewrite Forall_forall in *. intros x Hx. apply In_m_put in Hx as [Hx|Hx]; auto.
        subst x. unfold klt; simpl. lia.
Qed.

Lemma ksorted_del k (l : list (Z * E)) : ksorted l -> ksorted (m_del k l).
Proof. apply SSorted_filter. Qed.

Lemma m_del_absent k (l : list (Z * E)) : m_get l k = None -> m_del k l = l.
Proof.
  unfold m_del. induction l as [|[k0 e0] t IH]; simpl; auto.
  destruct (Z.eqb_spec k0 k) as [H|H]; [discriminate|]. intros H1. simpl. f_equal. auto.
Qed.

Lemma m_get_filter (f : Z * E -> bool) (l : list (Z * E)) k : ksorted l ->
  m_get (filter f l) k = match m_get l k with
                         | Some e => if f (k, e) then Some e else None
                         | None => None
                         end.
Proof.
  induction 1 as [|[k0 e0] t Hs IH Hf]; simpl; auto.
  destruct (Z.eqb_spec k0 k) as [H|H].
  - subst k0. destruct (f (k, e0)) eqn:Ef; simpl; [now rewrite Z.eqb_refl|].
    rewrite IH. now rewrite (m_get_none_sorted _ _ _ Hf).
  - destruct (f (k0, e0)); simpl; [|exact IH].
    destruct (Z.eqb_spec k0 k); [contradiction|exact IH].
Qed.

Lemma m_put_snoc k e (l : list (Z * E)) : Forall (fun p => fst p < k) l -> m_put k e l = l ++ [(k, e)].
Proof.
  induction l as [|[k0 e0] t IH]; intros Hf; simpl; auto.
  inversion Hf as [|? ? H1 H2]; subst. simpl in H1.
  destruct (Z.ltb_spec k k0); [lia|]. destruct (Z.eqb_spec k k0); [lia|]. f_equal. auto.
Qed.

Lemma ksorted_app_drop (acc : list (Z * E)) x t : ksorted (acc ++ x :: t) -> ksorted (acc ++ t).
Proof.
  induction acc as [|a acc IHa]; simpl; intros Hs.
  - now inversion Hs.
  - inversion Hs as [|? ? H1 H2]; subst. constructor; [now apply IHa|].
    rewrite Forall_forall in *. intros y Hy. apply H2.
    apply in_app_or in Hy as [Hy|Hy]; apply in_or_app; [now left|right; now right].
Qed.

Lemma ksorted_app_lt (acc : list (Z * E)) k e t : ksorted (acc ++ (k, e) :: t) -> Forall (fun p => fst p < k) acc.
Proof.
  induction acc as [|a acc IHa]; simpl; intros Hs; [constructor|].
  inversion Hs as [|? ? H1 H2]; subst. constructor; [|now apply IHa].
  rewrite Forall_forall in H2. apply (H2 (k, e)). apply in_or_app. right. now left.
Qed.
End AMapFacts.

(* ---------- the deadline index ---------- *)
Definition vltP (x y : Z * Z) : Prop := fst x < fst y \/ (fst x = fst y /\ snd x < snd y).
Definition vsorted (l : list (Z * Z)) : Prop := StronglySorted vltP l.

Lemma vlt_spec x y : vlt x y = true <-> vltP x y.
Proof.
  unfold vlt, vltP. rewrite orb_true_iff, andb_true_iff, !Z.ltb_lt, Z.eqb_eq. tauto.
Qed.
Lemma veq_spec x y : veq x y = true <-> x = y.
Proof.
  destruct x as [a b], y as [c d]. unfold veq; simpl. rewrite andb_true_iff, !Z.eqb_eq.
  split; [intros [-> ->]; auto | intros H; inversion H; auto].
Qed.
Lemma vltP_trans x y z : vltP x y -> vltP y z -> vltP x z.
Proof. unfold vltP. lia. Qed.
Lemma vltP_total x y : vlt x y = false -> veq x y = false -> vltP y x.
Proof.
  intros H1 H2. destruct x as [a b], y as [c d]. unfold vlt, veq, vltP in *; simpl in *.
  apply orb_false_iff in H1 as [H1 H3]. apply Z.ltb_ge in H1.
  destruct (Z.eqb_spec a c) as [He|Hne]; simpl in *.
  - apply Z.ltb_ge in H3. apply Z.eqb_neq in H2. lia.
  - lia.
Qed.

Lemma In_v_insert x l y : In y (v_insert x l) <-> y = x \/ In y l.
Proof.
  induction l as [|z t IH]; simpl; [intuition|].
  destruct (vlt x z) eqn:E1; simpl; [intuition|].
  destruct (veq x z) eqn:E2; simpl.
  - apply veq_spec in E2. subst z. intuition.
  - rewrite IH. intuition.
Qed.

Lemma vsorted_insert x l : vsorted l -> vsorted (v_insert x l).
Proof.
  induction 1 as [|z t Hs IH Hf]; simpl.
  - repeat constructor.
  - destruct (vlt x z) eqn:E1.
    + apply vlt_spec in E1. constructor; [constructor; auto|]. constructor; auto.
      rewrite Forall_forall in *. intros w Hw. eapply vltP_trans; eauto.
    + destruct (veq x z) eqn:E2; [constructor; auto|].
      constructor; auto. rewrite Forall_forall in *. intros w Hw. apply In_v_insert in Hw as [Hw|Hw]; auto.
      subst w. now apply vltP_total.
Qed.

Lemma In_v_remove k l sc k' : In (sc, k') (v_remove k l) <-> In (sc, k') l /\ k' <> k.
Proof.
  unfold v_remove. rewrite filter_In. simpl. rewrite negb_true_iff, Z.eqb_neq. tauto.
Qed.

Lemma vsorted_remove k l : vsorted l -> vsorted (v_remove k l).
Proof. apply SSorted_filter. Qed.

Lemma In_v_addb sc k l sc' k' : In (sc', k') (v_addb sc k l) <-> (sc' = sc /\ k' = k) \/ (In (sc', k') l /\ k' <> k).
Proof.
  unfold v_addb. rewrite In_v_insert, In_v_remove. split.
  - intros [H|H]; [inversion H; auto|auto].
  - intros [[-> ->]|H]; auto.
Qed.

Lemma vsorted_addb sc k l : vsorted l -> vsorted (v_addb sc k l).
Proof. intros H. apply vsorted_insert, vsorted_remove, H. Qed.

(* ---------- the invariant: visit and member agree on exactly the timed keys ---------- *)
Section Inv.
Variable fl : Z -> Z.

Definition indexed (s : state) : Prop :=
  forall sc k, In (sc, k) (visit s) <-> exists v d, m_get (member s) k = Some (v, d) /\ d <> 0 /\ sc = fl d.

Definition Inv (s : state) : Prop := ksorted (member s) /\ vsorted (visit s) /\ indexed s.

Lemma Inv_st0 : Inv st0.
Proof.
  split; [constructor|split; [constructor|]]. intros sc k; simpl. split; [tauto|].
  intros (v & d & H & _); discriminate.
Qed.

Lemma Inv_store s k e : Inv s -> Inv (m_store fl s k e).
Proof.
  intros (Hk & Hv & Hi). unfold m_store. split; [|split]; simpl.
  - now apply ksorted_put.
  - destruct (snd e =? 0); [now apply vsorted_remove | now apply vsorted_addb].
  - intros sc k'. simpl. destruct e as [v d]; simpl. destruct (Z.eqb_spec d 0) as [Hd|Hd].
    + rewrite In_v_remove, (Hi sc k'). split.
      * intros ((v' & d' & H1 & H2 & H3) & Hne). exists v', d'. rewrite m_get_put.
        destruct (Z.eqb_spec k k'); [congruence|auto].
      * intros (v' & d' & H1 & H2 & H3). rewrite m_get_put in H1.
        destruct (Z.eqb_spec k k') as [He|He]; [inversion H1; congruence|].
        split; [exists v', d'; auto | congruence].
    + rewrite In_v_addb, (Hi sc k'). split.
      * intros [[-> ->]|((v' & d' & H1 & H2 & H3) & Hne)].
        -- exists v, d. rewrite m_get_put, Z.eqb_refl. auto.
        -- exists v', d'. rewrite m_get_put. destruct (Z.eqb_spec k k'); [congruence|auto].
      * intros (v' & d' & H1 & H2 & H3). rewrite m_get_put in H1.
        destruct (Z.eqb_spec k k') as [He|He].
        -- inversion H1; subst. left; auto.
        -- right. split; [exists v', d'; auto | congruence].
Qed.

(* setIfAbsent (and setDeadline before 0041) leave the index alone for an untimed entry: fine when the key is new *)
Lemma Inv_set_deadline_old s k e :
  Inv s -> (snd e = 0 -> m_get (member s) k = None) -> Inv (m_set_deadline_old fl s k e).
Proof.
  intros HI Hfresh. destruct e as [v d]; simpl in Hfresh.
  destruct (Z.eqb_spec d 0) as [Hd|Hd].
  - subst d. pose proof (Hfresh eq_refl) as Hn. destruct HI as (Hk & Hv & Hi).
    unfold m_set_deadline_old; simpl. split; [|split]; simpl; auto.
    + now apply ksorted_put.
    + intros sc k'. simpl. rewrite (Hi sc k'). split.
      * intros (v' & d' & H1 & H2 & H3). exists v', d'. rewrite m_get_put.
        destruct (Z.eqb_spec k k'); [congruence|auto].
      * intros (v' & d' & H1 & H2 & H3). rewrite m_get_put in H1.
        destruct (Z.eqb_spec k k'); [inversion H1; congruence|]. exists v', d'; auto.
  - replace (m_set_deadline_old fl s k (v, d)) with (m_store fl s k (v, d)); [now apply Inv_store|].
    unfold m_set_deadline_old, m_store; simpl. destruct (Z.eqb_spec d 0); [contradiction|reflexivity].
Qed.

(* setDeadline after 0041 is set's index update *)
Lemma Inv_set_deadline s k e : Inv s -> Inv (m_set_deadline fl s k e).
Proof. apply Inv_store. Qed.

Lemma Inv_delete s k : Inv s -> Inv (m_delete s k).
Proof.
  intros (Hk & Hv & Hi). unfold m_delete. destruct (m_get (member s) k) eqn:Eg; [|repeat split; auto; apply Hi].
  split; [|split]; simpl.
  - now apply ksorted_del.
  - now apply vsorted_remove.
  - intros sc k'. simpl. rewrite In_v_remove, (Hi sc k'). split.
    + intros ((v' & d' & H1 & H2 & H3) & Hne). exists v', d'. rewrite m_get_del.
      destruct (Z.eqb_spec k k'); [congruence|auto].
    + intros (v' & d' & H1 & H2 & H3). rewrite m_get_del in H1.
      destruct (Z.eqb_spec k k'); [discriminate|]. split; [exists v', d'; auto|congruence].
Qed.

Lemma member_delete s k : member (m_delete s k) = m_del k (member s).
Proof.
  unfold m_delete. destruct (m_get (member s) k) eqn:Eg; simpl; auto. symmetry. now apply m_del_absent.
Qed.

(* ----- the sweep ----- *)
Lemma fold_del_filter (rm : list (Z * Z)) (m : list (Z * entry)) :
  fold_left (fun m e => m_del (snd e) m) rm m
  = filter (fun p => negb (existsb (fun e => snd e =? fst p) rm)) m.
Proof.
  revert m. induction rm as [|a rm IH]; intros m; simpl.
  - symmetry. now apply filter_true_id.
  - rewrite IH. unfold m_del. rewrite filter_filter. apply filter_ext. intros p.
    rewrite negb_orb. rewrite (Z.eqb_sym (snd a) (fst p)). reflexivity.
Qed.

Definition in_sweep (mx : Z) (e : Z * Z) : bool := (0 <=? fst e) && (fst e <=? mx).

Lemma sweep_parts mx vis : vsorted vis ->
  let lo := take_while (fun e => fst e <? 0) vis in
  let rest := drop_while (fun e => fst e <? 0) vis in
  let rm := take_while (fun e => fst e <=? mx) rest in
  let keep := drop_while (fun e => fst e <=? mx) rest in
  (forall e, In e rm <-> In e vis /\ in_sweep mx e = true) /\
  (forall e, In e (lo ++ keep) <-> In e vis /\ in_sweep mx e = false) /\
  vsorted (lo ++ keep).
Proof.
  intros Hs. cbv zeta.
  destruct (take_drop_filter vltP (fun e => fst e <? 0) vis Hs) as [E1 E2].
  { intros x y Hxy Hy. apply Z.ltb_lt in Hy. apply Z.ltb_lt. unfold vltP in Hxy. lia. }
  rewrite E1, E2.
  assert (Hs2 : vsorted (filter (fun x => negb (fst x <? 0)) vis)) by now apply SSorted_filter.
  destruct (take_drop_filter vltP (fun e => fst e <=? mx) _ Hs2) as [E3 E4].
  { intros x y Hxy Hy. apply Z.leb_le in Hy. apply Z.leb_le. unfold vltP in Hxy. lia. }
  rewrite E3, E4. unfold in_sweep. split; [|split].
  - intros e. rewrite !filter_In, negb_true_iff, andb_true_iff, Z.ltb_ge, !Z.leb_le. tauto.
  - intros e. rewrite in_app_iff, !filter_In.
    destruct (Z.ltb_spec (fst e) 0) as [A|A]; destruct (Z.leb_spec 0 (fst e)) as [B|B]; try lia;
      destruct (Z.leb_spec (fst e) mx) as [C|C]; simpl; intuition discriminate.
  - apply SSorted_app; [now apply SSorted_filter | now apply SSorted_filter|].
    intros x y Hx Hy. apply filter_In in Hx as [_ Hx]. apply filter_In in Hy as [Hy _].
    apply filter_In in Hy as [_ Hy]. apply Z.ltb_lt in Hx. apply negb_true_iff, Z.ltb_ge in Hy.
    left. lia.
Qed.

Lemma member_sweep s now : Inv s ->
  member (m_sweep fl s now) = filter (fun p => negb (swept fl now (snd (snd p)))) (member s).
Proof.
  intros (Hk & Hv & Hi). unfold m_sweep; simpl.
  destruct (sweep_parts (fl now) (visit s) Hv) as (Hrm & _ & _). cbv zeta in Hrm.
  rewrite fold_del_filter. apply filter_ext_in. intros [k [v d]] Hin. simpl. f_equal.
  apply Bool.eq_iff_eq_true. rewrite existsb_exists. unfold swept.
  rewrite !andb_true_iff, negb_true_iff, Z.eqb_neq, !Z.leb_le. split.
  - intros ([sc k'] & Hx & Hk'). simpl in Hk'. apply Z.eqb_eq in Hk'. subst k'.
    apply Hrm in Hx as [Hx Hsw]. apply Hi in Hx as (v' & d' & H1 & H2 & H3).
    rewrite (In_m_get _ _ _ Hk Hin) in H1. inversion H1; subst.
    unfold in_sweep in Hsw; simpl in Hsw. apply andb_true_iff in Hsw as [S1 S2].
    apply Z.leb_le in S1, S2. auto.
  - intros [[Hd H0] Hmx]. exists (fl d, k). simpl. rewrite Z.eqb_refl. split; auto.
    apply Hrm. split.
    + apply Hi. exists v, d. split; [now apply In_m_get|auto].
    + unfold in_sweep; simpl. apply andb_true_iff. split; now apply Z.leb_le.
Qed.

Lemma Inv_sweep s now : Inv s -> Inv (m_sweep fl s now).
Proof.
  intros HI. pose proof (member_sweep s now HI) as Hm. destruct HI as (Hk & Hv & Hi).
  destruct (sweep_parts (fl now) (visit s) Hv) as (_ & Hkeep & Hsorted). cbv zeta in Hkeep, Hsorted.
  split; [|split].
  - rewrite Hm. now apply SSorted_filter.
  - exact Hsorted.
  - intros sc k. rewrite Hm. unfold m_sweep at 1; simpl. rewrite Hkeep, (Hi sc k). unfold in_sweep; simpl. split.
    + intros ((v & d & H1 & H2 & H3) & Hns). exists v, d. split; auto.
      rewrite m_get_filter by exact Hk. rewrite H1. simpl.
      unfold swept. subst sc. destruct (Z.eqb_spec d 0); [contradiction|]. simpl. now rewrite Hns.
    + intros (v & d & H1 & H2 & H3). rewrite m_get_filter in H1 by exact Hk.
      destruct (m_get (member s) k) as [[v' d']|] eqn:Eg; [|discriminate]. simpl in H1.
      destruct (swept fl now d') eqn:Esw; simpl in H1; [discriminate|]. inversion H1; subst v' d'.
      split; [exists v, d; auto|]. subst sc. unfold swept in Esw.
      destruct (Z.eqb_spec d 0); [contradiction|]. simpl in Esw. exact Esw.
Qed.

(* ----- load ----- *)
Lemma member_load s data now : member (load_into fl s data now) = s_load (member s) data now.
Proof.
  revert s. unfold load_into, s_load. induction data as [|[k [v d]] t IH]; intros s; simpl; auto.
  destruct (expired now d); rewrite IH; reflexivity.
Qed.

Lemma Inv_load data now : forall s, Inv s -> Inv (load_into fl s data now).
Proof.
  unfold load_into. induction data as [|[k e] t IH]; intros s HI; simpl; auto.
  destruct (expired now (snd e)); apply IH; auto. now apply Inv_set_deadline.
Qed.

(* ---------- sweeps (model level) ---------- *)
Theorem sweep_exact s now k : Inv s ->
  m_get (member (m_sweep fl s now)) k =
  match m_get (member s) k with
  | Some (v, d) => if swept fl now d then None else Some (v, d)
  | None => None
  end.
Proof.
  intros HI. rewrite (member_sweep s now HI). destruct HI as (Hk & _ & _).
  rewrite m_get_filter by exact Hk. destruct (m_get (member s) k) as [[v d]|]; auto. simpl.
  destruct (swept fl now d); reflexivity.
Qed.

Theorem untimed_survive s now k v : Inv s ->
  m_get (member s) k = Some (v, 0) -> m_get (member (m_sweep fl s now)) k = Some (v, 0).
Proof. intros HI H. rewrite sweep_exact by exact HI. rewrite H. reflexivity. Qed.

(* export then load into the empty cache *)
Lemma s_load_sorted now : forall l acc, ksorted (acc ++ l) ->
  s_load acc l now = acc ++ filter (fun p => negb (expired now (snd (snd p)))) l.
Proof.
  unfold s_load. induction l as [|[k [v d]] t IH]; intros acc Hs; simpl.
  - now rewrite app_nil_r.
  - destruct (expired now d) eqn:Ex; simpl.
    + apply IH. eapply ksorted_app_drop; eauto.
    + rewrite m_put_snoc by (eapply ksorted_app_lt; eauto).
      rewrite IH; rewrite <- app_assoc; simpl; auto.
Qed.

Theorem roundtrip s now : Inv s ->
  let s' := load_into fl st0 (member s) now in
  member s' = filter (fun p => negb (expired now (snd (snd p)))) (member s) /\ Inv s'.
Proof.
  intros (Hk & _ & _). cbv zeta. split.
  - rewrite member_load. simpl. now rewrite (s_load_sorted now (member s) []).
  - apply Inv_load. apply Inv_st0.
Qed.
End Inv.

Section Refine.
Variable fl : Z -> Z.
Variable defttl : Z.

(* ---------- refinement ---------- *)
Definition Rel (s : state) (m : smap) : Prop := member s = m /\ Inv fl s.

Lemma step_refines s m now o : Rel s m -> op_wf o ->
  Rel (fst (mstep fl defttl s now o)) (fst (sstep fl defttl m now o))
  /\ snd (mstep fl defttl s now o) = snd (sstep fl defttl m now o).
Proof.
  intros [Hm HI] Hwf. subst m. destruct o as [k v ttl|k v ttl|k v ttl|k|k| | | | |data|data]; simpl.
  - split; auto. split; [reflexivity|now apply Inv_store].
  - unfold m_setifabsent. destruct (m_get (member s) k) eqn:Eg; simpl.
    + split; auto. split; auto.
    + split; auto. split; [reflexivity|].
      apply (Inv_set_deadline_old fl s k (v, new_expire defttl now ttl)); auto.
  - unfold m_replace. destruct (m_get (member s) k) as [[v0 d0]|] eqn:Eg; simpl.
    + destruct (expired now d0); simpl.
      * split; auto. split; [apply member_delete|now apply Inv_delete].
      * split; auto. split; [reflexivity|now apply Inv_store].
    + split; auto. split; auto.
  - split; auto. split; [apply member_delete|now apply Inv_delete].
  - unfold m_get_op. destruct (m_get (member s) k) as [[v0 d0]|] eqn:Eg; simpl.
    + destruct (expired now d0); simpl.
      * split; auto. split; [apply member_delete|now apply Inv_delete].
      * split; auto. split; auto.
    + split; auto. split; auto.
  - split; auto. split; auto.
  - split; auto. split; [reflexivity|apply (Inv_st0 fl)].
  - split; auto. split; [now apply member_sweep|now apply Inv_sweep].
  - split; auto. split; auto.
  - split; auto. split; [apply member_load|]. apply Inv_load. apply (Inv_st0 fl).
  - split; auto. split; [apply member_load|]. now apply Inv_load.
Qed.

Lemma run_refines tops : forall s m, Rel s m -> ops_wf tops ->
  Rel (fst (mrun fl defttl s tops)) (fst (srun fl defttl m tops))
  /\ snd (mrun fl defttl s tops) = snd (srun fl defttl m tops).
Proof.
  induction tops as [|[now o] t IH]; intros s m HR Hwf; simpl; auto.
  inversion Hwf as [|? ? Ho Ht]; subst. simpl in Ho.
  destruct (step_refines s m now o HR Ho) as [HR' Hout].
  destruct (mstep fl defttl s now o) as [s' r]. destruct (sstep fl defttl m now o) as [m' r'].
  simpl in HR', Hout. subst r'.
  destruct (IH s' m' HR' Ht) as [HR'' Houts].
  destruct (mrun fl defttl s' t) as [s'' rs]. destruct (srun fl defttl m' t) as [m'' rs'].
  simpl in *. subst rs'. auto.
Qed.

Theorem refines tops : ops_wf tops ->
  snd (mrun fl defttl st0 tops) = snd (srun fl defttl [] tops).
Proof. intros H. apply run_refines; auto. split; [reflexivity|apply (Inv_st0 fl)]. Qed.

Theorem index_inv tops : ops_wf tops -> Inv fl (fst (mrun fl defttl st0 tops)).
Proof.
  intros H. destruct (run_refines tops st0 [] (conj eq_refl (Inv_st0 fl)) H) as [[_ HI] _]. exact HI.
Qed.

Theorem member_is_spec tops : ops_wf tops ->
  member (fst (mrun fl defttl st0 tops)) = fst (srun fl defttl [] tops).
Proof.
  intros H. destruct (run_refines tops st0 [] (conj eq_refl (Inv_st0 fl)) H) as [[Hm _] _]. exact Hm.
Qed.
End Refine.
