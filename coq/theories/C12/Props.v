(* C12 property theorems. Nothing but statements closed by [exact], one non-vacuity Example, Print Assumptions.
   Model = bcache with repairs D3, D24 and D32 (Model.v); fl = the int64 -> float64 score conversion, f64 its concrete form (spacing 256 for today's UnixNano,
   1024 for deadlines beyond 2^62 in magnitude); deadlines are computed in wrapping int64 arithmetic (wrap64). *)
From VF Require Import Common.Base C12.Model C12.Spec C12.Proofs C12.Proofs2 C12.Interval C12.IntervalProofs
  C12.F64 C12.Race C12.Check C12.Proofs3 C12.DecidedProofs C12.RaceProofs.
From Coq Require Import Sorting.Sorted.
Local Open Scope Z_scope.

(* the implementation model (member map + deadline index) returns, for every operation list and all instants,
   what the index-free reference semantics returns *)
Theorem C12_refines : forall fl defttl tops, ops_wf tops ->
  snd (mrun fl defttl st0 tops) = snd (srun fl defttl [] tops).
Proof. exact refines. Qed.

(* visit and member agree on exactly the timed keys (this is what D24 broke and D3 hid) *)
Theorem C12_index : forall fl defttl tops, ops_wf tops ->
  let s := fst (mrun fl defttl st0 tops) in
  StronglySorted (fun a b => fst a < fst b) (member s) /\
  StronglySorted (fun x y => fst x < fst y \/ (fst x = fst y /\ snd x < snd y)) (visit s) /\
  (forall sc k, In (sc, k) (visit s) <-> exists v d, m_get (member s) k = Some (v, d) /\ d <> 0 /\ sc = fl d).
Proof. exact index_inv. Qed.

(* Get returns the entry last stored and not deleted/cleared since, never past its deadline, showing the
   deadline d when d > 0 and the zero time (0) when d <= 0 (no deadline, or a deadline that WRAPPED negative);
   and it always returns it when d <= 0 or fl now < fl d (resp. now + 1024 < d). For d - 1024 <= now <= d the
   result depends on whether a sweep has run in that window: the sweep compares rounded scores (fl d <= fl now)
   while Get compares now > d. *)
Theorem C12_get_live_generic : forall fl defttl (fl_mono : forall x y, x <= y -> fl x <= fl y)
  (fl_neg : forall x, x < 0 -> fl x < 0) tops now k,
  times_ok (tops ++ [(now, OGet k)]) -> ops_wf tops ->
  let s := fst (mrun fl defttl st0 tops) in
  let h := combine tops (snd (mrun fl defttl st0 tops)) in
  (forall v sd, snd (mstep fl defttl s now (OGet k)) = OutGet (Some (v, sd)) ->
     exists d, last_stored defttl k h = Some (v, d) /\ sd = shown d /\ (d <= 0 \/ now <= d)) /\
  (forall v d, last_stored defttl k h = Some (v, d) -> (d <= 0 \/ fl now < fl d) ->
               snd (mstep fl defttl s now (OGet k)) = OutGet (Some (v, shown d))).
Proof. exact get_live_generic. Qed.

Theorem C12_get_live : forall defttl tops now k,
  times_ok (tops ++ [(now, OGet k)]) -> ops_wf tops ->
  let s := fst (mrun f64 defttl st0 tops) in
  let h := combine tops (snd (mrun f64 defttl st0 tops)) in
  (forall v sd, snd (mstep f64 defttl s now (OGet k)) = OutGet (Some (v, sd)) ->
     exists d, last_stored defttl k h = Some (v, d) /\ sd = shown d /\ (d <= 0 \/ now <= d)) /\
  (forall v d, last_stored defttl k h = Some (v, d) -> (d <= 0 \/ now + 1024 < d) ->
               snd (mstep f64 defttl s now (OGet k)) = OutGet (Some (v, shown d))).
Proof. exact get_live_f64. Qed.

(* int64 overflow of the deadline (observed runtime behaviour of time.Now().Add(d).UnixNano(), modelled by
   wrap64): a TTL with 2^63 <= now + ttl < 2^64 (more than about 235 years today) stores a NEGATIVE deadline;
   such an entry is returned by every Get with the zero time shown, and survives every sweep - it behaves as an
   entry without expiry (which is what the property demands of it for the next centuries anyway). Together with
   C12_get_live (d <= 0 case) it is returned by every later Get until deleted, overwritten or cleared. *)
Theorem C12_wrap_negative : forall defttl now ttl x, eff_ttl defttl ttl = Some x -> 2 ^ 63 <= now + x < 2 ^ 64 ->
  new_expire defttl now ttl = now + x - 2 ^ 64 /\ new_expire defttl now ttl < 0.
Proof. exact wrap_negative. Qed.

Theorem C12_wrapped_never_expires : forall fl (fl_neg : forall x, x < 0 -> fl x < 0) defttl s k v d,
  Inv fl s -> m_get (member s) k = Some (v, d) -> d < 0 ->
  forall now, mstep fl defttl s now (OGet k) = (s, OutGet (Some (v, 0))) /\
              m_get (member (m_sweep fl s now)) k = Some (v, d).
Proof. exact wrapped_never_expires. Qed.

(* an entry without expiry is never removed by a sweep; a sweep removes exactly the timed entries whose
   score lies in [0, fl now] *)
Theorem C12_untimed_survive : forall fl defttl tops now k v, ops_wf tops ->
  let s := fst (mrun fl defttl st0 tops) in
  m_get (member s) k = Some (v, 0) -> m_get (member (m_sweep fl s now)) k = Some (v, 0).
Proof. exact untimed_survive_reachable. Qed.

Theorem C12_sweep_exact : forall fl defttl tops now k, ops_wf tops ->
  let s := fst (mrun fl defttl st0 tops) in
  m_get (member (m_sweep fl s now)) k =
  match m_get (member s) k with
  | Some (v, d) => if negb (d =? 0) && (0 <=? fl d) && (fl d <=? fl now) then None else Some (v, d)
  | None => None
  end.
Proof. exact sweep_exact_reachable. Qed.

(* SetIfAbsent succeeds iff no entry is stored (so only when no live entry exists); Replace iff a live one is *)
Theorem C12_setifabsent : forall fl defttl s now k v ttl,
  let r := mstep fl defttl s now (OSetIfAbsent k v ttl) in
  snd r = OutBool (match m_get (member s) k with None => true | Some _ => false end) /\
  (snd r = OutBool true -> m_get (member (fst r)) k = Some (v, new_expire defttl now ttl)) /\
  (snd r = OutBool false -> fst r = s).
Proof. exact setifabsent_cond. Qed.

Theorem C12_replace : forall fl defttl s now k v ttl,
  let r := mstep fl defttl s now (OReplace k v ttl) in
  snd r = OutBool (match m_get (member s) k with Some (_, d0) => negb (expired now d0) | None => false end) /\
  (snd r = OutBool true -> m_get (member (fst r)) k = Some (v, new_expire defttl now ttl)).
Proof. exact replace_cond. Qed.

(* Count = number of stored entries; after a sweep at [now] every remaining entry has d <= 0 (no deadline, or
   wrapped) or now < d, and nothing with d <= 0 or now + 1024 < d has been removed *)
Theorem C12_count : forall defttl tops now, ops_wf tops ->
  let s := fst (mrun f64 defttl st0 tops) in
  let s' := m_sweep f64 s now in
  snd (mstep f64 defttl s now OCount) = OutCount (length (member s)) /\
  (forall k v d, m_get (member s') k = Some (v, d) -> m_get (member s) k = Some (v, d) /\ (d <= 0 \/ now < d)) /\
  (forall k v d, m_get (member s) k = Some (v, d) -> d <= 0 \/ now + 1024 < d -> m_get (member s') k = Some (v, d)).
Proof. exact count_sweep_f64. Qed.

(* Export, then Clear+Load: exactly the entries not expired at the load instant, with their deadlines,
   and the deadline index rebuilt *)
Theorem C12_roundtrip : forall fl defttl tops, ops_wf tops ->
  let s := fst (mrun fl defttl st0 tops) in
  forall now, snd (mstep fl defttl s now OExport) = OutExport (member s) /\
  forall s0 now',
    let s' := fst (mstep fl defttl s0 now' (ORestore (member s))) in
    member s' = filter (fun p => negb (expired now' (snd (snd p)))) (member s) /\ Inv fl s'.
Proof. exact roundtrip_reachable. Qed.

(* the concrete score conversion (float64 of an int64; checked against the real index dump on every step of
   every run) meets the hypotheses used above *)
Theorem C12_f64_round :
  (forall x y, x <= y -> f64 x <= f64 y) /\
  (forall x, - 1024 <= 2 * (f64 x - x) <= 1024) /\
  (forall x, 0 <= x -> 0 <= f64 x) /\
  (forall x, x < 0 -> f64 x < 0).
Proof. exact f64_round. Qed.

(* no false alarm: observations that the reference semantics can produce for SOME instants inside the
   recorded clock brackets are accepted by the interval checker *)
Theorem C12_admissible_complete : forall defttl tr,
  (exists ts, within tr ts /\ spec_outputs f64 defttl tr ts = observed tr) ->
  admissible_b 1024 defttl tr = true.
Proof. exact admissible_complete_f64. Qed.

(* the evaluated checker reports kind 2 exactly for inadmissible traces *)
Theorem C12_kind2_iff_inadmissible : forall defttl g t0 steps,
  ((check_case (CTrace defttl g t0 steps)) mod 4 = 2)%nat
  <-> admissible_b g defttl (map to_tstep (map (reb_step t0) steps)) = false.
Proof. exact kind2_iff_inadmissible. Qed.

(* detection power on decided traces: if the strict interpretation accepts (no comparison fell inside an
   uncertainty window), the reference semantics gives the observed booleans / hits / misses / values / counts /
   exported keys for EVERY choice of instants inside the brackets (outputs compared up to exact deadline values).
   PARTIAL with respect to DESIGN's admissible_sound_decided: literal equality of outputs is false (an observed
   deadline fixes the instant its store read); see DecidedProofs.v. *)
Theorem C12_decided_sound_partial : forall defttl tr, decided_b 1024 defttl tr = true ->
  forall ts, within tr ts -> Forall2 out_sim (spec_outputs f64 defttl tr ts) (observed tr).
Proof. exact decided_sound_f64. Qed.

(* concurrent race rounds (Race.v): several goroutines on one key whose entry has expired but was not evicted,
   getters and writers released together, nothing deletes, nothing stored can expire. No false alarm: whenever
   SOME linearisation of the round's calls (Get / Set / SetIfAbsent / Replace on the key and SWEEPS, any order,
   instants inside the stores' clock brackets; nothing stored in the round expires or falls due), run through
   the reference semantics, returns what the calls returned and makes the epilogue Get return [final], the
   checker accepts; and it does not depend on the order in which stores and gets are listed. *)
Theorem C12_race_complete : forall fl defttl k T lin m te final,
  ksorted m ->
  (m_get m k = None \/ exists v d, m_get m k = Some (v, d) /\ forall t, In t T -> expired t d = true) ->
  Forall (wf_ev k) lin -> Forall (keeps_ev fl defttl T) lin -> Forall (fun x => In (snd x) T) lin -> In te T ->
  let run := srun fl defttl m (map (fun x => (snd x, ev_op k (fst x))) lin) in
  snd run = map (fun x => ev_out (fst x)) lin ->
  snd (sstep fl defttl (fst run) te (OGet k)) = OutGet final ->
  race_ok defttl (stores_of lin) (gets_of lin) final = true.
Proof. exact race_complete. Qed.

Theorem C12_race_ok_perm : forall defttl stores stores' gets gets' final,
  Permutation stores stores' -> Permutation gets gets' ->
  race_ok defttl stores gets final = race_ok defttl stores' gets' final.
Proof. exact race_ok_perm. Qed.

(* non-vacuity of the race theorem: Get (evicts the expired old entry), SetIfAbsent (true), Get (hit),
   Replace (true), Set untimed, Get; epilogue hit; and the seeded behaviour (epilogue miss after an
   unconditional store) is rejected *)
Example C12_nonvacuous_race :
  let s1 := {| r_op := OSetIfAbsent 7 11 10000000; r_a := 2000; r_b := 2010; r_ok := true |} in
  let s2 := {| r_op := OReplace 7 12 (-1); r_a := 2001; r_b := 2020; r_ok := true |} in
  let s3 := {| r_op := OSet 7 13 (-1); r_a := 2002; r_b := 2030; r_ok := true |} in
  let lin := [(ESweep, 2000); (EGet None, 2001); (EStore s1, 2005); (EGet (Some (11, 10002005)), 2006); (ESweep, 2007);
              (EStore s2, 2010); (EStore s3, 2011); (EGet (Some (13, 0)), 2012); (ESweep, 2013)] in
  let m := [(7, (-8, 1500))] in
  let run := srun f64 0 m (map (fun x => (snd x, ev_op 7 (fst x))) lin) in
  snd run = map (fun x => ev_out (fst x)) lin /\
  snd (sstep f64 0 (fst run) 2100 (OGet 7)) = OutGet (Some (13, 0)) /\
  race_ok 0 (stores_of lin) (gets_of lin) (Some (13, 0)) = true /\
  race_ok 0 (stores_of lin) (gets_of lin) None = false /\
  race_ok 0 (stores_of lin) (gets_of lin) (Some (-8, 1500)) = false.
Proof. vm_compute. repeat split; reflexivity. Qed.

(* non-vacuity: a timed set, an untimed re-set of the same key, a sweep past the old deadline, gets *)
Example C12_nonvacuous :
  let tops := [(1000, OSet 1 10 40); (1010, OSet 1 11 (-1)); (2000, OSweep); (2010, OGet 1);
               (2020, OSetIfAbsent 2 12 0); (2030, OCount); (3000, OGet 2); (3010, OSweep); (3020, OExport);
               (3030, OSet 3 13 40); (3040, OLoad [(3, (14, 0)); (4, (15, 3000)); (5, (16, 9000))]);
               (4000, OSweep); (4010, OGet 3); (4020, OExport)] in
  times_ok tops /\ ops_wf tops /\
  snd (mrun f64 40 st0 tops)
  = [OutUnit; OutUnit; OutUnit; OutGet (Some (11, 0)); OutBool true; OutCount 2; OutGet None; OutUnit;
     OutExport [(1, (11, 0))]; OutUnit; OutUnit; OutUnit; OutGet (Some (14, 0));
     OutExport [(1, (11, 0)); (3, (14, 0)); (5, (16, 9000))]].
Proof.
  cbv zeta. split; [split|split].
  - repeat constructor.
  - simpl. lia.
  - repeat constructor; simpl; try lia; intuition lia.
  - vm_compute. reflexivity.
Qed.

(* non-vacuity for cache configurations without a positive default expiry (NoExpire = -1, other negatives, 0):
   the DefaultExpire TTL kind (Set(k,v,0), SetDefault = OSet k v defttl, SetIfAbsent/Replace(...,0)) stores
   WITHOUT expiry and the entry survives sweeps; all theorems above quantify over every defttl : Z *)
Example C12_nonvacuous_nonpositive_default :
  let tops d := [(1000, OSet 1 10 0); (1010, OSet 2 11 d); (1020, OSetIfAbsent 3 12 0); (1030, OSet 4 13 40);
                 (1040, OReplace 4 14 0); (5000, OSweep); (5010, OExport)] in
  forall d, In d [-1; -5000000; 0] ->
  snd (mrun f64 d st0 (tops d))
  = [OutUnit; OutUnit; OutBool true; OutUnit; OutBool true; OutUnit;
     OutExport [(1, (10, 0)); (2, (11, 0)); (3, (12, 0)); (4, (14, 0))]].
Proof.
  cbv zeta. intros d [<-|[<-|[<-|[]]]]; vm_compute; reflexivity.
Qed.

(* non-vacuity for wrapped deadlines, with the numbers observed on the real code: at now = 1790830761457470176
   a Set with ttl = MaxInt64 stores Expire = -7432541275397305633 (index score rounded to a multiple of 1024);
   the entry survives sweeps, Get shows the zero time, Export shows the negative deadline, and it can be
   replaced; a SetDefault on a cache whose default is 250 years wraps as well *)
Example C12_nonvacuous_wrapped :
  let t0 := 1790830761457470176 in
  let r := mrun f64 7884000000000000000 st0
             [(t0, OSet 1 10 9223372036854775807); (t0 + 1000, OSet 2 11 0); (t0 + 2000, OSweep);
              (t0 + 3000, OGet 1); (t0 + 4000, OExport); (t0 + 5000, OReplace 1 12 40000);
              (t0 + 6000, OGet 1); (t0 + 90000, OSweep); (t0 + 91000, OCount)] in
  snd r = [OutUnit; OutUnit; OutUnit; OutGet (Some (10, 0));
           OutExport [(1, (10, -7432541275397305633)); (2, (11, t0 + 1000 + 7884000000000000000 - 2 ^ 64))];
           OutBool true; OutGet (Some (12, t0 + 45000)); OutUnit; OutCount 1]
  /\ visit (fst r) = [(f64 (t0 + 1000 + 7884000000000000000 - 2 ^ 64), 2)].
Proof. vm_compute. split; reflexivity. Qed.

(* Load onto an arbitrary cache (D32 repaired): every key of the data whose entry is not expired at the load
   instant holds exactly the loaded (value, deadline), every other key is unchanged, and the index invariant
   is kept (so C12_untimed_survive / C12_sweep_exact apply to loaded entries as to any other) *)
Theorem C12_load : forall fl defttl s (data : list (Z * entry)) now, Inv fl s -> NoDup (map fst data) ->
  let s' := fst (mstep fl defttl s now (OLoad data)) in
  Inv fl s' /\
  forall k, m_get (member s') k = match m_get data k with
                                  | Some (v, d) => if expired now d then m_get (member s) k else Some (v, d)
                                  | None => m_get (member s) k
                                  end.
Proof. exact load_any. Qed.

(* Load judges every decoded entry at its own clock reading; the abstract Load of the interval checker
   concretises every such outcome *)
Theorem C12_load_multi_instant : forall a b data ts abs conc,
  G abs conc -> length ts = length data -> Forall (fun t => a <= t <= b) ts ->
  G (aload a b data abs) (load_multi ts conc data).
Proof. exact aload_covers_multi_instant. Qed.

(* the setDeadline of the code BEFORE repair 0041 (D32), kept as m_set_deadline_old: Load over a key that holds
   a timed entry leaves the old deadline in the index, and the next sweep past it deletes the entry that was
   loaded WITHOUT expiry (replayed on the real code: findings/D32-bcache-load-keeps-stale-deadline.json) *)
Example C12_load_old_refuted :
  let fl := f64 in
  let s := fst (mrun fl 0 st0 [(1000, OSet 1 10 40)]) in
  let s1 := load_into_old fl s [(1, (11, 0))] 1001 in
  let s2 := load_into fl s [(1, (11, 0))] 1001 in
  m_get (member s1) 1 = Some (11, 0) /\ m_get (member (m_sweep fl s1 2000)) 1 = None /\
  m_get (member (m_sweep fl s2 2000)) 1 = Some (11, 0).
Proof. vm_compute. repeat split; reflexivity. Qed.

(* non-vacuity of the interval theorems: a recorded trace that is admissible and decided *)
Example C12_nonvacuous_trace :
  let tr := [ {| t_op := OSet 1 10 40; t_a := 1000; t_b := 1002; t_out := OutUnit |};
              {| t_op := OGet 1; t_a := 1010; t_b := 1012; t_out := OutGet (Some (10, 1041)) |};
              {| t_op := OSet 2 11 (-1); t_a := 1020; t_b := 1022; t_out := OutUnit |};
              {| t_op := OSweep; t_a := 2000; t_b := 2002; t_out := OutUnit |};
              {| t_op := OCount; t_a := 2010; t_b := 2012; t_out := OutCount 1 |};
              {| t_op := OGet 1; t_a := 2020; t_b := 2022; t_out := OutGet None |};
              {| t_op := OExport; t_a := 2030; t_b := 2032; t_out := OutExport [(2, (11, 0))] |};
              {| t_op := OSet 3 12 40; t_a := 2040; t_b := 2042; t_out := OutUnit |};
              {| t_op := OLoad [(3, (13, 0)); (4, (14, 1500))]; t_a := 2050; t_b := 2052; t_out := OutUnit |};
              {| t_op := OSweep; t_a := 3000; t_b := 3002; t_out := OutUnit |};
              {| t_op := OGet 3; t_a := 3010; t_b := 3012; t_out := OutGet (Some (13, 0)) |} ] in
  trace_wf tr /\ admissible_b 1024 0 tr = true /\ decided_b 1024 0 tr = true /\
  within tr [1001; 1011; 1021; 2001; 2011; 2021; 2031; 2041; 2051; 3001; 3011] /\
  spec_outputs f64 0 tr [1001; 1011; 1021; 2001; 2011; 2021; 2031; 2041; 2051; 3001; 3011] = observed tr.
Proof.
  cbv zeta. split; [repeat constructor; simpl; try lia; intuition lia|].
  split; [vm_compute; reflexivity|]. split; [vm_compute; reflexivity|].
  split; [repeat constructor; simpl; lia|vm_compute; reflexivity].
Qed.

Print Assumptions C12_refines.
Print Assumptions C12_index.
Print Assumptions C12_get_live_generic.
Print Assumptions C12_get_live.
Print Assumptions C12_untimed_survive.
Print Assumptions C12_sweep_exact.
Print Assumptions C12_setifabsent.
Print Assumptions C12_replace.
Print Assumptions C12_count.
Print Assumptions C12_roundtrip.
Print Assumptions C12_load.
Print Assumptions C12_load_multi_instant.
Print Assumptions C12_f64_round.
Print Assumptions C12_wrap_negative.
Print Assumptions C12_wrapped_never_expires.
Print Assumptions C12_admissible_complete.
Print Assumptions C12_kind2_iff_inadmissible.
Print Assumptions C12_decided_sound_partial.
Print Assumptions C12_race_complete.
Print Assumptions C12_race_ok_perm.
