(* C02: the dump of a model tree under the pointer layout can be rebuilt, and passes the parent-link check. *)
From VF Require Import Common.Base C01.BinTree C02.Dump.

Section BinDumpProofs.
Context {K V A : Type}.
Variable keqb : K -> K -> bool.
Hypothesis keqb_refl : forall k, keqb k k = true.

Lemma layout_length p (t : BinTree.tree K V A) : length (layout p t) = count t.
Proof.
  revert p. induction t as [|a l IHl k v r IHr]; intros p; simpl; [reflexivity|].
  rewrite app_length, IHl, IHr. reflexivity.
Qed.

Lemma parse_layout (t : BinTree.tree K V A) : forall p rest fuel,
  t <> E -> count t <= fuel -> parse fuel (layout p t ++ rest) = Some (erase t, rest).
Proof.
  induction t as [|a l IHl k v r IHr]; intros p rest fuel Hne Hf; [congruence|].
  destruct fuel as [|f]; [simpl in Hf; lia|]. simpl in Hf.
  cbn [layout app parse bn_l bn_r bn_ann bn_key]. rewrite <- app_assoc.
  assert (Hl : (if negb (isE l) then parse f (layout (Some k) l ++ layout (Some k) r ++ rest)
                else Some (E, layout (Some k) l ++ layout (Some k) r ++ rest))
               = Some (erase l, layout (Some k) r ++ rest)).
  { destruct l as [|la ll lk lv lr]; [reflexivity|]. cbn [isE negb].
    apply IHl; [discriminate|lia]. }
  rewrite Hl.
  assert (Hr : (if negb (isE r) then parse f (layout (Some k) r ++ rest) else Some (E, layout (Some k) r ++ rest))
               = Some (erase r, rest)).
  { destruct r as [|ra rl rk rv rr]; [reflexivity|]. cbn [isE negb].
    apply IHr; [discriminate|lia]. }
  rewrite Hr. reflexivity.
Qed.

Theorem rebuild_layout (t : BinTree.tree K V A) : rebuild (layout None t) = Some (erase t).
Proof.
  destruct t as [|a l k v r]; [reflexivity|].
  unfold rebuild. remember (layout None (T a l k v r)) as d eqn:Hd.
  destruct d as [|n d']; [discriminate|]. rewrite Hd.
  rewrite <- (app_nil_r (layout None (T a l k v r))) at 2.
  rewrite parse_layout; [reflexivity|discriminate|]. rewrite layout_length. lia.
Qed.

Lemma layout_erase_parents p (t : BinTree.tree K V A) :
  map bn_parent (layout p (erase t)) = map bn_parent (layout p t).
Proof.
  revert p. induction t as [|a l IHl k v r IHr]; intros p; simpl; [reflexivity|].
  rewrite !map_app, IHl, IHr. reflexivity.
Qed.

Lemma list_eqb_refl {X} (eqb : X -> X -> bool) (l : list X) : (forall x, eqb x x = true) -> list_eqb eqb l l = true.
Proof. intros H. induction l as [|x l IH]; simpl; [reflexivity|]. now rewrite H, IH. Qed.

(* every child's parent link points to its actual parent in any dump that is the image of a model tree *)
Theorem parent_ok (t : BinTree.tree K V A) : parent_ok_b keqb (layout None t) = true.
Proof.
  unfold parent_ok_b. rewrite rebuild_layout, layout_erase_parents.
  apply list_eqb_refl. intros [x|]; simpl; auto.
Qed.

(* the rebuilt tree has the shape, keys and annotations of the dumped one *)
Lemma elements_erase (t : BinTree.tree K V A) : map fst (elements (erase t)) = map fst (elements t).
Proof.
  induction t as [|a l IHl k v r IHr]; simpl; [reflexivity|].
  rewrite !map_app. simpl. now rewrite IHl, IHr.
Qed.
End BinDumpProofs.

(* ---------------- B-tree dumps ---------------- *)
Section BTDumpProofs.
Context {K V : Type}.
Variable keqb : K -> K -> bool.
Hypothesis keqb_refl : forall k, keqb k k = true.
Notation node := (BTree.node K V).

Lemma nheight_child (c : node) cs : In c cs -> nheight c <= list_max (map nheight cs).
Proof.
  intros Hin. assert (H : list_max (map nheight cs) <= list_max (map nheight cs)) by lia.
  apply list_max_le in H. rewrite Forall_forall in H. apply H. now apply in_map.
Qed.

Lemma parse_kids_layout pb p (cs : list node) rest :
  (forall c rest', In c cs -> pb (layout_bt p c ++ rest') = Some (erase_bt c, rest')) ->
  parse_kids pb (length cs) (flat_map (layout_bt p) cs ++ rest) = Some (map erase_bt cs, rest).
Proof.
  induction cs as [|c cs IH]; intros H; [reflexivity|].
  cbn [length flat_map parse_kids map]. rewrite <- app_assoc. rewrite H by (left; reflexivity).
  rewrite IH; [reflexivity|]. intros c' r' Hin. apply H. now right.
Qed.

Lemma parse_layout_bt n : forall (t : node) p rest fuel,
  nheight t <= n -> n <= fuel -> parse_bt fuel (layout_bt p t ++ rest) = Some (erase_bt t, rest).
Proof.
  induction n as [|n IH]; intros [es cs] p rest fuel Hh Hf; [simpl in Hh; lia|].
  destruct fuel as [|f]; [lia|]. cbn [nheight] in Hh.
  cbn [layout_bt app parse_bt mn_nch mn_keys].
  rewrite parse_kids_layout.
  - cbn [erase_bt]. rewrite map_map. reflexivity.
  - intros c r' Hin. apply IH; [|lia]. pose proof (nheight_child c cs Hin). lia.
Qed.

Lemma flat_map_length_in {X Y} (f : X -> list Y) c cs : In c cs -> length (f c) <= length (flat_map f cs).
Proof.
  induction cs as [|a cs IHc]; intros Hin; [destruct Hin|].
  cbn [flat_map]. rewrite app_length. destruct Hin as [->|Hin]; [lia|]. specialize (IHc Hin). lia.
Qed.

Lemma layout_bt_length_aux m : forall (t : node) q, nheight t <= m -> nheight t <= length (layout_bt q t).
Proof.
  induction m as [|m IHm]; intros [es cs] q Hm; [simpl in Hm; lia|].
  cbn [nheight] in Hm. cbn [nheight layout_bt length].
  assert (H : list_max (map nheight cs) <= length (flat_map (layout_bt (hd_error (map fst es))) cs)); [|lia].
  apply list_max_le. apply Forall_forall. intros x Hx. apply in_map_iff in Hx. destruct Hx as (c & <- & Hin).
  transitivity (length (layout_bt (hd_error (map fst es)) c)).
  - apply IHm. pose proof (nheight_child c cs Hin). lia.
  - now apply flat_map_length_in.
Qed.

Lemma layout_bt_length p (t : node) : nheight t <= length (layout_bt p t).
Proof. apply (layout_bt_length_aux (nheight t)). lia. Qed.

Theorem rebuild_layout_bt (t : node) : rebuild_bt (layout_bt None t) = Some (Some (erase_bt t)).
Proof.
  unfold rebuild_bt. destruct (layout_bt None t) as [|n d] eqn:E; [destruct t; discriminate|].
  rewrite <- E. rewrite <- (app_nil_r (layout_bt None t)) at 2.
  rewrite (parse_layout_bt (nheight t)); [reflexivity|lia|apply layout_bt_length].
Qed.

Lemma layout_erase_bt_parents n : forall (t : node) p, nheight t <= n ->
  map mn_parent (layout_bt p (erase_bt t)) = map mn_parent (layout_bt p t).
Proof.
  induction n as [|n IH]; intros [es cs] p Hh; [simpl in Hh; lia|].
  cbn [nheight] in Hh. cbn [erase_bt layout_bt map mn_parent]. f_equal.
  assert (Hhd : hd_error (map fst (map (fun e : K * V => (fst e, tt)) es)) = hd_error (map fst es))
    by (destruct es; reflexivity).
  rewrite Hhd. generalize (hd_error (map fst es)). intros q.
  assert (Hcs : forall c, In c cs -> nheight c <= n) by (intros c Hin; pose proof (nheight_child c cs Hin); lia).
  clear Hh Hhd. induction cs as [|c cs IHc]; [reflexivity|].
  cbn [map flat_map]. rewrite !map_app. rewrite IH by (apply Hcs; left; reflexivity).
  rewrite IHc; [reflexivity|]. intros c' Hin. apply Hcs. now right.
Qed.

Theorem parent_ok_bt (t : node) : parent_ok_bt_b keqb (layout_bt None t) = true.
Proof.
  unfold parent_ok_bt_b. rewrite rebuild_layout_bt.
  rewrite (layout_erase_bt_parents (nheight t)) by lia.
  apply list_eqb_refl. intros [x|]; simpl; auto.
Qed.
End BTDumpProofs.
