(* C02: the shape invariants of the three balanced trees as Props, and their boolean twins (evaluated by
   the correspondence check on the implementation's own dumps; proved equivalent in *Proofs.v).
   Definitions only. *)
From VF Require Import Common.Base C01.SortedMap C01.BinTree C01.RB C01.AVL C01.BTree.
Local Open Scope Z_scope.

(* ---------------- red-black ---------------- *)
Section RBInv.
Variables K V : Type.
Variable cmp : K -> K -> Z.
Notation tree := (RB.tree K V).

(* [rbt n t]: no red node has a red child and every path to a leaf crosses n black nodes *)
Inductive rbt : nat -> tree -> Prop :=
| RB_E : rbt 0 E
| RB_R n l k v r : is_red K V l = false -> is_red K V r = false -> rbt n l -> rbt n r -> rbt n (T R l k v r)
| RB_B n l k v r : rbt n l -> rbt n r -> rbt (S n) (T B l k v r).

Definition RBShape (t : tree) : Prop := exists n, rbt n t /\ is_red K V t = false.

Definition RBInv (s : RB.state K V) : Prop :=
  RBShape (RB.root s)                                          (* black root, no red-red, equal black height *)
  /\ sorted K V cmp (BinTree.elements (RB.root s))                     (* search-tree order *)
  /\ RB.size s = Z.of_nat (length (BinTree.elements (RB.root s))).        (* cached size = number of stored keys *)

(* black height, if the colour rules hold *)
Fixpoint bh_b (t : tree) : option nat :=
  match t with
  | E => Some O
  | T c l _ _ r =>
    match bh_b l, bh_b r with
    | Some a, Some b =>
      if Nat.eqb a b then
        match c with
        | B => Some (S a)
        | R => if is_red K V l || is_red K V r then None else Some a
        end
      else None
    | _, _ => None
    end
  end.
Definition rb_shape_b (t : tree) : bool :=
  negb (is_red K V t) && match bh_b t with Some _ => true | None => false end.
Definition rb_inv_b (s : RB.state K V) : bool :=
  rb_shape_b (RB.root s) && sorted_b K V cmp (BinTree.elements (RB.root s))
  && (RB.size s =? Z.of_nat (length (BinTree.elements (RB.root s)))).
End RBInv.

(* ---------------- AVL ---------------- *)
Section AVLInv.
Variables K V : Type.
Variable cmp : K -> K -> Z.
Notation tree := (AVL.tree K V).

Fixpoint zheight (t : tree) : Z :=
  match t with E => 0 | T _ l _ _ r => 1 + Z.max (zheight l) (zheight r) end.
(* every stored balance factor is the true height difference and lies in {-1, 0, 1} *)
Fixpoint avl_ok (t : tree) : Prop :=
  match t with
  | E => True
  | T b l _ _ r => avl_ok l /\ avl_ok r /\ b = zheight r - zheight l /\ -1 <= b <= 1
  end.
Definition AVLInv (s : AVL.state K V) : Prop :=
  avl_ok (AVL.root s) /\ sorted K V cmp (BinTree.elements (AVL.root s))
  /\ AVL.size s = Z.of_nat (length (BinTree.elements (AVL.root s))).

Fixpoint avl_ok_b (t : tree) : bool :=
  match t with
  | E => true
  | T b l _ _ r => avl_ok_b l && avl_ok_b r && (b =? zheight r - zheight l) && (-1 <=? b) && (b <=? 1)
  end.
Definition avl_inv_b (s : AVL.state K V) : bool :=
  avl_ok_b (AVL.root s) && sorted_b K V cmp (BinTree.elements (AVL.root s))
  && (AVL.size s =? Z.of_nat (length (BinTree.elements (AVL.root s)))).
End AVLInv.

(* ---------------- B-tree of order m ---------------- *)
Section BTInv.
Variables K V : Type.
Variable cmp : K -> K -> Z.
Variable m : nat.
Notation node := (BTree.node K V).

(* [wf lo d t]: all leaves at depth d; this node has between lo and m-1 entries, every node below it
   between ceil(m/2)-1 and m-1; a node with k entries has 0 (leaf) or k+1 children *)
Fixpoint wf (lo : nat) (d : nat) (t : node) : Prop :=
  let '(Node es cs) := t in
  (lo <= length es)%nat /\ (length es <= maxE m)%nat /\
  match d with
  | O => cs = []
  | S d' => length cs = S (length es) /\ Forall (wf (minE m) d') cs
  end.

Fixpoint entries_count (t : node) : nat :=
  let '(Node es cs) := t in
  (length es + (fix go (cs : list node) : nat := match cs with [] => O | c :: cs' => entries_count c + go cs' end) cs)%nat.

Definition BTShape (r : option node) : Prop :=
  match r with None => True | Some t => exists d, wf 1 d t end.

Definition bt_elements (r : option node) : list (K * V) :=
  match r with None => [] | Some t => BTree.elements K V t end.

Definition BTInv (s : BTree.state K V) : Prop :=
  BTree.stuck s = false
  /\ BTShape (BTree.root s)                                       (* one leaf depth, entry bounds (root >= 1), child counts *)
  /\ sorted K V cmp (bt_elements (BTree.root s))                  (* entries sorted and separating the children *)
  /\ BTree.size s = Z.of_nat (length (bt_elements (BTree.root s))).

Fixpoint wf_b (lo : nat) (d : nat) (t : node) : bool :=
  let '(Node es cs) := t in
  (lo <=? length es)%nat && (length es <=? maxE m)%nat &&
  match d with
  | O => match cs with [] => true | _ => false end
  | S d' => Nat.eqb (length cs) (S (length es)) && forallb (wf_b (minE m) d') cs
  end.
Definition bt_shape_b (r : option node) : bool :=
  match r with None => true | Some t => wf_b 1 (depth K V t) t end.
Definition bt_inv_b (s : BTree.state K V) : bool :=
  negb (BTree.stuck s) && bt_shape_b (BTree.root s) && sorted_b K V cmp (bt_elements (BTree.root s))
  && (BTree.size s =? Z.of_nat (length (bt_elements (BTree.root s)))).
End BTInv.
