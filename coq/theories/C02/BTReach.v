(* C02, B-tree of any order m >= 3: the full invariant holds in every reachable state (for every operation
   list, including the calls the B-tree does not support, which leave it unchanged); boolean twin. *)
From VF Require Import Common.Base C01.Order C01.SortedMap C01.SpecProofs C01.BTree C02.Inv C02.BTProofs C01.BTProofs.
Local Open Scope Z_scope.

Section BTReach.
Context {K V : Type} {cmp : K -> K -> Z} (O : CmpLaws cmp).
Variable zeroV : V.
Variable m : nat.
Hypothesis m_ge_3 : (3 <= m)%nat.

Definition Related (s : BTree.state K V) : Prop := exists l, Rbt (cmp := cmp) m s l.

Lemma step_unsupported s o : ~ bt_op o -> fst (BTree.step K V cmp zeroV m s o) = s.
Proof.
  intros H. unfold BTree.step. destruct (BTree.stuck s); [reflexivity|].
  destruct o; simpl in H; try tauto; reflexivity.
Qed.

Lemma bt_op_dec (o : op K V) : {bt_op o} + {~ bt_op o}.
Proof. destruct o; simpl; auto. Qed.

Lemma step_related s o : Related s -> Related (fst (BTree.step K V cmp zeroV m s o)).
Proof.
  intros [l HR]. destruct (bt_op_dec o) as [Ho|Ho].
  - eexists. exact (proj1 (bt_step_refines O zeroV m m_ge_3 s l o Ho HR)).
  - rewrite step_unsupported by exact Ho. now exists l.
Qed.

Theorem bt_reachable_inv_all ops :
  BTInv K V cmp m (fst (run (BTree.step K V cmp zeroV m) (BTree.empty K V) ops)).
Proof.
  assert (H : Related (fst (run (BTree.step K V cmp zeroV m) (BTree.empty K V) ops))).
  { apply run_invariant; [intros; now apply step_related|]. exists []. apply (Rbt_empty (cmp := cmp) m). }
  destruct H as (l & (Hst & Hsh) & HS & He & Hsz). unfold BTInv. rewrite He. auto.
Qed.

Theorem bt_inv_b_ok s : bt_inv_b K V cmp m s = true <-> BTInv K V cmp m s.
Proof.
  unfold bt_inv_b, BTInv. rewrite !andb_true_iff, negb_true_iff, (bt_shape_b_ok K V m), (sorted_b_ok O), Z.eqb_eq. tauto.
Qed.
End BTReach.
