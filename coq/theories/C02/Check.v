(* C02 correspondence checker. After every Put/Remove the harness dumps the REAL tree in pre-order
   (key, colour | balance factor | node entries, children, parent key) and reports Size(). Coq
   (kind 1) compares the dump with the pointer layout of the model tree exactly, and
   (kind 2) rebuilds a tree from the dump alone and evaluates the invariant's boolean twin, the
   parent-link check and the size check on it.
   Flat encodings (lists of Z, to keep the case files small):
     binary node  = [key; hasLeft + 2*hasRight + 4*hasParent + 8*a; parentKey or 0]
                    a = 1 black / 0 red (red-black), a = b + 128 (AVL balance factor b)
     B-tree node  = [nKeys; nChildren; hasParent; parent's first key or 0; key_1 .. key_n]           *)
From VF Require Import Common.Base C01.Order C01.CmpSel C01.SortedMap C01.BinTree C01.RB C01.AVL C01.BTree C02.Inv C02.Dump.
Local Open Scope Z_scope.

Inductive kind := KRB | KAVL | KBT (m : nat).
Inductive mstate := MRB (s : RB.state Z Z) | MAVL (s : AVL.state Z Z) | MBT (m : nat) (s : BTree.state Z Z).

Definition init_m (k : kind) : mstate :=
  match k with KRB => MRB (RB.empty Z Z) | KAVL => MAVL (AVL.empty Z Z) | KBT m => MBT m (BTree.empty Z Z) end.

Definition model_step (zc : Z -> Z -> Z) (st : mstate) (o : op Z Z) : mstate * out Z Z :=
  match st with
  | MRB s => let '(s', r) := RB.step Z Z zc 0 s o in (MRB s', r)
  | MAVL s => let '(s', r) := AVL.step Z Z zc 0 s o in (MAVL s', r)
  | MBT m s => let '(s', r) := BTree.step Z Z zc 0 m s o in (MBT m s', r)
  end.

Definition b2z (b : bool) : Z := if b then 1 else 0.
Definition col2z (c : color) : Z := match c with B => 1 | R => 0 end.

(* ---------- encoding the model's layout ---------- *)
Definition enc_bnode {A} (annz : A -> Z) (n : bnode Z A) : list Z :=
  [bn_key n;
   b2z (bn_l n) + 2 * b2z (bn_r n) + 4 * (match bn_parent n with Some _ => 1 | None => 0 end) + 8 * annz (bn_ann n);
   match bn_parent n with Some p => p | None => 0 end].
Definition enc_bin {A} (annz : A -> Z) (d : list (bnode Z A)) : list Z := flat_map (enc_bnode annz) d.

Definition enc_mnode (n : mnode Z) : list Z :=
  Z.of_nat (length (mn_keys n)) :: Z.of_nat (mn_nch n)
  :: (match mn_parent n with Some _ => 1 | None => 0 end)
  :: (match mn_parent n with Some p => p | None => 0 end) :: mn_keys n.
Definition enc_bt (d : list (mnode Z)) : list Z := flat_map enc_mnode d.

Definition model_dump (st : mstate) : list Z * Z * bool :=      (* dump, size, model is not stuck *)
  match st with
  | MRB s => (enc_bin col2z (layout None (RB.root s)), RB.size s, true)
  | MAVL s => (enc_bin (fun b => b + 128) (layout None (AVL.root s)), AVL.size s, true)
  | MBT _ s => (match BTree.root s with Some r => enc_bt (layout_bt None r) | None => [] end,
                BTree.size s, negb (BTree.stuck s))
  end.

(* ---------- decoding a recorded dump ---------- *)
Fixpoint dec_bin (fuel : nat) (l : list Z) : option (list (bnode Z Z)) :=
  match fuel with
  | O => None
  | S f =>
    match l with
    | [] => Some []
    | k :: c :: p :: l' =>
      match dec_bin f l' with
      | Some d => Some (mkB k (c / 8) (Z.odd c) (Z.odd (c / 2)) (if Z.odd (c / 4) then Some p else None) :: d)
      | None => None
      end
    | _ => None
    end
  end.

Fixpoint dec_bt (fuel : nat) (l : list Z) : option (list (mnode Z)) :=
  match fuel with
  | O => None
  | S f =>
    match l with
    | [] => Some []
    | nk :: nc :: hp :: p :: l' =>
      let n := Z.to_nat nk in
      if (0 <=? nk) && (0 <=? nc) && (n <=? length l')%nat then
        match dec_bt f (skipn n l') with
        | Some d => Some (mkM (firstn n l') (Z.to_nat nc) (if hp =? 1 then Some p else None) :: d)
        | None => None
        end
      else None
    | _ => None
    end
  end.

Fixpoint map_ann {K V A A'} (f : A -> option A') (t : BinTree.tree K V A) : option (BinTree.tree K V A') :=
  match t with
  | E => Some E
  | T a l k v r =>
    match f a, map_ann f l, map_ann f r with
    | Some a', Some l', Some r' => Some (T a' l' k v r')
    | _, _, _ => None
    end
  end.

(* the property, evaluated on the implementation's dump alone *)
Definition prop_holds (zc : Z -> Z -> Z) (k : kind) (l : list Z) (sz : Z) : bool :=
  match k with
  | KRB =>
    match dec_bin (S (length l)) l with
    | Some d =>
      match rebuild d with
      | Some t =>
        match map_ann (fun a => if a =? 1 then Some B else if a =? 0 then Some R else None) t with
        | Some t' => rb_inv_b Z unit zc (RB.mkState t' sz) && parent_ok_b Z.eqb d
        | None => false
        end
      | None => false
      end
    | None => false
    end
  | KAVL =>
    match dec_bin (S (length l)) l with
    | Some d =>
      match rebuild d with
      | Some t =>
        match map_ann (fun a => Some (a - 128)) t with
        | Some t' => avl_inv_b Z unit zc (AVL.mkState t' sz) && parent_ok_b Z.eqb d
        | None => false
        end
      | None => false
      end
    | None => false
    end
  | KBT m =>
    match dec_bt (S (length l)) l with
    | Some d =>
      match rebuild_bt d with
      | Some r => bt_inv_b Z unit zc m (BTree.mkState r sz false) && parent_ok_bt_b Z.eqb d
      | None => false
      end
    | None => false
    end
  end.

(* number of keys stored in a recorded dump (None: undecodable) *)
Definition dump_keys (k : kind) (l : list Z) : option Z :=
  match k with
  | KRB | KAVL => match dec_bin (S (length l)) l with Some d => Some (Z.of_nat (length d)) | None => None end
  | KBT _ => match dec_bt (S (length l)) l with
             | Some d => Some (Z.of_nat (length (flat_map (@mn_keys Z) d)))
             | None => None
             end
  end.

(* Size(), Empty() and len(Keys()) reported by the implementation agree with the number of keys in ITS OWN dump *)
Definition counts_hold (k : kind) (l : list Z) (sz : Z) (emp : bool) (nkeys : Z) : bool :=
  match dump_keys k l with
  | Some n => (sz =? n) && Bool.eqb emp (n =? 0) && (nkeys =? n)
  | None => false
  end.

Definition zl_eqb := list_eqb Z.eqb.
Definition model_keys (st : mstate) : Z :=
  match st with
  | MRB s => Z.of_nat (length (BinTree.elements (RB.root s)))
  | MAVL s => Z.of_nat (length (BinTree.elements (AVL.root s)))
  | MBT _ s => Z.of_nat (length (bt_elements Z Z (BTree.root s)))
  end.
Definition model_agrees (st : mstate) (l : list Z) (sz : Z) (emp : bool) (nkeys : Z) : bool :=
  let '(d, msz, ok) := model_dump st in
  ok && zl_eqb d l && (msz =? sz) && Bool.eqb emp (msz =? 0) && (nkeys =? model_keys st).

(* c_path is replayed silently on the model (those transitions are checked by other cases);
   c_branch = true: every step starts from the state after the path (one case = one reachable shape and all
   its next operations); false: the steps are consecutive. A step = (operations applied without a dump, operation,
   dump after it, Size(), Empty(), len(Keys()) after it); a dump [-1] records a panic of the real operation. *)
Record case := { c_kind : kind; c_cmp : cmpsel; c_path : list (op Z Z); c_branch : bool;
                 c_steps : list (list (op Z Z) * op Z Z * list Z * Z * bool * Z) }.

Definition do_step (zc : Z -> Z -> Z) (k : kind) (branch : bool) (st : mstate)
           (x : list (op Z Z) * op Z Z * list Z * Z * bool * Z) : mstate * nat :=
  let '(pre, o, l, sz, emp, nkeys) := x in
  let st' := fst (model_step zc (fst (run (model_step zc) st pre)) o) in
  (if branch then st else st',
   kind_of (model_agrees st' l sz emp nkeys) (prop_holds zc k l sz && counts_hold k l sz emp nkeys)).

Definition check_case (c : case) : nat :=
  let zc := zcmp_of (c_cmp c) in
  let st0 := fst (run (model_step zc) (init_m (c_kind c)) (c_path c)) in
  scan (do_step zc (c_kind c) (c_branch c)) st0 (c_steps c) 0.

Definition mismatches (cs : list case) : list (nat * nat) := find_bad check_case cs.
