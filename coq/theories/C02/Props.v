(* C02 property theorems: the balanced trees keep their shape invariants after every operation.
   Nothing but statements closed by [exact] and Print Assumptions. *)
From VF Require Import Common.Base C01.Order C01.CmpSel C01.SortedMap C01.BinTree C01.RB C01.AVL C01.BTree
  C02.Inv C02.Dump C02.RBProofs C02.RBReach C01.AVLRefine C02.AVLProofs C02.DumpProofs C02.BTProofs C02.BTReach C02.BTHeight.
Local Open Scope Z_scope.

(* RBInv s = black root /\ no red node with a red child /\ equal black height on all paths (exists n, rbt n root)
             /\ search-tree order /\ cached size = number of keys                  (definitions: C02/Inv.v) *)
Theorem C02_rb : forall (K V : Type) (cmp : K -> K -> Z) (zeroV : V), CmpLaws cmp -> forall ops,
  RBInv K V cmp (fst (run (RB.step K V cmp zeroV) (RB.empty K V) ops)).
Proof. intros K V cmp zeroV O. exact (rb_reachable_inv O zeroV). Qed.

(* AVLInv s = every stored balance factor equals height(right) - height(left) and lies in {-1,0,1}
              /\ search-tree order /\ cached size = number of keys *)
Theorem C02_avl : forall (K V : Type) (cmp : K -> K -> Z) (zeroV : V), CmpLaws cmp -> forall ops,
  AVLInv K V cmp (fst (run (AVL.step K V cmp zeroV) (AVL.empty K V) ops)).
Proof. intros K V cmp zeroV O. exact (avl_reachable_inv O zeroV). Qed.

(* BTInv m s = all leaves at one depth, every non-root node holds between ceil(m/2)-1 and m-1 entries, the root
              at least 1, a node with k entries has 0 or k+1 children (exists d, wf 1 d root) /\ entries sorted and
              separating the children (in-order walk strictly ascending) /\ cached size = number of entries;
              for every order m >= 3 and every operation list *)
Theorem C02_bt : forall (K V : Type) (cmp : K -> K -> Z) (zeroV : V), CmpLaws cmp -> forall m, (3 <= m)%nat -> forall ops,
  BTInv K V cmp m (fst (run (BTree.step K V cmp zeroV m) (BTree.empty K V) ops)).
Proof. intros K V cmp zeroV O m Hm. exact (bt_reachable_inv_all O zeroV m Hm). Qed.

(* the boolean twins evaluated by the correspondence check on the implementation's dumps are the invariants *)
Theorem C02_rb_inv_b_ok : forall (K V : Type) (cmp : K -> K -> Z), CmpLaws cmp -> forall s,
  rb_inv_b K V cmp s = true <-> RBInv K V cmp s.
Proof. intros K V cmp O. exact (rb_inv_b_ok O). Qed.

Theorem C02_avl_inv_b_ok : forall (K V : Type) (cmp : K -> K -> Z), CmpLaws cmp -> forall s,
  avl_inv_b K V cmp s = true <-> AVLInv K V cmp s.
Proof. intros K V cmp O. exact (avl_inv_b_ok O). Qed.

Theorem C02_bt_inv_b_ok : forall (K V : Type) (cmp : K -> K -> Z), CmpLaws cmp -> forall m s,
  bt_inv_b K V cmp m s = true <-> BTInv K V cmp m s.
Proof. intros K V cmp O m. exact (bt_inv_b_ok O m). Qed.

(* parent links: in the dump of any model tree under the pointer layout every recorded parent key is the key
   of the actual parent (the same predicate is evaluated on the implementation's dump) *)
Theorem C02_parent_ok : forall (K V A : Type) (keqb : K -> K -> bool), (forall k, keqb k k = true) ->
  forall t : BinTree.tree K V A, parent_ok_b keqb (layout None t) = true.
Proof. intros K V A keqb H. exact (parent_ok keqb H). Qed.

Theorem C02_parent_ok_bt : forall (K V : Type) (keqb : K -> K -> bool), (forall k, keqb k k = true) ->
  forall t : BTree.node K V, parent_ok_bt_b keqb (layout_bt None t) = true.
Proof. intros K V keqb H. exact (parent_ok_bt keqb H). Qed.

(* consequences reused by C17: the invariants bound the height *)
Theorem C02_rb_height_log : forall (K V : Type) (t : RB.tree K V),
  RBShape K V t -> (height t <= 2 * Nat.log2 (count t + 1))%nat.
Proof. exact rb_height_log. Qed.

Theorem C02_avl_height_log : forall (K V : Type) (t : AVL.tree K V),
  avl_ok K V t -> 2 ^ (zheight K V t / 2) <= Z.of_nat (count t) + 1.
Proof. exact avl_height_log. Qed.

Theorem C02_bt_height_log : forall (K V : Type) (m : nat), (3 <= m)%nat -> forall d (t : BTree.node K V),
  wf K V m 1 d t -> (S d <= Nat.log2 (S (entries_count K V t)))%nat.
Proof. exact bt_height_log. Qed.

(* every comparator shape the correspondence run builds real trees with satisfies the premise CmpLaws *)
Theorem C02_comparator_shapes_laws : forall c, CmpLaws (zcmp_of c).
Proof. exact zcmp_of_laws. Qed.

(* non-vacuity: a concrete reachable red-black tree with both colours and a concrete AVL tree after rotations *)
Example C02_nonvacuous :
  RB.root (fst (run (RB.step Z Z zcmp 0) (RB.empty Z Z) [Put 1 1; Put 2 2; Put 3 3; Put 4 4; Remove 1]))
  = T B (T B E 2 2 E) 3 3 (T B E 4 4 E)
  /\ rb_inv_b Z Z zcmp (fst (run (RB.step Z Z zcmp 0) (RB.empty Z Z) [Put 1 1; Put 2 2; Put 3 3; Put 4 4; Put 5 5])) = true
  /\ AVL.root (fst (run (AVL.step Z Z zcmp 0) (AVL.empty Z Z) [Put 1 1; Put 2 2; Put 3 3; Put 4 4]))
     = T 1 (T 0 E 1 1 E) 2 2 (T 1 E 3 3 (T 0 E 4 4 E))
  /\ BTree.root (fst (run (BTree.step Z Z zcmp 0 3) (BTree.empty Z Z) [Put 1 1; Put 2 2; Put 3 3; Put 4 4; Put 5 5; Remove 1]))
     = Some (Node [(4, 4)] [Node [(2, 2); (3, 3)] []; Node [(5, 5)] []])
  /\ bt_inv_b Z Z zcmp 3 (fst (run (BTree.step Z Z zcmp 0 3) (BTree.empty Z Z)
                                [Put 1 1; Put 2 2; Put 3 3; Put 4 4; Put 5 5; Put 6 6; Put 7 7; Remove 4])) = true.
Proof. repeat split; vm_compute; reflexivity. Qed.

Print Assumptions C02_comparator_shapes_laws.
Print Assumptions C02_rb.
Print Assumptions C02_avl.
Print Assumptions C02_bt.
Print Assumptions C02_rb_inv_b_ok.
Print Assumptions C02_avl_inv_b_ok.
Print Assumptions C02_bt_inv_b_ok.
Print Assumptions C02_parent_ok.
Print Assumptions C02_parent_ok_bt.
Print Assumptions C02_rb_height_log.
Print Assumptions C02_avl_height_log.
Print Assumptions C02_bt_height_log.
