(* C02, red-black tree: colour rules and black height are preserved by Put and Remove (gods delete variant).
   Ported from notes/spikes/RB_invariants_spike.v to the model in C01/RB.v. *)
From VF Require Import Common.Base C01.Order C01.SortedMap C01.SpecProofs C01.BinTree C01.RB C02.Inv.
Local Open Scope Z_scope.

Section RBShape.
Variables K V : Type.
Variable cmp : K -> K -> Z.

Notation tree := (RB.tree K V).
Notation is_red := (RB.is_red K V).
Notation is_black := (RB.is_black K V).
Notation has_red_child := (RB.has_red_child K V).
Notation blacken := (RB.blacken K V).
Notation fixL := (RB.fixL K V).
Notation fixR := (RB.fixR K V).
Notation ins := (RB.ins K V cmp).
Notation put := (RB.put K V cmp).
Notation mk := (RB.mk K V).
Notation cases3to6 := (RB.cases3to6 K V).
Notation fix_deficit := (RB.fix_deficit K V).
Notation unlink := (RB.unlink K V).
Notation del_max := (RB.del_max K V).
Notation del := (RB.del K V cmp).
Notation rbt := (rbt K V).

(* red-red allowed at the root only, and then on one side only *)
Inductive arbt : nat -> tree -> Prop :=
| ARB_R n l k v r : rbt n l -> rbt n r -> (is_red l = false \/ is_red r = false) -> arbt n (T R l k v r)
| ARB_B n l k v r : rbt n l -> rbt n r -> arbt (S n) (T B l k v r).

Local Hint Constructors Inv.rbt arbt : core.



(* split every tree whose colour is inspected, invert every rbt/arbt fact about a constructor *)
Ltac crunch :=
  repeat (simpl in *; subst;
    match goal with
    | H : rbt _ (T _ _ _ _ _) |- _ => inv H
    | H : rbt _ E |- _ => inv H
    | H : arbt _ (T _ _ _ _ _) |- _ => inv H
    | H : arbt _ E |- _ => inv H
    | H : _ \/ _ |- _ => destruct H
    | H : _ /\ _ |- _ => destruct H
    | H : true = false |- _ => discriminate H
    | H : false = true |- _ => discriminate H
    | H : S _ = S _ |- _ => injection H as H
    | |- context [is_red ?t] => is_var t; destruct t as [|[] ? ? ? ?]
    | H : context [is_red ?t] |- _ => is_var t; destruct t as [|[] ? ? ? ?]
    | |- context [is_black ?t] => is_var t; destruct t as [|[] ? ? ? ?]
    end); unfold RB.is_black in *; simpl in *.

Lemma fixL_B n l k v r : arbt n l -> rbt n r -> rbt (S n) (fixL B l k v r).
Proof. intros Hl Hr. unfold fixL. crunch; auto 8. Qed.

Lemma fixR_B n l k v r : rbt n l -> arbt n r -> rbt (S n) (fixR B l k v r).
Proof. intros Hl Hr. unfold fixR. crunch; auto 8. Qed.

(* under a red parent the rebuilt child is a proper tree, nothing fires *)
Lemma fixL_R n l k v r : rbt n l -> rbt n r -> is_red r = false -> arbt n (fixL R l k v r).
Proof. intros Hl Hr Hb. unfold fixL. crunch; auto 8. Qed.

Lemma fixR_R n l k v r : rbt n l -> rbt n r -> is_red l = false -> arbt n (fixR R l k v r).
Proof. intros Hl Hr Hb. unfold fixR. crunch; auto 8. Qed.

Lemma rbt_arbt n t : rbt n t -> t <> E -> arbt n t.
Proof. destruct 1; intros; try congruence; auto. Qed.

Lemma fixL_nonE c l k v r : fixL c l k v r <> E.
Proof. unfold fixL. repeat match goal with |- context [match ?x with _ => _ end] => destruct x end; discriminate. Qed.
Lemma fixR_nonE c l k v r : fixR c l k v r <> E.
Proof. unfold fixR. repeat match goal with |- context [match ?x with _ => _ end] => destruct x end; discriminate. Qed.

Lemma ins_rb k v t n : rbt n t ->
  arbt n (ins k v t) /\ (is_red t = false -> rbt n (ins k v t)).
Proof.
  induction 1 as [|n l k' v' r Hl Hr H1 [IH1a IH1b] H2 [IH2a IH2b]|n l k' v' r H1 [IH1a IH1b] H2 [IH2a IH2b]]; simpl.
  - split; auto.
  - destruct (cmp k k' =? 0); [split; [auto|discriminate]|].
    destruct (cmp k k' <? 0); (split; [|discriminate]).
    + apply fixL_R; auto.
    + apply fixR_R; auto.
  - destruct (cmp k k' =? 0); [split; auto|].
    destruct (cmp k k' <? 0).
    + assert (rbt (S n) (fixL B (ins k v l) k' v' r)) by (apply fixL_B; auto).
      split; auto. apply rbt_arbt; auto using fixL_nonE.
    + assert (rbt (S n) (fixR B l k' v' (ins k v r))) by (apply fixR_B; auto).
      split; auto. apply rbt_arbt; auto using fixR_nonE.
Qed.


Theorem put_shape k v t : RBShape K V t -> RBShape K V (put k v t).
Proof.
  intros (n & H & Hb). destruct (ins_rb k v t n H) as [Ha _]. unfold put.
  inv Ha; simpl.
  - exists (S n). split; auto.
  - exists (S n0). split; auto.
Qed.

(* ---------------- delete ---------------- *)

Definition after_fix (c : color) (m : nat) (res : tree) (d : bool) : Prop :=
  if d then c = B /\ rbt (S m) res /\ is_red res = false
  else rbt (match c with B => S (S m) | R => S m end) res /\ (c = B -> is_red res = false).

Lemma cases3to6_spec c k v n s sd m res d :
  rbt m n -> rbt (S m) s -> is_red s = false ->
  cases3to6 c k v n s sd = (res, d) -> after_fix c m res d.
Proof.
  intros Hn Hs Hb. unfold cases3to6, after_fix.
  destruct s as [|sc sl sk sv sr]; [inv Hs|].
  destruct sc; [discriminate|]. inv Hs.
  destruct c, sd; crunch;
    intro Heq; inv Heq; repeat split; auto 8; try discriminate; try congruence.
Qed.

Lemma fix_deficit_spec c k v n s sd m res d :
  rbt m n -> rbt (S m) s -> (c = R -> is_red s = false) ->
  fix_deficit c k v n s sd = (res, d) -> after_fix c m res d.
Proof.
  intros Hn Hs Hc. unfold fix_deficit.
  destruct s as [|[] sl sk sv sr].
  - inv Hs.
  - (* case 2: red sibling, so c = B *)
    destruct c; [specialize (Hc eq_refl); discriminate|]. inv Hs.
    destruct sd.
    + destruct (cases3to6 R k v n sl SL) as [sub d0] eqn:E0. intro Heq; inv Heq.
      apply cases3to6_spec with (m := m) in E0; auto.
      unfold after_fix in *. destruct d0; [destruct E0; discriminate|]. destruct E0. split; auto.
    + destruct (cases3to6 R k v n sr SR) as [sub d0] eqn:E0. intro Heq; inv Heq.
      apply cases3to6_spec with (m := m) in E0; auto.
      unfold after_fix in *. destruct d0; [destruct E0; discriminate|]. destruct E0. split; auto.
  - intro Heq. eapply cases3to6_spec; eauto.
Qed.

Definition after_del (t : tree) (n : nat) (t' : tree) (d : bool) : Prop :=
  if d then is_red t = false /\ exists m, n = S m /\ rbt m t'
  else rbt n t' /\ (is_red t = false -> is_red t' = false).

Lemma after_fix_del c l k v r m res d :
  rbt (S m) l -> rbt (S m) r -> (c = R -> is_red l = false /\ is_red r = false) ->
  after_fix c m res d ->
  after_del (T c l k v r) (match c with B => S (S m) | R => S m end) res d.
Proof.
  unfold after_fix, after_del. intros Hl Hr Hc. destruct d.
  - intros (-> & H & Hb). split; auto. eauto.
  - intros (H & Hb). split; auto. destruct c; simpl; auto. discriminate.
Qed.

Lemma unlink_spec c l k v n :
  rbt n (T c l k v E) -> let '(t', d) := unlink c l in after_del (T c l k v E) n t' d.
Proof.
  intros H. unfold unlink, after_del. destruct c; inv H.
  - match goal with H : rbt _ E |- _ => inv H end. split; auto.
  - match goal with H : rbt _ E |- _ => inv H end. split; auto. eauto.
Qed.

Lemma unlink_spec_r c r k v n :
  rbt n (T c E k v r) -> let '(t', d) := unlink c r in after_del (T c E k v r) n t' d.
Proof.
  intros H. unfold unlink, after_del. destruct c; inv H.
  - match goal with H : rbt _ E |- _ => inv H end. split; auto.
  - match goal with H : rbt _ E |- _ => inv H end. split; auto. eauto.
Qed.

Lemma rbt_children c l k v r n :
  rbt n (T c l k v r) ->
  exists m, rbt m l /\ rbt m r /\ n = (match c with B => S m | R => m end) /\
            (c = R -> is_red l = false /\ is_red r = false).
Proof. intros H; inv H; eexists; repeat split; eauto; discriminate. Qed.

Lemma del_max_spec t n : rbt n t -> t <> E ->
  let '(mx, t', d) := del_max t in mx <> None /\ after_del t n t' d.
Proof.
  induction 1 as [|n l k v r Hl Hr H1 IH1 H2 IH2|n l k v r H1 IH1 H2 IH2]; intros Hne; try congruence.
  - (* red node *)
    simpl. destruct r as [|rc rl rk rv rr].
    + pose proof (unlink_spec R l k v n) as U. simpl in U. split; [discriminate|]. apply U. auto.
    + assert (Hr' : T rc rl rk rv rr <> E) by discriminate. specialize (IH2 Hr').
      destruct (del_max (T rc rl rk rv rr)) as [[mx r'] d]. destruct IH2 as [Hm Had].
      unfold after_del in Had. destruct d.
      * destruct Had as (_ & m & -> & Hr2).
        destruct (fix_deficit R k v r' l SR) as [res d'] eqn:Ef. split; auto.
        apply fix_deficit_spec with (m := m) in Ef; auto.
        apply (after_fix_del R l k v (T rc rl rk rv rr) m) in Ef; auto.
      * destruct Had as (Hr2 & Hb). split; auto. unfold after_del. split; [|discriminate].
        constructor; auto.
  - simpl. destruct r as [|rc rl rk rv rr].
    + pose proof (unlink_spec B l k v (S n)) as U. simpl in U. split; [discriminate|]. apply U. auto.
    + assert (Hr' : T rc rl rk rv rr <> E) by discriminate. specialize (IH2 Hr').
      destruct (del_max (T rc rl rk rv rr)) as [[mx r'] d]. destruct IH2 as [Hm Had].
      unfold after_del in Had. destruct d.
      * destruct Had as (_ & m & -> & Hr2).
        destruct (fix_deficit B k v r' l SR) as [res d'] eqn:Ef. split; auto.
        apply fix_deficit_spec with (m := m) in Ef; auto; [|discriminate].
        apply (after_fix_del B l k v (T rc rl rk rv rr) m) in Ef; auto. discriminate.
      * destruct Had as (Hr2 & Hb). split; auto. unfold after_del. split; auto.
Qed.

Lemma del_spec x t n : rbt n t ->
  let '(t', d) := del x t in after_del t n t' d.
Proof.
  induction 1 as [|n l k v r Hl Hr H1 IH1 H2 IH2|n l k v r H1 IH1 H2 IH2].
  - simpl. split; auto.
  - (* red node: children black, same height n *)
    simpl. destruct (cmp x k <? 0).
    { destruct (del x l) as [l' df]. unfold after_del in IH1. destruct df.
      - destruct IH1 as (_ & m & -> & Hl2).
        destruct (fix_deficit R k v l' r SL) as [res d'] eqn:Ef.
        apply fix_deficit_spec with (m := m) in Ef; auto.
        apply (after_fix_del R l k v r m) in Ef; auto.
      - destruct IH1 as (Hl2 & Hb). split; [|discriminate]. constructor; auto. }
    destruct (cmp x k >? 0).
    { destruct (del x r) as [r' df]. unfold after_del in IH2. destruct df.
      - destruct IH2 as (_ & m & -> & Hr2).
        destruct (fix_deficit R k v r' l SR) as [res d'] eqn:Ef.
        apply fix_deficit_spec with (m := m) in Ef; auto.
        apply (after_fix_del R l k v r m) in Ef; auto.
      - destruct IH2 as (Hr2 & Hb). split; [|discriminate]. constructor; auto. }
    destruct l as [|lc ll lk lv lr].
    { destruct r as [|rc rl rk rv rr].
      - apply (unlink_spec R E k v n). auto.
      - apply (unlink_spec_r R (T rc rl rk rv rr) k v n). auto. }
    destruct r as [|rc rl rk rv rr].
    { apply (unlink_spec R (T lc ll lk lv lr) k v n). auto. }
    pose proof (del_max_spec (T lc ll lk lv lr) n H1) as DM.
    destruct (del_max (T lc ll lk lv lr)) as [[mx l'] df].
    destruct DM as [Hm Had]; [discriminate|]. destruct mx as [[pk pv]|]; [|congruence].
    unfold after_del in Had. destruct df.
    + destruct Had as (_ & m & -> & Hl2).
      destruct (fix_deficit R pk pv l' (T rc rl rk rv rr) SL) as [res d'] eqn:Ef.
      apply fix_deficit_spec with (m := m) in Ef; auto.
      apply (after_fix_del R (T lc ll lk lv lr) k v (T rc rl rk rv rr) m) in Ef; auto.
    + destruct Had as (Hl2 & Hb). split; [|discriminate]. constructor; auto.
  - (* black node *)
    simpl. destruct (cmp x k <? 0).
    { destruct (del x l) as [l' df]. unfold after_del in IH1. destruct df.
      - destruct IH1 as (_ & m & -> & Hl2).
        destruct (fix_deficit B k v l' r SL) as [res d'] eqn:Ef.
        apply fix_deficit_spec with (m := m) in Ef; auto; [|discriminate].
        apply (after_fix_del B l k v r m) in Ef; auto. discriminate.
      - destruct IH1 as (Hl2 & Hb). split; auto. }
    destruct (cmp x k >? 0).
    { destruct (del x r) as [r' df]. unfold after_del in IH2. destruct df.
      - destruct IH2 as (_ & m & -> & Hr2).
        destruct (fix_deficit B k v r' l SR) as [res d'] eqn:Ef.
        apply fix_deficit_spec with (m := m) in Ef; auto; [|discriminate].
        apply (after_fix_del B l k v r m) in Ef; auto. discriminate.
      - destruct IH2 as (Hr2 & Hb). split; auto. }
    destruct l as [|lc ll lk lv lr].
    { destruct r as [|rc rl rk rv rr].
      - apply (unlink_spec B E k v (S n)). auto.
      - apply (unlink_spec_r B (T rc rl rk rv rr) k v (S n)). auto. }
    destruct r as [|rc rl rk rv rr].
    { apply (unlink_spec B (T lc ll lk lv lr) k v (S n)). auto. }
    pose proof (del_max_spec (T lc ll lk lv lr) n H1) as DM.
    destruct (del_max (T lc ll lk lv lr)) as [[mx l'] df].
    destruct DM as [Hm Had]; [discriminate|]. destruct mx as [[pk pv]|]; [|congruence].
    unfold after_del in Had. destruct df.
    + destruct Had as (_ & m & -> & Hl2).
      destruct (fix_deficit B pk pv l' (T rc rl rk rv rr) SL) as [res d'] eqn:Ef.
      apply fix_deficit_spec with (m := m) in Ef; auto; [|discriminate].
      apply (after_fix_del B (T lc ll lk lv lr) k v (T rc rl rk rv rr) m) in Ef; auto. discriminate.
    + destruct Had as (Hl2 & Hb). split; auto.
Qed.

Lemma rbt_blacken n t : rbt n t -> exists m, rbt m (blacken t) /\ is_red (blacken t) = false.
Proof. destruct 1; simpl; eauto. Qed.

Theorem remove_shape_blacken x t : RBShape K V t -> RBShape K V (blacken (fst (del x t))).
Proof.
  intros (n & H & Hb). unfold RBShape.
  pose proof (del_spec x t n H) as D. destruct (del x t) as [t' d]. simpl.
  unfold after_del in D. destruct d.
  - destruct D as (_ & m & -> & H'). eapply rbt_blacken; eauto.
  - destruct D as (H' & _). eapply rbt_blacken; eauto.
Qed.


(* the model's Remove (child of an unlinked root becomes the black root, otherwise the fix-up decides every
   colour) coincides with "blacken the result" on every tree with a black root *)
Lemma fix_deficit_B_black k v n s sd : is_red (fst (fix_deficit B k v n s sd)) = false.
Proof.
  unfold RB.fix_deficit, RB.cases3to6.
  destruct s as [|[] sl sk sv sr]; destruct sd; simpl;
    repeat match goal with
           | |- context [let '(_, _) := ?x in _] => destruct x
           | |- context [match ?x with _ => _ end] => destruct x
           end; reflexivity.
Qed.

Lemma remove_eq_blacken x t : is_red t = false -> RB.remove K V cmp x t = blacken (fst (del x t)).
Proof.
  destruct t as [|c l k v r]; intros Hb; [reflexivity|].
  destruct c; [discriminate|]. unfold RB.remove.
  destruct ((cmp x k =? 0) && (isE l || isE r)) eqn:Etop.
  - apply andb_true_iff in Etop. destruct Etop as [E0 Ech]. apply Z.eqb_eq in E0.
    cbn [RB.del]. destruct (cmp x k <? 0) eqn:E1; [lia|]. destruct (cmp x k >? 0) eqn:E2; [lia|].
    destruct l as [|lc ll lk lv lr], r as [|rc rl rk rv rr]; try discriminate; reflexivity.
  - assert (Hblack : is_red (fst (del x (T B l k v r))) = false).
    { cbn [RB.del]. destruct (cmp x k <? 0) eqn:E1.
      { destruct (del x l) as [l' df]. destruct df; [apply fix_deficit_B_black|reflexivity]. }
      destruct (cmp x k >? 0) eqn:E2.
      { destruct (del x r) as [r' df]. destruct df; [apply fix_deficit_B_black|reflexivity]. }
      assert (E0 : cmp x k =? 0 = true) by lia. rewrite E0 in Etop. simpl in Etop.
      destruct l as [|lc ll lk lv lr]; [discriminate|]. destruct r as [|rc rl rk rv rr]; [discriminate|].
      destruct (del_max (T lc ll lk lv lr)) as [[mx l'] df]. destruct mx as [[pk pv]|]; [|reflexivity].
      destruct df; [apply fix_deficit_B_black|reflexivity]. }
    destruct (fst (del x (T B l k v r))) as [|[] ? ? ? ?]; try reflexivity. discriminate.
Qed.

Theorem remove_shape x t : RBShape K V t -> RBShape K V (RB.remove K V cmp x t).
Proof.
  intros H. assert (Hb : is_red t = false) by (destruct H as (n & _ & Hb); exact Hb).
  rewrite remove_eq_blacken by exact Hb. now apply remove_shape_blacken.
Qed.

(* ---------- boolean twin ---------- *)
Lemma bh_b_ok t n : bh_b K V t = Some n <-> rbt n t.
Proof.
  revert n. induction t as [|c l IHl k v r IHr]; intros n; simpl.
  - split; [intros H; inv H; constructor|intros H; inv H; reflexivity].
  - destruct (bh_b K V l) as [a|] eqn:El, (bh_b K V r) as [b|] eqn:Er.
    + destruct (Nat.eqb a b) eqn:Eab.
      * apply Nat.eqb_eq in Eab. subst b. destruct c.
        -- destruct (is_red l || is_red r) eqn:Ered.
           ++ split; [discriminate|]. intros H. inv H.
              match goal with Hl : is_red l = false, Hr : is_red r = false |- _ => rewrite Hl, Hr in Ered end.
              discriminate.
           ++ apply orb_false_iff in Ered. destruct Ered as [Hl Hr]. split.
              ** intros H. inv H. constructor; auto; [apply IHl|apply IHr]; reflexivity.
              ** intros H. inv H. match goal with H1 : rbt n l |- _ => apply IHl in H1; congruence end.
        -- split.
           ++ intros H. inv H. constructor; [apply IHl|apply IHr]; reflexivity.
           ++ intros H. inv H. match goal with H1 : rbt _ l |- _ => apply IHl in H1; congruence end.
      * split; [discriminate|]. intros H. apply Nat.eqb_neq in Eab.
        inv H; match goal with H1 : rbt _ l, H2 : rbt _ r |- _ => apply IHl in H1; apply IHr in H2; congruence end.
    + split; [discriminate|]. intros H.
      inv H; match goal with H2 : rbt _ r |- _ => apply IHr in H2; discriminate end.
    + split; [discriminate|]. intros H.
      inv H; match goal with H1 : rbt _ l |- _ => apply IHl in H1; discriminate end.
    + split; [discriminate|]. intros H.
      inv H; match goal with H1 : rbt _ l |- _ => apply IHl in H1; discriminate end.
Qed.

Theorem rb_shape_b_ok t : rb_shape_b K V t = true <-> RBShape K V t.
Proof.
  unfold rb_shape_b, RBShape. rewrite andb_true_iff, negb_true_iff. split.
  - intros [Hb Hh]. destruct (bh_b K V t) as [n|] eqn:E; [|discriminate].
    exists n. split; auto. now apply bh_b_ok.
  - intros (n & H & Hb). split; auto. apply bh_b_ok in H. now rewrite H.
Qed.

(* ---------- the colour rules bound the height: height <= 2 * log2 (n + 1) (reused by C17) ---------- *)
Lemma rb_size_lower n t : rbt n t -> (2 ^ n <= count t + 1)%nat.
Proof. induction 1; simpl in *; lia. Qed.

Lemma rb_height_upper n t : rbt n t -> (height t <= 2 * n + (if is_red t then 1 else 0))%nat.
Proof.
  induction 1 as [|n l k v r Hl Hr H1 IH1 H2 IH2|n l k v r H1 IH1 H2 IH2]; simpl in *; try lia.
  - rewrite Hl, Hr in *. lia.
  - destruct (is_red l), (is_red r); lia.
Qed.

Theorem rb_height_log t : RBShape K V t -> (height t <= 2 * Nat.log2 (count t + 1))%nat.
Proof.
  intros (n & H & Hb). pose proof (rb_height_upper n t H) as Hh. rewrite Hb in Hh.
  pose proof (rb_size_lower n t H) as Hs.
  assert (n <= Nat.log2 (count t + 1))%nat by (apply Nat.log2_le_pow2; lia).
  lia.
Qed.

Lemma RBShape_E : RBShape K V E.
Proof. exists O. split; [constructor|reflexivity]. Qed.

End RBShape.
