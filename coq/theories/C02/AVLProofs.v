(* C02, AVL part: put/remove of the AVL model (C01/AVL.v) preserve the balance invariant [avl_ok]
   (stored balance factor = true height difference, in {-1,0,1}); the boolean twin [avl_ok_b] decides
   it; an AVL tree of height h has at least 2^(h/2) - 1 nodes. *)
From VF Require Import Common.Base C01.Order C01.SortedMap C01.BinTree C01.AVL C02.Inv.
Local Open Scope Z_scope.

Section AVLProofs.
Variables K V : Type.
Variable cmp : K -> K -> Z.

Notation tree := (AVL.tree K V).
Notation zheight := (zheight K V).
Notation avl_ok := (avl_ok K V).
Notation avl_ok_b := (avl_ok_b K V).
Notation putFix := (AVL.putFix K V).
Notation removeFix := (AVL.removeFix K V).
Notation put := (AVL.put K V cmp).
Notation removeMin := (AVL.removeMin K V).
Notation remove := (AVL.remove K V cmp).
Notation bal := (AVL.bal K V).

Lemma zheight_nonneg (t : tree) : 0 <= zheight t.
Proof. induction t as [|b l IHl k v r IHr]; cbn [Inv.zheight]; lia. Qed.

Local Ltac inv H := inversion H; subst; clear H.

(* record [0 <= zheight t] for every tree in the context *)
Local Ltac heights :=
  repeat match goal with
         | t : ?T |- _ =>
           unify T (BinTree.tree K V Z);
           lazymatch goal with
           | H : 0 <= Inv.zheight K V t |- _ => fail
           | _ => pose proof (zheight_nonneg t)
           end
         end.

Local Ltac red_all :=
  cbn [Inv.zheight Inv.avl_ok AVL.bal AVL.ch AVL.setch AVL.setb AVL.opp AVL.sg Z.opp] in *.
Local Ltac finish := red_all; heights; repeat split; try (intros; lia); try assumption; try tauto.

Lemma putFix_spec c (l : tree) k v b (r : tree) res f :
  avl_ok l -> avl_ok r -> -1 <= b <= 1 ->
  (* side c has just grown by one; b is the balance recorded before that *)
  b = (match c with Lft => zheight r - (zheight l - 1) | Rgt => (zheight r - 1) - zheight l end) ->
  (match c with
   | Lft => 1 <= zheight l /\ (2 <= zheight l -> bal l <> 0)
   | Rgt => 1 <= zheight r /\ (2 <= zheight r -> bal r <> 0) end) ->
  putFix c (T b l k v r) = (res, f) ->
  avl_ok res /\
  zheight res = (1 + (match c with Lft => Z.max (zheight l - 1) (zheight r)
                                 | Rgt => Z.max (zheight l) (zheight r - 1) end))
               + (if f then 1 else 0) /\
  (f = true -> bal res <> 0).
Proof using. clear cmp.
  intros Hl Hr Hb Hbe Hside. unfold AVL.putFix. cbn [AVL.bal].
  destruct (b =? 0) eqn:E0; [apply Z.eqb_eq in E0|apply Z.eqb_neq in E0].
  { intros Heq; inv Heq. destruct c; finish. }
  destruct (b =? - sg c) eqn:E1; [apply Z.eqb_eq in E1|apply Z.eqb_neq in E1].
  { intros Heq; inv Heq. destruct c; finish; discriminate. }
  destruct c; cbn [AVL.ch AVL.sg] in *.
  - (* left side too tall *)
    destruct l as [|lb ll lk lv lr]; [red_all; lia|].
    cbn [AVL.bal]. destruct (lb =? -1) eqn:E2; [apply Z.eqb_eq in E2|apply Z.eqb_neq in E2];
      intros Heq; inv Heq.
    + unfold AVL.singlerot, AVL.rotate. finish; discriminate.
    + (* double rotation: the inner grandchild exists *)
      assert (lb = 1) by (red_all; heights; destruct Hside as [_ Hs]; lia). subst lb.
      destruct lr as [|ab a ak av ar]; [red_all; heights; lia|].
      unfold AVL.doublerot, AVL.rotate. cbn [AVL.ch AVL.opp AVL.setch AVL.setb AVL.bal AVL.sg].
      destruct (ab =? -1) eqn:Ea; [apply Z.eqb_eq in Ea|apply Z.eqb_neq in Ea].
      * finish; discriminate.
      * cbn [Z.opp]. destruct (ab =? 1) eqn:Eb; [apply Z.eqb_eq in Eb|apply Z.eqb_neq in Eb];
          finish; discriminate.
  - destruct r as [|rb rl rk rv rr]; [red_all; lia|].
    cbn [AVL.bal]. destruct (rb =? 1) eqn:E2; [apply Z.eqb_eq in E2|apply Z.eqb_neq in E2];
      intros Heq; inv Heq.
    + unfold AVL.singlerot, AVL.rotate. finish; discriminate.
    + assert (rb = -1) by (red_all; heights; destruct Hside as [_ Hs]; lia). subst rb.
      destruct rl as [|ab a ak av ar]; [red_all; heights; lia|].
      unfold AVL.doublerot, AVL.rotate. cbn [AVL.ch AVL.opp AVL.setch AVL.setb AVL.bal AVL.sg].
      destruct (ab =? 1) eqn:Ea; [apply Z.eqb_eq in Ea|apply Z.eqb_neq in Ea].
      * finish; discriminate.
      * cbn [Z.opp]. destruct (ab =? -1) eqn:Eb; [apply Z.eqb_eq in Eb|apply Z.eqb_neq in Eb];
          finish; discriminate.
Qed.

Lemma removeFix_spec c (l : tree) k v b (r : tree) res f :
  avl_ok l -> avl_ok r -> -1 <= b <= 1 ->
  (* the side opposite to c has just shrunk by one; b is the balance recorded before that *)
  b = (match c with Rgt => zheight r - (zheight l + 1) | Lft => (zheight r + 1) - zheight l end) ->
  removeFix c (T b l k v r) = (res, f) ->
  avl_ok res /\
  zheight res = (1 + (match c with Rgt => Z.max (zheight l + 1) (zheight r)
                                 | Lft => Z.max (zheight l) (zheight r + 1) end))
               - (if f then 1 else 0).
Proof using. clear cmp.
  intros Hl Hr Hb Hbe. unfold AVL.removeFix. cbn [AVL.bal].
  destruct (b =? 0) eqn:E0; [apply Z.eqb_eq in E0|apply Z.eqb_neq in E0].
  { intros Heq; inv Heq. destruct c; finish. }
  destruct (b =? - sg c) eqn:E1; [apply Z.eqb_eq in E1|apply Z.eqb_neq in E1].
  { intros Heq; inv Heq. destruct c; finish. }
  destruct c; cbn [AVL.ch AVL.sg] in *.
  - destruct l as [|lb ll lk lv lr]; [red_all; heights; lia|].
    cbn [AVL.bal]. destruct (lb =? 0) eqn:E2; [apply Z.eqb_eq in E2|apply Z.eqb_neq in E2].
    { intros Heq; inv Heq. unfold AVL.rotate. finish. }
    destruct (lb =? -1) eqn:E3; [apply Z.eqb_eq in E3|apply Z.eqb_neq in E3]; intros Heq; inv Heq.
    + unfold AVL.singlerot, AVL.rotate. finish.
    + assert (lb = 1) by (red_all; lia). subst lb.
      destruct lr as [|ab a ak av ar]; [red_all; heights; lia|].
      unfold AVL.doublerot, AVL.rotate. cbn [AVL.ch AVL.opp AVL.setch AVL.setb AVL.bal AVL.sg].
      destruct (ab =? -1) eqn:Ea; [apply Z.eqb_eq in Ea|apply Z.eqb_neq in Ea].
      * finish.
      * cbn [Z.opp]. destruct (ab =? 1) eqn:Eb; [apply Z.eqb_eq in Eb|apply Z.eqb_neq in Eb]; finish.
  - destruct r as [|rb rl rk rv rr]; [red_all; heights; lia|].
    cbn [AVL.bal]. destruct (rb =? 0) eqn:E2; [apply Z.eqb_eq in E2|apply Z.eqb_neq in E2].
    { intros Heq; inv Heq. unfold AVL.rotate. finish. }
    destruct (rb =? 1) eqn:E3; [apply Z.eqb_eq in E3|apply Z.eqb_neq in E3]; intros Heq; inv Heq.
    + unfold AVL.singlerot, AVL.rotate. finish.
    + assert (rb = -1) by (red_all; lia). subst rb.
      destruct rl as [|ab a ak av ar]; [red_all; heights; lia|].
      unfold AVL.doublerot, AVL.rotate. cbn [AVL.ch AVL.opp AVL.setch AVL.setb AVL.bal AVL.sg].
      destruct (ab =? 1) eqn:Ea; [apply Z.eqb_eq in Ea|apply Z.eqb_neq in Ea].
      * finish.
      * cbn [Z.opp]. destruct (ab =? -1) eqn:Eb; [apply Z.eqb_eq in Eb|apply Z.eqb_neq in Eb]; finish.
Qed.

Lemma put_spec k v (t : tree) : forall t' f, avl_ok t -> put k v t = (t', f) ->
  avl_ok t' /\ zheight t' = zheight t + (if f then 1 else 0) /\
  (f = true -> 1 <= zheight t -> bal t' <> 0).
Proof.
  induction t as [|b l IHl k' v' r IHr]; intros t' f Hok Hput; cbn [AVL.put] in Hput.
  - inv Hput. finish.
  - cbn [Inv.avl_ok] in Hok. destruct Hok as (Hl & Hr & Hb & Hbr).
    destruct (cmp k k' =? 0).
    { inv Hput. finish; discriminate. }
    destruct (cmp k k' <? 0).
    + destruct (put k v l) as [l' fl] eqn:El. destruct (IHl _ _ Hl eq_refl) as (Hl' & Hh & Hbal).
      destruct fl.
      * apply putFix_spec in Hput; auto; [|lia|heights; split; [lia|intros; apply Hbal; auto; lia]].
        destruct Hput as (H1 & H2 & H3). repeat split; auto. cbn [Inv.zheight]. rewrite H2, Hh.
        destruct f; lia.
      * inv Hput. finish; discriminate.
    + destruct (put k v r) as [r' fr] eqn:Er. destruct (IHr _ _ Hr eq_refl) as (Hr' & Hh & Hbal).
      destruct fr.
      * apply putFix_spec in Hput; auto; [|lia|heights; split; [lia|intros; apply Hbal; auto; lia]].
        destruct Hput as (H1 & H2 & H3). repeat split; auto. cbn [Inv.zheight]. rewrite H2, Hh.
        destruct f; lia.
      * inv Hput. finish; discriminate.
Qed.

Lemma removeMin_eq b (l : tree) k v (r : tree) :
  removeMin (T b l k v r) =
  if isE l then (r, Some (k, v), true)
  else let '(l', mk, fix_) := removeMin l in
       if fix_ then let '(q', f) := removeFix Rgt (T b l' k v r) in (q', mk, f)
       else (T b l' k v r, mk, false).
Proof. destruct l; reflexivity. Qed.

Lemma remove_eq x b (l : tree) k v (r : tree) :
  remove x (T b l k v r) =
  let d := cmp x k in
  if d =? 0 then
    if isE r then (l, true)
    else let '(r', mk, fix_) := removeMin r in
         match mk with
         | Some (mk', mv') => if fix_ then removeFix Lft (T b l mk' mv' r') else (T b l mk' mv' r', false)
         | None => (T b l k v r, false)
         end
  else if d <? 0 then
    let '(l', fix_) := remove x l in
    if fix_ then removeFix Rgt (T b l' k v r) else (T b l' k v r, false)
  else
    let '(r', fix_) := remove x r in
    if fix_ then removeFix Lft (T b l k v r') else (T b l k v r', false).
Proof. destruct r; reflexivity. Qed.

Lemma removeMin_spec (t : tree) : forall t' mk f, avl_ok t -> t <> E -> removeMin t = (t', mk, f) ->
  mk <> None /\ avl_ok t' /\ zheight t' = zheight t - (if f then 1 else 0).
Proof using. clear cmp.
  induction t as [|b l IHl k v r IHr]; intros t' mk f Hok Hne Hrm; [congruence|].
  rewrite removeMin_eq in Hrm. cbn [Inv.avl_ok] in Hok. destruct Hok as (Hl & Hr & Hb & Hbr).
  destruct (isE l) eqn:HE.
  - destruct l; [|discriminate]. inv Hrm. split; [discriminate|]. finish.
  - assert (Hlne : l <> E) by (destruct l; [discriminate|congruence]).
    destruct (removeMin l) as [[l' mk'] fl] eqn:El.
    destruct (IHl _ _ _ Hl Hlne eq_refl) as (Hmk & Hl' & Hh).
    destruct fl.
    + destruct (removeFix Rgt (T b l' k v r)) as [q' f'] eqn:Ef. inv Hrm.
      apply removeFix_spec in Ef; auto; [|lia]. destruct Ef as (H1 & H2).
      repeat split; auto. cbn [Inv.zheight]. rewrite H2, Hh. destruct f; lia.
    + inv Hrm. repeat split; auto; finish.
Qed.

Lemma remove_spec x (t : tree) : forall t' f, avl_ok t -> remove x t = (t', f) ->
  avl_ok t' /\ zheight t' = zheight t - (if f then 1 else 0).
Proof.
  induction t as [|b l IHl k v r IHr]; intros t' f Hok Hrm.
  - inv Hrm. finish.
  - rewrite remove_eq in Hrm. cbv zeta in Hrm.
    cbn [Inv.avl_ok] in Hok. destruct Hok as (Hl & Hr & Hb & Hbr).
    destruct (cmp x k =? 0).
    { destruct (isE r) eqn:HE.
      - destruct r; [|discriminate]. inv Hrm. finish.
      - assert (Hrne : r <> E) by (destruct r; [discriminate|congruence]).
        destruct (removeMin r) as [[r' mk] fr] eqn:Er.
        destruct (removeMin_spec _ _ _ _ Hr Hrne Er) as (Hmk & Hr' & Hh).
        destruct mk as [[mk' mv']|]; [|congruence]. destruct fr.
        + apply removeFix_spec in Hrm; auto; [|lia]. destruct Hrm as (H1 & H2).
          split; auto. cbn [Inv.zheight]. rewrite H2, Hh. destruct f; lia.
        + inv Hrm. finish. }
    destruct (cmp x k <? 0).
    + destruct (remove x l) as [l' fl] eqn:El. destruct (IHl _ _ Hl eq_refl) as (Hl' & Hh).
      destruct fl.
      * apply removeFix_spec in Hrm; auto; [|lia]. destruct Hrm as (H1 & H2).
        split; auto. cbn [Inv.zheight]. rewrite H2, Hh. destruct f; lia.
      * inv Hrm. finish.
    + destruct (remove x r) as [r' fr] eqn:Er. destruct (IHr _ _ Hr eq_refl) as (Hr' & Hh).
      destruct fr.
      * apply removeFix_spec in Hrm; auto; [|lia]. destruct Hrm as (H1 & H2).
        split; auto. cbn [Inv.zheight]. rewrite H2, Hh. destruct f; lia.
      * inv Hrm. finish.
Qed.

Theorem avl_put_ok k v (t : tree) : avl_ok t -> avl_ok (fst (put k v t)).
Proof. intros H. destruct (put k v t) as [t' f] eqn:E. apply (put_spec k v t t' f H E). Qed.

Theorem avl_remove_ok x (t : tree) : avl_ok t -> avl_ok (fst (remove x t)).
Proof. intros H. destruct (remove x t) as [t' f] eqn:E. apply (remove_spec x t t' f H E). Qed.

(* the boolean twin decides the invariant *)
Theorem avl_ok_b_ok (t : tree) : avl_ok_b t = true <-> avl_ok t.
Proof using. clear cmp.
  induction t as [|b l IHl k v r IHr]; cbn [Inv.avl_ok_b Inv.avl_ok].
  - split; auto.
  - rewrite !andb_true_iff, IHl, IHr, Z.eqb_eq, !Z.leb_le. tauto.
Qed.
(* height is logarithmic in the number of nodes: count t >= 2^(h/2) - 1 *)
Lemma avl_height_log (t : tree) :
  avl_ok t -> 2 ^ (zheight t / 2) <= Z.of_nat (BinTree.count t) + 1.
Proof using. clear cmp.
  induction t as [|b l IHl k v r IHr]; intros Hok.
  - cbn [Inv.zheight BinTree.count]. change (0 / 2) with 0. change (2 ^ 0) with 1. lia.
  - cbn [Inv.avl_ok] in Hok. destruct Hok as (Hl & Hr & Hb & Hbr).
    specialize (IHl Hl). specialize (IHr Hr). cbn [Inv.zheight BinTree.count].
    pose proof (zheight_nonneg l) as Hhl. pose proof (zheight_nonneg r) as Hhr.
    set (hl := zheight l) in *. set (hr := zheight r) in *.
    assert (Hmn : 0 <= Z.min hl hr / 2) by (apply Z.div_pos; lia).
    assert (Htop : 2 ^ ((1 + Z.max hl hr) / 2) <= 2 * 2 ^ (Z.min hl hr / 2)).
    { replace (2 * 2 ^ (Z.min hl hr / 2)) with (2 ^ (Z.min hl hr / 2 + 1)).
      - apply Z.pow_le_mono_r; [lia|].
        assert (Hd : (1 + Z.max hl hr) / 2 <= (Z.min hl hr + 1 * 2) / 2) by (apply Z.div_le_mono; lia).
        rewrite Z.div_add in Hd by lia. exact Hd.
      - rewrite Z.pow_add_r by lia. change (2 ^ 1) with 2. lia. }
    assert (Hle_l : 2 ^ (Z.min hl hr / 2) <= 2 ^ (hl / 2))
      by (apply Z.pow_le_mono_r; [lia|apply Z.div_le_mono; lia]).
    assert (Hle_r : 2 ^ (Z.min hl hr / 2) <= 2 ^ (hr / 2))
      by (apply Z.pow_le_mono_r; [lia|apply Z.div_le_mono; lia]).
    lia.
Qed.
End AVLProofs.

Print Assumptions avl_put_ok.
Print Assumptions avl_remove_ok.
Print Assumptions avl_ok_b_ok.
Print Assumptions avl_height_log.
