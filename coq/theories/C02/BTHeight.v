(* C02 extra (reused by C17): the B-tree shape invariant bounds the height by log2 (n + 1). *)
From VF Require Import Common.Base C01.SortedMap C01.BTree C02.Inv.
From Coq Require Import ZifyNat ZifyBool.
Ltac Zify.zify_post_hook ::= Z.div_mod_to_equations.

Section BTHeight.
Variables K V : Type.
Variable m : nat.
Hypothesis m_ge_3 : 3 <= m.
Notation node := (BTree.node K V).
Notation wf := (wf K V m).
Notation cnt := (entries_count K V).

Definition sum_succ (cs : list node) : nat := list_sum (map (fun c => S (cnt c)) cs).

Lemma cnt_unfold es cs : cnt (Node es cs) = length es + list_sum (map cnt cs).
Proof.
  cbn [entries_count]. f_equal. induction cs as [|c cs IH]; [reflexivity|]. cbn [map list_sum]. now rewrite IH.
Qed.

Lemma sum_succ_eq cs : sum_succ cs = list_sum (map cnt cs) + length cs.
Proof. unfold sum_succ. induction cs as [|c cs IH]; simpl in *; lia. Qed.

Lemma sum_succ_ge b cs : Forall (fun c => b <= S (cnt c)) cs -> length cs * b <= sum_succ cs.
Proof.
  unfold sum_succ. induction 1 as [|c cs Hc HF IH]; simpl in *; lia.
Qed.

Let T := S (minE m).

Lemma T_ge_2 : 2 <= T.
Proof. unfold T, minE. pose proof m_ge_3. lia. Qed.

(* a non-root node whose leaves are d levels below holds at least T^(d+1) - 1 entries *)
Lemma wf_count_lower d : forall t, wf (minE m) d t -> T ^ S d <= S (cnt t).
Proof.
  induction d as [|d IH]; intros [es cs] H; cbn [Inv.wf] in H.
  - destruct H as (Hlo & _ & ->). rewrite cnt_unfold. simpl. unfold T. lia.
  - destruct H as (Hlo & _ & Hlen & HF). rewrite cnt_unfold.
    assert (E : S (length es + list_sum (map cnt cs)) = sum_succ cs) by (rewrite sum_succ_eq; lia).
    rewrite E. transitivity (length cs * T ^ S d).
    + change (T ^ S (S d)) with (T * T ^ S d). apply Nat.mul_le_mono_r. unfold T. lia.
    + apply sum_succ_ge. eapply Forall_impl; [|exact HF]. intros c Hc. now apply IH.
Qed.

(* a root (at least one entry) whose leaves are d levels below holds at least 2^(d+1) - 1 entries *)
Theorem bt_count_lower d t : wf 1 d t -> 2 ^ S d <= S (cnt t).
Proof.
  destruct d as [|d]; destruct t as [es cs]; intros H; cbn [Inv.wf] in H.
  - destruct H as (Hlo & _ & ->). rewrite cnt_unfold. simpl. lia.
  - destruct H as (Hlo & _ & Hlen & HF). rewrite cnt_unfold.
    assert (E : S (length es + list_sum (map cnt cs)) = sum_succ cs) by (rewrite sum_succ_eq; lia).
    rewrite E. transitivity (length cs * T ^ S d).
    + change (2 ^ S (S d)) with (2 * 2 ^ S d).
      apply Nat.mul_le_mono; [lia|]. apply Nat.pow_le_mono_l. apply T_ge_2.
    + apply sum_succ_ge. eapply Forall_impl; [|exact HF]. intros c Hc. now apply wf_count_lower.
Qed.

(* height = d + 1 levels <= log2 (n + 1) *)
Theorem bt_height_log d t : wf 1 d t -> S d <= Nat.log2 (S (cnt t)).
Proof. intros H. apply Nat.log2_le_pow2; [lia|]. now apply bt_count_lower. Qed.
End BTHeight.
