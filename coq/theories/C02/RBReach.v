(* C02, red-black tree: the full invariant (colour rules, black height, search-tree order, cached size) holds
   in every reachable state, and its boolean twin is correct. *)
From VF Require Import Common.Base C01.Order C01.SortedMap C01.SpecProofs C01.BinTree C01.BinTreeProofs
  C01.RB C01.RBProofs C02.Inv C02.RBProofs.
Local Open Scope Z_scope.

Section RBReach.
Context {K V : Type} {cmp : K -> K -> Z} (O : CmpLaws cmp).
Variable zeroV : V.

Lemma rb_step_shape s o :
  RBShape K V (RB.root s) -> RBShape K V (RB.root (fst (RB.step K V cmp zeroV s o))).
Proof.
  intros H. destruct o; cbn [RB.step fst RB.root]; auto.
  - now apply put_shape.
  - destruct (RB.is_some (lookup cmp k (RB.root s))); cbn [RB.root]; auto. now apply remove_shape.
  - apply RBShape_E.
Qed.

Theorem rb_reachable_inv ops :
  RBInv K V cmp (fst (run (RB.step K V cmp zeroV) (RB.empty K V) ops)).
Proof.
  pose proof (rb_run_related O zeroV ops) as (HS & He & Hsz).
  unfold RBInv. repeat split.
  - apply (run_invariant (RB.step K V cmp zeroV) (fun s => RBShape K V (RB.root s))).
    + intros s o. apply rb_step_shape.
    + apply RBShape_E.
  - rewrite He. exact HS.
  - rewrite He. exact Hsz.
Qed.

Theorem rb_inv_b_ok s : rb_inv_b K V cmp s = true <-> RBInv K V cmp s.
Proof.
  unfold rb_inv_b, RBInv. rewrite !andb_true_iff, rb_shape_b_ok, (sorted_b_ok O), Z.eqb_eq. tauto.
Qed.

(* what the invariant says, spelled out: black root, no red node with a red child, one black height *)
Theorem RBInv_meaning s : RBInv K V cmp s ->
  RB.is_red K V (RB.root s) = false /\ (exists n, rbt K V n (RB.root s)) /\
  sorted K V cmp (elements (RB.root s)) /\ RB.size s = Z.of_nat (count (RB.root s)).
Proof.
  intros ((n & H & Hb) & HS & Hsz). repeat split; eauto. now rewrite count_elements.
Qed.
End RBReach.
