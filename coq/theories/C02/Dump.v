(* C02: the pre-order dump the harness takes of a real tree through its exported pointers
   (Root/Left/Right/Children/Entries/Parent) and the verif accessors (colour, balance factor); the
   pointer layout of a model tree ([layout]); rebuilding a tree from a dump; the parent-link check.
   Definitions only (proofs in DumpProofs.v). *)
From VF Require Import Common.Base C01.BinTree C01.BTree.
Local Open Scope Z_scope.

Section BinDump.
Variables K V A : Type.
Variable keqb : K -> K -> bool.

(* one node: key, annotation (colour | balance factor), has left child, has right child, key of Parent (nil = None) *)
Record bnode := mkB { bn_key : K; bn_ann : A; bn_l : bool; bn_r : bool; bn_parent : option K }.

(* the dump of a model tree under the obvious pointer layout: every child's Parent is its actual parent *)
Fixpoint layout (p : option K) (t : BinTree.tree K V A) : list bnode :=
  match t with
  | E => []
  | T a l k _ r => mkB k a (negb (isE l)) (negb (isE r)) p :: layout (Some k) l ++ layout (Some k) r
  end.

(* rebuild the tree (values are not part of a dump) *)
Fixpoint parse (fuel : nat) (d : list bnode) : option (BinTree.tree K unit A * list bnode) :=
  match fuel with
  | O => None
  | S f =>
    match d with
    | [] => None
    | n :: d1 =>
      match (if bn_l n then parse f d1 else Some (E, d1)) with
      | None => None
      | Some (l, d2) =>
        match (if bn_r n then parse f d2 else Some (E, d2)) with
        | None => None
        | Some (r, d3) => Some (T (bn_ann n) l (bn_key n) tt r, d3)
        end
      end
    end
  end.
Definition rebuild (d : list bnode) : option (BinTree.tree K unit A) :=
  match d with
  | [] => Some E
  | _ => match parse (length d) d with Some (t, []) => Some t | _ => None end
  end.

Fixpoint erase (t : BinTree.tree K V A) : BinTree.tree K unit A :=
  match t with E => E | T a l k _ r => T a (erase l) k tt (erase r) end.

End BinDump.
Arguments mkB {K A}. Arguments bn_key {K A}. Arguments bn_ann {K A}. Arguments bn_l {K A}.
Arguments bn_r {K A}. Arguments bn_parent {K A}.
Arguments layout {K V A}. Arguments parse {K A}. Arguments rebuild {K A}. Arguments erase {K V A}.

(* every recorded Parent key is the key of the node's actual parent (None at the root) *)
Definition parent_ok_b {K A : Type} (keqb : K -> K -> bool) (d : list (bnode K A)) : bool :=
  match rebuild d with
  | Some t => list_eqb (option_eqb keqb) (map bn_parent (layout None t)) (map bn_parent d)
  | None => false
  end.

Section BTDump.
Variables K V : Type.
Variable keqb : K -> K -> bool.

(* one node: its keys, number of children, first key of Parent (nil = None) *)
Record mnode := mkM { mn_keys : list K; mn_nch : nat; mn_parent : option K }.

Fixpoint layout_bt (p : option K) (t : BTree.node K V) : list mnode :=
  match t with
  | Node es cs => mkM (map fst es) (length cs) p :: flat_map (layout_bt (hd_error (map fst es))) cs
  end.

(* parse c children with the node parser [pb] *)
Fixpoint parse_kids (pb : list mnode -> option (BTree.node K unit * list mnode)) (c : nat) (d : list mnode)
  : option (list (BTree.node K unit) * list mnode) :=
  match c with
  | O => Some ([], d)
  | S c' => match pb d with
            | None => None
            | Some (t, d') => match parse_kids pb c' d' with
                              | None => None
                              | Some (ts, d'') => Some (t :: ts, d'')
                              end
            end
  end.

Fixpoint parse_bt (fuel : nat) (d : list mnode) : option (BTree.node K unit * list mnode) :=
  match fuel with
  | O => None
  | S f =>
    match d with
    | [] => None
    | n :: d1 =>
      match parse_kids (parse_bt f) (mn_nch n) d1 with
      | None => None
      | Some (cs, d2) => Some (Node (map (fun k => (k, tt)) (mn_keys n)) cs, d2)
      end
    end
  end.
Definition rebuild_bt (d : list mnode) : option (option (BTree.node K unit)) :=
  match d with
  | [] => Some None
  | _ => match parse_bt (length d) d with Some (t, []) => Some (Some t) | _ => None end
  end.

Fixpoint erase_bt (t : BTree.node K V) : BTree.node K unit :=
  match t with
  | Node es cs => Node (map (fun e => (fst e, tt)) es) (map erase_bt cs)
  end.

Fixpoint nheight (t : BTree.node K V) : nat :=
  match t with Node _ cs => S (list_max (map nheight cs)) end.
End BTDump.
Arguments mkM {K}. Arguments mn_keys {K}. Arguments mn_nch {K}. Arguments mn_parent {K}.
Arguments layout_bt {K V}. Arguments parse_kids {K}. Arguments parse_bt {K}. Arguments rebuild_bt {K}. Arguments erase_bt {K V}. Arguments nheight {K V}.

Definition parent_ok_bt_b {K : Type} (keqb : K -> K -> bool) (d : list (mnode K)) : bool :=
  match rebuild_bt d with
  | Some (Some t) => list_eqb (option_eqb keqb) (map mn_parent (layout_bt None t)) (map mn_parent d)
  | Some None => true
  | None => false
  end.
