(* C02: the B-tree model (C01/BTree.v, any order m >= 3) keeps its shape invariant [wf] (uniform leaf depth,
   entry bounds, child counts) under Put/Remove and never runs out of fuel or indexes out of range
   ([stuck] stays false); the boolean twins of the invariant agree with the Props. *)
From VF Require Import Common.Base C01.Order C01.SortedMap C01.SpecProofs C01.BTree C02.Inv.
From Coq Require Import ZifyNat ZifyBool.
Ltac Zify.zify_post_hook ::= Z.div_mod_to_equations.

Section BTShapeProofs.
Variables K V : Type.
Variable cmp : K -> K -> Z.
Variable zeroV : V.
Variable m : nat.
Hypothesis m_ge_3 : (3 <= m)%nat.

Notation node := (BTree.node K V).
Notation entry := (BTree.entry K V).
Notation wf := (Inv.wf K V m).
Notation minE := (BTree.minE m).
Notation maxE := (BTree.maxE m).
Notation middle := (BTree.middle m).
Notation search := (BTree.search K V cmp).
Notation bsearch := (BTree.bsearch K V cmp).
Notation split_if := (BTree.split_if K V m).
Notation ins := (BTree.ins K V cmp m).
Notation fix_child := (BTree.fix_child K V m).
Notation del_max := (BTree.del_max K V m).
Notation del := (BTree.del K V cmp m).
Notation depth := (BTree.depth K V).
Notation get := (BTree.get K V cmp).
Notation rightmost := (BTree.rightmost K V).
Notation RN := (BTree.RN K V).
Notation RS := (BTree.RS K V).

Definition BTShapeOK (s : BTree.state K V) : Prop :=
  BTree.stuck s = false /\ BTShape K V m (BTree.root s).

(* ---------------- binary search stays inside its window ---------------- *)
Lemma bsearch_range fuel k es : forall lo hi, lo <= hi -> hi <= length es ->
  lo <= fst (bsearch fuel k es lo hi) <= hi /\
  (snd (bsearch fuel k es lo hi) = true -> fst (bsearch fuel k es lo hi) < hi).
Proof.
  induction fuel as [|f IH]; intros lo hi Hle Hhi; cbn [BTree.bsearch].
  - cbn [fst snd]. split; [lia|discriminate].
  - destruct (hi <=? lo) eqn:E; [cbn [fst snd]; split; [lia|discriminate]|].
    apply Nat.leb_gt in E.
    assert (Hmid : lo <= (lo + hi - 1) / 2 /\ (lo + hi - 1) / 2 < hi) by lia.
    destruct (nth_error es ((lo + hi - 1) / 2)) as [[k' v']|]; [|cbn [fst snd]; split; [lia|discriminate]].
    destruct (cmp k k' >? 0)%Z.
    + destruct (IH (S ((lo + hi - 1) / 2)) hi) as [H1 H2]; [lia|lia|]. split; [lia|exact H2].
    + destruct (cmp k k' <? 0)%Z.
      * destruct (IH lo ((lo + hi - 1) / 2)) as [H1 H2]; [lia|lia|]. split; [lia|]. intros Ht. specialize (H2 Ht). lia.
      * cbn [fst snd]. split; [lia|]. intros _. lia.
Qed.

Lemma search_le k es : fst (search k es) <= length es.
Proof. unfold BTree.search. destruct (bsearch_range (length es) k es 0 (length es)) as [H _]; lia. Qed.

Lemma search_found_lt k es i : search k es = (i, true) -> i < length es.
Proof.
  unfold BTree.search. intros H.
  destruct (bsearch_range (length es) k es 0 (length es)) as [_ H2]; [lia|lia|].
  rewrite H in H2. cbn [fst snd] in H2. auto.
Qed.

(* ---------------- list surgery ---------------- *)
Lemma length_insert_at {A} i (x : A) l : i <= length l -> length (insert_at i x l) = S (length l).
Proof. intros. unfold insert_at. rewrite app_length. simpl. rewrite firstn_length, skipn_length. lia. Qed.

Lemma length_set_nth {A} i (x : A) l : length (set_nth i x l) = length l.
Proof.
  unfold set_nth. rewrite app_length, firstn_length.
  destruct (skipn i l) eqn:E; simpl.
  - assert (H : length (skipn i l) = 0) by now rewrite E. rewrite skipn_length in H. lia.
  - assert (H : length (skipn i l) = S (length l0)) by now rewrite E. rewrite skipn_length in H. lia.
Qed.

Lemma Forall_firstn {A} (P : A -> Prop) n l : Forall P l -> Forall P (firstn n l).
Proof. intros H. rewrite <- (firstn_skipn n l) in H. apply Forall_app in H. tauto. Qed.
Lemma Forall_skipn {A} (P : A -> Prop) n l : Forall P l -> Forall P (skipn n l).
Proof. intros H. rewrite <- (firstn_skipn n l) in H. apply Forall_app in H. tauto. Qed.

Lemma Forall_set_nth {A} (P : A -> Prop) i x l : Forall P l -> P x -> Forall P (set_nth i x l).
Proof.
  intros HF Hx. unfold set_nth. apply Forall_app. split; [now apply Forall_firstn|].
  pose proof (Forall_skipn P i l HF) as Hs. destruct (skipn i l); auto. inversion Hs; subst. constructor; auto.
Qed.

Lemma nth_error_Forall {A} (P : A -> Prop) l i x : Forall P l -> nth_error l i = Some x -> P x.
Proof. intros HF H. rewrite Forall_forall in HF. apply HF. eapply nth_error_In; eauto. Qed.

Lemma nth_error_lt_Some {A} (l : list A) i : i < length l -> exists x, nth_error l i = Some x.
Proof. intros H. destruct (nth_error l i) eqn:E; [eauto|]. apply nth_error_None in E. lia. Qed.

Definition kids_ok (d : nat) (es : list entry) (cs : list node) : Prop :=
  match d with
  | O => cs = []
  | S d' => length cs = S (length es) /\ Forall (wf minE d') cs
  end.

Lemma wf_unfold lo d es cs : wf lo d (Node es cs) <-> lo <= length es /\ length es <= maxE /\ kids_ok d es cs.
Proof. destruct d; simpl; tauto. Qed.

Lemma arith_facts : middle <= maxE /\ minE <= middle /\ minE <= m - middle - 1 /\ m - middle - 1 <= maxE /\ 1 <= maxE.
Proof. unfold BTree.middle, BTree.minE, BTree.maxE. pose proof m_ge_3. lia. Qed.

Lemma minE_pos : 1 <= minE.
Proof. unfold BTree.minE. pose proof m_ge_3. lia. Qed.

Lemma wf_depth lo d t : wf lo d t -> depth t = d.
Proof.
  revert lo t. induction d as [|d IH]; intros lo [es cs] H; apply wf_unfold in H; destruct H as (_ & _ & Hk);
    cbn [kids_ok] in Hk; cbn [BTree.depth].
  - subst cs. reflexivity.
  - destruct Hk as [Hc HF]. destruct cs as [|c cs]; [simpl in Hc; discriminate|].
    inversion HF; subst. f_equal. eapply IH; eauto.
Qed.

(* ---------------- insert ---------------- *)
Lemma split_if_total es cs : split_if es cs <> None.
Proof.
  unfold BTree.split_if. destruct (maxE <? length es) eqn:E; [|discriminate].
  apply Nat.ltb_lt in E. pose proof arith_facts as (A1 & _).
  destruct (nth_error_lt_Some es middle) as [e He]; [lia|]. rewrite He. discriminate.
Qed.

Lemma split_if_wf lo d es cs r :
  lo <= length es -> length es <= S maxE -> kids_ok d es cs -> split_if es cs = Some r ->
  match r with BTree.RN _ _ t' => wf lo d t' | BTree.RS _ _ l e r' => wf minE d l /\ wf minE d r' end.
Proof.
  intros Hlo Hhi Hk. unfold BTree.split_if.
  destruct (maxE <? length es) eqn:E.
  - apply Nat.ltb_lt in E. assert (Hlen : length es = m) by (unfold BTree.maxE in *; lia).
    destruct (nth_error es middle) as [e|] eqn:En; [|discriminate]. intros H; inversion H; subst r; clear H.
    pose proof arith_facts as (A1 & A2 & A3 & A4 & A5). unfold BTree.maxE in *.
    split; apply wf_unfold.
    + rewrite firstn_length. split; [lia|]. split; [unfold BTree.maxE; lia|].
      destruct d; cbn [kids_ok] in *.
      * subst cs. rewrite ?firstn_nil; reflexivity.
      * destruct Hk as [Hc HF]. split; [|now apply Forall_firstn].
        rewrite !firstn_length. lia.
    + rewrite skipn_length. split; [lia|]. split; [unfold BTree.maxE; lia|].
      destruct d; cbn [kids_ok] in *.
      * subst cs. rewrite ?skipn_nil; reflexivity.
      * destruct Hk as [Hc HF]. split; [|now apply Forall_skipn].
        rewrite !skipn_length. lia.
  - apply Nat.ltb_ge in E. intros H; inversion H; subst r. apply wf_unfold. auto.
Qed.

Lemma ins_wf d : forall fuel lo t k v r b,
  wf lo d t -> ins fuel k v t = Some (r, b) ->
  match r with BTree.RN _ _ t' => wf lo d t' | BTree.RS _ _ l e r' => wf minE d l /\ wf minE d r' end.
Proof.
  induction d as [|d IH]; intros fuel lo [es cs] k v r b Hwf Hins;
    (destruct fuel as [|f]; [discriminate|]); cbn [BTree.ins] in Hins;
    apply wf_unfold in Hwf; destruct Hwf as (Hlo & Hhi & Hk);
    destruct (search k es) as [i found] eqn:Es;
    pose proof (search_le k es) as Hile; rewrite Es in Hile; simpl in Hile.
  - (* leaf *)
    simpl in Hk. subst cs. destruct found.
    + inversion Hins; subst. apply wf_unfold. simpl. rewrite ?length_set_nth. auto.
    + destruct (split_if (insert_at i (k, v) es) []) as [r'|] eqn:Esp; [|discriminate].
      inversion Hins; subst. eapply split_if_wf in Esp; eauto.
      * rewrite length_insert_at; lia.
      * rewrite length_insert_at; lia.
      * simpl. reflexivity.
  - (* internal *)
    destruct Hk as [Hc HF]. destruct found.
    + inversion Hins; subst. apply wf_unfold. simpl. rewrite ?length_set_nth. auto.
    + destruct cs as [|c0 cs']; [simpl in Hc; discriminate|].
      destruct (nth_error (c0 :: cs') i) as [c|] eqn:En; [|discriminate].
      pose proof (nth_error_Forall _ _ _ _ HF En) as Hcwf.
      destruct (ins f k v c) as [[[c'|l e r'] b']|] eqn:Ei; [| |discriminate].
      * inversion Hins; subst. apply (IH _ _ _ _ _ _ _ Hcwf) in Ei.
        apply wf_unfold. simpl. rewrite length_set_nth. repeat split; auto.
        apply Forall_set_nth; auto.
      * apply (IH _ _ _ _ _ _ _ Hcwf) in Ei. destruct Ei as [Hl Hr].
        destruct (split_if (insert_at i e es) (firstn i (c0 :: cs') ++ l :: r' :: skipn (S i) (c0 :: cs'))) as [r2|] eqn:Esp; [|discriminate].
        inversion Hins; subst. eapply split_if_wf in Esp; eauto.
        -- rewrite length_insert_at; lia.
        -- rewrite length_insert_at; lia.
        -- simpl. rewrite length_insert_at by lia. split.
           ++ rewrite app_length. simpl. rewrite firstn_length, skipn_length. simpl in *. lia.
           ++ apply Forall_app. split; [now apply Forall_firstn|].
              constructor; auto. constructor; auto. now apply Forall_skipn.
Qed.

Lemma ins_total d : forall fuel lo t k v, wf lo d t -> d < fuel -> ins fuel k v t <> None.
Proof.
  induction d as [|d IH]; intros fuel lo [es cs] k v Hwf Hfuel;
    (destruct fuel as [|f]; [lia|]); cbn [BTree.ins];
    apply wf_unfold in Hwf; destruct Hwf as (Hlo & Hhi & Hk); cbn [kids_ok] in Hk;
    destruct (search k es) as [i found] eqn:Es;
    pose proof (search_le k es) as Hile; rewrite Es in Hile; simpl in Hile;
    (destruct found; [discriminate|]).
  - subst cs. pose proof (split_if_total (insert_at i (k, v) es) []) as Hs.
    destruct (split_if (insert_at i (k, v) es) []); [discriminate|congruence].
  - destruct Hk as [Hc HF]. destruct cs as [|c0 cs']; [simpl in Hc; discriminate|].
    destruct (nth_error_lt_Some (c0 :: cs') i) as [c En]; [lia|]. rewrite En.
    pose proof (nth_error_Forall _ _ _ _ HF En) as Hcwf.
    pose proof (IH f _ c k v Hcwf ltac:(lia)) as Hrec.
    destruct (ins f k v c) as [[[c'|l e r'] b']|]; [discriminate| |congruence].
    match goal with |- context [split_if ?a ?b] => pose proof (split_if_total a b) as Hs; destruct (split_if a b) end;
      [discriminate|congruence].
Qed.

(* ---------------- delete: parent repairs a deficient child ---------------- *)
Lemma length_remove_nth {A} i (l : list A) : i < length l -> S (length (remove_nth i l)) = length l.
Proof. intros. unfold remove_nth. rewrite app_length, firstn_length, skipn_length. lia. Qed.
Lemma length_replace2 {A} i (a b : A) l : S i < length l -> length (replace2 i a b l) = length l.
Proof. intros. unfold replace2. rewrite app_length. simpl. rewrite firstn_length, skipn_length. lia. Qed.
Lemma length_merge2 {A} i (a : A) l : S i < length l -> S (length (merge2 i a l)) = length l.
Proof. intros. unfold merge2. rewrite app_length. simpl. rewrite firstn_length, skipn_length. lia. Qed.
Lemma length_removelast {A} (l : list A) : length (removelast l) = length l - 1.
Proof.
  induction l as [|a l IH]; [reflexivity|]. destruct l; [reflexivity|].
  change (removelast (a :: a0 :: l)) with (a :: removelast (a0 :: l)). simpl length in *. lia.
Qed.
Lemma Forall_removelast {A} (P : A -> Prop) l : Forall P l -> Forall P (removelast l).
Proof.
  induction l as [|a l IH]; intros H; [constructor|]. destruct l; [constructor|].
  inversion H; subst. change (removelast (a :: a0 :: l)) with (a :: removelast (a0 :: l)). constructor; auto.
Qed.
Lemma rev_head_In {A} (l : list A) x r : rev l = x :: r -> In x l.
Proof. intros H. apply in_rev. rewrite H. left; reflexivity. Qed.
Lemma rev_nil_iff {A} (l : list A) : rev l = [] <-> l = [].
Proof. split; intros H; [|subst; reflexivity]. destruct l; auto. simpl in H. destruct (rev l); discriminate. Qed.
Lemma Forall_tl {A} (P : A -> Prop) l : Forall P l -> Forall P (tl l).
Proof. destruct l; simpl; auto. inversion 1; auto. Qed.

Lemma kids_app d e1 c1 sep e2 c2 :
  kids_ok d e1 c1 -> kids_ok d e2 c2 -> kids_ok d (e1 ++ sep :: e2) (c1 ++ c2).
Proof.
  destruct d; cbn [kids_ok].
  - intros -> ->. reflexivity.
  - intros [H1 F1] [H2 F2]. split; [|apply Forall_app; auto].
    rewrite !app_length. simpl. lia.
Qed.

Lemma wf_lo_mono lo lo' d es cs : wf lo d (Node es cs) -> lo' <= length es -> wf lo' d (Node es cs).
Proof. rewrite !wf_unfold. tauto. Qed.

(* the four repairs, at the level of single nodes *)
Lemma borrow_left_nodes d le lc ne nc sep lastE restE :
  wf minE d (Node le lc) -> minE < length le -> wf (minE - 1) d (Node ne nc) -> length ne < minE ->
  rev le = lastE :: restE ->
  let nc' := match rev lc with [] => nc | lastC :: _ => lastC :: nc end in
  wf minE d (Node (removelast le) (removelast lc)) /\ wf minE d (Node (sep :: ne) nc').
Proof.
  intros HL Hsp HN Hlt Hrev nc'. apply wf_unfold in HL. apply wf_unfold in HN.
  destruct HL as (L1 & L2 & L3). destruct HN as (N1 & N2 & N3).
  pose proof arith_facts as (A1 & A2 & A3 & A4 & A5). pose proof minE_pos.
  split; apply wf_unfold.
  - rewrite length_removelast. split; [lia|]. split; [lia|].
    destruct d; cbn [kids_ok] in *.
    + subst lc. reflexivity.
    + destruct L3 as [Hc HF]. split; [|now apply Forall_removelast]. rewrite !length_removelast. lia.
  - simpl length. split; [lia|]. split; [lia|].
    destruct d; cbn [kids_ok] in *.
    + subst nc'. subst lc nc. reflexivity.
    + destruct L3 as [Hc HF]. destruct N3 as [Hnc HNF]. subst nc'.
      destruct (rev lc) as [|lastC rest] eqn:Er.
      * apply (f_equal (@length node)) in Er. rewrite rev_length in Er. simpl in Er. lia.
      * split; [simpl; lia|]. constructor; auto.
        rewrite Forall_forall in HF. apply HF. eapply rev_head_In; eauto.
Qed.

Lemma borrow_right_nodes d re' firstE rc ne nc sep :
  wf minE d (Node (firstE :: re') rc) -> minE < length (firstE :: re') ->
  wf (minE - 1) d (Node ne nc) -> length ne < minE ->
  let nc' := match rc with [] => nc | firstC :: _ => nc ++ [firstC] end in
  wf minE d (Node (ne ++ [sep]) nc') /\ wf minE d (Node re' (tl rc)).
Proof.
  intros HR Hsp HN Hlt nc'. apply wf_unfold in HR. apply wf_unfold in HN.
  destruct HR as (R1 & R2 & R3). destruct HN as (N1 & N2 & N3).
  pose proof arith_facts as (A1 & A2 & A3 & A4 & A5). pose proof minE_pos.
  simpl length in *.
  split; apply wf_unfold.
  - rewrite app_length. simpl length. split; [lia|]. split; [lia|].
    destruct d; cbn [kids_ok] in *.
    + subst nc'. subst rc nc. reflexivity.
    + destruct R3 as [Hc HF]. destruct N3 as [Hnc HNF]. subst nc'.
      destruct rc as [|firstC rc']; [simpl in Hc; lia|].
      split; [rewrite !app_length; simpl; lia|]. apply Forall_app. split; auto.
      inversion HF; subst. constructor; auto.
  - split; [lia|]. split; [lia|].
    destruct d; cbn [kids_ok] in *.
    + subst rc. reflexivity.
    + destruct R3 as [Hc HF]. split; [|now apply Forall_tl].
      destruct rc; simpl in *; lia.
Qed.

Lemma merge_nodes d e1 c1 sep e2 c2 :
  wf (minE - 1) d (Node e1 c1) -> wf (minE - 1) d (Node e2 c2) ->
  length e1 + length e2 + 1 <= 2 * minE -> minE <= length e1 + length e2 + 1 ->
  wf minE d (Node (e1 ++ sep :: e2) (c1 ++ c2)).
Proof.
  intros H1 H2 Hub Hlb. apply wf_unfold in H1. apply wf_unfold in H2.
  destruct H1 as (_ & _ & K1). destruct H2 as (_ & _ & K2).
  apply wf_unfold. rewrite app_length. simpl length.
  pose proof arith_facts as (A1 & A2 & A3 & A4 & A5). pose proof m_ge_3.
  split; [lia|]. split; [unfold BTree.minE, BTree.maxE in *; lia|]. now apply kids_app.
Qed.

(* ---- decomposed-list computations ---- *)
Lemma nth_error_mid {A} (pre : list A) x post : nth_error (pre ++ x :: post) (length pre) = Some x.
Proof. rewrite nth_error_app2 by lia. now rewrite Nat.sub_diag. Qed.
Lemma nth_error_mid_S {A} (pre : list A) x y post : nth_error (pre ++ x :: y :: post) (S (length pre)) = Some y.
Proof. rewrite nth_error_app2 by lia. replace (S (length pre) - length pre) with 1 by lia. reflexivity. Qed.
Lemma firstn_mid {A} (pre : list A) rest : firstn (length pre) (pre ++ rest) = pre.
Proof. rewrite firstn_app, Nat.sub_diag, firstn_all. rewrite firstn_O. now rewrite app_nil_r. Qed.
Lemma skipn_mid {A} (pre : list A) rest : skipn (length pre) (pre ++ rest) = rest.
Proof. rewrite skipn_app, Nat.sub_diag, skipn_all. reflexivity. Qed.
Lemma replace2_mid {A} (pre : list A) x y a b post :
  replace2 (length pre) a b (pre ++ x :: y :: post) = pre ++ a :: b :: post.
Proof.
  unfold replace2. rewrite firstn_mid.
  replace (S (S (length pre))) with (length (pre ++ [x; y])) by (rewrite app_length; simpl; lia).
  replace (pre ++ x :: y :: post) with ((pre ++ [x; y]) ++ post) by (rewrite <- app_assoc; reflexivity).
  now rewrite skipn_mid.
Qed.
Lemma merge2_mid {A} (pre : list A) x y a post :
  merge2 (length pre) a (pre ++ x :: y :: post) = pre ++ a :: post.
Proof.
  unfold merge2. rewrite firstn_mid.
  replace (S (S (length pre))) with (length (pre ++ [x; y])) by (rewrite app_length; simpl; lia).
  replace (pre ++ x :: y :: post) with ((pre ++ [x; y]) ++ post) by (rewrite <- app_assoc; reflexivity).
  now rewrite skipn_mid.
Qed.

Lemma nth_error_Some_lt {A} (l : list A) i x : nth_error l i = Some x -> i < length l.
Proof. intros H. apply nth_error_Some. congruence. Qed.

Lemma last_or_nil {A} (l : list A) : l = [] \/ exists l' a, l = l' ++ [a].
Proof.
  destruct l as [|x l]; [left; reflexivity|right].
  destruct (exists_last (l := x :: l)) as (l' & a & H); [discriminate|]. eauto.
Qed.

(* repairing child number [length pre] of a parent with entries es *)
Lemma fix_child_wf d es pre c post es' cs' :
  length (pre ++ c :: post) = S (length es) -> 1 <= length es ->
  Forall (wf minE d) pre -> Forall (wf minE d) post -> wf (minE - 1) d c ->
  fix_child es (pre ++ c :: post) (length pre) = Some (es', cs') ->
  length cs' = S (length es') /\ Forall (wf minE d) cs' /\
  length es' <= length es /\ length es <= S (length es').
Proof.
  intros Hlen Hes Hpre Hpost Hc. unfold BTree.fix_child. rewrite nth_error_mid.
  destruct c as [ne nc].
  destruct (minE <=? length ne) eqn:Eok.
  { apply Nat.leb_le in Eok. intros H; inversion H; subst. repeat split; auto.
    apply Forall_app. split; auto. constructor; auto. eapply wf_lo_mono; eauto. }
  apply Nat.leb_gt in Eok.
  assert (Hne : wf (minE - 1) d (Node ne nc)) by exact Hc.
  apply wf_unfold in Hc. destruct Hc as (C1 & C2 & C3).
  rewrite app_length in Hlen. simpl length in Hlen.
  pose proof minE_pos as Hmp.
  (* the two right-hand repairs, shared by both shapes of [pre] *)
  assert (Right : forall pre0, Forall (wf minE d) pre0 -> length pre0 + S (length post) = S (length es) ->
    match nth_error (pre0 ++ Node ne nc :: post) (S (length pre0)) with
    | Some (Node re rc) =>
      if minE <? length re
      then match nth_error es (length pre0) with
           | Some sep =>
             match re with
             | [] => None
             | firstE :: re' =>
               Some (set_nth (length pre0) firstE es,
                     replace2 (length pre0)
                       (Node (ne ++ [sep]) match rc with [] => nc | firstC :: _ => nc ++ [firstC] end)
                       (Node re' (tl rc)) (pre0 ++ Node ne nc :: post))
             end
           | None => None
           end
      else match nth_error es (length pre0) with
           | Some sep => Some (remove_nth (length pre0) es,
                               merge2 (length pre0) (Node (ne ++ sep :: re) (nc ++ rc)) (pre0 ++ Node ne nc :: post))
           | None => None
           end
    | None => None
    end = Some (es', cs') ->
    length cs' = S (length es') /\ Forall (wf minE d) cs' /\ length es' <= length es /\ length es <= S (length es')).
  { intros pre0 Hpre0 Hlen0.
    destruct post as [|[re rc] post']; [rewrite nth_error_app2 by lia;
      replace (S (length pre0) - length pre0) with 1 by lia; simpl; discriminate|].
    rewrite nth_error_mid_S. inversion Hpost as [|? ? HR Hpost']; subst.
    assert (HR' := HR). apply wf_unfold in HR'. destruct HR' as (R1 & R2 & R3).
    simpl length in Hlen0.
    destruct (minE <? length re) eqn:Esp.
    - apply Nat.ltb_lt in Esp.
      destruct (nth_error es (length pre0)) as [sep|] eqn:Esep; [|discriminate].
      destruct re as [|firstE re']; [discriminate|].
      intros H; inversion H; subst; clear H.
      rewrite replace2_mid, length_set_nth.
      destruct (borrow_right_nodes d re' firstE rc ne nc sep HR Esp Hne Eok) as [W1 W2].
      repeat split; try lia.
      + rewrite app_length. simpl. lia.
      + apply Forall_app. split; auto.
    - apply Nat.ltb_ge in Esp.
      destruct (nth_error es (length pre0)) as [sep|] eqn:Esep; [|discriminate].
      apply nth_error_Some_lt in Esep.
      intros H; inversion H; subst; clear H.
      rewrite merge2_mid. pose proof (length_remove_nth _ es Esep).
      repeat split; try lia.
      + rewrite app_length. simpl. lia.
      + apply Forall_app. split; auto. constructor; auto.
        apply merge_nodes; auto; try lia.
        apply wf_lo_mono with (lo := minE); auto. lia. }
  destruct (last_or_nil pre) as [->|(pre' & [le lc] & ->)].
  - (* leftmost child: only the right sibling can help *)
    simpl length. cbn [nth_error].
    specialize (Right [] (Forall_nil _)). simpl length in Right. simpl app in Right.
    destruct post as [|[re rc] post'].
    + simpl in Hlen. lia.
    + cbn [nth_error] in *. intros H. apply Right; auto.
  - (* there is a left sibling L = Node le lc *)
    apply Forall_app in Hpre. destruct Hpre as [Hpre' HLs]. inversion HLs as [|? ? HL _]; subst.
    assert (HL' := HL). apply wf_unfold in HL'. destruct HL' as (L1 & L2 & L3).
    rewrite app_length in *. simpl length in *.
    replace (length pre' + 1) with (S (length pre')) in * by lia.
    rewrite <- app_assoc. simpl app.
    rewrite nth_error_mid.
    destruct (minE <? length le) eqn:Esp.
    + (* borrow from the left *)
      apply Nat.ltb_lt in Esp.
      replace (S (length pre') - 1) with (length pre') by lia.
      destruct (nth_error es (length pre')) as [sep|] eqn:Esep; [|discriminate].
      destruct (rev le) as [|lastE restE] eqn:Erev; [discriminate|].
      intros H; inversion H; subst; clear H.
      rewrite replace2_mid, length_set_nth.
      destruct (borrow_left_nodes d le lc ne nc sep lastE restE HL Esp Hne Eok Erev) as [W1 W2].
      repeat split; try lia.
      * rewrite app_length. simpl. lia.
      * apply Forall_app. split; auto.
    + apply Nat.ltb_ge in Esp.
      (* look right first *)
      pose proof (Right (pre' ++ [Node le lc])) as Right'.
      rewrite app_length in Right'. simpl length in Right'.
      replace (length pre' + 1) with (S (length pre')) in Right' by lia.
      rewrite <- app_assoc in Right'. simpl app in Right'.
      destruct (nth_error (pre' ++ Node le lc :: Node ne nc :: post) (S (S (length pre')))) as [[re rc]|] eqn:Er.
      * intros H. apply Right'; [apply Forall_app; split; auto|lia|exact H].
      * (* no right sibling: merge with the left one *)
        replace (S (length pre') - 1) with (length pre') by lia.
        destruct (nth_error es (length pre')) as [sep|] eqn:Esep; [|discriminate].
        apply nth_error_Some_lt in Esep.
        intros H; inversion H; subst; clear H.
        rewrite merge2_mid. pose proof (length_remove_nth _ es Esep).
        repeat split; try lia.
        -- rewrite app_length. simpl. lia.
        -- apply Forall_app. split; auto. constructor; auto.
           apply merge_nodes; auto; try lia.
           apply wf_lo_mono with (lo := minE); auto. lia.
Qed.

(* the repair never indexes out of range *)
Lemma fix_child_total es cs i : length cs = S (length es) -> i < length cs -> fix_child es cs i <> None.
Proof.
  intros Hlen Hi. unfold BTree.fix_child.
  destruct (nth_error_lt_Some cs i Hi) as [[ne nc] En]. rewrite En.
  destruct (minE <=? length ne); [discriminate|].
  assert (Right : nth_error cs (S i) <> None ->
    match nth_error cs (S i) with
    | Some (Node re rc) =>
      if minE <? length re
      then match nth_error es i, re with
           | Some sep, firstE :: re' =>
               Some (set_nth i firstE es,
                     replace2 i (Node (ne ++ [sep]) match rc with [] => nc | firstC :: _ => nc ++ [firstC] end)
                       (Node re' (tl rc)) cs)
           | _, _ => None
           end
      else match nth_error es i with
           | Some sep => Some (remove_nth i es, merge2 i (Node (ne ++ sep :: re) (nc ++ rc)) cs)
           | None => None
           end
    | None => None
    end <> None).
  { intros Hr. destruct (nth_error cs (S i)) as [[re rc]|] eqn:Er; [|congruence].
    apply nth_error_Some_lt in Er.
    destruct (nth_error_lt_Some es i) as [sep Esep]; [lia|]. rewrite Esep.
    destruct (minE <? length re) eqn:Esp; [|discriminate].
    apply Nat.ltb_lt in Esp. destruct re; [simpl in Esp; lia|discriminate]. }
  destruct i as [|j].
  - destruct (nth_error cs 1) as [[re rc]|] eqn:Er; [|discriminate].
    apply Right. discriminate.
  - destruct (nth_error_lt_Some cs j) as [[lE lC] El]; [lia|]. rewrite El.
    replace (S j - 1) with j by lia.
    destruct (nth_error_lt_Some es j) as [sep Esep]; [lia|]. rewrite Esep.
    destruct (minE <? length lE) eqn:Esp.
    + apply Nat.ltb_lt in Esp. destruct (rev lE) eqn:Erev; [|discriminate].
      apply (proj1 (rev_nil_iff _)) in Erev. subst lE. simpl in Esp. lia.
    + destruct (nth_error cs (S (S j))) as [[re rc]|] eqn:Er; [|discriminate].
      apply Right. discriminate.
Qed.

(* ---------------- recursive delete ---------------- *)
Lemma skipn_S_tail {A} : forall i (l : list A) a t, skipn i l = a :: t -> skipn (S i) l = t.
Proof.
  induction i as [|i IH]; intros l a t H.
  - rewrite skipn_O in H. subst. reflexivity.
  - destruct l as [|b l]; [rewrite skipn_nil in H; discriminate|]. rewrite skipn_cons in *. eauto.
Qed.

Lemma set_nth_decomp {A} (l : list A) i x y :
  nth_error l i = Some y -> set_nth i x l = firstn i l ++ x :: skipn (S i) l /\ length (firstn i l) = i.
Proof.
  intros H. pose proof (nth_error_Some_lt _ _ _ H) as Hlt. unfold set_nth.
  rewrite firstn_length. split; [|lia]. f_equal.
  destruct (skipn i l) as [|a t] eqn:E.
  - apply (f_equal (@length A)) in E. rewrite skipn_length in E. simpl in E. lia.
  - now rewrite (skipn_S_tail _ _ _ _ E).
Qed.

Lemma fix_child_in_parent d lo es cs i c' es' cs' c :
  1 <= lo -> lo <= length es -> length es <= maxE ->
  length cs = S (length es) -> Forall (wf minE d) cs ->
  nth_error cs i = Some c -> wf (minE - 1) d c' ->
  fix_child es (set_nth i c' cs) i = Some (es', cs') ->
  wf (lo - 1) (S d) (Node es' cs').
Proof.
  intros Hlo1 Hlo Hhi Hc HF Hn Hc' Hfix.
  destruct (set_nth_decomp cs i c' c Hn) as [Hd Hl]. rewrite Hd in Hfix.
  replace (fix_child es (firstn i cs ++ c' :: skipn (S i) cs) i)
    with (fix_child es (firstn i cs ++ c' :: skipn (S i) cs) (length (firstn i cs))) in Hfix
    by (rewrite Hl; reflexivity).
  apply fix_child_wf with (d := d) in Hfix; auto.
  - destruct Hfix as (H1 & H2 & H3 & H4). apply wf_unfold. cbn [kids_ok]. repeat split; auto; lia.
  - rewrite <- Hd. rewrite length_set_nth. exact Hc.
  - lia.
  - now apply Forall_firstn.
  - now apply Forall_skipn.
Qed.

Lemma del_max_wf d : forall fuel lo t e t',
  1 <= lo -> wf lo d t -> del_max fuel t = Some (e, t') -> wf (lo - 1) d t'.
Proof.
  induction d as [|d IH]; intros fuel lo [es cs] e t' Hlo1 Hwf Hdm;
    (destruct fuel as [|f]; [discriminate|]); cbn [BTree.del_max] in Hdm;
    apply wf_unfold in Hwf; destruct Hwf as (Hlo & Hhi & Hk); cbn [kids_ok] in Hk.
  - subst cs. destruct (rev es) as [|e0 r] eqn:Er; [discriminate|]. inversion Hdm; subst.
    apply wf_unfold. cbn [kids_ok]. rewrite length_removelast. repeat split; auto; lia.
  - destruct Hk as [Hc HF]. destruct cs as [|c0 cs']; [simpl in Hc; discriminate|].
    remember (c0 :: cs') as cs eqn:Hcs.
    destruct (nth_error cs (length cs - 1)) as [c|] eqn:En; [|discriminate].
    destruct (del_max f c) as [[e1 c1]|] eqn:Ed; [|discriminate].
    destruct (fix_child es (set_nth (length cs - 1) c1 cs) (length cs - 1)) as [[es' cs'']|] eqn:Ef; [|discriminate].
    inversion Hdm; subst e1 t'.
    pose proof (nth_error_Forall _ _ _ _ HF En) as Hcwf.
    assert (Hc1 : wf (minE - 1) d c1) by (eapply IH; eauto using minE_pos).
    eapply fix_child_in_parent; eauto.
Qed.

Lemma del_max_total d : forall fuel lo t, 1 <= lo -> wf lo d t -> d < fuel -> del_max fuel t <> None.
Proof.
  induction d as [|d IH]; intros fuel lo [es cs] Hlo1 Hwf Hfuel;
    (destruct fuel as [|f]; [lia|]); cbn [BTree.del_max];
    apply wf_unfold in Hwf; destruct Hwf as (Hlo & Hhi & Hk); cbn [kids_ok] in Hk.
  - subst cs. destruct (rev es) eqn:Er; [|discriminate]. apply (proj1 (rev_nil_iff _)) in Er. subst es. simpl in Hlo. lia.
  - destruct Hk as [Hc HF]. destruct cs as [|c0 cs']; [simpl in Hc; discriminate|].
    remember (c0 :: cs') as cs eqn:Hcs.
    destruct (nth_error_lt_Some cs (length cs - 1)) as [c En]; [lia|]. rewrite En.
    pose proof (nth_error_Forall _ _ _ _ HF En) as Hcwf.
    pose proof (IH f _ c minE_pos Hcwf ltac:(lia)) as Hrec.
    destruct (del_max f c) as [[e1 c1]|]; [|congruence].
    pose proof (fix_child_total es (set_nth (length cs - 1) c1 cs) (length cs - 1)) as Hfx.
    rewrite length_set_nth in Hfx. specialize (Hfx Hc ltac:(lia)).
    destruct (fix_child es (set_nth (length cs - 1) c1 cs) (length cs - 1)) as [[es' cs'']|]; [discriminate|congruence].
Qed.

Lemma length_remove_nth_le {A} i (l : list A) : i < length l -> length (remove_nth i l) = length l - 1.
Proof. intros H. pose proof (length_remove_nth i l H). lia. Qed.

Lemma del_wf d : forall fuel lo k t t' b,
  1 <= lo -> wf lo d t -> del fuel k t = Some (t', b) -> wf (lo - 1) d t'.
Proof.
  induction d as [|d IH]; intros fuel lo k [es cs] t' b Hlo1 Hwf Hdel;
    (destruct fuel as [|f]; [discriminate|]); cbn [BTree.del] in Hdel;
    assert (Hwf0 := Hwf); apply wf_unfold in Hwf; destruct Hwf as (Hlo & Hhi & Hk); cbn [kids_ok] in Hk;
    destruct (search k es) as [i found] eqn:Es.
  - subst cs. destruct found.
    + inversion Hdel; subst. apply search_found_lt in Es.
      apply wf_unfold. cbn [kids_ok]. rewrite length_remove_nth_le by auto. repeat split; auto; lia.
    + inversion Hdel; subst. eapply wf_lo_mono; eauto. lia.
  - destruct Hk as [Hc HF]. destruct cs as [|c0 cs']; [simpl in Hc; discriminate|].
    remember (c0 :: cs') as cs eqn:Hcs.
    destruct (nth_error cs i) as [c|] eqn:En; [|discriminate].
    pose proof (nth_error_Forall _ _ _ _ HF En) as Hcwf.
    destruct found.
    + destruct (del_max f c) as [[e1 c1]|] eqn:Ed; [|discriminate].
      destruct (fix_child (set_nth i e1 es) (set_nth i c1 cs) i) as [[es' cs'']|] eqn:Ef; [|discriminate].
      inversion Hdel; subst.
      assert (Hc1 : wf (minE - 1) d c1) by (eapply del_max_wf; eauto using minE_pos).
      eapply fix_child_in_parent with (es := set_nth i e1 es); eauto; rewrite ?length_set_nth; auto.
    + destruct (del f k c) as [[c1 [|]]|] eqn:Ed; [| |discriminate].
      * destruct (fix_child es (set_nth i c1 cs) i) as [[es' cs'']|] eqn:Ef; [|discriminate].
        inversion Hdel; subst.
        assert (Hc1 : wf (minE - 1) d c1) by (eapply IH; eauto using minE_pos).
        eapply fix_child_in_parent; eauto.
      * inversion Hdel; subst. eapply wf_lo_mono; eauto. lia.
Qed.

Lemma del_total d : forall fuel lo k t, wf lo d t -> d < fuel -> del fuel k t <> None.
Proof.
  induction d as [|d IH]; intros fuel lo k [es cs] Hwf Hfuel;
    (destruct fuel as [|f]; [lia|]); cbn [BTree.del];
    apply wf_unfold in Hwf; destruct Hwf as (Hlo & Hhi & Hk); cbn [kids_ok] in Hk;
    destruct (search k es) as [i found] eqn:Es;
    pose proof (search_le k es) as Hile; rewrite Es in Hile; simpl in Hile.
  - subst cs. destruct found; discriminate.
  - destruct Hk as [Hc HF]. destruct cs as [|c0 cs']; [simpl in Hc; discriminate|].
    remember (c0 :: cs') as cs eqn:Hcs.
    destruct (nth_error_lt_Some cs i) as [c En]; [lia|]. rewrite En.
    pose proof (nth_error_Forall _ _ _ _ HF En) as Hcwf.
    pose proof (nth_error_Some_lt _ _ _ En) as Hilt.
    destruct found.
    + pose proof (del_max_total d f _ c minE_pos Hcwf ltac:(lia)) as Hrec.
      destruct (del_max f c) as [[e1 c1]|]; [|congruence].
      pose proof (fix_child_total (set_nth i e1 es) (set_nth i c1 cs) i) as Hfx.
      rewrite !length_set_nth in Hfx. specialize (Hfx Hc Hilt).
      destruct (fix_child (set_nth i e1 es) (set_nth i c1 cs) i) as [[es' cs'']|]; [discriminate|congruence].
    + pose proof (IH f _ k c Hcwf ltac:(lia)) as Hrec.
      destruct (del f k c) as [[c1 [|]]|]; [|discriminate|congruence].
      pose proof (fix_child_total es (set_nth i c1 cs) i) as Hfx.
      rewrite !length_set_nth in Hfx. specialize (Hfx Hc Hilt).
      destruct (fix_child es (set_nth i c1 cs) i) as [[es' cs'']|]; [discriminate|congruence].
Qed.

(* ---------------- read-only walks never get stuck ---------------- *)
Lemma get_total d : forall fuel lo k t, wf lo d t -> d < fuel -> get fuel k t <> None.
Proof.
  induction d as [|d IH]; intros fuel lo k [es cs] Hwf Hfuel;
    (destruct fuel as [|f]; [lia|]); cbn [BTree.get];
    apply wf_unfold in Hwf; destruct Hwf as (Hlo & Hhi & Hk); cbn [kids_ok] in Hk;
    destruct (search k es) as [i found] eqn:Es;
    pose proof (search_le k es) as Hile; rewrite Es in Hile; simpl in Hile;
    (destruct found;
      [apply search_found_lt in Es; destruct (nth_error_lt_Some es i Es) as [[k' v'] Ee]; rewrite Ee; discriminate|]).
  - subst cs. discriminate.
  - destruct Hk as [Hc HF]. destruct cs as [|c0 cs']; [simpl in Hc; discriminate|].
    destruct (nth_error_lt_Some (c0 :: cs') i) as [c En]; [lia|]. rewrite En.
    pose proof (nth_error_Forall _ _ _ _ HF En) as Hcwf.
    eapply IH; eauto. lia.
Qed.

Lemma rightmost_total d : forall fuel lo t, wf lo d t -> d < fuel -> rightmost fuel t <> None.
Proof.
  induction d as [|d IH]; intros fuel lo [es cs] Hwf Hfuel;
    (destruct fuel as [|f]; [lia|]); cbn [BTree.rightmost];
    apply wf_unfold in Hwf; destruct Hwf as (Hlo & Hhi & Hk); cbn [kids_ok] in Hk.
  - subst cs. discriminate.
  - destruct Hk as [Hc HF]. destruct cs as [|c0 cs']; [simpl in Hc; discriminate|].
    remember (c0 :: cs') as cs eqn:Hcs.
    destruct (nth_error_lt_Some cs (length cs - 1)) as [c En]; [lia|]. rewrite En.
    pose proof (nth_error_Forall _ _ _ _ HF En) as Hcwf.
    eapply IH; eauto. lia.
Qed.

(* ---------------- the container ---------------- *)
Lemma wf_singleton e : wf 1 0 (Node [e] []).
Proof. apply wf_unfold. cbn [kids_ok]. simpl. pose proof arith_facts. repeat split; auto; lia. Qed.

Lemma wf_new_root d l e r : wf minE d l -> wf minE d r -> wf 1 (S d) (Node [e] [l; r]).
Proof.
  intros Hl Hr. apply wf_unfold. cbn [kids_ok]. simpl length. pose proof arith_facts. repeat split; auto; lia.
Qed.

Theorem bt_put_shape k v s : BTShapeOK s -> BTShapeOK (BTree.put K V cmp m k v s).
Proof.
  intros [Hst Hsh]. unfold BTree.put, BTShapeOK, BTShape in *.
  destruct (BTree.root s) as [r|].
  - destruct Hsh as [d Hwf]. rewrite (wf_depth _ _ _ Hwf).
    pose proof (ins_total d (S d) 1 r k v Hwf ltac:(lia)) as Htot.
    destruct (ins (S d) k v r) as [[[r'|l e r'] b]|] eqn:Ei; [| |congruence]; cbn [BTree.root BTree.stuck].
    + split; auto. exists d. apply (ins_wf d _ _ _ _ _ _ _ Hwf Ei).
    + split; auto. destruct (ins_wf d _ _ _ _ _ _ _ Hwf Ei) as [Hl Hr].
      exists (S d). now apply wf_new_root.
  - cbn [BTree.root BTree.stuck]. split; auto. exists 0. apply wf_singleton.
Qed.

Theorem bt_remove_shape k s : BTShapeOK s -> BTShapeOK (BTree.remove K V cmp m k s).
Proof.
  intros [Hst Hsh]. unfold BTree.remove, BTShapeOK, BTShape in *.
  destruct (BTree.root s) as [r|] eqn:Er; [|rewrite Er; auto].
  destruct Hsh as [d Hwf]. rewrite (wf_depth _ _ _ Hwf).
  pose proof (del_total d (S d) 1 k r Hwf ltac:(lia)) as Htot.
  destruct (del (S d) k r) as [[r' b]|] eqn:Ed; [|congruence].
  pose proof (del_wf d _ _ _ _ _ _ (le_n 1) Hwf Ed) as Hr'. simpl in Hr'.
  destruct b; [|rewrite Er; split; eauto].
  cbn [BTree.root BTree.stuck]. split; auto.
  destruct r' as [es cs]. destruct es as [|e es].
  - destruct cs as [|c cs]; [exact I|].
    apply wf_unfold in Hr'. destruct Hr' as (_ & _ & Hk). destruct d; cbn [kids_ok] in Hk; [discriminate|].
    destruct Hk as [Hc HF]. inversion HF as [|? ? Hcw _]; subst. exists d.
    destruct c as [ces ccs]. eapply wf_lo_mono; eauto. apply wf_unfold in Hcw. pose proof minE_pos. lia.
  - exists d. apply wf_unfold in Hr'. destruct Hr' as (H1 & H2 & H3).
    apply wf_unfold. simpl length in *. repeat split; auto; lia.
Qed.

Lemma empty_shape : BTShapeOK (BTree.empty K V).
Proof. split; [reflexivity|exact I]. Qed.

Theorem bt_step_shape s o : BTShapeOK s -> BTShapeOK (fst (BTree.step K V cmp zeroV m s o)).
Proof.
  intros Hs. assert (Hs0 := Hs). destruct Hs0 as [Hst Hsh]. unfold BTree.step. rewrite Hst.
  destruct o; cbn [fst]; auto using bt_put_shape, bt_remove_shape, empty_shape.
  - (* Get *)
    unfold BTShape in Hsh. destruct (BTree.root s) as [r|]; [|exact Hs].
    destruct Hsh as [d Hwf]. rewrite (wf_depth _ _ _ Hwf).
    pose proof (get_total d (S d) 1 k r Hwf ltac:(lia)) as Htot.
    destruct (get (S d) k r) as [[v|]|]; [exact Hs|exact Hs|congruence].
  - (* Right *)
    unfold BTShape in Hsh. destruct (BTree.root s) as [r|]; [|exact Hs].
    destruct Hsh as [d Hwf]. rewrite (wf_depth _ _ _ Hwf).
    pose proof (rightmost_total d (S d) 1 r Hwf ltac:(lia)) as Htot.
    destruct (rightmost (S d) r) as [e|]; [exact Hs|congruence].
Qed.

Theorem bt_reachable_shape ops :
  BTShapeOK (fst (run (BTree.step K V cmp zeroV m) (BTree.empty K V) ops)).
Proof. apply run_invariant; [intros s o; apply bt_step_shape|apply empty_shape]. Qed.

(* ---------------- boolean twins ---------------- *)
Theorem wf_b_ok lo d t : wf_b K V m lo d t = true <-> wf lo d t.
Proof.
  revert lo t. induction d as [|d IH]; intros lo [es cs]; cbn [Inv.wf_b Inv.wf].
  - rewrite !andb_true_iff, Nat.leb_le, Nat.leb_le. destruct cs; intuition congruence.
  - rewrite !andb_true_iff, Nat.leb_le, Nat.leb_le, Nat.eqb_eq, forallb_forall, Forall_forall.
    split.
    + intros [[H1 H2] [H3 H4]]. repeat split; auto. intros x Hx. apply IH. auto.
    + intros (H1 & H2 & H3 & H4). repeat split; auto. intros x Hx. apply IH. auto.
Qed.

Theorem bt_shape_b_ok r : bt_shape_b K V m r = true <-> BTShape K V m r.
Proof.
  destruct r as [t|]; cbn [Inv.bt_shape_b Inv.BTShape]; [|tauto].
  rewrite wf_b_ok. split.
  - eauto.
  - intros [d Hwf]. rewrite (wf_depth _ _ _ Hwf). exact Hwf.
Qed.

End BTShapeProofs.

Print Assumptions bt_put_shape.
Print Assumptions bt_remove_shape.
Print Assumptions bt_step_shape.
Print Assumptions bt_reachable_shape.
Print Assumptions wf_b_ok.
Print Assumptions bt_shape_b_ok.
Print Assumptions wf_depth.
