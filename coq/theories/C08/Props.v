(* C08 property theorems. Nothing but statements closed by [exact]/[apply] and Print Assumptions.
   [qrun step s ops] folds a step function over Enqueue/Push (QEnq), bulk Push (QPush), Dequeue/Pop (QDeq), Peek,
   Clear, Values, Size, Empty, Full and collects the results (RPanic = the code would panic). *)
From VF Require Import C07.Model C07.ProofsArray C08.Model C08.Spec C08.Proofs C08.ProofsCirc C08.ProofsHeap.
Local Open Scope nat_scope.

(* circular buffer, EVERY capacity >= 1, every interleaving: holds the last cap elements, dequeues oldest first *)
Theorem C08_circ : forall cap, 1 <= cap -> forall ops,
  snd (qrun cb_step (cb0 cap) ops) = snd (qrun (lastn_step cap) [] ops).
Proof. exact cb_lastn. Qed.

(* array / linked queue are FIFO; array / linked stack are LIFO - results of every call equal the reference's *)
Theorem C08_arrayqueue : forall ops, snd (qrun aq_step al0 ops) = snd (qrun fifo_step [] ops).
Proof. exact aq_fifo. Qed.
Theorem C08_linkedlistqueue : forall ops, snd (qrun lq_step ll0 ops) = snd (qrun fifo_step [] ops).
Proof. exact lq_fifo. Qed.
Theorem C08_arraystack : forall ops, snd (qrun as_step al0 ops) = snd (qrun lifo_step [] ops).
Proof. exact as_lifo. Qed.
Theorem C08_linkedliststack : forall ops, snd (qrun ls_step ll0 ops) = snd (qrun lifo_step [] ops).
Proof. exact ls_lifo. Qed.

(* binary heap = priority queue (Enqueue = Push of one value), for every comparator that is total and transitive and
   EVERY operation list (single and bulk Push, Pop, Peek, Clear, Values, Size, Empty): the stored prefix of the array
   satisfies the heap order after every operation, no call panics, and the results are accepted by the multiset
   discipline [bag_accept]: Pop/Peek return (v, true) with v IN the reference multiset and le v x for every x in it -
   Pop removes exactly one occurrence -, (_, false) iff it is empty; Values() is a permutation of the multiset
   (perm_b, decided soundly and completely: C08_perm_b); Size/Empty are exact. *)
Definition HeapInv (le : Z -> Z -> bool) (a : al) : Prop := exists l, RA a l /\ heap_ok le l.

Theorem C08_heap : forall le : Z -> Z -> bool,
  (forall a b, le a b = true \/ le b a = true) ->
  (forall a b c, le a b = true -> le b c = true -> le a c = true) ->
  forall ops,
  HeapInv le (fst (qrun (heap_step le) al0 ops)) /\
  bag_accept le [] (combine ops (snd (qrun (heap_step le) al0 ops))) = true.
Proof.
  intros le T Tr ops. destruct (heap_run_ok le T Tr ops al0 [] (HI_init le)) as (A & bag & l & R & O & _).
  split; [exists l; auto|exact A].
Qed.

(* Peek shows what the next Pop returns, in every reachable state *)
Theorem C08_heap_peek_is_next_pop : forall le : Z -> Z -> bool,
  (forall a b, le a b = true \/ le b a = true) ->
  (forall a b c, le a b = true -> le b c = true -> le a c = true) ->
  forall ops, let s := fst (qrun (heap_step le) al0 ops) in
  snd (heap_step le s QPeek) = snd (heap_step le s QDeq).
Proof.
  intros le T Tr ops s. destruct (heap_run_ok le T Tr ops al0 [] (HI_init le)) as (_ & bag & H).
  exact (peek_is_next_pop le T Tr _ bag H).
Qed.

Theorem C08_perm_b : forall l1 l2, perm_b l1 l2 = true <-> Permutation l1 l2.
Proof. intros l1 l2. split; [apply perm_b_sound|apply perm_b_complete]. Qed.

(* the reference of the circular buffer after enqueuing vs into an empty one: the last cap of them *)
Theorem C08_spec_lastn : forall cap vs, 1 <= cap -> fold_left (lastn_enq cap) vs [] = skipn (length vs - cap) vs.
Proof. exact lastn_meaning. Qed.

(* the heap order gives a minimum at the root *)
Theorem C08_heap_root_is_min : forall le : Z -> Z -> bool,
  (forall a b, le a b = true \/ le b a = true) ->
  (forall a b c, le a b = true -> le b c = true -> le a c = true) ->
  forall l, heap_ok le l -> forall i, i < length l -> le (nth 0 l 0%Z) (nth i l 0%Z) = true.
Proof. exact root_min. Qed.

(* the two comparators the harness uses are total and transitive *)
Theorem C08_int_comparators :
  (forall a b, le_int a b = true \/ le_int b a = true) /\
  (forall a b c, le_int a b = true -> le_int b c = true -> le_int a c = true) /\
  (forall a b, le_rev a b = true \/ le_rev b a = true) /\
  (forall a b c, le_rev a b = true -> le_rev b c = true -> le_rev a c = true).
Proof. unfold le_int, le_rev. repeat split; intros; rewrite ?Z.leb_le in *; lia. Qed.

(* every comparator shape the harness uses (cmpsel: -1/0/+1, its reverse, a-b, b-a, (a-b)*7, struct priority
   subtraction) satisfies the premises of C08_heap *)
Theorem C08_cmpsel_orders : forall s,
  (forall a b, le_sel s a b = true \/ le_sel s b a = true) /\
  (forall a b c, le_sel s a b = true -> le_sel s b c = true -> le_sel s a c = true).
Proof.
  intros s. unfold le_sel. split.
  - intros a b. rewrite !Z.leb_le. destruct s; cbn [cmp_sel];
      repeat match goal with |- context [if ?c then _ else _] => destruct c eqn:? end;
      rewrite ?Z.ltb_lt, ?Z.ltb_ge, ?Z.eqb_eq, ?Z.eqb_neq in *; lia.
  - intros a b c. rewrite !Z.leb_le. destruct s; cbn [cmp_sel];
      repeat match goal with |- context [if ?c then _ else _] => destruct c eqn:? end;
      rewrite ?Z.ltb_lt, ?Z.ltb_ge, ?Z.eqb_eq, ?Z.eqb_neq in *; lia.
Qed.

(* non-vacuity: wrap-around of a 2-slot ring with zero values; a heap run with bulk push and duplicates *)
Local Open Scope Z_scope.
Example C08_nonvacuous :
  snd (qrun cb_step (cb0 2) [QEnq 0; QEnq 1; QEnq 0; QDeq; QDeq; QDeq; QValues])
    = [RUnit; RUnit; RUnit; RGet 1 true; RGet 0 true; RGet 0 false; RList []]
  /\ snd (qrun (heap_step le_int) al0 [QPush [3; 0; 2; 0; 1]; QDeq; QDeq; QEnq (-1); QPeek; QDeq; QDeq; QSize])
    = [RUnit; RGet 0 true; RGet 0 true; RUnit; RGet (-1) true; RGet (-1) true; RGet 1 true; RInt 2].
Proof. split; vm_compute; reflexivity. Qed.

Print Assumptions C08_circ.
Print Assumptions C08_arrayqueue.
Print Assumptions C08_linkedlistqueue.
Print Assumptions C08_arraystack.
Print Assumptions C08_linkedliststack.
Print Assumptions C08_heap.
Print Assumptions C08_perm_b.
Print Assumptions C08_spec_lastn.
Print Assumptions C08_heap_peek_is_next_pop.
Print Assumptions C08_heap_root_is_min.
Print Assumptions C08_int_comparators.
Print Assumptions C08_cmpsel_orders.
