(* C08 lemmas, part 2: the circular buffer (with repair 0021) holds the last cap elements, oldest first,
   for every capacity cap >= 1. Ported from notes/spikes/CircBuf_refinement_spike.v to the Panic-aware model. *)
From VF Require Import C07.Model C07.Spec C07.Proofs C07.ProofsArray C08.Model C08.Spec C08.Proofs.
Local Open Scope nat_scope.

Lemma skipn_nth_cons (l : list Z) i : i < length l -> skipn i l = nth i l 0%Z :: skipn (S i) l.
Proof. revert i. induction l as [|a l IH]; intros [|i] H; simpl in *; try lia; auto. apply IH. lia. Qed.

Section CB.
Variable cap : nat.
Hypothesis cap_pos : 1 <= cap.

Record CInv (q : cb) (l : list Z) : Prop := {
  ci_max : cb_max q = cap;
  ci_len : length (cb_v q) = cap;
  ci_st : cb_s q < cap;
  ci_size : cb_n q = length l;
  ci_le : length l <= cap;
  ci_en : cb_e q = (cb_s q + length l) mod cap;
  ci_full : cb_f q = (length l =? cap);
  ci_vals : forall i, i < length l -> nth ((cb_s q + i) mod cap) (cb_v q) 0%Z = nth i l 0%Z
}.

Lemma wrap_succ a : a < cap -> (if cap <=? a + 1 then 0 else a + 1) = (a + 1) mod cap.
Proof.
  intros H. destruct (cap <=? a + 1) eqn:E.
  - apply Nat.leb_le in E. assert (E' : a + 1 = cap) by lia. rewrite E'. now rewrite Nat.mod_same by lia.
  - apply Nat.leb_gt in E. now rewrite Nat.mod_small by lia.
Qed.

Lemma mod_wrap a m : a < cap -> m <= cap -> (a + m) mod cap = if a + m <? cap then a + m else a + m - cap.
Proof.
  intros Ha Hm. destruct (a + m <? cap) eqn:E.
  - apply Nat.ltb_lt in E. now apply Nat.mod_small.
  - apply Nat.ltb_ge in E. replace (a + m) with ((a + m - cap) + 1 * cap) at 1 by lia.
    rewrite Nat.mod_add by lia. apply Nat.mod_small. lia.
Qed.

Lemma mod_inj_small a i j : a < cap -> i < cap -> j < cap -> (a + i) mod cap = (a + j) mod cap -> i = j.
Proof.
  intros Ha Hi Hj. rewrite !mod_wrap by lia.
  destruct (a + i <? cap) eqn:E1; destruct (a + j <? cap) eqn:E2;
    rewrite ?Nat.ltb_lt, ?Nat.ltb_ge in *; lia.
Qed.

Lemma empty_inv : CInv (cb_clear cap) [].
Proof.
  constructor; simpl; try lia; auto.
  - apply repeat_length.
  - rewrite Nat.mod_small; lia.
  - destruct cap; [lia|reflexivity].
Qed.

Lemma dequeue_nil q : CInv q [] -> cb_dequeue q = Ok (q, (0%Z, false)).
Proof. intros I. unfold cb_dequeue. rewrite (ci_size _ _ I). reflexivity. Qed.

Lemma dequeue_cons q x l : CInv q (x :: l) -> exists q', cb_dequeue q = Ok (q', (x, true)) /\ CInv q' l.
Proof.
  intros [Hmax Hlen Hst Hsize Hle Hen Hfull Hvals]. unfold cb_dequeue. simpl length in *.
  rewrite Hsize. cbn [Nat.eqb]. rewrite load_ok, store_ok by lia. cbn [bind].
  assert (Hx : nth (cb_s q) (cb_v q) 0%Z = x).
  { specialize (Hvals 0). rewrite Nat.add_0_r, Nat.mod_small in Hvals by lia. apply Hvals. lia. }
  rewrite Hx, Hmax. eexists; split; [reflexivity|].
  rewrite wrap_succ by auto.
  constructor; cbn [cb_v cb_s cb_e cb_f cb_n cb_max]; auto.
  - now rewrite upd_length.
  - apply Nat.mod_upper_bound. lia.
  - lia.
  - lia.
  - rewrite Hen. rewrite Nat.add_mod_idemp_l by lia. f_equal. lia.
  - symmetry. apply Nat.eqb_neq. lia.
  - intros i Hi. rewrite Nat.add_mod_idemp_l by lia.
    replace (cb_s q + 1 + i) with (cb_s q + S i) by lia.
    rewrite nth_upd_other.
    + apply (Hvals (S i)). lia.
    + intros Hc. assert (E0 : cb_s q = (cb_s q + 0) mod cap) by (rewrite Nat.add_0_r, Nat.mod_small; lia).
      rewrite E0 in Hc at 1. apply mod_inj_small in Hc; lia.
Qed.

Lemma enqueue_room q l v : CInv q l -> length l < cap ->
  exists q', cb_enqueue v q = Ok q' /\ CInv q' (l ++ [v]).
Proof.
  intros [Hmax Hlen Hst Hsize Hle Hen Hfull Hvals] Hroom. unfold cb_enqueue.
  assert (E0 : (cb_n q =? cb_max q) = false) by (apply Nat.eqb_neq; lia). rewrite E0. cbn [bind].
  assert (Hen_lt : cb_e q < cap) by (rewrite Hen; apply Nat.mod_upper_bound; lia).
  rewrite store_ok by lia. cbn [bind]. rewrite Hmax. eexists; split; [reflexivity|].
  rewrite wrap_succ by auto.
  assert (He' : (cb_e q + 1) mod cap = (cb_s q + (length l + 1)) mod cap).
  { rewrite Hen. rewrite Nat.add_mod_idemp_l by lia. f_equal. lia. }
  rewrite He'. rewrite (mod_wrap (cb_s q) (length l + 1)) by lia.
  assert (Hfq : cb_f q = false) by (rewrite Hfull; apply Nat.eqb_neq; lia).
  constructor; cbn [cb_v cb_s cb_e cb_f cb_n cb_max]; rewrite ?app_length; simpl length; auto.
  - now rewrite upd_length.
  - unfold cb_calc. rewrite Hfq.
    destruct (cb_s q + (length l + 1) <? cap) eqn:E1.
    + apply Nat.ltb_lt in E1.
      assert (E2 : (cb_s q + (length l + 1) <? cb_s q) = false) by (apply Nat.ltb_ge; lia).
      assert (E3 : (cb_s q + (length l + 1) =? cb_s q) = false) by (apply Nat.eqb_neq; lia).
      rewrite E2, E3. lia.
    + apply Nat.ltb_ge in E1.
      destruct (cb_s q + (length l + 1) - cap =? cb_s q) eqn:E3.
      * apply Nat.eqb_eq in E3.
        assert (E2 : (cb_s q + (length l + 1) - cap <? cb_s q) = false) by (apply Nat.ltb_ge; lia).
        rewrite E2. lia.
      * apply Nat.eqb_neq in E3.
        assert (E2 : (cb_s q + (length l + 1) - cap <? cb_s q) = true) by (apply Nat.ltb_lt; lia).
        rewrite E2. lia.
  - lia.
  - rewrite (mod_wrap (cb_s q) (length l + 1)) by lia. reflexivity.
  - rewrite Hfq.
    destruct (cb_s q + (length l + 1) <? cap) eqn:E1.
    + apply Nat.ltb_lt in E1.
      assert (E3 : (cb_s q + (length l + 1) =? cb_s q) = false) by (apply Nat.eqb_neq; lia). rewrite E3.
      symmetry. apply Nat.eqb_neq. lia.
    + apply Nat.ltb_ge in E1.
      destruct (cb_s q + (length l + 1) - cap =? cb_s q) eqn:E3.
      * apply Nat.eqb_eq in E3. symmetry. apply Nat.eqb_eq. lia.
      * apply Nat.eqb_neq in E3. symmetry. apply Nat.eqb_neq. lia.
  - intros i Hi. destruct (Nat.eq_dec i (length l)) as [->|Hne].
    + rewrite <- Hen. rewrite nth_upd_same by lia. rewrite app_nth2 by lia. now rewrite Nat.sub_diag.
    + rewrite nth_upd_other.
      * rewrite app_nth1 by lia. apply Hvals. lia.
      * rewrite Hen. intros Hc. apply mod_inj_small in Hc; lia.
Qed.

Lemma enqueue_ok q l v : CInv q l -> exists q', cb_enqueue v q = Ok q' /\ CInv q' (lastn_enq cap l v).
Proof.
  intros HI. unfold lastn_enq. destruct (length l =? cap) eqn:E.
  - apply Nat.eqb_eq in E. destruct l as [|x l']; [simpl in E; lia|].
    destruct (dequeue_cons q x l' HI) as (q1 & D & HI1).
    assert (Hsz : cb_n q = cb_max q) by (rewrite (ci_size _ _ HI), (ci_max _ _ HI); exact E).
    destruct (enqueue_room q1 l' v HI1) as (q2 & E2 & HI2); [simpl in E; lia|].
    exists q2. split; [|exact HI2]. unfold cb_enqueue in *. rewrite Hsz, Nat.eqb_refl, D. cbn [bind fst].
    assert (E1 : (cb_n q1 =? cb_max q1) = false).
    { apply Nat.eqb_neq. rewrite (ci_size _ _ HI1), (ci_max _ _ HI1). simpl in E. lia. }
    rewrite E1 in E2. exact E2.
  - apply Nat.eqb_neq in E. apply enqueue_room; auto. pose proof (ci_le _ _ HI). lia.
Qed.

Lemma values_ok q l : CInv q l -> cb_values q = Ok l.
Proof.
  intros [Hmax Hlen Hst Hsize Hle Hen Hfull Hvals]. unfold cb_values. rewrite Hsize, Hmax.
  assert (E : (cap =? 0) = false) by (apply Nat.eqb_neq; lia). rewrite E.
  assert (G : forall k, k <= length l ->
            mapM (fun i => load (cb_v q) ((cb_s q + i) mod cap)) (seq (length l - k) k) = Ok (skipn (length l - k) l)).
  { induction k as [|k IH]; intros Hk.
    - simpl. now rewrite Nat.sub_0_r, skipn_all.
    - cbn [seq mapM]. rewrite load_ok by (rewrite Hlen; apply Nat.mod_upper_bound; lia). cbn [bind].
      rewrite Hvals by lia. replace (S (length l - S k)) with (length l - k) by lia.
      rewrite IH by lia. cbn [bind]. f_equal.
      rewrite (skipn_nth_cons l (length l - S k)) by lia. replace (S (length l - S k)) with (length l - k) by lia. reflexivity. }
  specialize (G (length l) (le_n _)). now rewrite Nat.sub_diag in G.
Qed.

Lemma peek_ok q l : CInv q l -> cb_peek q = Ok (match l with [] => (0%Z, false) | x :: _ => (x, true) end).
Proof.
  intros I. unfold cb_peek. rewrite (ci_size _ _ I). destruct l as [|x t]; [reflexivity|].
  cbn [length Nat.eqb]. rewrite load_ok by (rewrite (ci_len _ _ I); apply (ci_st _ _ I)). cbn [bind].
  pose proof (ci_vals _ _ I 0) as V. rewrite Nat.add_0_r, Nat.mod_small in V by apply (ci_st _ _ I).
  rewrite V by (simpl; lia). reflexivity.
Qed.

Lemma push_many vs : forall q l, CInv q l ->
  exists q', fold_left (fun m v => bind m (cb_enqueue v)) vs (Ok q) = Ok q' /\ CInv q' (fold_left (lastn_enq cap) vs l).
Proof.
  induction vs as [|v t IH]; intros q l I; cbn [fold_left bind].
  - exists q. auto.
  - destruct (enqueue_ok q l v I) as (q1 & E1 & I1). rewrite E1. apply IH. exact I1.
Qed.

Lemma cb_step_sim q l o : CInv q l ->
  CInv (fst (cb_step q o)) (fst (lastn_step cap l o)) /\ snd (cb_step q o) = snd (lastn_step cap l o).
Proof.
  intros I. destruct o; cbn [cb_step lastn_step fifo_step fst snd].
  - destruct (enqueue_ok q l v I) as (q' & E & I'). rewrite E. simpl. auto.
  - destruct (push_many vs q l I) as (q' & E & I'). rewrite E. simpl. auto.
  - destruct l as [|x t].
    + rewrite (dequeue_nil q I). simpl. auto.
    + destruct (dequeue_cons q x t I) as (q' & E & I'). rewrite E. simpl. auto.
  - rewrite (peek_ok q l I). destruct l; simpl; auto.
  - rewrite (ci_max _ _ I). split; [apply empty_inv|reflexivity].
  - rewrite (values_ok q l I). simpl. auto.
  - simpl. rewrite (ci_size _ _ I). auto.
  - simpl. rewrite (ci_size _ _ I). auto.
  - simpl. rewrite (ci_size _ _ I), (ci_max _ _ I). auto.
Qed.

Theorem cb_lastn : forall ops, snd (qrun cb_step (cb0 cap) ops) = snd (qrun (lastn_step cap) [] ops).
Proof. intros ops. apply (qrun_sim cb_step (lastn_step cap) CInv cb_step_sim ops (cb0 cap) []). apply empty_inv. Qed.
End CB.
