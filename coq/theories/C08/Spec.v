(* C08 specification: FIFO list, "last cap elements, oldest first", LIFO list, and the multiset with
   "pop returns a minimum" (a relation on what was returned, decided by [bag_accept]). *)
From VF Require Export C08.Model.
Local Open Scope nat_scope.

Definition hd_res (l : list Z) : res := match l with [] => RGet 0%Z false | x :: _ => RGet x true end.

(* FIFO: state = queued elements, oldest first *)
Definition fifo_step (l : list Z) (o : qop) : list Z * res :=
  match o with
  | QEnq v => (l ++ [v], RUnit)
  | QPush vs => (l ++ vs, RUnit)
  | QDeq => (tl l, hd_res l)
  | QPeek => (l, hd_res l)
  | QClear => ([], RUnit)
  | QValues => (l, RList l)
  | QSize => (l, RInt (Z.of_nat (length l)))
  | QEmpty => (l, RBool (length l =? 0))
  | QFull => (l, RBool false)
  end.

(* circular buffer of capacity cap: the most recent cap elements, oldest first *)
Definition lastn_enq (cap : nat) (l : list Z) (v : Z) : list Z := (if length l =? cap then tl l else l) ++ [v].
Definition lastn_step (cap : nat) (l : list Z) (o : qop) : list Z * res :=
  match o with
  | QEnq v => (lastn_enq cap l v, RUnit)
  | QPush vs => (fold_left (lastn_enq cap) vs l, RUnit)
  | QFull => (l, RBool (length l =? cap))
  | _ => fifo_step l o
  end.

(* LIFO: state = stacked elements, top first; Values lists top first *)
Definition lifo_step (l : list Z) (o : qop) : list Z * res :=
  match o with
  | QEnq v => (v :: l, RUnit)
  | QPush vs => (rev vs ++ l, RUnit)
  | _ => fifo_step l o
  end.

(* ---------- multiset with minimum ---------- *)
Fixpoint remove_one (v : Z) (l : list Z) : option (list Z) :=
  match l with
  | [] => None
  | x :: t => if (x =? v)%Z then Some t else match remove_one v t with Some t' => Some (x :: t') | None => None end
  end.
Fixpoint perm_b (l1 l2 : list Z) : bool :=
  match l1 with
  | [] => match l2 with [] => true | _ => false end
  | x :: t => match remove_one x l2 with Some l2' => perm_b t l2' | None => false end
  end.

Section Bag.
Variable le : Z -> Z -> bool.
(* is (v, ok) an acceptable answer for "a minimum of bag"? *)
Definition is_min_of (bag : list Z) (v : Z) : bool := existsb (Z.eqb v) bag && forallb (le v) bag.

(* one observed call against the bag: Some bag' if what was returned is allowed, None otherwise *)
Definition bag_step (bag : list Z) (o : qop) (r : res) : option (list Z) :=
  match o, r with
  | QEnq v, RUnit => Some (v :: bag)
  | QPush vs, RUnit => Some (vs ++ bag)
  | QDeq, RGet v ok =>
    match bag with
    | [] => if negb ok then Some [] else None
    | _ => if ok && is_min_of bag v then remove_one v bag else None
    end
  | QPeek, RGet v ok =>
    match bag with
    | [] => if negb ok then Some [] else None
    | _ => if ok && is_min_of bag v then Some bag else None
    end
  | QClear, RUnit => Some []
  | QValues, RList l => if perm_b l bag then Some bag else None
  | QSize, RInt z => if (z =? Z.of_nat (length bag))%Z then Some bag else None
  | QEmpty, RBool b => if Bool.eqb b (length bag =? 0) then Some bag else None
  | QFull, RBool false => Some bag
  | _, _ => None
  end.

Fixpoint bag_accept (bag : list Z) (xs : list (qop * res)) : bool :=
  match xs with
  | [] => true
  | (o, r) :: t => match bag_step bag o r with Some bag' => bag_accept bag' t | None => false end
  end.
End Bag.
