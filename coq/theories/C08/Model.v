(* C08 model: queues, stacks, heap with element type int. NO proofs in this file.

   circularbuffer  exactly as the code (values/start/end/full/size/maxSize), with repair 0021 (D19) applied:
                   Dequeue always clears the slot and advances start (the zero-value test is gone).
   arrayqueue / arraystack        thin layers over the C07 array-list model (al_add, al_get, al_remove ...)
   linkedlistqueue / linkedliststack  thin layers over the C07 singly-linked model (ll_add, ll_get, ll_remove with sl_locate)
   binaryheap      on the array list: bubbleUp, bubbleDownIndex (with its ignored out-of-range Get returning the
                   zero value), single Push = Add + bubbleUp, bulk Push = Add one by one + heapify from size/2+1 down to 0;
                   Values() goes through the iterator: Value() at index i builds a temporary heap of i's level and pops.
   priorityqueue   = binaryheap (Enqueue = Push of one value).
   The comparator enters as [le a b] = (Comparator(a,b) <= 0); Comparator(a,b) > 0 is [negb (le a b)]. *)
From VF Require Export C07.Model.
Local Open Scope nat_scope.

Inductive qop :=
| QEnq (v : Z)            (* Enqueue / Push of one value *)
| QPush (vs : list Z)     (* binaryheap.Push(values...) *)
| QDeq                    (* Dequeue / Pop *)
| QPeek | QClear | QValues | QSize | QEmpty
| QFull.                  (* circularbuffer only *)

(* results reuse C07.Model.res: RUnit | RGet v ok | RBool | RInt | RList | RPanic *)

(* ================= circular buffer ================= *)
Record cb := { cb_v : list Z; cb_s : nat; cb_e : nat; cb_f : bool; cb_n : nat; cb_max : nat }.

(* Clear (also used by New): values = make([]E, maxSize); start = end = 0; full = false; size = 0 *)
Definition cb_clear (mx : nat) : cb :=
  {| cb_v := repeat 0%Z mx; cb_s := 0; cb_e := 0; cb_f := false; cb_n := 0; cb_max := mx |}.
Definition cb0 := cb_clear.

Definition cb_calc (mx s e : nat) (f : bool) : nat :=
  if e <? s then mx - s + e else if e =? s then (if f then mx else 0) else e - s.

(* Dequeue, repaired: value = values[start]; values[start] = zero; start++ (wrap); full = false; size-- *)
Definition cb_dequeue (q : cb) : M (cb * (Z * bool)) :=
  if cb_n q =? 0 then Ok (q, (0%Z, false)) else
  bind (load (cb_v q) (cb_s q)) (fun x =>
  bind (store (cb_v q) (cb_s q) 0%Z) (fun v' =>
  let s1 := cb_s q + 1 in
  let s2 := if cb_max q <=? s1 then 0 else s1 in
  Ok ({| cb_v := v'; cb_s := s2; cb_e := cb_e q; cb_f := false; cb_n := cb_n q - 1; cb_max := cb_max q |}, (x, true)))).

(* Enqueue: if Full() { Dequeue() }; values[end] = value; end++ (wrap); if end == start { full = true }; size = calculateSize() *)
Definition cb_enqueue (v : Z) (q : cb) : M cb :=
  bind (if cb_n q =? cb_max q then bind (cb_dequeue q) (fun r => Ok (fst r)) else Ok q) (fun q1 =>
  bind (store (cb_v q1) (cb_e q1) v) (fun v' =>
  let e1 := cb_e q1 + 1 in
  let e2 := if cb_max q1 <=? e1 then 0 else e1 in
  let f2 := if e2 =? cb_s q1 then true else cb_f q1 in
  Ok {| cb_v := v'; cb_s := cb_s q1; cb_e := e2; cb_f := f2; cb_n := cb_calc (cb_max q1) (cb_s q1) e2 f2; cb_max := cb_max q1 |})).

Definition cb_peek (q : cb) : M (Z * bool) :=
  if cb_n q =? 0 then Ok (0%Z, false) else bind (load (cb_v q) (cb_s q)) (fun x => Ok (x, true)).

(* for i := 0; i < Size(); i++ { values[i] = queue.values[(start+i) % maxSize] } *)
Definition cb_values (q : cb) : M (list Z) :=
  mapM (fun i => if cb_max q =? 0 then Panic else load (cb_v q) ((cb_s q + i) mod cb_max q)) (seq 0 (cb_n q)).

Definition qmut {S} (s : S) (m : M S) : S * res :=
  match m with Ok s' => (s', RUnit) | Panic => (s, RPanic) end.
Definition qget {S} (s : S) (m : M (S * (Z * bool))) : S * res :=
  match m with Ok (s', (v, ok)) => (s', RGet v ok) | Panic => (s, RPanic) end.
Definition qqry {S A} (s : S) (m : M A) (f : A -> res) : S * res :=
  match m with Ok a => (s, f a) | Panic => (s, RPanic) end.

Definition cb_step (q : cb) (o : qop) : cb * res :=
  match o with
  | QEnq v => qmut q (cb_enqueue v q)
  | QPush vs => qmut q (fold_left (fun m v => bind m (cb_enqueue v)) vs (Ok q))     (* not a method: never sent *)
  | QDeq => qget q (cb_dequeue q)
  | QPeek => qqry q (cb_peek q) (fun r => RGet (fst r) (snd r))
  | QClear => (cb_clear (cb_max q), RUnit)
  | QValues => qqry q (cb_values q) RList
  | QSize => (q, RInt (Z.of_nat (cb_n q)))
  | QEmpty => (q, RBool (cb_n q =? 0))
  | QFull => (q, RBool (cb_n q =? cb_max q))
  end.

(* ================= array queue / array stack over the array list ================= *)
(* arrayqueue.Dequeue: value, ok = list.Get(0); if ok { list.Remove(0) } *)
Definition aq_dequeue (a : al) : M (al * (Z * bool)) :=
  bind (al_get 0 a) (fun r => if snd r then bind (al_remove 0 a) (fun a' => Ok (a', r)) else Ok (a, r)).

Definition aq_step (a : al) (o : qop) : al * res :=
  match o with
  | QEnq v => qmut a (al_add [v] a)
  | QPush vs => qmut a (fold_left (fun m v => bind m (al_add [v])) vs (Ok a))
  | QDeq => qget a (aq_dequeue a)
  | QPeek => qqry a (al_get 0 a) (fun r => RGet (fst r) (snd r))
  | QClear => (al_clear, RUnit)
  | QValues => qqry a (al_values a) RList
  | QSize => (a, RInt (Z.of_nat (al_n a)))
  | QEmpty => (a, RBool (al_n a =? 0))
  | QFull => (a, RBool false)
  end.

(* arraystack.Pop: value, ok = list.Get(size-1); list.Remove(size-1)   (Remove also when the stack is empty: ignored) *)
Definition as_top (a : al) : Z := (Z.of_nat (al_n a) - 1)%Z.
Definition as_pop (a : al) : M (al * (Z * bool)) :=
  bind (al_get (as_top a) a) (fun r => bind (al_remove (as_top a) a) (fun a' => Ok (a', r))).
(* Values: for i := 1; i <= size; i++ { elements[size-i], _ = list.Get(i-1) } *)
Definition as_values (a : al) : M (list Z) :=
  bind (mapM (fun i => al_get i a) (zrange 0 (al_n a))) (fun rs => Ok (rev (map fst rs))).

Definition as_step (a : al) (o : qop) : al * res :=
  match o with
  | QEnq v => qmut a (al_add [v] a)
  | QPush vs => qmut a (fold_left (fun m v => bind m (al_add [v])) vs (Ok a))
  | QDeq => qget a (as_pop a)
  | QPeek => qqry a (al_get (as_top a) a) (fun r => RGet (fst r) (snd r))
  | QClear => (al_clear, RUnit)
  | QValues => qqry a (as_values a) RList
  | QSize => (a, RInt (Z.of_nat (al_n a)))
  | QEmpty => (a, RBool (al_n a =? 0))
  | QFull => (a, RBool false)
  end.

(* ================= linked queue / linked stack over the singly linked list ================= *)
Definition lq_dequeue (s : ll) : M (ll * (Z * bool)) :=
  bind (ll_get sl_locate 0 s) (fun r => if snd r then bind (ll_remove sl_locate 0 s) (fun s' => Ok (s', r)) else Ok (s, r)).

Definition lq_step (s : ll) (o : qop) : ll * res :=
  match o with
  | QEnq v => qmut s (ll_add [v] s)
  | QPush vs => qmut s (fold_left (fun m v => bind m (ll_add [v])) vs (Ok s))
  | QDeq => qget s (lq_dequeue s)
  | QPeek => qqry s (ll_get sl_locate 0 s) (fun r => RGet (fst r) (snd r))
  | QClear => (ll_clear, RUnit)
  | QValues => qqry s (ll_values s) RList
  | QSize => (s, RInt (Z.of_nat (ll_n s)))
  | QEmpty => (s, RBool (ll_n s =? 0))
  | QFull => (s, RBool false)
  end.

(* linkedliststack: Push = Prepend(value); Pop: value, ok = Get(0); Remove(0) *)
Definition ls_pop (s : ll) : M (ll * (Z * bool)) :=
  bind (ll_get sl_locate 0 s) (fun r => bind (ll_remove sl_locate 0 s) (fun s' => Ok (s', r))).

Definition ls_step (s : ll) (o : qop) : ll * res :=
  match o with
  | QEnq v => qmut s (sl_prepend_rev [v] s)
  | QPush vs => qmut s (fold_left (fun m v => bind m (sl_prepend_rev [v])) vs (Ok s))
  | QDeq => qget s (ls_pop s)
  | QPeek => qqry s (ll_get sl_locate 0 s) (fun r => RGet (fst r) (snd r))
  | QClear => (ll_clear, RUnit)
  | QValues => qqry s (ll_values s) RList
  | QSize => (s, RInt (Z.of_nat (ll_n s)))
  | QEmpty => (s, RBool (ll_n s =? 0))
  | QFull => (s, RBool false)
  end.

(* ================= binary heap on the array list ================= *)
Section Heap.
Variable le : Z -> Z -> bool.

Definition hget (i : nat) (a : al) : M Z := bind (al_get (Z.of_nat i) a) (fun r => Ok (fst r)).   (* value, _ := list.Get(i) *)
Definition hswap (i j : nat) (a : al) : M al := al_swap (Z.of_nat i) (Z.of_nat j) a.

(* bubbleUp: index := size-1; for parent := (index-1)>>1; index > 0; parent = (index-1)>>1 { ... }.
   The index at least halves per iteration: fuel = index is enough (fuel 0 is reached only with index 0). *)
Fixpoint bubble_up (fuel idx : nat) (a : al) : M al :=
  match fuel with
  | O => Ok a
  | S f =>
    if idx =? 0 then Ok a else
    let p := (idx - 1) / 2 in
    bind (hget idx a) (fun iv => bind (hget p a) (fun pv =>
    if le pv iv then Ok a                                   (* Comparator(parent, index) <= 0: break *)
    else bind (hswap idx p a) (bubble_up f p)))
  end.

(* bubbleDownIndex(index): for left := 2*index+1; left < size; ... ; index grows every iteration: fuel = size *)
Fixpoint bubble_down (fuel idx : nat) (a : al) : M al :=
  match fuel with
  | O => Ok a
  | S f =>
    let size := al_n a in
    let left := 2 * idx + 1 in
    if left <? size then
      let right := 2 * idx + 2 in
      bind (hget left a) (fun lv => bind (hget right a) (fun rv =>
      let smaller := if (right <? size) && negb (le lv rv) then right else left in
      bind (hget idx a) (fun iv => bind (hget smaller a) (fun sv =>
      if negb (le iv sv) then bind (hswap idx smaller a) (bubble_down f smaller) else Ok a))))
    else Ok a
  end.

(* for i := size/2+1; i >= 0; i-- { bubbleDownIndex(i) }  as  k+1 calls with i = k, k-1, ..., 0 *)
Fixpoint heapify (k : nat) (a : al) : M al :=
  bind (bubble_down (al_n a) k a) (fun a' => match k with O => Ok a' | S k' => heapify k' a' end).

Definition heap_push (vs : list Z) (a : al) : M al :=
  match vs with
  | [v] => bind (al_add [v] a) (fun a1 => bubble_up (al_n a1 - 1) (al_n a1 - 1) a1)
  | _ => bind (fold_left (fun m v => bind m (al_add [v])) vs (Ok a)) (fun a1 => heapify (al_n a1 / 2 + 1) a1)
  end.

(* Pop: value, ok = Get(0); if !ok return; Swap(0, last); Remove(last); bubbleDown() *)
Definition heap_pop (a : al) : M (al * (Z * bool)) :=
  bind (al_get 0 a) (fun r =>
  if snd r then
    let last := al_n a - 1 in
    bind (hswap 0 last a) (fun a1 => bind (al_remove (Z.of_nat last) a1) (fun a2 =>
    bind (bubble_down (al_n a2) 0 a2) (fun a3 => Ok (a3, r))))
  else Ok (a, r)).

(* iterator.Value() at index i: evaluateRange, temporary heap of the level, i-start pops, one more pop *)
Definition level_start (i : nat) : nat := 2 ^ Nat.log2 (i + 1) - 1.
Definition level_end (i : nat) : nat := level_start i + 2 ^ Nat.log2 (i + 1).
Fixpoint pops (k : nat) (t : al) : M al :=
  match k with O => Ok t | S k' => bind (heap_pop t) (fun r => pops k' (fst r)) end.
Definition heap_value_at (a : al) (i : nat) : M Z :=
  let st := level_start i in
  let en := Nat.min (level_end i) (al_n a) in
  bind (fold_left (fun m n => bind m (fun t => bind (hget n a) (fun v => heap_push [v] t))) (seq st (en - st)) (Ok al0)) (fun t =>
  bind (pops (i - st) t) (fun t1 => bind (heap_pop t1) (fun r => Ok (fst (snd r))))).
(* Values(): for it := heap.Iterator(); it.Next(); { values[it.Index()] = it.Value() } *)
Definition heap_values (a : al) : M (list Z) := mapM (heap_value_at a) (seq 0 (al_n a)).

Definition heap_step (a : al) (o : qop) : al * res :=
  match o with
  | QEnq v => qmut a (heap_push [v] a)
  | QPush vs => qmut a (heap_push vs a)
  | QDeq => qget a (heap_pop a)
  | QPeek => qqry a (al_get 0 a) (fun r => RGet (fst r) (snd r))
  | QClear => (al_clear, RUnit)
  | QValues => qqry a (heap_values a) RList
  | QSize => (a, RInt (Z.of_nat (al_n a)))
  | QEmpty => (a, RBool (al_n a =? 0))
  | QFull => (a, RBool false)
  end.
End Heap.

(* comparator shapes the harness instantiates the heap / priority queue with; [cmp_sel] is the integer the Go
   comparator returns on (a, b) - elements are encoded by their priority -, the heap only ever tests it against 0 *)
Inductive cmpsel :=
| CInt      (* bcomparator.IntComparator: -1 / 0 / +1 *)
| CRev      (* bcomparator.ReverseComparator(IntComparator): +1 / 0 / -1 *)
| CSub      (* func(a, b) int { return a - b } *)
| CSubRev   (* func(a, b) int { return b - a }   (max-heap) *)
| CScaled   (* func(a, b) int { return (a - b) * 7 } *)
| CPrio.    (* elements are structs, func(a, b) int { return a.prio - b.prio } *)
Definition cmp_sel (s : cmpsel) (a b : Z) : Z :=
  match s with
  | CInt => if (a <? b)%Z then (-1)%Z else if (a =? b)%Z then 0%Z else 1%Z
  | CRev => if (a <? b)%Z then 1%Z else if (a =? b)%Z then 0%Z else (-1)%Z
  | CSub | CPrio => (a - b)%Z
  | CSubRev => (b - a)%Z
  | CScaled => ((a - b) * 7)%Z
  end.
Definition le_sel (s : cmpsel) (a b : Z) : bool := (cmp_sel s a b <=? 0)%Z.

Definition le_int (a b : Z) : bool := (a <=? b)%Z.       (* bcomparator.IntComparator *)
Definition le_rev (a b : Z) : bool := (b <=? a)%Z.       (* bcomparator.ReverseComparator(IntComparator) *)

Fixpoint qrun {S} (step : S -> qop -> S * res) (s : S) (ops : list qop) : S * list res :=
  match ops with
  | [] => (s, [])
  | o :: t => let '(s1, r) := step s o in let '(s2, rs) := qrun step s1 t in (s2, r :: rs)
  end.
