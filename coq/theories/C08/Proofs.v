(* C08 lemmas, part 1: array/linked queues and stacks are FIFO / LIFO (thin layers over the C07 refinement). *)
From VF Require Import C07.Model C07.Spec C07.Proofs C07.ProofsArray C07.ProofsLinked C08.Model C08.Spec.
Local Open Scope nat_scope.

Lemma qrun_sim {S} (step : S -> qop -> S * res) (spec : list Z -> qop -> list Z * res) (R : S -> list Z -> Prop) :
  (forall s l o, R s l -> R (fst (step s o)) (fst (spec l o)) /\ snd (step s o) = snd (spec l o)) ->
  forall ops s l, R s l -> snd (qrun step s ops) = snd (qrun spec l ops) /\ R (fst (qrun step s ops)) (fst (qrun spec l ops)).
Proof.
  intros H ops. induction ops as [|o t IH]; intros s l HR; simpl; auto.
  destruct (H s l o HR) as [HR' Ho].
  destruct (step s o) as [s1 r1]. destruct (spec l o) as [l1 r1']. simpl in *.
  destruct (IH s1 l1 HR') as [E1 E2].
  destruct (qrun step s1 t) as [s2 rs]. destruct (qrun spec l1 t) as [l2 rs']. simpl in *.
  split; congruence.
Qed.

Lemma get_at_0 l : RGet (fst (get_at 0 l)) (snd (get_at 0 l)) = hd_res l.
Proof. destruct l; reflexivity. Qed.
Lemma get_at_0_ok l : snd (get_at 0 l) = match l with [] => false | _ => true end.
Proof. destruct l; reflexivity. Qed.
Lemma remove_at_0 l : remove_at 0 l = tl l.
Proof. destruct l; reflexivity. Qed.

Lemma al_push_many vs : forall a l, RA a l ->
  exists a', fold_left (fun m v => bind m (al_add [v])) vs (Ok a) = Ok a' /\ RA a' (l ++ vs).
Proof.
  induction vs as [|v t IH]; intros a l HR; simpl.
  - exists a. now rewrite app_nil_r.
  - destruct (al_add_ok [v] a l HR) as (a1 & E1 & R1). rewrite E1.
    destruct (IH a1 (l ++ [v]) R1) as (a2 & E2 & R2). exists a2. rewrite <- app_assoc in R2. auto.
Qed.
Lemma ll_push_many vs : forall s l, RL s l ->
  exists s', fold_left (fun m v => bind m (ll_add [v])) vs (Ok s) = Ok s' /\ RL s' (l ++ vs).
Proof.
  induction vs as [|v t IH]; intros s l HR; cbn [fold_left bind].
  - exists s. now rewrite app_nil_r.
  - destruct (ll_add_ok [v] s l HR) as (s1 & E1 & R1). rewrite E1.
    destruct (IH s1 (l ++ [v]) R1) as (s2 & E2 & R2). exists s2. rewrite <- app_assoc in R2. auto.
Qed.

(* ---------- arrayqueue ---------- *)
Lemma aq_step_sim a l o : RA a l ->
  RA (fst (aq_step a o)) (fst (fifo_step l o)) /\ snd (aq_step a o) = snd (fifo_step l o).
Proof.
  intros HR. pose proof (RA_len _ _ HR) as HL. destruct o; cbn [aq_step fifo_step fst snd].
  - destruct (al_add_ok [v] a l HR) as (a' & E & R'). rewrite E. simpl. auto.
  - destruct (al_push_many vs a l HR) as (a' & E & R'). rewrite E. simpl. auto.
  - unfold aq_dequeue. rewrite (al_get_ok 0 a l HR). cbn [bind]. rewrite get_at_0_ok.
    destruct l as [|x t].
    + simpl. auto.
    + destruct (al_remove_ok 0 a (x :: t) HR) as (a' & E & R'). rewrite E. simpl. rewrite remove_at_0 in R'. auto.
  - rewrite (al_get_ok 0 a l HR). simpl. now rewrite get_at_0.
  - split; [apply RA_clear|reflexivity].
  - rewrite (al_values_ok a l HR). simpl. auto.
  - simpl. rewrite HL. auto.
  - simpl. rewrite HL. auto.
  - simpl. auto.
Qed.
Theorem aq_fifo : forall ops, snd (qrun aq_step al0 ops) = snd (qrun fifo_step [] ops).
Proof. intros ops. apply (qrun_sim aq_step fifo_step RA aq_step_sim ops al0 []). split; simpl; auto. Qed.

(* ---------- linkedlistqueue ---------- *)
Lemma sl_loc_ok : loc_ok sl_locate.
Proof. intros s l k R K. eapply sl_locate_ok; eauto. Qed.

Lemma lq_step_sim s l o : RL s l ->
  RL (fst (lq_step s o)) (fst (fifo_step l o)) /\ snd (lq_step s o) = snd (fifo_step l o).
Proof.
  intros HR. pose proof HR as [He Hn]. destruct o; cbn [lq_step fifo_step fst snd].
  - destruct (ll_add_ok [v] s l HR) as (s' & E & R'). rewrite E. simpl. auto.
  - destruct (ll_push_many vs s l HR) as (s' & E & R'). rewrite E. simpl. auto.
  - unfold lq_dequeue. rewrite (ll_get_ok _ sl_loc_ok 0 s l HR). cbn [bind]. rewrite get_at_0_ok.
    destruct l as [|x t].
    + simpl. auto.
    + destruct (ll_remove_ok _ sl_loc_ok 0 s (x :: t) HR) as (s' & E & R'). rewrite E. simpl. rewrite remove_at_0 in R'. auto.
  - rewrite (ll_get_ok _ sl_loc_ok 0 s l HR). simpl. now rewrite get_at_0.
  - split; [apply RL_clear|reflexivity].
  - rewrite (ll_values_ok s l HR). simpl. auto.
  - simpl. rewrite Hn. auto.
  - simpl. rewrite Hn. auto.
  - simpl. auto.
Qed.
Theorem lq_fifo : forall ops, snd (qrun lq_step ll0 ops) = snd (qrun fifo_step [] ops).
Proof. intros ops. apply (qrun_sim lq_step fifo_step RL lq_step_sim ops ll0 []). split; reflexivity. Qed.

(* ---------- linkedliststack: the chain is the stack, top first ---------- *)
Lemma ls_push_many vs : forall s l, RL s l ->
  exists s', fold_left (fun m v => bind m (sl_prepend_rev [v])) vs (Ok s) = Ok s' /\ RL s' (rev vs ++ l).
Proof.
  induction vs as [|v t IH]; intros s l HR; cbn [fold_left bind rev app].
  - exists s. auto.
  - destruct (sl_prepend_ok [v] s l HR) as (s1 & E1 & R1). rewrite E1. cbn [rev app] in R1.
    destruct (IH s1 (v :: l) R1) as (s2 & E2 & R2). exists s2. rewrite <- app_assoc. auto.
Qed.

Lemma ls_step_sim s l o : RL s l ->
  RL (fst (ls_step s o)) (fst (lifo_step l o)) /\ snd (ls_step s o) = snd (lifo_step l o).
Proof.
  intros HR. pose proof HR as [He Hn]. destruct o; cbn [ls_step lifo_step fifo_step fst snd].
  - destruct (sl_prepend_ok [v] s l HR) as (s' & E & R'). rewrite E. simpl. auto.
  - destruct (ls_push_many vs s l HR) as (s' & E & R'). rewrite E. simpl. auto.
  - unfold ls_pop. rewrite (ll_get_ok _ sl_loc_ok 0 s l HR). cbn [bind].
    destruct (ll_remove_ok _ sl_loc_ok 0 s l HR) as (s' & E & R'). rewrite E. cbn [bind qget fst snd].
    rewrite remove_at_0 in R'. destruct (get_at 0 l) as [v ok] eqn:G. simpl. split; auto.
    rewrite <- get_at_0, G. reflexivity.
  - rewrite (ll_get_ok _ sl_loc_ok 0 s l HR). simpl. now rewrite get_at_0.
  - split; [apply RL_clear|reflexivity].
  - rewrite (ll_values_ok s l HR). simpl. auto.
  - simpl. rewrite Hn. auto.
  - simpl. rewrite Hn. auto.
  - simpl. auto.
Qed.
Theorem ls_lifo : forall ops, snd (qrun ls_step ll0 ops) = snd (qrun lifo_step [] ops).
Proof. intros ops. apply (qrun_sim ls_step lifo_step RL ls_step_sim ops ll0 []). split; reflexivity. Qed.

(* ---------- arraystack: the array holds the stack bottom first ---------- *)
Definition RS (a : al) (l : list Z) : Prop := RA a (rev l).

Lemma as_push_many vs : forall a l, RS a l ->
  exists a', fold_left (fun m v => bind m (al_add [v])) vs (Ok a) = Ok a' /\ RS a' (rev vs ++ l).
Proof.
  intros a l HR. destruct (al_push_many vs a (rev l) HR) as (a' & E & R'). exists a'. split; auto.
  unfold RS. now rewrite rev_app_distr, rev_involutive.
Qed.

Lemma get_at_last t x : get_at (Z.of_nat (length t)) (t ++ [x]) = (x, true).
Proof.
  unfold get_at. assert (W : within (Z.of_nat (length t)) (length (t ++ [x])) = true).
  { apply within_spec. rewrite app_length. simpl. lia. }
  rewrite W, Nat2Z.id, app_nth2, Nat.sub_diag by lia. reflexivity.
Qed.
Lemma remove_at_last t x : remove_at (Z.of_nat (length t)) (t ++ [x]) = t.
Proof.
  unfold remove_at. assert (W : within (Z.of_nat (length t)) (length (t ++ [x])) = true).
  { apply within_spec. rewrite app_length. simpl. lia. }
  rewrite W, Nat2Z.id. rewrite firstn_app_exact by auto.
  rewrite skipn_all2 by (rewrite app_length; simpl; lia). apply app_nil_r.
Qed.

Lemma gets_all (m : list Z) : map (fun i => fst (get_at i m)) (zrange 0 (length m)) = m.
Proof.
  unfold zrange. rewrite map_map. apply nth_ext with (d := fst (get_at 0%Z m)) (d' := 0%Z).
  - now rewrite map_length, seq_length.
  - intros n Hn. rewrite map_length, seq_length in Hn.
    rewrite (map_nth (fun k => fst (get_at (0 + Z.of_nat k) m)) (seq 0 (length m)) 0 n) at 1.
    rewrite seq_nth by auto. simpl. unfold get_at.
    assert (W : within (Z.of_nat n) (length m) = true) by (apply within_spec; lia).
    rewrite W. simpl. now rewrite Nat2Z.id.
Qed.

Lemma as_step_sim a l o : RS a l ->
  RS (fst (as_step a o)) (fst (lifo_step l o)) /\ snd (as_step a o) = snd (lifo_step l o).
Proof.
  intros HR. unfold RS in *. pose proof (RA_len _ _ HR) as HL. rewrite rev_length in HL.
  destruct o; cbn [as_step lifo_step fifo_step fst snd].
  - destruct (al_add_ok [v] a (rev l) HR) as (a' & E & R'). rewrite E. simpl. auto.
  - destruct (as_push_many vs a l HR) as (a' & E & R'). rewrite E. simpl. auto.
  - unfold as_pop, as_top. rewrite (al_get_ok _ a _ HR). cbn [bind].
    destruct (al_remove_ok (Z.of_nat (al_n a) - 1) a _ HR) as (a' & E & R'). rewrite E. cbn [bind qget].
    destruct l as [|x t].
    + simpl in *. rewrite <- HL in *. simpl in *. auto.
    + simpl rev in *. simpl in HL. replace (Z.of_nat (al_n a) - 1)%Z with (Z.of_nat (length (rev t))) in * by (rewrite rev_length; lia).
      rewrite get_at_last. rewrite remove_at_last in R'. simpl. auto.
  - unfold as_top. rewrite (al_get_ok _ a _ HR). cbn [qqry].
    destruct l as [|x t].
    + simpl in *. rewrite <- HL. simpl. auto.
    + simpl rev in *. simpl in HL. replace (Z.of_nat (al_n a) - 1)%Z with (Z.of_nat (length (rev t))) by (rewrite rev_length; lia).
      rewrite get_at_last. simpl. auto.
  - split; [apply RA_clear|reflexivity].
  - unfold as_values. rewrite (mapM_ok _ (fun i => get_at i (rev l))) by (intros; now apply al_get_ok).
    cbn [bind qqry]. rewrite map_map. rewrite <- HL, <- (rev_length l). rewrite gets_all, rev_involutive. auto.
  - simpl. rewrite HL. auto.
  - simpl. rewrite HL. auto.
  - simpl. auto.
Qed.
Theorem as_lifo : forall ops, snd (qrun as_step al0 ops) = snd (qrun lifo_step [] ops).
Proof. intros ops. apply (qrun_sim as_step lifo_step RS as_step_sim ops al0 []). split; simpl; auto. Qed.

(* ---------- the reference of the circular buffer, spelled out ---------- *)
Lemma skipn_skipn_add {A} (x : list A) : forall b a, skipn a (skipn b x) = skipn (b + a) x.
Proof.
  induction x as [|h x IH]; intros b a.
  - now rewrite !skipn_nil.
  - destruct b as [|b]; simpl; auto.
Qed.
Lemma skipn_app_small {A} (m t : list A) d : d <= length m -> skipn d (m ++ t) = skipn d m ++ t.
Proof. intros H. rewrite skipn_app. replace (d - length m) with 0 by lia. reflexivity. Qed.

(* what "last cap elements" means: after enqueuing vs (from empty) the reference holds the last cap of them *)
Lemma lastn_enq_skipn cap l v : 1 <= cap -> length l <= cap ->
  lastn_enq cap l v = skipn (length l + 1 - cap) (l ++ [v]) /\ length (lastn_enq cap l v) <= cap.
Proof.
  intros Hc Hl. unfold lastn_enq. destruct (Nat.eqb_spec (length l) cap) as [E|N].
  - replace (length l + 1 - cap) with 1 by lia. destruct l as [|x t]; [simpl in E; lia|].
    simpl. split; auto. rewrite app_length. simpl in *. lia.
  - replace (length l + 1 - cap) with 0 by lia. simpl. split; auto. rewrite app_length. simpl. lia.
Qed.

Lemma lastn_fold cap : 1 <= cap -> forall vs l, length l <= cap ->
  fold_left (lastn_enq cap) vs l = skipn (length (l ++ vs) - cap) (l ++ vs).
Proof.
  intros Hc. induction vs as [|v t IH]; intros l Hl; simpl.
  - rewrite app_nil_r. replace (length l - cap) with 0 by lia. reflexivity.
  - destruct (lastn_enq_skipn cap l v Hc Hl) as [E L]. rewrite IH by exact L. rewrite E.
    replace (l ++ v :: t) with ((l ++ [v]) ++ t) by (now rewrite <- app_assoc).
    set (m := l ++ [v]). assert (Lm : length m = length l + 1) by (unfold m; rewrite app_length; simpl; lia).
    set (d := length l + 1 - cap). assert (Hd : d <= length m) by lia.
    rewrite <- (skipn_app_small m t d) by exact Hd.
    rewrite skipn_skipn_add. f_equal. rewrite ?app_length, ?skipn_length, ?app_length. unfold d. rewrite ?app_length, ?Lm. lia.
Qed.

Lemma lastn_meaning cap vs : 1 <= cap -> fold_left (lastn_enq cap) vs [] = skipn (length vs - cap) vs.
Proof. intros Hc. rewrite (lastn_fold cap Hc vs []) by (simpl; lia). reflexivity. Qed.

(* ---------- perm_b decides Permutation ---------- *)
Lemma remove_one_some x : forall l l', remove_one x l = Some l' -> Permutation (x :: l') l.
Proof.
  induction l as [|y t IH]; intros l' H; simpl in H; [discriminate|].
  destruct (Z.eqb_spec y x) as [->|N].
  - inversion H; subst. reflexivity.
  - destruct (remove_one x t) as [t'|] eqn:E; [|discriminate]. inversion H; subst.
    eapply perm_trans; [apply perm_swap|]. apply perm_skip. now apply IH.
Qed.
Lemma remove_one_in x : forall l, In x l -> exists l', remove_one x l = Some l'.
Proof.
  induction l as [|y t IH]; intros H; [destruct H|]. simpl. destruct (Z.eqb_spec y x) as [->|N]; [eauto|].
  destruct H as [->|H]; [congruence|]. destruct (IH H) as (t' & E). rewrite E. eauto.
Qed.
Lemma perm_b_sound : forall l1 l2, perm_b l1 l2 = true -> Permutation l1 l2.
Proof.
  induction l1 as [|x t IH]; intros l2 H; simpl in H.
  - destruct l2; [constructor|discriminate].
  - destruct (remove_one x l2) as [l2'|] eqn:E; [|discriminate].
    eapply perm_trans; [apply perm_skip, IH; exact H|]. now apply remove_one_some.
Qed.
Lemma perm_b_complete : forall l1 l2, Permutation l1 l2 -> perm_b l1 l2 = true.
Proof.
  induction l1 as [|x t IH]; intros l2 P; simpl.
  - apply Permutation_nil in P. now subst.
  - assert (Hin : In x l2) by (eapply Permutation_in; [exact P|now left]).
    destruct (remove_one_in x l2 Hin) as (l2' & E). rewrite E. apply IH.
    eapply Permutation_cons_inv. eapply perm_trans; [exact P|]. apply Permutation_sym. now apply remove_one_some.
Qed.
