(* C08 correspondence checker. A case = one container driven through a call sequence; every call carries
   what the implementation returned; SRaw / SRing carry internal shape read through verif accessors.
   kind 2: the recorded result is not allowed by the abstract discipline (FIFO, last-cap, LIFO; for the heap
           and the priority queue: the popped / peeked value is a minimum of the reference multiset and is
           removed once, Values is a permutation of it) - judged without the model;
   kind 1: allowed, but different from the model (result, heap array, ring cursors). *)
From VF Require Import C07.Model C07.Check C08.Model C08.Spec C08.Proofs.
Local Open Scope nat_scope.

Inductive kind := KAQ | KLQ | KCB (cap : nat) | KPQ (sel : cmpsel) | KBH (sel : cmpsel) | KAS | KLS.
Inductive mstate := MAQ (a : al) | MAS (a : al) | MLQ (s : ll) | MLS (s : ll) | MCB (q : cb) | MH (sel : cmpsel) (a : al).
Inductive stepx :=
| SOp (o : qop) (r : res)
| SRaw (e : list Z) (n : nat)                               (* heap / priority queue: backing array, size *)
| SRing (v : list Z) (s e : nat) (f : bool) (n : nat)       (* circular buffer: values, start, end, full, size *)
(* aliasing judgement (as in C07.Check): every slice returned by Values() read again at the end of the trace must
   still hold the recorded result of that call *)
| SKept (now : list (list Z))
(* a user comparator that reads the heap / priority queue at every invocation: Size() as seen inside the comparator
   during the call just made. The unmodified code adds (Push) or removes (Pop) the element first and restores the
   heap order afterwards, and Values() works on temporary heaps: every comparator call sees the size the container
   has after the call. *)
| SCmpSizes (sizes : list Z).
Record case := { c_kind : kind; c_steps : list stepx }.

(* short forms of the most frequent steps (the case files are mostly these) *)
Definition T := true.
Definition F := false.
Definition en_ (v : Z) : stepx := SOp (QEnq v) RUnit.
Definition dq_ (v : Z) (ok : bool) : stepx := SOp QDeq (RGet v ok).
Definition pk_ (v : Z) (ok : bool) : stepx := SOp QPeek (RGet v ok).
Definition vl_ (l : list Z) : stepx := SOp QValues (RList l).
Definition sz_ (z : Z) : stepx := SOp QSize (RInt z).
Definition em_ (b : bool) : stepx := SOp QEmpty (RBool b).
Definition fu_ (b : bool) : stepx := SOp QFull (RBool b).

Definition le_of (sel : cmpsel) := le_sel sel.

Definition m_init (k : kind) : mstate :=
  match k with
  | KAQ => MAQ al0 | KAS => MAS al0 | KLQ => MLQ ll0 | KLS => MLS ll0
  | KCB cap => MCB (cb0 cap) | KPQ r | KBH r => MH r al0
  end.

Definition lift {S} (c : S -> mstate) (p : S * res) : mstate * res := (c (fst p), snd p).
Definition m_step (m : mstate) (o : qop) : mstate * res :=
  match m with
  | MAQ a => lift MAQ (aq_step a o)
  | MAS a => lift MAS (as_step a o)
  | MLQ s => lift MLQ (lq_step s o)
  | MLS s => lift MLS (ls_step s o)
  | MCB q => lift MCB (cb_step q o)
  | MH r a => lift (MH r) (heap_step (le_of r) a o)
  end.

(* the discipline, judged on the recorded result: Some next reference state / None = violated *)
Definition spec_step (k : kind) (l : list Z) (o : qop) (r : res) : option (list Z) :=
  let exact (p : list Z * res) := if res_eqb (snd p) r then Some (fst p) else None in
  match k with
  | KAQ | KLQ => exact (fifo_step l o)
  | KCB cap => exact (lastn_step cap l o)
  | KAS | KLS => exact (lifo_step l o)
  | KPQ rv | KBH rv => bag_step (le_of rv) l o r
  end.

Definition shape_ok (m : mstate) (x : stepx) : bool :=
  match x, m with
  | SRaw e n, MH _ a => zlist_eqb (al_e a) e && (al_n a =? n)
  | SRing v s e f n, MCB q =>
      zlist_eqb (cb_v q) v && (cb_s q =? s) && (cb_e q =? e) && Bool.eqb (cb_f q) f && (cb_n q =? n)
  | _, _ => true
  end.

Definition cstate : Type := mstate * list Z * list (list Z).
Definition keep (o : qop) (r : res) (kept : list (list Z)) : list (list Z) :=
  match o, r with QValues, RList l => l :: kept | _, _ => kept end.

Definition check_step (k : kind) (st : cstate) (x : stepx) : cstate * nat :=
  let '(m, l, kept) := st in
  match x with
  | SOp o r =>
    let '(m', mo) := m_step m o in
    match spec_step k l o r with
    | Some l' => ((m', l', keep o r kept), kind_of (res_eqb mo r) true)
    | None => ((m', l, kept), 2)
    end
  | SKept now => (st, kind_of true (list_eqb zlist_eqb now (rev kept)))
  | SCmpSizes sizes => (st, kind_of true (forallb (fun z => (z =? Z.of_nat (length l))%Z) sizes))
  | _ => (st, kind_of (shape_ok m x) true)
  end.

(* scan_k2 (C07.Check): a kind-1 step does not stop the search for a later kind-2 step *)
Definition check_case (c : case) : nat := scan_k2 (check_step (c_kind c)) (m_init (c_kind c), [], []) (c_steps c) 0 0.
Definition mismatches (cs : list case) : list (nat * nat) := find_bad check_case cs.
