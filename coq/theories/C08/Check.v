(* C08 correspondence checker. A case = one container driven through a call sequence; every call carries
   what the implementation returned; SRaw / SRing carry internal shape read through verif accessors.
   kind 2: the recorded result is not allowed by the abstract discipline (FIFO, last-cap, LIFO; for the heap
           and the priority queue: the popped / peeked value is a minimum of the reference multiset and is
           removed once, Values is a permutation of it) - judged without the model;
   kind 1: allowed, but different from the model (result, heap array, ring cursors). *)
From VF Require Import C07.Model C07.Check C08.Model C08.Spec C08.Proofs.
Local Open Scope nat_scope.

Inductive kind := KAQ | KLQ | KCB (cap : nat) | KPQ (rev : bool) | KBH (rev : bool) | KAS | KLS.
Inductive mstate := MAQ (a : al) | MAS (a : al) | MLQ (s : ll) | MLS (s : ll) | MCB (q : cb) | MH (rev : bool) (a : al).
Inductive stepx :=
| SOp (o : qop) (r : res)
| SRaw (e : list Z) (n : nat)                               (* heap / priority queue: backing array, size *)
| SRing (v : list Z) (s e : nat) (f : bool) (n : nat).      (* circular buffer: values, start, end, full, size *)
Record case := { c_kind : kind; c_steps : list stepx }.

Definition le_of (rev : bool) := if rev then le_rev else le_int.

Definition m_init (k : kind) : mstate :=
  match k with
  | KAQ => MAQ al0 | KAS => MAS al0 | KLQ => MLQ ll0 | KLS => MLS ll0
  | KCB cap => MCB (cb0 cap) | KPQ r | KBH r => MH r al0
  end.

Definition lift {S} (c : S -> mstate) (p : S * res) : mstate * res := (c (fst p), snd p).
Definition m_step (m : mstate) (o : qop) : mstate * res :=
  match m with
  | MAQ a => lift MAQ (aq_step a o)
  | MAS a => lift MAS (as_step a o)
  | MLQ s => lift MLQ (lq_step s o)
  | MLS s => lift MLS (ls_step s o)
  | MCB q => lift MCB (cb_step q o)
  | MH r a => lift (MH r) (heap_step (le_of r) a o)
  end.

(* the discipline, judged on the recorded result: Some next reference state / None = violated *)
Definition spec_step (k : kind) (l : list Z) (o : qop) (r : res) : option (list Z) :=
  let exact (p : list Z * res) := if res_eqb (snd p) r then Some (fst p) else None in
  match k with
  | KAQ | KLQ => exact (fifo_step l o)
  | KCB cap => exact (lastn_step cap l o)
  | KAS | KLS => exact (lifo_step l o)
  | KPQ rv | KBH rv => bag_step (le_of rv) l o r
  end.

Definition shape_ok (m : mstate) (x : stepx) : bool :=
  match x, m with
  | SRaw e n, MH _ a => zlist_eqb (al_e a) e && (al_n a =? n)
  | SRing v s e f n, MCB q =>
      zlist_eqb (cb_v q) v && (cb_s q =? s) && (cb_e q =? e) && Bool.eqb (cb_f q) f && (cb_n q =? n)
  | _, _ => true
  end.

Definition check_step (k : kind) (st : mstate * list Z) (x : stepx) : (mstate * list Z) * nat :=
  let '(m, l) := st in
  match x with
  | SOp o r =>
    let '(m', mo) := m_step m o in
    match spec_step k l o r with
    | Some l' => ((m', l'), kind_of (res_eqb mo r) true)
    | None => ((m', l), 2)
    end
  | _ => (st, kind_of (shape_ok m x) true)
  end.

(* scan_k2 (C07.Check): a kind-1 step does not stop the search for a later kind-2 step *)
Definition check_case (c : case) : nat := scan_k2 (check_step (c_kind c)) (m_init (c_kind c), []) (c_steps c) 0 0.
Definition mismatches (cs : list case) : list (nat * nat) := find_bad check_case cs.
