(* C08 lemmas, part 3: the binary heap on the array list.
   (a) the Panic-aware model functions never panic and act on the stored prefix as the pure list functions
       bup / bdown / hfy below; (b) those keep the heap order; (c) Pop returns a minimum and removes one occurrence. *)
From VF Require Import C07.Model C07.Spec C07.Proofs C07.ProofsArray C08.Model C08.Spec C08.Proofs C08.ProofsCirc.
From Coq Require Import ZifyBool ZifyNat.
Local Open Scope nat_scope.
Ltac Zify.zify_post_hook ::= Z.div_mod_to_equations.

Section Heap.
Variable le : Z -> Z -> bool.
Hypothesis le_total : forall a b, le a b = true \/ le b a = true.
Hypothesis le_trans : forall a b c, le a b = true -> le b c = true -> le a c = true.

Lemma le_refl a : le a a = true.
Proof. destruct (le_total a a); auto. Qed.
Lemma le_not a b : le a b = false -> le b a = true.
Proof. intros H. destruct (le_total a b); congruence. Qed.

(* ---------- pure versions on the stored prefix ---------- *)
Definition lswap (i j : nat) (l : list Z) : list Z := swap_at (Z.of_nat i) (Z.of_nat j) l.
Notation "l @ i" := (nth i l 0%Z) (at level 9, format "l @ i").

Fixpoint bup (fuel idx : nat) (l : list Z) : list Z :=
  match fuel with
  | O => l
  | S f => if idx =? 0 then l else
           let p := (idx - 1) / 2 in
           if le l@p l@idx then l else bup f p (lswap idx p l)
  end.
Fixpoint bdown (fuel idx : nat) (l : list Z) : list Z :=
  match fuel with
  | O => l
  | S f =>
    let left := 2 * idx + 1 in
    if left <? length l then
      let right := 2 * idx + 2 in
      let smaller := if (right <? length l) && negb (le l@left l@right) then right else left in
      if negb (le l@idx l@smaller) then bdown f smaller (lswap idx smaller l) else l
    else l
  end.
Fixpoint hfy (k : nat) (l : list Z) : list Z :=
  let l' := bdown (length l) k l in match k with O => l' | S k' => hfy k' l' end.

Lemma hget_ok i a l : RA a l -> hget i a = Ok l@i.
Proof.
  intros HR. unfold hget. rewrite (al_get_ok _ a l HR). cbn [bind]. f_equal.
  unfold get_at. destruct (within (Z.of_nat i) (length l)) eqn:W; simpl.
  - now rewrite Nat2Z.id.
  - apply within_false in W. rewrite nth_overflow by lia. reflexivity.
Qed.
Lemma hswap_ok i j a l : RA a l -> exists a', hswap i j a = Ok a' /\ RA a' (lswap i j l).
Proof. intros HR. apply al_swap_ok. exact HR. Qed.
Lemma lswap_length i j l : length (lswap i j l) = length l.
Proof. unfold lswap, swap_at. destruct (_ && _); auto. apply swap_length. Qed.

Lemma bubble_up_ok : forall fuel idx a l, RA a l -> exists a', bubble_up le fuel idx a = Ok a' /\ RA a' (bup fuel idx l).
Proof.
  induction fuel as [|f IH]; intros idx a l HR; cbn [bubble_up bup]; [eauto|].
  destruct (idx =? 0); [eauto|].
  rewrite (hget_ok idx a l HR). cbn [bind]. rewrite (hget_ok _ a l HR). cbn [bind].
  destruct (le _ _); [eauto|].
  destruct (hswap_ok idx ((idx - 1) / 2) a l HR) as (a1 & E1 & R1). rewrite E1. cbn [bind]. apply IH. exact R1.
Qed.

Lemma bubble_down_ok : forall fuel idx a l, RA a l -> exists a', bubble_down le fuel idx a = Ok a' /\ RA a' (bdown fuel idx l).
Proof.
  induction fuel as [|f IH]; intros idx a l HR; cbn [bubble_down bdown]; [eauto|].
  rewrite <- (RA_len a l HR).
  destruct (2 * idx + 1 <? length l); [|eauto].
  rewrite (hget_ok _ a l HR). cbn [bind]. rewrite (hget_ok _ a l HR). cbn [bind].
  rewrite (hget_ok idx a l HR). cbn [bind]. rewrite (hget_ok _ a l HR). cbn [bind].
  destruct (negb (le _ _)); [|eauto].
  match goal with |- context [hswap idx ?s a] => destruct (hswap_ok idx s a l HR) as (a1 & E1 & R1) end.
  rewrite E1. cbn [bind]. apply IH. exact R1.
Qed.

Lemma bdown_length : forall fuel idx l, length (bdown fuel idx l) = length l.
Proof.
  induction fuel as [|f IH]; intros idx l; cbn [bdown]; auto.
  destruct (_ <? _); auto. destruct (negb _); auto. rewrite IH. apply lswap_length.
Qed.

Lemma heapify_ok : forall k a l, RA a l -> exists a', heapify le k a = Ok a' /\ RA a' (hfy k l).
Proof.
  induction k as [|k IH]; intros a l HR; cbn [heapify hfy]; rewrite <- (RA_len a l HR).
  - destruct (bubble_down_ok (length l) 0 a l HR) as (a1 & E1 & R1). rewrite E1. cbn [bind]. eauto.
  - destruct (bubble_down_ok (length l) (S k) a l HR) as (a1 & E1 & R1). rewrite E1. cbn [bind]. apply IH. exact R1.
Qed.

(* ---------- the heap order ---------- *)
Definition parent (i : nat) : nat := (i - 1) / 2.
Definition heap_ok (l : list Z) : Prop := forall i, 0 < i < length l -> le l@(parent i) l@i = true.
Definition ok_at (l : list Z) (j : nat) : Prop :=
  forall c, (c = 2 * j + 1 \/ c = 2 * j + 2) -> c < length l -> le l@j l@c = true.

Lemma ok_all_heap l : (forall j, ok_at l j) <-> heap_ok l.
Proof.
  unfold heap_ok, ok_at, parent. split.
  - intros H i Hi. apply (H ((i - 1) / 2) i); lia.
  - intros H j c Hc Hl. replace j with ((c - 1) / 2) by lia. apply H. lia.
Qed.

Lemma nth_swap (l : list Z) i j k : i < length l -> j < length l ->
  (swap 0%Z l i j)@k = if k =? j then l@i else if k =? i then l@j else l@k.
Proof.
  intros Hi Hj. unfold swap. destruct (Nat.eqb_spec k j) as [->|Nj].
  - rewrite nth_upd_same by (rewrite upd_length; lia). reflexivity.
  - rewrite nth_upd_other by lia. destruct (Nat.eqb_spec k i) as [->|Ni].
    + now rewrite nth_upd_same by lia.
    + now rewrite nth_upd_other by lia.
Qed.
Lemma lswap_in i j l : i < length l -> j < length l -> lswap i j l = swap 0%Z l i j.
Proof.
  intros Hi Hj. unfold lswap, swap_at.
  assert (W1 : within (Z.of_nat i) (length l) = true) by (apply within_spec; lia).
  assert (W2 : within (Z.of_nat j) (length l) = true) by (apply within_spec; lia).
  now rewrite W1, W2, !Nat2Z.id.
Qed.
Lemma lswap_perm i j l : Permutation (lswap i j l) l.
Proof.
  unfold lswap, swap_at. destruct (within _ _) eqn:W1; [|reflexivity]. destruct (within (Z.of_nat j) _) eqn:W2; [|reflexivity].
  apply within_spec in W1, W2. cbn [andb]. apply swap_perm; lia.
Qed.

Lemma bup_perm : forall fuel idx l, Permutation (bup fuel idx l) l.
Proof.
  induction fuel as [|f IH]; intros idx l; cbn [bup]; auto.
  destruct (idx =? 0); auto. destruct (le _ _); auto.
  eapply perm_trans; [apply IH|apply lswap_perm].
Qed.
Lemma bdown_perm : forall fuel idx l, Permutation (bdown fuel idx l) l.
Proof.
  induction fuel as [|f IH]; intros idx l; cbn [bdown]; auto.
  destruct (_ <? _); auto. destruct (negb _); auto.
  eapply perm_trans; [apply IH|apply lswap_perm].
Qed.
Lemma hfy_perm : forall k l, Permutation (hfy k l) l.
Proof.
  induction k as [|k IH]; intros l; cbn [hfy]; [apply bdown_perm|].
  eapply perm_trans; [apply IH|apply bdown_perm].
Qed.

(* bubbleUp: everything is in order except possibly between idx and its parent; children of idx are not
   below idx's parent *)
Lemma bup_heap : forall fuel idx l, idx <= fuel -> idx < length l ->
  (forall i, 0 < i < length l -> i <> idx -> le l@(parent i) l@i = true) ->
  (forall c, 0 < c < length l -> parent c = idx -> 0 < idx -> le l@(parent idx) l@c = true) ->
  heap_ok (bup fuel idx l).
Proof.
  induction fuel as [|f IH]; intros idx l Hf Hlen H1 H2; cbn [bup].
  - intros i Hi. apply H1; lia.
  - destruct (Nat.eqb_spec idx 0) as [E0|N0]; [intros i Hi; apply H1; lia|].
    fold (parent idx). destruct (le l@(parent idx) l@idx) eqn:E.
    + intros i Hi. destruct (Nat.eq_dec i idx) as [->|Ne]; auto.
    + set (p := parent idx) in *. assert (Hp : p < idx) by (unfold p, parent; lia).
      pose proof (le_not _ _ E) as E'.
      rewrite lswap_in by lia. apply IH; rewrite ?swap_length; try lia.
      * intros i Hi Ni. rewrite !nth_swap by lia.
        destruct (Nat.eqb_spec i p) as [->|Nip]; [lia|].
        destruct (Nat.eqb_spec i idx) as [->|Nii].
        { fold p. rewrite Nat.eqb_refl. exact E'. }
        destruct (Nat.eqb_spec (parent i) p) as [Ep|Np].
        { eapply le_trans; [exact E'|]. rewrite <- Ep. apply H1; auto. }
        destruct (Nat.eqb_spec (parent i) idx) as [Ei|Ni'].
        { apply H2; auto. lia. }
        apply H1; auto.
      * intros c Hc Pc Pp. rewrite !nth_swap by lia.
        assert (Hpp : parent p < p) by (unfold parent; lia).
        destruct (Nat.eqb_spec (parent p) p) as [|_]; [lia|].
        destruct (Nat.eqb_spec (parent p) idx) as [|_]; [lia|].
        destruct (Nat.eqb_spec c p) as [->|Ncp]; [unfold parent in Pc; lia|].
        destruct (Nat.eqb_spec c idx) as [->|Nci].
        { apply H1; lia. }
        eapply le_trans; [apply (H1 p); lia|]. rewrite <- Pc. apply H1; auto.
Qed.

(* bubbleDownIndex: every node from lo on is in order with its children except idx; idx's children are not
   below idx's parent (if that is >= lo) *)
Lemma bdown_heap : forall fuel idx l lo, length l <= fuel + idx -> lo <= idx ->
  (forall j, lo <= j -> j <> idx -> ok_at l j) ->
  (forall j c, lo <= j -> j <> idx -> (idx = 2 * j + 1 \/ idx = 2 * j + 2) ->
               (c = 2 * idx + 1 \/ c = 2 * idx + 2) -> c < length l -> le l@j l@c = true) ->
  forall j, lo <= j -> ok_at (bdown fuel idx l) j.
Proof.
  induction fuel as [|f IH]; intros idx l lo Hf Hlo H1 H2; cbn [bdown].
  - intros j Hj. destruct (Nat.eq_dec j idx) as [->|Ne]; [|now apply H1]. intros c Hc Hl. lia.
  - destruct (Nat.ltb_spec (2 * idx + 1) (length l)) as [Hleft|Hleft].
    2:{ intros j Hj. destruct (Nat.eq_dec j idx) as [->|Ne]; [|now apply H1]. intros c Hc Hl. lia. }
    set (s := if (2 * idx + 2 <? length l) && negb (le l@(2 * idx + 1) l@(2 * idx + 2)) then 2 * idx + 2 else 2 * idx + 1).
    assert (Hs : (s = 2 * idx + 1 \/ s = 2 * idx + 2) /\ s < length l /\
                 forall c, (c = 2 * idx + 1 \/ c = 2 * idx + 2) -> c < length l -> le l@s l@c = true).
    { unfold s. destruct (Nat.ltb_spec (2 * idx + 2) (length l)) as [Hr|Hr]; cbn [andb].
      - destruct (le l@(2 * idx + 1) l@(2 * idx + 2)) eqn:E; cbn [negb].
        + split; [auto|split; [lia|]]. intros c [->| ->] Hc; [apply le_refl|exact E].
        + split; [auto|split; [lia|]]. intros c [->| ->] Hc; [now apply le_not|apply le_refl].
      - split; [auto|split; [lia|]]. intros c [->| ->] Hc; [apply le_refl|lia]. }
    destruct Hs as (Hs1 & Hs2 & Hs3).
    destruct (le l@idx l@s) eqn:E; cbn [negb].
    + intros j Hj. destruct (Nat.eq_dec j idx) as [->|Ne]; [|now apply H1].
      intros c Hc Hl. eapply le_trans; [exact E|]. now apply Hs3.
    + pose proof (le_not _ _ E) as E'. rewrite lswap_in by lia.
      apply IH; try lia; rewrite ?swap_length; try lia.
      * intros j Hj Nj c Hc Hl. rewrite ?swap_length in Hl. rewrite !nth_swap by lia.
        destruct (Nat.eqb_spec j s) as [|_]; [lia|].
        destruct (Nat.eqb_spec j idx) as [->|Nji].
        { destruct (Nat.eqb_spec c s) as [->|Ncs]; [exact E'|].
          destruct (Nat.eqb_spec c idx) as [|_]; [lia|]. now apply Hs3. }
        destruct (Nat.eqb_spec c s) as [->|Ncs]; [lia|].
        destruct (Nat.eqb_spec c idx) as [->|Nci].
        { apply (H2 j s); auto. }
        apply (H1 j); auto.
      * intros j c Hj Nj Hsj Hc Hl. rewrite ?swap_length in Hl. assert (j = idx) by lia. subst j. rewrite !nth_swap by lia.
        destruct (Nat.eqb_spec idx s) as [|_]; [lia|]. rewrite Nat.eqb_refl.
        destruct (Nat.eqb_spec c s) as [|_]; [lia|].
        destruct (Nat.eqb_spec c idx) as [|_]; [lia|].
        apply (H1 s); auto; lia.
Qed.

Lemma hfy_heap : forall k l, (forall j, k < j -> ok_at l j) -> forall j, ok_at (hfy k l) j.
Proof.
  induction k as [|k IH]; intros l H; cbn [hfy].
  - intros j. apply (bdown_heap (length l) 0 l 0); try lia.
    intros j0 _ Nj. apply H. lia.
  - apply IH. intros j Hj. apply (bdown_heap (length l) (S k) l (S k)); try lia.
    intros j0 Hj0 Nj. apply H. lia.
Qed.

Lemma root_min l : heap_ok l -> forall i, i < length l -> le l@0 l@i = true.
Proof.
  intros H i. induction i as [i IH] using lt_wf_ind. intros Hi.
  destruct (Nat.eq_dec i 0) as [->|N]; [apply le_refl|].
  eapply le_trans; [apply (IH (parent i)); unfold parent; lia|]. apply H. lia.
Qed.

(* ---------- Push ---------- *)
Lemma push_one v a l : RA a l -> heap_ok l ->
  exists a' l', heap_push le [v] a = Ok a' /\ RA a' l' /\ heap_ok l' /\ Permutation l' (v :: l).
Proof.
  intros HR HO. cbn [heap_push].
  destruct (al_add_ok [v] a l HR) as (a1 & E1 & R1). rewrite E1. cbn [bind].
  pose proof (RA_len _ _ R1) as L1. rewrite app_length in L1. cbn [length] in L1.
  replace (al_n a1 - 1) with (length l) by lia.
  destruct (bubble_up_ok (length l) (length l) a1 _ R1) as (a2 & E2 & R2).
  exists a2, (bup (length l) (length l) (l ++ [v])). split; [exact E2|]. split; [exact R2|]. split.
  - apply bup_heap; auto.
    + rewrite app_length. simpl. lia.
    + intros i Hi Ni. rewrite app_length in Hi. cbn [length] in Hi.
      rewrite !app_nth1 by (unfold parent; lia). apply HO. lia.
    + intros c Hc Pc. rewrite app_length in Hc. cbn [length] in Hc. unfold parent in Pc. lia.
  - eapply perm_trans; [apply bup_perm|]. apply Permutation_sym, Permutation_cons_append.
Qed.

Lemma push_bulk vs a l : RA a l ->
  exists a' l', bind (fold_left (fun m v => bind m (al_add [v])) vs (Ok a)) (fun a1 => heapify le (al_n a1 / 2 + 1) a1) = Ok a'
                /\ RA a' l' /\ heap_ok l' /\ Permutation l' (vs ++ l).
Proof.
  intros HR. destruct (al_push_many vs a l HR) as (a1 & E1 & R1). rewrite E1. cbn [bind].
  pose proof (RA_len _ _ R1) as L1.
  destruct (heapify_ok (al_n a1 / 2 + 1) a1 _ R1) as (a2 & E2 & R2).
  exists a2, (hfy (al_n a1 / 2 + 1) (l ++ vs)). split; [exact E2|]. split; [exact R2|]. split.
  - apply ok_all_heap. apply hfy_heap. intros j Hj c Hc Hl. rewrite L1 in Hl. lia.
  - eapply perm_trans; [apply hfy_perm|]. apply Permutation_app_comm.
Qed.

Lemma push_any vs a l : RA a l -> heap_ok l ->
  exists a' l', heap_push le vs a = Ok a' /\ RA a' l' /\ heap_ok l' /\ Permutation l' (vs ++ l).
Proof.
  intros HR HO. destruct vs as [|v [|w t]].
  - apply (push_bulk [] a l HR).
  - apply push_one; auto.
  - apply (push_bulk (v :: w :: t) a l HR).
Qed.

(* ---------- Pop ---------- *)
Lemma pop_shape x t : let l := x :: t in let n := length l in
  let l1 := remove_at (Z.of_nat (n - 1)) (lswap 0 (n - 1) l) in
  length l1 = n - 1 /\ Permutation (x :: l1) l /\ (forall k, 0 < k < n - 1 -> l1@k = l@k).
Proof.
  intros l n l1. assert (Hn : n = S (length t)) by reflexivity.
  unfold l1. rewrite lswap_in by (fold n; lia). set (m := swap 0%Z l 0 (n - 1)).
  assert (Lm : length m = n) by (unfold m; now rewrite swap_length).
  unfold remove_at. assert (W : within (Z.of_nat (n - 1)) (length m) = true) by (apply within_spec; lia).
  rewrite W, Nat2Z.id. rewrite (skipn_all2 m) by lia. rewrite app_nil_r.
  assert (Hlast : m@(n - 1) = x).
  { unfold m. rewrite nth_swap by (fold n; lia). now rewrite Nat.eqb_refl. }
  split; [rewrite firstn_length; lia|]. split.
  - eapply perm_trans; [|apply (swap_perm 0%Z l 0 (n - 1)); fold n; lia]. fold m.
    rewrite <- (firstn_skipn (n - 1) m) at 2. rewrite (skipn_nth_cons m (n - 1)) by lia.
    rewrite Hlast. replace (S (n - 1)) with n by lia. rewrite (skipn_all2 m) by lia.
    apply Permutation_cons_append.
  - intros k Hk. rewrite nth_firstn by lia. unfold m. rewrite nth_swap by (fold n; lia).
    destruct (Nat.eqb_spec k (n - 1)); [lia|]. destruct (Nat.eqb_spec k 0); [lia|]. reflexivity.
Qed.

Lemma pop_ok a x t : RA a (x :: t) -> heap_ok (x :: t) ->
  exists a' l', heap_pop le a = Ok (a', (x, true)) /\ RA a' l' /\ heap_ok l' /\ Permutation (x :: l') (x :: t).
Proof.
  intros HR HO. set (l := x :: t) in *. pose proof (RA_len _ _ HR) as HL.
  unfold heap_pop. rewrite (al_get_ok 0 a l HR). cbn [bind get_at]. unfold l at 1 2. cbn [length within]. cbn [snd].
  assert (W0 : within 0 (length (x :: t)) = true) by (apply within_spec; simpl; lia).
  unfold get_at. rewrite W0. cbn [snd fst nth Z.to_nat].
  destruct (hswap_ok 0 (al_n a - 1) a l HR) as (a1 & E1 & R1). rewrite E1. cbn [bind].
  destruct (al_remove_ok (Z.of_nat (al_n a - 1)) a1 _ R1) as (a2 & E2 & R2). rewrite E2. cbn [bind].
  rewrite <- HL in R2. destruct (pop_shape x t) as (S1 & S2 & S3). fold l in S1, S2, S3.
  set (l1 := remove_at (Z.of_nat (length l - 1)) (lswap 0 (length l - 1) l)) in *.
  destruct (bubble_down_ok (al_n a2) 0 a2 l1 R2) as (a3 & E3 & R3). rewrite E3. cbn [bind].
  exists a3, (bdown (al_n a2) 0 l1). split; [reflexivity|]. split; [exact R3|].
  rewrite <- (RA_len _ _ R2). split.
  - apply ok_all_heap. intros j. apply (bdown_heap (length l1) 0 l1 0); try lia.
    intros j0 _ Nj c Hc Hl. rewrite !S3 by lia.
    replace j0 with (parent c) by (unfold parent; lia). apply HO. lia.
  - apply perm_skip. eapply perm_trans; [apply bdown_perm|]. eapply Permutation_cons_inv. exact S2.
Qed.

(* ---------- Values(): the iterator's per-level temporary heaps ---------- *)
Lemma mapM_ext {A B} (f g : A -> M B) (l : list A) : (forall a, In a l -> f a = g a) -> mapM f l = mapM g l.
Proof.
  induction l as [|a t IH]; intros H; simpl; auto.
  rewrite (H a) by now left. rewrite IH; auto. intros b Hb. apply H. now right.
Qed.
Lemma mapM_map {A B C} (f : B -> M C) (h : A -> B) (l : list A) : mapM f (map h l) = mapM (fun a => f (h a)) l.
Proof. induction l as [|a t IH]; simpl; auto. now rewrite IH. Qed.
Lemma mapM_app {A B} (f : A -> M B) l1 l2 v1 v2 :
  mapM f l1 = Ok v1 -> mapM f l2 = Ok v2 -> mapM f (l1 ++ l2) = Ok (v1 ++ v2).
Proof.
  revert v1. induction l1 as [|a t IH]; intros v1 H1 H2; simpl in *.
  - inversion H1; subst. exact H2.
  - destruct (f a) as [b|]; [|discriminate]. cbn [bind] in *.
    destruct (mapM f t) as [bs|] eqn:E; [|discriminate]. cbn [bind] in *. inversion H1; subst.
    rewrite (IH bs eq_refl H2). reflexivity.
Qed.
Lemma seq_plus st : forall cnt, seq st cnt = map (fun k => st + k) (seq 0 cnt).
Proof.
  intros cnt. revert st. induction cnt as [|c IH]; intros st; simpl; auto.
  rewrite Nat.add_0_r. f_equal. rewrite <- (seq_shift c 0), map_map. rewrite IH. apply map_ext. intros k. lia.
Qed.
Lemma nth_slice (l : list Z) st : forall cnt, st + cnt <= length l ->
  map (fun n => l@n) (seq st cnt) = firstn cnt (skipn st l).
Proof.
  intros cnt. revert st. induction cnt as [|c IH]; intros st H; simpl; auto.
  rewrite (skipn_nth_cons l st) by lia. simpl. f_equal. apply IH. lia.
Qed.
Lemma firstn_add (l : list Z) a b : firstn (a + b) l = firstn a l ++ firstn b (skipn a l).
Proof.
  revert l. induction a as [|a IH]; intros l; simpl; auto. destruct l as [|x t]; simpl.
  - now rewrite firstn_nil.
  - now rewrite IH.
Qed.

Definition popval (k : nat) (t : al) : M Z :=
  bind (pops le k t) (fun t1 => bind (heap_pop le t1) (fun r => Ok (fst (snd r)))).

(* popping a heap of m elements m times returns a permutation of its contents *)
Lemma drain_perm : forall m t l, RA t l -> heap_ok l -> length l = m ->
  exists vs, mapM (fun k => popval k t) (seq 0 m) = Ok vs /\ Permutation vs l.
Proof.
  induction m as [|m IH]; intros t l HR HO HL.
  - destruct l; [|discriminate]. exists []. split; auto.
  - destruct l as [|x tl]; [discriminate|].
    destruct (pop_ok t x tl HR HO) as (t' & l' & E & R' & O' & P').
    assert (L' : length l' = m).
    { apply Permutation_length in P'. simpl in P', HL. lia. }
    destruct (IH t' l' R' O' L') as (vs & Ev & Pv).
    exists (x :: vs). split.
    + cbn [seq mapM]. unfold popval at 1. cbn [pops bind]. rewrite E. cbn [bind snd fst].
      rewrite <- seq_shift, mapM_map.
      rewrite (mapM_ext _ (fun k => popval k t')).
      * rewrite Ev. reflexivity.
      * intros k _. unfold popval. cbn [pops]. rewrite E. reflexivity.
    + eapply perm_trans; [apply perm_skip; exact Pv|exact P'].
Qed.

Definition build (a : al) (idxs : list nat) (t : al) : M al :=
  fold_left (fun m n => bind m (fun t => bind (hget n a) (fun v => heap_push le [v] t))) idxs (Ok t).

Lemma build_ok a l : RA a l -> forall idxs t lt, RA t lt -> heap_ok lt ->
  exists t' lt', build a idxs t = Ok t' /\ RA t' lt' /\ heap_ok lt' /\ Permutation lt' (map (fun n => l@n) idxs ++ lt).
Proof.
  intros HR. induction idxs as [|n r IH]; intros t lt Rt Ot; unfold build in *; cbn [fold_left map app].
  - exists t, lt. auto.
  - cbn [bind]. rewrite (hget_ok n a l HR). cbn [bind].
    destruct (push_one l@n t lt Rt Ot) as (t1 & l1 & E1 & R1 & O1 & P1). rewrite E1.
    destruct (IH t1 l1 R1 O1) as (t2 & l2 & E2 & R2 & O2 & P2).
    exists t2, l2. split; [exact E2|]. split; [exact R2|]. split; [exact O2|].
    eapply perm_trans; [exact P2|]. eapply perm_trans; [apply Permutation_app_head; exact P1|].
    apply Permutation_sym, Permutation_middle.
Qed.

Lemma level_of b i : 2 ^ b - 1 <= i < 2 ^ (S b) - 1 -> Nat.log2 (i + 1) = b.
Proof.
  intros H. assert (P2 : 2 ^ (S b) = 2 * 2 ^ b) by reflexivity.
  assert (Pz : 2 ^ b <> 0) by (apply Nat.pow_nonzero; lia).
  apply Nat.log2_unique; lia.
Qed.

Lemma level_vals b a l : RA a l -> 2 ^ b - 1 <= length l ->
  let st := 2 ^ b - 1 in let cnt := Nat.min (2 ^ (S b) - 1) (length l) - st in
  exists vs, mapM (heap_value_at le a) (seq st cnt) = Ok vs /\ Permutation vs (firstn cnt (skipn st l)).
Proof.
  intros HR Hst st cnt. pose proof (RA_len _ _ HR) as HL.
  assert (P2 : 2 ^ (S b) = 2 * 2 ^ b) by reflexivity.
  assert (Pz : 2 ^ b <> 0) by (apply Nat.pow_nonzero; lia).
  destruct (build_ok a l HR (seq st cnt) al0 []) as (T & lT & ET & RT & OT & PT).
  { split; simpl; auto. } { intros i Hi. simpl in Hi. lia. }
  rewrite app_nil_r in PT. rewrite nth_slice in PT by (unfold cnt, st; lia).
  assert (LT : length lT = cnt).
  { apply Permutation_length in PT. rewrite PT, firstn_length, skipn_length. unfold cnt, st. lia. }
  destruct (drain_perm cnt T lT RT OT LT) as (vs & Ev & Pv).
  exists vs. split; [|eapply perm_trans; [exact Pv|exact PT]].
  rewrite seq_plus, mapM_map. rewrite (mapM_ext _ (fun k => popval k T)); [exact Ev|].
  intros k Hk. apply in_seq in Hk. unfold heap_value_at, level_end, level_start.
  rewrite (level_of b (st + k)) by (unfold st, cnt in *; lia).
  fold st. rewrite <- HL.
  replace (Nat.min (st + 2 ^ b) (length l) - st) with cnt by (unfold cnt, st; lia).
  fold (build a (seq st cnt) al0). rewrite ET. cbn [bind].
  replace (st + k - st) with k by lia. reflexivity.
Qed.

Lemma levels_upto a l : RA a l -> forall b, let m := Nat.min (2 ^ b - 1) (length l) in
  exists vs, mapM (heap_value_at le a) (seq 0 m) = Ok vs /\ Permutation vs (firstn m l).
Proof.
  intros HR. induction b as [|b IH]; intros m.
  - exists []. unfold m. simpl. auto.
  - destruct IH as (vs0 & E0 & P0).
    assert (P2 : 2 ^ (S b) = 2 * 2 ^ b) by reflexivity.
    assert (Pz : 2 ^ b <> 0) by (apply Nat.pow_nonzero; lia).
    destruct (Nat.le_gt_cases (length l) (2 ^ b - 1)) as [Hs|Hs].
    + exists vs0. unfold m. replace (Nat.min (2 ^ S b - 1) (length l)) with (Nat.min (2 ^ b - 1) (length l)) by lia. auto.
    + destruct (level_vals b a l HR) as (vs1 & E1 & P1); [lia|].
      rewrite (Nat.min_l (2 ^ b - 1)) in E0, P0 by lia.
      exists (vs0 ++ vs1). unfold m.
      replace (Nat.min (2 ^ S b - 1) (length l)) with ((2 ^ b - 1) + (Nat.min (2 ^ S b - 1) (length l) - (2 ^ b - 1))) by lia.
      split.
      * rewrite seq_app. simpl plus. now apply mapM_app.
      * rewrite firstn_add. now apply Permutation_app.
Qed.

Lemma heap_values_ok a l : RA a l -> exists vs, heap_values le a = Ok vs /\ Permutation vs l.
Proof.
  intros HR. pose proof (RA_len _ _ HR) as HL. destruct (levels_upto a l HR (length l)) as (vs & E & P).
  assert (Hp : length l < 2 ^ length l) by (apply Nat.pow_gt_lin_r; lia).
  rewrite Nat.min_r in E, P by lia. rewrite firstn_all in P.
  exists vs. unfold heap_values. rewrite <- HL. auto.
Qed.

(* ---------- the multiset discipline ---------- *)
Definition HI (a : al) (bag : list Z) : Prop := exists l, RA a l /\ heap_ok l /\ Permutation bag l.

Lemma remove_one_perm x : forall bag, In x bag -> exists bag', remove_one x bag = Some bag' /\ Permutation (x :: bag') bag.
Proof.
  induction bag as [|y b IH]; intros H; [destruct H|]. simpl.
  destruct (Z.eqb_spec y x) as [->|N].
  - exists b. split; auto.
  - destruct H as [->|H]; [congruence|]. destruct (IH H) as (b' & E & P). rewrite E.
    exists (y :: b'). split; auto. eapply perm_trans; [apply perm_swap|]. now apply perm_skip.
Qed.

Lemma min_of_bag bag x t : heap_ok (x :: t) -> Permutation bag (x :: t) -> is_min_of le bag x = true.
Proof.
  intros HO P. unfold is_min_of. apply andb_true_iff. split.
  - apply existsb_exists. exists x. split; [|apply Z.eqb_refl].
    eapply Permutation_in; [apply Permutation_sym; exact P|now left].
  - apply forallb_forall. intros y Hy. eapply Permutation_in in Hy; [|exact P].
    apply (In_nth _ _ 0%Z) in Hy. destruct Hy as (i & Hi & <-).
    apply (root_min (x :: t) HO i Hi).
Qed.

Lemma HI_nil a : RA a [] -> HI a [].
Proof. intros R. exists []. split; [exact R|]. split; [|auto]. intros i Hi. simpl in Hi. lia. Qed.

Lemma heap_step_ok a bag o : HI a bag ->
  exists bag', bag_step le bag o (snd (heap_step le a o)) = Some bag' /\ HI (fst (heap_step le a o)) bag'.
Proof.
  intros (l & HR & HO & P). pose proof (RA_len _ _ HR) as HL. pose proof (Permutation_length P) as PL.
  destruct o; cbn [heap_step].
  - destruct (push_any [v] a l HR HO) as (a' & l' & E & R' & O' & P'). rewrite E. cbn [qmut fst snd bag_step].
    exists (v :: bag). split; auto. exists l'. split; [exact R'|]. split; [exact O'|].
    eapply perm_trans; [|apply Permutation_sym; exact P']. now apply perm_skip.
  - destruct (push_any vs a l HR HO) as (a' & l' & E & R' & O' & P'). rewrite E. cbn [qmut fst snd bag_step].
    exists (vs ++ bag). split; auto. exists l'. split; [exact R'|]. split; [exact O'|].
    eapply perm_trans; [|apply Permutation_sym; exact P']. now apply Permutation_app_head.
  - destruct l as [|x t].
    + apply Permutation_sym, Permutation_nil in P. subst bag.
      unfold heap_pop. rewrite (al_get_ok 0 a [] HR). cbn. exists []. split; auto. now apply HI_nil.
    + destruct (pop_ok a x t HR HO) as (a' & l' & E & R' & O' & P'). rewrite E. cbn [qget fst snd bag_step].
      destruct bag as [|b0 bag0]; [apply Permutation_nil in P; discriminate|].
      rewrite (min_of_bag _ x t HO P). cbn [andb].
      assert (Hin : In x (b0 :: bag0)) by (eapply Permutation_in; [apply Permutation_sym; exact P|now left]).
      destruct (remove_one_perm x _ Hin) as (bag' & E' & P''). rewrite E'. exists bag'. split; auto.
      exists l'. split; [exact R'|]. split; [exact O'|]. eapply Permutation_cons_inv.
      eapply perm_trans; [exact P''|]. eapply perm_trans; [exact P|]. apply Permutation_sym. exact P'.
  - rewrite (al_get_ok 0 a l HR). cbn [qqry fst snd]. destruct l as [|x t].
    + apply Permutation_sym, Permutation_nil in P. subst bag. cbn. exists []. split; auto. now apply HI_nil.
    + destruct bag as [|b0 bag0]; [apply Permutation_nil in P; discriminate|].
      assert (W0 : within 0 (length (x :: t)) = true) by (apply within_spec; simpl; lia).
      unfold get_at. rewrite W0. cbn [fst snd nth Z.to_nat bag_step].
      rewrite (min_of_bag _ x t HO P). cbn [andb]. exists (b0 :: bag0). split; auto.
      exists (x :: t). split; [exact HR|]. split; [exact HO|exact P].
  - cbn [fst snd bag_step]. exists []. split; auto. apply HI_nil. apply RA_clear.
  - destruct (heap_values_ok a l HR) as (vs & E & Pv). rewrite E. cbn [qqry fst snd bag_step].
    rewrite (perm_b_complete vs bag) by (eapply perm_trans; [exact Pv|apply Permutation_sym; exact P]).
    exists bag. split; auto. exists l. split; [exact HR|]. split; [exact HO|exact P].
  - cbn [fst snd bag_step]. rewrite <- HL, <- PL, Z.eqb_refl. exists bag. split; auto.
    exists l. split; [exact HR|]. split; [exact HO|exact P].
  - cbn [fst snd bag_step]. rewrite <- HL, <- PL, Bool.eqb_reflx. exists bag. split; auto.
    exists l. split; [exact HR|]. split; [exact HO|exact P].
  - cbn [fst snd bag_step]. exists bag. split; auto.
    exists l. split; [exact HR|]. split; [exact HO|exact P].
Qed.

Lemma heap_run_ok : forall ops a bag, HI a bag ->
  bag_accept le bag (combine ops (snd (qrun (heap_step le) a ops))) = true /\
  exists bag', HI (fst (qrun (heap_step le) a ops)) bag'.
Proof.
  induction ops as [|o t IH]; intros a bag H; cbn [qrun].
  - split; [reflexivity|]. exists bag. exact H.
  - destruct (heap_step_ok a bag o H) as (bag1 & E1 & H1).
    destruct (heap_step le a o) as [a1 r1]. cbn [fst snd] in *.
    destruct (IH a1 bag1 H1) as (A & bag' & H').
    destruct (qrun (heap_step le) a1 t) as [a2 rs]. cbn [fst snd combine bag_accept] in *.
    rewrite E1. split; [exact A|]. exists bag'. exact H'.
Qed.

Lemma HI_init : HI al0 [].
Proof. apply HI_nil. split; simpl; auto. Qed.

(* Peek shows what the next Pop returns *)
Lemma peek_is_next_pop a bag : HI a bag -> snd (heap_step le a QPeek) = snd (heap_step le a QDeq).
Proof.
  intros (l & HR & HO & P). cbn [heap_step]. rewrite (al_get_ok 0 a l HR). cbn [qqry snd].
  destruct l as [|x t].
  - unfold heap_pop. rewrite (al_get_ok 0 a [] HR). reflexivity.
  - destruct (pop_ok a x t HR HO) as (a' & l' & E & _). rewrite E. cbn [qget snd].
    assert (W0 : within 0 (length (x :: t)) = true) by (apply within_spec; simpl; lia).
    unfold get_at. rewrite W0. reflexivity.
Qed.
End Heap.
