(* C06 specification: what every bslice method means on an ORDINARY LIST (no memory, no capacity).
   [meth] names a method together with its arguments (function arguments are Gallina functions);
   flag e = the E-suffixed variant (error result observable), flag b = the ...ToBSlice variant.
     pure_recv   m c : contents of the receiver after the call
     pure_result m c : the returned value
     invalid     m n : the error result of the call on a receiver of length n (false for methods
                       without an error result)
     copying     m   : the method is documented as returning a copy
   NO proofs in this file. *)
From VF Require Export Common.Base.
Local Open Scope Z_scope.

(* Argument of Unmarshal. JArr: a JSON array of ints. JDocs: a JSON array of OBJECTS for element type
   struct{ID int `json:"id"`; Name string `json:"name,omitempty"`}; an element {ID, Name} is the code ID*16 + name
   (name = index into a table of 16 names, 0 = ""); a field that the document omits keeps what the element it is
   decoded into already holds (encoding/json merges into existing elements). *)
Inductive jdoc := DInt (z : Z) | DRec (id name : option Z).
Inductive jdata := JArr (l : list Z) | JDocs (ds : list jdoc) | JNull | JBad.

Definition merge_doc (old : Z) (d : jdoc) : Z :=
  match d with
  | DInt z => z
  | DRec oi on => (match oi with Some i => i | None => old / 16 end) * 16
                  + (match on with Some n => n | None => old mod 16 end)
  end.
(* document i is decoded into element i of the CONTENTS; past the end into a zero element - never into anything
   that is not part of the contents (a removed element, spare capacity) *)
Fixpoint merge_all (c : list Z) (ds : list jdoc) : list Z :=
  match ds with
  | [] => []
  | d :: t => merge_doc (hd 0 c) d :: merge_all (tl c) t
  end.

Inductive meth :=
| MEqualFunc (es : list Z) (f : Z -> Z -> bool)
| MCompareFunc (es : list Z) (f : Z -> Z -> Z)
| MIndexFunc (f : Z -> bool)
| MInsert (e : bool) (i : Z) (v : list Z)
| MDelete (e : bool) (i j : Z)
| MDeleteTo (e b : bool) (i j : Z)
| MReplace (e : bool) (i j : Z) (v : list Z)
| MClone (b : bool)
| MCompactFunc (f : Z -> Z -> bool)
| MGrow (e : bool) (n : Z)
| MClip
| MForEach
| MSortFunc (less : Z -> Z -> bool)
| MSortFuncTo (b : bool) (less : Z -> Z -> bool)
| MSortComparator (cmp : Z -> Z -> Z)
| MSortComparatorTo (b : bool) (cmp : Z -> Z -> Z)
| MSortStableFunc (less : Z -> Z -> bool)
| MSortStableFuncTo (b : bool) (less : Z -> Z -> bool)
| MIsSortedFunc (less : Z -> Z -> bool)
| MBinarySearchFunc (t : Z) (cmp : Z -> Z -> Z)
| MFilter (f : Z -> bool)
| MFilterTo (b : bool) (f : Z -> bool)
| MReverse
| MReverseTo (b : bool)
| MMarshal
| MUnmarshal (d : jdata)
| MLen
| MCap
| MToInterfaceSlice
| MToMetaSlice
| MSwap (i j : Z)
| MClear
| MAppend (v : list Z)
| MAppendTo (b : bool) (v : list Z)
| MCopyTo (b : bool)
| MGetByIndex (e : bool) (i : Z)
| MGetByIndexOrDefault (i d : Z)
| MGetByRange (e : bool) (i j : Z)
| MSetByIndex (e : bool) (i x : Z)
| MSetByRange (e : bool) (i : Z) (v : list Z)
(* Comparable *)
| MContains (x : Z)
| MEqual (es : list Z)
| MCompact
(* Ordered *)
| MCompare (es : list Z)
| MSort
| MIsSorted
| MBinarySearch (t : Z)
(* Calculable *)
| MSum
| MAvg
| MMax
| MMin.

Inductive pval := PNone | PInt (z : Z) | PBool (b : bool) | PIntBool (z : Z) (b : bool) | PList (l : list Z).

(* ---------- pure list functions ---------- *)

Definition zlength (c : list Z) : Z := Z.of_nat (length c).

Fixpoint equal_func (f : Z -> Z -> bool) (s1 s2 : list Z) : bool :=
  match s1, s2 with
  | [], [] => true
  | a :: t1, b :: t2 => f a b && equal_func f t1 t2
  | _, _ => false
  end.

(* first non-zero comparison, else by length *)
Fixpoint compare_func (cmp : Z -> Z -> Z) (s1 s2 : list Z) : Z :=
  match s1, s2 with
  | [], [] => 0
  | [], _ :: _ => -1
  | _ :: _, [] => 1
  | a :: t1, b :: t2 => let c := cmp a b in if c =? 0 then compare_func cmp t1 t2 else c
  end.

Definition cmp_ord (a b : Z) : Z := if a <? b then -1 else if b <? a then 1 else 0.

Fixpoint index_func (f : Z -> bool) (c : list Z) : Z :=
  match c with
  | [] => -1
  | x :: t => if f x then 0 else let r := index_func f t in if r <? 0 then -1 else r + 1
  end.

(* keep an element iff it is the first one or differs (by eq cur prev) from its predecessor *)
Fixpoint compact_after (eq : Z -> Z -> bool) (prev : Z) (l : list Z) : list Z :=
  match l with
  | [] => []
  | x :: t => if eq x prev then compact_after eq x t else x :: compact_after eq x t
  end.
Definition pcompact (eq : Z -> Z -> bool) (l : list Z) : list Z :=
  match l with [] => [] | a :: t => a :: compact_after eq a t end.

(* stable insertion sort: x goes before the first y that is not less than x *)
Fixpoint sins (less : Z -> Z -> bool) (x : Z) (l : list Z) : list Z :=
  match l with
  | [] => [x]
  | y :: t => if less y x then y :: sins less x t else x :: y :: t
  end.
Definition isort (less : Z -> Z -> bool) (l : list Z) : list Z := fold_right (sins less) [] l.

Fixpoint is_sorted_by (less : Z -> Z -> bool) (l : list Z) : bool :=
  match l with
  | a :: (b :: _) as t => negb (less b a) && is_sorted_by less t
  | _ => true
  end.

(* position = number of elements that precede the target, found = the element there matches;
   meaningful on lists sorted consistently with cmp (bsearch_sorted in ProofsPure.v) *)
Definition count_before (cmp : Z -> Z -> Z) (t : Z) (c : list Z) : nat :=
  length (filter (fun x => cmp x t <? 0) c).
Definition psearch (cmp : Z -> Z -> Z) (t : Z) (c : list Z) : Z * bool :=
  let p := count_before cmp t c in
  (Z.of_nat p, (p <? length c)%nat && (cmp (nth p c 0) t =? 0)).

Fixpoint foreach_pairs (i : Z) (c : list Z) : list Z :=
  match c with [] => [] | x :: t => i :: x :: foreach_pairs (i + 1) t end.

Definition zsum (c : list Z) : Z := fold_right Z.add 0 c.
Definition zmax_list (c : list Z) : Z := match c with [] => 0 | a :: t => fold_left Z.max t a end.
Definition zmin_list (c : list Z) : Z := match c with [] => 0 | a :: t => fold_left Z.min t a end.
Definition zavg (c : list Z) : Z := match c with [] => 0 | _ => Z.quot (zsum c) (zlength c) end.

(* SetByRange(index, es) has no doc comment. Reading chosen (from the name, from its sibling SetByIndex, which
   overwrites one cell, and from Insert, for which index = len is the valid "at the end" position): the cells
   index, index+1, ... are overwritten by es; a range that runs past the end EXTENDS the slice (so index = len
   appends). A negative index is invalid (error in the E variant, no-op in the non-E variant). An index beyond
   len is NOT an error: the package's own test table (TestUnsafeAnyBSlice_SetByRange / TestSafeAnyBSlice_SetByRange,
   rows "nil / []int{} receiver, index 2, es [1 2 3] -> [1 2 3], no error") fixes that it means "at the end", so it
   is clamped to len. The code used to append es at the end whatever the index (finding N2):
   [1 2 3].SetByRange(1, [7 8 9]) gave [1 2 3 7 8 9] instead of [1 7 8 9]. *)
Definition set_range (c : list Z) (i : nat) (v : list Z) : list Z := firstn i c ++ v ++ skipn (i + length v) c.

(* No []int can hold this many elements: the Go runtime refuses (panics, before allocating) any slice above
   maxAlloc = 2^48 bytes on amd64, i.e. 2^45 ints. Growing to len + n >= alloc_limit is therefore an invalid
   amount that GrowE must report as an error (finding N4); smaller amounts are assumed allocatable (the model has
   no out-of-memory below the limit, and the harness does not go near it). *)
Definition alloc_limit : Z := 2 ^ 45.

(* ---------- validity of index arguments ---------- *)
Definition bad_index (n i : Z) : bool := (i <? 0) || (n <=? i).               (* i < 0 || i >= n *)
Definition bad_pos (n i : Z) : bool := (i <? 0) || (n <? i).                  (* i < 0 || i > n  *)
Definition bad_range (n i j : Z) : bool := (i <? 0) || (n <? j) || (j <? i).  (* i < 0 || j > n || i > j *)

Definition cut (c : list Z) (i j : Z) : list Z := firstn (Z.to_nat i) c ++ skipn (Z.to_nat j) c.
Definition splice (c : list Z) (i j : Z) (v : list Z) : list Z :=
  firstn (Z.to_nat i) c ++ v ++ skipn (Z.to_nat j) c.
Definition sub (c : list Z) (i j : Z) : list Z := firstn (Z.to_nat j - Z.to_nat i) (skipn (Z.to_nat i) c).

(* ---------- the specification ---------- *)

Definition pure_recv (m : meth) (c : list Z) : list Z :=
  let n := zlength c in
  match m with
  | MInsert _ i v => if bad_pos n i then c else splice c i i v
  | MDelete _ i j => if bad_range n i j then c else cut c i j
  | MReplace _ i j v => if bad_range n i j then c else splice c i j v
  | MCompactFunc f => pcompact f c
  | MCompact => pcompact Z.eqb c
  | MSortFunc less | MSortStableFunc less => isort less c
  | MSortComparator cmp => isort (fun a b => cmp a b <? 0) c
  | MSort => isort Z.ltb c
  | MFilter f => filter f c
  | MReverse => rev c
  | MUnmarshal (JArr l) => l
  | MUnmarshal (JDocs ds) => merge_all c ds
  | MUnmarshal JNull => []
  | MSwap i j => if bad_index n i || bad_index n j then c else swap 0 c (Z.to_nat i) (Z.to_nat j)
  | MClear => []
  | MAppend v => c ++ v
  | MSetByIndex _ i x => if bad_index n i then c else upd c (Z.to_nat i) x
  | MSetByRange _ i v => if i <? 0 then c else set_range c (Z.to_nat (Z.min i n)) v
  | _ => c
  end.

Definition pure_result (m : meth) (c : list Z) : pval :=
  let n := zlength c in
  match m with
  | MEqualFunc es f => PBool (equal_func f c es)
  | MCompareFunc es f => PInt (compare_func f c es)
  | MIndexFunc f => PInt (index_func f c)
  | MDeleteTo _ _ i j => PList (if bad_range n i j then [] else cut c i j)
  | MClone _ | MCopyTo _ | MMarshal | MToInterfaceSlice | MToMetaSlice => PList c
  | MForEach => PList (foreach_pairs 0 c)
  | MSortFuncTo _ less | MSortStableFuncTo _ less => PList (isort less c)
  | MSortComparatorTo _ cmp => PList (isort (fun a b => cmp a b <? 0) c)
  | MIsSortedFunc less => PBool (is_sorted_by less c)
  | MBinarySearchFunc t cmp => let '(p, f) := psearch cmp t c in PIntBool p f
  | MFilterTo _ f => PList (filter f c)
  | MReverseTo _ => PList (rev c)
  | MLen => PInt n
  | MAppendTo _ v => PList (c ++ v)
  | MGetByIndex _ i => PInt (if bad_index n i then 0 else nth (Z.to_nat i) c 0)
  | MGetByIndexOrDefault i d => PInt (if bad_index n i then d else nth (Z.to_nat i) c 0)
  | MGetByRange _ i j => PList (if bad_range n i j then [] else sub c i j)
  | MContains x => PBool (existsb (Z.eqb x) c)
  | MEqual es => PBool (equal_func Z.eqb c es)
  | MCompare es => PInt (compare_func cmp_ord c es)
  | MIsSorted => PBool (is_sorted_by Z.ltb c)
  | MBinarySearch t => let '(p, f) := psearch cmp_ord t c in PIntBool p f
  | MSum => PInt (zsum c)
  | MAvg => PInt (zavg c)
  | MMax => PInt (zmax_list c)
  | MMin => PInt (zmin_list c)
  | _ => PNone       (* no result, or (Cap) a result that is about capacity itself *)
  end.

(* the error result; only the e = true variants have one *)
Definition invalid (m : meth) (n : Z) : bool :=
  match m with
  | MInsert true i _ => bad_pos n i
  | MDelete true i j | MDeleteTo true _ i j => bad_range n i j
  | MReplace true i j _ | MGetByRange true i j => bad_range n i j
  | MGrow true k => (k <? 0) || (alloc_limit <=? n + k)
  | MGetByIndex true i | MSetByIndex true i _ => bad_index n i
  | MSetByRange true i _ => i <? 0
  | MUnmarshal JBad => true
  | _ => false
  end.

Definition is_E (m : meth) : bool :=
  match m with
  | MInsert e _ _ | MDelete e _ _ | MDeleteTo e _ _ _ | MReplace e _ _ _ | MGrow e _
  | MGetByIndex e _ | MGetByRange e _ _ | MSetByIndex e _ _ | MSetByRange e _ _ => e
  | _ => false
  end.

(* methods documented as returning a copy: ...ToSlice, ...ToBSlice, Clone..., Copy..., GetByRange *)
Definition copying (m : meth) : bool :=
  match m with
  | MDeleteTo _ _ _ _ | MClone _ | MSortFuncTo _ _ | MSortComparatorTo _ _ | MSortStableFuncTo _ _
  | MFilterTo _ _ | MReverseTo _ | MAppendTo _ _ | MCopyTo _ | MGetByRange _ _ _ => true
  | _ => false
  end.

(* methods during which a user callback that looks at the receiver must see it exactly as it was before the call (the
   standard-library loop on an ordinary slice reads the slice and writes elsewhere, or nowhere): all callback-taking methods
   except the in-place ones (CompactFunc and the in-place sorts, whose callbacks see the slice being rearranged) *)
Definition sees_unchanged (m : meth) : bool :=
  match m with
  | MEqualFunc _ _ | MCompareFunc _ _ | MIndexFunc _ | MForEach | MIsSortedFunc _ | MBinarySearchFunc _ _
  | MFilter _ | MFilterTo _ _ | MSortFuncTo _ _ | MSortComparatorTo _ _ | MSortStableFuncTo _ _ => true
  | _ => false
  end.

(* methods that rebind the receiver to storage of their own: nothing that was handed out earlier (the slice the wrapper
   was built from, a ToMetaSlice result) may be touched by any LATER method (Clear: x.e = []E{}; Filter: x.e = res) *)
Definition detaches (m : meth) : bool := match m with MClear | MFilter _ => true | _ => false end.

(* the capacity of the receiver after the call, where it is a function of the contents alone
   (Clear: an empty slice of its own; Clip: "removes unused capacity") *)
Definition pure_cap (m : meth) (c : list Z) : option nat :=
  match m with MClear => Some 0%nat | MClip => Some (length c) | _ => None end.

(* methods whose result is about capacity itself (excluded from capacity independence of the result) *)
Definition about_cap (m : meth) : bool := match m with MCap => true | _ => false end.

(* BinarySearch(Func) is specified only on receivers on which the comparison is monotone: every element
   that precedes the target (cmp x t < 0) comes before every element that does not (the doc comment's
   "cmp must implement the same ordering as the slice") *)
Definition partitioned (cmp : Z -> Z -> Z) (t : Z) (c : list Z) : bool :=
  let p := count_before cmp t c in
  forallb (fun x => cmp x t <? 0) (firstn p c) && forallb (fun x => negb (cmp x t <? 0)) (skipn p c).
Definition search_pre (m : meth) (c : list Z) : bool :=
  match m with
  | MBinarySearchFunc t cmp => partitioned cmp t c
  | MBinarySearch t => partitioned cmp_ord t c
  | _ => true
  end.
