(* C06 lemmas about the slice memory model: list toolkit (nth-extensionality automation), the effect of
   wstore / mk / alloc_list / bs_append on capacity windows, heap extension (old arrays untouched). *)
From VF Require Import C06.GoSlice.
Local Open Scope nat_scope.

(* ---------- nth of the list constructors, in if-then-else form ---------- *)
Lemma nth_app_if (l1 l2 : list Z) k d :
  nth k (l1 ++ l2) d = if k <? length l1 then nth k l1 d else nth (k - length l1) l2 d.
Proof.
  destruct (Nat.ltb_spec k (length l1)); [apply app_nth1|apply app_nth2]; lia.
Qed.
Lemma nth_firstn_if n (l : list Z) k : nth k (firstn n l) 0%Z = if k <? n then nth k l 0%Z else 0%Z.
Proof.
  revert n k; induction l as [|a l IH]; intros n k.
  - rewrite firstn_nil. destruct k; simpl; destruct (_ <? _); reflexivity.
  - destruct n as [|n], k as [|k]; simpl; auto. exact (IH n k).
Qed.
Lemma nth_skipn_plus n (l : list Z) k d : nth k (skipn n l) d = nth (n + k) l d.
Proof.
  revert l; induction n as [|n IH]; intros l; simpl; auto.
  destruct l; simpl; auto. now destruct k.
Qed.
Lemma nth_repeat_if (x : Z) n k : nth k (repeat x n) 0%Z = if k <? n then x else 0%Z.
Proof.
  revert k; induction n as [|n IH]; intros [|k]; simpl; auto. exact (IH k).
Qed.
Lemma nth_upd_if (l : list Z) i x k :
  nth k (upd l i x) 0%Z = if (k =? i) && (k <? length l) then x else nth k l 0%Z.
Proof.
  destruct (Nat.eqb_spec k i) as [->|N]; simpl.
  - destruct (Nat.ltb_spec i (length l)).
    + now apply nth_upd_same.
    + now rewrite upd_oob.
  - apply nth_upd_other; auto.
Qed.

Lemma nth_single_if (x : Z) k : nth k [x] 0%Z = if k =? 0 then x else 0%Z.
Proof. destruct k as [|[|k]]; reflexivity. Qed.

Global Hint Rewrite @app_length @firstn_length @skipn_length @repeat_length @upd_length @rev_length @map_length : len.
Global Hint Rewrite nth_app_if nth_firstn_if nth_skipn_plus nth_repeat_if nth_upd_if nth_single_if : nths.

Ltac len_simp := autorewrite with len in *; cbn [length] in *.

Ltac nth_fin :=
  first [ reflexivity
        | f_equal; lia
        | rewrite nth_overflow by lia; reflexivity
        | symmetry; rewrite nth_overflow by lia; reflexivity
        | rewrite !nth_overflow by lia; reflexivity
        | lia ].

Ltac split_ifs :=
  repeat match goal with
         | |- context [?a <? ?b] => destruct (Nat.ltb_spec a b)
         | |- context [?a =? ?b] => destruct (Nat.eqb_spec a b)
         end; cbn [andb orb negb].

(* prove l1 = l2 by comparing lengths and every position *)
Ltac list_ext :=
  apply (nth_ext _ _ 0%Z 0%Z);
  [ len_simp; lia
  | let k := fresh "k" in let Hk := fresh "Hk" in
    intros k Hk; len_simp; autorewrite with nths; len_simp; split_ifs; nth_fin ].

(* ---------- write ---------- *)
Lemma length_write a pos xs : pos + length xs <= length a -> length (write a pos xs) = length a.
Proof. intros. unfold write. len_simp. lia. Qed.

Lemma nth_write_if a p xs k :
  p + length xs <= length a ->
  nth k (write a p xs) 0%Z = if k <? p then nth k a 0%Z else if k <? p + length xs then nth (k - p) xs 0%Z else nth k a 0%Z.
Proof.
  intros H. unfold write. autorewrite with nths. len_simp.
  replace (Nat.min p (length a)) with p by lia. split_ifs; nth_fin.
Qed.

Lemma write_nil a p : write a p [] = a.
Proof. unfold write. simpl. rewrite Nat.add_0_r. apply firstn_skipn. Qed.

(* writing inside a window acts on the window as a plain list write *)
Lemma window_write a o p xs n :
  o + n <= length a -> p + length xs <= n ->
  firstn n (skipn o (write a (o + p) xs)) = write (firstn n (skipn o a)) p xs.
Proof.
  intros Ha Hp.
  apply (nth_ext _ _ 0%Z 0%Z).
  - rewrite length_write; len_simp; rewrite ?length_write; len_simp; lia.
  - intros k Hk. autorewrite with nths.
    rewrite !nth_write_if by (len_simp; lia). autorewrite with nths. len_simp.
    split_ifs; nth_fin.
Qed.

(* ---------- heap cells ---------- *)
Lemma nth_set_arr_same h id a : id < length h -> nth id (set_arr h id a) [] = a.
Proof. intros. unfold set_arr. now apply nth_upd_same. Qed.
Lemma nth_set_arr_other h id a j : j <> id -> nth j (set_arr h id a) [] = nth j h [].
Proof. intros. unfold set_arr. apply nth_upd_other. auto. Qed.
Lemma length_set_arr h id a : length (set_arr h id a) = length h.
Proof. apply upd_length. Qed.

Lemma relen_self s : relen s (len s) = s.
Proof. now destruct s. Qed.

Lemma wfs_arr_lt h s : wfs h s -> 0 < cap s -> arr s < length h.
Proof.
  intros (H1 & _) Hc. unfold arrOf in H1.
  destruct (Nat.lt_ge_cases (arr s) (length h)); auto.
  rewrite nth_overflow in H1 by lia. simpl in H1. lia.
Qed.

Lemma fullwin_length h s : wfs h s -> length (fullwin h s) = cap s.
Proof. intros (H1 & _). unfold fullwin, window. len_simp. lia. Qed.
Lemma contents_fullwin h s : len s <= cap s -> contents h s = firstn (len s) (fullwin h s).
Proof.
  intros. unfold contents, fullwin, window. rewrite firstn_firstn.
  now replace (Nat.min (len s) (cap s)) with (len s) by lia.
Qed.
Lemma contents_length h s : wfs h s -> length (contents h s) = len s.
Proof. intros (H1 & H2 & _). unfold contents, window. len_simp. lia. Qed.

(* the capacity window depends only on the array and on off/cap *)
Lemma fullwin_relen h s n : fullwin h (relen s n) = fullwin h s.
Proof. reflexivity. Qed.
Lemma contents_relen h s n : n <= cap s -> contents h (relen s n) = firstn n (fullwin h s).
Proof. intros. rewrite contents_fullwin by (simpl; auto). reflexivity. Qed.
Lemma wfs_relen h s n : wfs h s -> n <= cap s -> wfs h (relen s n).
Proof. intros (H1 & H2 & H3) Hn. repeat split; simpl; auto. Qed.

(* ---------- wstore ---------- *)
(* the slice written through may be any re-slicing t of s (same arr/off) with room for the data *)
Lemma wstore_fullwin h s t p xs :
  wfs h s -> arr t = arr s -> off t = off s -> len t <= cap s -> p + length xs <= len t ->
  fullwin (wstore h t p xs) s = write (fullwin h s) p xs.
Proof.
  intros W Ha Ho Hl Hp. unfold wstore.
  replace (Nat.min (len t - p) (length xs)) with (length xs) by lia. rewrite firstn_all.
  destruct xs as [|x xs'] eqn:E.
  { rewrite !write_nil. unfold fullwin, window, arrOf, set_arr. rewrite Ha.
    destruct (Nat.lt_ge_cases (arr s) (length h)).
    - now rewrite nth_upd_same.
    - now rewrite upd_oob. }
  rewrite <- E in *. assert (0 < length xs) by (subst; simpl; lia).
  assert (Hlt : arr s < length h) by (apply (wfs_arr_lt h s W); lia).
  destruct W as (W1 & W2 & W3).
  unfold fullwin, window, arrOf. rewrite Ha, Ho, nth_set_arr_same by auto.
  apply window_write; [exact W1|lia].
Qed.

Lemma upd_nth_same {A} (l : list A) i d : upd l i (nth i l d) = l.
Proof. revert i; induction l as [|a l IH]; intros [|i]; simpl; auto. now rewrite IH. Qed.
Lemma wstore_nil h t p : wstore h t p [] = h.
Proof.
  unfold wstore. replace (firstn (Nat.min (len t - p) (length (@nil Z))) []) with (@nil Z) by (now rewrite firstn_nil).
  rewrite write_nil. unfold set_arr, arrOf. apply upd_nth_same.
Qed.

Lemma wstore_other h t p xs j : j <> arr t -> nth j (wstore h t p xs) [] = nth j h [].
Proof. intros. unfold wstore. now apply nth_set_arr_other. Qed.
Lemma wstore_length h t p xs : length (wstore h t p xs) = length h.
Proof. unfold wstore. apply length_set_arr. Qed.

Lemma wstore_arr_length h t p xs :
  off t + len t <= length (arrOf h t) -> p + length xs <= len t ->
  length (arrOf (wstore h t p xs) t) = length (arrOf h t).
Proof.
  intros Hb Hp. unfold wstore.
  replace (Nat.min (len t - p) (length xs)) with (length xs) by lia. rewrite firstn_all.
  unfold arrOf, set_arr.
  destruct (Nat.lt_ge_cases (arr t) (length h)).
  - rewrite nth_upd_same by auto. apply length_write. fold (arrOf h t). lia.
  - now rewrite upd_oob.
Qed.

Lemma wstore_wfs h s t p xs :
  wfs h s -> arr t = arr s -> off t = off s -> len t <= cap s -> p + length xs <= len t ->
  forall u, arr u = arr s -> off u = off s -> cap u = cap s -> len u <= cap u -> (isnil u = true -> cap u = 0) ->
  wfs (wstore h t p xs) u.
Proof.
  intros W Ha Ho Hl Hp u Ua Uo Uc Ul Un.
  assert (L : length (arrOf (wstore h t p xs) t) = length (arrOf h t)).
  { apply wstore_arr_length; auto. destruct W as (W1 & _). unfold arrOf in *. rewrite Ha, Ho. lia. }
  destruct W as (W1 & W2 & W3). repeat split; auto.
  unfold arrOf in *. rewrite Ua, Uo, Uc. rewrite Ha in L. rewrite L. exact W1.
Qed.

(* a slice living in another array is not affected *)
Lemma wstore_fullwin_other h t p xs u :
  arr u <> arr t -> fullwin (wstore h t p xs) u = fullwin h u.
Proof. intros. unfold fullwin, window, arrOf. now rewrite wstore_other. Qed.
Lemma wstore_wfs_other h t p xs u : arr u <> arr t -> wfs h u -> wfs (wstore h t p xs) u.
Proof. intros N (W1 & W2 & W3). repeat split; auto. unfold arrOf in *. now rewrite wstore_other. Qed.

(* ---------- heap extension: old arrays are untouched ---------- *)
Definition ext (h h' : heap) : Prop :=
  length h <= length h' /\ forall j, j < length h -> nth j h' [] = nth j h [].

Lemma ext_refl h : ext h h.
Proof. split; auto. Qed.
Lemma ext_trans h1 h2 h3 : ext h1 h2 -> ext h2 h3 -> ext h1 h3.
Proof. intros (L1 & E1) (L2 & E2). split; [lia|]. intros j Hj. rewrite E2 by lia. now apply E1. Qed.
Lemma ext_app h a : ext h (h ++ [a]).
Proof. split; [len_simp; lia|]. intros j Hj. now apply app_nth1. Qed.
Lemma ext_wstore h0 h t p xs : ext h0 h -> length h0 <= arr t -> ext h0 (wstore h t p xs).
Proof.
  intros (L & E) Hf. split; [rewrite wstore_length; lia|].
  intros j Hj. rewrite wstore_other by lia. now apply E.
Qed.

(* a well-formed slice of the old heap reads the same in the extended heap *)
Lemma ext_fullwin h h' s : ext h h' -> wfs h s -> fullwin h' s = fullwin h s.
Proof.
  intros (L & E) W. destruct (Nat.eq_dec (cap s) 0) as [Z|NZ].
  - unfold fullwin, window. now rewrite Z.
  - assert (arr s < length h) by (apply (wfs_arr_lt h s W); lia).
    unfold fullwin, window, arrOf. now rewrite E.
Qed.
Lemma ext_contents h h' s : ext h h' -> wfs h s -> contents h' s = contents h s.
Proof.
  intros X W. destruct W as (W1 & W2 & W3).
  rewrite !contents_fullwin by auto. f_equal. apply ext_fullwin; auto. repeat split; auto.
Qed.
Lemma ext_wfs h h' s : ext h h' -> wfs h s -> wfs h' s.
Proof.
  intros (L & E) W. destruct (Nat.eq_dec (cap s) 0) as [Z|NZ].
  - destruct W as (W1 & W2 & W3). repeat split; auto.
    rewrite Z in *. assert (off s <= length (arrOf h s)) by lia.
    unfold arrOf in *. destruct (Nat.lt_ge_cases (arr s) (length h)).
    + rewrite E by auto. lia.
    + rewrite nth_overflow in H by lia. simpl in H. lia.
  - assert (arr s < length h) by (apply (wfs_arr_lt h s W); lia).
    destruct W as (W1 & W2 & W3). repeat split; auto. unfold arrOf in *. now rewrite E.
Qed.

(* fresh: the slice does not live in the old heap h0 *)
Definition fresh (h0 : heap) (t : slice) : Prop := length h0 <= arr t \/ cap t = 0.

Lemma fresh_not_shares h0 s t : wfs h0 s -> fresh h0 t -> shares t s = false.
Proof.
  intros W [F|F]; unfold shares.
  - destruct (Nat.eq_dec (cap s) 0) as [Z|NZ].
    + rewrite Z. cbn. now rewrite !andb_false_r.
    + assert (arr s < length h0) by (apply (wfs_arr_lt h0 s W); lia).
      destruct (Nat.eqb_spec (arr t) (arr s)); [lia|reflexivity].
  - rewrite F. cbn. now rewrite !andb_false_r.
Qed.

(* ---------- mk / alloc_list ---------- *)
Lemma mk_spec h n c : n <= c ->
  let '(h', t) := mk h n c in
  ext h h' /\ wfs h' t /\ fullwin h' t = repeat 0%Z c /\ arr t = length h /\ off t = 0 /\ len t = n /\ cap t = c
  /\ isnil t = false /\ length h' = S (length h).
Proof.
  intros Hn. unfold mk.
  assert (A : arrOf (h ++ [repeat 0%Z c]) {| arr := length h; off := 0; len := n; cap := c; isnil := false |} = repeat 0%Z c).
  { unfold arrOf. simpl. rewrite app_nth2 by lia. now rewrite Nat.sub_diag. }
  repeat split; simpl; auto.
  - len_simp. lia.
  - intros j Hj. now apply app_nth1.
  - rewrite A. len_simp. lia.
  - discriminate.
  - unfold fullwin, window. rewrite A. simpl. apply firstn_all2. len_simp. lia.
  - len_simp. lia.
Qed.

Lemma alloc_list_spec h l c :
  let '(h', t) := alloc_list h l c in
  ext h h' /\ wfs h' t /\ contents h' t = l /\ fullwin h' t = l ++ repeat 0%Z (c - length l)
  /\ arr t = length h /\ isnil t = false /\ len t = length l /\ length h' = S (length h).
Proof.
  unfold alloc_list.
  set (t := {| arr := length h; off := 0; len := length l; cap := Nat.max (length l) c; isnil := false |}).
  assert (A : arrOf (h ++ [l ++ repeat 0%Z (c - length l)]) t = l ++ repeat 0%Z (c - length l)).
  { unfold arrOf. simpl. rewrite app_nth2 by lia. now rewrite Nat.sub_diag. }
  repeat split; simpl; auto.
  - len_simp. lia.
  - intros j Hj. now apply app_nth1.
  - rewrite A. len_simp. lia.
  - lia.
  - discriminate.
  - unfold contents, window. rewrite A. simpl. rewrite firstn_app, Nat.sub_diag, firstn_all. simpl. now rewrite app_nil_r.
  - unfold fullwin, window. rewrite A. simpl. apply firstn_all2. len_simp. lia.
  - len_simp. lia.
Qed.

(* ---------- append ---------- *)
Definition same_place (s s' : slice) : Prop := arr s' = arr s /\ off s' = off s /\ cap s' = cap s.

(* in place: the window is written at position len; grown: a fresh array, the old heap untouched *)
Lemma bs_append_spec h s xs oc :
  wfs h s ->
  let '(h', s') := bs_append h s xs oc in
  wfs h' s' /\ contents h' s' = contents h s ++ xs /\ length h <= length h'
  /\ (forall j, j <> arr s -> j < length h -> nth j h' [] = nth j h [])
  /\ ((len s + length xs <= cap s /\ same_place s s' /\ isnil s' = isnil s /\ len s' = len s + length xs
       /\ fullwin h' s = write (fullwin h s) (len s) xs /\ length h' = length h)
      \/ (cap s < len s + length xs /\ ext h h' /\ arr s' = length h /\ isnil s' = false)).
Proof.
  intros W. unfold bs_append.
  destruct (Nat.leb_spec (len s + length xs) (cap s)) as [Hin|Hgr].
  - set (t := relen s (len s + length xs)).
    assert (F : fullwin (wstore h t (len s) xs) s = write (fullwin h s) (len s) xs)
      by (apply wstore_fullwin; simpl; auto; lia).
    assert (W' : wfs (wstore h t (len s) xs) t).
    { apply (wstore_wfs h s t); simpl; auto; try lia. destruct W as (_ & _ & W3). exact W3. }
    split; [exact W'|]. split; [|split; [rewrite wstore_length; lia|split]].
    + change (contents (wstore h t (len s) xs) t) with (window (wstore h t (len s) xs) t (len s + length xs)).
      pose proof (fullwin_length h s W) as FL.
      assert (C : contents h s = firstn (len s) (fullwin h s)) by (apply contents_fullwin; destruct W as (_ & ? & _); auto).
      transitivity (firstn (len s + length xs) (fullwin (wstore h t (len s) xs) s)).
      { unfold fullwin, window. rewrite firstn_firstn. f_equal. simpl. lia. }
      rewrite F, C. destruct W as (_ & W2 & _).
      apply (nth_ext _ _ 0%Z 0%Z).
      * len_simp. rewrite length_write by lia. len_simp. lia.
      * intros k Hk. autorewrite with nths. rewrite nth_write_if by lia. autorewrite with nths. len_simp.
        split_ifs; nth_fin.
    + intros j Hj _. apply wstore_other. simpl. auto.
    + left. split; [lia|]. split; [repeat split|]. split; [reflexivity|]. split; [reflexivity|].
      split; [exact F|apply wstore_length].
  - pose proof (alloc_list_spec h (contents h s ++ xs) oc) as A.
    destruct (alloc_list h (contents h s ++ xs) oc) as [h' s'].
    destruct A as (E & W' & C & _ & Ar & Nl & _ & Lh).
    split; [exact W'|]. split; [exact C|]. split; [lia|]. split.
    + intros j _ Hj. destruct E as (_ & E). now apply E.
    + right. split; [lia|]. split; [exact E|]. split; [exact Ar|exact Nl].
Qed.
