(* C06: specifications of the exp/slices-style primitives of bslice.go on the memory model, in both
   capacity branches: resulting header well formed, contents = the pure list function, what happens to
   the old heap (in place: only the receiver's array; growing: nothing). *)
From VF Require Import C06.GoSlice C06.Spec C06.Model C06.ProofsMem C06.ProofsPure.
Local Open Scope nat_scope.

Lemma wfs_reslice h s u :
  wfs h s -> arr u = arr s -> off u = off s -> cap u = cap s -> len u <= cap u -> (isnil u = true -> cap u = 0) -> wfs h u.
Proof.
  intros (W1 & W2 & W3) A O C L N. repeat split; auto. unfold arrOf in *. now rewrite A, O, C.
Qed.
Lemma contents_reslice h s u :
  arr u = arr s -> off u = off s -> cap u = cap s -> len u <= cap u -> contents h u = firstn (len u) (fullwin h s).
Proof.
  intros A O C L. rewrite contents_fullwin by auto. f_equal. unfold fullwin, window, arrOf. now rewrite A, O, C.
Qed.

Lemma wstore_step h s t p xs :
  wfs h s -> arr t = arr s -> off t = off s -> len t <= cap s -> p + length xs <= len t ->
  wfs (wstore h t p xs) s /\ fullwin (wstore h t p xs) s = write (fullwin h s) p xs.
Proof.
  intros W A O L P. split.
  - apply (wstore_wfs h s t); auto; destruct W as (_ & ? & ?); auto.
  - now apply wstore_fullwin.
Qed.

Lemma wfs_nil h : wfs h nil_slice.
Proof. repeat split; simpl; auto; lia. Qed.
Lemma contents_nil h : contents h nil_slice = [].
Proof. reflexivity. Qed.

(* ---------- list algebra of the copies ---------- *)
Lemma splice_inplace (W v : list Z) n i :
  n + length v <= length W -> i <= n ->
  firstn (n + length v) (write (write W (i + length v) (skipn i (firstn n W))) i v)
  = firstn i (firstn n W) ++ v ++ skipn i (firstn n W).
Proof.
  intros Hl Hi.
  apply (nth_ext _ _ 0%Z 0%Z).
  - len_simp. rewrite !length_write; len_simp; rewrite ?length_write; len_simp; lia.
  - intros k Hk. autorewrite with nths. rewrite !nth_write_if; len_simp; rewrite ?length_write; len_simp; try lia.
    autorewrite with nths. len_simp. split_ifs; nth_fin.
Qed.

Lemma splice_fresh (c v : list Z) i j tot :
  i <= j -> j <= length c -> tot = i + length v + (length c - j) ->
  write (write (write (repeat 0%Z tot) 0 (firstn i c)) i v) (i + length v) (skipn j c) = firstn i c ++ v ++ skipn j c.
Proof.
  intros Hi Hj ->.
  apply (nth_ext _ _ 0%Z 0%Z).
  - rewrite !length_write; len_simp; rewrite ?length_write; len_simp; rewrite ?length_write; len_simp; lia.
  - intros k Hk. rewrite !nth_write_if; len_simp; rewrite ?length_write; len_simp; rewrite ?length_write; len_simp; try lia.
    autorewrite with nths. len_simp. split_ifs; nth_fin.
Qed.

Lemma replace_inplace (W v : list Z) n i j :
  i <= j -> j <= n -> n <= length W -> i + length v + (n - j) <= length W ->
  firstn (i + length v + (n - j)) (write (write W (i + length v) (skipn j (firstn n W))) i v)
  = firstn i (firstn n W) ++ v ++ skipn j (firstn n W).
Proof.
  intros Hi Hj Hn Hl.
  apply (nth_ext _ _ 0%Z 0%Z).
  - len_simp. rewrite !length_write; len_simp; rewrite ?length_write; len_simp; lia.
  - intros k Hk. autorewrite with nths. rewrite !nth_write_if; len_simp; rewrite ?length_write; len_simp; try lia.
    autorewrite with nths. len_simp. split_ifs; nth_fin.
Qed.

(* ---------- Insert ---------- *)
Definition inplace (h : heap) (s : slice) (h' : heap) (s' : slice) : Prop :=
  same_place s s' /\ isnil s' = isnil s /\ length h' = length h /\ (forall j, j <> arr s -> nth j h' [] = nth j h []).
Definition grown (h : heap) (h' : heap) (s' : slice) : Prop :=
  ext h h' /\ arr s' = length h /\ isnil s' = false.

Lemma prim_insert_spec h s iz v :
  wfs h s -> (0 <= iz <= zlen s)%Z ->
  exists h' s', prim_insert h s iz v = Some (h', s') /\ wfs h' s'
    /\ contents h' s' = firstn (Z.to_nat iz) (contents h s) ++ v ++ skipn (Z.to_nat iz) (contents h s)
    /\ ((len s + length v <= cap s /\ inplace h s h' s') \/ (cap s < len s + length v /\ grown h h' s' /\ cap s' = len s')).
Proof.
  intros W Hi. unfold prim_insert, zlen in *.
  destruct ((iz <? 0)%Z || (Z.of_nat (len s) <? iz)%Z) eqn:B; [lia|]. clear B.
  set (i := Z.to_nat iz). assert (Hi' : i <= len s) by lia.
  set (c := contents h s). assert (Lc : length c = len s) by (apply contents_length; auto).
  pose proof (fullwin_length h s W) as LW.
  assert (Cc : c = firstn (len s) (fullwin h s)) by (apply contents_fullwin; destruct W as (_ & ? & _); auto).
  destruct (Nat.leb_spec (len s + length v) (cap s)) as [Hin|Hgr].
  - set (s2 := relen s (len s + length v)).
    destruct (wstore_step h s s2 (i + length v) (skipn i c)) as (W1 & F1); auto; simpl; try lia.
    { len_simp. lia. }
    destruct (wstore_step (wstore h s2 (i + length v) (skipn i c)) s s2 i v) as (W2 & F2); auto; simpl; try lia.
    eexists _, _. split; [reflexivity|]. split; [|split].
    + apply (wfs_reslice _ s); simpl; auto. destruct W as (_ & _ & ?); auto.
    + rewrite (contents_reslice _ s s2) by (simpl; auto). simpl len. rewrite F2, F1, Cc.
      apply splice_inplace; lia.
    + left. split; [lia|]. split; [repeat split|]. split; [reflexivity|]. split.
      * now rewrite !wstore_length.
      * intros j Hj. rewrite !wstore_other by (simpl; auto). reflexivity.
  - set (tot := len s + length v).
    pose proof (mk_spec h tot tot (le_n _)) as M. destruct (mk h tot tot) as [h0 s2] eqn:EM.
    destruct M as (E0 & W0 & F0 & A0 & O0 & L0 & C0 & N0 & LH0).
    destruct (wstore_step h0 s2 s2 0 (firstn i c)) as (W1 & F1); auto; try lia.
    { len_simp. lia. }
    destruct (wstore_step (wstore h0 s2 0 (firstn i c)) s2 s2 i v) as (W2 & F2); auto; try lia.
    destruct (wstore_step (wstore (wstore h0 s2 0 (firstn i c)) s2 i v) s2 s2 (i + length v) (skipn i c)) as (W3 & F3); auto; try lia.
    { len_simp. lia. }
    eexists _, _. split; [reflexivity|]. split; [exact W3|]. split.
    + rewrite contents_fullwin by lia. rewrite F3, F2, F1, F0, L0.
      rewrite (splice_fresh c v i i tot); try lia.
      apply firstn_all2. len_simp. lia.
    + right. split; [lia|]. split; [|lia]. split; [|split; auto].
      repeat apply ext_wstore; auto; lia.
Qed.

(* ---------- Delete: always in place ---------- *)
Lemma prim_delete_spec h s iz jz :
  wfs h s -> (0 <= iz <= jz)%Z -> (jz <= zlen s)%Z ->
  exists h' s', prim_delete h s iz jz = Some (h', s') /\ wfs h' s'
    /\ contents h' s' = firstn (Z.to_nat iz) (contents h s) ++ skipn (Z.to_nat jz) (contents h s)
    /\ inplace h s h' s'.
Proof.
  intros W Hi Hj. unfold prim_delete, zlen, zcap in *.
  assert (Hlc : len s <= cap s) by (destruct W as (_ & ? & _); auto).
  destruct ((iz <? 0)%Z || (jz <? iz)%Z || (Z.of_nat (cap s) <? jz)%Z || (Z.of_nat (len s) <? jz)%Z) eqn:B; [lia|]. clear B.
  set (i := Z.to_nat iz). set (j := Z.to_nat jz). assert (Hij : i <= j <= len s) by lia.
  set (c := contents h s). assert (Lc : length c = len s) by (apply contents_length; auto).
  assert (Wi : wfs h (relen s i)) by (apply wfs_relen; auto; lia).
  pose proof (bs_append_spec h (relen s i) (skipn j c) 0 Wi) as A.
  destruct (bs_append h (relen s i) (skipn j c) 0) as [h' s'].
  destruct A as (W' & C' & LH & Oth & [(Hin & SP & NL & LN & FW & LH')|(Hgr & _)]).
  2:{ simpl in Hgr. len_simp. lia. }
  eexists _, _. split; [reflexivity|]. split; [exact W'|]. split.
  - rewrite C'. f_equal. rewrite contents_relen by lia. unfold c. rewrite contents_fullwin by auto.
    rewrite firstn_firstn. f_equal. lia.
  - split; [exact SP|]. split; [exact NL|]. split; [exact LH'|].
    intros k Hk. destruct (Nat.lt_ge_cases k (length h)).
    + apply Oth; auto.
    + rewrite !nth_overflow by lia. reflexivity.
Qed.

Lemma prim_delete_cap0 h s i j h' s' :
  wfs h s -> cap s = 0 -> prim_delete h s i j = Some (h', s') -> h' = h.
Proof.
  intros (W1 & W2 & W3) C P. unfold prim_delete in P.
  destruct ((i <? 0)%Z || (j <? i)%Z || (zcap s <? j)%Z || (zlen s <? j)%Z) eqn:B; [discriminate|].
  assert (L : len s = 0) by lia.
  assert (K : skipn (Z.to_nat j) (contents h s) = []).
  { unfold contents, window. rewrite L. simpl. apply skipn_nil. }
  rewrite K in P. unfold bs_append in P. simpl in P. rewrite Nat.add_0_r in P.
  destruct (Nat.leb_spec (Z.to_nat i) (cap s)) as [Le|Gt].
  - inversion P. apply wstore_nil.
  - unfold zcap, zlen in B. rewrite C, L in B. lia.
Qed.

(* ---------- Replace ---------- *)
Lemma prim_replace_spec h s iz jz v :
  wfs h s -> (0 <= iz <= jz)%Z -> (jz <= zlen s)%Z ->
  exists h' s', prim_replace h s iz jz v = Some (h', s') /\ wfs h' s'
    /\ contents h' s' = firstn (Z.to_nat iz) (contents h s) ++ v ++ skipn (Z.to_nat jz) (contents h s)
    /\ (inplace h s h' s' \/ grown h h' s').
Proof.
  intros W Hi Hj. unfold prim_replace, zlen, zcap in *.
  assert (Hlc : len s <= cap s) by (destruct W as (_ & ? & _); auto).
  destruct ((iz <? 0)%Z || (jz <? iz)%Z || (Z.of_nat (cap s) <? jz)%Z || (Z.of_nat (len s) <? jz)%Z) eqn:B; [lia|]. clear B.
  set (i := Z.to_nat iz). set (j := Z.to_nat jz). assert (Hij : i <= j <= len s) by lia.
  set (c := contents h s). assert (Lc : length c = len s) by (apply contents_length; auto).
  pose proof (fullwin_length h s W) as LW.
  assert (Cc : c = firstn (len s) (fullwin h s)) by (apply contents_fullwin; auto).
  set (tot := i + length v + (len s - j)).
  destruct (Nat.leb_spec tot (cap s)) as [Hin|Hgr].
  - set (s2 := relen s tot).
    destruct (wstore_step h s s2 (i + length v) (skipn j c)) as (W1 & F1); auto; simpl; try lia.
    { len_simp. lia. }
    destruct (wstore_step (wstore h s2 (i + length v) (skipn j c)) s s2 i v) as (W2 & F2); auto; simpl; try lia.
    eexists _, _. split; [reflexivity|]. split; [|split].
    + apply (wfs_reslice _ s); simpl; auto. destruct W as (_ & _ & ?); auto.
    + rewrite (contents_reslice _ s s2) by (simpl; auto). simpl len. rewrite F2, F1. unfold tot. rewrite Cc.
      apply replace_inplace; lia.
    + left. split; [repeat split|]. split; [reflexivity|]. split.
      * now rewrite !wstore_length.
      * intros k Hk. rewrite !wstore_other by (simpl; auto). reflexivity.
  - pose proof (mk_spec h tot tot (le_n _)) as M. destruct (mk h tot tot) as [h0 s2] eqn:EM.
    destruct M as (E0 & W0 & F0 & A0 & O0 & L0 & C0 & N0 & LH0).
    destruct (wstore_step h0 s2 s2 0 (firstn i c)) as (W1 & F1); auto; try lia.
    { len_simp. lia. }
    destruct (wstore_step (wstore h0 s2 0 (firstn i c)) s2 s2 i v) as (W2 & F2); auto; try lia.
    destruct (wstore_step (wstore (wstore h0 s2 0 (firstn i c)) s2 i v) s2 s2 (i + length v) (skipn j c)) as (W3 & F3); auto; try lia.
    { len_simp. lia. }
    eexists _, _. split; [reflexivity|]. split; [exact W3|]. split.
    + rewrite contents_fullwin by lia. rewrite F3, F2, F1, F0, L0.
      rewrite (splice_fresh c v i j tot); try lia.
      apply firstn_all2. len_simp. lia.
    + right. split; [|split; auto].
      repeat apply ext_wstore; auto; lia.
Qed.

(* ---------- Clone / make+copy: a fresh array, the old heap untouched ---------- *)
Lemma prim_clone_spec h s oc :
  wfs h s -> let '(h', t) := prim_clone h s oc in
  ext h h' /\ wfs h' t /\ contents h' t = contents h s /\ fresh h t.
Proof.
  intros W. unfold prim_clone. destruct (isnil s) eqn:N.
  - split; [apply ext_refl|]. split; [apply wfs_nil|]. split; [|right; reflexivity].
    destruct W as (_ & W2 & W3). rewrite W3 in W2 by auto.
    unfold contents, window. replace (len s) with 0 by lia. reflexivity.
  - pose proof (mk_spec h 0 0 (le_n _)) as M. destruct (mk h 0 0) as [h0 e].
    destruct M as (E0 & W0 & F0 & A0 & O0 & L0 & C0 & N0 & LH0).
    pose proof (bs_append_spec h0 e (contents h s) oc W0) as A.
    destruct (bs_append h0 e (contents h s) oc) as [h' t].
    destruct A as (W' & C' & LH & Oth & [(Hin & SP & NL & LN & FW & LH')|(Hgr & E' & Ar & NL)]).
    + (* the source is empty: the empty slice itself *)
      split; [|split; [exact W'|split]].
      * split; [lia|]. intros j Hj. destruct E0 as (_ & E0). rewrite Oth by lia. now apply E0.
      * rewrite C'. unfold contents at 1, window. rewrite L0. reflexivity.
      * left. destruct SP as (SA & _). lia.
    + split; [eapply ext_trans; eauto|]. split; [exact W'|]. split.
      * rewrite C'. unfold contents at 1, window. rewrite L0. reflexivity.
      * left. lia.
Qed.

Lemma copy_fresh_spec h s :
  wfs h s -> let '(h', t) := copy_fresh h s in
  ext h h' /\ wfs h' t /\ contents h' t = contents h s /\ arr t = length h /\ off t = 0 /\ len t = len s /\ cap t = len s
  /\ isnil t = false /\ fullwin h' t = contents h s /\ length h' = S (length h).
Proof.
  intros W. unfold copy_fresh.
  pose proof (mk_spec h (len s) (len s) (le_n _)) as M. destruct (mk h (len s) (len s)) as [h0 t].
  destruct M as (E0 & W0 & F0 & A0 & O0 & L0 & C0 & N0 & LH0).
  assert (Lc : length (contents h s) = len s) by (apply contents_length; auto).
  destruct (wstore_step h0 t t 0 (contents h s)) as (W1 & F1); auto; try lia.
  assert (FW : fullwin (wstore h0 t 0 (contents h s)) t = contents h s).
  { rewrite F1, F0. apply (nth_ext _ _ 0%Z 0%Z).
    - rewrite length_write; len_simp; lia.
    - intros k Hk. rewrite nth_write_if by (len_simp; lia). autorewrite with nths. split_ifs; nth_fin. }
  split; [apply ext_wstore; auto; lia|]. split; [exact W1|]. split.
  - rewrite contents_fullwin by lia. rewrite FW, L0, <- Lc. apply firstn_all.
  - repeat split; auto. now rewrite wstore_length.
Qed.

(* writing new contents over the whole window of a fresh copy *)
Lemma rewrite_fresh h0 h t l :
  ext h0 h -> wfs h t -> length h0 <= arr t -> cap t = len t -> length l = len t ->
  ext h0 (wstore h t 0 l) /\ wfs (wstore h t 0 l) t /\ contents (wstore h t 0 l) t = l.
Proof.
  intros E W A C L.
  destruct (wstore_step h t t 0 l) as (W1 & F1); auto; try lia.
  split; [apply ext_wstore; auto|]. split; [exact W1|].
  rewrite contents_fullwin by lia. rewrite F1.
  pose proof (fullwin_length h t W) as FL.
  apply (nth_ext _ _ 0%Z 0%Z).
  - len_simp. rewrite length_write by lia. lia.
  - intros k Hk. autorewrite with nths. rewrite nth_write_if by lia. split_ifs; nth_fin.
Qed.

(* writing new contents of the same or smaller length over the receiver's window, in place *)
Lemma rewrite_inplace h s l n :
  wfs h s -> length l = len s -> n <= len s ->
  wfs (wstore h s 0 l) (relen s n) /\ contents (wstore h s 0 l) (relen s n) = firstn n l.
Proof.
  intros W L N. assert (Hlc : len s <= cap s) by (destruct W as (_ & ? & _); auto).
  destruct (wstore_step h s s 0 l) as (W1 & F1); auto; try lia.
  split.
  - apply (wfs_reslice _ s); simpl; auto; try lia. destruct W as (_ & _ & ?); auto.
  - rewrite (contents_reslice _ s) by (simpl; auto; lia). simpl len. rewrite F1.
    pose proof (fullwin_length h s W) as FL.
    apply (nth_ext _ _ 0%Z 0%Z).
    + len_simp. rewrite length_write by lia. lia.
    + intros k Hk. autorewrite with nths. rewrite nth_write_if by lia. split_ifs; nth_fin.
Qed.

(* ---------- Compact ---------- *)
Lemma prim_compact_spec eq h s :
  wfs h s -> let '(h', s') := prim_compact eq h s in
  wfs h' s' /\ contents h' s' = pcompact eq (contents h s).
Proof.
  intros W. unfold prim_compact.
  assert (Lc : length (contents h s) = len s) by (apply contents_length; auto).
  destruct (Nat.ltb_spec (len s) 2) as [Sm|Bg].
  - split; auto. symmetry. apply pcompact_short. lia.
  - pose proof (compact_go_top eq (contents h s)) as G. rewrite Lc in G.
    destruct (compact_go eq (contents h s) 1 1 (len s - 1)) as [w i].
    destruct G as (Lw & Fw & Hi); [lia|].
    destruct (rewrite_inplace h s w i) as (W1 & C1); auto; try lia.
    split; auto. now rewrite C1.
Qed.

(* ---------- Grow ---------- *)
Lemma prim_grow_refused h s nz oc :
  (0 <= nz)%Z -> (0 < nz - (zcap s - zlen s))%Z -> (alloc_limit <= zcap s + (nz - (zcap s - zlen s)))%Z ->
  prim_grow h s nz oc = None.
Proof.
  intros Hn H1 H2. unfold prim_grow. destruct (nz <? 0)%Z eqn:B; [lia|].
  destruct (0 <? nz - (zcap s - zlen s))%Z eqn:B1; [|lia].
  destruct (alloc_limit <=? zcap s + (nz - (zcap s - zlen s)))%Z eqn:B2; [reflexivity|lia].
Qed.

Lemma prim_grow_spec h s nz oc :
  wfs h s -> (0 <= nz)%Z ->
  ((nz - (zcap s - zlen s) <= 0)%Z \/ (zcap s + (nz - (zcap s - zlen s)) < alloc_limit)%Z) ->
  exists h' s', prim_grow h s nz oc = Some (h', s') /\ wfs h' s' /\ contents h' s' = contents h s.
Proof.
  intros W Hn Hok. unfold prim_grow. destruct (nz <? 0)%Z eqn:B; [lia|]. clear B.
  assert (Hlc : len s <= cap s) by (destruct W as (_ & ? & _); auto).
  destruct (0 <? nz - (zcap s - zlen s))%Z eqn:B1.
  - destruct (alloc_limit <=? zcap s + (nz - (zcap s - zlen s)))%Z eqn:B2; [lia|].
    set (need := Z.to_nat (nz - (zcap s - zlen s))) in *.
    assert (Need : 0 < need) by (unfold need; lia).
    assert (Wc : wfs h (relen s (cap s))) by (apply wfs_relen; auto).
    pose proof (bs_append_spec h (relen s (cap s)) (repeat 0%Z need) oc Wc) as A.
    destruct (bs_append h (relen s (cap s)) (repeat 0%Z need) oc) as [h1 s1].
    destruct A as (W' & C' & LH & Oth & [(Hin & _)|(Hgr & E' & Ar & NL)]).
    { simpl in Hin. len_simp. lia. }
    eexists _, _. split; [reflexivity|].
    assert (L1 : len s1 = cap s + need).
    { pose proof (contents_length h1 s1 W') as Q. rewrite C' in Q. len_simp.
      rewrite contents_length in Q by auto. simpl in Q. lia. }
    assert (Hc1 : len s1 <= cap s1) by (destruct W' as (_ & ? & _); auto).
    split.
    + apply (wfs_reslice _ s1); simpl; auto; try lia. intros N. rewrite NL in N. discriminate.
    + rewrite (contents_reslice _ s1) by (simpl; auto; lia). simpl len.
      transitivity (firstn (len s) (firstn (len s1) (fullwin h1 s1))).
      { rewrite firstn_firstn. f_equal. lia. }
      rewrite <- contents_fullwin by lia. rewrite C'.
      rewrite contents_relen by lia. rewrite (contents_fullwin h s) by auto.
      pose proof (fullwin_length h s W) as FL. list_ext.
  - eexists _, _. split; [reflexivity|]. auto.
Qed.

(* ---------- Clip ---------- *)
Lemma prim_clip_spec h s : wfs h s -> wfs h (prim_clip s) /\ contents h (prim_clip s) = contents h s.
Proof.
  intros (W1 & W2 & W3). split; [|reflexivity].
  split; [|split].
  - change (arrOf h (prim_clip s)) with (arrOf h s). simpl. lia.
  - simpl. lia.
  - simpl. intros N. apply W3 in N. lia.
Qed.

(* ---------- the Filter loop: nil, or a fresh array ---------- *)
Lemma filter_loop_spec (f : Z -> bool) h0 oc : forall (c : list Z) h r acc,
  ext h0 h -> wfs h r -> fresh h0 r -> contents h r = acc ->
  let '(h', r') := fold_left (fun (hr : heap * slice) (e : Z) => if f e then bs_append (fst hr) (snd hr) [e] oc else hr) c (h, r) in
  ext h0 h' /\ wfs h' r' /\ fresh h0 r' /\ contents h' r' = acc ++ filter f c.
Proof.
  induction c as [|x t IH]; intros h r acc E W F C; simpl.
  - rewrite app_nil_r. auto.
  - destruct (f x) eqn:Fx.
    + pose proof (bs_append_spec h r [x] oc W) as A. destruct (bs_append h r [x] oc) as [h1 r1].
      destruct A as (W' & C' & LH & Oth & Cases).
      specialize (IH h1 r1 (acc ++ [x])).
      replace (acc ++ x :: filter f t) with ((acc ++ [x]) ++ filter f t) by (rewrite <- app_assoc; reflexivity).
      apply IH; auto.
      * destruct Cases as [(Hin & SP & NL & LN & FW & LH')|(Hgr & E' & Ar & NL)].
        -- destruct E as (EL & EE). split; [lia|]. intros j Hj.
           destruct F as [F|F]; [|simpl in Hin; lia].
           rewrite Oth by lia. now apply EE.
        -- eapply ext_trans; eauto.
      * destruct Cases as [(Hin & (SA & _ & SC) & _)|(Hgr & E' & Ar & NL)].
        -- destruct F as [F|F]; [left; lia|right; lia].
        -- left. destruct E as (EL & _). lia.
      * now rewrite C', C.
    + apply IH; auto.
Qed.

Lemma filter_loop_top f h c oc :
  let '(h', r) := filter_loop f h c oc in
  ext h h' /\ wfs h' r /\ fresh h r /\ contents h' r = filter f c.
Proof.
  unfold filter_loop. apply (filter_loop_spec f h oc c h nil_slice []).
  - apply ext_refl. - apply wfs_nil. - right; reflexivity. - reflexivity.
Qed.

(* ---------- json.Unmarshal into the slice ---------- *)
Lemma unmarshal_arr_spec h s l oc :
  wfs h s -> let '(h', s') := unmarshal_arr h s l oc in wfs h' s' /\ contents h' s' = l.
Proof.
  intros W. unfold unmarshal_arr. destruct l as [|x l'] eqn:El.
  - pose proof (mk_spec h 0 0 (le_n _)) as M. destruct (mk h 0 0) as [h0 e].
    destruct M as (E0 & W0 & F0 & A0 & O0 & L0 & C0 & N0 & LH0). split; auto.
    unfold contents, window. now rewrite L0.
  - rewrite <- El. set (k := Nat.min (length l) (cap s)).
    assert (Hlc : len s <= cap s) by (destruct W as (_ & ? & _); auto).
    destruct (wstore_step h s (relen s k) 0 (firstn k l)) as (W1 & F1); auto; simpl; try lia.
    { len_simp. lia. }
    destruct (Nat.leb_spec (length l) (cap s)) as [Fit|Big].
    + split.
      * apply (wfs_reslice _ s); simpl; auto; try lia. destruct W as (_ & _ & ?); auto.
      * rewrite (contents_reslice _ s) by (simpl; auto; lia). simpl len. rewrite F1.
        pose proof (fullwin_length h s W) as FL. replace k with (length l) by lia. rewrite firstn_all.
        apply (nth_ext _ _ 0%Z 0%Z).
        -- len_simp. rewrite length_write by lia. lia.
        -- intros j Hj. autorewrite with nths. rewrite nth_write_if by lia. split_ifs; nth_fin.
    + pose proof (alloc_list_spec (wstore h (relen s k) 0 (firstn k l)) l oc) as A.
      destruct (alloc_list (wstore h (relen s k) 0 (firstn k l)) l oc) as [h' s'].
      destruct A as (E & W' & C & _). auto.
Qed.
