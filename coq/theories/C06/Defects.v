(* C06: the three code paths of base/bslice/any.go as they were BEFORE the repairs D9, D10, D11
   (and N1, N2, N3, N4), kept only to state, in Props.v, that the property is false of them; the model proper is
   Model.v / BMap.v. *)
From VF Require Export C06.Model C06.BMap.

(* D9: DeleteToSliceE returned Delete(x.e, i, j): Delete ran on the receiver's own array *)
Definition deleteTo_unrepaired (h : heap) (s : slice) (i j : Z) : option (heap * slice) := prim_delete h s i j.

(* D10: GetByRangeE built the copy and returned v := x.e[start:end] *)
Definition getByRange_unrepaired (s : slice) (i j : nat) : slice :=
  {| arr := arr s; off := off s + i; len := j - i; cap := cap s - i; isnil := false |}.

(* D11: SetByRangeE tested total > cap(x.e); otherwise copy(x.e[index:total], es) with the length unchanged *)
Definition setByRange_unrepaired (h : heap) (s : slice) (i : nat) (v : list Z) (oc : nat) : heap * slice :=
  let total := i + length v in
  if cap s <? total then bs_append h s v oc
  else (wstore h (relen s total) i v, s).

(* N1: DeleteE returned nil for every range on an empty receiver (`if ln == 0 { return nil }`) *)
Definition deleteE_unrepaired_err (s : slice) (i j : Z) : bool :=
  if Nat.eqb (len s) 0 then false else range_bad s i j.

(* N2: SetByRangeE (after D11): index < 0 -> error; total > len -> x.Append(es...), whatever the index; else copy(x.e[index:total], es) *)
Definition setByRange_N2_unrepaired (h : heap) (s : slice) (i : Z) (v : list Z) (oc : nat) : heap * slice * bool :=
  if (i <? 0)%Z then (h, s, true)
  else if (zlen s <? i + Z.of_nat (length v))%Z then (bs_append h s v oc, false)
       else (wstore h s (Z.to_nat i) v, s, false).

(* N3: NewUnsafeComparableBMapByMap stored its argument as it was, nil included *)
Definition new_comparable_unrepaired (arg : bmap) : bmap := arg.

(* N4: GrowE let the panic of Grow escape *)
Definition growE_unrepaired (h : heap) (s : slice) (n : Z) (oc : nat) : res :=
  if (n <? 0)%Z then Ok h s VNone true else lift h s (fun _ => VNone) (prim_grow h s n oc).

(* N5: Unmarshal decoded straight into x.e: documents past len were merged into whatever the spare capacity held
   (removed elements, the caller's old data) *)
Definition unmarshal_docs_unrepaired (h : heap) (s : slice) (ds : list jdoc) (oc : nat) : heap * slice :=
  unmarshal_arr h s (merge_all (fullwin h s) ds) oc.
