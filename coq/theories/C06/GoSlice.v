(* C06 memory model for Go slices (element type int = Z).
   A heap is a list of backing arrays addressed by position (array identity); arrays are never
   freed or moved. A slice header is {arr; off; len; cap} plus the nil flag (a nil slice has
   no array, cap = 0). Everything a bslice method can do to memory is expressed with
     mk        make([]E, n, c)          fresh zeroed array
     wstore    copy(s[p:], src)         memmove into the window of a slice
     bs_append append(s, xs...)         in place when len+|xs| <= cap, else a fresh array whose
                                        capacity is an ORACLE (any value >= the needed length)
   NO proofs in this file (lemmas are in ProofsMem.v). *)
From VF Require Export Common.Base.

Definition heap := list (list Z).
Record slice := { arr : nat; off : nat; len : nat; cap : nat; isnil : bool }.

Definition nil_slice : slice := {| arr := 0; off := 0; len := 0; cap := 0; isnil := true |}.

Definition arrOf (h : heap) (s : slice) : list Z := nth (arr s) h [].
Definition window (h : heap) (s : slice) (n : nat) : list Z := firstn n (skipn (off s) (arrOf h s)).
Definition contents (h : heap) (s : slice) : list Z := window h s (len s).
Definition fullwin (h : heap) (s : slice) : list Z := window h s (cap s).

(* a header is well formed in a heap: its capacity window lies inside its array *)
Definition wfs (h : heap) (s : slice) : Prop :=
  off s + cap s <= length (arrOf h s) /\ len s <= cap s /\ (isnil s = true -> cap s = 0).

(* overwrite xs at position pos of an array (caller guarantees pos + |xs| <= |a|) *)
Definition write (a : list Z) (pos : nat) (xs : list Z) : list Z :=
  firstn pos a ++ xs ++ skipn (pos + length xs) a.

Definition set_arr (h : heap) (id : nat) (a : list Z) : heap := upd h id a.

(* copy(s[p:], src): writes min(len s - p, |src|) elements at window position p *)
Definition wstore (h : heap) (s : slice) (p : nat) (src : list Z) : heap :=
  let k := Nat.min (len s - p) (length src) in
  set_arr h (arr s) (write (arrOf h s) (off s + p) (firstn k src)).

(* s[:n] (bounds are checked by the callers, see sl_to) *)
Definition relen (s : slice) (n : nat) : slice :=
  {| arr := arr s; off := off s; len := n; cap := cap s; isnil := isnil s |}.

(* make([]E, n, c) with n <= c *)
Definition mk (h : heap) (n c : nat) : heap * slice :=
  (h ++ [repeat 0%Z c], {| arr := length h; off := 0; len := n; cap := c; isnil := false |}).

(* a fresh array holding l followed by zeros up to capacity c (what append's growth path leaves) *)
Definition alloc_list (h : heap) (l : list Z) (c : nat) : heap * slice :=
  (h ++ [l ++ repeat 0%Z (c - length l)],
   {| arr := length h; off := 0; len := length l; cap := Nat.max (length l) c; isnil := false |}).

(* append(s, xs...); oc = capacity oracle of the Go runtime's growslice *)
Definition bs_append (h : heap) (s : slice) (xs : list Z) (oc : nat) : heap * slice :=
  let tot := len s + length xs in
  if tot <=? cap s then (wstore h (relen s tot) (len s) xs, relen s tot)
  else alloc_list h (contents h s ++ xs) oc.

(* two headers share storage: same array and overlapping capacity windows *)
Definition shares (s t : slice) : bool :=
  Nat.eqb (arr s) (arr t) && negb (Nat.eqb (cap s) 0) && negb (Nat.eqb (cap t) 0)
  && (off s <? off t + cap t) && (off t <? off s + cap s).

Definition slice_eqb (s t : slice) : bool :=
  Nat.eqb (arr s) (arr t) && Nat.eqb (off s) (off t) && Nat.eqb (len s) (len t)
  && Nat.eqb (cap s) (cap t) && Bool.eqb (isnil s) (isnil t).
