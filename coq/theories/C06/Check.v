(* C06 correspondence checker. One bslice case = one logical content, a list of capacity variants
   (nil flag, spare capacity; spare cells are poisoned with 99 by the harness) and a sequence of method
   calls; every call carries what the REAL code showed on each variant. Per step and variant the checker
   decides (kind 2) whether the observation satisfies the property - pure Spec, no panic, error flag,
   no aliasing for copying methods, equal observables on all capacity variants, retained slices that are no longer
   linked to the receiver never change again, capacity where the contents determine it - and (kind 1) whether the
   memory model reproduces it exactly: nil-ness, len, cap, every cell of the capacity window (stale cells
   included), array identity of the receiver, aliasing of the result. *)
From VF Require Import C06.Model C06.BMap.
Local Open Scope Z_scope.

(* ---------- function arguments the harness uses (printed by name into the case files) ---------- *)
Definition p_true (v : Z) := true.
Definition p_false (v : Z) := false.
Definition p_ne1 (v : Z) := negb (v =? 1).
Definition p_even (v : Z) := Z.rem v 2 =? 0.
Definition p_pos (v : Z) := 0 <? v.
Definition eq_std (a b : Z) := a =? b.
Definition eq_mod2 (a b : Z) := Z.rem a 2 =? Z.rem b 2.
Definition eq_true (a b : Z) := true.
Definition eq_false (a b : Z) := false.
Definition eq_le (a b : Z) := a <=? b.                 (* not symmetric: argument order matters *)
Definition lt_asc (a b : Z) := a <? b.
Definition lt_desc (a b : Z) := b <? a.
Definition lt_half (a b : Z) := Z.quot a 2 <? Z.quot b 2.    (* a preorder: only for the stable sort *)
Definition cmp_std := cmp_ord.
Definition cmp_rev (a b : Z) := cmp_ord b a.
Definition cmp_diff (a b : Z) := a - b.
Definition kv_true (k v : Z) := true.
Definition kv_false (k v : Z) := false.
Definition kv_keven (k v : Z) := Z.rem k 2 =? 0.
Definition kv_vpos (k v : Z) := 0 <? v.
Definition kv_klt_v (k v : Z) := k <? v.

(* ---------- observations ---------- *)
Inductive oval :=
| ONone | OInt (z : Z) | OBool (b : bool) | OIntBool (z : Z) (b : bool) | OList (l : list Z)
| OSlice (rnil : bool) (rlen : nat) (rwin : list Z) (alias : bool).

Record robs := { o_panic : bool; o_err : bool; o_val : oval;
                 o_nil : bool; o_len : nat; o_win : list Z; o_same : bool;
                 (* capacity windows, re-read after this call, of every slice handed over so far: the slice the wrapper
                    was built from, then every slice a call returned, in order *)
                 o_ret : list (list Z);
                 (* what a spying callback saw of the receiver (its contents) at its invocations, consecutive repeats
                    dropped; [] when the call had no spying callback *)
                 o_seen : list (list Z) }.
Record step := { st_m : meth; st_obs : list robs }.
Record bscase := { c_init : list Z; c_vars : list (bool * nat); c_steps : list step }.

Definition zl_eqb := list_eqb Z.eqb.
Definition pval_eqb (a b : pval) : bool :=
  match a, b with
  | PNone, PNone => true
  | PInt x, PInt y => x =? y
  | PBool x, PBool y => Bool.eqb x y
  | PIntBool x p, PIntBool y q => (x =? y) && Bool.eqb p q
  | PList x, PList y => zl_eqb x y
  | _, _ => false
  end.

Definition oabs (v : oval) : pval :=
  match v with
  | ONone => PNone | OInt z => PInt z | OBool b => PBool b | OIntBool z b => PIntBool z b
  | OList l => PList l | OSlice _ n w _ => PList (firstn n w)
  end.
Definition o_after (o : robs) : list Z := firstn (o_len o) (o_win o).

(* ---------- the property, on what one variant showed (c = receiver contents before the call) ---------- *)
Definition prop_variant (m : meth) (c : list Z) (o : robs) : bool :=
  negb (o_panic o)
  && zl_eqb (o_after o) (pure_recv m c)
  && (about_cap m || negb (search_pre m c) || pval_eqb (oabs (o_val o)) (pure_result m c))
  && Bool.eqb (o_err o) (invalid m (zlength c))
  && (negb (copying m) || match o_val o with OSlice _ _ _ al => negb al | _ => true end)
  && match pure_cap m c with Some k => Nat.eqb (length (o_win o)) k | None => true end
  && (negb (sees_unchanged m) || forallb (zl_eqb c) (o_seen o)).

(* retained slices: (window when last read, still linked to the receiver). A slice that is not linked - the result of a
   copying method, or anything handed over before a detaching method - must never change again. *)
Definition retained := list (list Z * bool).
Fixpoint ret_unchanged (det : bool) (r : retained) (ws : list (list Z)) : bool :=
  match r, ws with
  | [], _ => true
  | (w, linked) :: t, w' :: t' => ((linked && negb det) || zl_eqb w w') && ret_unchanged det t t'
  | _ :: _, [] => false
  end.
Fixpoint ret_update (m : meth) (r : retained) (ws : list (list Z)) : retained :=
  match r, ws with
  | (_, linked) :: t, w' :: t' => (w', linked && negb (detaches m)) :: ret_update m t t'
  | [], w' :: _ => [(w', negb (copying m))]           (* the slice this call returned *)
  | _, [] => []
  end.
Definition prop_retained (m : meth) (r : retained) (o : robs) : bool :=
  ret_unchanged (detaches m) r (o_ret o)       (* a detaching method itself leaves everything handed over alone *)
  && Nat.eqb (length (o_ret o)) (length r + match o_val o with OSlice _ _ _ _ => 1 | _ => 0 end).

(* capacity independence: every variant shows the same observables as the first one *)
Definition same_observables (m : meth) (a b : robs) : bool :=
  Bool.eqb (o_panic a) (o_panic b) && Bool.eqb (o_err a) (o_err b)
  && zl_eqb (o_after a) (o_after b)
  && (about_cap m || pval_eqb (oabs (o_val a)) (oabs (o_val b))).

Definition prop_step (m : meth) (c : list Z) (os : list robs) : bool :=
  forallb (prop_variant m c) os
  && match os with [] => true | o :: t => forallb (same_observables m o) t end.

(* ---------- the model, against what one variant showed ---------- *)
Definition oracle_of (o : robs) : nat :=
  match o_val o with OSlice _ _ w _ => length w | _ => length (o_win o) end.

Definition same_array (s s' : slice) : bool :=
  Nat.eqb (arr s) (arr s') && Nat.eqb (off s) (off s') && negb (Nat.eqb (cap s) 0) && negb (Nat.eqb (cap s') 0).

Definition val_matches (h' : heap) (s s' : slice) (v : value) (o : oval) : bool :=
  match v, o with
  | VNone, ONone => true
  | VInt x, OInt y => x =? y
  | VBool x, OBool y => Bool.eqb x y
  | VIntBool x p, OIntBool y q => (x =? y) && Bool.eqb p q
  | VList x, OList y => zl_eqb x y
  | VSlice t, OSlice rn rl rw al =>
      Bool.eqb (isnil t) rn && Nat.eqb (len t) rl && zl_eqb (fullwin h' t) rw
      && Nat.eqb (cap t) (length rw) && Bool.eqb (shares t s || shares t s') al
  | _, _ => false
  end.

(* one capacity variant: model heap, receiver header, the model's handles on the retained slices, what was seen of them *)
Record vstate := { vs_h : heap; vs_s : slice; vs_hs : list slice; vs_ret : retained }.

Definition handles_after (hs : list slice) (v : value) : list slice :=
  match v with VSlice t => hs ++ [t] | _ => hs end.

Fixpoint handles_match (h' : heap) (hs : list slice) (ws : list (list Z)) : bool :=
  match hs, ws with
  | [], [] => true
  | t :: hs', w :: ws' => zl_eqb (fullwin h' t) w && handles_match h' hs' ws'
  | _, _ => false
  end.

Definition model_variant (m : meth) (st : vstate) (o : robs) : bool :=
  let h := vs_h st in let s := vs_s st in
  match bs_call m (oracle_of o) h s with
  | Panic => o_panic o
  | Ok h' s' v e =>
      negb (o_panic o) && Bool.eqb e (o_err o) && val_matches h' s s' v (o_val o)
      && Bool.eqb (isnil s') (o_nil o) && Nat.eqb (len s') (o_len o)
      && zl_eqb (fullwin h' s') (o_win o) && Nat.eqb (cap s') (length (o_win o))
      && Bool.eqb (same_array s s') (o_same o)
      && handles_match h' (handles_after (vs_hs st) v) (o_ret o)
  end.

Definition next_state (m : meth) (st : vstate) (o : robs) : vstate :=
  match bs_call m (oracle_of o) (vs_h st) (vs_s st) with
  | Panic => st
  | Ok h' s' v _ => {| vs_h := h'; vs_s := s'; vs_hs := handles_after (vs_hs st) v; vs_ret := ret_update m (vs_ret st) (o_ret o) |}
  end.

Definition init_state (c : list Z) (v : bool * nat) : vstate :=
  let '(nl, spare) := v in
  if nl then {| vs_h := [[]]; vs_s := nil_slice; vs_hs := [nil_slice]; vs_ret := [([], true)] |}
  else let s := {| arr := 0; off := 0; len := length c; cap := length c + spare; isnil := false |} in
       {| vs_h := [c ++ repeat 99 spare]; vs_s := s; vs_hs := [s]; vs_ret := [(c ++ repeat 99 spare, true)] |}.

Fixpoint zip_all {A B} (f : A -> B -> bool) (l1 : list A) (l2 : list B) : bool :=
  match l1, l2 with
  | [], [] => true
  | a :: t1, b :: t2 => f a b && zip_all f t1 t2
  | _, _ => false
  end.
Fixpoint zip_map {A B C} (f : A -> B -> C) (l1 : list A) (l2 : list B) : list C :=
  match l1, l2 with a :: t1, b :: t2 => f a b :: zip_map f t1 t2 | _, _ => [] end.

Definition bs_step (sts : list vstate) (x : step) : list vstate * nat :=
  let m := st_m x in
  let c := match sts with st :: _ => contents (vs_h st) (vs_s st) | [] => [] end in
  (zip_map (next_state m) sts (st_obs x),
   kind_of (zip_all (model_variant m) sts (st_obs x))
           (prop_step m c (st_obs x) && zip_all (fun st o => prop_retained m (vs_ret st) o) sts (st_obs x))).

Definition check_bs (c : bscase) : nat :=
  scan bs_step (map (init_state (c_init c)) (c_vars c)) (c_steps c) 0.

(* ---------- bmap cases ---------- *)
Record bmstep := { ms_op : bm_op; ms_out : bm_out; ms_after : option (list (Z * Z)) }.
Record bmcase := { mc_init : option (list (Z * Z)); mc_steps : list bmstep }.

Definition nat_list_eqb (a : list nat) (b : list Z) : bool := list_eqb Z.eqb (map Z.of_nat a) b.
Definition submap (a m : amap) : bool :=
  forallb (fun kv => match a_get (fst kv) m with Some v => v =? snd kv | None => false end) a.
Fixpoint keys_increasing (a : amap) : bool :=
  match a with kv :: ((kv' :: _) as t) => (fst kv <? fst kv') && keys_increasing t | _ => true end.

(* DeleteFunc with a callback on the live size: which pairs go depends on Go's iteration order, so the judgement is what
   holds for EVERY order: the sizes the callback saw, how many pairs are left, and that they are pairs of the old map.
   The model goes on from the map the implementation was left with. *)
Definition live_delete_ok (st : bmap) (g : nat -> bool) (x : bmstep) : bool :=
  match st, ms_after x with
  | None, None => bm_out_eqb (ms_out x) (BList [])
  | Some m, Some a =>
      let n := length m in
      match ms_out x with
      | BList seen => nat_list_eqb (live_trace g n n) seen
      | _ => false
      end
      && Nat.eqb (length a) (n - drops g n n) && submap a m && keys_increasing a
  | _, _ => false
  end.

Definition bm_step_check (st : bmap) (x : bmstep) : bmap * nat :=
  match ms_op x with
  | ODeleteFuncLive g => (ms_after x, kind_of true (live_delete_ok st g x))
  | _ =>
    let '(st', out) := bmap_step st (ms_op x) in
    let '(sp', sout) := fmap_step st (ms_op x) in
    (st',
     kind_of (bm_out_eqb out (ms_out x) && bmap_eqb st' (ms_after x))
             (bm_out_eqb sout (ms_out x) && bmap_eqb sp' (ms_after x)))
  end.

Definition check_bm (c : bmcase) : nat := scan bm_step_check (mc_init c) (mc_steps c) 0.

(* ---------- float instantiations of the Ordered / Calculable wrappers ----------
   Values are IEEE bit patterns (math.Float64bits / Float32bits as Z: NaN payloads and the sign of zero are kept). The
   reference (the pure left fold / loop on a plain slice with the same bmath function) is computed IN GO by the harness; Coq
   only decides: no panic, result and receiver contents bit-equal to the reference on every wrapper (unsafe and safe) and on
   every capacity variant. There is no Coq model of float arithmetic: every disagreement is kind 2. *)
Record flobs := { f_panic : bool; f_val : list Z; f_after : list Z }.
Record flcase := { fl_ref_val : list Z; fl_ref_after : list Z; fl_obs : list flobs }.
Definition check_fl (c : flcase) : nat :=
  if forallb (fun o => negb (f_panic o) && zl_eqb (f_val o) (fl_ref_val c) && zl_eqb (f_after o) (fl_ref_after c)) (fl_obs c)
  then 0 else 2.

Inductive case := BS (c : bscase) | BM (c : bmcase) | FL (c : flcase).
Definition check_case (c : case) : nat :=
  match c with BS b => check_bs b | BM b => check_bm b | FL f => check_fl f end.
Definition mismatches (cs : list case) : list (nat * nat) := find_bad check_case cs.
