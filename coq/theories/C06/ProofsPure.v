(* C06: the loops of the model (index arithmetic of the Go code, run on a list) compute the pure
   functions of Spec.v. *)
From VF Require Import C06.GoSlice C06.Spec C06.Model C06.ProofsMem.
From Coq Require Import ZifyBool ZifyNat.
Local Open Scope nat_scope.

(* ---------- EqualFunc / CompareFunc / Index ---------- *)
Lemma equal_go_spec f s1 s2 : equal_go f s1 s2 = equal_func f s1 s2.
Proof.
  unfold equal_go. revert s2; induction s1 as [|a t IH]; intros [|b t2]; simpl; auto.
  specialize (IH t2). destruct (Nat.eqb_spec (length t) (length t2)) as [E|N].
  - now rewrite <- IH.
  - rewrite <- IH. now rewrite andb_false_r.
Qed.

Lemma compare_go_spec cmp s1 s2 : compare_go cmp s1 s2 = compare_func cmp s1 s2.
Proof.
  revert s2; induction s1 as [|a t IH]; intros [|b t2]; simpl; auto; try now rewrite IH.
Qed.

Lemma index_func_ge f c : (-1 <= index_func f c)%Z.
Proof.
  induction c as [|x t IH]; simpl; [lia|]. destruct (f x); [lia|].
  destruct (index_func f t <? 0)%Z eqn:E; lia.
Qed.
Lemma index_go_spec f c : forall i,
  index_go f c i = if (index_func f c <? 0)%Z then (-1)%Z else (i + index_func f c)%Z.
Proof.
  induction c as [|x t IH]; intros i; simpl; auto.
  destruct (f x); simpl; [f_equal; lia|].
  rewrite IH. pose proof (index_func_ge f t).
  destruct (index_func f t <? 0)%Z eqn:E; simpl; auto.
  destruct (index_func f t + 1 <? 0)%Z eqn:E2; lia.
Qed.
Lemma index_go_0 f c : index_go f c 0%Z = index_func f c.
Proof.
  rewrite index_go_spec. pose proof (index_func_ge f c).
  destruct (index_func f c <? 0)%Z eqn:E; lia.
Qed.
Lemma contains_spec x c : (0 <=? index_func (Z.eqb x) c)%Z = existsb (Z.eqb x) c.
Proof.
  induction c as [|y t IH]; simpl; auto.
  destruct (x =? y)%Z; simpl; auto. rewrite <- IH.
  pose proof (index_func_ge (Z.eqb x) t).
  destruct (Z.ltb_spec (index_func (Z.eqb x) t) 0); destruct (Z.leb_spec 0 (index_func (Z.eqb x) t)); try lia; simpl; auto.
Qed.

(* ---------- aggregates ---------- *)
Lemma bmax_max a b : bmax a b = Z.max a b.
Proof. unfold bmax. destruct (Z.ltb_spec b a); lia. Qed.
Lemma bmin_min a b : bmin a b = Z.min a b.
Proof. unfold bmin. destruct (Z.ltb_spec b a); lia. Qed.
Lemma max_loop_spec c : max_loop c = zmax_list c.
Proof.
  destruct c as [|a t]; simpl; auto. revert a; induction t as [|b t IH]; intros a; simpl; auto.
  now rewrite bmax_max, IH.
Qed.
Lemma min_loop_spec c : min_loop c = zmin_list c.
Proof.
  destruct c as [|a t]; simpl; auto. revert a; induction t as [|b t IH]; intros a; simpl; auto.
  now rewrite bmin_min, IH.
Qed.
Lemma sum_loop_spec c : sum_loop c = zsum c.
Proof.
  unfold sum_loop, zsum.
  assert (G : forall a, fold_left Z.add c a = (a + fold_right Z.add 0 c)%Z).
  { induction c as [|x t IH]; intros a; simpl; [lia|]. rewrite IH. lia. }
  rewrite G. lia.
Qed.
Lemma avg_code_spec c : avg_code c = zavg c.
Proof.
  unfold avg_code, zavg. rewrite sum_loop_spec. destruct c as [|a t]; simpl length.
  - reflexivity.
  - cbn [Nat.eqb]. unfold zlength. reflexivity.
Qed.

(* ---------- sorting keeps the length ---------- *)
Lemma sins_length less x l : length (sins less x l) = S (length l).
Proof. induction l as [|y t IH]; simpl; auto. destruct (less y x); simpl; auto. Qed.
Lemma isort_length less l : length (isort less l) = length l.
Proof. induction l as [|x t IH]; simpl; auto. now rewrite sins_length, IH. Qed.

(* ---------- IsSorted(Func) ---------- *)
Lemma is_sorted_go_iff less c i :
  is_sorted_go less c i = true <-> (forall j, 1 <= j <= i -> less (nth j c 0%Z) (nth (j - 1) c 0%Z) = false).
Proof.
  induction i as [|i IH]; simpl.
  - split; auto. intros _ j Hj. lia.
  - destruct (less (nth (S i) c 0%Z) (nth i c 0%Z)) eqn:E.
    + split; [discriminate|]. intros H. specialize (H (S i)). simpl in H. rewrite Nat.sub_0_r in H.
      rewrite H in E by lia. discriminate.
    + rewrite IH. split; intros H j Hj.
      * destruct (Nat.eq_dec j (S i)) as [->|N]; [simpl; now rewrite Nat.sub_0_r|apply H; lia].
      * apply H. lia.
Qed.
Lemma is_sorted_by_iff less c :
  is_sorted_by less c = true <-> (forall j, 1 <= j < length c -> less (nth j c 0%Z) (nth (j - 1) c 0%Z) = false).
Proof.
  induction c as [|a t IH]; [simpl; split; auto; intros _ j Hj; simpl in Hj; lia|].
  destruct t as [|b t'].
  - simpl. split; auto. intros _ j Hj. lia.
  - change (is_sorted_by less (a :: b :: t')) with (negb (less b a) && is_sorted_by less (b :: t')).
    rewrite andb_true_iff, IH, negb_true_iff. split.
    + intros (H0 & H) j Hj. destruct j as [|[|j]]; [lia|exact H0|].
      specialize (H (S j)). cbn [nth] in *. simpl in H. rewrite Nat.sub_0_r in H. simpl. apply H. simpl in Hj. simpl. lia.
    + intros H. split; [apply (H 1); simpl; lia|].
      intros j Hj. specialize (H (S j)). destruct j as [|j]; [lia|]. simpl in H. simpl. rewrite Nat.sub_0_r. apply H. simpl in Hj. lia.
Qed.
Lemma is_sorted_loop_spec less c : is_sorted_loop less c = is_sorted_by less c.
Proof.
  unfold is_sorted_loop. apply eq_true_iff_eq.
  rewrite is_sorted_go_iff, is_sorted_by_iff. split; intros H j Hj; apply H; lia.
Qed.

(* ---------- Reverse ---------- *)
Lemma swap_nth (w : list Z) i j k : i < length w -> j < length w ->
  nth k (swap 0%Z w i j) 0%Z = if k =? j then nth i w 0%Z else if k =? i then nth j w 0%Z else nth k w 0%Z.
Proof.
  intros Hi Hj. unfold swap. autorewrite with nths len.
  destruct (Nat.eqb_spec k j), (Nat.eqb_spec k i); subst; simpl;
    repeat match goal with |- context [?a <? ?b] => destruct (Nat.ltb_spec a b) end; auto; lia.
Qed.

Lemma reverse_go_spec (c : list Z) : forall fuel w l r,
  length w = length c -> l + r = length c - 1 -> r <= l + fuel -> 0 < length c ->
  (forall j, j < length c -> nth j w 0%Z = if (j <? l) || (r <? j) then nth (length c - 1 - j) c 0%Z else nth j c 0%Z) ->
  let w' := reverse_go w l r fuel in
  length w' = length c /\ forall j, j < length c -> nth j w' 0%Z = nth (length c - 1 - j) c 0%Z.
Proof.
  induction fuel as [|f IH]; intros w l r Hw Hlr Hf Hn Hinv; simpl.
  - split; auto. intros j Hj. rewrite Hinv by auto.
    destruct (Nat.ltb_spec j l), (Nat.ltb_spec r j); simpl; auto. f_equal. lia.
  - destruct (Nat.ltb_spec l r) as [Lt|Ge].
    + apply IH; try lia.
      * now rewrite swap_length.
      * intros j Hj. rewrite swap_nth by lia. rewrite !Hinv by lia.
        destruct (Nat.eqb_spec j r), (Nat.eqb_spec j l); subst;
          repeat match goal with |- context [?a <? ?b] => destruct (Nat.ltb_spec a b) end; simpl; try lia; try (f_equal; lia); auto.
    + split; auto. intros j Hj. rewrite Hinv by auto.
      destruct (Nat.ltb_spec j l), (Nat.ltb_spec r j); simpl; auto. f_equal. lia.
Qed.

Lemma reverse_loop_spec c : reverse_loop c = rev c.
Proof.
  unfold reverse_loop. destruct c as [|a t] eqn:E; [reflexivity|]. rewrite <- E.
  assert (Hn : 0 < length c) by (subst; simpl; lia).
  destruct (reverse_go_spec c (length c) c 0 (length c - 1)) as (L & N); auto; try lia.
  { intros j Hj. destruct (Nat.ltb_spec (length c - 1) j); simpl; auto. lia. }
  apply (nth_ext _ _ 0%Z 0%Z); [now rewrite rev_length|].
  intros j Hj. rewrite N by lia. rewrite rev_nth by lia. f_equal. lia.
Qed.
Lemma reverse_loop_length c : length (reverse_loop c) = length c.
Proof. rewrite reverse_loop_spec. apply rev_length. Qed.

(* ---------- Compact ---------- *)
Lemma compact_after_snoc eq prev l x :
  compact_after eq prev (l ++ [x]) = compact_after eq prev l ++ (if eq x (last l prev) then [] else [x]).
Proof.
  revert prev; induction l as [|y t IH]; intros prev; simpl.
  - destruct (eq x prev); reflexivity.
  - rewrite IH. replace (match t with [] => y | _ :: _ => last t prev end) with (last t y).
    + destruct (eq y prev); reflexivity.
    + destruct t; auto. simpl. clear. revert z; induction t as [|u t IH]; intros z; simpl; auto.
Qed.
Lemma pcompact_snoc eq l x : l <> [] ->
  pcompact eq (l ++ [x]) = pcompact eq l ++ (if eq x (last l 0%Z) then [] else [x]).
Proof.
  destruct l as [|a t]; [congruence|]. intros _. simpl. rewrite compact_after_snoc.
  replace (match t with [] => a | _ :: _ => last t 0%Z end) with (last t a); auto.
  destruct t; auto. simpl. clear. revert z; induction t as [|u t IH]; intros z; simpl; auto.
Qed.
Lemma firstn_S_snoc (c : list Z) k : k < length c -> firstn (S k) c = firstn k c ++ [nth k c 0%Z].
Proof. intros. list_ext. Qed.
Lemma last_firstn (c : list Z) k : 1 <= k <= length c -> last (firstn k c) 0%Z = nth (k - 1) c 0%Z.
Proof.
  intros H. rewrite <- (rev_involutive (firstn k c)).
  destruct (rev (firstn k c)) as [|z t] eqn:E.
  - apply (f_equal (@length Z)) in E. rewrite rev_length, firstn_length in E. simpl in E. lia.
  - simpl. rewrite last_last.
    assert (R : firstn k c = rev (z :: t)) by (rewrite <- E; now rewrite rev_involutive).
    assert (L : length (z :: t) = k) by (rewrite <- (rev_length (z :: t)), <- R, firstn_length; lia).
    transitivity (nth (k - 1) (firstn k c) 0%Z).
    + rewrite R. rewrite rev_nth by (rewrite L; lia). rewrite L. replace (k - S (k - 1)) with 0 by lia. reflexivity.
    + rewrite nth_firstn_if. destruct (Nat.ltb_spec (k - 1) k); auto. lia.
Qed.

Lemma compact_go_spec eq (c : list Z) : forall n w i k,
  k + n = length c -> 1 <= i <= k -> length w = length c ->
  (forall j, k - 1 <= j -> nth j w 0%Z = nth j c 0%Z) ->
  firstn i w = pcompact eq (firstn k c) ->
  let '(w', i') := compact_go eq w i k n in
  length w' = length c /\ firstn i' w' = pcompact eq c /\ 1 <= i' <= length c.
Proof.
  induction n as [|n IH]; intros w i k Hk Hi Hw Hag Hpre; simpl.
  - replace k with (length c) in Hpre by lia. rewrite firstn_all in Hpre. repeat split; auto; lia.
  - assert (Ek : nth k w 0%Z = nth k c 0%Z) by (apply Hag; lia).
    assert (Ek1 : nth (k - 1) w 0%Z = nth (k - 1) c 0%Z) by (apply Hag; lia).
    assert (Hne : firstn k c <> []).
    { intros E. apply (f_equal (@length Z)) in E. rewrite firstn_length in E. simpl in E. lia. }
    assert (Hsn : pcompact eq (firstn (S k) c) =
                  pcompact eq (firstn k c) ++ (if eq (nth k c 0%Z) (nth (k - 1) c 0%Z) then [] else [nth k c 0%Z])).
    { rewrite firstn_S_snoc by lia. rewrite pcompact_snoc by auto. now rewrite last_firstn by lia. }
    rewrite Ek, Ek1. destruct (eq (nth k c 0%Z) (nth (k - 1) c 0%Z)) eqn:E.
    + apply IH; auto; try lia.
      * intros j Hj. apply Hag. lia.
      * rewrite Hsn, app_nil_r. exact Hpre.
    + destruct (Nat.eqb_spec i k) as [->|Nik].
      * apply IH; auto; try lia.
        -- intros j Hj. apply Hag. lia.
        -- rewrite Hsn, <- Hpre. rewrite <- Ek. apply firstn_S_snoc. lia.
      * apply IH; auto; try lia.
        -- now rewrite upd_length.
        -- intros j Hj. rewrite nth_upd_other by lia. apply Hag. lia.
        -- rewrite Hsn, <- Hpre. list_ext.
Qed.

Lemma compact_go_top eq c : 2 <= length c ->
  let '(w, i) := compact_go eq c 1 1 (length c - 1) in
  length w = length c /\ firstn i w = pcompact eq c /\ 1 <= i <= length c.
Proof.
  intros H. apply compact_go_spec; auto; try lia.
  destruct c as [|a t]; simpl in *; [lia|]. destruct t; reflexivity.
Qed.

Lemma pcompact_short eq c : length c < 2 -> pcompact eq c = c.
Proof. destruct c as [|a [|b t]]; simpl; auto; lia. Qed.

(* ---------- BinarySearch(Func) ---------- *)
Lemma filter_length_le' (f : Z -> bool) c : length (filter f c) <= length c.
Proof. induction c as [|x t IH]; simpl; auto. destruct (f x); simpl; lia. Qed.

Ltac Zify.zify_post_hook ::= Z.div_mod_to_equations.

Lemma bsearch_go_spec lt (c : list Z) p :
  p <= length c ->
  (forall k, k < p -> lt (nth k c 0%Z) = true) ->
  (forall k, p <= k < length c -> lt (nth k c 0%Z) = false) ->
  forall fuel i j, i <= p <= j -> j <= length c -> j - i <= fuel -> bsearch_go lt c i j fuel = p.
Proof.
  intros Hp Hlo Hhi. induction fuel as [|f IH]; intros i j Hij Hj Hf; simpl; [lia|].
  destruct (Nat.ltb_spec i j) as [Lt|Ge]; [|lia].
  assert (Hh : i <= Nat.div2 (i + j) < j) by (rewrite Nat.div2_div; lia).
  destruct (lt (nth (Nat.div2 (i + j)) c 0%Z)) eqn:E.
  - apply IH; try lia. destruct (Nat.lt_ge_cases (Nat.div2 (i + j)) p); [lia|].
    rewrite Hhi in E by lia. discriminate.
  - apply IH; try lia. destruct (Nat.lt_ge_cases (Nat.div2 (i + j)) p); [|lia].
    rewrite Hlo in E by lia. discriminate.
Qed.

Lemma forallb_nth (f : Z -> bool) l : forallb f l = true -> forall k, k < length l -> f (nth k l 0%Z) = true.
Proof. intros H k Hk. rewrite forallb_forall in H. apply H, nth_In. exact Hk. Qed.

Lemma bsearch_spec cmp t c : partitioned cmp t c = true -> bsearch cmp t c = psearch cmp t c.
Proof.
  unfold partitioned, bsearch, psearch. set (p := count_before cmp t c). intros H.
  apply andb_true_iff in H as (H1 & H2).
  assert (Hp : p <= length c) by apply filter_length_le'.
  rewrite (bsearch_go_spec (fun x => (cmp x t <? 0)%Z) c p); auto; try lia.
  - intros k Hk. pose proof (forallb_nth _ _ H1 k) as Q. rewrite firstn_length in Q.
    rewrite nth_firstn_if in Q. destruct (Nat.ltb_spec k p); [|lia]. apply Q. lia.
  - intros k Hk. pose proof (forallb_nth _ _ H2 (k - p)) as Q. rewrite skipn_length in Q.
    rewrite nth_skipn_plus in Q. replace (p + (k - p)) with k in Q by lia.
    apply negb_true_iff. apply Q. lia.
Qed.
