(* C06 model and specification of base/bmap (keys and values int = Z).
   A Go map is modelled as an association list with strictly increasing keys (the canonical form of a
   finite map: equal maps are equal lists); None is the nil map: reads see an empty map, a write panics
   exactly as on an ordinary Go map. `range` visits the entries in key order (one admissible order; what
   the code returns in iteration order - Keys, Values, ForEach - is compared as a sorted collection).
     bmap_step : the methods of any.go / bmap.go / comparable.go, loop by loop
     fmap_step : the finite-map meaning of each method, one line each
   NO proofs in this file. *)
From VF Require Export C06.Spec.
Local Open Scope Z_scope.

Definition amap := list (Z * Z).
Definition bmap := option amap.

(* ---------- the built-in map operations ---------- *)
Fixpoint a_get (k : Z) (m : amap) : option Z :=
  match m with [] => None | (k', v) :: t => if k' =? k then Some v else a_get k t end.
Fixpoint a_set (k v : Z) (m : amap) : amap :=
  match m with
  | [] => [(k, v)]
  | (k', v') :: t => if k =? k' then (k, v) :: t else if k <? k' then (k, v) :: (k', v') :: t else (k', v') :: a_set k v t
  end.
Fixpoint a_del (k : Z) (m : amap) : amap :=
  match m with [] => [] | (k', v') :: t => if k =? k' then t else (k', v') :: a_del k t end.
Definition mv (b : bmap) : amap := match b with Some m => m | None => [] end.
Definition is_nil (b : bmap) : bool := match b with None => true | _ => false end.

Inductive bm_op :=
| ONew (arg : bmap)                        (* New...BMapByMap(arg): the receiver is re-made from arg *)
| OToMetaMap | OKeys | OValues
| OEqualFunc (by_bmap : bool) (m : bmap) (eq : Z -> Z -> bool)
| OClear
| OClone (to_bmap : bool)
| OCopy (by_bmap : bool) (dst : bmap)
| ODeleteFunc (del : Z -> Z -> bool)
| OMarshal
| OUnmarshal (d : option amap)            (* None = malformed JSON *)
| OSize | OIsEmpty
| OIsExist (k : Z) | OContainsKey (k : Z) | OContainsValue (v : Z)
| OForEach
| OGet (k : Z) | OGetOrDefault (k d : Z)
| OPut (k v : Z) | OPutIfAbsent (k v : Z)
| ODelete (k : Z) | ODeleteIfPresent (k : Z)
| OMerge (by_bmap : bool) (m : bmap) (f : option (Z -> Z -> bool))
| OReplace (k ov nv : Z)
| OEqual (by_bmap : bool) (m : bmap)
(* callbacks that look at the LIVE map through ToMetaMap while the method runs: del = fun _ _ => g (len(m)) *)
| ODeleteFuncLive (g : nat -> bool)
| OForEachLive.

Inductive bm_out :=
| BNone | BBool (b : bool) | BInt (z : Z) | BIntBool (z : Z) (b : bool) | BList (l : list Z)
| BMapOut (m : bmap) (alias : bool)       (* a returned / written map and whether it is the receiver's map *)
| BErr | BPanic.

Fixpoint flat (m : amap) : list Z := match m with [] => [] | (k, v) :: t => k :: v :: flat t end.

(* ---------- model: the code ---------- *)

(* bmap.EqualFunc: len(m1) != len(m2) -> false; for k, v1 := range m1 { v2, ok := m2[k]; !ok || !eq(v1, v2) -> false } *)
Definition equal_loop (eq : Z -> Z -> bool) (m1 m2 : amap) : bool :=
  if Nat.eqb (length m1) (length m2) then
    forallb (fun kv => match a_get (fst kv) m2 with Some v2 => eq (snd kv) v2 | None => false end) m1
  else false.

(* bmap.Copy: for k, v := range src { dst[k] = v }; a write to a nil dst panics *)
Definition copy_loop (dst : bmap) (src : amap) : option bmap :=
  match src, dst with
  | [], _ => Some dst
  | _, None => None
  | _, Some d => Some (Some (fold_left (fun acc kv => a_set (fst kv) (snd kv) acc) src d))
  end.

(* bmap.DeleteFunc: for k, v := range m { if del(k, v) { delete(m, k) } } *)
Definition delete_loop (del : Z -> Z -> bool) (m : amap) : amap :=
  fold_left (fun acc kv => if del (fst kv) (snd kv) then a_del (fst kv) acc else acc) m m.

(* MergeByMap: for k, v := range m { ov, ok := x.mp[k]; if !ok { x.mp[k] = v; continue }; if f != nil && f(k, ov) { x.mp[k] = v } } *)
Definition merge_loop (f : option (Z -> Z -> bool)) (x src : amap) : amap :=
  fold_left (fun acc kv =>
               match a_get (fst kv) acc with
               | None => a_set (fst kv) (snd kv) acc
               | Some ov => match f with
                            | Some g => if g (fst kv) ov then a_set (fst kv) (snd kv) acc else acc
                            | None => acc
                            end
               end) src x.

(* DeleteFunc with a callback that reads the live size: every pair is visited once; a condemned pair is gone before
   the next callback runs (delete during the range loop). Returns the map and the sizes the callback saw. *)
Fixpoint delete_live (g : nat -> bool) (l acc : amap) : amap * list nat :=
  match l with
  | [] => (acc, [])
  | kv :: t => let sz := length acc in
               let '(r, tr) := delete_live g t (if g sz then a_del (fst kv) acc else acc) in
               (r, sz :: tr)
  end.

(* what any visiting order gives when the callback depends on the live size only: the first d visited pairs go, where d
   = how long g stays true while the size counts down; the sizes seen are n, n-1, ..., n-d, n-d, ... (one per pair) *)
Fixpoint drops (g : nat -> bool) (size fuel : nat) : nat :=
  match fuel with O => O | S f => if g size then S (drops g (size - 1) f) else O end.
Fixpoint live_trace (g : nat -> bool) (size calls : nat) : list nat :=
  match calls with O => [] | S c => size :: live_trace g (if g size then (size - 1)%nat else size) c end.

(* NewUnsafeAnyBMapByMap: a nil argument becomes a fresh empty map *)
Definition wrap (b : bmap) : bmap := match b with None => Some [] | _ => b end.

Definition bmap_step (st : bmap) (o : bm_op) : bmap * bm_out :=
  let m := mv st in
  match o with
  | ONew a => (wrap a, BNone)                 (* all four ...ByMap constructors: nil becomes a fresh empty map (N3 repaired) *)
  | OToMetaMap => (st, BMapOut st (negb (is_nil st)))   (* a nil map cannot be written through *)
  | OKeys => (st, BList (isort Z.ltb (map fst m)))
  | OValues => (st, BList (isort Z.ltb (map snd m)))
  | OEqualFunc _ a eq => (st, BBool (equal_loop eq m (mv a)))
  | OClear => (Some [], BNone)
  | OClone false => (st, BMapOut st false)                       (* Clone keeps nil *)
  | OClone true => (st, BMapOut (wrap st) false)
  | OCopy _ dst => match copy_loop dst m with Some d => (st, BMapOut d false) | None => (st, BPanic) end
  | ODeleteFunc del => (match st with Some _ => Some (delete_loop del m) | None => None end, BNone)
  | OMarshal => (st, BList (flat m))
  | OUnmarshal d =>
      let st0 := wrap st in                                     (* if x.mp == nil { x.mp = make } *)
      match d with
      | None => (st0, BErr)
      | Some a => (Some (fold_left (fun acc kv => a_set (fst kv) (snd kv) acc) a (mv st0)), BNone)
      end
  | OSize => (st, BInt (Z.of_nat (length m)))
  | OIsEmpty => (st, BBool (Nat.eqb (length m) 0))
  | OIsExist k | OContainsKey k => (st, BBool (match a_get k m with Some _ => true | None => false end))
  | OContainsValue v => (st, BBool (existsb (fun kv => v =? snd kv) m))
  | OForEach => (st, BList (flat m))
  | OGet k => (st, match a_get k m with Some v => BIntBool v true | None => BIntBool 0 false end)
  | OGetOrDefault k d => (st, BInt (match a_get k m with Some v => v | None => d end))
  | OPut k v => match st with Some a => (Some (a_set k v a), BNone) | None => (st, BPanic) end
  | OPutIfAbsent k v =>
      match a_get k m with
      | Some _ => (st, BBool false)
      | None => match st with Some a => (Some (a_set k v a), BBool true) | None => (st, BPanic) end
      end
  | ODelete k => (match st with Some a => Some (a_del k a) | None => None end, BNone)
  | ODeleteIfPresent k =>
      match a_get k m with
      | Some v => (match st with Some a => Some (a_del k a) | None => None end, BIntBool v true)
      | None => (st, BIntBool 0 false)
      end
  | OMerge _ a f =>
      match st with
      | Some x => (Some (merge_loop f x (mv a)), BNone)
      | None => match mv a with [] => (st, BNone) | _ => (st, BPanic) end
      end
  | OReplace k ov nv =>
      match a_get k m with
      | Some v => if v =? ov then (match st with Some a => Some (a_set k nv a) | None => None end, BBool true)
                  else (st, BBool false)
      | None => (st, BBool false)
      end
  | OEqual _ a => (st, BBool (equal_loop Z.eqb m (mv a)))
  | ODeleteFuncLive g =>
      match st with
      | Some a => let '(r, tr) := delete_live g a a in (Some r, BList (map Z.of_nat tr))
      | None => (None, BList [])
      end
  | OForEachLive => (st, BList (map (fun _ => Z.of_nat (length m)) m))
  end.

(* ---------- specification: finite maps ---------- *)
Definition f_mem (k : Z) (m : amap) : bool := match a_get k m with Some _ => true | None => false end.
(* entries of a whose key satisfies keep, added over m *)
Definition f_union (m a : amap) : amap := fold_left (fun acc kv => a_set (fst kv) (snd kv) acc) a m.
Definition f_equal (eq : Z -> Z -> bool) (m1 m2 : amap) : bool :=
  Nat.eqb (length m1) (length m2)
  && forallb (fun kv => match a_get (fst kv) m2 with Some v2 => eq (snd kv) v2 | None => false end) m1.
(* a's entry for k wins iff k is new or f k (current value) holds *)
Definition f_merge (f : option (Z -> Z -> bool)) (m a : amap) : amap :=
  f_union m (filter (fun kv => match a_get (fst kv) m with
                               | None => true
                               | Some ov => match f with Some g => g (fst kv) ov | None => false end
                               end) a).

Definition fmap_step (st : bmap) (o : bm_op) : bmap * bm_out :=
  let m := mv st in
  let write (r : amap) (out : bm_out) := match st with Some _ => (Some r, out) | None => (st, BPanic) end in
  match o with
  | ONew a => (Some (mv a), BNone)            (* a usable map with the entries of the argument, never nil *)
  | OToMetaMap => (st, BMapOut st (negb (is_nil st)))   (* a nil map cannot be written through *)
  | OKeys => (st, BList (isort Z.ltb (map fst m)))
  | OValues => (st, BList (isort Z.ltb (map snd m)))
  | OEqualFunc _ a eq => (st, BBool (f_equal eq m (mv a)))
  | OClear => (Some [], BNone)
  | OClone false => (st, BMapOut st false)
  | OClone true => (st, BMapOut (Some m) false)
  | OCopy _ dst => match m, dst with
                   | [], _ => (st, BMapOut dst false)
                   | _, None => (st, BPanic)
                   | _, Some d => (st, BMapOut (Some (f_union d m)) false)
                   end
  | ODeleteFunc del => (match st with Some _ => Some (filter (fun kv => negb (del (fst kv) (snd kv))) m) | None => None end, BNone)
  | OMarshal | OForEach => (st, BList (flat m))
  | OUnmarshal None => (Some m, BErr)
  | OUnmarshal (Some a) => (Some (f_union m a), BNone)
  | OSize => (st, BInt (Z.of_nat (length m)))
  | OIsEmpty => (st, BBool (match m with [] => true | _ => false end))
  | OIsExist k | OContainsKey k => (st, BBool (f_mem k m))
  | OContainsValue v => (st, BBool (existsb (Z.eqb v) (map snd m)))
  | OGet k => (st, match a_get k m with Some v => BIntBool v true | None => BIntBool 0 false end)
  | OGetOrDefault k d => (st, BInt (match a_get k m with Some v => v | None => d end))
  | OPut k v => write (a_set k v m) BNone
  | OPutIfAbsent k v => if f_mem k m then (st, BBool false) else write (a_set k v m) (BBool true)
  | ODelete k => (match st with Some _ => Some (a_del k m) | None => None end, BNone)
  | ODeleteIfPresent k =>
      match a_get k m with
      | Some v => (Some (a_del k m), BIntBool v true)
      | None => (st, BIntBool 0 false)
      end
  | OMerge _ a f => match st with
                    | Some _ => (Some (f_merge f m (mv a)), BNone)
                    | None => match mv a with [] => (st, BNone) | _ => (st, BPanic) end
                    end
  | OReplace k ov nv =>
      match a_get k m with
      | Some v => if v =? ov then (Some (a_set k nv m), BBool true) else (st, BBool false)
      | None => (st, BBool false)
      end
  | OEqual _ a => (st, BBool (f_equal Z.eqb m (mv a)))
  | ODeleteFuncLive g =>
      let n := length m in
      match st with
      | Some _ => (Some (skipn (drops g n n) m), BList (map Z.of_nat (live_trace g n n)))
      | None => (None, BList [])
      end
  | OForEachLive => (st, BList (repeat (Z.of_nat (length m)) (length m)))
  end.

(* fold a step function over an operation list, collecting the outputs *)
Fixpoint run {S O X : Type} (step : S -> X -> S * O) (s : S) (xs : list X) : S * list O :=
  match xs with
  | [] => (s, [])
  | x :: t => let '(s1, o) := step s x in let '(s2, os) := run step s1 t in (s2, o :: os)
  end.

(* ---------- equality tests for the checker ---------- *)
Definition pair_eqb (a b : Z * Z) : bool := (fst a =? fst b) && (snd a =? snd b).
Definition bmap_eqb (a b : bmap) : bool := option_eqb (list_eqb pair_eqb) a b.
Definition bm_out_eqb (a b : bm_out) : bool :=
  match a, b with
  | BNone, BNone | BErr, BErr | BPanic, BPanic => true
  | BBool x, BBool y => Bool.eqb x y
  | BInt x, BInt y => x =? y
  | BIntBool x p, BIntBool y q => (x =? y) && Bool.eqb p q
  | BList x, BList y => list_eqb Z.eqb x y
  | BMapOut x p, BMapOut y q => bmap_eqb x y && Bool.eqb p q
  | _, _ => false
  end.
