(* C06: the property theorems as corollaries of [bs_call_post] / [bmap_refines]. *)
From VF Require Import C06.GoSlice C06.Spec C06.Model C06.BMap C06.Defects C06.ProofsMem C06.ProofsPure C06.ProofsPrim C06.ProofsMeth C06.ProofsBMap.
Local Open Scope nat_scope.

Lemma pure_thm : forall m oc h s, wfs h s -> fits s ->
  let r := bs_call m oc h s in
  is_panic r = false
  /\ wfs (r_heap r) (r_recv r)
  /\ contents (r_heap r) (r_recv r) = pure_recv m (contents h s)
  /\ (search_pre m (contents h s) = true -> obs_val m (r_heap r) (r_val r) = pure_result m (contents h s)).
Proof.
  intros m oc h s W F. pose proof (bs_call_post m oc h s W F) as P. cbv zeta.
  destruct (bs_call m oc h s) as [h' s' v e|]; [|contradiction].
  destruct P as (P1 & P2 & P3 & P4 & _). simpl. auto.
Qed.

Lemma errors_thm : forall m oc h s, wfs h s -> fits s ->
  r_err (bs_call m oc h s) = invalid m (zlength (contents h s)).
Proof.
  intros m oc h s W F. pose proof (bs_call_post m oc h s W F) as P.
  destruct (bs_call m oc h s) as [h' s' v e|]; [|contradiction].
  destruct P as (_ & _ & P3 & _). exact P3.
Qed.

Lemma copy_thm : forall m oc h s, copying m = true -> wfs h s -> fits s ->
  let r := bs_call m oc h s in
  r_recv r = s /\ ext h (r_heap r) /\ fullwin (r_heap r) s = fullwin h s /\ contents (r_heap r) s = contents h s
  /\ forall t, result_slice r = Some t -> wfs (r_heap r) t /\ shares t s = false.
Proof.
  intros m oc h s C W Fit. pose proof (bs_call_post m oc h s W Fit) as P. cbv zeta.
  destruct (bs_call m oc h s) as [h' s' v e|]; [|contradiction].
  destruct P as (_ & _ & _ & _ & P5 & P6). destruct (P6 C) as (-> & E). simpl.
  split; auto. split; auto. split; [now apply ext_fullwin|]. split; [now apply ext_contents|].
  intros t Ht. unfold result_slice in Ht. simpl in Ht. destruct v; try discriminate. inversion Ht; subst.
  simpl in P5. destruct P5 as (Wt & F). split; auto. eapply fresh_not_shares; eauto.
Qed.

Lemma search_pre_false m c : search_pre m c = false ->
  (exists t cmp, m = MBinarySearchFunc t cmp) \/ (exists t, m = MBinarySearch t).
Proof. destruct m; simpl; try discriminate; eauto. Qed.

Lemma cap_thm : forall m oc1 oc2 h1 s1 h2 s2, wfs h1 s1 -> wfs h2 s2 -> fits s1 -> fits s2 -> contents h1 s1 = contents h2 s2 ->
  observable m (bs_call m oc1 h1 s1) = observable m (bs_call m oc2 h2 s2).
Proof.
  intros m oc1 oc2 h1 s1 h2 s2 W1 W2 F1 F2 E.
  pose proof (bs_call_post m oc1 h1 s1 W1 F1) as P1. pose proof (bs_call_post m oc2 h2 s2 W2 F2) as P2.
  destruct (search_pre m (contents h1 s1)) eqn:SP.
  - destruct (bs_call m oc1 h1 s1) as [h1' s1' v1 e1|]; [|contradiction].
    destruct (bs_call m oc2 h2 s2) as [h2' s2' v2 e2|]; [|contradiction].
    destruct P1 as (_ & A1 & B1 & C1 & _). destruct P2 as (_ & A2 & B2 & C2 & _).
    rewrite <- E in A2, B2, C2. unfold observable. simpl.
    rewrite A1, A2, B1, B2, C1, C2 by auto. reflexivity.
  - clear P1 P2. apply search_pre_false in SP as [(t & cmp & ->)|(t & ->)]; unfold bs_call; rewrite E;
      match goal with |- context [bsearch ?a ?b ?c] => destruct (bsearch a b c) end;
      unfold ok, observable; simpl; now rewrite E.
Qed.

(* the capacity after Clear / Clip is the one the contents determine *)
Lemma certain_cap_thm : forall m oc h s k, wfs h s -> pure_cap m (contents h s) = Some k ->
  cap (r_recv (bs_call m oc h s)) = k.
Proof.
  intros m oc h s k W P. destruct m; simpl in P; try discriminate; inversion P; subst; unfold bs_call.
  - (* Clip *) simpl. symmetry. apply contents_length. exact W.
  - (* Clear *) unfold new_empty, mk. reflexivity.
Qed.

(* a detaching method writes no old array and leaves the receiver on storage outside the old heap: no slice that
   existed before shares anything with the receiver afterwards *)
Lemma detach_thm : forall m oc h s, detaches m = true -> wfs h s ->
  let r := bs_call m oc h s in
  ext h (r_heap r) /\ fresh h (r_recv r) /\ forall t, wfs h t -> shares (r_recv r) t = false.
Proof.
  intros m oc h s D W. destruct m; simpl in D; try discriminate; cbv zeta; unfold bs_call.
  - (* Filter *)
    pose proof (filter_loop_top f h (contents h s) oc) as P. destruct (filter_loop f h (contents h s) oc) as [h1 r].
    destruct P as (E1 & W1 & F1 & C1). unfold ok. simpl. split; auto. split; auto.
    intros t Wt. eapply fresh_not_shares; eauto.
  - (* Clear *)
    pose proof (mk_spec h 0 0 (le_n _)) as M. unfold new_empty. destruct (mk h 0 0) as [h1 r1].
    destruct M as (E1 & W1 & F1 & A1 & O1 & L1 & C1 & N1 & LH1). unfold ok. simpl.
    assert (Fr : fresh h r1) by (right; exact C1).
    split; auto. split; auto. intros t Wt. eapply fresh_not_shares; eauto.
Qed.

Lemma fmap_laws : forall k k' v m,
  a_get k (a_set k' v m) = (if (k =? k')%Z then Some v else a_get k m)
  /\ (ksorted m -> a_get k (a_del k' m) = if (k =? k')%Z then None else a_get k m)
  /\ (ksorted m -> ksorted (a_set k' v m) /\ ksorted (a_del k' m)).
Proof.
  intros. split; [apply a_get_set|]. split; [apply a_get_del|].
  intros H. split; [now apply a_set_sorted|now apply a_del_sorted].
Qed.

(* ---------- the unrepaired code violates the property ---------- *)
Definition hD : heap := [[1; 2; 3; 4]]%Z.
Definition sD : slice := {| arr := 0; off := 0; len := 4; cap := 4; isnil := false |}.

Lemma wfs_sD : wfs hD sD.
Proof. repeat split; simpl; auto; discriminate. Qed.

Lemma d9_refuted : exists h s i j h' r,
  wfs h s /\ deleteTo_unrepaired h s i j = Some (h', r) /\ contents h' s <> contents h s /\ shares r s = true.
Proof.
  exists hD, sD, 0%Z, 1%Z. eexists _, _. split; [apply wfs_sD|]. split; [vm_compute; reflexivity|].
  split; [vm_compute; discriminate|vm_compute; reflexivity].
Qed.

Lemma d10_refuted : exists h s i j,
  wfs h s /\ i <= j <= len s /\ shares (getByRange_unrepaired s i j) s = true.
Proof.
  exists hD, sD, 1, 3. split; [apply wfs_sD|]. split; [simpl; lia|vm_compute; reflexivity].
Qed.

Lemma d11_refuted : exists h1 s1 h2 s2 i v oc,
  wfs h1 s1 /\ wfs h2 s2 /\ contents h1 s1 = contents h2 s2
  /\ (let '(h1', s1') := setByRange_unrepaired h1 s1 i v oc in contents h1' s1')
     <> (let '(h2', s2') := setByRange_unrepaired h2 s2 i v oc in contents h2' s2').
Proof.
  exists [[0; 0]]%Z, {| arr := 0; off := 0; len := 2; cap := 2; isnil := false |},
         [[0; 0; 99; 99; 99; 99; 99; 99; 99; 99]]%Z, {| arr := 0; off := 0; len := 2; cap := 10; isnil := false |},
         1, [7; 8; 9]%Z, 0.
  split; [repeat split; simpl; auto; discriminate|]. split; [repeat split; simpl; auto; try lia; discriminate|].
  split; [reflexivity|]. vm_compute. discriminate.
Qed.

(* ---------- N1..N4: the code before the repairs 0035-0038 violates the property ---------- *)
Lemma n1_refuted : exists s i j,
  len s = 0 /\ bad_range (zlen s) i j = true /\ deleteE_unrepaired_err s i j = false.
Proof.
  exists {| arr := 0; off := 0; len := 0; cap := 0; isnil := false |}, (-1)%Z, 5%Z. repeat split.
Qed.

Lemma n2_refuted : exists h s i v oc,
  wfs h s /\ (0 <= i <= zlen s)%Z
  /\ (let '(hs, _) := setByRange_N2_unrepaired h s i v oc in contents (fst hs) (snd hs))
     <> pure_recv (MSetByRange true i v) (contents h s).
Proof.
  exists [[1; 2; 3]]%Z, {| arr := 0; off := 0; len := 3; cap := 3; isnil := false |}, 1%Z, [7; 8; 9]%Z, 0.
  split; [repeat split; simpl; auto; discriminate|]. split; [vm_compute; split; discriminate|]. vm_compute. discriminate.
Qed.

Lemma n3_refuted : forall k v,
  snd (bmap_step (new_comparable_unrepaired None) (OPut k v)) = BPanic
  /\ snd (bmap_step (fst (bmap_step None (ONew None))) (OPut k v)) = BNone.
Proof. intros. split; reflexivity. Qed.

Lemma n4_refuted : exists h s n oc,
  wfs h s /\ fits s /\ growE_unrepaired h s n oc = Panic /\ r_err (bs_call (MGrow true n) oc h s) = true.
Proof.
  exists [[1]]%Z, {| arr := 0; off := 0; len := 1; cap := 1; isnil := false |}, (2 ^ 62)%Z, 0.
  split; [repeat split; simpl; auto; discriminate|]. split; [vm_compute; reflexivity|].
  split; vm_compute; reflexivity.
Qed.

(* N5: before the repair Unmarshal merged documents into the spare capacity: equal contents, different results *)
Lemma n5_refuted : exists h1 s1 h2 s2 ds oc,
  wfs h1 s1 /\ wfs h2 s2 /\ contents h1 s1 = contents h2 s2
  /\ (let '(a, b) := unmarshal_docs_unrepaired h1 s1 ds oc in contents a b)
     <> (let '(a, b) := unmarshal_docs_unrepaired h2 s2 ds oc in contents a b)
  /\ (let '(a, b) := unmarshal_docs_unrepaired h2 s2 ds oc in contents a b) <> pure_recv (MUnmarshal (JDocs ds)) (contents h2 s2).
Proof.
  exists [[17]]%Z, {| arr := 0; off := 0; len := 1; cap := 1; isnil := false |},
         [[17; 34]]%Z, {| arr := 0; off := 0; len := 1; cap := 2; isnil := false |},
         [DRec (Some 5%Z) None; DRec (Some 6%Z) None], 2.
  split; [repeat split; simpl; auto; discriminate|]. split; [repeat split; simpl; auto; discriminate|].
  split; [reflexivity|]. split; vm_compute; discriminate.
Qed.
