(* C06: the bmap methods (loops over the built-in map) equal their finite-map meaning, for every
   operation list, on canonical (strictly key-sorted) association lists. *)
From VF Require Import C06.Spec C06.BMap.
Local Open Scope Z_scope.

Definition keys (m : amap) : list Z := map fst m.

Fixpoint ksorted (m : amap) : Prop :=
  match m with
  | [] => True
  | kv :: t => (forall k', In k' (keys t) -> fst kv < k') /\ ksorted t
  end.

(* ---------- the built-in operations: finite-map laws ---------- *)
Lemma a_get_set k k' v m : a_get k (a_set k' v m) = if k =? k' then Some v else a_get k m.
Proof.
  induction m as [|[k0 v0] t IH]; simpl.
  - destruct (Z.eqb_spec k' k), (Z.eqb_spec k k'); try lia; auto.
  - destruct (Z.eqb_spec k' k0) as [->|N0]; simpl.
    + destruct (Z.eqb_spec k0 k), (Z.eqb_spec k k0); try lia; auto.
    + destruct (Z.ltb_spec k' k0); simpl.
      * destruct (Z.eqb_spec k' k), (Z.eqb_spec k k'); try lia; auto.
      * rewrite IH. destruct (Z.eqb_spec k0 k), (Z.eqb_spec k k'); try lia; auto.
Qed.

Lemma keys_set k v m x : In x (keys (a_set k v m)) <-> x = k \/ In x (keys m).
Proof.
  induction m as [|[k0 v0] t IH]; simpl.
  - intuition.
  - destruct (Z.eqb_spec k k0) as [->|N0]; simpl; [intuition|].
    destruct (Z.ltb_spec k k0); simpl; [intuition|]. rewrite IH. intuition.
Qed.
Lemma a_set_sorted k v m : ksorted m -> ksorted (a_set k v m).
Proof.
  induction m as [|[k0 v0] t IH]; simpl; [intuition|]. intros (H1 & H2).
  destruct (Z.eqb_spec k k0) as [->|N0]; simpl; [split; auto|].
  destruct (Z.ltb_spec k k0); simpl.
  - split; [|split; auto]. intros k' [<-|Hk]; [lia|]. specialize (H1 _ Hk). lia.
  - split; [|apply IH; auto]. intros k' Hk. apply keys_set in Hk as [->|Hk]; [lia|auto].
Qed.

Lemma keys_del k m x : In x (keys (a_del k m)) -> In x (keys m).
Proof.
  induction m as [|[k0 v0] t IH]; simpl; auto.
  destruct (Z.eqb_spec k k0); simpl; intuition.
Qed.
Lemma a_del_sorted k m : ksorted m -> ksorted (a_del k m).
Proof.
  induction m as [|[k0 v0] t IH]; simpl; auto. intros (H1 & H2).
  destruct (Z.eqb_spec k k0); simpl; auto. split; auto. intros k' Hk. apply H1. eapply keys_del; eauto.
Qed.

Lemma keys_filter (p : Z * Z -> bool) m x : In x (keys (filter p m)) -> In x (keys m).
Proof.
  unfold keys. rewrite !in_map_iff. intros (kv & E & H). apply filter_In in H as (H & _). eauto.
Qed.
Lemma filter_sorted (p : Z * Z -> bool) m : ksorted m -> ksorted (filter p m).
Proof.
  induction m as [|kv t IH]; simpl; auto. intros (H1 & H2).
  destruct (p kv); simpl; auto. split; auto. intros k' Hk. apply H1. eapply keys_filter; eauto.
Qed.

Lemma a_get_notin k m : ~ In k (keys m) -> a_get k m = None.
Proof.
  induction m as [|[k0 v0] t IH]; simpl; auto. intros H.
  destruct (Z.eqb_spec k0 k); [intuition|]. apply IH. intuition.
Qed.
Lemma a_get_del k k' m : ksorted m -> a_get k (a_del k' m) = if k =? k' then None else a_get k m.
Proof.
  induction m as [|[k0 v0] t IH]; simpl; intros Hs.
  - now destruct (k =? k').
  - destruct Hs as (H1 & H2). destruct (Z.eqb_spec k' k0) as [->|N0]; simpl.
    + destruct (Z.eqb_spec k k0) as [E|N]; destruct (Z.eqb_spec k0 k); try lia; auto.
      subst k. apply a_get_notin. intros Hin. specialize (H1 _ Hin). simpl in H1. lia.
    + rewrite IH by auto. destruct (Z.eqb_spec k0 k), (Z.eqb_spec k k'); try lia; auto.
Qed.

Lemma fold_set_sorted (a : amap) : forall m, ksorted m -> ksorted (fold_left (fun (acc : amap) (kv : Z * Z) => a_set (fst kv) (snd kv) acc) a m).
Proof. induction a as [|kv t IH]; simpl; auto. intros m H. apply IH. now apply a_set_sorted. Qed.

(* ---------- DeleteFunc: deleting while ranging = filter ---------- *)
Lemma sorted_notin kv t : ksorted (kv :: t) -> ~ In (fst kv) (keys t).
Proof. intros (H1 & _) Hin. specialize (H1 _ Hin). lia. Qed.

Lemma filter_all (p : Z * Z -> bool) m : (forall kv, In kv m -> p kv = true) -> filter p m = m.
Proof.
  induction m as [|kv t IH]; simpl; auto. intros H. rewrite H by auto. f_equal. apply IH. intros; apply H; auto.
Qed.

Lemma a_del_filter k m : ksorted m -> a_del k m = filter (fun kv => negb (fst kv =? k)) m.
Proof.
  induction m as [|[k0 v0] t IH]; simpl; auto. intros Hs. pose proof (sorted_notin (k0, v0) t Hs) as Hn. destruct Hs as (H1 & H2).
  destruct (Z.eqb_spec k k0) as [->|N0]; simpl.
  - rewrite Z.eqb_refl. simpl. symmetry. apply filter_all. intros kv Hkv. apply negb_true_iff.
    destruct (Z.eqb_spec (fst kv) k0) as [E|]; auto. exfalso. apply Hn. simpl. rewrite <- E. now apply in_map.
  - destruct (Z.eqb_spec k0 k); [lia|]. simpl. f_equal. now apply IH.
Qed.

Lemma filter_filter (p q : Z * Z -> bool) m : filter p (filter q m) = filter (fun kv => q kv && p kv) m.
Proof.
  induction m as [|kv t IH]; simpl; auto. destruct (q kv); simpl; [destruct (p kv)|]; simpl; now rewrite IH.
Qed.

Lemma delete_fold (del : Z -> Z -> bool) : forall (l acc : amap), ksorted acc ->
  fold_left (fun (acc : amap) (kv : Z * Z) => if del (fst kv) (snd kv) then a_del (fst kv) acc else acc) l acc
  = filter (fun kv : Z * Z => negb (existsb (fun kv' : Z * Z => del (fst kv') (snd kv') && (fst kv =? fst kv')) l)) acc.
Proof.
  induction l as [|kv t IH]; intros acc Hs; simpl.
  - symmetry. apply filter_all. auto.
  - destruct (del (fst kv) (snd kv)) eqn:D; simpl.
    + rewrite IH by (now apply a_del_sorted). rewrite a_del_filter by auto. rewrite filter_filter.
      apply filter_ext. intros kv0. now rewrite negb_orb.
    + now rewrite IH.
Qed.

Lemma sorted_unique m : ksorted m -> forall kv kv', In kv m -> In kv' m -> fst kv = fst kv' -> kv = kv'.
Proof.
  induction m as [|a t IH]; simpl; [tauto|]. intros Hs kv kv' [->|H] [->|H'] E; auto.
  - exfalso. apply (sorted_notin _ _ Hs). rewrite E. now apply in_map.
  - exfalso. apply (sorted_notin _ _ Hs). rewrite <- E. now apply in_map.
  - destruct Hs as (_ & Hs). eapply IH; eauto.
Qed.

Lemma delete_loop_spec (del : Z -> Z -> bool) m : ksorted m -> delete_loop del m = filter (fun kv : Z * Z => negb (del (fst kv) (snd kv))) m.
Proof.
  intros Hs. unfold delete_loop. rewrite delete_fold by auto.
  apply filter_ext_in. intros kv Hkv. f_equal.
  destruct (del (fst kv) (snd kv)) eqn:D.
  - apply existsb_exists. exists kv. rewrite D, Z.eqb_refl. auto.
  - apply not_true_is_false. intros H. apply existsb_exists in H as (kv' & Hin & H).
    apply andb_true_iff in H as (D' & E). apply Z.eqb_eq in E.
    rewrite (sorted_unique m Hs kv kv' Hkv Hin E) in D. congruence.
Qed.

(* ---------- Merge: looking the key up in the map being updated = in the original map ---------- *)
Definition merge_keep (f : option (Z -> Z -> bool)) (m : amap) (kv : Z * Z) : bool :=
  match a_get (fst kv) m with
  | None => true
  | Some ov => match f with Some g => g (fst kv) ov | None => false end
  end.

Lemma merge_loop_spec f (m : amap) : forall (a acc : amap),
  NoDup (keys a) -> (forall kv, In kv a -> a_get (fst kv) acc = a_get (fst kv) m) ->
  merge_loop f acc a = fold_left (fun (acc : amap) (kv : Z * Z) => a_set (fst kv) (snd kv) acc) (filter (merge_keep f m) a) acc.
Proof.
  induction a as [|kv t IH]; intros acc Hnd Hag; [reflexivity|].
  unfold merge_loop in *. simpl. inversion Hnd as [|? ? Hn Hnd']; subst.
  assert (Hk : forall acc', (forall kv', In kv' t -> a_get (fst kv') acc' = a_get (fst kv') acc) ->
                            forall kv', In kv' t -> a_get (fst kv') acc' = a_get (fst kv') m).
  { intros acc' H kv' Hin. rewrite H by auto. apply Hag. now right. }
  assert (Hset : forall kv', In kv' t -> a_get (fst kv') (a_set (fst kv) (snd kv) acc) = a_get (fst kv') acc).
  { intros kv' Hin. rewrite a_get_set. destruct (Z.eqb_spec (fst kv') (fst kv)) as [E|]; auto.
    exfalso. apply Hn. unfold keys. rewrite <- E. now apply in_map. }
  unfold merge_keep at 1. rewrite <- (Hag kv) by now left.
  destruct (a_get (fst kv) acc) as [ov|] eqn:G.
  - destruct f as [g|].
    + destruct (g (fst kv) ov); simpl; apply IH; auto.
    + apply IH; auto.
  - simpl. apply IH; auto.
Qed.

Lemma merge_loop_top f m a : NoDup (keys a) -> merge_loop f m a = f_merge f m a.
Proof. intros H. unfold f_merge, f_union. apply merge_loop_spec; auto. Qed.

(* ---------- DeleteFunc with a callback on the live size ---------- *)
Lemma delete_live_stuck g : forall (t acc : amap), g (length acc) = false ->
  delete_live g t acc = (acc, repeat (length acc) (length t)).
Proof.
  induction t as [|kv t IH]; intros acc G; simpl; auto. rewrite G. rewrite IH by auto. reflexivity.
Qed.
Lemma live_trace_stuck g size : g size = false -> forall c, live_trace g size c = repeat size c.
Proof. intros G. induction c as [|c IH]; simpl; auto. rewrite G. now rewrite IH. Qed.

Lemma delete_live_spec g : forall l, ksorted l ->
  delete_live g l l = (skipn (drops g (length l) (length l)) l, live_trace g (length l) (length l)).
Proof.
  induction l as [|[k v] t IH]; intros Hs; [reflexivity|].
  destruct Hs as (H1 & H2). cbn [delete_live length drops live_trace fst].
  destruct (g (S (length t))) eqn:G.
  - cbn [a_del]. rewrite Z.eqb_refl. rewrite IH by auto.
    replace (S (length t) - 1)%nat with (length t) by lia. reflexivity.
  - rewrite delete_live_stuck by (simpl; exact G). cbn [length skipn].
    now rewrite live_trace_stuck by exact G.
Qed.

Lemma skipn_sorted n : forall m, ksorted m -> ksorted (skipn n m).
Proof.
  induction n as [|n IH]; intros m Hs; [exact Hs|]. destruct m as [|kv t]; [exact Hs|]. simpl. apply IH. now destruct Hs.
Qed.

Lemma map_const_repeat (z : Z) (l : amap) : map (fun _ => z) l = repeat z (length l).
Proof. induction l as [|kv t IH]; simpl; auto. now rewrite IH. Qed.

(* ---------- one step ---------- *)
Definition op_wf (o : bm_op) : Prop :=
  match o with OMerge _ a _ => NoDup (keys (mv a)) | ONew a => ksorted (mv a) | _ => True end.

Lemma existsb_snd v (m : amap) : existsb (fun kv => v =? snd kv) m = existsb (Z.eqb v) (map snd m).
Proof. induction m as [|kv t IH]; simpl; auto. now rewrite IH. Qed.

Lemma step_eq st o : ksorted (mv st) -> op_wf o -> bmap_step st o = fmap_step st o.
Proof.
  intros Hs Hw.
  destruct o as [a0| | | |bb a eq| |tb|bb dst|del| |d| | |k|k|v| |k|k d|k v|k v|k|k|bb a f|k ov nv|bb a|g| ]; cbn [bmap_step fmap_step].
  - now destruct a0.
  - reflexivity.
  - reflexivity.
  - reflexivity.
  - unfold equal_loop, f_equal. now destruct (Nat.eqb _ _).
  - reflexivity.
  - destruct tb, st; reflexivity.
  - unfold copy_loop, f_union. destruct (mv st), dst; reflexivity.
  - destruct st as [m|]; cbn [mv] in *; auto. now rewrite delete_loop_spec.
  - reflexivity.
  - destruct d, st; reflexivity.
  - reflexivity.
  - now destruct (mv st).
  - reflexivity.
  - reflexivity.
  - now rewrite existsb_snd.
  - reflexivity.
  - reflexivity.
  - reflexivity.
  - now destruct st.
  - unfold f_mem. destruct (a_get k (mv st)), st; reflexivity.
  - now destruct st.
  - destruct st as [m|]; cbn [mv a_get]; auto.
  - destruct st as [x|]; cbn [mv]; auto. cbn [op_wf] in Hw. now rewrite merge_loop_top.
  - destruct st as [m|]; cbn [mv a_get]; auto.
  - unfold equal_loop, f_equal. now destruct (Nat.eqb _ _).
  - destruct st as [m|]; cbn [mv] in *; auto. now rewrite delete_live_spec.
  - now rewrite map_const_repeat.
Qed.

Lemma step_sorted st o : ksorted (mv st) -> op_wf o -> ksorted (mv (fst (fmap_step st o))).
Proof.
  intros Hs Hw.
  destruct st as [m|]; cbn [mv] in Hs;
  destruct o as [a0| | | |bb a eq| |tb|bb dst|del| |d| | |k|k|v| |k|k d|k v|k v|k|k|bb a f|k ov nv|bb a|g| ]; cbn [fmap_step mv];
  repeat match goal with
         | |- context [match ?x with _ => _ end] => destruct x
         end; cbn [fst mv ksorted]; unfold f_merge, f_union;
  auto using a_set_sorted, a_del_sorted, filter_sorted, fold_set_sorted, skipn_sorted.
Qed.

Theorem bmap_refines : forall ops st, ksorted (mv st) -> Forall op_wf ops ->
  run bmap_step st ops = run fmap_step st ops.
Proof.
  induction ops as [|o t IH]; intros st Hs Hw; [reflexivity|].
  inversion Hw; subst. simpl. rewrite step_eq by auto.
  pose proof (step_sorted st o Hs H1) as Hs'. destruct (fmap_step st o) as [st1 out]. simpl in Hs'.
  now rewrite IH.
Qed.
