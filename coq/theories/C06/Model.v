(* C06 model: base/bslice/{bslice,any,comparable,ordered,calculable}.go on the slice memory model
   (with the repairs of D9, D10, D11 and N1, N2, N4 applied: DeleteTo* run Delete on a Clone, GetByRangeE returns
   the copy, SetByRangeE overwrites/extends from the (clamped) index, the Delete family validates the
   range before its empty-receiver shortcut, Unmarshal clips the receiver before decoding (N5), GrowE recovers the runtime's refusal to allocate). A method call is
       bs_call m oc h s : res
   on a heap h and the receiver's header s (field x.e); oc is the capacity oracle handed to every
   append/grow that has to allocate. The outcome is the new heap, the new receiver header, the
   returned value, the error flag - or Panic.
   Loops over the elements are run on the loaded window (a list) with the code's index arithmetic
   and stored back; pdqsort / sort.Sort / the stable sort are modelled by a stable insertion sort
   (they are C10's subject); json.(Un)Marshal is modelled on decoded data (C15's subject).
   The Safe* wrappers run the same code under a lock: same function (locking is C11).
   NO proofs in this file. *)
From VF Require Export C06.GoSlice C06.Spec.

Inductive value :=
| VNone | VInt (z : Z) | VBool (b : bool) | VIntBool (z : Z) (b : bool) | VSlice (s : slice) | VList (l : list Z).

Inductive res := Ok (h : heap) (s : slice) (v : value) (err : bool) | Panic.

Definition zlen (s : slice) : Z := Z.of_nat (len s).
Definition zcap (s : slice) : Z := Z.of_nat (cap s).

(* ================= bslice.go: the exp/slices primitives (None = run-time panic) ================= *)

(* func Insert(s, i, v...) *)
Definition prim_insert (h : heap) (s : slice) (i : Z) (v : list Z) : option (heap * slice) :=
  if (i <? 0)%Z || (zlen s <? i)%Z then None          (* s[i:] panics *)
  else
    let i := Z.to_nat i in
    let c := contents h s in
    let tot := len s + length v in
    if tot <=? cap s then
      let s2 := relen s tot in                                   (* s2 := s[:tot] *)
      let h1 := wstore h s2 (i + length v) (skipn i c) in        (* copy(s2[i+len(v):], s[i:]) *)
      let h2 := wstore h1 s2 i v in                              (* copy(s2[i:], v) *)
      Some (h2, s2)
    else
      let '(h0, s2) := mk h tot tot in                           (* make(S, tot) *)
      let h1 := wstore h0 s2 0 (firstn i c) in                   (* copy(s2, s[:i]) *)
      let h2 := wstore h1 s2 i v in
      let h3 := wstore h2 s2 (i + length v) (skipn i c) in
      Some (h3, s2).

(* func Delete(s, i, j): _ = s[i:j]; append(s[:i], s[j:]...) *)
Definition prim_delete (h : heap) (s : slice) (i j : Z) : option (heap * slice) :=
  if (i <? 0)%Z || (j <? i)%Z || (zcap s <? j)%Z || (zlen s <? j)%Z then None
  else
    let i := Z.to_nat i in
    let j := Z.to_nat j in
    Some (bs_append h (relen s i) (skipn j (contents h s)) 0).   (* never grows: i + len - j <= cap *)

(* func Replace(s, i, j, v...) *)
Definition prim_replace (h : heap) (s : slice) (i j : Z) (v : list Z) : option (heap * slice) :=
  if (i <? 0)%Z || (j <? i)%Z || (zcap s <? j)%Z || (zlen s <? j)%Z then None
  else
    let i := Z.to_nat i in
    let j := Z.to_nat j in
    let c := contents h s in
    let tot := i + length v + (len s - j) in
    if tot <=? cap s then
      let s2 := relen s tot in
      let h1 := wstore h s2 (i + length v) (skipn j c) in
      let h2 := wstore h1 s2 i v in
      Some (h2, s2)
    else
      let '(h0, s2) := mk h tot tot in
      let h1 := wstore h0 s2 0 (firstn i c) in
      let h2 := wstore h1 s2 i v in
      let h3 := wstore h2 s2 (i + length v) (skipn j c) in
      Some (h3, s2).

(* func Clone(s): nil stays nil; append(S([]E{}), s...) *)
Definition prim_clone (h : heap) (s : slice) (oc : nat) : heap * slice :=
  if isnil s then (h, nil_slice)
  else let '(h0, e) := mk h 0 0 in bs_append h0 e (contents h s) oc.

(* the loop of Compact/CompactFunc on the loaded window: n iterations left, k = S (len - 1 - n) *)
Fixpoint compact_go (eq : Z -> Z -> bool) (w : list Z) (i k n : nat) : list Z * nat :=
  match n with
  | O => (w, i)
  | S n' =>
      if eq (nth k w 0%Z) (nth (k - 1) w 0%Z) then compact_go eq w i (S k) n'
      else compact_go eq (if Nat.eqb i k then w else upd w i (nth k w 0%Z)) (S i) (S k) n'
  end.

Definition prim_compact (eq : Z -> Z -> bool) (h : heap) (s : slice) : heap * slice :=
  if len s <? 2 then (h, s)
  else let '(w, i) := compact_go eq (contents h s) 1 1 (len s - 1) in
       (wstore h s 0 w, relen s i).                                (* s[:i] *)

(* func Grow(s, n): append([]E(s)[:cap(s)], make([]E, n)...)[:len(s)]; make/growslice panic ("len out of range",
   before allocating anything) when the slice would reach alloc_limit elements *)
Definition prim_grow (h : heap) (s : slice) (n : Z) (oc : nat) : option (heap * slice) :=
  if (n <? 0)%Z then None
  else
    let needz := (n - (zcap s - zlen s))%Z in
    if (0 <? needz)%Z then
      if (alloc_limit <=? zcap s + needz)%Z then None
      else
        let need := Z.to_nat needz in
        let '(h1, s1) := bs_append h (relen s (cap s)) (repeat 0%Z need) oc in
        Some (h1, relen s1 (len s))
    else Some (h, s).

(* func Clip(s): s[:len(s):len(s)] *)
Definition prim_clip (s : slice) : slice :=
  {| arr := arr s; off := off s; len := len s; cap := len s; isnil := isnil s |}.

(* cp := make([]E, len(es)); copy(cp, es) *)
Definition copy_fresh (h : heap) (s : slice) : heap * slice :=
  let '(h0, cp) := mk h (len s) (len s) in (wstore h0 cp 0 (contents h s), cp).

(* ================= loops of any.go / sort.go / calculable.go on the loaded window ================= *)

(* l, r := 0, len-1; for l < r { swap; l++; r-- } *)
Fixpoint reverse_go (w : list Z) (l r fuel : nat) : list Z :=
  match fuel with
  | O => w
  | S f => if l <? r then reverse_go (swap 0%Z w l r) (S l) (r - 1) f else w
  end.
Definition reverse_loop (w : list Z) : list Z := reverse_go w 0 (length w - 1) (length w).

(* BinarySearch(Func): i, j := 0, n; for i < j { h := (i+j)>>1; if cmp(x[h], t) < 0 { i = h+1 } else { j = h } } *)
Fixpoint bsearch_go (lt : Z -> bool) (c : list Z) (i j fuel : nat) : nat :=
  match fuel with
  | O => i
  | S f => if i <? j then
             let hh := Nat.div2 (i + j) in
             if lt (nth hh c 0%Z) then bsearch_go lt c (S hh) j f else bsearch_go lt c i hh f
           else i
  end.
Definition bsearch (cmp : Z -> Z -> Z) (t : Z) (c : list Z) : Z * bool :=
  let i := bsearch_go (fun x => (cmp x t <? 0)%Z) c 0 (length c) (S (length c)) in
  (Z.of_nat i, (i <? length c) && (cmp (nth i c 0%Z) t =? 0)%Z).

(* for i := len(x)-1; i > 0; i-- { if less(x[i], x[i-1]) { return false } }; return true *)
Fixpoint is_sorted_go (less : Z -> Z -> bool) (c : list Z) (i : nat) : bool :=
  match i with
  | O => true
  | S i' => if less (nth i c 0%Z) (nth i' c 0%Z) then false else is_sorted_go less c i'
  end.
Definition is_sorted_loop (less : Z -> Z -> bool) (c : list Z) : bool := is_sorted_go less c (length c - 1).

(* bmath.Max / bmath.Min and the Max()/Min() loops *)
Definition bmax (a b : Z) : Z := if (b <? a)%Z then a else b.
Definition bmin (a b : Z) : Z := if (b <? a)%Z then b else a.
Definition max_loop (c : list Z) : Z := match c with [] => 0%Z | a :: t => fold_left bmax t a end.
Definition min_loop (c : list Z) : Z := match c with [] => 0%Z | a :: t => fold_left bmin t a end.
Definition sum_loop (c : list Z) : Z := fold_left Z.add c 0%Z.
(* x.Sum() / TernaryExpr(ln == 0, 1, E(ln)) with Go's truncating division *)
Definition avg_code (c : list Z) : Z := Z.quot (sum_loop c) (if Nat.eqb (length c) 0 then 1%Z else Z.of_nat (length c)).

(* Index: first i with v == s[i], else -1 *)
Fixpoint index_go (f : Z -> bool) (c : list Z) (i : Z) : Z :=
  match c with [] => (-1)%Z | x :: t => if f x then i else index_go f t (i + 1)%Z end.

(* Compare / CompareFunc: loop over s1 with the early exits of the code *)
Fixpoint compare_go (cmp : Z -> Z -> Z) (s1 s2 : list Z) : Z :=
  match s1 with
  | [] => match s2 with [] => 0%Z | _ => (-1)%Z end
  | a :: t1 => match s2 with
               | [] => 1%Z
               | b :: t2 => let c := cmp a b in if (c =? 0)%Z then compare_go cmp t1 t2 else c
               end
  end.
(* switch { case v1 < v2: return -1; case v1 > v2: return +1 } *)
Definition cmp_code (a b : Z) : Z := if (a <? b)%Z then (-1)%Z else if (b <? a)%Z then 1%Z else 0%Z.

(* EqualFunc: len(s1) != len(s2) -> false; then element by element *)
Definition equal_go (f : Z -> Z -> bool) (s1 s2 : list Z) : bool :=
  if Nat.eqb (length s1) (length s2) then forallb (fun p => f (fst p) (snd p)) (combine s1 s2) else false.

(* var res []E; for _, e := range x.e { if f(e) { res = append(res, e) } } *)
Definition filter_loop (f : Z -> bool) (h : heap) (c : list Z) (oc : nat) : heap * slice :=
  fold_left (fun hr e => if f e then bs_append (fst hr) (snd hr) [e] oc else hr) c (h, nil_slice).

(* json.Unmarshal(data, &x.e) into a []int (encoding/json decodeState.array): elements are decoded in
   place while they fit the capacity, then the slice is grown; an empty array gives a fresh empty slice *)
Definition unmarshal_arr (h : heap) (s : slice) (l : list Z) (oc : nat) : heap * slice :=
  match l with
  | [] => mk h 0 0
  | _ => let k := Nat.min (length l) (cap s) in
         let sk := relen s k in
         let h1 := wstore h sk 0 (firstn k l) in
         if length l <=? cap s then (h1, sk) else alloc_list h1 l oc
  end.

(* ================= any.go / comparable.go / ordered.go / calculable.go: the methods ================= *)

Definition ok (h : heap) (s : slice) (v : value) : res := Ok h s v false.
Definition lift (h : heap) (s : slice) (v : slice -> value) (r : option (heap * slice)) : res :=
  match r with Some (h', s') => Ok h' s' (v s') false | None => Panic end.
(* a non-E variant calls the E variant and drops the error *)
Definition drop_err (e : bool) (r : res) : res :=
  if e then r else match r with Ok h s v _ => Ok h s v false | Panic => Panic end.

Definition range_bad (s : slice) (i j : Z) : bool := (i <? 0)%Z || (zlen s <? j)%Z || (j <? i)%Z.
Definition index_bad (s : slice) (i : Z) : bool := (i <? 0)%Z || (zlen s <=? i)%Z.

(* NewUnsafeAnyBSlice(): e = []E{} *)
Definition new_empty (h : heap) : heap * slice := mk h 0 0.

Definition sort_in_place (less : Z -> Z -> bool) (h : heap) (s : slice) : res :=
  ok (wstore h s 0 (isort less (contents h s))) s VNone.
Definition sort_to (less : Z -> Z -> bool) (h : heap) (s : slice) : res :=
  let '(h1, cp) := copy_fresh h s in
  ok (wstore h1 cp 0 (isort less (contents h1 cp))) s (VSlice cp).

Definition bs_call (m : meth) (oc : nat) (h : heap) (s : slice) : res :=
  let c := contents h s in
  match m with
  | MEqualFunc es f => ok h s (VBool (equal_go f c es))
  | MCompareFunc es f => ok h s (VInt (compare_go f c es))
  | MIndexFunc f => ok h s (VInt (index_go f c 0%Z))
  | MInsert e i v =>
      drop_err e (if (i <? 0)%Z || (zlen s <? i)%Z then Ok h s VNone true
                  else lift h s (fun _ => VNone) (prim_insert h s i v))
  | MDelete e i j =>
      drop_err e (if range_bad s i j then Ok h s VNone true
                  else if Nat.eqb (len s) 0 then ok h s VNone
                  else lift h s (fun _ => VNone) (prim_delete h s i j))
  | MDeleteTo e b i j =>
      drop_err e (if range_bad s i j then
                    (if b then let '(h1, r) := new_empty h in Ok h1 s (VSlice r) true else Ok h s (VSlice nil_slice) true)
                  else if Nat.eqb (len s) 0 then
                    (if b then let '(h1, r) := new_empty h in ok h1 s (VSlice r) else ok h s (VSlice nil_slice))
                  else let '(h1, cl) := prim_clone h s oc in
                       match prim_delete h1 cl i j with
                       | Some (h2, r) => ok h2 s (VSlice r)
                       | None => Panic
                       end)
  | MReplace e i j v =>
      drop_err e (if range_bad s i j then Ok h s VNone true
                  else lift h s (fun _ => VNone) (prim_replace h s i j v))
  | MClone _ => let '(h1, r) := prim_clone h s oc in ok h1 s (VSlice r)
  | MCompactFunc f => let '(h1, s1) := prim_compact f h s in ok h1 s1 VNone
  | MGrow e n =>
      (* GrowE: i < 0 -> error; a panic of Grow (the runtime refusing the amount) is recovered into an error *)
      drop_err e (if (n <? 0)%Z then Ok h s VNone true
                  else match prim_grow h s n oc with
                       | Some (h', s') => ok h' s' VNone
                       | None => Ok h s VNone true
                       end)
  | MClip => ok h (prim_clip s) VNone
  | MForEach => ok h s (VList (foreach_pairs 0%Z c))
  | MSortFunc less | MSortStableFunc less => sort_in_place less h s
  | MSortComparator cmp => sort_in_place (fun a b => (cmp a b <? 0)%Z) h s
  | MSortFuncTo _ less | MSortStableFuncTo _ less => sort_to less h s
  | MSortComparatorTo _ cmp => sort_to (fun a b => (cmp a b <? 0)%Z) h s
  | MIsSortedFunc less => ok h s (VBool (is_sorted_loop less c))
  | MBinarySearchFunc t cmp => let '(p, f) := bsearch cmp t c in ok h s (VIntBool p f)
  | MFilter f => let '(h1, r) := filter_loop f h c oc in ok h1 r VNone
  | MFilterTo _ f => let '(h1, r) := filter_loop f h c oc in ok h1 s (VSlice r)
  | MReverse => ok (wstore h s 0 (reverse_loop c)) s VNone
  | MReverseTo _ => let '(h1, cp) := copy_fresh h s in
                    ok (wstore h1 cp 0 (reverse_loop (contents h1 cp))) s (VSlice cp)
  | MMarshal => ok h s (VList c)                      (* nil and empty both encode as [] *)
  | MUnmarshal d =>
      (* if x.e == nil { x.e = []E{} };  x.e = x.e[:len(x.e):len(x.e)] (N5: decode into nothing but the contents) *)
      let '(h0, s1) := if isnil s then new_empty h else (h, s) in
      let s0 := prim_clip s1 in
      match d with
      | JBad => Ok h0 s0 VNone true                   (* checkValid fails before anything is stored *)
      | JNull => ok h0 nil_slice VNone
      | JArr l => let '(h1, s2) := unmarshal_arr h0 s0 l oc in ok h1 s2 VNone
      | JDocs ds => let '(h1, s2) := unmarshal_arr h0 s0 (merge_all (contents h0 s0) ds) oc in ok h1 s2 VNone
      end
  | MLen => ok h s (VInt (zlen s))
  | MCap => ok h s (VInt (zcap s))
  | MToInterfaceSlice => ok h s (VList c)
  | MToMetaSlice => ok h s (VSlice s)
  | MSwap i j =>
      if (i <? 0)%Z || (j <? 0)%Z || (zlen s <=? i)%Z || (zlen s <=? j)%Z || (i =? j)%Z then ok h s VNone
      else ok (wstore h s 0 (swap 0%Z c (Z.to_nat i) (Z.to_nat j))) s VNone
  | MClear => let '(h1, r) := new_empty h in ok h1 r VNone
  | MAppend v => let '(h1, s1) := bs_append h s v oc in ok h1 s1 VNone
  | MAppendTo _ v => let '(h1, cp) := copy_fresh h s in
                     let '(h2, r) := bs_append h1 cp v oc in ok h2 s (VSlice r)
  | MCopyTo _ => let '(h1, cp) := copy_fresh h s in ok h1 s (VSlice cp)
  | MGetByIndex e i =>
      drop_err e (if index_bad s i then Ok h s (VInt 0%Z) true else ok h s (VInt (nth (Z.to_nat i) c 0%Z)))
  | MGetByIndexOrDefault i d =>
      if index_bad s i then ok h s (VInt d) else ok h s (VInt (nth (Z.to_nat i) c 0%Z))
  | MGetByRange e i j =>
      drop_err e (if range_bad s i j then Ok h s (VSlice nil_slice) true
                  else if isnil s then ok h s (VSlice nil_slice)        (* v := x.e[start:end]; if v == nil { return nil, nil } *)
                  else let n := Z.to_nat j - Z.to_nat i in
                       let '(h1, cp) := mk h n n in
                       ok (wstore h1 cp 0 (firstn n (skipn (Z.to_nat i) c))) s (VSlice cp))
  | MSetByIndex e i x =>
      drop_err e (if index_bad s i then Ok h s VNone true
                  else ok (wstore h s (Z.to_nat i) [x]) s VNone)
  | MSetByRange e i v =>
      drop_err e (if (i <? 0)%Z then Ok h s VNone true
                  else
                    let i := Z.to_nat (if (zlen s <? i)%Z then zlen s else i) in     (* if index > len(x.e) { index = len(x.e) } *)
                    if len s <? i + length v then
                      (* x.e = append(x.e[:index], es...) *)
                      let '(h1, s1) := bs_append h (relen s i) v oc in ok h1 s1 VNone
                    else ok (wstore h s i v) s VNone)
  | MContains x => ok h s (VBool (0 <=? index_go (Z.eqb x) c 0%Z)%Z)
  | MEqual es => ok h s (VBool (equal_go (fun a b => negb (negb (a =? b)%Z)) c es))
  | MCompact => let '(h1, s1) := prim_compact Z.eqb h s in ok h1 s1 VNone
  | MCompare es => ok h s (VInt (compare_go cmp_code c es))
  | MSort => sort_in_place Z.ltb h s
  | MIsSorted => ok h s (VBool (is_sorted_loop Z.ltb c))
  | MBinarySearch t => let '(p, f) := bsearch cmp_code t c in ok h s (VIntBool p f)
  | MSum => ok h s (VInt (sum_loop c))
  | MAvg => ok h s (VInt (avg_code c))
  | MMax => ok h s (VInt (max_loop c))
  | MMin => ok h s (VInt (min_loop c))
  end.

(* ================= projections used by the theorems and the checker ================= *)
Definition r_heap (r : res) : heap := match r with Ok h _ _ _ => h | Panic => [] end.
Definition r_recv (r : res) : slice := match r with Ok _ s _ _ => s | Panic => nil_slice end.
Definition r_val (r : res) : value := match r with Ok _ _ v _ => v | Panic => VNone end.
Definition r_err (r : res) : bool := match r with Ok _ _ _ e => e | Panic => false end.
Definition is_panic (r : res) : bool := match r with Panic => true | _ => false end.

(* what a returned value means as a pure value: a slice stands for its contents *)
Definition abs_val (h : heap) (v : value) : pval :=
  match v with
  | VNone => PNone | VInt z => PInt z | VBool b => PBool b | VIntBool z b => PIntBool z b
  | VSlice s => PList (contents h s) | VList l => PList l
  end.
Definition obs_val (m : meth) (h : heap) (v : value) : pval := if about_cap m then PNone else abs_val h v.
Definition result_slice (r : res) : option slice := match r_val r with VSlice t => Some t | _ => None end.

(* what a caller can see of a call without asking for the capacity: panic, error flag, receiver contents, result *)
Definition observable (m : meth) (r : res) : bool * bool * list Z * pval :=
  (is_panic r, r_err r, contents (r_heap r) (r_recv r), obs_val m (r_heap r) (r_val r)).
