(* C06 property theorems. Nothing but statements closed by [exact] and Print Assumptions.
   bs_call m oc h s = the model of method m (arguments included in m) on heap h and receiver header s, with oc the
   capacity oracle of append/grow. wfs h s = the header's capacity window lies inside its array (every Go slice is);
   fits s = its capacity is below the runtime's allocation limit Spec.alloc_limit (every Go slice is). *)
From VF Require Import C06.GoSlice C06.Spec C06.Model C06.BMap C06.Defects C06.ProofsMem C06.ProofsMeth C06.ProofsBMap C06.ProofsTop.
Local Open Scope Z_scope.

(* (1) every method, every heap/header/argument/oracle: no panic; receiver contents and returned value equal the
   pure list function (BinarySearch(Func): on receivers on which the comparison is monotone, see Spec.search_pre) *)
Theorem C06_pure : forall m oc h s, wfs h s -> fits s ->
  let r := bs_call m oc h s in
  is_panic r = false
  /\ wfs (r_heap r) (r_recv r)
  /\ contents (r_heap r) (r_recv r) = pure_recv m (contents h s)
  /\ (search_pre m (contents h s) = true -> obs_val m (r_heap r) (r_val r) = pure_result m (contents h s)).
Proof. exact pure_thm. Qed.

(* (2) the error result is raised exactly on the invalid index/range/amount arguments listed in Spec.invalid
   (and never by a method without an error result); together with (1): E variants never panic. GrowE: an amount
   that would take the slice to alloc_limit elements is an error, smaller amounts are assumed allocatable *)
Theorem C06_errors : forall m oc h s, wfs h s -> fits s ->
  r_err (bs_call m oc h s) = invalid m (zlength (contents h s)).
Proof. exact errors_thm. Qed.

(* (3) copying methods: receiver header unchanged, no old array is written (so every cell of the receiver's
   capacity window is unchanged), the returned storage is well formed and shares nothing with the receiver *)
Theorem C06_copy : forall m oc h s, copying m = true -> wfs h s -> fits s ->
  let r := bs_call m oc h s in
  r_recv r = s /\ ext h (r_heap r) /\ fullwin (r_heap r) s = fullwin h s /\ contents (r_heap r) s = contents h s
  /\ forall t, result_slice r = Some t -> wfs (r_heap r) t /\ shares t s = false.
Proof. exact copy_thm. Qed.

(* (4) capacity independence: equal contents give equal observables, whatever the arrays, offsets, capacities,
   nil-ness and growth oracles (the result of Cap() itself excepted, see Spec.about_cap) *)
Theorem C06_cap : forall m oc1 oc2 h1 s1 h2 s2, wfs h1 s1 -> wfs h2 s2 -> fits s1 -> fits s2 -> contents h1 s1 = contents h2 s2 ->
  observable m (bs_call m oc1 h1 s1) = observable m (bs_call m oc2 h2 s2).
Proof. exact cap_thm. Qed.

(* where the contents determine the capacity (Clear: an empty slice of its own; Clip), the code has exactly that capacity *)
Theorem C06_certain_cap : forall m oc h s k, wfs h s -> pure_cap m (contents h s) = Some k ->
  cap (r_recv (bs_call m oc h s)) = k.
Proof. exact certain_cap_thm. Qed.

(* detaching methods (Clear, Filter): no old array is written and the receiver ends up on storage that shares nothing with
   any slice that existed before - whatever was handed out earlier can no longer be reached through the wrapper *)
Theorem C06_detach : forall m oc h s, detaches m = true -> wfs h s ->
  let r := bs_call m oc h s in
  ext h (r_heap r) /\ fresh h (r_recv r) /\ forall t, wfs h t -> shares (r_recv r) t = false.
Proof. exact detach_thm. Qed.

(* the binary search of the code meets its specification on sorted (monotone) receivers *)
Theorem C06_search : forall cmp t c, partitioned cmp t c = true -> bsearch cmp t c = psearch cmp t c.
Proof. exact ProofsPure.bsearch_spec. Qed.

(* (5) bmap: the methods equal their finite-map meaning for every operation list, from every canonical map
   (nil included); map arguments of Merge have distinct keys (they are maps) *)
Theorem C06_bmap : forall ops st, ksorted (mv st) -> Forall op_wf ops ->
  run bmap_step st ops = run fmap_step st ops.
Proof. exact bmap_refines. Qed.
(* DeleteFunc with a callback that reads the LIVE size of the map (del = fun _ _ => g (len m)): deleting during the range
   loop removes the first d visited pairs, d = how long g stays true while the size counts down, and the callback sees the
   sizes n, n-1, ..., n-d, n-d, ... - the figures the checker demands of the real map whatever its iteration order *)
Theorem C06_live_delete : forall g l, ksorted l ->
  delete_live g l l = (skipn (drops g (length l) (length l)) l, live_trace g (length l) (length l)).
Proof. exact delete_live_spec. Qed.

Theorem C06_fmap_laws : forall k k' v m,
  a_get k (a_set k' v m) = (if k =? k' then Some v else a_get k m)
  /\ (ksorted m -> a_get k (a_del k' m) = if k =? k' then None else a_get k m)
  /\ (ksorted m -> ksorted (a_set k' v m) /\ ksorted (a_del k' m)).
Proof. exact fmap_laws. Qed.

(* the code as it was before the repairs violates (3) and (4): witnesses of D9, D10, D11 *)
Theorem C06_D9_unrepaired_refuted : exists h s i j h' r,
  wfs h s /\ deleteTo_unrepaired h s i j = Some (h', r) /\ contents h' s <> contents h s /\ shares r s = true.
Proof. exact d9_refuted. Qed.
Theorem C06_D10_unrepaired_refuted : exists h s i j,
  wfs h s /\ (i <= j <= len s)%nat /\ shares (getByRange_unrepaired s i j) s = true.
Proof. exact d10_refuted. Qed.
Theorem C06_D11_unrepaired_refuted : exists h1 s1 h2 s2 i v oc,
  wfs h1 s1 /\ wfs h2 s2 /\ contents h1 s1 = contents h2 s2
  /\ (let '(h1', s1') := setByRange_unrepaired h1 s1 i v oc in contents h1' s1')
     <> (let '(h2', s2') := setByRange_unrepaired h2 s2 i v oc in contents h2' s2').
Proof. exact d11_refuted. Qed.

(* the code as it was before the repairs 0035-0038 violates (1)/(2): witnesses of N1, N2, N3, N4 *)
Theorem C06_N1_unrepaired_refuted : exists s i j,
  len s = 0%nat /\ bad_range (zlen s) i j = true /\ deleteE_unrepaired_err s i j = false.
Proof. exact n1_refuted. Qed.
Theorem C06_N2_unrepaired_refuted : exists h s i v oc,
  wfs h s /\ 0 <= i <= zlen s
  /\ (let '(hs, _) := setByRange_N2_unrepaired h s i v oc in contents (fst hs) (snd hs))
     <> pure_recv (MSetByRange true i v) (contents h s).
Proof. exact n2_refuted. Qed.
Theorem C06_N3_unrepaired_refuted : forall k v,
  snd (bmap_step (new_comparable_unrepaired None) (OPut k v)) = BPanic
  /\ snd (bmap_step (fst (bmap_step None (ONew None))) (OPut k v)) = BNone.
Proof. exact n3_refuted. Qed.
Theorem C06_N4_unrepaired_refuted : exists h s n oc,
  wfs h s /\ fits s /\ growE_unrepaired h s n oc = Panic /\ r_err (bs_call (MGrow true n) oc h s) = true.
Proof. exact n4_refuted. Qed.

(* N5: Unmarshal as it was (decoding straight into x.e) let elements lying in the spare capacity show through:
   [{1 alice}] with a stale {2 bob} behind it, Unmarshal [{"id":5},{"id":6}] gave {6 bob}; clipped it gave {6 ""} *)
Theorem C06_N5_unrepaired_refuted : exists h1 s1 h2 s2 ds oc,
  wfs h1 s1 /\ wfs h2 s2 /\ contents h1 s1 = contents h2 s2
  /\ (let '(a, b) := unmarshal_docs_unrepaired h1 s1 ds oc in contents a b)
     <> (let '(a, b) := unmarshal_docs_unrepaired h2 s2 ds oc in contents a b)
  /\ (let '(a, b) := unmarshal_docs_unrepaired h2 s2 ds oc in contents a b) <> pure_recv (MUnmarshal (JDocs ds)) (contents h2 s2).
Proof. exact n5_refuted. Qed.

(* non-vacuity: a well-formed header with spare capacity and one without; Insert runs in place on the first and
   reallocates on the second, with equal resulting contents *)
Example C06_nonvacuous :
  let h := [[1; 2; 3; 99; 99]; [1; 2; 3]] in
  let s1 := {| arr := 0; off := 0; len := 3; cap := 5; isnil := false |} in
  let s2 := {| arr := 1; off := 0; len := 3; cap := 3; isnil := false |} in
  wfs h s1 /\ wfs h s2 /\ fits s1 /\ fits s2 /\ contents h s1 = contents h s2
  /\ arr (r_recv (bs_call (MInsert true 1 [7; 8]) 0 h s1)) = 0%nat
  /\ arr (r_recv (bs_call (MInsert true 1 [7; 8]) 0 h s2)) = 2%nat
  /\ contents (r_heap (bs_call (MInsert true 1 [7; 8]) 0 h s1)) (r_recv (bs_call (MInsert true 1 [7; 8]) 0 h s1)) = [1; 7; 8; 2; 3]
  /\ contents (r_heap (bs_call (MInsert true 1 [7; 8]) 0 h s2)) (r_recv (bs_call (MInsert true 1 [7; 8]) 0 h s2)) = [1; 7; 8; 2; 3].
Proof. cbv zeta. repeat split; try (vm_compute; reflexivity); try (cbn; lia); discriminate. Qed.

Print Assumptions C06_pure.
Print Assumptions C06_errors.
Print Assumptions C06_copy.
Print Assumptions C06_cap.
Print Assumptions C06_certain_cap.
Print Assumptions C06_detach.
Print Assumptions C06_search.
Print Assumptions C06_bmap.
Print Assumptions C06_live_delete.
Print Assumptions C06_fmap_laws.
Print Assumptions C06_D9_unrepaired_refuted.
Print Assumptions C06_D10_unrepaired_refuted.
Print Assumptions C06_D11_unrepaired_refuted.
Print Assumptions C06_N1_unrepaired_refuted.
Print Assumptions C06_N2_unrepaired_refuted.
Print Assumptions C06_N3_unrepaired_refuted.
Print Assumptions C06_N4_unrepaired_refuted.
Print Assumptions C06_N5_unrepaired_refuted.
