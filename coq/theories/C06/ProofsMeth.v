(* C06: every bslice method of the model meets one postcondition [Post] (never Panic; receiver well formed;
   contents, result and error flag equal the pure Spec; copying methods touch no old array, keep the
   receiver header and return fresh storage). The property theorems of Props.v are corollaries. *)
From VF Require Import C06.GoSlice C06.Spec C06.Model C06.ProofsMem C06.ProofsPure C06.ProofsPrim.
Local Open Scope nat_scope.

Definition val_wf (h0 h' : heap) (cp : bool) (v : value) : Prop :=
  match v with VSlice t => wfs h' t /\ (cp = true -> fresh h0 t) | _ => True end.

Definition Post (m : meth) (h : heap) (s : slice) (r : res) : Prop :=
  match r with
  | Panic => False
  | Ok h' s' v e =>
      let c := contents h s in
      wfs h' s' /\ contents h' s' = pure_recv m c /\ e = invalid m (zlength c)
      /\ (search_pre m c = true -> obs_val m h' v = pure_result m c)
      /\ val_wf h h' (copying m) v
      /\ (copying m = true -> s' = s /\ ext h h')
  end.

Lemma zlen_zlength h s : wfs h s -> zlen s = zlength (contents h s).
Proof. intros W. unfold zlen, zlength. now rewrite contents_length. Qed.

(* ---------- three shapes of methods ---------- *)
Lemma post_readonly m h s v e :
  wfs h s -> pure_recv m (contents h s) = contents h s -> e = invalid m (zlength (contents h s)) ->
  copying m = false -> val_wf h h false v ->
  (search_pre m (contents h s) = true -> obs_val m h v = pure_result m (contents h s)) ->
  Post m h s (Ok h s v e).
Proof.
  intros W R I C V O. unfold Post. rewrite C.
  split; [exact W|]. split; [symmetry; exact R|]. split; [exact I|]. split; [exact O|].
  split; [exact V|]. intros D; discriminate.
Qed.

Lemma post_mut m h s h' s' e :
  wfs h' s' -> contents h' s' = pure_recv m (contents h s) -> e = invalid m (zlength (contents h s)) ->
  copying m = false -> pure_result m (contents h s) = PNone ->
  Post m h s (Ok h' s' VNone e).
Proof.
  intros W R I C P. unfold Post. rewrite C, P.
  split; [exact W|]. split; [exact R|]. split; [exact I|].
  split; [intros _; unfold obs_val; now destruct (about_cap m)|].
  split; [exact Logic.I|]. intros D; discriminate.
Qed.

Lemma post_copy m h s h' t e l :
  wfs h s -> ext h h' -> wfs h' t -> fresh h t -> contents h' t = l ->
  pure_recv m (contents h s) = contents h s -> pure_result m (contents h s) = PList l -> about_cap m = false ->
  e = invalid m (zlength (contents h s)) ->
  Post m h s (Ok h' s (VSlice t) e).
Proof.
  intros W E Wt F Ct R P A I. unfold Post. rewrite R, P.
  split; [eapply ext_wfs; eauto|]. split; [eapply ext_contents; eauto|]. split; [exact I|].
  split; [intros _; unfold obs_val; rewrite A; simpl; now rewrite Ct|].
  split; [split; auto|]. auto.
Qed.

Ltac zl W := rewrite ?(zlen_zlength _ _ W) in *.

(* ---------- index validation: the model's tests are the Spec's ---------- *)
Lemma range_bad_spec h s i j : wfs h s -> range_bad s i j = bad_range (zlength (contents h s)) i j.
Proof. intros W. unfold range_bad, bad_range. now rewrite (zlen_zlength h s W). Qed.
Lemma index_bad_spec h s i : wfs h s -> index_bad s i = bad_index (zlength (contents h s)) i.
Proof. intros W. unfold index_bad, bad_index. now rewrite (zlen_zlength h s W). Qed.

Lemma bad_range_false n i j : bad_range n i j = false -> (0 <= i <= j)%Z /\ (j <= n)%Z.
Proof. unfold bad_range. intros H. apply orb_false_iff in H as (H & H3). apply orb_false_iff in H as (H1 & H2). lia. Qed.
Lemma bad_index_false n i : bad_index n i = false -> (0 <= i < n)%Z.
Proof. unfold bad_index. intros H. apply orb_false_iff in H as (H1 & H2). lia. Qed.
Lemma bad_pos_false n i : bad_pos n i = false -> (0 <= i <= n)%Z.
Proof. unfold bad_pos. intros H. apply orb_false_iff in H as (H1 & H2). lia. Qed.

(* ---------- the methods ---------- *)
Section Methods.
Variables (oc : nat) (h : heap) (s : slice).
Hypothesis W : wfs h s.
Let c := contents h s.

Lemma post_Insert e i v : Post (MInsert e i v) h s (bs_call (MInsert e i v) oc h s).
Proof.
  unfold bs_call. fold c.
  change ((i <? 0)%Z || (zlen s <? i)%Z) with (bad_pos (zlen s) i). rewrite (zlen_zlength h s W). fold c.
  destruct (bad_pos (zlength c) i) eqn:B.
  - destruct e; cbn [drop_err]; apply post_mut; auto; cbn [pure_recv invalid]; fold c; rewrite ?B; auto.
  - pose proof (bad_pos_false _ _ B) as B'.
    destruct (prim_insert_spec h s i v W) as (h' & s' & P & W' & C' & _); [rewrite (zlen_zlength h s W); exact B'|].
    rewrite P.
    destruct e; cbn [drop_err lift]; apply post_mut; auto; cbn [pure_recv invalid]; fold c; rewrite ?B; auto.
Qed.

Lemma cut_empty (l : list Z) i j : l = [] -> cut l i j = l.
Proof. intros ->. unfold cut. now rewrite firstn_nil, skipn_nil. Qed.

Lemma post_Delete e i j : Post (MDelete e i j) h s (bs_call (MDelete e i j) oc h s).
Proof.
  unfold bs_call. fold c. rewrite (range_bad_spec h s i j W). fold c.
  destruct (bad_range (zlength c) i j) eqn:B.
  - destruct e; cbn [drop_err]; apply post_mut; auto; cbn [pure_recv invalid]; fold c; rewrite ?B; auto.
  - destruct (Nat.eqb_spec (len s) 0) as [E0|N0].
    + assert (Cn : c = []).
      { apply length_zero_iff_nil. unfold c. rewrite contents_length by auto. exact E0. }
      destruct e; cbn [drop_err]; unfold ok; apply post_mut; auto; cbn [pure_recv invalid]; fold c; rewrite ?B; auto;
        symmetry; now apply cut_empty.
    + apply bad_range_false in B as B'.
      destruct (prim_delete_spec h s i j W) as (h' & s' & P & W' & C' & _); try (rewrite (zlen_zlength h s W); fold c); try lia.
      rewrite P.
      destruct e; cbn [drop_err lift]; apply post_mut; auto; cbn [pure_recv invalid]; fold c; rewrite ?B; auto.
Qed.

Lemma post_Replace e i j v : Post (MReplace e i j v) h s (bs_call (MReplace e i j v) oc h s).
Proof.
  unfold bs_call. fold c. rewrite (range_bad_spec h s i j W). fold c.
  destruct (bad_range (zlength c) i j) eqn:B.
  - destruct e; cbn [drop_err]; apply post_mut; auto; cbn [pure_recv invalid]; fold c; rewrite ?B; auto.
  - apply bad_range_false in B as B'.
    destruct (prim_replace_spec h s i j v W) as (h' & s' & P & W' & C' & _); try (rewrite (zlen_zlength h s W); fold c); try lia.
    rewrite P.
    destruct e; cbn [drop_err lift]; apply post_mut; auto; cbn [pure_recv invalid]; fold c; rewrite ?B; auto.
Qed.

Lemma post_DeleteTo e b i j : Post (MDeleteTo e b i j) h s (bs_call (MDeleteTo e b i j) oc h s).
Proof.
  unfold bs_call. fold c. rewrite (range_bad_spec h s i j W). fold c.
  pose proof (mk_spec h 0 0 (le_n _)) as M. unfold new_empty. destruct (mk h 0 0) as [h1 r1].
  destruct M as (E1 & W1 & F1 & A1 & O1 & L1 & C1 & N1 & LH1).
  assert (R1 : contents h1 r1 = []) by (unfold contents, window; now rewrite L1).
  assert (Fr1 : fresh h r1) by (left; lia).
  assert (Frn : fresh h nil_slice) by (right; reflexivity).
  destruct (bad_range (zlength c) i j) eqn:B.
  - destruct b, e; cbn [drop_err]; unfold ok.
    all: try (apply (post_copy _ h s h1 r1 _ [] W E1 W1 Fr1 R1); cbn [pure_recv pure_result invalid about_cap]; fold c; rewrite ?B; reflexivity).
    all: apply (post_copy _ h s h nil_slice _ [] W (ext_refl h) (wfs_nil h) Frn eq_refl); cbn [pure_recv pure_result invalid about_cap]; fold c; rewrite ?B; reflexivity.
  - destruct (Nat.eqb_spec (len s) 0) as [E0|N0].
    + assert (Cn : c = []).
      { apply length_zero_iff_nil. unfold c. rewrite contents_length by auto. exact E0. }
      assert (Ct : cut c i j = []) by (rewrite (cut_empty c i j Cn); exact Cn).
      destruct b, e; cbn [drop_err]; unfold ok.
      all: try (apply (post_copy _ h s h1 r1 _ [] W E1 W1 Fr1 R1); cbn [pure_recv pure_result invalid about_cap]; fold c; rewrite ?B, ?Ct; reflexivity).
      all: apply (post_copy _ h s h nil_slice _ [] W (ext_refl h) (wfs_nil h) Frn eq_refl); cbn [pure_recv pure_result invalid about_cap]; fold c; rewrite ?B, ?Ct; reflexivity.
    + apply bad_range_false in B as B'.
      pose proof (prim_clone_spec h s oc W) as CL. destruct (prim_clone h s oc) as [h2 cl].
      destruct CL as (E2 & W2 & C2 & Fr2).
      destruct (prim_delete_spec h2 cl i j W2) as (h3 & r & P & W3 & C3 & (SA & SO & SC) & NL & LH3 & Oth3).
      { lia. }
      { unfold zlen. rewrite <- (contents_length h2 cl W2), C2. fold c. unfold zlength in B'. lia. }
      rewrite P.
      assert (E3 : ext h h3).
      { destruct E2 as (EL & EE). split; [lia|]. intros k Hk.
        destruct Fr2 as [Fr|Fr].
        - rewrite Oth3 by lia. now apply EE.
        - (* the clone has no capacity: Delete wrote nothing *)
          rewrite (prim_delete_cap0 h2 cl i j h3 r W2 Fr P). now apply EE. }
      assert (Fr3 : fresh h r) by (destruct Fr2 as [Fr|Fr]; [left; lia|right; lia]).
      assert (C4 : contents h3 r = cut c i j) by (rewrite C3, C2; reflexivity).
      destruct b, e; cbn [drop_err]; unfold ok.
      all: apply (post_copy _ h s h3 r _ (cut c i j) W E3 W3 Fr3 C4); cbn [pure_recv pure_result invalid about_cap]; fold c; rewrite ?B; reflexivity.
Qed.

(* ----- read-only methods ----- *)
Ltac ro := unfold bs_call, ok; fold c; apply post_readonly; auto; try exact Logic.I;
           intros _; cbn [obs_val about_cap abs_val pure_result]; fold c.

Lemma post_EqualFunc es f : Post (MEqualFunc es f) h s (bs_call (MEqualFunc es f) oc h s).
Proof. ro; try (now rewrite equal_go_spec). Qed.
Lemma post_CompareFunc es f : Post (MCompareFunc es f) h s (bs_call (MCompareFunc es f) oc h s).
Proof. ro; try (now rewrite compare_go_spec). Qed.
Lemma post_IndexFunc f : Post (MIndexFunc f) h s (bs_call (MIndexFunc f) oc h s).
Proof. ro; try (now rewrite index_go_0). Qed.
Lemma post_ForEach : Post MForEach h s (bs_call MForEach oc h s).
Proof. ro; try reflexivity. Qed.
Lemma post_IsSortedFunc less : Post (MIsSortedFunc less) h s (bs_call (MIsSortedFunc less) oc h s).
Proof. ro; try (now rewrite is_sorted_loop_spec). Qed.
Lemma post_Marshal : Post MMarshal h s (bs_call MMarshal oc h s).
Proof. ro; try reflexivity. Qed.
Lemma post_Len : Post MLen h s (bs_call MLen oc h s).
Proof. ro; try (now rewrite (zlen_zlength h s W)). Qed.
Lemma post_Cap : Post MCap h s (bs_call MCap oc h s).
Proof. ro. Qed.
Lemma post_ToInterfaceSlice : Post MToInterfaceSlice h s (bs_call MToInterfaceSlice oc h s).
Proof. ro; try reflexivity. Qed.
Lemma post_ToMetaSlice : Post MToMetaSlice h s (bs_call MToMetaSlice oc h s).
Proof.
  unfold bs_call, ok. apply post_readonly; auto. split; [exact W|discriminate].
Qed.
Lemma post_Contains x : Post (MContains x) h s (bs_call (MContains x) oc h s).
Proof. ro; try (now rewrite index_go_0, contains_spec). Qed.
Lemma post_Equal es : Post (MEqual es) h s (bs_call (MEqual es) oc h s).
Proof.
  ro. rewrite equal_go_spec. f_equal. clear. revert es. induction c as [|a t IH]; intros [|b t2]; simpl; auto.
  now rewrite negb_involutive, IH.
Qed.
Lemma post_Compare es : Post (MCompare es) h s (bs_call (MCompare es) oc h s).
Proof. ro; try (now rewrite compare_go_spec). Qed.
Lemma post_IsSorted : Post MIsSorted h s (bs_call MIsSorted oc h s).
Proof. ro; try (now rewrite is_sorted_loop_spec). Qed.
Lemma post_Sum : Post MSum h s (bs_call MSum oc h s).
Proof. ro; try (now rewrite sum_loop_spec). Qed.
Lemma post_Avg : Post MAvg h s (bs_call MAvg oc h s).
Proof. ro; try (now rewrite avg_code_spec). Qed.
Lemma post_Max : Post MMax h s (bs_call MMax oc h s).
Proof. ro; try (now rewrite max_loop_spec). Qed.
Lemma post_Min : Post MMin h s (bs_call MMin oc h s).
Proof. ro; try (now rewrite min_loop_spec). Qed.

Lemma post_BinarySearchFunc t cmp : Post (MBinarySearchFunc t cmp) h s (bs_call (MBinarySearchFunc t cmp) oc h s).
Proof.
  unfold bs_call. fold c. destruct (bsearch cmp t c) as [p f] eqn:E. unfold ok.
  apply post_readonly; auto; try exact Logic.I.
  cbn [search_pre obs_val about_cap abs_val pure_result]. fold c. intros Pre.
  rewrite <- (bsearch_spec cmp t c Pre), E. reflexivity.
Qed.
Lemma post_BinarySearch t : Post (MBinarySearch t) h s (bs_call (MBinarySearch t) oc h s).
Proof.
  unfold bs_call. fold c. destruct (bsearch cmp_code t c) as [p f] eqn:E. unfold ok.
  apply post_readonly; auto; try exact Logic.I.
  cbn [search_pre obs_val about_cap abs_val pure_result]. fold c. intros Pre.
  change cmp_code with cmp_ord in E. rewrite <- (bsearch_spec cmp_ord t c Pre), E. reflexivity.
Qed.

Lemma post_GetByIndex e i : Post (MGetByIndex e i) h s (bs_call (MGetByIndex e i) oc h s).
Proof.
  unfold bs_call, ok. fold c. rewrite (index_bad_spec h s i W). fold c.
  destruct (bad_index (zlength c) i) eqn:B; destruct e; cbn [drop_err];
    apply post_readonly; auto; try exact Logic.I; cbn [invalid]; fold c; rewrite ?B; auto;
    intros _; cbn [obs_val about_cap abs_val pure_result]; fold c; now rewrite B.
Qed.
Lemma post_GetByIndexOrDefault i d : Post (MGetByIndexOrDefault i d) h s (bs_call (MGetByIndexOrDefault i d) oc h s).
Proof.
  unfold bs_call, ok. fold c. rewrite (index_bad_spec h s i W). fold c.
  destruct (bad_index (zlength c) i) eqn:B;
    apply post_readonly; auto; try exact Logic.I;
    intros _; cbn [obs_val about_cap abs_val pure_result]; fold c; now rewrite B.
Qed.

(* ----- in-place writes through the receiver ----- *)
Lemma inplace_write p xs :
  p + length xs <= len s ->
  wfs (wstore h s p xs) s /\ contents (wstore h s p xs) s = write c p xs.
Proof.
  intros Hp. assert (Hlc : len s <= cap s) by (destruct W as (_ & ? & _); auto).
  destruct (wstore_step h s s p xs W) as (W1 & F1); auto.
  split; [exact W1|]. rewrite contents_fullwin by auto. rewrite F1. unfold c. rewrite contents_fullwin by auto.
  pose proof (fullwin_length h s W) as FL.
  pose proof (window_write (fullwin h s) 0 p xs (len s)) as Q. simpl in Q. apply Q; lia.
Qed.

Lemma write_all (l l' : list Z) : length l' = length l -> write l 0 l' = l'.
Proof.
  intros L. apply (nth_ext _ _ 0%Z 0%Z).
  - rewrite length_write; lia.
  - intros k Hk. rewrite nth_write_if by lia. split_ifs; nth_fin.
Qed.
Lemma write_one (l : list Z) i x : i < length l -> write l i [x] = upd l i x.
Proof.
  intros L. apply (nth_ext _ _ 0%Z 0%Z).
  - rewrite length_write, upd_length; simpl; lia.
  - intros k Hk. rewrite nth_write_if by (simpl; lia). autorewrite with nths. simpl length. split_ifs; nth_fin.
Qed.

Lemma Lc : length c = len s.
Proof. apply contents_length. exact W. Qed.

Lemma post_rewrite m l :
  length l = len s -> pure_recv m c = l -> invalid m (zlength c) = false -> copying m = false -> pure_result m c = PNone ->
  Post m h s (ok (wstore h s 0 l) s VNone).
Proof.
  intros L R I C P. destruct (inplace_write 0 l) as (W1 & C1); [lia|].
  unfold ok. apply post_mut; auto. fold c. rewrite C1, R. apply write_all. rewrite Lc. exact L.
Qed.

Lemma post_SortFunc less : Post (MSortFunc less) h s (bs_call (MSortFunc less) oc h s).
Proof. unfold bs_call, sort_in_place. apply post_rewrite; auto. rewrite isort_length. apply Lc. Qed.
Lemma post_SortStableFunc less : Post (MSortStableFunc less) h s (bs_call (MSortStableFunc less) oc h s).
Proof. unfold bs_call, sort_in_place. apply post_rewrite; auto. rewrite isort_length. apply Lc. Qed.
Lemma post_SortComparator cmp : Post (MSortComparator cmp) h s (bs_call (MSortComparator cmp) oc h s).
Proof. unfold bs_call, sort_in_place. apply post_rewrite; auto. rewrite isort_length. apply Lc. Qed.
Lemma post_Sort : Post MSort h s (bs_call MSort oc h s).
Proof. unfold bs_call, sort_in_place. apply post_rewrite; auto. rewrite isort_length. apply Lc. Qed.
Lemma post_Reverse : Post MReverse h s (bs_call MReverse oc h s).
Proof.
  unfold bs_call. fold c. apply post_rewrite; auto.
  - rewrite reverse_loop_length. apply Lc.
  - cbn [pure_recv]. symmetry. apply reverse_loop_spec.
Qed.

Lemma swap_same (l : list Z) i : swap 0%Z l i i = l.
Proof. unfold swap. now rewrite !upd_nth_same. Qed.

Lemma post_Swap i j : Post (MSwap i j) h s (bs_call (MSwap i j) oc h s).
Proof.
  unfold bs_call. fold c.
  assert (Eq : ((i <? 0)%Z || (j <? 0)%Z || (zlen s <=? i)%Z || (zlen s <=? j)%Z)
               = bad_index (zlength c) i || bad_index (zlength c) j).
  { rewrite (zlen_zlength h s W). fold c. unfold bad_index.
    destruct (i <? 0)%Z, (j <? 0)%Z, (zlength c <=? i)%Z, (zlength c <=? j)%Z; reflexivity. }
  rewrite Eq. destruct (bad_index (zlength c) i || bad_index (zlength c) j) eqn:B.
  - cbn [orb]. unfold ok. apply post_mut; auto. cbn [pure_recv]. fold c. now rewrite B.
  - cbn [orb]. destruct (i =? j)%Z eqn:E.
    + unfold ok. apply post_mut; auto. cbn [pure_recv]. fold c. rewrite B.
      apply Z.eqb_eq in E. subst j. now rewrite swap_same.
    + apply post_rewrite; auto.
      * rewrite swap_length. apply Lc.
      * cbn [pure_recv]. now rewrite B.
Qed.

Lemma post_SetByIndex e i x : Post (MSetByIndex e i x) h s (bs_call (MSetByIndex e i x) oc h s).
Proof.
  unfold bs_call. fold c. rewrite (index_bad_spec h s i W). fold c.
  destruct (bad_index (zlength c) i) eqn:B.
  - destruct e; cbn [drop_err]; apply post_mut; auto; cbn [pure_recv invalid]; fold c; rewrite ?B; auto.
  - pose proof (bad_index_false _ _ B) as B'. unfold zlength in B'. rewrite Lc in B'.
    destruct (inplace_write (Z.to_nat i) [x]) as (W1 & C1); [simpl; lia|].
    destruct e; cbn [drop_err]; unfold ok; apply post_mut; auto; cbn [pure_recv invalid]; fold c; rewrite ?B; auto;
      rewrite C1; apply write_one; rewrite Lc; lia.
Qed.

Lemma post_Append v : Post (MAppend v) h s (bs_call (MAppend v) oc h s).
Proof.
  unfold bs_call. pose proof (bs_append_spec h s v oc W) as A. destruct (bs_append h s v oc) as [h1 s1].
  destruct A as (W' & C' & _). unfold ok. apply post_mut; auto.
Qed.

Lemma set_range_extend (l v : list Z) i : length l < i + length v -> set_range l i v = firstn i l ++ v.
Proof. intros H. unfold set_range. rewrite skipn_all2 by lia. now rewrite app_nil_r. Qed.

Lemma post_SetByRange e i v : Post (MSetByRange e i v) h s (bs_call (MSetByRange e i v) oc h s).
Proof.
  unfold bs_call. fold c.
  destruct (i <? 0)%Z eqn:B.
  - destruct e; cbn [drop_err]; apply post_mut; auto; cbn [pure_recv invalid]; fold c; rewrite ?B; auto.
  - assert (Ei : Z.to_nat (if (zlen s <? i)%Z then zlen s else i) = Z.to_nat (Z.min i (zlength c))).
    { rewrite (zlen_zlength h s W). fold c. destruct (Z.ltb_spec (zlength c) i); f_equal; lia. }
    rewrite Ei. set (k := Z.to_nat (Z.min i (zlength c))).
    assert (Hk : k <= len s) by (unfold k, zlength; rewrite Lc; lia).
    assert (Hlc : len s <= cap s) by (destruct W as (_ & ? & _); auto).
    destruct (Nat.ltb_spec (len s) (k + length v)) as [Ov|In].
    + assert (Wk : wfs h (relen s k)) by (apply wfs_relen; auto; lia).
      pose proof (bs_append_spec h (relen s k) v oc Wk) as A. destruct (bs_append h (relen s k) v oc) as [h1 s1].
      destruct A as (W' & C' & _).
      assert (Ck : contents h (relen s k) = firstn k c).
      { rewrite contents_relen by lia. unfold c. rewrite contents_fullwin by auto. rewrite firstn_firstn. f_equal. lia. }
      destruct e; cbn [drop_err]; unfold ok; apply post_mut; auto; cbn [pure_recv invalid]; fold c; rewrite ?B; auto;
        fold k; rewrite C', Ck; symmetry; apply set_range_extend; rewrite Lc; exact Ov.
    + destruct (inplace_write k v In) as (W1 & C1).
      destruct e; cbn [drop_err]; unfold ok; apply post_mut; auto; cbn [pure_recv invalid]; fold c; rewrite ?B; auto.
Qed.

Lemma post_Clear : Post MClear h s (bs_call MClear oc h s).
Proof.
  unfold bs_call, new_empty. pose proof (mk_spec h 0 0 (le_n _)) as M. destruct (mk h 0 0) as [h1 r1].
  destruct M as (E1 & W1 & F1 & A1 & O1 & L1 & C1 & N1 & LH1).
  unfold ok. apply post_mut; auto. unfold contents, window. now rewrite L1.
Qed.

Lemma post_Clip : Post MClip h s (bs_call MClip oc h s).
Proof.
  unfold bs_call, ok. destruct (prim_clip_spec h s W) as (W1 & C1). apply post_mut; auto.
Qed.

(* every real slice is below the allocation limit of the runtime *)
Definition fits (s0 : slice) : Prop := (zcap s0 < alloc_limit)%Z.

Lemma post_Grow e n : fits s -> Post (MGrow e n) h s (bs_call (MGrow e n) oc h s).
Proof.
  intros Fit. unfold fits in Fit. unfold bs_call.
  assert (Hlc : (zlen s <= zcap s)%Z) by (destruct W as (_ & ? & _); unfold zlen, zcap; lia).
  destruct (n <? 0)%Z eqn:B.
  - destruct e; cbn [drop_err]; apply post_mut; auto; cbn [invalid]; rewrite ?B; auto.
  - destruct (Z.ltb_spec 0 (n - (zcap s - zlen s))) as [Need|NoNeed].
    + destruct (Z.leb_spec alloc_limit (zcap s + (n - (zcap s - zlen s)))) as [Big|Ok].
      * rewrite (prim_grow_refused h s n oc) by lia.
        assert (I : ((n <? 0) || (alloc_limit <=? zlength c + n))%Z = true).
        { rewrite B. simpl. unfold c. rewrite <- (zlen_zlength h s W). apply Z.leb_le. lia. }
        destruct e; cbn [drop_err]; apply post_mut; auto; cbn [invalid]; rewrite ?I; auto.
      * destruct (prim_grow_spec h s n oc W) as (h' & s' & P & W' & C'); [lia|right; lia|]. rewrite P.
        assert (I : ((n <? 0) || (alloc_limit <=? zlength c + n))%Z = false).
        { rewrite B. simpl. unfold c. rewrite <- (zlen_zlength h s W). apply Z.leb_gt. lia. }
        destruct e; cbn [drop_err]; unfold ok; apply post_mut; auto; cbn [invalid]; rewrite ?I; auto.
    + destruct (prim_grow_spec h s n oc W) as (h' & s' & P & W' & C'); [lia|left; lia|]. rewrite P.
      assert (I : ((n <? 0) || (alloc_limit <=? zlength c + n))%Z = false).
      { rewrite B. simpl. unfold c. rewrite <- (zlen_zlength h s W). apply Z.leb_gt. lia. }
      destruct e; cbn [drop_err]; unfold ok; apply post_mut; auto; cbn [invalid]; rewrite ?I; auto.
Qed.

Lemma post_CompactFunc f : Post (MCompactFunc f) h s (bs_call (MCompactFunc f) oc h s).
Proof.
  unfold bs_call. pose proof (prim_compact_spec f h s W) as P. destruct (prim_compact f h s) as [h1 s1].
  destruct P as (W1 & C1). unfold ok. apply post_mut; auto.
Qed.
Lemma post_Compact : Post MCompact h s (bs_call MCompact oc h s).
Proof.
  unfold bs_call. pose proof (prim_compact_spec Z.eqb h s W) as P. destruct (prim_compact Z.eqb h s) as [h1 s1].
  destruct P as (W1 & C1). unfold ok. apply post_mut; auto.
Qed.

Lemma post_Filter f : Post (MFilter f) h s (bs_call (MFilter f) oc h s).
Proof.
  unfold bs_call. fold c. pose proof (filter_loop_top f h c oc) as P. destruct (filter_loop f h c oc) as [h1 r].
  destruct P as (E1 & W1 & F1 & C1). unfold ok. apply post_mut; auto.
Qed.

Lemma post_Unmarshal d : Post (MUnmarshal d) h s (bs_call (MUnmarshal d) oc h s).
Proof.
  unfold bs_call.
  assert (P0 : let '(h0, s0) := if isnil s then new_empty h else (h, s) in wfs h0 s0 /\ contents h0 s0 = c).
  { destruct (isnil s) eqn:N; [|split; auto].
    unfold new_empty. pose proof (mk_spec h 0 0 (le_n _)) as M. destruct (mk h 0 0) as [h1 r1].
    destruct M as (E1 & W1 & F1 & A1 & O1 & L1 & C1 & N1 & LH1). split; auto.
    destruct W as (_ & W2 & W3). rewrite W3 in W2 by auto.
    unfold c, contents, window. rewrite L1. replace (len s) with 0 by lia. reflexivity. }
  destruct (if isnil s then new_empty h else (h, s)) as [h0 s1]. destruct P0 as (W1 & C1).
  destruct (prim_clip_spec h0 s1 W1) as (W0 & C0'). set (s0 := prim_clip s1) in *.
  assert (C0 : contents h0 s0 = c) by (rewrite C0'; exact C1).
  destruct d as [l|ds| |].
  - pose proof (unmarshal_arr_spec h0 s0 l oc W0) as U. destruct (unmarshal_arr h0 s0 l oc) as [h1 s2].
    destruct U as (W2 & C2). unfold ok. apply post_mut; auto.
  - pose proof (unmarshal_arr_spec h0 s0 (merge_all (contents h0 s0) ds) oc W0) as U.
    destruct (unmarshal_arr h0 s0 (merge_all (contents h0 s0) ds) oc) as [h1 s2].
    destruct U as (W2 & C2). unfold ok. apply post_mut; auto. rewrite C2, C0. reflexivity.
  - unfold ok. apply post_mut; auto. apply wfs_nil.
  - apply post_mut; auto.
Qed.

(* ----- copying methods ----- *)
Lemma post_Clone b : Post (MClone b) h s (bs_call (MClone b) oc h s).
Proof.
  unfold bs_call. pose proof (prim_clone_spec h s oc W) as P. destruct (prim_clone h s oc) as [h1 r].
  destruct P as (E1 & W1 & C1 & F1). unfold ok. apply (post_copy _ h s h1 r _ c W E1 W1 F1 C1); reflexivity.
Qed.

Lemma post_CopyTo b : Post (MCopyTo b) h s (bs_call (MCopyTo b) oc h s).
Proof.
  unfold bs_call. pose proof (copy_fresh_spec h s W) as P. destruct (copy_fresh h s) as [h1 cp].
  destruct P as (E1 & W1 & C1 & A1 & _). unfold ok.
  apply (post_copy _ h s h1 cp _ c W E1 W1 (or_introl (eq_ind_r (fun n => length h <= n) (le_n _) A1)) C1); reflexivity.
Qed.

Lemma sort_to_post m less :
  pure_recv m c = c -> pure_result m c = PList (isort less c) -> about_cap m = false -> invalid m (zlength c) = false ->
  Post m h s (sort_to less h s).
Proof.
  intros R P A I. unfold sort_to. pose proof (copy_fresh_spec h s W) as Q. destruct (copy_fresh h s) as [h1 cp].
  destruct Q as (E1 & W1 & C1 & A1 & O1 & L1 & Cp1 & N1 & F1 & LH1).
  destruct (rewrite_fresh h h1 cp (isort less (contents h1 cp))) as (E2 & W2 & C2); auto; try lia.
  { rewrite isort_length, C1, L1. apply Lc. }
  unfold ok. apply (post_copy m h s _ cp _ (isort less c) W E2 W2); auto.
  - left. lia.
  - rewrite C2, C1. reflexivity.
Qed.
Lemma post_SortFuncTo b less : Post (MSortFuncTo b less) h s (bs_call (MSortFuncTo b less) oc h s).
Proof. unfold bs_call. apply sort_to_post; reflexivity. Qed.
Lemma post_SortStableFuncTo b less : Post (MSortStableFuncTo b less) h s (bs_call (MSortStableFuncTo b less) oc h s).
Proof. unfold bs_call. apply sort_to_post; reflexivity. Qed.
Lemma post_SortComparatorTo b cmp : Post (MSortComparatorTo b cmp) h s (bs_call (MSortComparatorTo b cmp) oc h s).
Proof. unfold bs_call. apply sort_to_post; reflexivity. Qed.

Lemma post_ReverseTo b : Post (MReverseTo b) h s (bs_call (MReverseTo b) oc h s).
Proof.
  unfold bs_call. pose proof (copy_fresh_spec h s W) as Q. destruct (copy_fresh h s) as [h1 cp].
  destruct Q as (E1 & W1 & C1 & A1 & O1 & L1 & Cp1 & N1 & F1 & LH1).
  destruct (rewrite_fresh h h1 cp (reverse_loop (contents h1 cp))) as (E2 & W2 & C2); auto; try lia.
  { rewrite reverse_loop_length, C1, L1. apply Lc. }
  unfold ok. apply (post_copy _ h s _ cp _ (rev c) W E2 W2); auto.
  - left. lia.
  - rewrite C2, C1. apply reverse_loop_spec.
Qed.

Lemma post_FilterTo b f : Post (MFilterTo b f) h s (bs_call (MFilterTo b f) oc h s).
Proof.
  unfold bs_call. fold c. pose proof (filter_loop_top f h c oc) as P. destruct (filter_loop f h c oc) as [h1 r].
  destruct P as (E1 & W1 & F1 & C1). unfold ok. apply (post_copy _ h s h1 r _ (filter f c) W E1 W1 F1 C1); reflexivity.
Qed.

Lemma post_AppendTo b v : Post (MAppendTo b v) h s (bs_call (MAppendTo b v) oc h s).
Proof.
  unfold bs_call. pose proof (copy_fresh_spec h s W) as Q. destruct (copy_fresh h s) as [h1 cp].
  destruct Q as (E1 & W1 & C1 & A1 & O1 & L1 & Cp1 & N1 & F1 & LH1).
  pose proof (bs_append_spec h1 cp v oc W1) as A. destruct (bs_append h1 cp v oc) as [h2 r].
  destruct A as (W2 & C2 & LH2 & Oth & Cases). unfold ok.
  assert (E2 : ext h h2).
  { destruct Cases as [(_ & _ & _ & _ & _ & LHe)|(_ & E' & _)]; [|eapply ext_trans; eauto].
    destruct E1 as (EL & EE). split; [lia|]. intros k Hk. rewrite Oth by lia. now apply EE. }
  assert (Fr : fresh h r).
  { left. destruct Cases as [(_ & (SA & _) & _)|(_ & _ & Ar & _)]; lia. }
  apply (post_copy _ h s h2 r _ (c ++ v) W E2 W2 Fr); auto. rewrite C2, C1. reflexivity.
Qed.

Lemma post_GetByRange e i j : Post (MGetByRange e i j) h s (bs_call (MGetByRange e i j) oc h s).
Proof.
  unfold bs_call. fold c. rewrite (range_bad_spec h s i j W). fold c.
  assert (Frn : fresh h nil_slice) by (right; reflexivity).
  destruct (bad_range (zlength c) i j) eqn:B.
  - destruct e; cbn [drop_err];
      apply (post_copy _ h s h nil_slice _ [] W (ext_refl h) (wfs_nil h) Frn eq_refl);
      cbn [pure_recv pure_result invalid about_cap]; fold c; rewrite ?B; reflexivity.
  - pose proof (bad_range_false _ _ _ B) as B'. unfold zlength in B'. rewrite Lc in B'.
    destruct (isnil s) eqn:Nl.
    { assert (L0 : len s = 0) by (destruct W as (_ & W2 & W3); rewrite W3 in W2 by auto; lia).
      assert (Sb : sub c i j = []).
      { unfold sub. replace (Z.to_nat j - Z.to_nat i)%nat with 0%nat by lia. reflexivity. }
      destruct e; cbn [drop_err]; unfold ok;
        apply (post_copy _ h s h nil_slice _ [] W (ext_refl h) (wfs_nil h) Frn eq_refl);
        cbn [pure_recv pure_result invalid about_cap]; fold c; rewrite ?B, ?Sb; reflexivity. }
    set (n := Z.to_nat j - Z.to_nat i).
    pose proof (mk_spec h n n (le_n _)) as M. destruct (mk h n n) as [h1 cp].
    destruct M as (E1 & W1 & F1 & A1 & O1 & L1 & C1 & N1 & LH1).
    destruct (rewrite_fresh h h1 cp (firstn n (skipn (Z.to_nat i) c))) as (E2 & W2 & C2); auto; try lia.
    { len_simp. rewrite Lc. lia. }
    assert (Fr : fresh h cp) by (left; lia).
    destruct e; cbn [drop_err]; unfold ok;
      apply (post_copy _ h s _ cp _ (sub c i j) W E2 W2 Fr C2);
      cbn [pure_recv pure_result invalid about_cap]; fold c; rewrite ?B; reflexivity.
Qed.
End Methods.

(* ---------- all methods ---------- *)
Theorem bs_call_post m oc h s : wfs h s -> fits s -> Post m h s (bs_call m oc h s).
Proof.
  intros W Fit. destruct m.
  - apply post_EqualFunc; auto.
  - apply post_CompareFunc; auto.
  - apply post_IndexFunc; auto.
  - apply post_Insert; auto.
  - apply post_Delete; auto.
  - apply post_DeleteTo; auto.
  - apply post_Replace; auto.
  - apply post_Clone; auto.
  - apply post_CompactFunc; auto.
  - apply post_Grow; auto.
  - apply post_Clip; auto.
  - apply post_ForEach; auto.
  - apply post_SortFunc; auto.
  - apply post_SortFuncTo; auto.
  - apply post_SortComparator; auto.
  - apply post_SortComparatorTo; auto.
  - apply post_SortStableFunc; auto.
  - apply post_SortStableFuncTo; auto.
  - apply post_IsSortedFunc; auto.
  - apply post_BinarySearchFunc; auto.
  - apply post_Filter; auto.
  - apply post_FilterTo; auto.
  - apply post_Reverse; auto.
  - apply post_ReverseTo; auto.
  - apply post_Marshal; auto.
  - apply post_Unmarshal; auto.
  - apply post_Len; auto.
  - apply post_Cap; auto.
  - apply post_ToInterfaceSlice; auto.
  - apply post_ToMetaSlice; auto.
  - apply post_Swap; auto.
  - apply post_Clear; auto.
  - apply post_Append; auto.
  - apply post_AppendTo; auto.
  - apply post_CopyTo; auto.
  - apply post_GetByIndex; auto.
  - apply post_GetByIndexOrDefault; auto.
  - apply post_GetByRange; auto.
  - apply post_SetByIndex; auto.
  - apply post_SetByRange; auto.
  - apply post_Contains; auto.
  - apply post_Equal; auto.
  - apply post_Compact; auto.
  - apply post_Compare; auto.
  - apply post_Sort; auto.
  - apply post_IsSorted; auto.
  - apply post_BinarySearch; auto.
  - apply post_Sum; auto.
  - apply post_Avg; auto.
  - apply post_Max; auto.
  - apply post_Min; auto.
Qed.
