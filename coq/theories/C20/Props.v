(* C20 property theorems. Nothing but statements closed by [exact] and Print Assumptions. *)
From VF Require Import C20.Model C20.Proofs C20.Check C20.Uniform.
Local Open Scope Z_scope.

(* every bounded generator returns a value in [0, n) for every n > 0, every draw stream and every
   amount of fuel; the non-Ok outcomes are Panic (exactly for n <= 0) and Starved (stream exhausted) *)
Theorem C20_int31n_range : forall fuel n s v s',
  src_ok s -> int31n fuel n s = Ok v s' -> 0 < n /\ 0 <= v < n /\ src_ok s'.
Proof. exact int31n_range. Qed.
Theorem C20_int63n_range : forall fuel n s v s',
  src_ok s -> int63n fuel n s = Ok v s' -> 0 < n /\ 0 <= v < n /\ src_ok s'.
Proof. exact int63n_range. Qed.
Theorem C20_intn_range : forall fuel n s v s',
  src_ok s -> intn fuel n s = Ok v s' -> 0 < n /\ 0 <= v < n /\ src_ok s'.
Proof. exact intn_range. Qed.
Theorem C20_uint32n_range : forall n s v s',
  src_ok s -> 0 < n -> uint32n n s = Ok v s' -> 0 <= v < n /\ src_ok s'.
Proof. exact uint32n_range. Qed.
Theorem C20_uint64n_range : forall n s v s',
  src_ok s -> uint64n n s = Ok v s' -> 0 <= n -> 0 < n /\ 0 <= v < n.
Proof. exact uint64n_range. Qed.
Theorem C20_panic_iff_nonpositive : forall fuel n s,
  (int31n fuel n s = Panic <-> n <= 0) /\ (int63n fuel n s = Panic <-> n <= 0) /\ (intn fuel n s = Panic <-> n <= 0).
Proof. intros; split; [apply int31n_panic|split; [apply int63n_panic|apply intn_panic]]. Qed.
Theorem C20_nonneg : forall s v s', src_ok s ->
  (int31 s = Ok v s' -> 0 <= v < M31) /\ (int63 s = Ok v s' -> 0 <= v < M63) /\ (int_ s = Ok v s' -> 0 <= v < M63).
Proof.
  intros s v s' Hs. split; [|split]; intros H;
  [apply int31_range in H|apply int63_range in H|apply int_range in H]; tauto.
Qed.
Theorem C20_float32_unit : forall fuel s k s', src_ok s -> float32_num fuel s = Ok k s' -> 0 <= k < 2 ^ 24.
Proof. exact float32_range. Qed.
Theorem C20_float64_unit : forall fuel s k s', src_ok s -> float64_num fuel s = Ok k s' -> 0 <= k < 2 ^ 53.
Proof. exact float64_range. Qed.
Theorem C20_perm : forall fuel n s r s',
  src_ok s -> perm fuel n s = Ok r s' -> 0 <= n /\ Permutation r (map Z.of_nat (seq 0 (Z.to_nat n))).
Proof. exact perm_ok. Qed.
Theorem C20_shuffle_indexes : forall fuel n s sw s',
  src_ok s -> shuffle fuel n s = Ok sw s' ->
  0 <= n /\ Forall (fun ij => 0 <= snd ij <= fst ij /\ fst ij < n) sw.
Proof. exact shuffle_idx. Qed.
Theorem C20_shuffle_permutes : forall (A : Type) (d : A) n sw l,
  Z.of_nat (length l) = n -> Forall (fun ij => 0 <= snd ij <= fst ij /\ fst ij < n) sw ->
  Permutation (apply_swaps d l sw) l /\ length (apply_swaps d l sw) = length l.
Proof. exact @apply_swaps_perm. Qed.
Theorem C20_read_exact : forall buf off len s b' s',
  (off + len <= length buf)%nat -> read buf off len s = Ok b' s' ->
  length b' = length buf /\ outside off len b' = outside off len buf.
Proof. exact read_exact. Qed.
Theorem C20_perm_checker_sound : forall n l, is_perm_b n l = true -> Permutation l (map Z.of_nat (seq 0 n)).
Proof. exact is_perm_b_ok. Qed.


(* Uniformity. Uint32n: the draws v mapped to residue r by (v*n) >> 32 are exactly one interval whose length is
   floor(2^32/n) or ceil(2^32/n): residues are hit as evenly as 2^32 draws allow. Int31n: a draw is accepted iff
   2^32 mod n <= (v*n) mod 2^32 (this IS the code's test, C20_int31n_first_draw), and the accepted draws of residue r
   are exactly one interval of floor(2^32/n) values: every residue is equally likely for a uniform source. *)
Theorem C20_uint32n_preimage : forall n v r, 0 < n -> 0 <= v ->
  ((v * n) / M32 = r <-> cdiv (r * M32) n <= v < cdiv ((r + 1) * M32) n).
Proof. exact mulshift_preimage. Qed.
Theorem C20_uint32n_even : forall n r, 0 < n -> 0 <= r ->
  M32 / n <= cdiv ((r + 1) * M32) n - cdiv (r * M32) n <= M32 / n + 1.
Proof. exact interval_len. Qed.
Theorem C20_int31n_first_draw : forall fuel n s v s', 0 < n < M32 -> 0 <= v -> uint32 s = Ok v s' ->
  int31n fuel n s =
  if M32 mod n <=? (v * n) mod M32 then Ok ((v * n) / M32) s' else int31n_loop fuel n (M32 mod n) s'.
Proof. exact int31n_first_draw. Qed.
Theorem C20_int31n_accepted_preimage : forall n v r, 0 < n -> 0 <= v -> 0 <= r ->
  ((v * n) / M32 = r /\ M32 mod n <= (v * n) mod M32) <-> cdiv (r * M32 + M32 mod n) n <= v < cdiv ((r + 1) * M32) n.
Proof. exact accepted_preimage. Qed.
Theorem C20_int31n_exactly_uniform : forall n r, 0 < n -> 0 <= r ->
  cdiv ((r + 1) * M32) n - cdiv (r * M32 + M32 mod n) n = M32 / n.
Proof. exact accepted_len. Qed.

(* non-vacuity: a concrete stream on which each function returns Ok *)
Example C20_nonvacuous :
  let s := {| vs := [4000000000; 17; 123456789; 99; 3000000000; 5; 6; 7]; rs := [1; 2; 3; 4; 5; 6] |} in
  src_ok s /\ (exists v s', int31n 8 10 s = Ok v s') /\ (exists v s', int63n 8 1000003 s = Ok v s')
  /\ (exists v s', perm 8 5 s = Ok v s') /\ (exists v s', read (repeat 0 20) 3 13 s = Ok v s').
Proof.
  cbv zeta. split; [split; repeat constructor; cbv; intuition discriminate|].
  repeat split; eexists; eexists; vm_compute; reflexivity.
Qed.

Print Assumptions C20_int31n_range.
Print Assumptions C20_int63n_range.
Print Assumptions C20_intn_range.
Print Assumptions C20_uint32n_range.
Print Assumptions C20_uint64n_range.
Print Assumptions C20_panic_iff_nonpositive.
Print Assumptions C20_nonneg.
Print Assumptions C20_float32_unit.
Print Assumptions C20_float64_unit.
Print Assumptions C20_perm.
Print Assumptions C20_shuffle_indexes.
Print Assumptions C20_shuffle_permutes.
Print Assumptions C20_read_exact.
Print Assumptions C20_perm_checker_sound.
Print Assumptions C20_uint32n_preimage.
Print Assumptions C20_uint32n_even.
Print Assumptions C20_int31n_first_draw.
Print Assumptions C20_int31n_accepted_preimage.
Print Assumptions C20_int31n_exactly_uniform.
