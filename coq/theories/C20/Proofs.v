From VF Require Import C20.Model.
Local Open Scope Z_scope.

Definition draws_ok (l : list Z) := Forall (fun d => 0 <= d < M32) l.
Definition src_ok (s : src) := draws_ok (vs s) /\ draws_ok (rs s).

Lemma M32_pos : 0 < M32. Proof. reflexivity. Qed.
Lemma M64_eq : M64 = M32 * M32. Proof. reflexivity. Qed.
Lemma M63_pos : 0 < M63. Proof. reflexivity. Qed.
Lemma M63_M64 : M64 = 2 * M63. Proof. reflexivity. Qed.
Lemma M31_pos : 0 < M31. Proof. reflexivity. Qed.
Lemma M31_lt_M32 : M31 < M32. Proof. reflexivity. Qed.
Global Opaque M32 M64 M63 M31.

Lemma uint32_ok s v s' : src_ok s -> uint32 s = Ok v s' -> 0 <= v < M32 /\ src_ok s'.
Proof.
  unfold uint32, src_ok. intros [Hv Hr]. destruct (vs s) as [|d t] eqn:E; [discriminate|].
  intros H; inversion H; subst; simpl. inversion Hv; subst. auto.
Qed.

Lemma uint64_ok s v s' : src_ok s -> uint64 s = Ok v s' -> 0 <= v < M64 /\ src_ok s'.
Proof.
  unfold uint64, src_ok. intros [Hv Hr]. destruct (rs s) as [|hi [|lo t]] eqn:E; try discriminate.
  intros H; inversion H; subst; simpl. inversion Hr as [|? ? Hhi Hr']; subst. inversion Hr' as [|? ? Hlo Hr'']; subst.
  rewrite M64_eq. pose proof M32_pos. split; [nia|auto].
Qed.

(* generic inversion for bind *)
Lemma bind_ok {A B} (r : res A) (f : A -> src -> res B) v s :
  bind r f = Ok v s -> exists a s0, r = Ok a s0 /\ f a s0 = Ok v s.
Proof. destruct r; simpl; try discriminate. eauto. Qed.

Lemma land_disjoint a b : Z.land (Z.ldiff a b) (Z.land a b) = 0.
Proof.
  apply Z.bits_inj'. intros k Hk. rewrite !Z.land_spec, Z.ldiff_spec, Z.bits_0.
  destruct (Z.testbit a k), (Z.testbit b k); reflexivity.
Qed.

Lemma land_le_l a b : 0 <= a -> Z.land a b <= a.
Proof.
  intros Ha.
  assert (E : a = Z.ldiff a b + Z.land a b).
  { rewrite <- (Z.lor_ldiff_and a b) at 1. rewrite <- Z.lxor_lor by apply land_disjoint.
    symmetry. apply Z.add_nocarry_lxor. apply land_disjoint. }
  assert (0 <= Z.ldiff a b) by (apply Z.ldiff_nonneg; auto). lia.
Qed.

Lemma land_mask_range u m : 0 <= m -> 0 <= Z.land u m <= m.
Proof.
  intros Hm. split; [apply Z.land_nonneg; auto|]. rewrite Z.land_comm. now apply land_le_l.
Qed.

Lemma int31_range s v s' : src_ok s -> int31 s = Ok v s' -> 0 <= v < M31 /\ src_ok s'.
Proof.
  unfold int31. intros Hs H. apply bind_ok in H as (u & s0 & E & H). inversion H; subst.
  destruct (uint32_ok _ _ _ Hs E) as [_ Hs']. split; auto.
  pose proof M31_pos. pose proof (land_mask_range u (M31 - 1)). lia.
Qed.

Lemma int63_range s v s' : src_ok s -> int63 s = Ok v s' -> 0 <= v < M63 /\ src_ok s'.
Proof.
  unfold int63. intros Hs H. apply bind_ok in H as (u & s0 & E & H). inversion H; subst.
  destruct (uint64_ok _ _ _ Hs E) as [_ Hs']. split; auto.
  pose proof M63_pos. pose proof (land_mask_range u (M63 - 1)). lia.
Qed.

Lemma int_range s v s' : src_ok s -> int_ s = Ok v s' -> 0 <= v < M63 /\ src_ok s'.
Proof.
  unfold int_. intros Hs H. apply bind_ok in H as (u & s0 & E & H). inversion H; subst.
  destruct (int63_range _ _ _ Hs E) as [Hu Hs']. split; auto.
  rewrite M63_M64. rewrite Z.mod_small by lia. rewrite Z.div_mul by lia. exact Hu.
Qed.

Lemma mulshift_range v n : 0 <= v < M32 -> 0 < n -> 0 <= (v * n) / M32 < n.
Proof.
  intros Hv Hn. pose proof M32_pos. split.
  - apply Z.div_pos; [apply Z.mul_nonneg_nonneg; lia|lia].
  - apply Z.div_lt_upper_bound; [lia|]. rewrite (Z.mul_comm M32 n), (Z.mul_comm v n).
    apply Z.mul_lt_mono_pos_l; lia.
Qed.

Lemma int31n_loop_range fuel n thresh : forall s v s',
  src_ok s -> 0 < n -> int31n_loop fuel n thresh s = Ok v s' -> 0 <= v < n /\ src_ok s'.
Proof.
  induction fuel as [|f IH]; intros s v s' Hs Hn H; [discriminate|].
  cbn [int31n_loop] in H. apply bind_ok in H as (u & s0 & E & H).
  destruct (uint32_ok _ _ _ Hs E) as [Hu Hs0].
  destruct (u * n mod M32 <? thresh).
  - eapply IH; eauto.
  - inversion H; subst. split; auto. now apply mulshift_range.
Qed.

Lemma int31n_range fuel n s v s' :
  src_ok s -> int31n fuel n s = Ok v s' -> 0 < n /\ 0 <= v < n /\ src_ok s'.
Proof.
  intros Hs H. unfold int31n in H. destruct (Z.leb_spec n 0) as [|Hn]; [discriminate|].
  split; [lia|]. apply bind_ok in H as (u & s0 & E & H).
  destruct (uint32_ok _ _ _ Hs E) as [Hu Hs0].
  destruct (u * n mod M32 <? n).
  - destruct (u * n mod M32 <? ((M32 - n) mod M32) mod n).
    + eapply int31n_loop_range; eauto.
    + inversion H; subst. split; auto. now apply mulshift_range.
  - inversion H; subst. split; auto. now apply mulshift_range.
Qed.

Lemma uint32_no_panic s : uint32 s <> Panic.
Proof. unfold uint32. destruct (vs s); discriminate. Qed.
Lemma uint64_no_panic s : uint64 s <> Panic.
Proof. unfold uint64. destruct (rs s) as [|? [|? ?]]; discriminate. Qed.
Lemma int63_no_panic s : int63 s <> Panic.
Proof. unfold int63. pose proof (uint64_no_panic s). destruct (uint64 s); cbn [bind]; congruence. Qed.

Lemma int31n_loop_no_panic n fuel : forall th s, int31n_loop fuel n th s <> Panic.
Proof.
  induction fuel as [|f IH]; intros th s; cbn [int31n_loop]; [discriminate|].
  pose proof (uint32_no_panic s). destruct (uint32 s) as [u s1| |]; cbn [bind]; try congruence.
  destruct (u * n mod M32 <? th); [apply IH|discriminate].
Qed.

Lemma int31n_panic fuel n s : int31n fuel n s = Panic <-> n <= 0.
Proof.
  unfold int31n. destruct (Z.leb_spec n 0) as [Hn|Hn]; [tauto|]. split; [|lia].
  intros H. exfalso. pose proof (uint32_no_panic s).
  destruct (uint32 s) as [u s0| |] eqn:E; cbn [bind] in H; try congruence.
  destruct (u * n mod M32 <? n); try discriminate.
  destruct (u * n mod M32 <? ((M32 - n) mod M32) mod n); try discriminate.
  eapply int31n_loop_no_panic; eauto.
Qed.

Lemma uint32n_range n s v s' : src_ok s -> 0 < n -> uint32n n s = Ok v s' -> 0 <= v < n /\ src_ok s'.
Proof.
  intros Hs Hn H. unfold uint32n in H. apply bind_ok in H as (u & s0 & E & H).
  destruct (uint32_ok _ _ _ Hs E) as [Hu Hs0]. inversion H; subst. split; auto. now apply mulshift_range.
Qed.

Lemma int63n_loop_range fuel n mx : forall s v s',
  src_ok s -> 0 < n -> int63n_loop fuel n mx s = Ok v s' -> 0 <= v < n /\ src_ok s'.
Proof.
  induction fuel as [|f IH]; intros s v s' Hs Hn H; [discriminate|].
  cbn [int63n_loop] in H. apply bind_ok in H as (u & s0 & E & H).
  destruct (int63_range _ _ _ Hs E) as [Hu Hs0].
  destruct (mx <? u); [eauto|]. inversion H; subst. split; auto. apply Z.mod_pos_bound. lia.
Qed.

Lemma int63n_range fuel n s v s' :
  src_ok s -> int63n fuel n s = Ok v s' -> 0 < n /\ 0 <= v < n /\ src_ok s'.
Proof.
  intros Hs H. unfold int63n in H. destruct (Z.leb_spec n 0) as [|Hn]; [discriminate|].
  split; [lia|]. destruct (Z.land n (n - 1) =? 0).
  - apply bind_ok in H as (u & s0 & E & H). destruct (int63_range _ _ _ Hs E) as [Hu Hs0].
    inversion H; subst. split; auto. pose proof (land_mask_range u (n - 1)). lia.
  - eapply int63n_loop_range; eauto.
Qed.

Lemma int63n_loop_no_panic n fuel : forall mx s, int63n_loop fuel n mx s <> Panic.
Proof.
  induction fuel as [|f IH]; intros mx s; cbn [int63n_loop]; [discriminate|].
  pose proof (int63_no_panic s). destruct (int63 s) as [u s1| |]; cbn [bind]; try congruence.
  destruct (mx <? u); [apply IH|discriminate].
Qed.

Lemma int63n_panic fuel n s : int63n fuel n s = Panic <-> n <= 0.
Proof.
  unfold int63n. destruct (Z.leb_spec n 0) as [Hn|Hn]; [tauto|]. split; [|lia].
  intros H. exfalso. destruct (Z.land n (n - 1) =? 0).
  - pose proof (int63_no_panic s). destruct (int63 s); cbn [bind] in H; congruence.
  - eapply int63n_loop_no_panic; eauto.
Qed.

Lemma intn_range fuel n s v s' :
  src_ok s -> intn fuel n s = Ok v s' -> 0 < n /\ 0 <= v < n /\ src_ok s'.
Proof.
  intros Hs H. unfold intn in H. destruct (Z.leb_spec n 0) as [|Hn]; [discriminate|].
  destruct (n <=? M31 - 1); [eapply int31n_range|eapply int63n_range]; eauto.
Qed.

Lemma intn_panic fuel n s : intn fuel n s = Panic <-> n <= 0.
Proof.
  unfold intn. destruct (Z.leb_spec n 0) as [Hn|Hn]; [tauto|].
  destruct (n <=? M31 - 1); [rewrite int31n_panic|rewrite int63n_panic]; tauto.
Qed.

Lemma uint64n_range n s v s' : src_ok s -> uint64n n s = Ok v s' -> 0 <= n -> 0 < n /\ 0 <= v < n.
Proof.
  intros Hs H Hn0. unfold uint64n in H. destruct (Z.eqb_spec n 0); [discriminate|].
  apply bind_ok in H as (u & s0 & E & H). inversion H; subst. split; [lia|]. apply Z.mod_pos_bound. lia.
Qed.

(* floats: numerator k with value k / 2^24 (resp. 2^53) *)
Lemma float32_range fuel s k s' : src_ok s -> float32_num fuel s = Ok k s' -> 0 <= k < 2 ^ 24.
Proof. intros Hs H. apply int31n_range in H; tauto. Qed.
Lemma float64_range fuel s k s' : src_ok s -> float64_num fuel s = Ok k s' -> 0 <= k < 2 ^ 53.
Proof. intros Hs H. apply int63n_range in H; tauto. Qed.

(* ---- Shuffle ---- *)
Lemma shuffle_loop_idx fuel : forall k i s sw s',
  src_ok s -> shuffle_loop fuel k i s = Ok sw s' ->
  Forall (fun ij => 0 <= snd ij <= fst ij /\ fst ij <= i) sw /\ src_ok s'.
Proof.
  induction k as [|k IH]; intros i s sw s' Hs H; cbn [shuffle_loop] in H.
  - inversion H; subst; auto.
  - destruct (Z.leb_spec i 0) as [|Hi]; [inversion H; subst; auto|].
    apply bind_ok in H as (j & s0 & Ej & H). apply bind_ok in H as (rest & s1 & Er & H).
    inversion H; subst.
    assert (Hj : 0 <= j < i + 1 /\ src_ok s0).
    { destruct (i >? M31 - 2); [apply int63n_range in Ej|apply int31n_range in Ej]; tauto. }
    destruct Hj as [Hj Hs0]. destruct (IH _ _ _ _ Hs0 Er) as [Hr Hs1]. split; auto.
    constructor; [simpl; lia|]. eapply Forall_impl; [|exact Hr]. simpl. intros [a b]; simpl; lia.
Qed.

Lemma shuffle_idx fuel n s sw s' :
  src_ok s -> shuffle fuel n s = Ok sw s' ->
  0 <= n /\ Forall (fun ij => 0 <= snd ij <= fst ij /\ fst ij < n) sw.
Proof.
  intros Hs H. unfold shuffle in H. destruct (Z.ltb_spec n 0); [discriminate|]. split; [lia|].
  apply shuffle_loop_idx in H as [H _]; auto. eapply Forall_impl; [|exact H]. intros [a b]; simpl; lia.
Qed.

Lemma apply_swaps_perm {A} (d : A) n sw : forall l,
  Z.of_nat (length l) = n ->
  Forall (fun ij => 0 <= snd ij <= fst ij /\ fst ij < n) sw ->
  Permutation (apply_swaps d l sw) l /\ length (apply_swaps d l sw) = length l.
Proof.
  unfold apply_swaps. induction sw as [|[i j] sw IH]; intros l Hl Hsw; simpl; [split; reflexivity|].
  inversion Hsw as [|? ? Hij Hsw']; subst. simpl in Hij.
  destruct (IH (swap d l (Z.to_nat i) (Z.to_nat j))) as [P L]; auto.
  - rewrite swap_length; auto.
  - rewrite swap_length in L. split; auto. eapply perm_trans; [exact P|]. apply swap_perm; lia.
Qed.

(* ---- Perm (inside-out Fisher-Yates) ---- *)
Local Open Scope nat_scope.
Definition PermInv (i : nat) (m : list Z) :=
  Permutation (firstn i m) (map Z.of_nat (seq 0 i)) /\ i <= length m.

Lemma firstn_upd_ge {A} (l : list A) i j x : i <= j -> firstn i (upd l j x) = firstn i l.
Proof.
  revert i j; induction l as [|a l IH]; intros [|i] [|j] H; simpl; auto; try lia. f_equal. apply IH. lia.
Qed.

Lemma firstn_upd_lt {A} (l : list A) i j x : j < i -> firstn i (upd l j x) = upd (firstn i l) j x.
Proof.
  revert i j; induction l as [|a l IH]; intros [|i] [|j] H; simpl; auto; try lia. f_equal. apply IH. lia.
Qed.

Lemma firstn_S_nth {A} (l : list A) i d : i < length l -> firstn (S i) l = firstn i l ++ [nth i l d].
Proof.
  revert i; induction l as [|a l IH]; intros [|i] H; simpl in *; try lia; auto. f_equal. apply IH. lia.
Qed.

Lemma nth_firstn_lt {A} (l : list A) i j d : j < i -> nth j (firstn i l) d = nth j l d.
Proof.
  revert i j; induction l as [|a l IH]; intros [|i] [|j] H; simpl; auto; try lia. apply IH. lia.
Qed.

Lemma perm_step i j m :
  PermInv i m -> i < length m -> j <= i ->
  PermInv (S i) (upd (upd m i (nth j m 0%Z)) j (Z.of_nat i)).
Proof.
  intros [P L] Hi Hj. split; [|rewrite !upd_length; lia].
  rewrite seq_S, map_app. cbn [map]. rewrite Nat.add_0_l.
  destruct (Nat.eq_dec j i) as [->|Hne].
  - (* j = i: m[i] = m[i]; m[i] = i *)
    rewrite (firstn_S_nth _ i 0%Z) by (rewrite !upd_length; lia).
    rewrite nth_upd_same by (rewrite upd_length; lia).
    rewrite !firstn_upd_ge by lia. now apply Permutation_app_tail.
  - assert (Hlt : j < i) by lia.
    rewrite (firstn_S_nth _ i 0%Z) by (rewrite !upd_length; lia).
    rewrite nth_upd_other by lia. rewrite nth_upd_same by lia.
    rewrite firstn_upd_lt by lia. rewrite firstn_upd_ge by lia.
    rewrite <- (nth_firstn_lt m i j 0%Z) by lia.
    eapply perm_trans.
    { apply upd_perm_app. rewrite firstn_length. lia. }
    eapply perm_trans; [apply Permutation_cons_append|]. now apply Permutation_app_tail.
Qed.

Lemma perm_loop_ok fuel : forall k i m s r s',
  src_ok s -> PermInv i m -> i + k = length m -> 1 <= i ->
  perm_loop fuel k i m s = Ok r s' -> Permutation r (map Z.of_nat (seq 0 (length m))).
Proof.
  induction k as [|k IH]; intros i m s r s' Hs Hinv Hk Hi H; cbn [perm_loop] in H.
  - inversion H; subst. destruct Hinv as [P L]. replace i with (length r) in P by lia.
    now rewrite firstn_all in P.
  - apply bind_ok in H as (j & s0 & Ej & H). apply intn_range in Ej as (_ & Hj & Hs0); auto.
    pose proof (perm_step i (Z.to_nat j) m Hinv ltac:(lia) ltac:(lia)) as Hinv'.
    eapply IH in H; eauto; rewrite ?upd_length in *; auto; lia.
Qed.

Lemma perm_ok fuel n s r s' :
  src_ok s -> perm fuel n s = Ok r s' ->
  (0 <= n)%Z /\ Permutation r (map Z.of_nat (seq 0 (Z.to_nat n))).
Proof.
  intros Hs H. unfold perm in H. destruct (Z.ltb_spec n 0); [discriminate|]. split; [lia|].
  remember (Z.to_nat n) as nn. destruct nn as [|nn].
  - simpl in H. inversion H; subst. constructor.
  - destruct nn as [|nn].
    + simpl in H. inversion H; subst. simpl. repeat constructor.
    + eapply perm_loop_ok in H; eauto.
      * now rewrite repeat_length in H.
      * split; [simpl; repeat constructor|rewrite repeat_length; lia].
      * rewrite repeat_length. lia.
Qed.

Lemma perm_panic fuel n s : (n < 0)%Z -> perm fuel n s = Panic.
Proof. intros H. unfold perm. destruct (Z.ltb_spec n 0); [reflexivity|lia]. Qed.

(* ---- Read ---- *)
Definition outside (off len : nat) (b : list Z) : list Z * list Z := (firstn off b, skipn (off + len) b).

Lemma firstn_upd_ge' {A} (l : list A) i j x : i <= j -> firstn i (upd l j x) = firstn i l.
Proof. apply firstn_upd_ge. Qed.

Lemma skipn_upd_lt {A} (l : list A) i j x : j < i -> skipn i (upd l j x) = skipn i l.
Proof.
  revert i j; induction l as [|a l IH]; intros [|i] [|j] H; simpl; auto; try lia. apply IH. lia.
Qed.

Lemma store_le_outside buf : forall k pos w lo hi,
  lo <= pos -> pos + k <= hi ->
  length (store_le buf pos w k) = length buf /\
  firstn lo (store_le buf pos w k) = firstn lo buf /\ skipn hi (store_le buf pos w k) = skipn hi buf.
Proof.
  intros k; revert buf. induction k as [|k IH]; intros buf pos w lo hi H1 H2; simpl; [auto|].
  destruct (IH (upd buf pos (w mod 256)%Z) (S pos) (w / 256)%Z lo hi) as (L & F & S); try lia.
  rewrite L, F, S, upd_length, firstn_upd_ge, skipn_upd_lt by lia. auto.
Qed.

Lemma read_words_outside : forall nw r buf pos lo hi r' b',
  lo <= pos -> pos + 8 * nw <= hi -> read_words nw r buf pos = (r', b') ->
  length b' = length buf /\ firstn lo b' = firstn lo buf /\ skipn hi b' = skipn hi buf.
Proof.
  induction nw as [|k IH]; intros r buf pos lo hi r' b' H1 H2 H; cbn [read_words] in H.
  - inversion H; subst; auto.
  - destruct (wy_next r) as [r1 w] eqn:Ew.
    apply IH with (lo:=lo) (hi:=hi) in H; try lia.
    destruct (store_le_outside buf 8 pos w lo hi) as (L & F & S); try lia.
    destruct H as (L' & F' & S'). rewrite L', F', S'. auto.
Qed.

Lemma read_tail_outside : forall l r buf endpos lo,
  lo + l <= endpos ->
  length (read_tail l r buf endpos) = length buf /\
  firstn lo (read_tail l r buf endpos) = firstn lo buf /\
  skipn endpos (read_tail l r buf endpos) = skipn endpos buf.
Proof.
  induction l as [|l IH]; intros r buf endpos lo H; cbn [read_tail]; [auto|].
  destruct (wy_next r) as [r1 w] eqn:Ew.
  destruct (IH r1 (upd buf (endpos - S l) ((w / 2 ^ (Z.of_nat (S l) * 8)) mod 256)%Z) endpos lo) as (L & F & S); try lia.
  rewrite L, F, S, upd_length, firstn_upd_ge, skipn_upd_lt by lia. auto.
Qed.

Lemma read_exact buf off len s b' s' :
  off + len <= length buf -> read buf off len s = Ok b' s' ->
  length b' = length buf /\ outside off len b' = outside off len buf.
Proof.
  intros Hb H. unfold read in H. destruct (Nat.eqb_spec len 0) as [->|Hl].
  - inversion H; subst; auto.
  - apply bind_ok in H as (seed & s0 & E & H).
    destruct (read_words (len / 8) seed buf off) as [r b1] eqn:Ew.
    assert (Eb : b' = read_tail (len mod 8) r b1 (off + len)) by congruence. subst b'. clear H.
    pose proof (Nat.div_mod len 8 ltac:(lia)) as Hdm.
    pose proof (Nat.mod_upper_bound len 8 ltac:(lia)) as Hm.
    assert (H1 : off + 8 * (len / 8) <= off + len) by lia.
    assert (H2 : off + len mod 8 <= off + len) by lia.
    destruct (read_words_outside (len / 8) seed buf off off (off + len) r b1 (le_n _) H1 Ew) as (L1 & F1 & S1).
    destruct (read_tail_outside (len mod 8) r b1 (off + len) off H2) as (L2 & F2 & S2).
    unfold outside. rewrite L2, F2, S2, L1, F1, S1. auto.
Qed.

