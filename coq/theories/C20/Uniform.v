(* C20 uniformity: the multiply-shift reduction maps uint32 draws to residues as evenly as possible, and the
   rejection step of Int31n makes it exactly even. *)
From VF Require Import C20.Model C20.Proofs.
From Coq Require Import ZifyBool.
Local Open Scope Z_scope.

Definition cdiv (a b : Z) : Z := (a + b - 1) / b.

Lemma cdiv_spec a b x : 0 < b -> (cdiv a b <= x <-> a <= x * b).
Proof.
  intros Hb. unfold cdiv. pose proof (Z.div_mod (a + b - 1) b ltac:(lia)) as E.
  pose proof (Z.mod_pos_bound (a + b - 1) b Hb) as M. split; intros H; nia.
Qed.

(* the draws mapped to residue r by (v*n) >> 32 form the interval [cdiv (r*M) n, cdiv ((r+1)*M) n) *)
Lemma mulshift_preimage n v r : 0 < n -> 0 <= v ->
  ((v * n) / M32 = r <-> cdiv (r * M32) n <= v < cdiv ((r + 1) * M32) n).
Proof.
  intros Hn Hv. pose proof M32_pos as HM.
  rewrite (cdiv_spec (r * M32) n v Hn).
  assert (H2 : v < cdiv ((r + 1) * M32) n <-> v * n < (r + 1) * M32).
  { pose proof (cdiv_spec ((r + 1) * M32) n v Hn) as C. split; intros H.
    - destruct (Z_lt_le_dec (v * n) ((r + 1) * M32)) as [|G]; [assumption|]. apply C in G. lia.
    - destruct (Z_lt_le_dec v (cdiv ((r + 1) * M32) n)) as [|G]; [assumption|]. apply C in G. lia. }
  rewrite H2. pose proof (Z.div_mod (v * n) M32 ltac:(lia)) as E.
  pose proof (Z.mod_pos_bound (v * n) M32 HM) as Mb. split; intros H; nia.
Qed.

(* each residue has floor(M/n) or ceil(M/n) pre-images *)
Lemma interval_len n r : 0 < n -> 0 <= r ->
  M32 / n <= cdiv ((r + 1) * M32) n - cdiv (r * M32) n <= M32 / n + 1.
Proof.
  intros Hn Hr. pose proof M32_pos as HM. unfold cdiv.
  pose proof (Z.div_mod ((r + 1) * M32 + n - 1) n ltac:(lia)) as E1.
  pose proof (Z.mod_pos_bound ((r + 1) * M32 + n - 1) n Hn) as B1.
  pose proof (Z.div_mod (r * M32 + n - 1) n ltac:(lia)) as E2.
  pose proof (Z.mod_pos_bound (r * M32 + n - 1) n Hn) as B2.
  pose proof (Z.div_mod M32 n ltac:(lia)) as E3.
  pose proof (Z.mod_pos_bound M32 n Hn) as B3. nia.
Qed.

(* Int31n: a draw is accepted iff low = (v*n) mod M >= thresh = M mod n (the code's [low < n] pre-test only skips the
   computation of thresh: thresh < n). Accepted draws of residue r are exactly an interval of M/n consecutive values:
   every residue is hit by exactly floor(M/n) accepted draws — exact uniformity. *)
Lemma accepted_preimage n v r : 0 < n -> 0 <= v -> 0 <= r ->
  let t := M32 mod n in
  ((v * n) / M32 = r /\ t <= (v * n) mod M32) <-> cdiv (r * M32 + t) n <= v < cdiv ((r + 1) * M32) n.
Proof.
  intros Hn Hv Hr t. pose proof M32_pos as HM.
  rewrite (cdiv_spec (r * M32 + t) n v Hn).
  assert (H2 : v < cdiv ((r + 1) * M32) n <-> v * n < (r + 1) * M32).
  { pose proof (cdiv_spec ((r + 1) * M32) n v Hn) as C. split; intros H.
    - destruct (Z_lt_le_dec (v * n) ((r + 1) * M32)) as [|G]; [assumption|]. apply C in G. lia.
    - destruct (Z_lt_le_dec v (cdiv ((r + 1) * M32) n)) as [|G]; [assumption|]. apply C in G. lia. }
  rewrite H2. pose proof (Z.div_mod (v * n) M32 ltac:(lia)) as E.
  pose proof (Z.mod_pos_bound (v * n) M32 HM) as Mb.
  pose proof (Z.mod_pos_bound M32 n Hn) as Tb. fold t in Tb.
  split.
  - intros [H1 H3]. nia.
  - intros [H1 H3]. assert ((v * n) / M32 = r) by nia. split; [assumption|nia].
Qed.

Lemma accepted_len n r : 0 < n -> 0 <= r ->
  cdiv ((r + 1) * M32) n - cdiv (r * M32 + M32 mod n) n = M32 / n.
Proof.
  intros Hn Hr. pose proof M32_pos as HM. unfold cdiv.
  pose proof (Z.div_mod M32 n ltac:(lia)) as E3.
  replace ((r + 1) * M32 + n - 1) with ((r * M32 + M32 mod n + n - 1) + (M32 / n) * n) by lia.
  rewrite Z.div_add by lia. lia.
Qed.

(* the code's acceptance test is exactly [thresh <= low] *)
Lemma int31n_accept_test n low : 0 < n < M32 -> 0 <= low ->
  (if low <? n then (if low <? ((M32 - n) mod M32) mod n then false else true) else true)
  = (M32 mod n <=? low).
Proof.
  intros Hn Hl. pose proof M32_pos as HM.
  rewrite (Z.mod_small (M32 - n) M32) by lia.
  assert (Et : (M32 - n) mod n = M32 mod n).
  { replace (M32 - n) with (M32 + (-1) * n) by lia. apply Z.mod_add. lia. }
  rewrite Et. pose proof (Z.mod_pos_bound M32 n ltac:(lia)). destruct (low <? n) eqn:E1; [destruct (low <? M32 mod n) eqn:E2|]; lia.
Qed.

(* tie to the model: the first draw v of Int31n is accepted exactly when M mod n <= (v*n) mod M, and then the result
   is (v*n)/M; otherwise the rejection loop continues with the next draw under the same test *)
Lemma int31n_first_draw fuel n s v s' : 0 < n < M32 -> 0 <= v -> uint32 s = Ok v s' ->
  int31n fuel n s =
  if M32 mod n <=? (v * n) mod M32 then Ok ((v * n) / M32) s' else int31n_loop fuel n (M32 mod n) s'.
Proof.
  intros Hn Hv E. pose proof M32_pos as HM. unfold int31n. replace (n <=? 0) with false by lia. rewrite E. cbn [bind].
  pose proof (int31n_accept_test n ((v * n) mod M32) Hn ltac:(apply Z.mod_pos_bound; lia)) as T.
  assert (Et : ((M32 - n) mod M32) mod n = M32 mod n).
  { rewrite (Z.mod_small (M32 - n) M32) by lia. replace (M32 - n) with (M32 + (-1) * n) by lia. apply Z.mod_add. lia. }
  rewrite Et in *. destruct (M32 mod n <=? v * n mod M32) eqn:Ea.
  - destruct (v * n mod M32 <? n); [destruct (v * n mod M32 <? M32 mod n); [discriminate|reflexivity]|reflexivity].
  - destruct (v * n mod M32 <? n); [|discriminate]. destruct (v * n mod M32 <? M32 mod n); [reflexivity|discriminate].
Qed.

Lemma int31n_loop_draw f n s v s' : uint32 s = Ok v s' ->
  int31n_loop (S f) n (M32 mod n) s =
  if M32 mod n <=? (v * n) mod M32 then Ok ((v * n) / M32) s' else int31n_loop f n (M32 mod n) s'.
Proof.
  intros E. cbn [int31n_loop]. rewrite E. cbn [bind].
  destruct (M32 mod n <=? v * n mod M32) eqn:Ea; destruct (v * n mod M32 <? M32 mod n) eqn:Eb; try reflexivity; lia.
Qed.
