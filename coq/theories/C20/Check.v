(* C20 correspondence checker: decides, for one recorded call of the real fastrand package,
   (a) whether the model reproduces it from the recorded draws and (b) whether the observed
   result satisfies the property on its own. Evaluated by vm_compute on harness-written cases. *)
From VF Require Import C20.Model C20.Proofs.
Local Open Scope Z_scope.

Inductive call :=
| CUint32n (n : Z) | CInt31n (n : Z) | CIntn (n : Z) | CInt31 | CFloat32
| CPerm (n : Z) | CShuffle (n : Z) | CRead (buf : list Z) (off len : nat)
(* Uint64-based functions draw from the runtime directly: observed only *)
| RInt63n (n : Z) | RUint64n (n : Z) | RInt63 | RInt | RFloat64 | RIntnBig (n : Z)
(* frequency sanity: OList = how often each residue 0..n-1 came up in [total] draws of Intn n *)
| RFreq (n total : Z)
(* values of Int63n n for a small n, counted per value; residues mod m of Intn n for a large n (m | n) *)
| RFreq63 (n total : Z)
| RFreqMod (n m total : Z)
(* Shuffle(n, swap) for a huge n, aborted by the callback after the first swap: OPairs [(i, j)] *)
| RShuffleBig (n : Z)
(* [total] draws of Float32 (bits = 32) or Float64 (bits = 64) on the runtime's own source, many goroutines:
   OList [below; above] = how many results were < 0 resp. >= 1 (a rounding slip shows up once in 2^25 draws or so) *)
| RBulkFloat (bits total : Z).

Inductive obs := OVal (v : Z) | OList (l : list Z) | OPairs (l : list (Z * Z)) | OPanic.

(* c_replay = false: the call ran on the runtime's own source (concurrent callers), draws unknown *)
Record case := { c_call : call; c_replay : bool; c_draws : list Z; c_used : nat; c_obs : obs }.

Definition zlist_eqb := list_eqb Z.eqb.
Definition pair_eqb (a b : Z * Z) := (fst a =? fst b) && (snd a =? snd b).

(* all of 0..n-1 occur and the length is n *)
Definition is_perm_b (n : nat) (l : list Z) : bool :=
  Nat.eqb (length l) n && forallb (fun i => existsb (Z.eqb (Z.of_nat i)) l) (seq 0 n).

Lemma is_perm_b_ok n l : is_perm_b n l = true -> Permutation l (map Z.of_nat (seq 0 n)).
Proof.
  unfold is_perm_b. intros H. apply andb_true_iff in H as [HL HA]. apply Nat.eqb_eq in HL.
  apply Permutation_sym. apply NoDup_Permutation_bis.
  - apply FinFun.Injective_map_NoDup; [intros a b; apply Nat2Z.inj|apply seq_NoDup].
  - rewrite map_length, seq_length. lia.
  - intros x Hx. apply in_map_iff in Hx as (i & <- & Hi).
    rewrite forallb_forall in HA. apply HA in Hi. apply existsb_exists in Hi as (y & Hy & E).
    apply Z.eqb_eq in E. now subst.
Qed.

Definition in_range (n v : Z) := (0 <=? v) && (v <? n).

(* "Read fills the slice": is there a run of k consecutive positions whose byte is what the buffer held before the call?
   The harness pre-fills the buffer with its own random bytes, so a position is unchanged by chance with probability
   1/256 and a run of 7 with probability 2^-56 per position: a threshold far in the tail, like the frequency cases *)
Fixpoint unchanged_run (k cur : nat) (a b : list Z) : bool :=
  match a, b with
  | x :: a', y :: b' =>
      if x =? y then (if Nat.leb k (S cur) then true else unchanged_run k (S cur) a' b')
      else unchanged_run k 0 a' b'
  | _, _ => false
  end.

(* the property, evaluated on what the implementation returned *)
Definition prop_ok (c : call) (o : obs) : bool :=
  match c, o with
  | CUint32n n, OVal v => if n =? 0 then v =? 0 else in_range n v
  | CUint32n _, _ => false
  | (CInt31n n | CIntn n | RInt63n n | RIntnBig n), OVal v => (0 <? n) && in_range n v
  | (CInt31n n | CIntn n | RInt63n n | RIntnBig n), OPanic => n <=? 0
  | RUint64n n, OVal v => in_range n v
  | RUint64n n, OPanic => n =? 0
  | CInt31, OVal v => in_range (2 ^ 31) v
  | (RInt63 | RInt), OVal v => in_range (2 ^ 63) v
  | CFloat32, OVal k => in_range (2 ^ 24) k
  | RFloat64, OVal k => in_range (2 ^ 53) k
  | CPerm n, OList l => (0 <=? n) && is_perm_b (Z.to_nat n) l
  | CPerm n, OPanic => n <? 0
  | CShuffle n, OPairs sw =>
      (0 <=? n) && forallb (fun ij => in_range n (fst ij) && in_range n (snd ij)) sw
  | CShuffle n, OPanic => n <? 0
  | CRead buf off len, OList b' =>
      Nat.eqb (length b') (length buf) && zlist_eqb (firstn off b') (firstn off buf)
      && zlist_eqb (skipn (off + len) b') (skipn (off + len) buf)
      && forallb (fun x => in_range 256 x) b'
      && negb (unchanged_run 7 0 (firstn len (skipn off b')) (firstn len (skipn off buf)))
  | RFreqMod n m total, OList cnt =>
      Nat.eqb (length cnt) (Z.to_nat m) && (fold_left Z.add cnt 0 =? total)
      && forallb (fun c => (85 * total <=? 100 * c * m) && (100 * c * m <=? 115 * total)) cnt
  | RShuffleBig n, OPairs sw =>
      (0 <=? n) && forallb (fun ij => in_range n (fst ij) && in_range n (snd ij) && (snd ij <=? fst ij)) sw
  | RShuffleBig n, OPanic => n <? 0
  | RBulkFloat _ total, OList cnt => (0 <? total) && zlist_eqb cnt [0; 0]
  | (RFreq n total | RFreq63 n total), OList cnt =>
      Nat.eqb (length cnt) (Z.to_nat n) && (fold_left Z.add cnt 0 =? total)
      && forallb (fun c => (total <=? 2 * c * n) && (c * n <=? 2 * total)) cnt
  | _, _ => false
  end.

Definition res_matches {A} (eqb : A -> A -> bool) (r : res A) (ndraws used : nat) (exp : option A) : bool :=
  match r, exp with
  | Ok v s, Some e => eqb v e && Nat.eqb (ndraws - length (vs s)) used
  | Panic, None => true
  | _, _ => false
  end.

(* does the model, fed the recorded draws, produce the recorded result and consume as many draws? *)
Definition model_ok (c : case) : bool :=
  if negb (c_replay c) then true else
  let ds := c_draws c in
  let s0 := {| vs := ds; rs := [] |} in
  let fuel := S (length ds) in
  let nd := length ds in
  let val := match c_obs c with OVal v => Some v | _ => None end in
  let lst := match c_obs c with OList l => Some l | _ => None end in
  let prs := match c_obs c with OPairs l => Some l | _ => None end in
  match c_call c with
  | CUint32n n => res_matches Z.eqb (uint32n n s0) nd (c_used c) val
  | CInt31n n => res_matches Z.eqb (int31n fuel n s0) nd (c_used c) val
  | CIntn n => res_matches Z.eqb (intn fuel n s0) nd (c_used c) val
  | CInt31 => res_matches Z.eqb (int31 s0) nd (c_used c) val
  | CFloat32 => res_matches Z.eqb (float32_num fuel s0) nd (c_used c) val
  | CPerm n => res_matches zlist_eqb (perm fuel n s0) nd (c_used c) lst
  | CShuffle n => res_matches (list_eqb pair_eqb) (shuffle fuel n s0) nd (c_used c) prs
  | CRead buf off len => res_matches zlist_eqb (read buf off len s0) nd (c_used c) lst
  | _ => true      (* not replayable: property only *)
  end.

(* 0 = agree and property holds; 1 = model differs but property holds on the observation;
   2 = the observation violates the property *)
Definition check_case (c : case) : nat :=
  if negb (prop_ok (c_call c) (c_obs c)) then 2
  else if negb (model_ok c) then 1 else 0.

Definition mismatches (cs : list case) : list (nat * nat) := find_bad check_case cs.
