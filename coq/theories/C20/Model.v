(* C20 model: sys/fastrand/fastrand.go over explicit draw streams.
   vs = values returned by the reassignable package variable fastrand.Uint32
   rs = values returned by runtimex.Fastrand when called directly (Uint64)
   Fixed-width wrap-around is written out (mod 2^32, mod 2^64). Rejection loops take fuel;
   running out of fuel or of draws is the distinguished outcome Starved. *)
From VF Require Export Common.Base.
Local Open Scope Z_scope.

Definition M32 : Z := 2 ^ 32.
Definition M64 : Z := 2 ^ 64.
Definition M63 : Z := 2 ^ 63.
Definition M31 : Z := 2 ^ 31.

Record src := { vs : list Z; rs : list Z }.

Inductive res (A : Type) := Ok (v : A) (s : src) | Panic | Starved.
Arguments Ok {A}. Arguments Panic {A}. Arguments Starved {A}.

Definition bind {A B} (r : res A) (f : A -> src -> res B) : res B :=
  match r with Ok v s => f v s | Panic => Panic | Starved => Starved end.

(* var Uint32 = runtimex.Fastrand *)
Definition uint32 (s : src) : res Z :=
  match vs s with d :: t => Ok d {| vs := t; rs := rs s |} | [] => Starved end.

(* func Uint64: (uint64(runtimex.Fastrand()) << 32) | uint64(runtimex.Fastrand()) *)
Definition uint64 (s : src) : res Z :=
  match rs s with hi :: lo :: t => Ok (hi * M32 + lo) {| vs := vs s; rs := t |} | _ => Starved end.

Definition int31 (s : src) : res Z := bind (uint32 s) (fun u s' => Ok (Z.land u (M31 - 1)) s').
Definition int63 (s : src) : res Z := bind (uint64 s) (fun u s' => Ok (Z.land u (M63 - 1)) s').
(* Int: uint(Int63()) << 1 >> 1 on a 64-bit uint *)
Definition int_ (s : src) : res Z :=
  bind (int63 s) (fun v s' => Ok (((v * 2) mod M64) / 2) s').

Fixpoint int63n_loop (fuel : nat) (n mx : Z) (s : src) : res Z :=
  match fuel with
  | O => Starved
  | S f => bind (int63 s) (fun v s' => if mx <? v then int63n_loop f n mx s' else Ok (v mod n) s')
  end.

Definition int63n (fuel : nat) (n : Z) (s : src) : res Z :=
  if n <=? 0 then Panic else
  if Z.land n (n - 1) =? 0 then bind (int63 s) (fun v s' => Ok (Z.land v (n - 1)) s')
  else let mx := (M63 - 1) - M63 mod n in int63n_loop fuel n mx s.

Fixpoint int31n_loop (fuel : nat) (n thresh : Z) (s : src) : res Z :=
  match fuel with
  | O => Starved
  | S f => bind (uint32 s) (fun v s' =>
             let prod := v * n in
             if prod mod M32 <? thresh then int31n_loop f n thresh s' else Ok (prod / M32) s')
  end.

Definition int31n (fuel : nat) (n : Z) (s : src) : res Z :=
  if n <=? 0 then Panic else
  bind (uint32 s) (fun v s' =>
    let prod := v * n in
    let low := prod mod M32 in
    if low <? n then
      let thresh := ((M32 - n) mod M32) mod n in     (* uint32(-n) % uint32(n) *)
      if low <? thresh then int31n_loop fuel n thresh s' else Ok (prod / M32) s'
    else Ok (prod / M32) s').

Definition intn (fuel : nat) (n : Z) (s : src) : res Z :=
  if n <=? 0 then Panic else
  if n <=? M31 - 1 then int31n fuel n s else int63n fuel n s.

(* Float32 / Float64 return exact dyadic rationals: numerator over 2^24 / 2^53 *)
Definition float32_num (fuel : nat) (s : src) : res Z := int31n fuel (2 ^ 24) s.
Definition float64_num (fuel : nat) (s : src) : res Z := int63n fuel (2 ^ 53) s.

Definition uint32n (n : Z) (s : src) : res Z :=
  bind (uint32 s) (fun v s' => Ok ((v * n) / M32) s').

(* Uint64n: Uint64() % n; Go panics on division by zero *)
Definition uint64n (n : Z) (s : src) : res Z :=
  if n =? 0 then Panic else bind (uint64 s) (fun v s' => Ok (v mod n) s').

(* wyrand *)
Definition wy_inc : Z := 0xa0761d6478bd642f.
Definition wy_xor : Z := 0xe7037ed1a0b428db.
Definition wymix (a b : Z) : Z := let p := a * b in Z.lxor (p / M64) (p mod M64).
Definition wy_next (r : Z) : Z * Z :=         (* new state, output *)
  let r' := (r + wy_inc) mod M64 in (r', wymix r' (Z.lxor r' wy_xor)).

(* Read(p) where p = buf[off : off+len]; the buffer is a list of bytes.
   Word loop: uint64p[i] = r.Uint64() stores 8 little-endian bytes at p[8i .. 8i+7];
   tail loop: p[len(p)-l] = byte(r.Uint64() >> (l*8)) for l = rem .. 1. *)
Fixpoint store_le (buf : list Z) (pos : nat) (w : Z) (k : nat) : list Z :=
  match k with
  | O => buf
  | S k' => store_le (upd buf pos (w mod 256)) (S pos) (w / 256) k'
  end.

Fixpoint read_words (nw : nat) (r : Z) (buf : list Z) (pos : nat) : Z * list Z :=
  match nw with
  | O => (r, buf)
  | S k => let '(r', w) := wy_next r in read_words k r' (store_le buf pos w 8) (pos + 8)
  end.

Fixpoint read_tail (l : nat) (r : Z) (buf : list Z) (endpos : nat) : list Z :=
  match l with
  | O => buf
  | S l' => let '(r', w) := wy_next r in
            read_tail l' r' (upd buf (endpos - l) ((w / 2 ^ (Z.of_nat l * 8)) mod 256)) endpos
  end.

Definition read (buf : list Z) (off len : nat) (s : src) : res (list Z) :=
  if Nat.eqb len 0 then Ok buf s else
  bind (uint32 s) (fun seed s' =>
    let '(r, b1) := read_words (len / 8) seed buf off in
    Ok (read_tail (len mod 8) r b1 (off + len)) s').

(* Shuffle(n, swap): records the (i, j) pairs passed to swap *)
Fixpoint shuffle_loop (fuel : nat) (k : nat) (i : Z) (s : src) : res (list (Z * Z)) :=
  match k with
  | O => Ok [] s
  | S k' =>
    if i <=? 0 then Ok [] s else
    bind (if i >? M31 - 2 then int63n fuel (i + 1) s else int31n fuel (i + 1) s) (fun j s' =>
    bind (shuffle_loop fuel k' (i - 1) s') (fun rest s'' => Ok ((i, j) :: rest) s''))
  end.

Definition shuffle (fuel : nat) (n : Z) (s : src) : res (list (Z * Z)) :=
  if n <? 0 then Panic else shuffle_loop fuel (Z.to_nat n) (n - 1) s.

Definition apply_swaps {A} (d : A) (l : list A) (sw : list (Z * Z)) : list A :=
  fold_left (fun acc ij => swap d acc (Z.to_nat (fst ij)) (Z.to_nat (snd ij))) sw l.

(* Perm(n): m := make([]int, n); for i := 1; i < n; i++ { j := Intn(i+1); m[i] = m[j]; m[j] = i }.
   make panics for n < 0. *)
Fixpoint perm_loop (fuel : nat) (k : nat) (i : nat) (m : list Z) (s : src) : res (list Z) :=
  match k with
  | O => Ok m s
  | S k' =>
    bind (intn fuel (Z.of_nat i + 1) s) (fun j s' =>
      let jn := Z.to_nat j in
      let m1 := upd m i (nth jn m 0) in
      perm_loop fuel k' (S i) (upd m1 jn (Z.of_nat i)) s')
  end.

Definition perm (fuel : nat) (n : Z) (s : src) : res (list Z) :=
  if n <? 0 then Panic else
  let nn := Z.to_nat n in perm_loop fuel (nn - 1) 1 (repeat 0 nn) s.
