(* C14 property theorems: statements only, each closed by [exact]; Print Assumptions beneath. *)
From VF Require Import C14.Spec C14.Model C14.Check C14.BTreeShape C14.ProofsIndex C14.ProofsMain.
Local Open Scope Z_scope.

(* For every content and EVERY command word, the iterator model (the function the correspondence check
   runs against the Go code) produces exactly the outputs of the specification cursor over the sequence the
   container reports; MOut = no panic. *)
Theorem C14_index_cursor : forall vals cs, model_run (KIndex vals) cs = map MOut (spec_run (indexed vals) cs).
Proof. exact index_main. Qed.
Theorem C14_linked_cursor : forall bidir vals cs, model_run (KLinked bidir vals) cs = map MOut (spec_run (indexed vals) cs).
Proof. exact linked_main. Qed.
Theorem C14_linkedkv_cursor : forall ks vs cs, length ks = length vs ->
  model_run (KLinkedKV ks vs) cs = map MOut (spec_run (combine ks vs) cs).
Proof. exact linkedkv_main. Qed.
(* red-black and AVL iterators (and treemap / treebidimap, which delegate): every tree SHAPE, balanced or not *)
Theorem C14_tree_cursor : forall t cs, model_run (KTree t) cs = map MOut (spec_run (elements t) cs).
Proof. exact tree_main. Qed.
Theorem C14_treeset_cursor : forall t cs,
  model_run (KTreeSet t) cs = map MOut (spec_run (indexed (map fst (elements t))) cs).
Proof. exact treeset_main. Qed.
(* B-tree iterator (node path + entry relocated in its node by key search; climbing finds the parent entry by
   searching the parent for the same key): for every well-formed tree -- BTreeShape.b_ok: every node has at
   least one entry and either no children or one more child than entries (the empty tree is BNode [] []),
   height at most depth_fuel = 64, keys of the in-order walk strictly ascending -- and EVERY command word,
   exactly the outputs of the specification cursor over the in-order sequence; never MPanic. *)
Theorem C14_btree_cursor : forall r cs, b_ok depth_fuel r = true ->
  model_run (KBTree r) cs = map MOut (spec_run (b_elements depth_fuel r) cs).
Proof. exact btree_main. Qed.
Theorem C14_each_visits_reported : forall k,
  (match k with
   | KHeap _ => False
   | KBTree r => b_ok depth_fuel r = true
   | KLinkedKV ks vs => length ks = length vs
   | _ => True end) ->
  model_each k = shape_elements k.
Proof. exact each_main. Qed.
Theorem C14_past_end_idempotent : forall s,
  cstep s (size s) Next = (size s, miss) /\ cstep s (-1) Prev = (-1, miss).
Proof. exact past_end_idempotent. Qed.
Theorem C14_heap_root_first : forall arr, arr <> [] -> heap_value arr 0 = zth arr 0.
Proof. exact heap_first. Qed.
(* heap / priority-queue iterators: a cursor over their own level-sorted enumeration, which visits every element of
   the heap array exactly once (a permutation), the root first *)
Theorem C14_heap_cursor : forall arr cs,
  model_run (KHeap arr) cs = map MOut (spec_run (ProofsIndex.iseq (length arr) (fun i => (i, heap_value arr i))) cs).
Proof. exact heap_main. Qed.
Theorem C14_heap_each_permutation : forall arr, Permutation (map snd (model_each (KHeap arr))) arr.
Proof. exact heap_each_perm. Qed.
(* the key order is necessary: on a shape whose keys are out of order the key search relocates the wrong entry *)
Theorem C14_btree_needs_key_order : exists r cs,
  b_ok depth_fuel r = false /\
  model_run (KBTree r) cs <> map MOut (spec_run (b_elements depth_fuel r) cs).
Proof.
  exists (BNode [(5, 50)] [BNode [(7, 70)] []; BNode [(9, 90)] []]), [Next; Next].
  split; [reflexivity|]. vm_compute. discriminate.
Qed.

Example C14_nonvacuous :
  let t := BN (BN BL 1 10 (BN BL 2 20 BL)) 5 50 (BN (BN BL 7 70 BL) 9 90 BL) in
  model_run (KTree t) [Next; Next; Last; Prev; NextTo (PKeyGe 6); Next; Next; Next; Prev] =
  [MOut (true, Some (1, 10)); MOut (true, Some (2, 20)); MOut (true, Some (9, 90)); MOut (true, Some (7, 70));
   MOut (true, Some (9, 90)); MOut (false, None); MOut (false, None); MOut (false, None); MOut (true, Some (9, 90))].
Proof. vm_compute. reflexivity. Qed.

(* a three-level B-tree of order 3 meeting the hypotheses of C14_btree_cursor, and a word crossing all levels *)
Example C14_btree_nonvacuous :
  let leaf k := BNode [(k, k * 10)] [] in
  let r := BNode [(8, 80)]
             [BNode [(4, 40)] [BNode [(2, 20)] [leaf 1; leaf 3]; BNode [(6, 60)] [leaf 5; leaf 7]];
              BNode [(12, 120)] [BNode [(10, 100)] [leaf 9; leaf 11]; BNode [(14, 140); (16, 160)] [leaf 13; leaf 15; leaf 17]]] in
  b_ok depth_fuel r = true /\
  model_run (KBTree r) [Next; Next; Last; Prev; NextTo (PKeyGe 18); Prev; PrevTo (PKeyEq 8); Next; Prev; Prev] =
  [MOut (true, Some (1, 10)); MOut (true, Some (2, 20)); MOut (true, Some (17, 170)); MOut (true, Some (16, 160));
   MOut (false, None); MOut (true, Some (17, 170)); MOut (true, Some (8, 80)); MOut (true, Some (9, 90));
   MOut (true, Some (8, 80)); MOut (true, Some (7, 70))].
Proof. vm_compute. split; reflexivity. Qed.

Print Assumptions C14_index_cursor.
Print Assumptions C14_btree_cursor.
Print Assumptions C14_btree_needs_key_order.
Print Assumptions C14_linked_cursor.
Print Assumptions C14_linkedkv_cursor.
Print Assumptions C14_tree_cursor.
Print Assumptions C14_treeset_cursor.
Print Assumptions C14_each_visits_reported.
Print Assumptions C14_past_end_idempotent.
Print Assumptions C14_heap_root_first.
Print Assumptions C14_heap_cursor.
Print Assumptions C14_heap_each_permutation.
