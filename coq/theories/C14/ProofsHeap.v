(* C14: the heap iterator enumerates a permutation of the heap array (each element exactly once). *)
From VF Require Import C14.Spec C14.Model.
From Coq Require Import ZifyBool Sorting.Permutation.
Local Open Scope Z_scope.

Lemma insert_sorted_perm x l : Permutation (insert_sorted x l) (x :: l).
Proof.
  induction l as [|y l IH]; cbn [insert_sorted]; [reflexivity|].
  destruct (x <=? y); [reflexivity|]. eapply perm_trans; [apply perm_skip, IH|apply perm_swap].
Qed.
Lemma isort_perm l : Permutation (isort l) l.
Proof.
  induction l as [|x l IH]; [reflexivity|]. cbn [isort fold_right]. fold (isort l).
  eapply perm_trans; [apply insert_sorted_perm|apply perm_skip, IH].
Qed.
Lemma isort_length l : length (isort l) = length l.
Proof. apply Permutation_length, isort_perm. Qed.

(* a list is the list of its own nth elements *)
Lemma map_nth_seq (l : list Z) : map (fun j => nth j l 0) (seq 0 (length l)) = l.
Proof.
  induction l as [|x l IH]; [reflexivity|]. cbn [length seq map nth]. f_equal.
  rewrite <- seq_shift, map_map. exact IH.
Qed.

(* the level of the heap array starting at position w-1 with width w = 2^b *)
Definition level (arr : list Z) (w : nat) : list Z := firstn w (skipn (w - 1) arr).

Lemma level_start_in b j : 0 <= b -> 0 <= j < 2 ^ b -> level_start (2 ^ b - 1 + j) = 2 ^ b - 1.
Proof.
  intros Hb Hj. unfold level_start. replace (2 ^ b - 1 + j + 1) with (2 ^ b + j) by lia.
  rewrite (Z.log2_unique (2 ^ b + j) b); [reflexivity|lia|].
  replace (b + 1) with (Z.succ b) by lia. rewrite Z.pow_succ_r by lia. lia.
Qed.

Lemma heap_value_level arr b j : 0 <= b -> 0 <= j < 2 ^ b ->
  heap_value arr (2 ^ b - 1 + j) = zth (isort (level arr (Z.to_nat (2 ^ b)))) j.
Proof.
  intros Hb Hj. unfold heap_value. rewrite level_start_in by assumption.
  replace (2 ^ b - 1 + j - (2 ^ b - 1)) with j by lia. f_equal. f_equal.
  unfold level. assert (Hp : 0 < 2 ^ b) by (apply Z.pow_pos_nonneg; lia).
  replace (Z.to_nat (2 ^ b) - 1)%nat with (Z.to_nat (2 ^ b - 1)) by lia.
  set (sk := skipn (Z.to_nat (2 ^ b - 1)) arr).
  (* firstn (min(end,n) - st) sk = firstn w sk because sk has only n - st elements *)
  assert (Hlen : length sk = (length arr - Z.to_nat (2 ^ b - 1))%nat) by (unfold sk; apply skipn_length).
  destruct (Z.le_ge_cases (2 ^ b - 1 + (2 ^ b - 1 + 1)) (Z.of_nat (length arr))) as [Hle|Hge].
  - rewrite Z.min_l by lia. f_equal. lia.
  - rewrite Z.min_r by lia. rewrite !firstn_all2; [reflexivity| |]; lia.
Qed.

(* enumerating the positions of one level yields the sorted level *)
Lemma enum_level arr b : 0 <= b ->
  map (fun j => heap_value arr (2 ^ b - 1 + Z.of_nat j)) (seq 0 (length (level arr (Z.to_nat (2 ^ b)))))
  = isort (level arr (Z.to_nat (2 ^ b))).
Proof.
  intros Hb. transitivity (map (fun j => nth j (isort (level arr (Z.to_nat (2 ^ b)))) 0)
                                (seq 0 (length (isort (level arr (Z.to_nat (2 ^ b))))))); [|apply map_nth_seq].
  rewrite isort_length. apply map_ext_in. intros j Hj. apply in_seq in Hj.
  assert (Hw : (length (level arr (Z.to_nat (2 ^ b))) <= Z.to_nat (2 ^ b))%nat) by (unfold level; apply firstn_le_length).
  assert (Hp : 0 < 2 ^ b) by (apply Z.pow_pos_nonneg; lia).
  rewrite heap_value_level by lia. unfold zth. now rewrite Nat2Z.id.
Qed.

Lemma skipn_skipn' {A} (a b : nat) (l : list A) : skipn a (skipn b l) = skipn (a + b) l.
Proof.
  revert l. induction b as [|b IH]; intros l; [now rewrite Nat.add_0_r|].
  destruct l as [|x l]; [now rewrite !skipn_nil|]. rewrite Nat.add_succ_r. cbn [skipn]. apply IH.
Qed.

(* positions st .. st+k-1 as Z *)
Definition zseq (st : Z) (k : nat) : list Z := map (fun j => st + Z.of_nat j) (seq 0 k).


Lemma seq_shift_gen k a : seq a k = map (fun j => (a + j)%nat) (seq 0 k).
Proof.
  revert a. induction k as [|k IH]; intros a; [reflexivity|]. cbn [seq map]. rewrite Nat.add_0_r. f_equal.
  rewrite (IH (S a)), <- seq_shift, map_map. apply map_ext. intros j. lia.
Qed.

Lemma zseq_app st k1 k2 : zseq st (k1 + k2) = zseq st k1 ++ zseq (st + Z.of_nat k1) k2.
Proof.
  unfold zseq. rewrite seq_app, map_app. f_equal. cbn [Nat.add]. rewrite (seq_shift_gen k2 k1), map_map.
  apply map_ext. intros j. lia.
Qed.

(* enumerate levels b, b+1, ... over the part of the array from position 2^b - 1 on *)
Lemma enum_from arr : forall fuel b, 0 <= b ->
  (length arr - Z.to_nat (2 ^ b - 1) <= fuel)%nat ->
  Permutation (map (heap_value arr) (zseq (2 ^ b - 1) (length arr - Z.to_nat (2 ^ b - 1))))
              (skipn (Z.to_nat (2 ^ b - 1)) arr).
Proof.
  induction fuel as [|f IH]; intros b Hb Hf.
  - replace (length arr - Z.to_nat (2 ^ b - 1))%nat with 0%nat by lia. cbn.
    rewrite skipn_all2 by lia. constructor.
  - assert (Hp : 0 < 2 ^ b) by (apply Z.pow_pos_nonneg; lia).
    assert (Hpow : 2 ^ (b + 1) = 2 * 2 ^ b) by (rewrite Z.pow_add_r by lia; lia).
    set (st := Z.to_nat (2 ^ b - 1)). set (w := Z.to_nat (2 ^ b)).
    destruct (Nat.le_gt_cases (length arr) st) as [Hshort|Hlong].
    { replace (length arr - st)%nat with 0%nat by lia. cbn. rewrite skipn_all2 by lia. constructor. }
    set (lv := level arr w).
    assert (Hlv : lv = firstn w (skipn st arr)) by (unfold lv, level, w, st; f_equal; f_equal; lia).
    assert (Hlvlen : length lv = Nat.min w (length arr - st)) by (rewrite Hlv, firstn_length, skipn_length; reflexivity).
    replace (length arr - st)%nat with (length lv + (length arr - st - length lv))%nat by lia.
    rewrite zseq_app, map_app.
    rewrite <- (firstn_skipn w (skipn st arr)). apply Permutation_app.
    + rewrite <- Hlv. unfold zseq. rewrite map_map.
      replace (map (fun x => heap_value arr (2 ^ b - 1 + Z.of_nat x)) (seq 0 (length lv))) with (isort lv)
        by (symmetry; apply enum_level; lia).
      apply isort_perm.
    + rewrite skipn_skipn'.
      destruct (Nat.le_gt_cases (length arr - st) w) as [Hfit|Hmore].
      * (* this level is the last one *)
        replace (length arr - st - length lv)%nat with 0%nat by lia. cbn.
        rewrite skipn_all2 by lia. constructor.
      * assert (E1 : 2 ^ (b + 1) - 1 = 2 ^ b - 1 + Z.of_nat (length lv)).
        { rewrite Hpow. rewrite Hlvlen. unfold w. lia. }
        assert (E2 : (w + st)%nat = Z.to_nat (2 ^ (b + 1) - 1)) by (rewrite Hpow; unfold w, st; lia).
        rewrite <- E1, E2.
        replace (length arr - st - length lv)%nat with (length arr - Z.to_nat (2 ^ (b + 1) - 1))%nat by lia.
        apply IH; lia.
Qed.

Theorem heap_enum_perm arr :
  Permutation (map (heap_value arr) (map Z.of_nat (seq 0 (length arr)))) arr.
Proof.
  pose proof (enum_from arr (length arr) 0 ltac:(lia) ltac:(cbn; lia)) as H. cbn in H.
  rewrite Nat.sub_0_r in H. unfold zseq in H.
  erewrite map_ext; [exact H|]. intros j. reflexivity.
Qed.
