(* C14: the red-black / AVL iterator on paths simulates the cursor over the in-order sequence,
   for EVERY tree shape (the iterator never compares keys). *)
From VF Require Import C14.Spec C14.Model.
From Coq Require Import ZifyBool.

Definition valid (t : bt) (p : path) := subtree t p <> BL.

Fixpoint index_of (t : bt) (p : path) : nat :=
  match p, t with
  | [], BN l _ _ _ => length (elements l)
  | DL :: p', BN l _ _ _ => index_of l p'
  | DR :: p', BN l _ _ r => length (elements l) + 1 + index_of r p'
  | _, BL => 0
  end.

Arguments leftmost : simpl never.
Arguments rightmost : simpl never.

Lemma subtree_R l k v r p : subtree (BN l k v r) (DR :: p) = subtree r p. Proof. reflexivity. Qed.
Lemma subtree_L l k v r p : subtree (BN l k v r) (DL :: p) = subtree l p. Proof. reflexivity. Qed.
Lemma index_R l k v r p : index_of (BN l k v r) (DR :: p) = length (elements l) + 1 + index_of r p. Proof. reflexivity. Qed.
Lemma index_L l k v r p : index_of (BN l k v r) (DL :: p) = index_of l p. Proof. reflexivity. Qed.
Lemma index_nil l k v r : index_of (BN l k v r) [] = length (elements l). Proof. reflexivity. Qed.
Lemma elements_len l k v r : length (elements (BN l k v r)) = length (elements l) + 1 + length (elements r).
Proof. simpl. rewrite app_length. simpl. lia. Qed.

Lemma leftmost_unfold l k v r : leftmost (BN l k v r) = match l with BN _ _ _ _ => DL :: leftmost l | BL => [] end.
Proof. destruct l; reflexivity. Qed.
Lemma rightmost_unfold l k v r : rightmost (BN l k v r) = match r with BN _ _ _ _ => DR :: rightmost r | BL => [] end.
Proof. destruct r; reflexivity. Qed.

Lemma index_leftmost t : t <> BL -> index_of t (leftmost t) = 0.
Proof.
  induction t as [|l IHl k v r IHr]; intros H; [congruence|].
  rewrite leftmost_unfold. destruct l as [|ll lk lv lr]; [reflexivity|]. rewrite index_L. apply IHl. discriminate.
Qed.
Lemma valid_leftmost t : t <> BL -> valid t (leftmost t).
Proof.
  induction t as [|l IHl k v r IHr]; intros H; [congruence|].
  rewrite leftmost_unfold. destruct l as [|ll lk lv lr]; [unfold valid; simpl; discriminate|].
  unfold valid in *. rewrite subtree_L. apply IHl. discriminate.
Qed.
Lemma index_rightmost t : t <> BL -> S (index_of t (rightmost t)) = length (elements t).
Proof.
  induction t as [|l IHl k v r IHr]; intros H; [congruence|].
  rewrite rightmost_unfold, elements_len. destruct r as [|rl rk rv rr]; [rewrite index_nil; simpl; lia|].
  rewrite index_R. specialize (IHr ltac:(discriminate)). lia.
Qed.
Lemma valid_rightmost t : t <> BL -> valid t (rightmost t).
Proof.
  induction t as [|l IHl k v r IHr]; intros H; [congruence|].
  rewrite rightmost_unfold. destruct r as [|rl rk rv rr]; [unfold valid; simpl; discriminate|].
  unfold valid in *. rewrite subtree_R. apply IHr. discriminate.
Qed.

Lemma entry_at_index t p : valid t p -> entry_at t p = nth_error (elements t) (index_of t p).
Proof.
  revert p. induction t as [|l IHl k v r IHr]; intros p Hv.
  - unfold valid in Hv. destruct p as [|[] p]; simpl in Hv; congruence.
  - destruct p as [|[|] p]; unfold entry_at in *.
    + simpl. rewrite nth_error_app2 by lia. now rewrite Nat.sub_diag.
    + unfold valid in *. rewrite subtree_L in *. rewrite (IHl p Hv). rewrite index_L. simpl elements.
      rewrite nth_error_app1; auto. apply nth_error_Some. rewrite <- (IHl p Hv).
      destruct (subtree l p); congruence.
    + unfold valid in *. rewrite subtree_R in *. rewrite (IHr p Hv). rewrite index_R. simpl elements.
      rewrite nth_error_app2 by lia.
      replace (length (elements l) + 1 + index_of r p - length (elements l)) with (S (index_of r p)) by lia.
      reflexivity.
Qed.

Lemma index_lt t p : valid t p -> index_of t p < length (elements t).
Proof.
  intros Hv. apply nth_error_Some. rewrite <- entry_at_index by auto.
  unfold entry_at, valid in *. destruct (subtree t p); congruence.
Qed.

Lemma climb_snoc_same d q : climb_from d (q ++ [d]) = match climb_from d q with Some rp => Some (rp ++ [d]) | None => Some [] end.
Proof. induction q as [|x q IH]; destruct d; simpl; auto; destruct x; simpl; auto. Qed.
Lemma climb_snoc_other d d' q : d <> d' ->
  climb_from d (q ++ [d']) = match climb_from d q with Some rp => Some (rp ++ [d']) | None => None end.
Proof. intros H. induction q as [|x q IH]; destruct d, d'; try congruence; simpl; auto; destruct x; simpl; auto. Qed.

Lemma next_nil l k v r : t_next (BN l k v r) [] = match r with BL => None | _ => Some (DR :: leftmost r) end.
Proof. unfold t_next. simpl. destruct r; reflexivity. Qed.
Lemma prev_nil l k v r : t_prev (BN l k v r) [] = match l with BL => None | _ => Some (DL :: rightmost l) end.
Proof. unfold t_prev. simpl. destruct l; reflexivity. Qed.

Lemma next_L l k v r p :
  t_next (BN l k v r) (DL :: p) = match t_next l p with Some q => Some (DL :: q) | None => Some [] end.
Proof.
  unfold t_next. rewrite subtree_L. destruct (subtree l p) as [|sl sk sv [|a b c d]].
  - simpl rev. rewrite climb_snoc_same. destruct (climb_from DL (rev p)); [rewrite rev_app_distr|]; reflexivity.
  - simpl rev. rewrite climb_snoc_same. destruct (climb_from DL (rev p)); [rewrite rev_app_distr|]; reflexivity.
  - reflexivity.
Qed.
Lemma next_R l k v r p :
  t_next (BN l k v r) (DR :: p) = match t_next r p with Some q => Some (DR :: q) | None => None end.
Proof.
  unfold t_next. rewrite subtree_R. destruct (subtree r p) as [|sl sk sv [|a b c d]].
  - simpl rev. rewrite climb_snoc_other by discriminate. destruct (climb_from DL (rev p)); [rewrite rev_app_distr|]; reflexivity.
  - simpl rev. rewrite climb_snoc_other by discriminate. destruct (climb_from DL (rev p)); [rewrite rev_app_distr|]; reflexivity.
  - reflexivity.
Qed.
Lemma prev_R l k v r p :
  t_prev (BN l k v r) (DR :: p) = match t_prev r p with Some q => Some (DR :: q) | None => Some [] end.
Proof.
  unfold t_prev. rewrite subtree_R. destruct (subtree r p) as [|[|a b c d] sk sv sr].
  - simpl rev. rewrite climb_snoc_same. destruct (climb_from DR (rev p)); [rewrite rev_app_distr|]; reflexivity.
  - simpl rev. rewrite climb_snoc_same. destruct (climb_from DR (rev p)); [rewrite rev_app_distr|]; reflexivity.
  - reflexivity.
Qed.
Lemma prev_L l k v r p :
  t_prev (BN l k v r) (DL :: p) = match t_prev l p with Some q => Some (DL :: q) | None => None end.
Proof.
  unfold t_prev. rewrite subtree_L. destruct (subtree l p) as [|[|a b c d] sk sv sr].
  - simpl rev. rewrite climb_snoc_other by discriminate. destruct (climb_from DR (rev p)); [rewrite rev_app_distr|]; reflexivity.
  - simpl rev. rewrite climb_snoc_other by discriminate. destruct (climb_from DR (rev p)); [rewrite rev_app_distr|]; reflexivity.
  - reflexivity.
Qed.

(* Next moves to the in-order successor, or stops at the last element *)
Lemma next_spec t : forall p, valid t p ->
  match t_next t p with
  | Some q => valid t q /\ index_of t q = S (index_of t p)
  | None => S (index_of t p) = length (elements t)
  end.
Proof.
  induction t as [|l IHl k v r IHr]; intros p Hv.
  - unfold valid in Hv. destruct p as [|[] p]; simpl in Hv; congruence.
  - destruct p as [|[|] p].
    + rewrite next_nil, index_nil. destruct r as [|rl rk rv rr].
      * rewrite elements_len. simpl. lia.
      * split.
        -- unfold valid. rewrite subtree_R. apply valid_leftmost. discriminate.
        -- rewrite index_R. rewrite index_leftmost by discriminate. lia.
    + unfold valid in Hv. rewrite subtree_L in Hv. specialize (IHl p Hv).
      rewrite next_L, index_L. destruct (t_next l p) as [q|].
      * destruct IHl as [V I]. split; [unfold valid; rewrite subtree_L; exact V|rewrite index_L; exact I].
      * split; [unfold valid; simpl; discriminate|]. rewrite index_nil. lia.
    + unfold valid in Hv. rewrite subtree_R in Hv. specialize (IHr p Hv).
      rewrite next_R, index_R. destruct (t_next r p) as [q|].
      * destruct IHr as [V I]. split; [unfold valid; rewrite subtree_R; exact V|rewrite index_R; lia].
      * rewrite elements_len. lia.
Qed.

Lemma prev_spec t : forall p, valid t p ->
  match t_prev t p with
  | Some q => valid t q /\ S (index_of t q) = index_of t p
  | None => index_of t p = 0
  end.
Proof.
  induction t as [|l IHl k v r IHr]; intros p Hv.
  - unfold valid in Hv. destruct p as [|[] p]; simpl in Hv; congruence.
  - destruct p as [|[|] p].
    + rewrite prev_nil, index_nil. destruct l as [|ll lk lv lr].
      * reflexivity.
      * split.
        -- unfold valid. rewrite subtree_L. apply valid_rightmost. discriminate.
        -- rewrite index_L. apply index_rightmost. discriminate.
    + unfold valid in Hv. rewrite subtree_L in Hv. specialize (IHl p Hv).
      rewrite prev_L, index_L. destruct (t_prev l p) as [q|].
      * destruct IHl as [V I]. split; [unfold valid; rewrite subtree_L; exact V|rewrite index_L; exact I].
      * exact IHl.
    + unfold valid in Hv. rewrite subtree_R in Hv. specialize (IHr p Hv).
      rewrite prev_R, index_R. destruct (t_prev r p) as [q|].
      * destruct IHr as [V I]. split; [unfold valid; rewrite subtree_R; exact V|rewrite index_R; lia].
      * split; [unfold valid; simpl; discriminate|]. rewrite index_nil. lia.
Qed.

(* ---- simulation ---- *)
Local Open Scope Z_scope.

(* the tree position represents cursor position c *)
Definition trel (t : bt) (s : tpos) (c : Z) : Prop :=
  match s with
  | TBegin => c = -1
  | TEnd => c = size (elements t)
  | TAt p => valid t p /\ c = Z.of_nat (index_of t p)
  end.

Lemma at_elements t c : 0 <= c < size (elements t) -> at_ (elements t) c = nth_error (elements t) (Z.to_nat c).
Proof. intros H. unfold at_. replace ((0 <=? c) && (c <? size (elements t))) with true by lia. reflexivity. Qed.
Lemma at_out t c : ~ (0 <= c < size (elements t)) -> at_ (elements t) c = None.
Proof. intros H. unfold at_. replace ((0 <=? c) && (c <? size (elements t))) with false by lia. reflexivity. Qed.

Lemma trel_at t p : valid t p ->
  0 <= Z.of_nat (index_of t p) < size (elements t) /\
  at_ (elements t) (Z.of_nat (index_of t p)) = entry_at t p /\ entry_at t p <> None.
Proof.
  intros Hv. pose proof (index_lt t p Hv) as Hlt. unfold size. split; [lia|]. split.
  - rewrite at_elements by (unfold size; lia). rewrite Nat2Z.id. symmetry. now apply entry_at_index.
  - unfold entry_at, valid in *. destruct (subtree t p); congruence.
Qed.

Lemma t_out_ok t s c : trel t s c -> t_out t s = (s, MOut (snd (land (elements t) c))).
Proof.
  intros H. unfold t_out, land. cbn [snd]. destruct s as [|p|]; cbn [trel] in H.
  - subst. rewrite at_out by (unfold size; lia). reflexivity.
  - destruct H as [Hv ->]. destruct (trel_at t p Hv) as (_ & -> & Hn). destruct (entry_at t p); [reflexivity|congruence].
  - subst. rewrite at_out by lia. reflexivity.
Qed.

Lemma t_left_rel t : match t_left t with
                     | Some p => trel t (TAt p) 0 /\ 0 < size (elements t)
                     | None => size (elements t) = 0 end.
Proof.
  destruct t as [|l k v r]; [reflexivity|]. cbn [t_left]. split.
  - split; [apply valid_leftmost; discriminate|]. rewrite index_leftmost by discriminate. reflexivity.
  - unfold size. rewrite elements_len. lia.
Qed.
Lemma t_right_rel t : match t_right t with
                      | Some p => trel t (TAt p) (size (elements t) - 1) /\ 0 < size (elements t)
                      | None => size (elements t) = 0 end.
Proof.
  destruct t as [|l k v r]; [reflexivity|]. cbn [t_right]. split.
  - split; [apply valid_rightmost; discriminate|]. pose proof (index_rightmost (BN l k v r) ltac:(discriminate)). unfold size. lia.
  - unfold size. rewrite elements_len. lia.
Qed.

Lemma move_next_rel t s c : trel t s c -> trel t (t_move_next t s) (c_next (elements t) c).
Proof.
  intros H. unfold c_next. destruct s as [|p|]; cbn [trel t_move_next] in *.
  - subst. pose proof (t_left_rel t) as HL. destruct (t_left t) as [q|].
    + destruct HL as [HL Hpos]. replace (-1 <? size (elements t)) with true by lia. exact HL.
    + rewrite HL. cbn [trel]. simpl. lia.
  - destruct H as [Hv ->]. pose proof (next_spec t p Hv) as HN. pose proof (index_lt t p Hv) as Hlt.
    replace (Z.of_nat (index_of t p) <? size (elements t)) with true by (unfold size; lia).
    destruct (t_next t p) as [q|]; cbn [trel].
    + destruct HN as [Vq Iq]. split; [exact Vq|lia].
    + unfold size. lia.
  - subst. replace (size (elements t) <? size (elements t)) with false by lia. reflexivity.
Qed.

Lemma move_prev_rel t s c : trel t s c -> trel t (t_move_prev t s) (c_prev c).
Proof.
  intros H. unfold c_prev. destruct s as [|p|]; cbn [trel t_move_prev] in *.
  - subst. reflexivity.
  - destruct H as [Hv ->]. pose proof (prev_spec t p Hv) as HP.
    replace (0 <=? Z.of_nat (index_of t p)) with true by lia.
    destruct (t_prev t p) as [q|]; cbn [trel].
    + destruct HP as [Vq Iq]. split; [exact Vq|lia].
    + lia.
  - subst. pose proof (t_right_rel t) as HR. unfold size in *.
    replace (0 <=? Z.of_nat (length (elements t))) with true by lia.
    destruct (t_right t) as [q|].
    + destruct HR as [HR _]. exact HR.
    + cbn [trel]. lia.
Qed.

Lemma t_scan_ok t mv cmv : (forall s c, trel t s c -> trel t (mv s) (cmv c)) ->
  forall fuel p s c, trel t s c ->
    t_scan t mv fuel p s = (fst (t_scan t mv fuel p s), MOut (snd (scan_to (elements t) cmv fuel p c))) /\
    trel t (fst (t_scan t mv fuel p s)) (fst (scan_to (elements t) cmv fuel p c)).
Proof.
  intros Hmv. induction fuel as [|f IH]; intros p s c H; cbn [t_scan scan_to].
  - split; [reflexivity|exact H].
  - pose proof (Hmv s c H) as H'. destruct (mv s) as [|q|] eqn:Em; cbn [trel] in H'.
    + rewrite H'. rewrite at_out by (unfold size; lia). cbn [fst snd]. split; [reflexivity|reflexivity].
    + destruct H' as [Vq Eq]. destruct (trel_at t q Vq) as (_ & Hat & Hn). rewrite Eq, Hat.
      destruct (entry_at t q) as [[k v]|]; [|congruence].
      destruct (peval p k v).
      * cbn [fst snd]. split; [reflexivity|]. split; [exact Vq|reflexivity].
      * rewrite <- Eq. apply IH. split; [exact Vq|exact Eq].
    + rewrite H'. rewrite at_out by lia. cbn [fst snd]. split; reflexivity.
Qed.

Lemma tstep_ok t fuel s c m : fuel = S (length (elements t)) -> trel t s c ->
  tstep t fuel s m = (fst (tstep t fuel s m), MOut (snd (cstep (elements t) c m))) /\
  trel t (fst (tstep t fuel s m)) (fst (cstep (elements t) c m)).
Proof.
  intros Hf H. destruct m; cbn [tstep cstep].
  - pose proof (move_next_rel t s c H) as H'. rewrite (t_out_ok _ _ _ H'). cbn [fst snd]. split; [reflexivity|exact H'].
  - pose proof (move_prev_rel t s c H) as H'. rewrite (t_out_ok _ _ _ H'). cbn [fst snd]. split; [reflexivity|exact H'].
  - pose proof (move_next_rel t TBegin (-1) eq_refl) as H'. rewrite (t_out_ok _ _ _ H'). cbn [fst snd]. split; [reflexivity|exact H'].
  - pose proof (move_prev_rel t TEnd (size (elements t)) eq_refl) as H'. rewrite (t_out_ok _ _ _ H'). cbn [fst snd]. split; [reflexivity|exact H'].
  - cbn [fst snd]. split; reflexivity.
  - cbn [fst snd]. split; reflexivity.
  - subst fuel. apply t_scan_ok; [apply move_next_rel|exact H].
  - subst fuel. apply t_scan_ok; [apply move_prev_rel|exact H].
Qed.

Theorem tree_cursor t : forall cs s c, trel t s c ->
  run (tstep t (S (length (elements t)))) s cs = map MOut (run (cstep (elements t)) c cs).
Proof.
  induction cs as [|m cs IH]; intros s c H; cbn [run map]; [reflexivity|].
  destruct (tstep_ok t _ s c m eq_refl H) as [E R]. rewrite E.
  destruct (cstep (elements t) c m) as [c' o]. cbn [fst snd map] in *. f_equal. apply IH. exact R.
Qed.
