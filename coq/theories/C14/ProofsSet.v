(* C14: indexed sequences, the treeset iterator (index counter + tree iterator), heap first element *)
From VF Require Import C14.Spec C14.Model C14.ProofsIndex C14.ProofsTree.
From Coq Require Import ZifyBool.
Local Open Scope Z_scope.

Lemma combine_seq_nth (l : list Z) : forall a,
  combine (map Z.of_nat (seq a (length l))) l =
  map (fun i => (Z.of_nat i, nth (i - a) l 0)) (seq a (length l)).
Proof.
  induction l as [|x l IH]; intros a; [reflexivity|].
  cbn [length seq map combine]. rewrite Nat.sub_diag. cbn [nth]. f_equal.
  rewrite IH. apply map_ext_in. intros i Hi. apply in_seq in Hi.
  replace (i - a)%nat with (S (i - S a)) by lia. reflexivity.
Qed.

Lemma indexed_iseq (l : list Z) : indexed l = iseq (length l) (fun i => (i, zth l i)).
Proof.
  unfold indexed, iseq. rewrite combine_seq_nth. apply map_ext_in. intros i _.
  unfold zth. rewrite Nat2Z.id, Nat.sub_0_r. reflexivity.
Qed.

Lemma indexed_length l : length (indexed l) = length l.
Proof. rewrite indexed_iseq. apply iseq_length. Qed.

(* treeset *)
Section TreeSet.
  Variable t : bt.
  Let keys := map fst (elements t).
  Let s := indexed keys.
  Lemma len_keys : length keys = length (elements t). Proof. unfold keys. apply map_length. Qed.
  Lemma size_ts : size s = size (elements t).
  Proof. unfold size, s. now rewrite indexed_length, len_keys. Qed.

  Definition tsrel (st : ts_state) (c : Z) : Prop := fst st = c /\ trel t (snd st) c.

  Lemma ts_at p : valid t p ->
    at_ s (Z.of_nat (index_of t p)) = match entry_at t p with Some (k, _) => Some (Z.of_nat (index_of t p), k) | None => None end.
  Proof.
    intros Hv. destruct (trel_at t p Hv) as (Hr & Hat & Hn). unfold s. rewrite indexed_iseq.
    rewrite iseq_at by (rewrite len_keys; unfold size in Hr; lia).
    rewrite <- Hat. rewrite at_elements by exact Hr. rewrite Nat2Z.id. unfold zth, keys. rewrite Nat2Z.id.
    pose proof (index_lt t p Hv) as Hlt.
    destruct (nth_error (elements t) (index_of t p)) as [[k v]|] eqn:E.
    - pose proof (map_nth fst (elements t) (0, 0) (index_of t p)) as Hm. cbn [fst] in Hm. rewrite Hm.
      rewrite (nth_error_nth _ _ (0, 0) E). reflexivity.
    - apply nth_error_None in E. lia.
  Qed.

  Lemma ts_obs_ok st c : tsrel st c -> ts_obs t st = (st, MOut (snd (land s c))).
  Proof.
    intros [Hi H]. destruct st as [i ps]. cbn [fst snd] in *. subst i. unfold ts_obs, land. cbn [fst snd].
    destruct ps as [|p|]; cbn [trel] in H.
    - subst. unfold at_. replace ((0 <=? -1) && (-1 <? size s)) with false by lia. reflexivity.
    - destruct H as [Hv ->]. rewrite ts_at by exact Hv. destruct (trel_at t p Hv) as (_ & _ & Hn).
      destruct (entry_at t p) as [[k v]|]; [reflexivity|congruence].
    - subst. unfold at_. rewrite size_ts. replace ((0 <=? size (elements t)) && (size (elements t) <? size (elements t))) with false by lia.
      reflexivity.
  Qed.

  Lemma ts_next_rel st c : tsrel st c -> tsrel (ts_next t st) (c_next s c).
  Proof.
    intros [Hi H]. unfold ts_next. split; cbn [fst snd].
    - rewrite Hi. unfold i_next, c_next. rewrite size_ts. reflexivity.
    - replace (c_next s c) with (c_next (elements t) c) by (unfold c_next; now rewrite size_ts).
      now apply move_next_rel.
  Qed.
  Lemma ts_prev_rel st c : tsrel st c -> tsrel (ts_prev t st) (c_prev c).
  Proof.
    intros [Hi H]. unfold ts_prev. split; cbn [fst snd]; [now rewrite Hi|now apply move_prev_rel].
  Qed.

  Lemma ts_scan_ok mv cmv : (forall st c, tsrel st c -> tsrel (mv st) (cmv c)) ->
    forall fuel p st c, tsrel st c ->
      ts_scan t mv fuel p st = (fst (ts_scan t mv fuel p st), MOut (snd (scan_to s cmv fuel p c))) /\
      tsrel (fst (ts_scan t mv fuel p st)) (fst (scan_to s cmv fuel p c)).
  Proof.
    intros Hmv. induction fuel as [|f IH]; intros p st c H; cbn [ts_scan scan_to].
    - split; [reflexivity|exact H].
    - pose proof (Hmv st c H) as H'. rewrite (ts_obs_ok _ _ H'). unfold land. cbn [snd].
      destruct (at_ s (cmv c)) as [[k v]|] eqn:Eat.
      + destruct (peval p k v).
        * cbn [fst snd]. split; [reflexivity|exact H'].
        * apply IH. exact H'.
      + cbn [fst snd]. split; [reflexivity|exact H'].
  Qed.

  Lemma tsstep_ok fuel st c m : fuel = S (length s) -> tsrel st c ->
    tsstep t fuel st m = (fst (tsstep t fuel st m), MOut (snd (cstep s c m))) /\
    tsrel (fst (tsstep t fuel st m)) (fst (cstep s c m)).
  Proof.
    intros Hf H. destruct m; cbn [tsstep cstep].
    - pose proof (ts_next_rel st c H) as H'. rewrite (ts_obs_ok _ _ H'). cbn [fst snd]. split; [reflexivity|exact H'].
    - pose proof (ts_prev_rel st c H) as H'. rewrite (ts_obs_ok _ _ H'). cbn [fst snd]. split; [reflexivity|exact H'].
    - assert (H0 : tsrel (-1, TBegin) (-1)) by (split; reflexivity).
      pose proof (ts_next_rel _ _ H0) as H'. rewrite (ts_obs_ok _ _ H'). cbn [fst snd]. split; [reflexivity|exact H'].
    - assert (H0 : tsrel (Z.of_nat (length (elements t)), TEnd) (size s)) by (rewrite size_ts; split; reflexivity).
      pose proof (ts_prev_rel _ _ H0) as H'. rewrite (ts_obs_ok _ _ H'). cbn [fst snd]. split; [reflexivity|exact H'].
    - cbn [fst snd]. split; [reflexivity|split; reflexivity].
    - cbn [fst snd]. split; [reflexivity|]. rewrite size_ts. split; reflexivity.
    - subst fuel. apply ts_scan_ok; [apply ts_next_rel|exact H].
    - subst fuel. apply ts_scan_ok; [apply ts_prev_rel|exact H].
  Qed.

  Theorem treeset_cursor : forall cs st c, tsrel st c ->
    run (tsstep t (S (length s))) st cs = map MOut (run (cstep s) c cs).
  Proof.
    induction cs as [|m cs IH]; intros st c H; cbn [run map]; [reflexivity|].
    destruct (tsstep_ok _ st c m eq_refl H) as [E R]. rewrite E.
    destruct (cstep s c m) as [c' o]. cbn [fst snd map] in *. f_equal. apply IH. exact R.
  Qed.
End TreeSet.
