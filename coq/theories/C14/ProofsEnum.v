(* C14: enumerating with Next from before-first visits exactly the reported sequence *)
From VF Require Import C14.Spec C14.Model C14.Check C14.ProofsIndex C14.ProofsTree C14.ProofsSet.
From Coq Require Import ZifyBool.
Local Open Scope Z_scope.

Lemma at_skipn (s : list (Z * Z)) c : 0 <= c < size s ->
  exists e, at_ s c = Some e /\ skipn (Z.to_nat c) s = e :: skipn (Z.to_nat (c + 1)) s.
Proof.
  intros H. unfold at_. replace ((0 <=? c) && (c <? size s)) with true by lia.
  unfold size in H. destruct (nth_error s (Z.to_nat c)) as [e|] eqn:E.
  - exists e. split; [reflexivity|]. replace (Z.to_nat (c + 1)) with (S (Z.to_nat c)) by lia.
    clear H. revert E. generalize (Z.to_nat c) as n. induction s as [|a s IH]; intros [|n] E; simpl in *; try discriminate.
    + inversion E; reflexivity.
    + now apply IH.
  - apply nth_error_None in E. lia.
Qed.

Lemma spec_each_from (s : list (Z * Z)) : forall k c, -1 <= c -> size s - c <= Z.of_nat k ->
  collect (map MOut (run (cstep s) c (repeat Next k))) = skipn (Z.to_nat (c + 1)) s.
Proof.
  induction k as [|k IH]; intros c Hc Hk.
  - cbn. rewrite skipn_all2; [reflexivity|]. unfold size in Hk. lia.
  - cbn [repeat run]. cbn [cstep]. unfold land, c_next.
    destruct (c <? size s) eqn:E.
    + destruct (Z.ltb_spec (c + 1) (size s)) as [Hlt|Hge].
      * destruct (at_skipn s (c + 1) ltac:(lia)) as (e & -> & Hsk). cbn [map collect].
        rewrite IH by lia. rewrite Hsk. reflexivity.
      * assert (Hat : at_ s (c + 1) = None) by (unfold at_; replace ((0 <=? c + 1) && (c + 1 <? size s)) with false by lia; reflexivity).
        rewrite Hat. cbn [map collect]. rewrite skipn_all2; [reflexivity|]. unfold size in *. lia.
    + assert (Hat : at_ s c = None) by (unfold at_; replace ((0 <=? c) && (c <? size s)) with false by lia; reflexivity).
      rewrite Hat. cbn [map collect]. rewrite skipn_all2; [reflexivity|]. unfold size in *. lia.
Qed.

Lemma spec_each (s : list (Z * Z)) : collect (map MOut (spec_run s (repeat Next (S (length s))))) = s.
Proof. unfold spec_run. rewrite spec_each_from by (unfold size; lia). reflexivity. Qed.

Lemma combine_iseq (ks vs : list Z) : length ks = length vs ->
  combine ks vs = iseq (length ks) (fun i => (zth ks i, zth vs i)).
Proof.
  revert vs. induction ks as [|k ks IH]; intros [|v vs] H; simpl in H; try discriminate; [reflexivity|].
  cbn [combine length]. unfold iseq. cbn [seq map]. f_equal. rewrite IH by lia. unfold iseq.
  rewrite <- seq_shift, map_map. apply map_ext. intros i. unfold zth.
  rewrite !Nat2Z.id. reflexivity.
Qed.
