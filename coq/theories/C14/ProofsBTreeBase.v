(* C14, B-tree iterator, part 1: interleaving of children and entries, fuel-free mirrors of the fuelled
   model functions (equal to them once the fuel covers the depth), in-order index of a position. *)
From VF Require Import C14.Spec C14.Model C14.BTreeShape.
From Coq Require Import ZifyBool.

Notation kv := (Z * Z)%type.

(* ---------- children elements interleaved with entries ---------- *)
Fixpoint interleave (ces : list (list kv)) (es : list kv) : list kv :=
  match ces, es with
  | c :: ces', e :: es' => c ++ e :: interleave ces' es'
  | c :: _, [] => c
  | [], _ => []
  end.

(* position in [interleave ces es] where the elements of child i start *)
Fixpoint off (ces : list (list kv)) (i : nat) : nat :=
  match ces with
  | [] => i
  | c :: ces' => match i with O => O | S i' => length c + 1 + off ces' i' end
  end.

Lemma off_0 ces : off ces 0 = 0.
Proof. destruct ces; reflexivity. Qed.

Lemma off_S ces : forall i, i < length ces -> off ces (S i) = off ces i + length (nth i ces []) + 1.
Proof.
  induction ces as [|c ces IH]; intros i H; cbn [length] in H; [lia|].
  destruct i as [|i].
  - cbn [off nth]. rewrite off_0. lia.
  - cbn [off nth]. cbn [off] in IH. rewrite (IH i) by lia. lia.
Qed.

Lemma off_mono ces : forall i j, i <= j -> off ces i <= off ces j.
Proof.
  induction ces as [|c ces IH]; intros i j H; cbn [off]; [lia|].
  destruct i as [|i]; [lia|]. destruct j as [|j]; [lia|]. specialize (IH i j). lia.
Qed.

Lemma il_child ces : forall es i c m, length ces = S (length es) ->
  nth_error ces i = Some c -> m < length c ->
  nth_error (interleave ces es) (off ces i + m) = nth_error c m.
Proof.
  induction ces as [|c0 ces IH]; intros es i c m HL Hi Hm; cbn [length] in HL; [lia|].
  destruct i as [|i].
  - cbn [nth_error] in Hi. injection Hi as ->. cbn [off]. cbn [Nat.add].
    destruct es as [|e es]; cbn [interleave]; [reflexivity|]. now rewrite nth_error_app1.
  - cbn [nth_error] in Hi. destruct es as [|e es].
    + cbn [length] in HL. destruct ces; [destruct i; discriminate|cbn [length] in HL; lia].
    + cbn [interleave off]. rewrite nth_error_app2 by lia.
      replace (length c0 + 1 + off ces i + m - length c0) with (S (off ces i + m)) by lia.
      cbn [nth_error]. cbn [length] in HL. apply IH; auto; lia.
Qed.

Lemma il_entry ces : forall es e, length ces = S (length es) -> e < length es ->
  nth_error (interleave ces es) (off ces e + length (nth e ces [])) = nth_error es e.
Proof.
  induction ces as [|c0 ces IH]; intros es e HL He; cbn [length] in HL; [lia|].
  destruct es as [|x es]; cbn [length] in He; [lia|]. cbn [length] in HL.
  destruct e as [|e].
  - cbn [off nth interleave Nat.add]. rewrite nth_error_app2 by lia. now rewrite Nat.sub_diag.
  - cbn [off nth interleave]. rewrite nth_error_app2 by lia.
    replace (length c0 + 1 + off ces e + length (nth e ces []) - length c0)
      with (S (off ces e + length (nth e ces []))) by lia.
    cbn [nth_error]. apply IH; lia.
Qed.

Lemma il_len ces : forall es, length ces = S (length es) ->
  S (length (interleave ces es)) = off ces (length ces).
Proof.
  induction ces as [|c0 ces IH]; intros es HL; cbn [length] in HL; [lia|].
  destruct es as [|x es]; cbn [length] in HL.
  - destruct ces; [|cbn [length] in HL; lia]. cbn [interleave length off]. lia.
  - cbn [interleave length off]. rewrite app_length. cbn [length]. specialize (IH es). lia.
Qed.

(* ---------- depth ---------- *)
Lemma depth_child x i c : nth_error (b_children x) i = Some c -> b_depth c < b_depth x.
Proof.
  destruct x as [es cs]. cbn [b_children b_depth]. intros H.
  assert (Hin : In (b_depth c) (map b_depth cs)) by (apply in_map; eapply nth_error_In; eauto).
  assert (HF : Forall (fun k => k <= list_max (map b_depth cs)) (map b_depth cs)) by (apply list_max_le; lia).
  rewrite Forall_forall in HF. specialize (HF _ Hin). lia.
Qed.

Lemma depth_pos x : 1 <= b_depth x.
Proof. destruct x; cbn [b_depth]; lia. Qed.

Lemma depth_1_leaf x : b_depth x <= 1 -> b_children x = [].
Proof.
  intros H. destruct (b_children x) as [|c cs] eqn:E; [reflexivity|].
  assert (Hc : nth_error (b_children x) 0 = Some c) by (rewrite E; reflexivity).
  pose proof (depth_child _ _ _ Hc). pose proof (depth_pos c). lia.
Qed.

(* ---------- fuel-free mirrors ---------- *)
Fixpoint sub (x : bnode) (p : list nat) : option bnode :=
  match p with
  | [] => Some x
  | i :: p' => match nth_error (b_children x) i with Some c => sub c p' | None => None end
  end.

Lemma b_sub_sub : forall fuel x p, b_depth x <= S fuel -> b_sub fuel x p = sub x p.
Proof.
  induction fuel as [|f IH]; intros x p H.
  - destruct p as [|i p]; [reflexivity|]. cbn [b_sub sub]. rewrite (depth_1_leaf x H). now destruct i.
  - destruct p as [|i p]; [reflexivity|]. cbn [b_sub sub].
    destruct (nth_error (b_children x) i) as [c|] eqn:E; [|reflexivity].
    apply IH. pose proof (depth_child _ _ _ E). lia.
Qed.

Lemma sub_depth : forall p x y, sub x p = Some y -> b_depth y + length p <= b_depth x.
Proof.
  induction p as [|i p IH]; intros x y H; cbn [sub length] in *.
  - injection H as ->. lia.
  - destruct (nth_error (b_children x) i) as [c|] eqn:E; [|discriminate].
    pose proof (depth_child _ _ _ E). specialize (IH _ _ H). lia.
Qed.

Lemma sub_app : forall p q x, sub x (p ++ q) = match sub x p with Some y => sub y q | None => None end.
Proof.
  induction p as [|i p IH]; intros q x; cbn [app sub]; [reflexivity|].
  destruct (nth_error (b_children x) i); [apply IH|reflexivity].
Qed.

Lemma b_down_fuel : forall f1 f2 x b, b_depth x <= S f1 -> b_depth x <= S f2 -> b_down f1 x b = b_down f2 x b.
Proof.
  induction f1 as [|f1 IH]; intros f2 x b H1 H2.
  - cbn [b_down]. destruct f2; [reflexivity|]. cbn [b_down].
    now rewrite (depth_1_leaf x H1).
  - destruct f2 as [|f2].
    + cbn [b_down]. now rewrite (depth_1_leaf x H2).
    + cbn [b_down]. destruct (b_children x) as [|c0 cs] eqn:E; [reflexivity|].
      destruct b.
      * f_equal. apply IH.
        -- assert (Hc : nth_error (b_children x) 0 = Some c0) by (rewrite E; reflexivity).
           pose proof (depth_child _ _ _ Hc). lia.
        -- assert (Hc : nth_error (b_children x) 0 = Some c0) by (rewrite E; reflexivity).
           pose proof (depth_child _ _ _ Hc). lia.
      * destruct (nth_error (c0 :: cs) (length (c0 :: cs) - 1)) as [c|] eqn:En; [|reflexivity].
        rewrite <- E in En. pose proof (depth_child _ _ _ En). f_equal. apply IH; lia.
Qed.

Definition down (x : bnode) (b : bool) : list nat := b_down (b_depth x) x b.

Lemma b_down_down fuel x b : b_depth x <= S fuel -> b_down fuel x b = down x b.
Proof. intros H. unfold down. apply b_down_fuel; lia. Qed.

Lemma down_unfold x b :
  down x b = match b_children x with
             | [] => []
             | c0 :: _ =>
                 let cs := b_children x in
                 if b then O :: down c0 true
                 else match nth_error cs (length cs - 1) with
                      | Some c => (length cs - 1) :: down c false
                      | None => []
                      end
             end.
Proof.
  unfold down at 1. destruct x as [es cs]. cbn [b_depth b_down b_children].
  destruct cs as [|c0 cs]; [reflexivity|]. cbv zeta. set (l := c0 :: cs).
  destruct b.
  - f_equal. apply b_down_down.
    assert (Hc : nth_error (b_children (BNode es l)) 0 = Some c0) by reflexivity.
    pose proof (depth_child _ _ _ Hc). cbn [b_depth] in H. lia.
  - destruct (nth_error l (length l - 1)) as [c|] eqn:En; [|reflexivity].
    f_equal. apply b_down_down.
    assert (Hc : nth_error (b_children (BNode es l)) (length l - 1) = Some c) by exact En.
    pose proof (depth_child _ _ _ Hc). cbn [b_depth] in H. lia.
Qed.

Lemma b_elements_S f x :
  b_elements (S f) x = match b_children x with
                       | [] => b_entries x
                       | cs => interleave (map (b_elements f) cs) (b_entries x)
                       end.
Proof.
  cbn [b_elements]. destruct (b_children x) as [|c cs]; [reflexivity|].
  generalize (c :: cs) as l. generalize (b_entries x) as es.
  intros es l. revert es. induction l as [|a l IH]; intros [|e es]; cbn [map interleave]; try reflexivity.
  f_equal. f_equal. apply IH.
Qed.

Lemma b_elements_fuel : forall f1 f2 x, b_depth x <= f1 -> b_depth x <= f2 -> b_elements f1 x = b_elements f2 x.
Proof.
  induction f1 as [|f1 IH]; intros f2 x H1 H2; [pose proof (depth_pos x); lia|].
  destruct f2 as [|f2]; [pose proof (depth_pos x); lia|].
  rewrite !b_elements_S. destruct (b_children x) as [|c cs] eqn:E; [reflexivity|].
  f_equal. apply map_ext_in. intros a Ha. rewrite <- E in Ha.
  apply In_nth_error in Ha. destruct Ha as [i Hi]. pose proof (depth_child _ _ _ Hi). apply IH; lia.
Qed.

Definition elems (x : bnode) : list kv := b_elements (b_depth x) x.

Lemma b_elements_elems fuel x : b_depth x <= fuel -> b_elements fuel x = elems x.
Proof. intros H. unfold elems. apply b_elements_fuel; lia. Qed.

Lemma elems_unfold x :
  elems x = match b_children x with
            | [] => b_entries x
            | cs => interleave (map elems cs) (b_entries x)
            end.
Proof.
  unfold elems at 1. destruct x as [es cs]. cbn [b_depth]. rewrite b_elements_S. cbn [b_children b_entries].
  destruct cs as [|c cs]; [reflexivity|]. f_equal. apply map_ext_in. intros a Ha.
  apply b_elements_elems. apply In_nth_error in Ha. destruct Ha as [i Hi].
  assert (Hc : nth_error (b_children (BNode es (c :: cs))) i = Some a) by exact Hi.
  pose proof (depth_child _ _ _ Hc). cbn [b_depth] in H. lia.
Qed.

(* ---------- well-formedness ---------- *)
Lemma wf_inv x : b_wf x = true ->
  1 <= length (b_entries x) /\
  (b_children x = [] \/ length (b_children x) = S (length (b_entries x))) /\
  (forall i c, nth_error (b_children x) i = Some c -> b_wf c = true).
Proof.
  destruct x as [es cs]. cbn [b_wf b_entries b_children]. intros H.
  apply andb_prop in H. destruct H as [H H3]. apply andb_prop in H. destruct H as [H1 H2].
  split; [|split].
  - destruct es; cbn in *; [discriminate|lia].
  - apply orb_prop in H2. destruct H2 as [H2|H2].
    + left. destruct cs; [reflexivity|discriminate].
    + right. apply Nat.eqb_eq in H2. exact H2.
  - intros i c Hc. rewrite forallb_forall in H3. apply H3. eapply nth_error_In; eauto.
Qed.

(* ---------- positions: (path, entry index) ---------- *)
Definition entry (x : bnode) (p : list nat) (e : nat) : option kv :=
  match sub x p with Some y => nth_error (b_entries y) e | None => None end.

Lemma b_entry_entry fuel x p e : b_depth x <= S fuel -> b_entry fuel x p e = entry x p e.
Proof. intros H. unfold b_entry, entry. now rewrite b_sub_sub. Qed.

Lemma entry_cons x i c p e : nth_error (b_children x) i = Some c -> entry x (i :: p) e = entry c p e.
Proof. intros H. unfold entry. cbn [sub]. now rewrite H. Qed.

Definition celems (x : bnode) : list (list kv) := map elems (b_children x).

Fixpoint idx (x : bnode) (p : list nat) (e : nat) : nat :=
  match p with
  | [] => match b_children x with
          | [] => e
          | _ => off (celems x) e + length (nth e (celems x) [])
          end
  | i :: p' => match nth_error (b_children x) i with
               | Some c => off (celems x) i + idx c p' e
               | None => O
               end
  end.

Lemma celems_nth x i c : nth_error (b_children x) i = Some c -> nth_error (celems x) i = Some (elems c).
Proof. intros H. unfold celems. now apply map_nth_error. Qed.
Lemma celems_nth' x i c : nth_error (b_children x) i = Some c -> nth i (celems x) [] = elems c.
Proof. intros H. apply nth_error_nth. now apply celems_nth. Qed.
Lemma celems_len x : length (celems x) = length (b_children x).
Proof. unfold celems. apply map_length. Qed.

Lemma elems_internal x : b_children x <> [] -> elems x = interleave (celems x) (b_entries x).
Proof. intros H. rewrite elems_unfold. unfold celems. destruct (b_children x); [congruence|reflexivity]. Qed.
Lemma elems_leaf x : b_children x = [] -> elems x = b_entries x.
Proof. intros H. rewrite elems_unfold. now rewrite H. Qed.

Lemma idx_nil_leaf x e : b_children x = [] -> idx x [] e = e.
Proof. intros H. cbn [idx]. now rewrite H. Qed.
Lemma idx_nil_internal x e : b_children x <> [] -> idx x [] e = off (celems x) e + length (nth e (celems x) []).
Proof. intros H. cbn [idx]. destruct (b_children x); [congruence|reflexivity]. Qed.
Lemma idx_cons x i c p e : nth_error (b_children x) i = Some c -> idx x (i :: p) e = off (celems x) i + idx c p e.
Proof. intros H. cbn [idx]. now rewrite H. Qed.

Lemma children_ne x i c : nth_error (b_children x) i = Some c -> b_children x <> [].
Proof. intros H E. rewrite E in H. destruct i; discriminate. Qed.

Lemma wf_internal_len x : b_wf x = true -> b_children x <> [] -> length (celems x) = S (length (b_entries x)).
Proof. intros W H. rewrite celems_len. destruct (wf_inv x W) as (_ & [E|E] & _); [congruence|exact E]. Qed.

Lemma entry_idx : forall p x e r, b_wf x = true -> entry x p e = Some r -> nth_error (elems x) (idx x p e) = Some r.
Proof.
  induction p as [|i p IH]; intros x e r W H.
  - unfold entry in H. cbn [sub] in H. destruct (b_children x) as [|c0 cs] eqn:E.
    + rewrite idx_nil_leaf, elems_leaf by exact E. exact H.
    + assert (NE : b_children x <> []) by congruence.
      rewrite idx_nil_internal, elems_internal by exact NE. rewrite <- H.
      apply il_entry; [now apply wf_internal_len|]. apply nth_error_Some. congruence.
  - unfold entry in H. cbn [sub] in H. destruct (nth_error (b_children x) i) as [c|] eqn:E; [|discriminate].
    destruct (wf_inv x W) as (_ & _ & Wc). specialize (IH c e r (Wc _ _ E) H).
    rewrite (idx_cons _ _ _ _ _ E). rewrite elems_internal by (eapply children_ne; eauto).
    rewrite <- IH. apply il_child with (c := elems c).
    + apply wf_internal_len; [exact W|eapply children_ne; eauto].
    + now apply celems_nth.
    + apply nth_error_Some. congruence.
Qed.

Lemma idx_lt p x e r : b_wf x = true -> entry x p e = Some r -> idx x p e < length (elems x).
Proof. intros W H. apply nth_error_Some. rewrite (entry_idx p x e r W H). discriminate. Qed.

Lemma elems_len_internal x : b_wf x = true -> b_children x <> [] ->
  S (length (elems x)) = off (celems x) (length (celems x)).
Proof. intros W NE. rewrite elems_internal by exact NE. apply il_len. now apply wf_internal_len. Qed.

(* ---------- key order by positions ---------- *)
Definition isorted (l : list kv) : Prop :=
  forall a b ka va kb vb, a < b -> nth_error l a = Some (ka, va) -> nth_error l b = Some (kb, vb) -> (ka < kb)%Z.

Lemma isorted_child x i c : b_wf x = true -> isorted (elems x) -> nth_error (b_children x) i = Some c -> isorted (elems c).
Proof.
  intros W Srt Hc a b ka va kb vb Hab Ha Hb.
  assert (NE : b_children x <> []) by (eapply children_ne; eauto).
  assert (La : a < length (elems c)) by (apply nth_error_Some; congruence).
  assert (Lb : b < length (elems c)) by (apply nth_error_Some; congruence).
  apply (Srt (off (celems x) i + a) (off (celems x) i + b) ka va kb vb); [lia| |].
  - rewrite elems_internal by exact NE. rewrite <- Ha. apply il_child; auto using wf_internal_len, celems_nth.
  - rewrite elems_internal by exact NE. rewrite <- Hb. apply il_child; auto using wf_internal_len, celems_nth.
Qed.

(* b_search on a list whose entries before i are smaller and whose entry i (if any) is bigger / equal *)
Lemma search_miss : forall es key i, i <= length es ->
  (forall j kj vj, j < i -> nth_error es j = Some (kj, vj) -> (kj < key)%Z) ->
  (forall ki vi, nth_error es i = Some (ki, vi) -> (key < ki)%Z) ->
  b_search es key = (i, false).
Proof.
  induction es as [|[k v] es IH]; intros key i Hi Hlt Hgt; cbn [length] in Hi.
  - replace i with 0 by lia. reflexivity.
  - cbn [b_search]. destruct i as [|i].
    + specialize (Hgt k v eq_refl). replace (key =? k)%Z with false by lia. replace (key <? k)%Z with true by lia. reflexivity.
    + pose proof (Hlt 0 k v ltac:(lia) eq_refl) as H0.
      replace (key =? k)%Z with false by lia. replace (key <? k)%Z with false by lia.
      rewrite (IH key i); [reflexivity|lia| |].
      * intros j kj vj Hj Hn. apply (Hlt (S j) kj vj); [lia|exact Hn].
      * intros ki vi Hn. apply (Hgt ki vi). exact Hn.
Qed.

Lemma search_hit : forall es key e v,
  (forall j kj vj, j < e -> nth_error es j = Some (kj, vj) -> (kj < key)%Z) ->
  nth_error es e = Some (key, v) ->
  b_search es key = (e, true).
Proof.
  induction es as [|[k w] es IH]; intros key e v Hlt He.
  - destruct e; discriminate.
  - cbn [b_search]. destruct e as [|e].
    + cbn [nth_error] in He. injection He as -> ->. now rewrite Z.eqb_refl.
    + pose proof (Hlt 0 k w ltac:(lia) eq_refl) as H0.
      replace (key =? k)%Z with false by lia. replace (key <? k)%Z with false by lia.
      rewrite (IH key e v); [reflexivity| |exact He].
      intros j kj vj Hj Hn. apply (Hlt (S j) kj vj); [lia|exact Hn].
Qed.

Lemma idx_nil_mono x j e : b_wf x = true -> j < e -> e < length (b_entries x) -> idx x [] j < idx x [] e.
Proof.
  intros W Hj He. destruct (b_children x) as [|c0 cs] eqn:E.
  - rewrite !idx_nil_leaf by exact E. exact Hj.
  - assert (NE : b_children x <> []) by congruence.
    rewrite !idx_nil_internal by exact NE.
    pose proof (wf_internal_len x W NE) as HL.
    pose proof (off_S (celems x) j ltac:(lia)) as HS.
    pose proof (off_mono (celems x) (S j) e ltac:(lia)). lia.
Qed.

Lemma search_at x e key v : b_wf x = true -> isorted (elems x) ->
  nth_error (b_entries x) e = Some (key, v) -> b_search (b_entries x) key = (e, true).
Proof.
  intros W Srt He. apply search_hit with (v := v); [|exact He].
  intros j kj vj Hj Hn.
  assert (Le : e < length (b_entries x)) by (apply nth_error_Some; congruence).
  apply (Srt (idx x [] j) (idx x [] e) kj vj key v).
  - now apply idx_nil_mono.
  - apply entry_idx; [exact W|exact Hn].
  - apply entry_idx; [exact W|exact He].
Qed.

Lemma search_child x i c m key v : b_wf x = true -> isorted (elems x) ->
  nth_error (b_children x) i = Some c -> nth_error (elems c) m = Some (key, v) ->
  b_search (b_entries x) key = (i, false).
Proof.
  intros W Srt Hc Hm.
  assert (NE : b_children x <> []) by (eapply children_ne; eauto).
  pose proof (wf_internal_len x W NE) as HL.
  assert (Li : i < length (celems x)) by (rewrite celems_len; apply nth_error_Some; congruence).
  assert (Lm : m < length (elems c)) by (apply nth_error_Some; congruence).
  assert (Pm : nth_error (elems x) (off (celems x) i + m) = Some (key, v)).
  { rewrite elems_internal by exact NE. rewrite <- Hm. apply il_child; auto using celems_nth. }
  apply search_miss; [lia| |].
  - intros j kj vj Hj Hn.
    assert (Lj : j < length (b_entries x)) by (apply nth_error_Some; congruence).
    apply (Srt (idx x [] j) (off (celems x) i + m) kj vj key v); [| |exact Pm].
    + rewrite idx_nil_internal by exact NE.
      pose proof (off_S (celems x) j ltac:(lia)). pose proof (off_mono (celems x) (S j) i ltac:(lia)). lia.
    + apply entry_idx; [exact W|exact Hn].
  - intros ki vi Hn.
    apply (Srt (off (celems x) i + m) (idx x [] i) key v ki vi); [|exact Pm|].
    + rewrite idx_nil_internal by exact NE. rewrite (celems_nth' _ _ _ Hc). lia.
    + apply entry_idx; [exact W|exact Hn].
Qed.
