(* C14: index iterators and linked-list iterators simulate the specification cursor *)
From VF Require Import C14.Spec C14.Model.
From Coq Require Import ZifyBool.
Local Open Scope Z_scope.

(* the sequence an indexed container of size n with value function f reports *)
Definition iseq (n : nat) (f : Z -> Z * Z) : list (Z * Z) := map (fun i => f (Z.of_nat i)) (seq 0 n).

Lemma iseq_length n f : length (iseq n f) = n.
Proof. unfold iseq. now rewrite map_length, seq_length. Qed.

Lemma iseq_at n f c : 0 <= c < Z.of_nat n -> at_ (iseq n f) c = Some (f c).
Proof.
  intros H. unfold at_, size. rewrite iseq_length.
  replace ((0 <=? c) && (c <? Z.of_nat n)) with true by lia.
  unfold iseq. rewrite nth_error_map, nth_error_nth' with (d := O) by (rewrite seq_length; lia).
  rewrite seq_nth by lia. simpl. now rewrite Z2Nat.id by lia.
Qed.

Lemma iseq_at_out n f c : ~ (0 <= c < Z.of_nat n) -> at_ (iseq n f) c = None.
Proof.
  intros H. unfold at_, size. rewrite iseq_length.
  replace ((0 <=? c) && (c <? Z.of_nat n)) with false by lia. reflexivity.
Qed.

Section IndexSim.
  Variable n : nat.
  Variable value_at : Z -> Z.
  Let nz := Z.of_nat n.
  Let s := iseq n (fun i => (i, value_at i)).

  Lemma i_land_ok i : i_land nz value_at i = (i, MOut (snd (land s i))).
  Proof.
    unfold i_land, land, within. simpl. destruct ((0 <=? i) && (i <? nz)) eqn:E.
    - unfold s. rewrite iseq_at by (unfold nz in *; lia). reflexivity.
    - unfold s. rewrite iseq_at_out by (unfold nz in *; lia). reflexivity.
  Qed.

  Lemma size_s : size s = nz. Proof. unfold size, s. now rewrite iseq_length. Qed.
  Lemma i_next_ok i : i_next nz i = c_next s i. Proof. unfold i_next, c_next. now rewrite size_s. Qed.
  Lemma i_prev_ok i : i_prev i = c_prev i. Proof. reflexivity. Qed.

  Lemma i_scan_ok step cstep' : (forall i, step i = cstep' i) ->
    forall fuel p i, i_scan nz value_at step fuel p i =
                     (fst (scan_to s cstep' fuel p i), MOut (snd (scan_to s cstep' fuel p i))).
  Proof.
    intros Hs. induction fuel as [|f IH]; intros p i; cbn [i_scan scan_to]; [reflexivity|].
    rewrite Hs. unfold within. destruct ((0 <=? cstep' i) && (cstep' i <? nz)) eqn:E.
    - unfold s at 1 3. rewrite iseq_at by (unfold nz in *; lia).
      destruct (peval p (cstep' i) (value_at (cstep' i))); [reflexivity|apply IH].
    - unfold s at 1 3. rewrite iseq_at_out by (unfold nz in *; lia). reflexivity.
  Qed.

  Lemma istep_ok fuel i m : fuel = S (length s) ->
    istep nz value_at fuel i m = (fst (cstep s i m), MOut (snd (cstep s i m))).
  Proof.
    intros Hf. destruct m; cbn [istep cstep].
    - rewrite i_land_ok, i_next_ok. reflexivity.
    - rewrite i_land_ok. reflexivity.
    - rewrite i_land_ok, i_next_ok. reflexivity.
    - rewrite i_land_ok, size_s. reflexivity.
    - reflexivity.
    - rewrite size_s. reflexivity.
    - subst fuel. apply i_scan_ok. apply i_next_ok.
    - subst fuel. apply i_scan_ok. apply i_prev_ok.
  Qed.

  Theorem index_cursor : forall cs i,
    run (istep nz value_at (S (length s))) i cs = map MOut (run (cstep s) i cs).
  Proof.
    induction cs as [|c cs IH]; intros i; cbn [run map]; [reflexivity|].
    rewrite istep_ok by reflexivity. destruct (cstep s i c) as [i' o]. cbn [fst snd map]. now rewrite IH.
  Qed.
End IndexSim.

Section LinkedSim.
  Variable n : nat.
  Variable elem_obs : Z -> Z -> Z * Z.
  Variable bidir : bool.
  Let nz := Z.of_nat n.
  Let s := iseq n (fun i => elem_obs i i).

  (* whenever the index is on an element the pointer is that element; outside, the pointer is never dereferenced *)
  Definition linv (st : lstate) : Prop :=
    -1 <= fst st <= nz /\ (0 <= fst st < nz -> snd st = Some (fst st)).

  Lemma size_ls : size s = nz. Proof. unfold size, s. now rewrite iseq_length. Qed.

  Lemma l_next_ok st : linv st ->
    exists e', l_next nz st = LOk (c_next s (fst st), e') (within nz (c_next s (fst st))) /\ linv (c_next s (fst st), e').
  Proof.
    destruct st as [i e]. intros [Hr He]. cbn [fst snd] in *. unfold l_next, c_next. rewrite size_ls.
    destruct (i <? nz) eqn:E1.
    - unfold within. destruct ((0 <=? i + 1) && (i + 1 <? nz)) eqn:E2; cbn [negb].
      + destruct (i + 1 =? 0) eqn:E3.
        * eexists. split; [reflexivity|]. split; cbn [fst snd]; [lia|]. intros _. unfold l_first.
          replace (0 <? nz) with true by lia. f_equal. lia.
        * rewrite He by lia. eexists. split; [reflexivity|]. split; cbn [fst snd]; [lia|]. intros _.
          unfold l_nextp. replace (i + 1 <? nz) with true by lia. reflexivity.
      + eexists. split; [reflexivity|]. split; cbn [fst snd]; lia.
    - unfold within. replace ((0 <=? i) && (i <? nz)) with false by lia. cbn [negb].
      eexists. split; [reflexivity|]. split; cbn [fst snd]; lia.
  Qed.

  Lemma l_prev_ok st : linv st ->
    exists e', l_prev nz st = LOk (c_prev (fst st), e') (within nz (c_prev (fst st))) /\ linv (c_prev (fst st), e').
  Proof.
    destruct st as [i e]. intros [Hr He]. cbn [fst snd] in *. unfold l_prev, c_prev.
    destruct (0 <=? i) eqn:E1.
    - unfold within. destruct ((0 <=? i - 1) && (i - 1 <? nz)) eqn:E2; cbn [negb].
      + destruct (i - 1 =? nz - 1) eqn:E3.
        * eexists. split; [reflexivity|]. split; cbn [fst snd]; [lia|]. intros _. unfold l_last.
          replace (0 <? nz) with true by lia. f_equal. lia.
        * rewrite He by lia. eexists. split; [reflexivity|]. split; cbn [fst snd]; [lia|]. intros _.
          unfold l_prevp. replace (0 <=? i - 1) with true by lia. reflexivity.
      + eexists. split; [reflexivity|]. split; cbn [fst snd]; lia.
    - unfold within. replace ((0 <=? i) && (i <? nz)) with false by lia. cbn [negb].
      eexists. split; [reflexivity|]. split; cbn [fst snd]; lia.
  Qed.

  Lemma l_value_ok i e : linv (i, e) -> within nz i = true -> l_value nz elem_obs i e = Some (elem_obs i i) /\ at_ s i = Some (elem_obs i i).
  Proof.
    intros [Hr He] Hw. cbn [fst snd] in *. assert (Hb : 0 <= i < nz) by (unfold within in Hw; lia).
    rewrite He by lia. unfold l_value.
    rewrite Hw. split; [reflexivity|]. unfold s. rewrite iseq_at by (unfold nz in *; lia). reflexivity.
  Qed.

  Lemma l_out_ok c e : linv (c, e) ->
    l_out nz elem_obs (LOk (c, e) (within nz c)) = ((c, e), MOut (snd (land s c))).
  Proof.
    intros Hi. unfold l_out, land. cbn [snd]. destruct (within nz c) eqn:Hw.
    - destruct (l_value_ok c e Hi Hw) as [-> ->]. reflexivity.
    - unfold s. rewrite iseq_at_out; [reflexivity|]. unfold within in Hw. unfold nz in *. lia.
  Qed.

  Lemma l_scan_ok (mv : lstate -> lres) (cmv : Z -> Z) :
    (forall st, linv st -> exists e', mv st = LOk (cmv (fst st), e') (within nz (cmv (fst st))) /\ linv (cmv (fst st), e')) ->
    forall fuel p st, linv st ->
      exists e', l_scan nz elem_obs mv fuel p st =
                 ((fst (scan_to s cmv fuel p (fst st)), e'), MOut (snd (scan_to s cmv fuel p (fst st))))
                 /\ linv (fst (scan_to s cmv fuel p (fst st)), e').
  Proof.
    intros Hmv. induction fuel as [|f IH]; intros p st Hi; cbn [l_scan scan_to].
    - exists (snd st). destruct st; cbn [fst snd]. split; [reflexivity|exact Hi].
    - destruct (Hmv st Hi) as (e' & -> & Hi'). destruct (within nz (cmv (fst st))) eqn:Hw.
      + destruct (l_value_ok _ _ Hi' Hw) as [-> ->]. destruct (elem_obs (cmv (fst st)) (cmv (fst st))) as [k v].
        destruct (peval p k v).
        * exists e'. cbn [fst snd]. split; [reflexivity|exact Hi'].
        * destruct (IH p (cmv (fst st), e') Hi') as (e2 & E & Hi2). cbn [fst] in *. exists e2. split; assumption.
      + assert (Eat : at_ s (cmv (fst st)) = None).
        { unfold s. apply iseq_at_out. unfold within in Hw. unfold nz in *. lia. }
        rewrite Eat. exists e'. cbn [fst snd]. split; [reflexivity|exact Hi'].
  Qed.

  Lemma lstep_ok st m : linv st ->
    exists e', lstep nz elem_obs bidir (S (length s)) st m = ((fst (cstep s (fst st) m), e'), MOut (snd (cstep s (fst st) m)))
               /\ linv (fst (cstep s (fst st) m), e').
  Proof.
    intros Hi. destruct m; cbn [lstep cstep].
    - destruct (l_next_ok st Hi) as (e' & -> & Hi'). exists e'. rewrite l_out_ok by exact Hi'. split; [reflexivity|exact Hi'].
    - destruct (l_prev_ok st Hi) as (e' & -> & Hi'). exists e'. rewrite l_out_ok by exact Hi'. split; [reflexivity|exact Hi'].
    - assert (H0 : linv (-1, None)) by (split; cbn [fst snd]; unfold nz; lia).
      destruct (l_next_ok _ H0) as (e' & -> & Hi'). cbn [fst] in *. exists e'. rewrite l_out_ok by exact Hi'. split; [reflexivity|exact Hi'].
    - assert (H0 : linv (nz, if bidir then l_last nz else None)) by (split; cbn [fst snd]; unfold nz; lia).
      destruct (l_prev_ok _ H0) as (e' & -> & Hi'). cbn [fst] in *. rewrite size_ls. exists e'. rewrite l_out_ok by exact Hi'. split; [reflexivity|exact Hi'].
    - exists None. split; [reflexivity|]. split; cbn [fst snd]; unfold nz; lia.
    - rewrite size_ls. eexists. split; [reflexivity|]. split; cbn [fst snd]; unfold nz; lia.
    - apply l_scan_ok; [apply l_next_ok|exact Hi].
    - apply l_scan_ok; [apply l_prev_ok|exact Hi].
  Qed.

  Theorem linked_cursor : forall cs st, linv st ->
    run (lstep nz elem_obs bidir (S (length s))) st cs = map MOut (run (cstep s) (fst st) cs).
  Proof.
    induction cs as [|c cs IH]; intros st Hi; cbn [run map]; [reflexivity|].
    destruct (lstep_ok st c Hi) as (e' & -> & Hi'). destruct (cstep s (fst st) c) as [i' o]. cbn [fst snd map] in *.
    f_equal. now rewrite (IH (i', e') Hi').
  Qed.
End LinkedSim.
