(* C14 models: the iterators of the Go containers as written.
   - index iterators (arraylist, arrayqueue, circularbuffer, arraystack, linkedlistqueue, linkedliststack,
     binaryheap, priorityqueue): an index in [-1, size];
   - linked-list iterators (doublylinkedlist, singlylinkedlist, linkedhashmap, linkedhashset): index plus an
     element pointer, modelled as the position of the element (None = nil); dereferencing nil is Panic;
   - red-black / AVL iterators: node pointers as paths from the root, Parent = drop the last step;
   - B-tree iterator: node path plus the entry, relocated in its node by key search as the code does. *)
From VF Require Export C14.Spec.
Local Open Scope Z_scope.

Inductive mout := MOut (o : out) | MPanic.

(* ---------- index iterators ---------- *)
Section Index.
  Variable n : Z.                    (* Size() *)
  Variable value_at : Z -> Z.        (* Value() at an in-range index *)
  Definition within (i : Z) : bool := (0 <=? i) && (i <? n).
  Definition i_land (i : Z) : Z * mout :=
    (i, MOut (if within i then (true, Some (i, value_at i)) else miss)).
  Definition i_next (i : Z) : Z := if i <? n then i + 1 else i.      (* if index < size { index++ } *)
  Definition i_prev (i : Z) : Z := if 0 <=? i then i - 1 else i.      (* if index >= 0 { index-- } *)
  Fixpoint i_scan (step : Z -> Z) (fuel : nat) (p : pred) (i : Z) : Z * mout :=   (* for it.Next() { if f(..) return true } *)
    match fuel with
    | O => (i, MOut miss)
    | S f => let i' := step i in
             if within i' then
               if peval p i' (value_at i') then (i', MOut (true, Some (i', value_at i')))
               else i_scan step f p i'
             else (i', MOut miss)
    end.
  Definition istep (fuel : nat) (i : Z) (m : cmd) : Z * mout :=
    match m with
    | Next => i_land (i_next i)
    | Prev => i_land (i_prev i)
    | First => i_land (i_next (-1))
    | Last => i_land (i_prev n)
    | Begin => (-1, MOut miss)
    | End => (n, MOut miss)
    | NextTo p => i_scan i_next fuel p i
    | PrevTo p => i_scan i_prev fuel p i
    end.
End Index.

Definition zth (l : list Z) (i : Z) : Z := nth (Z.to_nat i) l 0.

(* binaryheap.Iterator.Value: the (index-start)-th smallest element of the heap level containing index *)
Fixpoint insert_sorted (x : Z) (l : list Z) : list Z :=
  match l with [] => [x] | y :: t => if x <=? y then x :: l else y :: insert_sorted x t end.
Definition isort (l : list Z) : list Z := fold_right insert_sorted [] l.
Definition level_start (i : Z) : Z := 2 ^ (Z.log2 (i + 1)) - 1.     (* evaluateRange: 1<<bits - 1, bits = numOfBits(index+1)-1 *)
Definition heap_value (arr : list Z) (i : Z) : Z :=
  let st := level_start i in
  let en := Z.min (st + (st + 1)) (Z.of_nat (length arr)) in
  let level := firstn (Z.to_nat (en - st)) (skipn (Z.to_nat st) arr) in
  zth (isort level) (i - st).

(* ---------- linked-list iterators ---------- *)
Section Linked.
  Variable ln : Z.                        (* list.size *)
  Variable elem_obs : Z -> Z -> Z * Z.    (* what Key()/Index() and Value() show: index, element position -> (key, value) *)
  Variable bidir : bool.                  (* doubly linked: End sets element = last *)
  Definition l_first : option Z := if 0 <? ln then Some 0 else None.
  Definition l_last : option Z := if 0 <? ln then Some (ln - 1) else None.
  Definition l_nextp (p : Z) : option Z := if p + 1 <? ln then Some (p + 1) else None.   (* element.next *)
  Definition l_prevp (p : Z) : option Z := if 0 <=? p - 1 then Some (p - 1) else None.   (* element.prev *)
  Definition lstate := (Z * option Z)%type.
  Inductive lres := LOk (st : lstate) (b : bool) | LPanic.

  Definition l_next (st : lstate) : lres :=
    let '(i, e) := st in
    let i' := if i <? ln then i + 1 else i in
    if negb (within ln i') then LOk (i', None) false
    else if i' =? 0 then LOk (i', l_first) true
    else match e with None => LPanic | Some p => LOk (i', l_nextp p) true end.
  Definition l_prev (st : lstate) : lres :=
    let '(i, e) := st in
    let i' := if 0 <=? i then i - 1 else i in
    if negb (within ln i') then LOk (i', None) false
    else if i' =? ln - 1 then LOk (i', l_last) true
    else match e with None => LPanic | Some p => LOk (i', l_prevp p) true end.
  Definition l_value (i : Z) (e : option Z) : option (Z * Z) :=         (* iterator.element.value: nil element panics *)
    match e with Some p => if within ln p then Some (elem_obs i p) else None | None => None end.
  Definition l_out (r : lres) : lstate * mout :=
    match r with
    | LPanic => ((-1, None), MPanic)
    | LOk (i, e) true => match l_value i e with
                         | Some kv => ((i, e), MOut (true, Some kv))
                         | None => ((i, e), MPanic)
                         end
    | LOk st false => (st, MOut miss)
    end.
  Fixpoint l_scan (mv : lstate -> lres) (fuel : nat) (p : pred) (st : lstate) : lstate * mout :=
    match fuel with
    | O => (st, MOut miss)
    | S f => match mv st with
             | LPanic => (st, MPanic)
             | LOk st' false => (st', MOut miss)
             | LOk (i, e) true =>
                 match l_value i e with
                 | None => ((i, e), MPanic)
                 | Some (k, v) => if peval p k v then ((i, e), MOut (true, Some (k, v))) else l_scan mv f p (i, e)
                 end
             end
    end.
  Definition lstep (fuel : nat) (st : lstate) (m : cmd) : lstate * mout :=
    match m with
    | Next => l_out (l_next st)
    | Prev => l_out (l_prev st)
    | First => l_out (l_next (-1, None))
    | Last => l_out (l_prev (ln, if bidir then l_last else None))
    | Begin => ((-1, None), MOut miss)
    | End => ((ln, if bidir then l_last else None), MOut miss)
    | NextTo p => l_scan l_next fuel p st
    | PrevTo p => l_scan l_prev fuel p st
    end.
End Linked.

(* ---------- binary search tree iterators (red-black, AVL) ---------- *)
Inductive bt := BL | BN (l : bt) (k v : Z) (r : bt).
Inductive dir := DL | DR.
Definition path := list dir.

Fixpoint elements (t : bt) : list (Z * Z) :=
  match t with BL => [] | BN l k v r => elements l ++ (k, v) :: elements r end.

Fixpoint subtree (t : bt) (p : path) : bt :=
  match p, t with
  | [], _ => t
  | DL :: p', BN l _ _ _ => subtree l p'
  | DR :: p', BN _ _ _ r => subtree r p'
  | _ :: _, BL => BL
  end.

Definition entry_at (t : bt) (p : path) : option (Z * Z) :=
  match subtree t p with BN _ k v _ => Some (k, v) | BL => None end.

(* for node.Left != nil { node = node.Left } *)
Fixpoint leftmost (t : bt) : path :=
  match t with BN (BN _ _ _ _ as l) _ _ _ => DL :: leftmost l | _ => [] end.
Fixpoint rightmost (t : bt) : path :=
  match t with BN _ _ _ (BN _ _ _ _ as r) => DR :: rightmost r | _ => [] end.

(* for node.Parent != nil { child := node; node = node.Parent; if child == node.Left { found } }   (rp = reversed path)
   AVL walk1(1): p := n.Parent; for p != nil && p.Children[1] == n { n = p; p = p.Parent }; return p — the same walk *)
Fixpoint climb_from (d : dir) (rp : list dir) : option (list dir) :=
  match rp with
  | [] => None
  | x :: rp' => match d, x with
                | DL, DL | DR, DR => Some rp'
                | _, _ => climb_from d rp'
                end
  end.

Definition t_next (t : bt) (p : path) : option path :=
  match subtree t p with
  | BN _ _ _ (BN _ _ _ _ as r) => Some (p ++ DR :: leftmost r)
  | _ => match climb_from DL (rev p) with Some rp => Some (rev rp) | None => None end
  end.
Definition t_prev (t : bt) (p : path) : option path :=
  match subtree t p with
  | BN (BN _ _ _ _ as l) _ _ _ => Some (p ++ DL :: rightmost l)
  | _ => match climb_from DR (rev p) with Some rp => Some (rev rp) | None => None end
  end.

Inductive tpos := TBegin | TAt (p : path) | TEnd.
Definition t_left (t : bt) : option path := match t with BL => None | _ => Some (leftmost t) end.    (* tree.Left() *)
Definition t_right (t : bt) : option path := match t with BL => None | _ => Some (rightmost t) end.  (* tree.Right() *)

Definition t_move_next (t : bt) (s : tpos) : tpos :=
  match s with
  | TEnd => TEnd
  | TBegin => match t_left t with Some p => TAt p | None => TEnd end
  | TAt p => match t_next t p with Some q => TAt q | None => TEnd end
  end.
Definition t_move_prev (t : bt) (s : tpos) : tpos :=
  match s with
  | TBegin => TBegin
  | TEnd => match t_right t with Some p => TAt p | None => TBegin end
  | TAt p => match t_prev t p with Some q => TAt q | None => TBegin end
  end.
Definition t_out (t : bt) (s : tpos) : tpos * mout :=
  match s with
  | TAt p => match entry_at t p with Some e => (s, MOut (true, Some e)) | None => (s, MPanic) end
  | _ => (s, MOut miss)
  end.
Fixpoint t_scan (t : bt) (mv : tpos -> tpos) (fuel : nat) (p : pred) (s : tpos) : tpos * mout :=
  match fuel with
  | O => (s, MOut miss)
  | S f => match mv s with
           | TAt q => match entry_at t q with
                      | Some (k, v) => if peval p k v then (TAt q, MOut (true, Some (k, v))) else t_scan t mv f p (TAt q)
                      | None => (TAt q, MPanic)
                      end
           | s' => (s', MOut miss)
           end
  end.
Definition tstep (t : bt) (fuel : nat) (s : tpos) (m : cmd) : tpos * mout :=
  match m with
  | Next => t_out t (t_move_next t s)
  | Prev => t_out t (t_move_prev t s)
  | First => t_out t (t_move_next t TBegin)
  | Last => t_out t (t_move_prev t TEnd)
  | Begin => (TBegin, MOut miss)
  | End => (TEnd, MOut miss)
  | NextTo p => t_scan t (t_move_next t) fuel p s
  | PrevTo p => t_scan t (t_move_prev t) fuel p s
  end.

(* treeset.Iterator = an index counter next to the red-black iterator; Index() is the counter, Value() the tree key *)
Definition ts_state := (Z * tpos)%type.
Definition ts_obs (t : bt) (st : ts_state) : ts_state * mout :=
  match snd st with
  | TAt p => match entry_at t p with Some (k, _) => (st, MOut (true, Some (fst st, k))) | None => (st, MPanic) end
  | _ => (st, MOut miss)
  end.
Definition ts_next (t : bt) (st : ts_state) : ts_state :=
  (i_next (Z.of_nat (length (elements t))) (fst st), t_move_next t (snd st)).
Definition ts_prev (t : bt) (st : ts_state) : ts_state := (i_prev (fst st), t_move_prev t (snd st)).
Fixpoint ts_scan (t : bt) (mv : ts_state -> ts_state) (fuel : nat) (p : pred) (st : ts_state) : ts_state * mout :=
  match fuel with
  | O => (st, MOut miss)
  | S f => let st' := mv st in
           match ts_obs t st' with
           | (_, MOut (true, Some (i, k))) => if peval p i k then (st', MOut (true, Some (i, k))) else ts_scan t mv f p st'
           | r => r
           end
  end.
Definition tsstep (t : bt) (fuel : nat) (st : ts_state) (m : cmd) : ts_state * mout :=
  let n := Z.of_nat (length (elements t)) in
  match m with
  | Next => ts_obs t (ts_next t st)
  | Prev => ts_obs t (ts_prev t st)
  | First => ts_obs t (ts_next t (-1, TBegin))
  | Last => ts_obs t (ts_prev t (n, TEnd))
  | Begin => ((-1, TBegin), MOut miss)
  | End => ((n, TEnd), MOut miss)
  | NextTo p => ts_scan t (ts_next t) fuel p st
  | PrevTo p => ts_scan t (ts_prev t) fuel p st
  end.

(* ---------- B-tree iterator ---------- *)
Inductive bnode := BNode (entries : list (Z * Z)) (children : list bnode).
Definition b_entries (x : bnode) := match x with BNode e _ => e end.
Definition b_children (x : bnode) := match x with BNode _ c => c end.

Fixpoint b_sub (fuel : nat) (x : bnode) (p : list nat) : option bnode :=
  match p with
  | [] => Some x
  | i :: p' => match fuel with
               | O => None
               | S f => match nth_error (b_children x) i with Some c => b_sub f c p' | None => None end
               end
  end.

(* tree.search(node, key): position of the first entry with key >= target, and whether it is equal *)
Fixpoint b_search (es : list (Z * Z)) (key : Z) : nat * bool :=
  match es with
  | [] => (O, false)
  | (k, _) :: t => if key =? k then (O, true) else if key <? k then (O, false)
                   else let '(i, f) := b_search t key in (S i, f)
  end.

(* descend: for len(node.Children) > 0 { node = node.Children[0] }  /  last child *)
Fixpoint b_down (fuel : nat) (x : bnode) (first : bool) : list nat :=
  match fuel with
  | O => []
  | S f => match b_children x with
           | [] => []
           | c0 :: _ =>
               let cs := b_children x in
               if first then O :: b_down f c0 true
               else match nth_error cs (length cs - 1) with
                    | Some c => (length cs - 1)%nat :: b_down f c false
                    | None => []
                    end
           end
  end.

Inductive bpos := BBegin | BAt (p : list nat) (key val : Z) | BEnd | BPanic.

Definition b_entry (fuel : nat) (root : bnode) (p : list nat) (i : nat) : option (Z * Z) :=
  match b_sub fuel root p with Some x => nth_error (b_entries x) i | None => None end.
Definition b_at (fuel : nat) (root : bnode) (p : list nat) (i : nat) : bpos :=
  match b_entry fuel root p i with Some (k, v) => BAt p k v | None => BPanic end.

(* climbing loop of Next: node = node.Parent; e = search(node, key); if e < len(Entries) -> entry e *)
Fixpoint b_climb_next (fuel : nat) (root : bnode) (rp : list nat) (key : Z) : bpos :=
  match rp with
  | [] => BEnd
  | _ :: rp' =>
      match b_sub fuel root (rev rp') with
      | None => BPanic
      | Some x => let '(e, _) := b_search (b_entries x) key in
                  if (e <? length (b_entries x))%nat then b_at fuel root (rev rp') e
                  else b_climb_next fuel root rp' key
      end
  end.
Fixpoint b_climb_prev (fuel : nat) (root : bnode) (rp : list nat) (key : Z) : bpos :=
  match rp with
  | [] => BBegin
  | _ :: rp' =>
      match b_sub fuel root (rev rp') with
      | None => BPanic
      | Some x => let '(e, _) := b_search (b_entries x) key in
                  if (1 <=? e)%nat then b_at fuel root (rev rp') (e - 1)
                  else b_climb_prev fuel root rp' key
      end
  end.

Definition b_isempty (root : bnode) : bool := match b_entries root with [] => true | _ => false end.

Definition b_move_next (fuel : nat) (root : bnode) (s : bpos) : bpos :=
  match s with
  | BEnd => BEnd
  | BPanic => BPanic
  | BBegin => if b_isempty root then BEnd else b_at fuel root (b_down fuel root true) 0
  | BAt p key _ =>
      match b_sub fuel root p with
      | None => BPanic
      | Some x =>
          let '(e, _) := b_search (b_entries x) key in
          if (e + 1 <? length (b_children x))%nat then
            match nth_error (b_children x) (e + 1) with
            | Some c => b_at fuel root (p ++ (e + 1)%nat :: b_down fuel c true) 0
            | None => BPanic
            end
          else if (e + 1 <? length (b_entries x))%nat then b_at fuel root p (e + 1)
          else b_climb_next fuel root (rev p) key
      end
  end.

Definition b_last_idx (fuel : nat) (root : bnode) (p : list nat) : nat :=
  match b_sub fuel root p with Some x => (length (b_entries x) - 1)%nat | None => O end.

Definition b_move_prev (fuel : nat) (root : bnode) (s : bpos) : bpos :=
  match s with
  | BBegin => BBegin
  | BPanic => BPanic
  | BEnd => if b_isempty root then BBegin
            else let p := b_down fuel root false in b_at fuel root p (b_last_idx fuel root p)
  | BAt p key _ =>
      match b_sub fuel root p with
      | None => BPanic
      | Some x =>
          let '(e, _) := b_search (b_entries x) key in
          if (e <? length (b_children x))%nat then
            match nth_error (b_children x) e with
            | Some c => let q := p ++ e :: b_down fuel c false in b_at fuel root q (b_last_idx fuel root q)
            | None => BPanic
            end
          else if (1 <=? e)%nat then b_at fuel root p (e - 1)
          else b_climb_prev fuel root (rev p) key
      end
  end.

Definition b_out (s : bpos) : bpos * mout :=
  match s with
  | BAt _ k v => (s, MOut (true, Some (k, v)))
  | BPanic => (s, MPanic)
  | _ => (s, MOut miss)
  end.
Fixpoint b_scan (mv : bpos -> bpos) (fuel : nat) (p : pred) (s : bpos) : bpos * mout :=
  match fuel with
  | O => (s, MOut miss)
  | S f => match mv s with
           | BAt q k v => if peval p k v then (BAt q k v, MOut (true, Some (k, v))) else b_scan mv f p (BAt q k v)
           | BPanic => (BPanic, MPanic)
           | s' => (s', MOut miss)
           end
  end.
Definition bstep (fuel : nat) (root : bnode) (s : bpos) (m : cmd) : bpos * mout :=
  match m with
  | Next => b_out (b_move_next fuel root s)
  | Prev => b_out (b_move_prev fuel root s)
  | First => b_out (b_move_next fuel root BBegin)
  | Last => b_out (b_move_prev fuel root BEnd)
  | Begin => (BBegin, MOut miss)
  | End => (BEnd, MOut miss)
  | NextTo p => b_scan (b_move_next fuel root) fuel p s
  | PrevTo p => b_scan (b_move_prev fuel root) fuel p s
  end.

(* in-order sequence of a B-tree (fuel = depth bound) *)
Fixpoint b_elements (fuel : nat) (x : bnode) : list (Z * Z) :=
  match fuel with
  | O => []
  | S f =>
      match b_children x with
      | [] => b_entries x
      | cs => (fix go (es : list (Z * Z)) (cs : list bnode) : list (Z * Z) :=
                 match cs, es with
                 | c :: cs', e :: es' => b_elements f c ++ e :: go es' cs'
                 | c :: _, [] => b_elements f c
                 | [], _ => []
                 end) (b_entries x) cs
      end
  end.
