(* C14 correspondence checker *)
From VF Require Import C14.Spec C14.Model C14.BTreeShape.
Local Open Scope Z_scope.

Inductive kind :=
| KIndex (vals : list Z)
| KHeap (arr : list Z)
| KLinked (bidir : bool) (vals : list Z)
| KLinkedKV (keys vals : list Z)
| KTree (t : bt)
| KTreeSet (t : bt)
| KBTree (root : bnode).

Inductive eobs :=
| EEach (visited : list (Z * Z))
| EAny (p : pred) (b : bool) | EAll (p : pred) (b : bool)
| EFind (p : pred) (r : option (Z * Z))
| ESelect (p : pred) (res : list (Z * Z))
| EMap (res : list (Z * Z))
(* heap / priority queue: the multiset of elements the harness knows to be stored *)
| EContents (ref : list Z).      (* lists only: Map with f(i, v) = 2v + i *)

(* c_reported: the (key, value) sequence the container reports through Keys()/Values() (key = index for
   indexed containers); c_obs: per command, None = the call panicked *)
Record case := { c_kind : kind; c_reported : list (Z * Z); c_cmds : list cmd;
                 c_obs : list (option out); c_enum : list eobs }.

Definition pair_eqb (a b : Z * Z) : bool := (fst a =? fst b) && (snd a =? snd b).
Definition out_eqb (a b : out) : bool := Bool.eqb (fst a) (fst b) && option_eqb pair_eqb (snd a) (snd b).
Definition mobs_eqb (m : mout) (o : option out) : bool :=
  match m, o with MOut a, Some b => out_eqb a b | MPanic, None => true | _, _ => false end.
Definition sobs_eqb (a : out) (o : option out) : bool :=
  match o with Some b => out_eqb a b | None => false end.
Definition pairs_eqb := list_eqb pair_eqb.

Definition depth_fuel : nat := 64.

Definition shape_elements (k : kind) : list (Z * Z) :=
  match k with
  | KIndex vals | KLinked _ vals => indexed vals
  | KHeap arr => indexed arr
  | KLinkedKV ks vs => combine ks vs
  | KTree t => elements t
  | KTreeSet t => indexed (map fst (elements t))
  | KBTree r => b_elements depth_fuel r
  end.

Definition model_run (k : kind) (cs : list cmd) : list mout :=
  let fuel := S (length (shape_elements k)) in
  match k with
  | KIndex vals => run (istep (Z.of_nat (length vals)) (zth vals) fuel) (-1) cs
  | KHeap arr => run (istep (Z.of_nat (length arr)) (heap_value arr) fuel) (-1) cs
  | KLinked b vals => run (lstep (Z.of_nat (length vals)) (fun i p => (i, zth vals p)) b fuel) (-1, None) cs
  | KLinkedKV ks vs =>      (* the ordering list iterates the keys; Key() = the list element, Value() = table[key] *)
      run (lstep (Z.of_nat (length ks)) (fun _ p => (zth ks p, zth vs p)) true fuel) (-1, None) cs
  | KTree t => run (tstep t fuel) TBegin cs
  | KTreeSet t => run (tsstep t fuel) (-1, TBegin) cs
  | KBTree r => run (bstep (Nat.max fuel depth_fuel) r) BBegin cs
  end.

Definition model_covers (k : kind) (c : cmd) : bool := true.

(* the hypothesis of the B-tree theorem (C14_btree_cursor), decided on every dumped shape *)
Definition shape_ok (k : kind) : bool :=
  match k with KBTree r => b_ok depth_fuel r | _ => true end.

Definition is_keyed (k : kind) : bool :=
  match k with KLinkedKV _ _ | KTree _ | KBTree _ => true | _ => false end.
(* Select on an indexed container returns a new container: its elements are re-indexed from 0 *)
Definition select_of (k : kind) (s : list (Z * Z)) (p : pred) : list (Z * Z) :=
  if is_keyed k then spec_select s p else indexed (map snd (spec_select s p)).
Definition map_of (s : list (Z * Z)) : list (Z * Z) := indexed (map (fun e => 2 * snd e + fst e) s).


Definition is_min_first (l : list (Z * Z)) : bool :=
  match l with [] => true | (_, v) :: t => forallb (fun e => v <=? snd e) t end.
Definition perm_b (a b : list Z) : bool := list_eqb Z.eqb (isort a) (isort b).

Definition enum_spec_ok (k : kind) (rep : list (Z * Z)) (e : eobs) : bool :=
  match k, e with
  | _, EContents ref =>      (* only required: each element once, the minimum first *)
      perm_b (map snd rep) ref && is_min_first rep
  | _, EEach vis => pairs_eqb vis rep
  | _, EAny p b => Bool.eqb b (spec_any rep p)
  | _, EAll p b => Bool.eqb b (spec_all rep p)
  | _, EFind p r => option_eqb pair_eqb r (spec_find rep p)
  | _, ESelect p res => pairs_eqb res (select_of k rep p)
  | _, EMap res => pairs_eqb res (map_of rep)
  end.

(* Each through the model: Next until false, collecting *)
Fixpoint collect (l : list mout) : list (Z * Z) :=
  match l with MOut (true, Some e) :: t => e :: collect t | _ => [] end.
Definition model_each (k : kind) : list (Z * Z) :=
  collect (model_run k (repeat Next (S (length (shape_elements k))))).
Definition enum_model_ok (k : kind) (e : eobs) : bool :=
  let s := model_each k in
  match e with
  | EEach vis => pairs_eqb vis s
  | EAny p b => Bool.eqb b (spec_any s p)
  | EAll p b => Bool.eqb b (spec_all s p)
  | EFind p r => option_eqb pair_eqb r (spec_find s p)
  | ESelect p res => pairs_eqb res (select_of k s p)
  | EMap res => pairs_eqb res (map_of s)
  | EContents _ => true
  end.

Fixpoint zip3 (cs : list cmd) (ms : list mout) (ss : list out) (os : list (option out)) : list (cmd * mout * out * option out) :=
  match cs, ms, ss, os with
  | c :: cs', m :: ms', s :: ss', o :: os' => (c, m, s, o) :: zip3 cs' ms' ss' os'
  | _, _, _, _ => []
  end.

Definition step_kind (k : kind) (x : cmd * mout * out * option out) : nat :=
  let '(c, m, s, o) := x in
  let spec_ok := sobs_eqb s o in
  let model_agrees := if model_covers k c then mobs_eqb m o else true in
  kind_of model_agrees spec_ok.

(* code = step*4 + kind over the cursor commands, then over the enumerable observations *)
Definition check_case (c : case) : nat :=
  let k := c_kind c in
  let ms := model_run k (c_cmds c) in
  let ss := spec_run (c_reported c) (c_cmds c) in
  if negb (Nat.eqb (length (c_obs c)) (length (c_cmds c))) then 2 else
  let r := scan (fun (_ : unit) x => (tt, step_kind k x)) tt (zip3 (c_cmds c) ms ss (c_obs c)) 0 in
  if negb (Nat.eqb r 0) then r else
  let base := length (c_cmds c) in
  let r2 := scan (fun (_ : unit) e => (tt, kind_of (enum_model_ok k e) (enum_spec_ok k (c_reported c) e))) tt (c_enum c) base in
  if negb (Nat.eqb r2 0) then r2 else
  (* the shape handed to the model must carry the reported sequence and, for a B-tree, be well formed
     (node arities, depth, strictly ascending keys: what the theorem assumes) -- kind 1 otherwise *)
  if pairs_eqb (shape_elements k) (c_reported c) && shape_ok k then 0%nat else (base + length (c_enum c)) * 4 + 1.

Definition mismatches (cs : list case) : list (nat * nat) := find_bad check_case cs.
