(* C14 specification: a bidirectional cursor over positions before-first (-1), 0..n-1, past-last (n)
   on the sequence the container reports. Elements are (key, value) pairs; for indexed containers the
   key is the index. *)
From VF Require Export Common.Base.
Local Open Scope Z_scope.

Inductive pred := PTrue | PFalse | PValEq (v : Z) | PValGe (v : Z) | PKeyEq (k : Z) | PKeyGe (k : Z).
Definition peval (p : pred) (k v : Z) : bool :=
  match p with
  | PTrue => true | PFalse => false
  | PValEq x => v =? x | PValGe x => x <=? v
  | PKeyEq x => k =? x | PKeyGe x => x <=? k
  end.

Inductive cmd := Next | Prev | First | Last | Begin | End | NextTo (p : pred) | PrevTo (p : pred).

(* result of a command: the boolean, and the element the cursor landed on when it is true *)
Definition out := (bool * option (Z * Z))%type.
Definition miss : out := (false, None).

Section Cursor.
  Variable s : list (Z * Z).
  Definition size : Z := Z.of_nat (length s).
  Definition at_ (c : Z) : option (Z * Z) :=
    if (0 <=? c) && (c <? size) then nth_error s (Z.to_nat c) else None.
  Definition c_next (c : Z) : Z := if c <? size then c + 1 else c.
  Definition c_prev (c : Z) : Z := if 0 <=? c then c - 1 else c.
  Definition land (c : Z) : Z * out :=
    (c, match at_ c with Some e => (true, Some e) | None => miss end).
  Fixpoint scan_to (step : Z -> Z) (fuel : nat) (p : pred) (c : Z) : Z * out :=
    match fuel with
    | O => (c, miss)
    | S f => let c' := step c in
             match at_ c' with
             | Some (k, v) => if peval p k v then (c', (true, Some (k, v))) else scan_to step f p c'
             | None => (c', miss)
             end
    end.
  Definition cstep (c : Z) (m : cmd) : Z * out :=
    match m with
    | Next => land (c_next c)
    | Prev => land (c_prev c)
    | First => land (c_next (-1))
    | Last => land (c_prev size)
    | Begin => (-1, miss)
    | End => (size, miss)
    | NextTo p => scan_to c_next (S (length s)) p c
    | PrevTo p => scan_to c_prev (S (length s)) p c
    end.
End Cursor.

Fixpoint run {S O} (step : S -> cmd -> S * O) (st : S) (cs : list cmd) : list O :=
  match cs with
  | [] => []
  | c :: t => let '(st', o) := step st c in o :: run step st' t
  end.

Definition spec_run (s : list (Z * Z)) (cs : list cmd) : list out := run (cstep s) (-1) cs.

(* enumerables over the reported sequence *)
Definition indexed (vals : list Z) : list (Z * Z) :=
  combine (map Z.of_nat (seq 0 (length vals))) vals.
Definition spec_any (s : list (Z * Z)) (p : pred) : bool := existsb (fun e => peval p (fst e) (snd e)) s.
Definition spec_all (s : list (Z * Z)) (p : pred) : bool := forallb (fun e => peval p (fst e) (snd e)) s.
Definition spec_find (s : list (Z * Z)) (p : pred) : option (Z * Z) := find (fun e => peval p (fst e) (snd e)) s.
Definition spec_select (s : list (Z * Z)) (p : pred) : list (Z * Z) := filter (fun e => peval p (fst e) (snd e)) s.
