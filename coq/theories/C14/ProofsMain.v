(* C14: the theorems stated on the very functions the correspondence check evaluates (Check.model_run) *)
From VF Require Import C14.Spec C14.Model C14.Check C14.ProofsIndex C14.ProofsTree C14.ProofsSet C14.ProofsEnum.
From Coq Require Import ZifyBool.
Local Open Scope Z_scope.

Lemma index_main vals cs : model_run (KIndex vals) cs = map MOut (spec_run (indexed vals) cs).
Proof.
  unfold model_run, spec_run, shape_elements. rewrite indexed_iseq.
  apply (index_cursor (length vals) (zth vals)).
Qed.

Lemma linked_main b vals cs : model_run (KLinked b vals) cs = map MOut (spec_run (indexed vals) cs).
Proof.
  unfold model_run, spec_run, shape_elements. rewrite indexed_iseq.
  apply (linked_cursor (length vals) (fun i p => (i, zth vals p)) b cs (-1, None)).
  split; cbn [fst snd]; lia.
Qed.

Lemma linkedkv_main ks vs cs : length ks = length vs ->
  model_run (KLinkedKV ks vs) cs = map MOut (spec_run (combine ks vs) cs).
Proof.
  intros H. unfold model_run, spec_run, shape_elements. rewrite (combine_iseq ks vs H).
  apply (linked_cursor (length ks) (fun _ p => (zth ks p, zth vs p)) true cs (-1, None)).
  split; cbn [fst snd]; lia.
Qed.

Lemma tree_main t cs : model_run (KTree t) cs = map MOut (spec_run (elements t) cs).
Proof. unfold model_run, spec_run, shape_elements. apply tree_cursor. reflexivity. Qed.

Lemma treeset_main t cs : model_run (KTreeSet t) cs = map MOut (spec_run (indexed (map fst (elements t))) cs).
Proof. unfold model_run, spec_run, shape_elements. apply treeset_cursor. split; reflexivity. Qed.

(* B-tree iterator: every well-formed tree (BTreeShape.b_ok: node shapes, depth below the fuel, in-order keys
   strictly ascending) and EVERY command word *)
From VF Require Import C14.BTreeShape C14.ProofsBTreeBase C14.ProofsBTree.
Lemma btree_main r cs : b_ok depth_fuel r = true ->
  model_run (KBTree r) cs = map MOut (spec_run (b_elements depth_fuel r) cs).
Proof.
  intros H. destruct (b_ok_good _ _ H) as (G & D & E).
  unfold model_run, spec_run, shape_elements. rewrite E.
  set (F := Nat.max (S (length (elems r))) depth_fuel).
  assert (HF : (b_depth r <= S F)%nat) by (subst F; generalize dependent depth_fuel; intros; lia).
  assert (HF2 : (S (length (elems r)) <= F)%nat) by (subst F; generalize depth_fuel; intros; lia).
  clearbody F.
  rewrite (run_ext (bstep F r) (bstep' r F)) by (intros; apply bstep_mirror; exact HF).
  apply btree_cursor'; [exact G|exact HF2|reflexivity].
Qed.

(* Each (Next until false from before-first) visits exactly the reported sequence *)
Lemma each_main k :
  (match k with
   | KHeap _ => False
   | KBTree r => b_ok depth_fuel r = true
   | KLinkedKV ks vs => length ks = length vs
   | _ => True end) ->
  model_each k = shape_elements k.
Proof.
  intros H. unfold model_each. destruct k as [vals|arr|b vals|ks vs|t|t|r]; try contradiction.
  - rewrite index_main. apply spec_each.
  - rewrite linked_main. apply spec_each.
  - rewrite linkedkv_main by exact H. apply spec_each.
  - rewrite tree_main. apply spec_each.
  - rewrite treeset_main. apply spec_each.
  - rewrite btree_main by exact H. (change (shape_elements (KBTree r)) with (b_elements depth_fuel r); generalize (b_elements depth_fuel r); intros l; apply spec_each).
Qed.

(* moving past either end is idempotent *)
Lemma past_end_idempotent (s : list (Z * Z)) :
  cstep s (size s) Next = (size s, miss) /\ cstep s (-1) Prev = (-1, miss).
Proof.
  split; cbn [cstep]; unfold land, c_next, c_prev, at_.
  - replace (size s <? size s) with false by lia.
    replace ((0 <=? size s) && (size s <? size s)) with false by lia. reflexivity.
  - reflexivity.
Qed.

(* the heap iterator shows the heap's root first *)
Lemma heap_first arr : arr <> [] -> heap_value arr 0 = zth arr 0.
Proof.
  destruct arr as [|a arr]; [congruence|]. intros _. unfold heap_value.
  assert (E0 : level_start 0 = 0) by reflexivity. rewrite E0.
  replace (Z.min (0 + (0 + 1)) (Z.of_nat (length (a :: arr)))) with 1 by (cbn [length]; lia).
  reflexivity.
Qed.

From VF Require Import C14.ProofsHeap.
Lemma heap_main arr cs :
  model_run (KHeap arr) cs = map MOut (spec_run (iseq (length arr) (fun i => (i, heap_value arr i))) cs).
Proof.
  unfold model_run, spec_run, shape_elements. rewrite indexed_length.
  rewrite <- (iseq_length (length arr) (fun i => (i, heap_value arr i))) at 2.
  apply (index_cursor (length arr) (heap_value arr)).
Qed.

Lemma heap_each_perm arr : Permutation (map snd (model_each (KHeap arr))) arr.
Proof.
  unfold model_each. rewrite heap_main. unfold shape_elements. rewrite indexed_length.
  set (s := iseq (length arr) (fun i => (i, heap_value arr i))).
  assert (E : S (length arr) = S (length s)) by (unfold s; now rewrite iseq_length).
  rewrite E, spec_each. unfold s, iseq. rewrite map_map. cbn [snd].
  rewrite <- (map_map Z.of_nat (heap_value arr)). apply heap_enum_perm.
Qed.
